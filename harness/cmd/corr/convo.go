//go:build verif

package main

import (
	"encoding/hex"
	"fmt"
	"math/rand"
	"net"
	"os"
	"os/exec"
	"path/filepath"
	"strconv"
	"strings"
	"sync"
	"sync/atomic"
	"syscall"
	"time"

	"stgutg"
	"tglib"

	"golang.org/x/sys/unix"

	"verifharness/peer"
)

// Domains convo-reg (C01) and convo-life (C02): whole conversations of the emulator in test mode against the scripted AMF
// of verifharness/peer over an AF_UNIX SOCK_SEQPACKET socketpair. (The name `conv` belongs to C17's conversion helpers.)
//
//	convo <prop> <mode> <imsi> <mcc> <mnc> <k> <opc> <op> <gnbid> <bitlen> <name> <sst> <sd> <gtp> <r> <p> <s> <rel> <d>
//	      <abba> <choices> <dls> <xul> <xrep> <xexit>
//
// prop   C01 | C02: which clauses the reference AMF judges (NG Setup + registration | the life cycle after it)
// mode   bin  = the real stgutgmain (go build -tags verif of /repo's working tree, `-t`); the values EstablishPDU
//               returns are discarded by main and cannot be observed (rep=x)
//        proc = this binary re-executed as a child that calls the procedures of package stgutg in the order and with
//               the Min clamps of stg-utg.go's test mode (copied below, without main's own sleeps) and prints what
//               EstablishPDU returns; a child because ManageError ends the process
//        hist = the long-history scenario: the child registers UE 0 and then calls EstablishPDU for it <p> times in a row
//               (one UE's uplink NAS COUNT beyond 255 under one key); r must be 1
// strings (imsi, mcc, mnc, k, opc, op, name, sd, gtp) travel as the hex of their octets, `-` = empty; gnbid = the octets
// choices = per UE `rand:sqn:amf:ngksi:amfid:ueip:teid:upfip`, comma separated; dls = the downlink messages in order
// xul/xrep/xexit = the uplink messages, reported sessions and exit status the implementation produced when the line was
// generated: the Lean reference AMF judges exactly these octets. A replay sends `dls` (all of them up front: the emulator
// reads one message per Read) and reports `stale` if the implementation no longer produces xul/xrep/xexit.
//
// Result: exit=<0|1|2|hang> banner=<0|1> ul=<hex,…> rep=<ip:teid:upf,…|x> peer=<ok|res-star|mac|undecodable|->
func init() {
	if v := os.Getenv("VERIF_CONVO_CHILD"); v != "" && len(os.Args) == 2 && os.Args[1] == "-t" {
		if v == "hist" {
			convoHistChild()
		} else {
			convoChild()
		}
		os.Exit(0)
	}
	registerOp("convo", opConvo)
	opLimits["convo"] = 10 * time.Minute
	register("convo-reg", func(e *emitter) { convoDomain(e, "C01") })
	register("convo-life", func(e *emitter) { convoDomain(e, "C02") })
}

// ---------------------------------------------------------------------------------------------- the in-process child

// convoChild is the test-mode branch of stg-utg.go (same calls, same stgutg.Min clamps, same order) without main's
// time.Sleep between iterations and with EstablishPDU's results printed instead of discarded.
func convoChild() {
	var ueList []*tglib.RanUeContext
	var pduList [][]byte
	var c stgutg.Conf
	c.GetConfiguration()
	pdu_establishment_number := stgutg.Min(c.Configuration.Test_ue_registation, c.Configuration.Test_ue_pdu_establishment)
	service_request_number := stgutg.Min(pdu_establishment_number, c.Configuration.Test_ue_service)
	pdu_release_number := stgutg.Min(pdu_establishment_number, c.Configuration.Test_ue_pdu_release)
	ue_deregistration_number := stgutg.Min(c.Configuration.Test_ue_registation, c.Configuration.Test_ue_deregistration)
	conn, err := tglib.ConnectToAmf(c.Configuration.AmfNgapIP, c.Configuration.StgNgapIP, c.Configuration.AmfNgapPort, c.Configuration.StgNgapPort)
	stgutg.ManageError("Error in connection to AMF", err)
	imsi := c.Configuration.Initial_imsi
	stgutg.ManageNGSetup(conn, c.Configuration.Gnb_id, imsi, c.Configuration.Mnc, c.Configuration.Gnb_bitlength, c.Configuration.Gnb_name)
	for i := 0; i < c.Configuration.Test_ue_registation; i++ {
		ue := stgutg.CreateUE(imsi, i, c.Configuration.K, c.Configuration.OPC, c.Configuration.OP)
		ue, pdu, _ := stgutg.RegisterUE(ue, c.Configuration.Mnc, c.Configuration.Mcc, conn)
		ueList = append(ueList, ue)
		pduList = append(pduList, pdu)
	}
	for i := 0; i < pdu_establishment_number; i++ {
		ip, teid, upf := stgutg.EstablishPDU(c.Configuration.SST, c.Configuration.SD, ueList[i], conn, c.Configuration.Gnb_gtp)
		fmt.Printf("REPORT %d %s %d %s\n", i, hx(ip), teid, hx(upf))
	}
	for i := 0; i < service_request_number; i++ {
		stgutg.ServiceRequest(pduList[i], ueList[i], conn, c.Configuration.Gnb_gtp)
	}
	for i := 0; i < pdu_release_number; i++ {
		stgutg.ReleasePDU(c.Configuration.SST, c.Configuration.SD, ueList[i], conn)
	}
	for i := 0; i < ue_deregistration_number; i++ {
		stgutg.DeregisterUE(ueList[i], c.Configuration.Mnc, conn)
	}
	fmt.Println(">> All tests finished")
	conn.Close()
}

// convoHistChild is the long-history scenario (mode hist): NG Setup, registration of UE 0, then ue_pdu calls of EstablishPDU
// for that same UE, one after the other (no sleeps on this path). It is not a path of main: it drives one UE's uplink NAS
// COUNT far beyond 255 under one key (sequence number wrap, overflow counter) through the real NASEncode.
func convoHistChild() {
	var c stgutg.Conf
	c.GetConfiguration()
	conn, err := tglib.ConnectToAmf(c.Configuration.AmfNgapIP, c.Configuration.StgNgapIP, c.Configuration.AmfNgapPort, c.Configuration.StgNgapPort)
	stgutg.ManageError("Error in connection to AMF", err)
	imsi := c.Configuration.Initial_imsi
	stgutg.ManageNGSetup(conn, c.Configuration.Gnb_id, imsi, c.Configuration.Mnc, c.Configuration.Gnb_bitlength, c.Configuration.Gnb_name)
	ue := stgutg.CreateUE(imsi, 0, c.Configuration.K, c.Configuration.OPC, c.Configuration.OP)
	ue, _, _ = stgutg.RegisterUE(ue, c.Configuration.Mnc, c.Configuration.Mcc, conn)
	for i := 0; i < c.Configuration.Test_ue_pdu_establishment; i++ {
		ip, teid, upf := stgutg.EstablishPDU(c.Configuration.SST, c.Configuration.SD, ue, conn, c.Configuration.Gnb_gtp)
		fmt.Printf("REPORT %d %s %d %s\n", i, hx(ip), teid, hx(upf))
	}
	fmt.Println(">> All tests finished")
	conn.Close()
}

// ---------------------------------------------------------------------------------------------- one run

type convoRes struct {
	exit    string
	banner  bool
	ul, dl  [][]byte
	rep     []string
	stdout  string
	peerErr string
}

var convoSeq int64

// convoExec starts the emulator (mode bin) or the procedure child (mode proc) on one end of a socketpair and plays the AMF:
// `preload` is sent up front, `respond` (may be nil) answers every uplink message.
func convoExec(mode string, yaml string, preload [][]byte, respond func([]byte) [][]byte) *convoRes {
	res := &convoRes{exit: "hang"}
	bin, err := os.Executable()
	if err != nil {
		res.peerErr = err.Error()
		return res
	}
	if mode == "bin" {
		b, err := buildEmulator()
		if err != nil {
			res.peerErr = "build-failed"
			return res
		}
		bin = b
	}
	dir := filepath.Join(fsRunRoot(), fmt.Sprintf("%d-c%d-%d", os.Getpid(), time.Now().UnixNano()%1e9, atomic.AddInt64(&convoSeq, 1)))
	if err := os.MkdirAll(dir, 0o755); err != nil {
		res.peerErr = err.Error()
		return res
	}
	defer os.RemoveAll(dir)
	if err := os.WriteFile(filepath.Join(dir, "config.yaml"), []byte(yaml), 0o644); err != nil {
		res.peerErr = err.Error()
		return res
	}
	fds, err := unix.Socketpair(unix.AF_UNIX, unix.SOCK_SEQPACKET|unix.SOCK_CLOEXEC, 0)
	if err != nil {
		res.peerErr = err.Error()
		return res
	}
	fd := fds[0]
	defer unix.Close(fd)
	childEnd := os.NewFile(uintptr(fds[1]), "n2-child")
	outF, err := os.Create(filepath.Join(dir, "stdout"))
	if err != nil {
		res.peerErr = err.Error()
		return res
	}
	defer outF.Close()
	cmd := exec.Command(bin, "-t")
	cmd.Dir = dir
	cmd.Stdout, cmd.Stderr = outF, nil
	cmd.ExtraFiles = []*os.File{childEnd}
	env := []string{}
	for _, kv := range os.Environ() {
		if !strings.HasPrefix(kv, "VERIF_CONVO_CHILD=") && !strings.HasPrefix(kv, "STGUTG_VERIF_FD=") {
			env = append(env, kv)
		}
	}
	env = append(env, "STGUTG_VERIF_FD=3")
	if mode == "proc" {
		env = append(env, "VERIF_CONVO_CHILD=1")
	} else if mode == "hist" {
		env = append(env, "VERIF_CONVO_CHILD=hist")
	}
	cmd.Env = env
	cmd.SysProcAttr = &syscall.SysProcAttr{Pdeathsig: syscall.SIGKILL, Setpgid: true}
	if err := cmd.Start(); err != nil {
		childEnd.Close()
		res.peerErr = err.Error()
		return res
	}
	childEnd.Close()
	exited := make(chan error, 1)
	go func() { exited <- cmd.Wait() }()
	send := func(b []byte) bool {
		if err := unix.Send(fd, b, unix.MSG_NOSIGNAL|unix.MSG_DONTWAIT); err != nil {
			return false
		}
		res.dl = append(res.dl, b)
		return true
	}
	for _, d := range preload {
		if !send(d) {
			break
		}
	}
	buf := make([]byte, 65536)
	idle := 8 * time.Second
	hardLimit := 5 * time.Minute // a conversation of 6 UEs takes about a minute; nothing may hang the check
	start := time.Now()
	last := time.Now()
	var waitErr error
	haveExit, timedOut := false, false
loop:
	for {
		if time.Since(start) > hardLimit {
			timedOut = true
			break
		}
		p := []unix.PollFd{{Fd: int32(fd), Events: unix.POLLIN}}
		n, perr := unix.Poll(p, 100)
		if perr == unix.EINTR {
			n = 0 // interrupted (the Go runtime preempts with signals): never fall into the receive below without data
		} else if perr != nil {
			break
		}
		if n <= 0 {
			select {
			case waitErr = <-exited:
				haveExit = true
				for {
					k, _, e := unix.Recvfrom(fd, buf, unix.MSG_DONTWAIT)
					if e != nil || k <= 0 {
						break
					}
					res.ul = append(res.ul, append([]byte{}, buf[:k]...))
				}
				break loop
			default:
			}
			if time.Since(last) > idle {
				timedOut = true
				break
			}
			continue
		}
		k, _, rerr := unix.Recvfrom(fd, buf, unix.MSG_DONTWAIT)
		if rerr == unix.EAGAIN || rerr == unix.EINTR {
			continue
		}
		if rerr != nil || k <= 0 {
			break
		}
		last = time.Now()
		ul := append([]byte{}, buf[:k]...)
		res.ul = append(res.ul, ul)
		if respond != nil {
			for _, d := range respond(ul) {
				if !send(d) {
					break loop
				}
			}
		}
	}
	if !haveExit {
		if timedOut {
			cmd.Process.Kill()
			waitErr = <-exited
		} else {
			select {
			case waitErr = <-exited:
			case <-time.After(idle):
				timedOut = true
				cmd.Process.Kill()
				waitErr = <-exited
			}
		}
	}
	switch {
	case timedOut:
		res.exit = "hang"
	case waitErr == nil:
		res.exit = "0"
	default:
		if ee, ok := waitErr.(*exec.ExitError); ok {
			ws := ee.Sys().(syscall.WaitStatus)
			if ws.Signaled() {
				res.exit = strconv.Itoa(128 + int(ws.Signal()))
			} else {
				res.exit = strconv.Itoa(ws.ExitStatus())
			}
		} else {
			res.peerErr = waitErr.Error()
		}
	}
	so, _ := os.ReadFile(filepath.Join(dir, "stdout"))
	res.stdout = string(so)
	for _, l := range strings.Split(res.stdout, "\n") {
		if strings.Contains(l, "All tests finished") {
			res.banner = true
		}
		if strings.HasPrefix(l, "REPORT ") {
			f := strings.Fields(l)
			if len(f) == 5 {
				res.rep = append(res.rep, f[2]+":"+f[3]+":"+f[4])
			}
		}
	}
	return res
}

func hexList(l [][]byte) string {
	if len(l) == 0 {
		return "-"
	}
	s := make([]string, len(l))
	for i, b := range l {
		s[i] = hex.EncodeToString(b)
	}
	return strings.Join(s, ",")
}

func parseHexList(s string) [][]byte {
	if s == "-" {
		return nil
	}
	var out [][]byte
	for _, t := range strings.Split(s, ",") {
		out = append(out, aHex(t))
	}
	return out
}

func (r *convoRes) repText(mode string) string {
	if mode == "bin" {
		return "x"
	}
	if len(r.rep) == 0 {
		return "-"
	}
	return strings.Join(r.rep, ",")
}

func b2s(b bool) string {
	if b {
		return "1"
	}
	return "0"
}

// cvx: a Go string as a token (hex of its octets)
func cvx(s string) string { return hx([]byte(s)) }
func cvunx(t string) string {
	return string(aHex(t))
}

// ---------------------------------------------------------------------------------------------- the op (replay path)

func convoConfig(a []string) peer.Config {
	var c peer.Config
	c.AmfNgapIP, c.AmfNgapPort, c.StgNgapIP, c.StgNgapPort = "192.168.61.4", 38412, "192.168.61.3", 9487
	c.DownlinkIface, c.UplinkIface = "enp0s8", "enp0s9"
	c.InitialImsi, c.Mcc, c.Mnc, c.K, c.Opc, c.Op = cvunx(a[0]), cvunx(a[1]), cvunx(a[2]), cvunx(a[3]), cvunx(a[4]), cvunx(a[5])
	c.GnbID = hex.EncodeToString(aHex(a[6]))
	c.GnbBitlength = aU64(a[7])
	c.GnbName = cvunx(a[8])
	c.Sst = int32(aI64(a[9]))
	c.Sd = cvunx(a[10])
	c.GnbGtpIP = cvunx(a[11])
	c.UeRegistration, c.UePdu, c.UeService, c.UePduRelease, c.UeDeregistration = int(aI64(a[12])), int(aI64(a[13])), int(aI64(a[14])), int(aI64(a[15])), int(aI64(a[16]))
	c.UeNumber = c.UeRegistration
	return c
}

func convoCfgTokens(c peer.Config) []string {
	return []string{cvx(c.InitialImsi), cvx(c.Mcc), cvx(c.Mnc), cvx(c.K), cvx(c.Opc), cvx(c.Op), hx(mustHexS(c.GnbID)), u(c.GnbBitlength), cvx(c.GnbName),
		i(int64(c.Sst)), cvx(c.Sd), cvx(c.GnbGtpIP),
		strconv.Itoa(c.UeRegistration), strconv.Itoa(c.UePdu), strconv.Itoa(c.UeService), strconv.Itoa(c.UePduRelease), strconv.Itoa(c.UeDeregistration)}
}

func mustHexS(s string) []byte {
	b, err := hex.DecodeString(s)
	if err != nil {
		panic(err)
	}
	return b
}

func opConvo(a []string) string {
	if len(a) != 25 {
		panic(badArg{})
	}
	mode := a[1]
	if (a[0] != "C01" && a[0] != "C02") || (mode != "bin" && mode != "proc" && mode != "hist") {
		panic(badArg{})
	}
	cfg := convoConfig(a[2:19])
	dls := parseHexList(a[21])
	r := convoExec(mode, cfg.YAML(), dls, nil)
	if r.peerErr != "" {
		fmt.Fprintln(os.Stderr, "convo:", r.peerErr)
		return "peer-failed"
	}
	out := fmt.Sprintf("exit=%s banner=%s ul=%s rep=%s", r.exit, b2s(r.banner), hexList(r.ul), r.repText(mode))
	if hexList(r.ul) != a[22] || r.repText(mode) != a[23] || r.exit != a[24] {
		return "stale " + out
	}
	return out
}

// ---------------------------------------------------------------------------------------------- generator

type convoScenario struct {
	prop, mode string
	s          *peer.Script
	line, res  string
}

func ip4hex(s string) string { return hx(net.ParseIP(s).To4()) }

func choicesText(s *peer.Script, n int) string {
	if n <= 0 {
		return "-"
	}
	var out []string
	for k := 0; k < n; k++ {
		c := s.UE(k)
		out = append(out, fmt.Sprintf("%s:%s:%s:%d:%d:%s:%d:%s", c.RAND, c.SQN, c.AMF, c.NgKSI, c.AmfUeNgapID, ip4hex(c.UEIP), c.TEID, ip4hex(c.UPFIP)))
	}
	return strings.Join(out, ",")
}

func (sc *convoScenario) run() {
	rsp := peer.NewResponder(sc.s)
	r := convoExec(sc.mode, sc.s.Config.YAML(), nil, rsp.React)
	args := []string{sc.prop, sc.mode}
	args = append(args, convoCfgTokens(sc.s.Config)...)
	args = append(args, hx(mustHexS(sc.s.Amf.ABBA)), choicesText(sc.s, sc.s.Config.UeRegistration), hexList(r.dl), hexList(r.ul), r.repText(sc.mode), r.exit)
	sc.line = "convo " + strings.Join(args, " ")
	if r.peerErr != "" {
		fmt.Fprintln(os.Stderr, "convo:", r.peerErr)
		sc.res = "peer-failed"
		return
	}
	sc.res = fmt.Sprintf("exit=%s banner=%s ul=%s rep=%s", r.exit, b2s(r.banner), hexList(r.ul), r.repText(sc.mode))
}

func rdigits(r *rand.Rand, n int) string {
	b := make([]byte, n)
	for k := range b {
		b[k] = byte('0' + r.Intn(10))
	}
	return string(b)
}

func rhexs(r *rand.Rand, n int) string {
	b := make([]byte, n)
	r.Read(b)
	return hex.EncodeToString(b)
}

// convoScript draws a configuration and the AMF's choices. tailClass: 0 = imsi mod 10^4 (+ index) stays in 1..15 (a valid
// PDU session identity), 1 = 16..255 (reserved PSI values), 2 = 256..9999 (beyond uint8 / the NGAP PDUSessionID range), 3 = 0.
func convoScript(r *rand.Rand, counts [5]int, tailClass int) *peer.Script {
	s := &peer.Script{Seed: r.Int63()}
	c := &s.Config
	c.AmfNgapIP, c.AmfNgapPort, c.StgNgapIP, c.StgNgapPort = "192.168.61.4", 38412, "192.168.61.3", 9487
	c.DownlinkIface, c.UplinkIface = "enp0s8", "enp0s9"
	c.GnbGtpIP = net.IPv4(byte(1+r.Intn(223)), byte(r.Intn(256)), byte(r.Intn(256)), byte(1+r.Intn(254))).String()
	n := counts[0]
	if n < 1 {
		n = 1
	}
	c.Mcc = rdigits(r, 3)
	c.Mnc = rdigits(r, 2+r.Intn(2))
	if r.Intn(5) == 0 {
		c.Mcc = "0" + rdigits(r, 2) // leading zero
	}
	if r.Intn(5) == 0 {
		c.Mnc = "0" + rdigits(r, len(c.Mnc)-1)
	}
	// MSIN: 5..10 digits (IMSI at most 15), at least 5 so that the last four digits are the session-identity tail
	maxMsin := 15 - 3 - len(c.Mnc)
	msinLen := 5 + r.Intn(maxMsin-4)
	if r.Intn(3) == 0 {
		msinLen = maxMsin
	}
	var tail int
	switch tailClass {
	case 0:
		tail = 1
		if n < 15 {
			tail = 1 + r.Intn(15-n+1)
		}
	case 1:
		tail = 16 + r.Intn(240-n)
	case 2:
		tail = 256 + r.Intn(9744-n)
	default:
		tail = 0
	}
	head := rdigits(r, msinLen-4)
	if r.Intn(4) == 0 {
		head = strings.Repeat("0", msinLen-4) // MSIN with leading zeros
	}
	c.InitialImsi = c.Mcc + c.Mnc + head + fmt.Sprintf("%04d", tail)
	bl := uint64(22 + r.Intn(11))
	switch r.Intn(6) {
	case 0:
		bl = 22
	case 1:
		bl = 32
	}
	c.GnbBitlength = bl
	nb := int((bl + 7) / 8)
	id := make([]byte, nb)
	for k := range id {
		id[k] = byte(r.Intn(0x80)) // octets below 0x80: yaml.v2 turns \x80.. into UTF-8 code points (C18)
	}
	if rem := bl % 8; rem != 0 {
		id[nb-1] &= byte(0xff << (8 - rem))
	}
	if convoScripts%5 == 3 {
		// gnb_id holds one octet more than gnb_bitlength needs (a 4-octet id with a bit length of 24): the gNB id announced is
		// its first gnb_bitlength bits
		id = append(id, byte(1+r.Intn(0x7f)))
	}
	c.GnbID = hex.EncodeToString(id)
	names := []string{"gnb-" + rdigits(r, 1+r.Intn(8)), "open5gs", "g", "STGUTG-gNB." + rdigits(r, 3), "a-rather-long-ran-node-name-" + rdigits(r, 20)}
	c.GnbName = names[r.Intn(len(names))]
	convoScripts++
	if convoScripts%4 == 2 || r.Intn(8) == 0 {
		// around and beyond the root of RANNodeName SIZE(1..150, ...): the name that reaches NG Setup is the configured one
		n := []int{149, 150, 151, 152, 200, 255, 300}[r.Intn(7)]
		c.GnbName = strings.Repeat("n", n-8) + rdigits(r, 8)
	}
	c.K = strings.ToUpper(rhexs(r, 16))
	if r.Intn(2) == 0 {
		c.K = strings.ToLower(c.K)
	}
	switch r.Intn(3) {
	case 0: // OPc only
		c.Opc, c.Op = strings.ToUpper(rhexs(r, 16)), ""
	case 1: // OP only
		c.Opc, c.Op = "", rhexs(r, 16)
	default:
		c.Opc, c.Op = rhexs(r, 16), strings.ToUpper(rhexs(r, 16))
	}
	c.Sst = int32(1 + r.Intn(4))
	c.Sd = rhexs(r, 3)
	if convoScripts%3 == 1 {
		// reserved and boundary slice differentiators, in both letter cases: the configured value is what goes on the wire
		c.Sd = []string{"ffffff", "FFFFFF", "000000", "fffffe", "FfFfFf", "0000ff"}[(convoScripts/3)%6]
	}
	c.UeNumber = counts[0]
	c.UeRegistration, c.UePdu, c.UeService, c.UePduRelease, c.UeDeregistration = counts[0], counts[1], counts[2], counts[3], counts[4]
	s.Amf = peer.AmfParams{Name: "amf-" + rdigits(r, 3), Region: uint8(r.Intn(256)), SetID: uint16(r.Intn(1024)), Pointer: uint8(r.Intn(64)),
		Capacity: int64(r.Intn(256)), ABBA: "0000"}
	for k := 0; k < n; k++ {
		var ch peer.UEChoice
		ch.RAND, ch.SQN, ch.NgKSI = rhexs(r, 16), rhexs(r, 6), uint8(r.Intn(7))
		ch.AMF = hex.EncodeToString([]byte{0x80 | byte(r.Intn(128)), byte(r.Intn(256))})
		switch r.Intn(8) {
		case 0:
			ch.AmfUeNgapID = 0
		case 1:
			ch.AmfUeNgapID = 1 << 32
		case 2:
			ch.AmfUeNgapID = 1<<40 - 1
		case 3:
			ch.AmfUeNgapID = int64(r.Intn(256))
		case 4:
			ch.AmfUeNgapID = int64(r.Intn(1 << 16))
		case 5:
			ch.AmfUeNgapID = r.Int63n(1 << 32)
		default:
			ch.AmfUeNgapID = r.Int63n(1 << 40)
		}
		// distinct per UE (an AMF never gives one id to two UEs)
		for dup := true; dup; {
			dup = false
			for _, o := range s.UEs {
				if o.AmfUeNgapID == ch.AmfUeNgapID {
					dup = true
					ch.AmfUeNgapID = (ch.AmfUeNgapID + 1) % (1 << 40)
				}
			}
		}
		ch.Tmsi = r.Uint32()
		ch.UEIP = net.IPv4(10, byte(60+r.Intn(4)), byte(r.Intn(256)), byte(1+r.Intn(254))).String()
		ch.TEID = r.Uint32()
		if r.Intn(6) == 0 {
			ch.TEID = []uint32{0, 1, 0xffffffff, 0x80000000}[r.Intn(4)]
		}
		ch.UPFIP = net.IPv4(10, 200, byte(r.Intn(256)), byte(1+r.Intn(254))).String()
		if r.Intn(3) == 0 {
			// authorized QoS rules of 256 octets and more (LV-E: two length octets), up to what the 2048-octet receive
			// buffer of EstablishPDU leaves room for
			ch.QosExtra = []int{22, 23, 24, 30, 51, 76, 100, 150}[r.Intn(8)]
		}
		s.UEs = append(s.UEs, ch)
	}
	return s
}

var convoScripts int

func convoDomain(e *emitter, prop string) {
	var scs []*convoScenario
	add := func(mode string, counts [5]int, tailClass int) {
		scs = append(scs, &convoScenario{prop: prop, mode: mode, s: convoScript(e.rng, counts, tailClass)})
	}
	full := func(n int) [5]int { return [5]int{n, n, n, n, n} }
	if v := os.Getenv("VERIF_CONVO_REGEN"); v != "" {
		// re-generate corpus lines: the configuration, counts and AMF choices of every `convo` line of the file are run again
		// against the reactive peer (the downlink messages and the carried transcript are those of the current tree)
		b, err := os.ReadFile(v)
		if err != nil {
			panic(err)
		}
		for _, line := range strings.Split(string(b), "\n") {
			t := strings.Fields(line)
			if len(t) != 26 || t[0] != "convo" {
				continue
			}
			sc := &convoScenario{prop: t[1], mode: t[2], s: &peer.Script{Seed: 1}}
			sc.s.Config = convoConfig(t[3:20])
			sc.s.Amf = peer.AmfParams{Name: "amf-corpus", Region: 0xca, SetID: 0x3f8, Pointer: 0, Capacity: 255, ABBA: hex.EncodeToString(aHex(t[20]))}
			if t[21] != "-" {
				for _, c := range strings.Split(t[21], ",") {
					f := strings.Split(c, ":")
					ip := func(h string) string { return net.IP(aHex(h)).String() }
					sc.s.UEs = append(sc.s.UEs, peer.UEChoice{RAND: f[0], SQN: f[1], AMF: f[2], NgKSI: uint8(aU64(f[3])), AmfUeNgapID: aI64(f[4]),
						Tmsi: 0x01020304, UEIP: ip(f[5]), TEID: uint32(aU64(f[6])), UPFIP: ip(f[7])})
				}
			}
			scs = append(scs, sc)
		}
	} else if v := os.Getenv("VERIF_CONVO_ONLY"); v != "" {
		// one hand-chosen scenario (used to produce the concrete examples of Props/C01.lean, C02.lean): mode:r,p,s,rel,d:tailclass
		f := strings.Split(v, ":")
		var c [5]int
		for k, x := range strings.Split(f[1], ",") {
			c[k], _ = strconv.Atoi(x)
		}
		tc, _ := strconv.Atoi(f[2])
		add(f[0], c, tc)
	} else if prop == "C01" {
		// NG Setup + registration: the in-process path has no sleeps, so most cases run there; the binary for a few
		for k := 0; k < e.n; k++ {
			n := 1 + e.rng.Intn(3)
			if e.thorough() {
				n = 1 + e.rng.Intn(6)
			}
			add("proc", [5]int{n, 0, 0, 0, 0}, e.rng.Intn(3))
		}
		add("proc", [5]int{0, 0, 0, 0, 0}, 0)
		add("proc", [5]int{-1, 2, 2, 2, 2}, 0)
		add("bin", [5]int{1, 0, 0, 0, 0}, 0)
		add("bin", [5]int{2, -3, 0, 0, 0}, 2)
		add("bin", full(1), 0)
		if e.thorough() {
			for k := 0; k < 6; k++ {
				add("bin", [5]int{1 + e.rng.Intn(6), 0, 0, 0, 0}, e.rng.Intn(3))
			}
			add("bin", full(3), 0)
		}
	} else {
		for k := 0; k < e.n; k++ {
			n := 1 + e.rng.Intn(3)
			if e.thorough() {
				n = 1 + e.rng.Intn(6)
			}
			var c [5]int
			c[0] = n
			switch e.rng.Intn(3) {
			case 0:
				c = full(n)
			default:
				for j := 1; j < 5; j++ {
					c[j] = e.rng.Intn(n+3) - 1 // -1 .. n+1: negative, zero, below, equal, above
				}
			}
			add("proc", c, 0)
		}
		// counts above / below N, zero, negative; the PDU session identity classes of F14
		add("proc", [5]int{2, 5, 1, 7, 3}, 0)
		add("proc", [5]int{2, 1, 2, 2, 0}, 0)
		add("proc", [5]int{1, 1, 1, 1, 1}, 1)
		add("proc", [5]int{1, 1, 1, 1, 1}, 2)
		add("proc", [5]int{1, 1, 1, 1, 1}, 3)
		add("bin", full(1), 0)
		add("bin", [5]int{2, 3, 1, 2, 2}, 0)
		// the clamps live in main: count vectors with two or more of the dependent counts above / at / below N = 1 at the same
		// time, through the real binary (a clamp that reads the wrong operand indexes ueList out of range or skips a procedure)
		for _, c := range [][5]int{{1, 2, 0, 2, 1}, {1, 2, 2, 1, 2}, {1, 3, 1, 2, 0}, {1, 2, 3, 3, 3}, {1, 0, 2, 2, 2}, {1, 1, 2, 0, 2},
			{1, 2, 2, 0, 0}, {1, 1, 0, 2, 1}} {
			add("bin", c, 0)
		}
		// one UE, 270 establishment requests in a row: uplink NAS COUNT 0..271 under one key (SQN wrap at 256)
		add("hist", [5]int{1, 270, 0, 0, 0}, 0)
		if e.thorough() {
			for _, c := range [][5]int{{2, 3, 3, 3, 3}, {2, 1, 3, 3, 0}, {2, 3, 1, 3, 3}, {2, 4, 0, 1, 4}, {2, 2, 3, 1, 1}, {2, 0, 3, 3, 3}} {
				add("bin", c, 0)
			}
			add("hist", [5]int{1, 600, 0, 0, 0}, 0)
			add("bin", full(3), 0)
			add("bin", [5]int{6, 4, 7, 2, 6}, 0)
			add("bin", full(1), 2)
			add("proc", full(6), 0)
			add("proc", [5]int{3, 3, 3, 3, 3}, 1)
			add("proc", [5]int{3, 3, 3, 3, 3}, 2)
		}
	}
	if _, err := buildEmulator(); err != nil {
		for _, sc := range scs {
			sc.line, sc.res = "convo "+sc.prop+" "+sc.mode, "build-failed"
		}
	} else {
		par := 16
		if v, err := strconv.Atoi(os.Getenv("VERIF_FS_PAR")); err == nil && v > 0 {
			par = v
		}
		jobs := make(chan *convoScenario)
		var wg sync.WaitGroup
		for w := 0; w < par; w++ {
			wg.Add(1)
			go func() {
				defer wg.Done()
				for sc := range jobs {
					sc := sc
					r := guardT(opLimits["convo"], func() string { sc.run(); return "" })
					if r != "" {
						sc.line, sc.res = "convo "+sc.prop+" "+sc.mode, r
					}
				}
			}()
		}
		for _, sc := range scs {
			jobs <- sc
		}
		close(jobs)
		wg.Wait()
	}
	for _, sc := range scs {
		fmt.Fprintf(e.w, "%s\t%s\n", sc.line, sc.res)
	}
}
