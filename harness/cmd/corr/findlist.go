package main

import (
	"reflect"

	"free5gclib/ngap"
	"free5gclib/ngap/ngapType"
	"stgutg"
)

// findlist <hex of an NGAP PDU> → err (ngap.Decoder refuses) | nil | ok <number of items>
//
// stgutg.FindPDUSessionResourceSetupListSUReq on whatever the AMF may send where EstablishPDU expects the setup
// request. Inside EstablishPDU a nil result ends in ManageError (os.Exit) and can only be observed from outside the
// process (C19, C02); the selection itself — which message types, which position of the list IE — is compared here
// with Model.Emulator.findSetupList for every kind of NGAP PDU (extract domain, C12; handler in Driver/Convo.lean).
func init() {
	registerOp("findlist", func(a []string) string {
		if len(a) != 1 {
			panic(badArg{})
		}
		msg, err := ngap.Decoder(aHex(a[0]))
		if err != nil {
			return "err"
		}
		l := stgutg.FindPDUSessionResourceSetupListSUReq(msg)
		if l == nil {
			return "nil"
		}
		return "ok " + u(uint64(len(l.List)))
	})
}

// findListCases: setup requests with any choice and order of IEs (with and without the list), every other kind of PDU
func findListCases(e *emitter) {
	g := newVgen(e.rng)
	g.cleanBits = true
	emit := func(pdu ngapType.NGAPPDU) {
		if b, err := safeMarshal(reflect.ValueOf(pdu), ngapTop); err == nil && len(b) > 0 && len(b) < 4000 {
			e.op("findlist", hx(b))
		}
	}
	n := 40 + e.n/40
	for k := 0; k < n; k++ {
		var pdu ngapType.NGAPPDU
		pdu.Present = ngapType.NGAPPDUPresentInitiatingMessage
		pdu.InitiatingMessage = new(ngapType.InitiatingMessage)
		im := pdu.InitiatingMessage
		im.ProcedureCode.Value = ngapType.ProcedureCodePDUSessionResourceSetup
		im.Criticality.Value = ngapType.CriticalityPresentReject
		im.Value.Present = ngapType.InitiatingMessagePresentPDUSessionResourceSetupRequest
		req := genValue(g, "PDUSessionResourceSetupRequest").Interface().(ngapType.PDUSessionResourceSetupRequest)
		ies := req.ProtocolIEs.List
		switch k % 4 {
		case 1: // without the setup list
			var kept []ngapType.PDUSessionResourceSetupRequestIEs
			for _, ie := range ies {
				if ie.Id.Value != ngapType.ProtocolIEIDPDUSessionResourceSetupListSUReq {
					kept = append(kept, ie)
				}
			}
			ies = kept
		default:
			// make sure the list is there (the random IEs rarely include it), then at a random position
			has := false
			for _, ie := range ies {
				has = has || ie.Id.Value == ngapType.ProtocolIEIDPDUSessionResourceSetupListSUReq
			}
			for try := 0; !has && try < 200; try++ {
				ie := genValue(g, "PDUSessionResourceSetupRequestIEs").Interface().(ngapType.PDUSessionResourceSetupRequestIEs)
				if ie.Id.Value == ngapType.ProtocolIEIDPDUSessionResourceSetupListSUReq {
					ies = append(ies, ie)
					has = true
				}
			}
			if k%4 != 0 {
				e.rng.Shuffle(len(ies), func(i, j int) { ies[i], ies[j] = ies[j], ies[i] })
			}
		}
		req.ProtocolIEs.List = ies
		im.Value.PDUSessionResourceSetupRequest = &req
		emit(pdu)
	}
	// every other kind of PDU (initiating messages, successful and unsuccessful outcomes)
	for k := 0; k < 2*n; k++ {
		v := genValue(g, "NGAPPDU")
		emit(v.Interface().(ngapType.NGAPPDU))
	}
	e.op("findlist", "-")
	e.op("findlist", "00")
}
