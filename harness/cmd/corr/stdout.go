package main

import (
	"os"
	"syscall"
)

// dupStdout duplicates fd 1 for the protocol stream and points fd 1 and fd 2 at /dev/null so that
// fmt.Println/logrus output from the code under test cannot corrupt the op lines.
// Set VERIF_CORR_STDERR=1 to keep stderr (debugging).
func dupStdout() int {
	fd, err := syscall.Dup(1)
	if err != nil {
		panic(err)
	}
	null, err := os.OpenFile("/dev/null", os.O_WRONLY, 0)
	if err != nil {
		panic(err)
	}
	if err := syscall.Dup2(int(null.Fd()), 1); err != nil {
		panic(err)
	}
	if os.Getenv("VERIF_CORR_STDERR") == "" {
		if err := syscall.Dup2(int(null.Fd()), 2); err != nil {
			panic(err)
		}
	}
	return fd
}
