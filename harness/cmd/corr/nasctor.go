package main

import (
	"encoding/base64"
	"encoding/hex"
	"fmt"
	"strconv"
	"strings"

	"free5gclib/nas/nasTestpacket"
	"free5gclib/nas/nasType"
	"free5gclib/openapi/models"
)

// Domain nas-ctor (C09): the 14 message constructors of nasTestpacket/NasPdu.go that the emulator uses.
//   nctor <Constructor> <args…>  → ok <hex>
// scalars decimal; byte strings hex ("-" empty, "nil" = nil slice / nil pointer); IE structs Iei.Len.hex.

// exact returns a copy whose capacity equals its length (the constructors slice some arguments beyond len).
func exact(b []byte) []byte {
	c := make([]byte, len(b))
	copy(c, b)
	return c
}

func aOptBytes(s string) []byte {
	if s == "nil" {
		return nil
	}
	return exact(aHex(s))
}

func aU8(s string) uint8 {
	v := aU64(s)
	if v > 255 {
		panic(badArg{})
	}
	return uint8(v)
}

func aIE(s string) (iei uint8, ln uint64, data []byte, isNil bool) {
	if s == "nil" {
		return 0, 0, nil, true
	}
	p := strings.Split(s, ".")
	if len(p) != 3 {
		panic(badArg{})
	}
	return aU8(p[0]), aU64(p[1]), exact(aHex(p[2])), false
}

func aSnssai(sst, sd string) *models.Snssai {
	if sst == "nil" {
		return nil
	}
	v := aU64(sst)
	b := aHex(sd)
	return &models.Snssai{Sst: int32(uint8(v)), Sd: hex.EncodeToString(b)}
}

func init() {
	register("nas-ctor", nasCtor)
	registerOp("nctor", func(a []string) string {
		name, a := a[0], a[1:]
		need := func(n int) {
			if len(a) != n {
				panic(badArg{})
			}
		}
		switch name {
		case "GetRegistrationRequest":
			need(7)
			iei, ln, data, isNil := aIE(a[1])
			if isNil || ln > 65535 {
				panic(badArg{})
			}
			mi := nasType.MobileIdentity5GS{Iei: iei, Len: uint16(ln), Buffer: data}
			var nssai *nasType.RequestedNSSAI
			if iei, ln, data, isNil := aIE(a[2]); !isNil {
				if ln > 255 {
					panic(badArg{})
				}
				nssai = &nasType.RequestedNSSAI{Iei: iei, Len: uint8(ln), Buffer: data}
			}
			var sec *nasType.UESecurityCapability
			if iei, ln, data, isNil := aIE(a[3]); !isNil {
				if ln > 255 {
					panic(badArg{})
				}
				sec = &nasType.UESecurityCapability{Iei: iei, Len: uint8(ln), Buffer: data}
			}
			var cap5 *nasType.Capability5GMM
			if iei, ln, data, isNil := aIE(a[4]); !isNil {
				if ln > 255 || len(data) != 13 {
					panic(badArg{})
				}
				cap5 = &nasType.Capability5GMM{Iei: iei, Len: uint8(ln)}
				copy(cap5.Octet[:], data)
			}
			var uds *nasType.UplinkDataStatus
			if iei, ln, data, isNil := aIE(a[6]); !isNil {
				if ln > 255 {
					panic(badArg{})
				}
				uds = &nasType.UplinkDataStatus{Iei: iei, Len: uint8(ln), Buffer: data}
			}
			return okHex(retainBytes(nasTestpacket.GetRegistrationRequest(aU8(a[0]), mi, nssai, sec, cap5, aOptBytes(a[5]), uds)), nil)
		case "GetPduSessionEstablishmentRequest":
			need(1)
			return okHex(retainBytes(nasTestpacket.GetPduSessionEstablishmentRequest(aU8(a[0]))), nil)
		case "GetPduSessionModificationRequest":
			need(1)
			return okHex(retainBytes(nasTestpacket.GetPduSessionModificationRequest(aU8(a[0]))), nil)
		case "GetPduSessionReleaseRequest":
			need(1)
			return okHex(retainBytes(nasTestpacket.GetPduSessionReleaseRequest(aU8(a[0]))), nil)
		case "GetPduSessionReleaseComplete":
			need(1)
			return okHex(retainBytes(nasTestpacket.GetPduSessionReleaseComplete(aU8(a[0]))), nil)
		case "GetUlNasTransport_PduSessionReleaseRequest":
			need(1)
			return okHex(retainBytes(nasTestpacket.GetUlNasTransport_PduSessionReleaseRequest(aU8(a[0]))), nil)
		case "GetUlNasTransport_PduSessionEstablishmentRequest":
			need(5)
			return okHex(retainBytes(nasTestpacket.GetUlNasTransport_PduSessionEstablishmentRequest(aU8(a[0]), aU8(a[1]), string(aHex(a[2])), aSnssai(a[3], a[4]))), nil)
		case "GetUlNasTransport_PduSessionModificationRequest":
			need(5)
			return okHex(retainBytes(nasTestpacket.GetUlNasTransport_PduSessionModificationRequest(aU8(a[0]), aU8(a[1]), string(aHex(a[2])), aSnssai(a[3], a[4]))), nil)
		case "GetUlNasTransport_PduSessionReleaseComplete":
			need(5)
			return okHex(retainBytes(nasTestpacket.GetUlNasTransport_PduSessionReleaseComplete(aU8(a[0]), aU8(a[1]), string(aHex(a[2])), aSnssai(a[3], a[4]))), nil)
		case "GetServiceRequest":
			need(1)
			return okHex(retainBytes(nasTestpacket.GetServiceRequest(aU8(a[0]))), nil)
		case "GetAuthenticationResponse":
			need(2)
			eap := aHex(a[1])
			es := ""
			if len(eap) > 0 {
				es = base64.StdEncoding.EncodeToString(eap)
			}
			return okHex(retainBytes(nasTestpacket.GetAuthenticationResponse(exact(aHex(a[0])), es)), nil)
		case "GetRegistrationComplete":
			need(1)
			return okHex(retainBytes(nasTestpacket.GetRegistrationComplete(aOptBytes(a[0]))), nil)
		case "GetSecurityModeComplete":
			need(1)
			return okHex(retainBytes(nasTestpacket.GetSecurityModeComplete(aOptBytes(a[0]))), nil)
		case "GetDeregistrationRequest":
			need(4)
			iei, ln, data, isNil := aIE(a[3])
			if isNil || ln > 65535 {
				panic(badArg{})
			}
			mi := nasType.MobileIdentity5GS{Iei: iei, Len: uint16(ln), Buffer: data}
			return okHex(retainBytes(nasTestpacket.GetDeregistrationRequest(aU8(a[0]), aU8(a[1]), aU8(a[2]), mi)), nil)
		}
		panic(badArg{})
	})
}

func nasCtor(e *emitter) {
	rng := e.rng
	u8 := func(vals ...int) string {
		if rng.Intn(3) == 0 {
			return strconv.Itoa(rng.Intn(256))
		}
		return strconv.Itoa(vals[rng.Intn(len(vals))])
	}
	blob := func(lens ...int) string { return hx(e.bytes(lens[rng.Intn(len(lens))])) }
	ie := func(iei int, lenW int, capN int, absentOK bool) string {
		if absentOK && rng.Intn(3) == 0 {
			return "nil"
		}
		var data []byte
		ln := 0
		if capN > 0 {
			data = e.bytes(capN)
			ln = rng.Intn(capN + 1)
			for k := ln; k < capN; k++ {
				data[k] = 0
			}
		} else {
			data = e.bytes([]int{0, 1, 2, 4, 8, 11, 13, 40, 255}[rng.Intn(9)])
			ln = len(data)
		}
		// a small stream of malformed structs (wrong IEI, Len != len): the model must still agree
		switch rng.Intn(25) {
		case 0:
			iei = rng.Intn(256)
		case 1:
			ln = rng.Intn(1 << (8 * uint(lenW)))
			if capN > 0 && rng.Intn(2) == 0 {
				ln = rng.Intn(capN + 3)
			}
		}
		return fmt.Sprintf("%d.%d.%s", iei, ln, hx(data))
	}
	optBlob := func(lens ...int) string {
		if rng.Intn(4) == 0 {
			return "nil"
		}
		return blob(lens...)
	}
	dnn := func() string {
		if rng.Intn(6) == 0 {
			// a DNN whose FIRST character, read as a number, is the number of characters that follow it (or one more / one
			// less): a value that looks as if it already carried its length octet
			c := "-0123456789ABCDEFGHIJKLMNOPQRSTUVWXYZabc"[rng.Intn(40)]
			b := make([]byte, int(c)+1+[]int{0, 0, 0, -1, 1}[rng.Intn(5)])
			for i := range b {
				b[i] = "abcdefghijklmnopqrstuvwxyz0123456789-"[rng.Intn(37)]
			}
			b[0] = c
			return hx(b)
		}
		switch rng.Intn(8) {
		case 0:
			return "-"
		case 1:
			return hx([]byte("internet"))
		case 2:
			return hx([]byte("ims.mnc001.mcc001.gprs")) // several labels
		case 3:
			return hx(e.bytes(rng.Intn(120)))
		case 4:
			return hx(e.bytes(250 + rng.Intn(10))) // len+1 wraps uint8
		}
		b := make([]byte, 1+rng.Intn(30))
		for i := range b {
			b[i] = "abcdefghijklmnopqrstuvwxyz0123456789-"[rng.Intn(37)]
		}
		return hx(b)
	}
	snssai := func() (string, string) {
		switch rng.Intn(6) {
		case 0:
			return "nil", "-"
		case 1:
			return strconv.Itoa(rng.Intn(256)), blob(0, 1, 2, 4, 5)
		}
		if rng.Intn(4) == 0 {
			// slice differentiators with leading zero octets, the reserved all-ones value, and neighbours
			return strconv.Itoa(1 + rng.Intn(4)), []string{"000001", "00ab00", "0000ff", "ffffff", "000000", "fffffe", "010000", "00ffff"}[rng.Intn(8)]
		}
		return strconv.Itoa([]int{1, 2, 3, rng.Intn(256)}[rng.Intn(4)]), hx(e.bytes(3))
	}
	n := e.n
	for i := 0; i < n; i++ {
		mi := ie(0, 2, 0, false)
		if rng.Intn(2) == 0 { // a SUCI-like identity
			mi = fmt.Sprintf("0.13.%s", hx(append([]byte{0x01, 0x02, 0xf8, 0x39, 0xf0, 0xff, 0x00, 0x00}, e.bytes(5)...)))
		}
		e.op("nctor", "GetRegistrationRequest", u8(1, 2, 3, 4), mi, ie(0x2F, 1, 0, true), ie(0x2E, 1, 0, true),
			ie(0x10, 1, 13, true), optBlob(0, 1, 20, 300, 1000), ie(0x40, 1, 0, true))
		psi := u8(1, 5, 15, 0, 255)
		e.op("nctor", "GetPduSessionEstablishmentRequest", psi)
		e.op("nctor", "GetPduSessionModificationRequest", psi)
		e.op("nctor", "GetPduSessionReleaseRequest", psi)
		e.op("nctor", "GetPduSessionReleaseComplete", psi)
		e.op("nctor", "GetUlNasTransport_PduSessionReleaseRequest", psi)
		for _, c := range []string{"GetUlNasTransport_PduSessionEstablishmentRequest", "GetUlNasTransport_PduSessionModificationRequest", "GetUlNasTransport_PduSessionReleaseComplete"} {
			sst, sd := snssai()
			e.op("nctor", c, psi, u8(1, 2, 3, 4, 7), dnn(), sst, sd)
		}
		e.op("nctor", "GetServiceRequest", u8(0, 1, 2, 3))
		switch rng.Intn(4) {
		case 0:
			e.op("nctor", "GetAuthenticationResponse", "-", blob(0, 1, 4, 30, 1500))
		case 1:
			e.op("nctor", "GetAuthenticationResponse", blob(1, 8, 15, 17, 32, 255, 256), "-")
		default:
			e.op("nctor", "GetAuthenticationResponse", hx(e.bytes(16)), blob(0, 5))
		}
		e.op("nctor", "GetRegistrationComplete", optBlob(0, 1, 17, 200))
		e.op("nctor", "GetSecurityModeComplete", optBlob(0, 1, 30, 700))
		e.op("nctor", "GetDeregistrationRequest", u8(1, 2, 3), u8(0, 1), u8(0, 1, 4, 7), ie(0, 2, 0, false))
	}
	// exhaustive over the one-octet arguments
	for v := 0; v < 256; v++ {
		s := strconv.Itoa(v)
		for _, c := range []string{"GetPduSessionEstablishmentRequest", "GetPduSessionModificationRequest", "GetPduSessionReleaseRequest",
			"GetPduSessionReleaseComplete", "GetUlNasTransport_PduSessionReleaseRequest", "GetServiceRequest"} {
			e.op("nctor", c, s)
		}
		e.op("nctor", "GetUlNasTransport_PduSessionEstablishmentRequest", "5", s, hx([]byte("internet")), "1", "010203")
		e.op("nctor", "GetDeregistrationRequest", "1", "0", s, "0.3.010203")
		e.op("nctor", "GetDeregistrationRequest", s, "1", "4", "0.3.010203")
		e.op("nctor", "GetRegistrationRequest", s, "0.3.010203", "nil", "46.2.8020", "nil", "nil", "nil")
	}
}
