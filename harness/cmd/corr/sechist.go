package main

import (
	"bytes"
	"encoding/hex"
	"strings"
	"sync/atomic"
	"unsafe"

	"free5gclib/aper"
	"free5gclib/nas"
	"free5gclib/nas/nasMessage"
	"free5gclib/nas/nasTestpacket"
	"free5gclib/nas/nasType"
	"free5gclib/nas/security"
	"free5gclib/ngap/ngapType"
	"tglib"
)

// Domains sec-hist (C06: tglib.NASEncode / tglib.EncodeNasPduWithSecurity / security.Count over histories)
// and sec-dl (C10: tglib.NASDecode / tglib.GetNasPdu over histories of a reference sender).
// One history is ONE op line: the initial UE security state followed by the steps.
//
//	ulhist <ul0> <dl0> <calg> <ialg> <kenc> <kint> <via>,<epd>,<sht>,<ctx>,<new>,<plain> ...
//	   → ok <octets|err|panic> ... ul=<stored word> dl=<stored word>
//	dlhist <ul0> <dl0> <calg> <ialg> <kenc> <kint> <kind>,<sht>,<pkg>,<count|x>,<plain|x> ...
//	   → ok <octets handed to PlainNasDecode|err|panic|nil|dec:<buffer>>@<DL stored word> ... ul=… dl=…
//	cntsweep <lo> <hi> <stride>  → ok <digest of every Count operation on every stored word lo, lo+stride, … < hi>
//
// The plain NAS codec is outside the modelled part: plain messages come from a pool of encodings that the codec
// re-encodes to themselves (checked again inside every step; a change is reported in the token as "!re=").
func init() {
	register("sec-hist", secHistGen)
	register("sec-dl", secDlGen)
	registerOp("ulhist", ulHistOp)
	registerOp("dlhist", dlHistOp)
	registerOp("cntsweep", cntSweepOp)
}

// ---------------------------------------------------------------- access to the stored counter word

func rawCount(c *security.Count) *uint32 { return (*uint32)(unsafe.Pointer(c)) }

// setCount places a start value: through Count.Set when it fits 24 bits (the only way the library offers),
// directly into the stored word otherwise (bits 24..31 are unreachable through the methods).
func setCount(c *security.Count, v uint64) {
	if v >= 1<<32 {
		panic(badArg{})
	}
	if v < 1<<24 {
		c.Set(uint16(v>>8), uint8(v))
		return
	}
	*rawCount(c) = uint32(v)
}

func newUe(a []string) *tglib.RanUeContext {
	ue := tglib.NewRanUeContext("imsi-2089300000001", 1, uint8(aU64(a[2])), uint8(aU64(a[3])))
	if aU64(a[2]) > 255 || aU64(a[3]) > 255 {
		panic(badArg{})
	}
	setCount(&ue.ULCount, aU64(a[0]))
	setCount(&ue.DLCount, aU64(a[1]))
	ue.KnasEnc = a16(a[4])
	ue.KnasInt = a16(a[5])
	return ue
}

func counters(ue *tglib.RanUeContext) string {
	return " ul=" + u(uint64(*rawCount(&ue.ULCount))) + " dl=" + u(uint64(*rawCount(&ue.DLCount)))
}

// step runs f and reports whether it panicked
func step(f func()) (panicked bool) {
	defer func() {
		if r := recover(); r != nil {
			if _, bad := r.(badArg); bad {
				panic(r)
			}
			panicked = true
		}
	}()
	f()
	return false
}

func aBool(s string) bool {
	switch s {
	case "0":
		return false
	case "1":
		return true
	}
	panic(badArg{})
}

// reencode decodes plain octets with the real codec and encodes the result again
func reencode(plain []byte) ([]byte, bool) {
	m := nas.NewMessage()
	cp := append([]byte{}, plain...)
	if len(cp) == 0 {
		return nil, false
	}
	if err := m.PlainNasDecode(&cp); err != nil {
		return nil, false
	}
	re, err := m.PlainNasEncode()
	if err != nil {
		return nil, false
	}
	return re, true
}

// ---------------------------------------------------------------- uplink

func ulHistOp(a []string) string {
	if len(a) < 6 {
		panic(badArg{})
	}
	ue := newUe(a)
	var out strings.Builder
	out.WriteString("ok")
	// via "r" hands NASEncode the SAME *nas.Message object as the previous "n"/"r" step when the plain octets are the
	// same (a retransmission: the caller kept the message); the model encodes afresh every time
	var lastMsg *nas.Message
	var lastPlain []byte
	for _, st := range a[6:] {
		f := strings.Split(st, ",")
		if len(f) != 6 {
			panic(badArg{})
		}
		via, epd, sht, ctx, nw, plain := f[0], aU64(f[1]), aU64(f[2]), aBool(f[3]), aBool(f[4]), aHex(f[5])
		switch via {
		case "e", "n", "z", "u", "x", "b", "r":
		default:
			panic(badArg{})
		}
		if epd > 255 || sht > 255 || ((via == "e" || via == "b") && epd != 126) {
			panic(badArg{})
		}
		re, okRe := reencode(plain)
		var res []byte
		var err error
		p := step(func() {
			if via == "e" || via == "b" { // b: octets the plain decoder refuses (or traps on: no octets at all)
				res, err = tglib.EncodeNasPduWithSecurity(ue, append([]byte{}, plain...), uint8(sht), ctx, nw)
				return
			}
			m := nas.NewMessage()
			switch via {
			case "z": // no message
				res, err = tglib.NASEncode(ue, nil, ctx, nw)
				return
			case "x": // a message the plain codec refuses to encode (neither a 5GMM nor a 5GSM part)
				m.SecurityHeader = nas.SecurityHeader{ProtocolDiscriminator: uint8(epd), SecurityHeaderType: uint8(sht)}
				res, err = tglib.NASEncode(ue, m, ctx, nw)
				return
			}
			if via == "r" && lastMsg != nil && bytes.Equal(lastPlain, plain) {
				m = lastMsg
			} else {
				cp := append([]byte{}, plain...)
				if e := m.PlainNasDecode(&cp); e != nil {
					err = e
					return
				}
			}
			if via == "n" || via == "r" {
				lastMsg, lastPlain = m, plain
			}
			m.SecurityHeader = nas.SecurityHeader{ProtocolDiscriminator: uint8(epd), SecurityHeaderType: uint8(sht)}
			if via == "u" { // no UE context
				res, err = tglib.NASEncode(nil, m, ctx, nw)
				return
			}
			res, err = tglib.NASEncode(ue, m, ctx, nw)
		})
		out.WriteByte(' ')
		switch {
		case p:
			out.WriteString("panic")
		case err != nil:
			out.WriteString("err")
		default:
			out.WriteString(hx(res))
		}
		if !okRe {
			out.WriteString("!re=undecodable")
		} else if !bytes.Equal(re, plain) {
			out.WriteString("!re=" + hx(re))
		}
	}
	out.WriteString(counters(ue))
	return out.String()
}

// ---------------------------------------------------------------- downlink

// classify one NASDecode call: the token of the line protocol
func decodeTok(ue *tglib.RanUeContext, sht uint8, pkg []byte) string {
	var msg *nas.Message
	var err error
	if step(func() { msg, err = tglib.NASDecode(ue, sht, pkg) }) {
		return "panic"
	}
	if err != nil {
		if msg == nil {
			return "err" // refused before the plain decoder was reached
		}
		return "dec:" + hx(pkg) // the plain decoder rejected what it was handed; pkg is deciphered in place
	}
	if msg == nil {
		return "nil-without-error"
	}
	re, e2 := msg.PlainNasEncode()
	if e2 != nil {
		return "reenc-err"
	}
	tok := hx(re)
	if !bytes.HasSuffix(pkg, re) { // NASDecode works in place: what it decoded is the tail of the buffer
		tok += "!buf=" + hx(pkg)
	}
	return tok
}

// (atomic: the concurrent scenarios of C20 build their messages with this function from several goroutines)
var dlTransportSeq int64

func dlTransport(pkg []byte, withNas bool) *ngapType.DownlinkNASTransport {
	m := &ngapType.DownlinkNASTransport{}
	ie := ngapType.DownlinkNASTransportIEs{}
	ie.Id.Value = ngapType.ProtocolIEIDAMFUENGAPID
	ie.Value.Present = ngapType.DownlinkNASTransportIEsPresentAMFUENGAPID
	ie.Value.AMFUENGAPID = &ngapType.AMFUENGAPID{Value: 1}
	seq := atomic.AddInt64(&dlTransportSeq, 1)
	if seq%2 == 1 {
		// the id the UE context already holds (dlHistOp); otherwise another one: an AMF may re-allocate it, and GetNasPdu
		// hands out the NAS-PDU whatever the ids are
		ie.Value.AMFUENGAPID.Value = dlHistAmfID
	}
	m.ProtocolIEs.List = append(m.ProtocolIEs.List, ie)
	ie = ngapType.DownlinkNASTransportIEs{}
	ie.Id.Value = ngapType.ProtocolIEIDRANUENGAPID
	ie.Value.Present = ngapType.DownlinkNASTransportIEsPresentRANUENGAPID
	ie.Value.RANUENGAPID = &ngapType.RANUENGAPID{Value: 1}
	m.ProtocolIEs.List = append(m.ProtocolIEs.List, ie)
	// one message in three carries the optional IEs that TS 38.413 9.2.5.2 places BEFORE the NAS-PDU (Old AMF, RAN Paging
	// Priority): the NAS-PDU is found by its IE id, not by its position
	if seq%3 != 0 {
		ie = ngapType.DownlinkNASTransportIEs{}
		ie.Id.Value = ngapType.ProtocolIEIDOldAMF
		ie.Value.Present = ngapType.DownlinkNASTransportIEsPresentOldAMF
		ie.Value.OldAMF = &ngapType.AMFName{Value: "amf-old"}
		m.ProtocolIEs.List = append(m.ProtocolIEs.List, ie)
		if seq%3 == 2 {
			ie = ngapType.DownlinkNASTransportIEs{}
			ie.Id.Value = ngapType.ProtocolIEIDRANPagingPriority
			ie.Value.Present = ngapType.DownlinkNASTransportIEsPresentRANPagingPriority
			ie.Value.RANPagingPriority = &ngapType.RANPagingPriority{Value: 5}
			m.ProtocolIEs.List = append(m.ProtocolIEs.List, ie)
		}
	}
	if withNas {
		ie = ngapType.DownlinkNASTransportIEs{}
		ie.Id.Value = ngapType.ProtocolIEIDNASPDU
		ie.Value.Present = ngapType.DownlinkNASTransportIEsPresentNASPDU
		ie.Value.NASPDU = &ngapType.NASPDU{Value: aper.OctetString(pkg)}
		m.ProtocolIEs.List = append(m.ProtocolIEs.List, ie)
	}
	return m
}

const dlHistAmfID = 0x1122334455

func dlHistOp(a []string) string {
	if len(a) < 6 {
		panic(badArg{})
	}
	ue := newUe(a)
	ue.AmfUeNgapId = dlHistAmfID // a registered UE: the context holds the id the AMF gave it
	var out strings.Builder
	out.WriteString("ok")
	for _, st := range a[6:] {
		f := strings.Split(st, ",")
		if len(f) != 5 {
			panic(badArg{})
		}
		kind, sht, pkg := f[0], aU64(f[1]), aHex(f[2])
		if sht > 255 {
			panic(badArg{})
		}
		if f[3] != "x" {
			aU64(f[3])
		}
		if f[4] != "x" {
			aHex(f[4])
		}
		var tok string
		switch kind {
		case "d":
			tok = decodeTok(ue, uint8(sht), pkg)
		case "z":
			tok = decodeTok(ue, uint8(sht), nil)
		case "u": // no UE context
			tok = decodeTok(nil, uint8(sht), pkg)
		case "n":
			var m *nas.Message
			if step(func() { m = tglib.GetNasPdu(ue, dlTransport(pkg, false)) }) {
				tok = "panic"
			} else if m == nil {
				tok = "nil"
			} else {
				tok = "non-nil"
			}
		case "g":
			// GetNasPdu = NASDecode(ue, pkg[1], pkg) with the error turned into nil: classify on a copy through
			// NASDecode, then require GetNasPdu on the real context to agree in result and in counter state
			shadow := *ue
			cp := append([]byte{}, pkg...)
			if len(cp) < 2 {
				tok = "panic"
			} else {
				tok = decodeTok(&shadow, cp[1], cp)
			}
			var m *nas.Message
			p := step(func() { m = tglib.GetNasPdu(ue, dlTransport(pkg, true)) })
			agree := p == (tok == "panic") && *rawCount(&ue.DLCount) == *rawCount(&shadow.DLCount) &&
				*rawCount(&ue.ULCount) == *rawCount(&shadow.ULCount)
			if !p {
				failed := tok == "err" || strings.HasPrefix(tok, "dec:")
				agree = agree && (m == nil) == failed
				if m != nil {
					re, e2 := m.PlainNasEncode()
					agree = agree && e2 == nil && hx(re) == strings.SplitN(tok, "!buf=", 2)[0]
				}
			}
			if !agree {
				tok = "g-mismatch"
			} else if tok == "err" {
				tok = "nil"
			}
		default:
			panic(badArg{})
		}
		out.WriteString(" " + tok + "@" + u(uint64(*rawCount(&ue.DLCount))))
	}
	out.WriteString(counters(ue))
	return out.String()
}

// refProtect is the harness's own little downlink sender: EPD ‖ header type ‖ MAC ‖ SQN ‖ message, the message
// ciphered under header types 2 and 4, MAC over SQN ‖ message as sent, BEARER 1, DIRECTION downlink.
// It uses security.NASEncrypt / NASMacCalculate (tied to the standard by C07); the Lean specification
// re-checks every message it produces with its own receiver.
func refProtect(calg, ialg uint8, kenc, kint [16]byte, count uint32, epd, sht uint8, plain []byte) []byte {
	body := append([]byte{}, plain...)
	if sht == 2 || sht == 4 {
		if err := security.NASEncrypt(calg, kenc, count, security.Bearer3GPP, security.DirectionDownlink, body); err != nil {
			panic("refProtect: " + err.Error())
		}
	}
	msg := append([]byte{uint8(count)}, body...)
	mac, err := security.NASMacCalculate(ialg, kint, count, security.Bearer3GPP, security.DirectionDownlink, msg)
	if err != nil {
		panic("refProtect: " + err.Error())
	}
	return append(append([]byte{epd, sht}, mac...), msg...)
}

// ---------------------------------------------------------------- counter sweep

func cntSweepOp(a []string) string {
	lo, hi, stride := aU64(a[0]), aU64(a[1]), aU64(a[2])
	if stride == 0 || hi > 1<<32 || lo > hi {
		panic(badArg{})
	}
	var h uint64
	mix := func(x uint64) { h = (h ^ x) * 0x100000001b3 } // FNV-1a style step on 64-bit words
	var c security.Count
	p := rawCount(&c)
	for v := lo; v < hi; v += stride {
		s := uint8((v*7 + 3) % 256)
		o := uint16((v*13 + 5) % 65536)
		*p = uint32(v)
		val := c.Get()
		mix(uint64(*p))
		mix(uint64(val))
		*p = uint32(v)
		c.AddOne()
		mix(uint64(*p))
		*p = uint32(v)
		mix(uint64(c.SQN()))
		mix(uint64(c.Overflow()))
		c.SetSQN(s)
		mix(uint64(*p))
		*p = uint32(v)
		c.SetOverflow(o)
		mix(uint64(*p))
		*p = uint32(v)
		c.Set(o, s)
		mix(uint64(*p))
		mix(uint64(c.Get()))
		mix(uint64(c.SQN()))
		mix(uint64(c.Overflow()))
	}
	return "ok " + hx([]byte{byte(h >> 56), byte(h >> 48), byte(h >> 40), byte(h >> 32), byte(h >> 24), byte(h >> 16), byte(h >> 8), byte(h)})
}

// ---------------------------------------------------------------- plain message pool

// plainPool returns plain 5GMM/5GSM encodings that the codec decodes and re-encodes to themselves:
// outputs of the nasTestpacket constructors (variable-length ones with random contents) plus a few
// downlink messages written out by hand. Anything the codec does not reproduce is dropped here.
func plainPool(e *emitter) [][]byte {
	var pool [][]byte
	add := func(b []byte) {
		if re, ok := reencode(b); ok && bytes.Equal(re, b) && len(b) >= 3 {
			pool = append(pool, b)
		}
	}
	guti := nasType.MobileIdentity5GS{Len: 11, Buffer: []uint8{0xf2, 0x02, 0xf8, 0x39, 0xca, 0xfe, 0x00, 0x00, 0x00, 0x00, 0x01}}
	for i := 0; i < 24; i++ {
		add(nasTestpacket.GetRegistrationComplete(e.bytes(1 + e.rng.Intn(70))))
		add(nasTestpacket.GetAuthenticationResponse(e.bytes(16), ""))
		add(nasTestpacket.GetUlNasTransport_Status5GSM(uint8(1+e.rng.Intn(15)), uint8(e.rng.Intn(256))))
		add(nasTestpacket.GetStatus5GMM(uint8(e.rng.Intn(256))))
		add(nasTestpacket.GetStatus5GSM(uint8(1+e.rng.Intn(15)), uint8(e.rng.Intn(256))))
		add(nasTestpacket.GetSecurityModeComplete(e.bytes(1 + e.rng.Intn(40))))
		add(nasTestpacket.GetAuthenticationFailure(uint8(e.rng.Intn(256)), e.bytes(14)))
		add(nasTestpacket.GetUlNasTransport_PduSessionReleaseRequest(uint8(1 + e.rng.Intn(15))))
	}
	// long messages (a SOR transparent container / NAS message container of up to 64K): receive buffers, 16-bit
	// lengths and keystream bursts of the protection layer
	long := []int{255, 256, 2048, 2100, 4200}
	if e.thorough() {
		long = []int{250, 255, 256, 2040, 2048, 2100, 4096, 4200, 9000, 20000}
	}
	for _, n := range long {
		add(nasTestpacket.GetRegistrationComplete(e.bytes(n)))
		if n != 2048 {
			add(nasTestpacket.GetSecurityModeComplete(e.bytes(n)))
		}
	}
	// messages whose length is 1, 2, 3 octets beyond a multiple of 3072 octets (768 keystream words) and of 1536
	for _, n := range []int{3061, 3062, 3063, 3064, 3065, 3066, 3067, 3068, 3069, 3070, 1525, 1526, 1527, 1528, 1529, 1530, 1531, 1532, 1533, 1534} {
		add(nasTestpacket.GetRegistrationComplete(e.bytes(n)))
	}
	add(nasTestpacket.GetRegistrationComplete(nil))
	add(nasTestpacket.GetConfigurationUpdateComplete())
	add(nasTestpacket.GetDeregistrationAccept())
	add(nasTestpacket.GetSecurityModeComplete(nil))
	add(nasTestpacket.GetSecurityModeReject(0x18))
	for _, t := range []uint8{nasMessage.ServiceTypeSignalling, nasMessage.ServiceTypeData, nasMessage.ServiceTypeMobileTerminatedServices} {
		add(nasTestpacket.GetServiceRequest(t))
	}
	// REGISTRATION REQUESTs (initial, mobility and periodic updating; with a SUCI and with a 5G-GUTI; with and without the
	// UE security capability / 5GMM capability): a registered UE sends them integrity protected AND ciphered
	suci := nasType.MobileIdentity5GS{Len: 12, Buffer: []uint8{0x01, 0x02, 0xf8, 0x39, 0xf0, 0xff, 0x00, 0x00, 0x00, 0x00, 0x00, 0x10}}
	secCap := &nasType.UESecurityCapability{Iei: nasMessage.RegistrationRequestUESecurityCapabilityType, Len: 2, Buffer: []uint8{0xe0, 0xe0}}
	cap5 := &nasType.Capability5GMM{Iei: nasMessage.RegistrationRequestCapability5GMMType, Len: 1, Octet: [13]uint8{0x07}}
	for _, rt := range []uint8{nasMessage.RegistrationType5GSInitialRegistration, nasMessage.RegistrationType5GSMobilityRegistrationUpdating,
		nasMessage.RegistrationType5GSPeriodicRegistrationUpdating} {
		add(nasTestpacket.GetRegistrationRequest(rt, suci, nil, secCap, nil, nil, nil))
		add(nasTestpacket.GetRegistrationRequest(rt, guti, nil, secCap, cap5, nil, nil))
		add(nasTestpacket.GetRegistrationRequest(rt, guti, nil, nil, nil, nil, nil))
	}
	add(nasTestpacket.GetDeregistrationRequest(nasMessage.AccessType3GPP, 0, 0x04, guti))
	add(nasTestpacket.GetDeregistrationRequest(nasMessage.AccessType3GPP, 1, 0x01, guti))
	for _, id := range []uint8{1, 5, 10, 15} {
		add(nasTestpacket.GetPduSessionEstablishmentRequest(id))
		add(nasTestpacket.GetUlNasTransport_PduSessionEstablishmentRequest(id, nasMessage.ULNASTransportRequestTypeInitialRequest, "internet", nil))
		add(nasTestpacket.GetPduSessionReleaseRequest(id))
		add(nasTestpacket.GetPduSessionReleaseComplete(id))
		add(nasTestpacket.GetPduSessionModificationRequest(id))
	}
	// downlink messages (TS 24.501 8.2): De-registration accept (UE originating), 5GMM status, Configuration update
	// command without IEs, Service accept, Authentication reject, Registration accept (5GS registration result only),
	// DL NAS transport carrying a 5GSM status
	for _, b := range [][]byte{
		{0x7e, 0x00, 0x46}, {0x7e, 0x00, 0x64, 0x6f}, {0x7e, 0x00, 0x54}, {0x7e, 0x00, 0x4e}, {0x7e, 0x00, 0x58},
		{0x7e, 0x00, 0x42, 0x01, 0x01},
		{0x7e, 0x00, 0x68, 0x01, 0x00, 0x05, 0x2e, 0x05, 0x00, 0xd6, 0x24, 0x12, 0x05},
	} {
		add(b)
	}
	// conformant downlink messages written out octet by octet and added WITHOUT asking the codec first (the filter above would
	// hide a decoder that loses part of one of them): REGISTRATION ACCEPT ending in a half-octet IE (NSSAI inclusion mode A-,
	// Network slicing indication 9-, MICO indication B-), CONFIGURATION UPDATE COMMAND with Configuration update indication D-,
	// Network slicing indication with either flag alone, MICO indication. The receiver recovers exactly these octets.
	// … and an UL NAS TRANSPORT carrying both Old PDU session ID and Request type (in the order of TS 24.501 table 8.2.10.1.1)
	for _, h := range []string{"7e00670100012e1205590381", "7e00420101a1", "7e0042010191", "7e00420101b1", "7e0042010191a1", "7e00420101a0", "7e005491", "7e005492", "7e005493",
		"7e0054d1", "7e0054d192", "7e0054b1"} {
		b, err := hex.DecodeString(h)
		if err != nil {
			panic(err)
		}
		pool = append(pool, b)
	}
	if len(pool) < 20 {
		panic("plainPool: the codec reproduces too few of the sample messages")
	}
	return pool
}

// startCounts are the boundary start values of the histories: 0, just before the SQN wrap, just before the
// second overflow octet changes, just before the 24-bit wrap.
func startCount(e *emitter) uint64 {
	switch e.rng.Intn(8) {
	case 0:
		return 0
	case 1, 2:
		return uint64(250 + e.rng.Intn(11))
	case 3, 4:
		return uint64(65530 + e.rng.Intn(12))
	case 5, 6:
		return uint64(1<<24 - 3 + e.rng.Intn(3))
	}
	return uint64(e.rng.Intn(1 << 24))
}

var algPairs = [][2]uint8{{0, 1}, {0, 2}, {1, 1}, {1, 2}, {2, 1}, {2, 2}} // {NEA, NIA}

func hdr(ul0, dl0 uint64, calg, ialg uint8, kenc, kint []byte) []string {
	return []string{u(ul0), u(dl0), u(uint64(calg)), u(uint64(ialg)), hx(kenc), hx(kint)}
}

func b01(b bool) string {
	if b {
		return "1"
	}
	return "0"
}

// ---------------------------------------------------------------- generators

func secHistGen(e *emitter) {
	pool := plainPool(e)
	maxSteps := 40
	for i := 0; i < e.n; i++ {
		pair := algPairs[i%len(algPairs)]
		calg, ialg := pair[0], pair[1]
		malformed := e.rng.Intn(25) == 0 // out-of-domain stream: unsupported algorithms, header types outside 1..4
		if malformed {
			calg, ialg = uint8(e.rng.Intn(5)), uint8(e.rng.Intn(5))
		}
		ul0, dl0 := startCount(e), startCount(e)
		if malformed && e.rng.Intn(3) == 0 {
			ul0 = uint64(e.rng.Uint32()) // bits 24..31 of the stored word set
		}
		args := hdr(ul0, dl0, calg, ialg, e.bytes(16), e.bytes(16))
		n := 1 + e.rng.Intn(maxSteps)
		if i%50 == 0 {
			n = maxSteps
		}
		for s := 0; s < n; s++ {
			sht := uint64(1 + e.rng.Intn(4))
			if malformed && e.rng.Intn(4) == 0 {
				sht = uint64(e.rng.Intn(256))
			}
			ctx := e.rng.Intn(12) != 0
			nw := e.rng.Intn(10) == 0
			via, epd := "e", uint64(126)
			if e.rng.Intn(3) == 0 {
				via = "n"
				if e.rng.Intn(4) == 0 {
					epd = 0x2e
				}
			}
			if s > 0 && e.rng.Intn(6) == 0 {
				// the previous message again, from the same message object (retransmission under the next COUNT)
				prev := strings.Split(args[len(args)-1], ",")
				if prev[0] == "n" || prev[0] == "r" {
					args = append(args, "r,"+prev[1]+","+u(sht)+","+b01(ctx)+","+b01(nw)+","+prev[5])
					continue
				}
			}
			if malformed && e.rng.Intn(3) == 0 {
				// refused calls in the middle of a history: no message, no UE context, a message the plain codec does not
				// encode (which, under a new security context, is refused after the counters were reset)
				via = []string{"z", "u", "x"}[e.rng.Intn(3)]
			}
			args = append(args, via+","+u(epd)+","+u(sht)+","+b01(ctx)+","+b01(nw)+","+hx(pool[e.rng.Intn(len(pool))]))
		}
		e.op("ulhist", args...)
	}
	// long single-context histories that cross the SQN wrap (and 65 536) with every algorithm pair
	for _, pair := range algPairs {
		for _, start := range []uint64{250, 65530, 1<<24 - 3} {
			args := hdr(start, start, pair[0], pair[1], e.bytes(16), e.bytes(16))
			for s := 0; s < 12; s++ {
				args = append(args, "e,126,"+u(uint64(1+s%4))+",1,0,"+hx(pool[e.rng.Intn(len(pool))]))
			}
			e.op("ulhist", args...)
		}
	}
	// one message object sent again and again, ciphered and not, with every algorithm pair
	for _, pair := range algPairs {
		args := hdr(7, 7, pair[0], pair[1], e.bytes(16), e.bytes(16))
		p := hx(pool[e.rng.Intn(len(pool))])
		for s, sht := range []int{1, 2, 2, 4, 1, 2, 3, 2} {
			via := "r"
			if s == 0 {
				via = "n"
			}
			args = append(args, via+",126,"+u(uint64(sht))+",1,0,"+p)
		}
		e.op("ulhist", args...)
	}
	// refused calls between ordinary ones: the counters after them (an unencodable message announced with a new context
	// resets them before it is refused)
	for _, pair := range algPairs[:2] {
		args := hdr(300, 77, pair[0], pair[1], e.bytes(16), e.bytes(16))
		p := hx(pool[e.rng.Intn(len(pool))])
		args = append(args, "b,126,2,1,1,-", "b,126,2,1,1,ff0041", "b,126,2,0,0,00")
		for _, st := range []string{"e,126,2,1,0,", "z,126,2,1,1,", "u,126,2,1,1,", "n,126,2,1,0,", "x,126,2,0,1,", "x,126,2,1,0,", "e,126,2,1,0,",
			"x,126,2,1,1,", "e,126,2,1,0,", "n,126,1,1,0,"} {
			args = append(args, st+p)
		}
		e.op("ulhist", args...)
	}
	// the counter type: boundary windows always, every one of the 2^24 values (and samples with bits 24..31 set)
	// in the thorough tier
	for _, c := range []uint64{0, 256, 65536, 1 << 24, 1 << 31, 1<<32 - 4096} {
		lo := c
		if lo >= 2048 {
			lo -= 2048
		}
		hi := c + 2048
		if hi > 1<<32 {
			hi = 1 << 32
		}
		e.op("cntsweep", u(lo), u(hi), "1")
	}
	for i := 0; i < 40; i++ {
		lo := uint64(e.rng.Uint32())
		e.op("cntsweep", u(lo), u(min(lo+4096, 1<<32)), "1")
	}
	e.op("cntsweep", "0", u(1<<32), "65521") // a stride coprime to 2^k: 65 552 words spread over all 32 bits
	if e.thorough() {
		for blk := uint64(0); blk < 256; blk++ {
			e.op("cntsweep", u(blk<<16), u((blk+1)<<16), "1")
		}
		e.op("cntsweep", "0", u(1<<32), "251")
	}
}

func secDlGen(e *emitter) {
	pool := plainPool(e)
	maxSteps := 40
	for i := 0; i < e.n; i++ {
		pair := algPairs[i%len(algPairs)]
		calg, ialg := pair[0], pair[1]
		var kenc, kint [16]byte
		copy(kenc[:], e.bytes(16))
		copy(kint[:], e.bytes(16))
		malformed := e.rng.Intn(25) == 0
		// UE and sender start in step: either a fresh context (both 0) or the UE has just received COUNT c
		var ueDl, next uint64
		if e.rng.Intn(5) != 0 {
			ueDl = startCount(e)
			next = (ueDl + 1) % (1 << 24)
		}
		ueCalg, ueIalg := calg, ialg
		if malformed && e.rng.Intn(2) == 0 {
			ueCalg, ueIalg = uint8(e.rng.Intn(5)), uint8(e.rng.Intn(5)) // incl. the NIA0 branch and unsupported ids
		}
		args := hdr(startCount(e), ueDl, ueCalg, ueIalg, kenc[:], kint[:])
		n := 1 + e.rng.Intn(maxSteps)
		if i%50 == 0 {
			n = maxSteps
		}
		for s := 0; s < n; s++ {
			plain := pool[e.rng.Intn(len(pool))]
			sht := uint8(e.rng.Intn(5))
			if e.rng.Intn(3) == 0 {
				sht = 2
			}
			kind := "d"
			if e.rng.Intn(3) == 0 {
				kind = "g"
			}
			if malformed && e.rng.Intn(3) == 0 {
				// truncated / random / headerless input, absent IE, nil payload: no expectation from the specification
				switch e.rng.Intn(6) {
				case 5:
					args = append(args, "u,"+u(uint64(sht))+","+hx(refProtect(calg, ialg, kenc, kint, uint32(next), 0x7e, 2, plain))+",x,x")
				case 0:
					args = append(args, kind+","+u(uint64(e.rng.Intn(6)))+","+hx(e.bytes(e.rng.Intn(9)))+",x,x")
				case 1:
					pk := refProtect(calg, ialg, kenc, kint, uint32(next), 0x7e, 2, plain)
					args = append(args, kind+",2,"+hx(pk[:e.rng.Intn(len(pk))])+",x,x")
				case 2:
					args = append(args, "n,0,"+hx(plain)+",x,x")
				case 3:
					args = append(args, "z,"+u(uint64(sht))+",-,x,x")
				default:
					args = append(args, kind+","+u(uint64(5+e.rng.Intn(250)))+","+hx(refProtect(calg, ialg, kenc, kint, uint32(next), 0x7e, 2, plain))+",x,x")
				}
				continue
			}
			if sht == 0 {
				// a plain message on the wire is a 5GMM message (octet 2 = header type 0); 5GSM travels inside 5GMM
				for plain[0] != 0x7e || plain[1] != 0 {
					plain = pool[e.rng.Intn(len(pool))]
				}
				args = append(args, kind+",0,"+hx(plain)+",x,"+hx(plain))
				continue
			}
			// messages the UE never saw: mostly none, sometimes a few, sometimes the most the 8-bit SQN can bridge
			lost := uint64(0)
			switch e.rng.Intn(10) {
			case 0:
				lost = uint64(1 + e.rng.Intn(5))
			case 1:
				lost = uint64(e.rng.Intn(255))
			case 2:
				lost = 254
			}
			if sht == 3 || sht == 4 {
				next = 0
			}
			c := (next + lost) % (1 << 24)
			next = (c + 1) % (1 << 24)
			want := u(c) + "," + hx(plain)
			if ueCalg != calg || ueIalg != ialg {
				want = "x,x" // the UE was configured with other algorithms than the sender: nothing is promised
			}
			args = append(args, kind+","+u(uint64(sht))+","+hx(refProtect(calg, ialg, kenc, kint, uint32(c), 0x7e, sht, plain))+","+want)
		}
		e.op("dlhist", args...)
	}
	// several SQN wraps in one history: 38 deliveries 200 apart = 7 600 COUNT values, 29 wraps
	for _, pair := range algPairs {
		var kenc, kint [16]byte
		copy(kenc[:], e.bytes(16))
		copy(kint[:], e.bytes(16))
		c := uint64(1<<24 - 600)
		args := hdr(0, c, pair[0], pair[1], kenc[:], kint[:])
		for s := 0; s < 38; s++ {
			c = (c + 200) % (1 << 24)
			sht := uint8(1 + s%2)
			plain := pool[e.rng.Intn(len(pool))]
			args = append(args, "d,"+u(uint64(sht))+","+hx(refProtect(pair[0], pair[1], kenc, kint, uint32(c), 0x7e, sht, plain))+","+u(c)+","+hx(plain))
		}
		e.op("dlhist", args...)
	}
	// refused calls between ordinary ones (no payload, no UE context): the DL COUNT estimate is untouched by them
	{
		var kenc, kint [16]byte
		copy(kenc[:], e.bytes(16))
		copy(kint[:], e.bytes(16))
		args := hdr(0, 10, 2, 2, kenc[:], kint[:])
		plain := pool[e.rng.Intn(len(pool))]
		for s, kind := range []string{"d", "u", "z", "d", "u", "d"} {
			c := uint64(11 + s)
			want := u(c) + "," + hx(plain)
			if kind != "d" {
				want = "x,x"
			}
			args = append(args, kind+",2,"+hx(refProtect(2, 2, kenc, kint, uint32(c), 0x7e, 2, plain))+","+want)
		}
		e.op("dlhist", args...)
	}
}
