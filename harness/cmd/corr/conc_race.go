//go:build race

package main

// the race detector is compiled in (vlib builds the conc domain's binary with -race)
const raceEnabled = true
