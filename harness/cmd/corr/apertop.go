package main

import (
	"errors"

	"verifharness/internal/tags"
)

var errPanic = errors.New("panic")

// topParamString: the parameter string a type is marshalled with when it is the top-level value:
// NGAPPDU as ngap.Encoder does, every other type as the transfer containers are ("valueExt").
func topParamString(name string) string {
	if name == "NGAPPDU" {
		return ngapTop
	}
	t := typeByName(name)
	if t.NumField() == 1 && t.Field(0).Name == "Value" {
		return "" // leaf wrapper: constraints are on the inner field
	}
	if isChoiceType(t) {
		return "valueLB:0,valueUB:" + u(uint64(t.NumField()-2))
	}
	return "valueExt"
}

func tagsFor(name string) tags.Params { return tags.Parse(topParamString(name)) }
