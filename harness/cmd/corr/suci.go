package main

import (
	"fmt"
	"reflect"
	"strings"
	"syscall"

	"free5gclib/nas/nasMessage"
	"free5gclib/nas/nasTestpacket"
	"free5gclib/nas/security"
	"free5gclib/ngap"
	"free5gclib/ngap/ngapType"
	"stgutg"
	"tglib"
	"tglib/ngapTestpacket"

	"github.com/ishidawataru/sctp"

	peer2 "verifharness/peer"
)

// Domain suci (C11): stgutg.EncodeSuci, the PLMN that ManageNGSetup takes from it, the copies the NGAP
// builders make of it, and nasConvert.PlmnIDToNas (op plmn2nas, registered in conv.go).
//
//	suci <imsi:text-hex> <mncLen>          → ok <Buffer hex> <Len>
//	nassuci <imsi:text-hex> <mncLen>       → ok <identity in REGISTRATION REQUEST> <identity in DEREGISTRATION REQUEST>: the contents of
//	                                          the 5GS mobile identity IE (LV-E at octet 5) cut out of the octets that the real
//	                                          nasTestpacket.GetRegistrationRequest / GetDeregistrationRequest produce, as RegisterUE / DeregisterUE call them
//	regsuci <imsi:text-hex> <mnc:text-hex> <mcc:text-hex> → ok <identity in the first REGISTRATION REQUEST> <identity in the REGISTRATION
//	                                          REQUEST inside SECURITY MODE COMPLETE>, cut out of the octets that the real CreateUE +
//	                                          RegisterUE put on a socketpair; mnc / mcc are the configured serving PLMN (only len(mnc) matters)
//	ngplmn <imsi:text-hex> <mncLen>        → ok <GlobalGNBID plmn> <BroadcastPLMN plmn> <NR-CGI plmn of InitialUEMessage>
//	                                          <the one value of every PLMNIdentity in InitialUEMessage, UplinkNASTransport, UEContextReleaseComplete>
//	                                          (the expression of ngsetup.go line 23, then the real builders)
//	ngsetup <imsi:text-hex> <mnc:text-hex> → the same four fields: the NG Setup ones taken from the octets the real
//	                                          stgutg.ManageNGSetup writes to its (socketpair) connection, the later ones
//	                                          built after the AMF answered with an NG SETUP RESPONSE that lists other PLMNs first
//
// Text arguments travel as the hex of their bytes ("-" = empty).
func init() {
	register("suci", suciDomain)
	for d := 0; d < 10; d++ {
		d := d
		register(fmt.Sprintf("suci-mcc%d", d), func(e *emitter) { suciExhaustive(e, d) })
	}
	registerOp("suci", func(a []string) string {
		m := stgutg.EncodeSuci(aHex(a[0]), int(aI64(a[1])))
		return okKeep(m.Buffer) + " " + u(uint64(m.Len))
	})
	registerOp("nassuci", func(a []string) string {
		imsi := aHex(a[0])
		ue := tglib.NewRanUeContext("imsi-"+string(imsi), 1, security.AlgCiphering128NEA0, security.AlgIntegrity128NIA2)
		if allDigits(imsi) && len(imsi) <= 18 {
			// the way the emulator gets there: CreateUE makes the SUPI of UE 0 from the configured IMSI, RegisterUE /
			// DeregisterUE encode the SUCI from ue.Supi (leading zeros of the MCC included)
			ue = stgutg.CreateUE(string(imsi), 0, "00112233445566778899aabbccddeeff", "00112233445566778899aabbccddeeff", "")
		}
		id := stgutg.EncodeSuci([]byte(strings.TrimPrefix(ue.Supi, "imsi-")), int(aI64(a[1])))
		reg := nasTestpacket.GetRegistrationRequest(nasMessage.RegistrationType5GSInitialRegistration, *id, nil,
			ue.GetUESecurityCapability(), nil, nil, nil)
		dereg := nasTestpacket.GetDeregistrationRequest(nasMessage.AccessType3GPP, 0, 0x04, *id)
		cut := func(m []byte) string {
			if len(m) < 6 {
				return "short"
			}
			l := int(m[4])<<8 | int(m[5])
			if 6+l > len(m) {
				return "short"
			}
			return hx(m[6 : 6+l])
		}
		return "ok " + cut(reg) + " " + cut(dereg)
	})
	registerOp("regsuci", func(a []string) string {
		imsi, mnc, mcc := string(aHex(a[0])), string(aHex(a[1])), string(aHex(a[2]))
		if !allDigits([]byte(imsi)) || len(imsi) > 18 || len(imsi) < 3+len(mnc)+1 || (len(mnc) != 2 && len(mnc) != 3) || len(mcc) != 3 ||
			!allDigits([]byte(mnc)) || !allDigits([]byte(mcc)) {
			panic(badArg{})
		}
		ue := stgutg.CreateUE(imsi, 0, "00112233445566778899aabbccddeeff", "0123456789abcdef0123456789abcdef", "")
		var rnd, autn [16]byte
		for k := range rnd {
			rnd[k], autn[k] = byte(k+1), byte(0x80+k)
		}
		uls := runRegisterUE(ue, mnc, mcc, rnd, autn)
		if len(uls) < 3 {
			return "err"
		}
		cut := func(m []byte) string { // the 5GS mobile identity (LV-E at octet 5) of a plain REGISTRATION REQUEST
			if len(m) < 6 || m[0] != 0x7e || m[2] != 0x41 {
				return "not-a-registration-request"
			}
			l := int(m[4])<<8 | int(m[5])
			if 6+l > len(m) {
				return "short"
			}
			return hx(m[6 : 6+l])
		}
		first := cut(ulNasPdu(uls[0]))
		// SECURITY MODE COMPLETE (integrity protected, NEA0): 7e 04 mac(4) sqn | 7e 00 5e, optional IEs, 71 len(2) <REGISTRATION REQUEST>
		second := "no-container"
		if n := ulNasPdu(uls[2]); len(n) > 10 && n[7] == 0x7e && n[9] == 0x5e {
			p := n[10:]
			for len(p) >= 3 {
				l := int(p[1])<<8 | int(p[2])
				if 3+l > len(p) {
					break
				}
				if p[0] == 0x71 {
					second = cut(p[3 : 3+l])
					break
				}
				p = p[3+l:]
			}
		}
		return "ok " + first + " " + second
	})
	ngplmn := func(a []string) string {
		imsi := string(aHex(a[0]))
		mncLen := int(aI64(a[1]))
		mobilePLMN := stgutg.EncodeSuci([]byte(strings.TrimPrefix(imsi, "imsi-")), mncLen).Buffer[1:4]
		gnb, bc := ngSetupPlmns(ngapTestpacket.BuildNGSetupRequest(mobilePLMN))
		if len(a) == 4 {
			// ngplmn2: the SUCI of another subscriber (possibly of another PLMN) is encoded after NG Setup, as RegisterUE /
			// DeregisterUE do for every UE; the PLMN announced at NG Setup must still be the one in every later message
			stgutg.EncodeSuci(aHex(a[2]), int(aI64(a[3])))
		}
		cgi, tai, ok := laterPlmns()
		if !ok {
			return "err"
		}
		return "ok " + hx(gnb) + " " + hx(bc) + " " + hx(cgi) + " " + hx(tai)
	}
	registerOp("ngplmn", ngplmn)
	registerOp("ngplmn2", ngplmn)
	registerOp("ngsetup", func(a []string) string {
		imsi, mnc := string(aHex(a[0])), string(aHex(a[1]))
		fds, err := syscall.Socketpair(syscall.AF_UNIX, syscall.SOCK_SEQPACKET, 0)
		if err != nil {
			return "bad-op"
		}
		conn := sctp.NewSCTPConn(fds[0], nil)
		defer conn.Close()
		defer syscall.Close(fds[1])
		type peerRes struct {
			msg []byte
			err error
		}
		peer := make(chan peerRes, 1)
		go func() {
			// the AMF side: read the request, answer with an NG SETUP RESPONSE of an AMF that serves two more PLMNs and lists
			// them before the gNB's own (the request itself, a decodable PDU, when it announces no PLMN)
			buf := make([]byte, 4096)
			n, err := syscall.Read(fds[1], buf)
			if err != nil || n <= 0 {
				peer <- peerRes{nil, fmt.Errorf("read: %v", err)}
				return
			}
			ans := buf[:n]
			if req, e := ngap.Decoder(buf[:n]); e == nil {
				if own, _ := ngSetupPlmns(*req); len(own) == 3 {
					other := []byte{own[0] ^ 0x11, own[1], own[2] ^ 0x21}
					ans = peer2.NgSetupResponse(peer2.AmfIdentity{Name: "amf", PLMN: own, Region: 0xca, SetID: 0x3f8, Pointer: 0,
						Capacity: 255, SST: 1, SD: []byte{1, 2, 3}, FirstPLMNs: [][]byte{other, {0x13, 0x00, 0x14}}})
				}
			}
			_, err = syscall.Write(fds[1], ans)
			peer <- peerRes{buf[:n], err}
		}()
		// a panic inside ManageNGSetup (short IMSI) must not leave the peer blocked: closing fds[0] wakes it
		func() {
			defer func() {
				if r := recover(); r != nil {
					conn.Close()
					<-peer
					panic(r)
				}
			}()
			stgutg.ManageNGSetup(conn, "\x00\x01\x02", imsi, mnc, 24, "verif")
		}()
		pr := <-peer
		if pr.err != nil {
			return "err"
		}
		pdu, err := ngap.Decoder(pr.msg)
		if err != nil {
			return "err"
		}
		gnb, bc := ngSetupPlmns(*pdu)
		// the user location of every later message still names the PLMN announced, whatever the AMF answered
		cgi, tai, ok := laterPlmns()
		if !ok {
			return "err"
		}
		return "ok " + hx(gnb) + " " + hx(bc) + " " + hx(cgi) + " " + hx(tai)
	})
}

// laterPlmns: the later messages of the same run: every PLMNIdentity inside the emulator-path messages that carry a user
// location information (NR-CGI and TAI) copies the package variable TestPlmn. cgi = the NR-CGI PLMN of InitialUEMessage,
// tai = the one value of every PLMNIdentity of the three messages (all of them, concatenated, when they differ)
func laterPlmns() (cgi, tai []byte, ok bool) {
	ium := ngapTestpacket.BuildInitialUEMessage(1, []byte{0x7e}, "")
	for _, ie := range ium.InitiatingMessage.Value.InitialUEMessage.ProtocolIEs.List {
		if ie.Id.Value == ngapType.ProtocolIEIDUserLocationInformation {
			cgi = ie.Value.UserLocationInformation.UserLocationInformationNR.NRCGI.PLMNIdentity.Value
		}
	}
	var all [][]byte
	for _, pdu := range []ngapType.NGAPPDU{ium, ngapTestpacket.BuildUplinkNasTransport(1, 1, []byte{0x7e}),
		ngapTestpacket.BuildUEContextReleaseComplete(1, 1, nil)} {
		n := len(all)
		collectPlmns(reflect.ValueOf(pdu), &all)
		if len(all)-n < 2 { // NR-CGI and TAI at least
			return nil, nil, false
		}
	}
	tai = all[0]
	for _, v := range all {
		if string(v) != string(all[0]) { // not all the same: show them all
			tai = nil
			for _, w := range all {
				tai = append(tai, w...)
			}
			break
		}
	}
	return cgi, tai, true
}

var plmnType = reflect.TypeOf(ngapType.PLMNIdentity{})

// collectPlmns appends the value of every PLMNIdentity reachable from v
func collectPlmns(v reflect.Value, out *[][]byte) {
	switch v.Kind() {
	case reflect.Ptr, reflect.Interface:
		if !v.IsNil() {
			collectPlmns(v.Elem(), out)
		}
	case reflect.Struct:
		if v.Type() == plmnType {
			*out = append(*out, []byte(v.Interface().(ngapType.PLMNIdentity).Value))
			return
		}
		for k := 0; k < v.NumField(); k++ {
			collectPlmns(v.Field(k), out)
		}
	case reflect.Slice, reflect.Array:
		for k := 0; k < v.Len(); k++ {
			collectPlmns(v.Index(k), out)
		}
	}
}

func ngSetupPlmns(pdu ngapType.NGAPPDU) (gnb, bc []byte) {
	for _, ie := range pdu.InitiatingMessage.Value.NGSetupRequest.ProtocolIEs.List {
		switch ie.Id.Value {
		case ngapType.ProtocolIEIDGlobalRANNodeID:
			gnb = ie.Value.GlobalRANNodeID.GlobalGNBID.PLMNIdentity.Value
		case ngapType.ProtocolIEIDSupportedTAList:
			bc = ie.Value.SupportedTAList.List[0].BroadcastPLMNList.List[0].PLMNIdentity.Value
		}
	}
	return
}

func allDigits(b []byte) bool {
	for _, c := range b {
		if c < '0' || c > '9' {
			return false
		}
	}
	return len(b) > 0
}

func digits(e *emitter, n int) string {
	b := make([]byte, n)
	for i := range b {
		b[i] = byte('0' + e.rng.Intn(10))
	}
	return string(b)
}

func tx(s string) string { return hx([]byte(s)) }

// one (MCC, MNC) pair: the SUCI with a fresh random MSIN, the NG Setup PLMN and the library conversion
func suciCase(e *emitter, mcc, mnc string, msinLen int) {
	imsi := mcc + mnc + digits(e, msinLen)
	e.op("suci", tx(imsi), i(int64(len(mnc))))
	if e.thorough() || e.rng.Intn(4) == 0 {
		e.op("nassuci", tx(imsi), i(int64(len(mnc))))
	}
	e.op("ngplmn", tx(imsi), i(int64(len(mnc))))
	if len(imsi) <= 18 && e.rng.Intn(16) == 0 { // CreateUE parses the IMSI as a machine integer
		// through the whole registration procedure; the configured serving PLMN is the subscriber's own, or (roaming) another
		// one with an MNC of the same length: the SUCI is the subscriber's
		cmcc, cmnc := mcc, mnc
		if e.rng.Intn(2) == 0 {
			cmcc, cmnc = digits(e, 3), digits(e, len(mnc))
		}
		e.op("regsuci", tx(imsi), tx(cmnc), tx(cmcc))
	}
	if e.rng.Intn(3) == 0 {
		// a subscriber of another PLMN registers after NG Setup
		mnc2 := digits(e, 2+e.rng.Intn(2))
		e.op("ngplmn2", tx(imsi), i(int64(len(mnc))), tx(digits(e, 3)+mnc2+digits(e, 1+e.rng.Intn(10))), i(int64(len(mnc2))))
	}
	e.op("plmn2nas", tx(mcc), tx(mnc))
}

var boundaryDigits = []string{"0", "1", "5", "8", "9"}

func suciDomain(e *emitter) {
	// every boundary digit in every MCC/MNC position, both MNC lengths, every MSIN length 1..10
	l := 0
	for _, a := range boundaryDigits {
		for _, b := range boundaryDigits {
			for _, c := range boundaryDigits {
				mcc := a + b + c
				for _, mnc := range []string{a + c, c + b, b + a + c, c + a + b, "0" + b + a, a + b + "0"} {
					suciCase(e, mcc, mnc, 1+l%10)
					l++
				}
			}
		}
	}
	for d := 0; d < 10; d++ { // all ten digits in each position
		s := string(rune('0' + d))
		for _, mnc := range []string{s + s, s + "7", "7" + s, s + "12", "1" + s + "2", "12" + s} {
			for _, mcc := range []string{s + "34", "3" + s + "4", "34" + s} {
				suciCase(e, mcc, mnc, 1+l%10)
				l++
			}
		}
	}
	// the shipped configuration and the examples of the finding
	e.op("suci", tx("001010000000001"), "2")
	e.op("ngplmn", tx("imsi-001010000000001"), "2")
	e.op("suci", tx("310410123456789"), "3")
	// random MCC/MNC/MSIN, MSIN lengths 1..10 (and a few longer ones)
	for k := 0; k < e.n; k++ {
		mnc := digits(e, 2+e.rng.Intn(2))
		ml := 1 + e.rng.Intn(10)
		if e.rng.Intn(25) == 0 {
			ml = 11 + e.rng.Intn(8)
		}
		suciCase(e, digits(e, 3), mnc, ml)
	}
	// the real ManageNGSetup over a socketpair
	nReal := 40
	if e.thorough() {
		nReal = 2000
	}
	for k := 0; k < nReal; k++ {
		mcc, mnc := digits(e, 3), digits(e, 2+k%2)
		imsi := mcc + mnc + digits(e, 1+e.rng.Intn(10))
		if k%5 == 0 {
			imsi = "imsi-" + imsi
		}
		e.op("ngsetup", tx(imsi), tx(mnc))
	}
	// malformed: short IMSIs (index out of range), hex letters and other bytes, odd mncLen values
	for k := 0; k < e.n/10+30; k++ {
		n := e.rng.Intn(9)
		b := []byte(digits(e, n))
		if e.rng.Intn(2) == 0 {
			b = append(b, []byte(digits(e, e.rng.Intn(8)))...)
		}
		for j := range b {
			switch e.rng.Intn(12) {
			case 0:
				b[j] = "abcdefABCDEF"[e.rng.Intn(12)]
			case 1:
				b[j] = byte(e.rng.Intn(256))
			}
		}
		mncLen := []int64{2, 3, 0, 1, 4, -1, 7}[e.rng.Intn(7)]
		e.op("suci", hx(b), i(mncLen))
		if e.rng.Intn(3) == 0 {
			e.op("ngplmn", hx(b), i(mncLen))
		}
	}
}

// thorough tier: all 1000 MCC x (100 two-digit + 1000 three-digit MNC), sharded by the first MCC digit;
// MSIN length cycles 1..10 with random digits
func suciExhaustive(e *emitter, d int) {
	if !e.thorough() {
		return
	}
	l := d
	for m := d * 100; m < d*100+100; m++ {
		mcc := fmt.Sprintf("%03d", m)
		for n := 0; n < 100; n++ {
			suciCase(e, mcc, fmt.Sprintf("%02d", n), 1+l%10)
			l++
		}
		for n := 0; n < 1000; n++ {
			suciCase(e, mcc, fmt.Sprintf("%03d", n), 1+l%10)
			l++
		}
	}
}
