package main

import (
	"strconv"

	"free5gclib/CommonConsumerTestData/UDM/TestGenAuthData"
	"free5gclib/milenage"
)

// Domain milenage: src/free5gclib/milenage/milenage.go (C15).
//   mil_f1    <opc> <k> <rand> <sqn> <amf>                          → ok <mac_a‖mac_s>
//   mil_f2345 <opc> <k> <rand> <wRes> <wCk> <wIk> <wAk> <wAkstar>   → ok <res> <ck> <ik> <ak> <akstar>   (w = 0: nil buffer → "-")
//   mil_opc   <k> <op>                                              → ok <opc>
//   mil_gen   <opc> <amf> <k> <sqn> <rand> <res_len>                → ok <res_len> <autn> <ik> <ck> <ak> <res>
//   mil_check <opc> <k> <sqn> <rand> <autn>                         → ok <ret> <res_len> <res> <ck> <ik> <auts>
//   mil_auts  <opc> <k> <rand> <auts>                               → ok <ret> <sqn>
//   mil_ts19  <K> <RAND> <SQN> <AMF> <OP>                           → ok <OPc> <f1> <f1*> <f2> <f3> <f4> <f5> <f5*> as stored in TestGenAuthData
// Output buffers are fresh zeroed buffers of the documented sizes; input slices have cap == len.

// xb decodes a hex argument into a slice whose capacity equals its length (Go slice expressions check cap).
func xb(s string) []byte {
	b := aHex(s)
	// the caller's buffers are REUSED: the n-th input-only argument of an op lives in the same memory as the n-th one of
	// the op before when it has the same length (a per-subscriber loop that fills one key buffer in place). An
	// implementation that keeps a reference to its caller's slice (a cache key stored without copying) then sees "its"
	// value change under it.
	key := [2]int{len(constArgs), len(b)}
	out, ok := xbPool[key]
	if !ok {
		out = make([]byte, len(b)+8)
		xbPool[key] = out
	}
	copy(out, b)
	for i := len(b); i < len(out); i++ {
		out[i] = 0xc3 ^ byte(i)
	}
	// every other op the argument has no spare capacity (an over-long slice expression traps); otherwise it is a window into a
	// larger buffer of the caller (SQN‖AMF records, an AUTS): what lies behind it belongs to the caller and is watched as well
	xbSeq++
	if xbSlack && xbSeq%2 == 0 {
		constArgs = append(constArgs, constA{out, hx(out)})
		return out[:len(b)]
	}
	return constArg(out[:len(b):len(b)])
}

var xbSeq int

// xbSlack: the op has checked that every input-only argument has the length its position calls for (the model reads a slice
// expression that runs past the LENGTH as a trap, which Go does only when it runs past the capacity)
var xbSlack bool

func nominal(a []string, lens ...int) {
	xbSlack = true
	for i, l := range lens {
		if i >= len(a) || (a[i] == "-" && l != 0) || (a[i] != "-" && len(a[i]) != 2*l) {
			xbSlack = false
		}
	}
}

var xbPool = map[[2]int][]byte{}

func buf(want string, n int) []byte {
	switch want {
	case "1":
		return make([]byte, n)
	case "0":
		return nil
	}
	panic(badArg{})
}

func init() {
	register("milenage", milenageDomain)
	registerOp("mil_f1", func(a []string) string {
		nominal(a, 16, 16, 16, 6, 2)
		defer func() { xbSlack = false }()
		macA, macS := make([]byte, 8), make([]byte, 8)
		if err := milenage.F1(xb(a[0]), xb(a[1]), xb(a[2]), xb(a[3]), xb(a[4]), macA, macS); err != nil {
			return "err"
		}
		return "ok " + hx(append(macA, macS...))
	})
	registerOp("mil_f2345", func(a []string) string {
		res, ck, ik, ak, aks := buf(a[3], 8), buf(a[4], 16), buf(a[5], 16), buf(a[6], 6), buf(a[7], 6)
		if err := milenage.F2345(xb(a[0]), xb(a[1]), xb(a[2]), res, ck, ik, ak, aks); err != nil {
			return "err"
		}
		return "ok " + hx(res) + " " + hx(ck) + " " + hx(ik) + " " + hx(ak) + " " + hx(aks)
	})
	registerOp("mil_opc", func(a []string) string {
		return okHex(milenage.GenerateOPC(xb(a[0]), xb(a[1])))
	})
	registerOp("mil_gen", func(a []string) string {
		nominal(a, 16, 2, 16, 6, 16)
		defer func() { xbSlack = false }()
		autn, ik, ck, ak, res := make([]byte, 16), make([]byte, 16), make([]byte, 16), make([]byte, 6), make([]byte, 8)
		rl := uint(aU64(a[5]))
		milenage.MilenageGenerate(xb(a[0]), xb(a[1]), xb(a[2]), xb(a[3]), xb(a[4]), autn, ik, ck, ak, res, &rl)
		return "ok " + u(uint64(rl)) + " " + hx(autn) + " " + hx(ik) + " " + hx(ck) + " " + hx(ak) + " " + hx(res)
	})
	registerOp("mil_check", func(a []string) string {
		nominal(a, 16, 16, 6, 16, 16)
		defer func() { xbSlack = false }()
		ik, ck, res, auts := make([]byte, 16), make([]byte, 16), make([]byte, 8), make([]byte, 14)
		var rl uint
		ret := milenage.Milenage_check(xb(a[0]), xb(a[1]), xb(a[2]), xb(a[3]), xb(a[4]), ik, ck, res, &rl, auts)
		return "ok " + strconv.Itoa(ret) + " " + u(uint64(rl)) + " " + hx(res) + " " + hx(ck) + " " + hx(ik) + " " + hx(auts)
	})
	registerOp("mil_auts", func(a []string) string {
		nominal(a, 16, 16, 16, 14)
		defer func() { xbSlack = false }()
		sqn := make([]byte, 6)
		ret := milenage.Milenage_auts(xb(a[0]), xb(a[1]), xb(a[2]), xb(a[3]), sqn)
		return "ok " + strconv.Itoa(ret) + " " + hx(sqn)
	})
	registerOp("mil_ts19", func(a []string) string {
		t := TestGenAuthData.MilenageTestSet19
		// the arguments must be the table's own inputs (the generator emits them from the table)
		if a[0] != t.K || a[1] != t.RAND || a[2] != t.SQN || a[3] != t.AMF || a[4] != t.OP {
			return "err"
		}
		return "ok " + t.OPC + " " + t.F1 + " " + t.F1star + " " + t.F2 + " " + t.F3 + " " + t.F4 + " " + t.F5 + " " + t.F5star
	})
}

func sqnBytes(v uint64) []byte {
	return []byte{byte(v >> 40), byte(v >> 32), byte(v >> 24), byte(v >> 16), byte(v >> 8), byte(v)}
}

// milCorruptions emits `emit(mutated)` for every single-bit corruption of tok and, per octet, either every
// other value (full) or `k` random other values plus the two neighbours of the original value.
func milCorruptions(e *emitter, tok []byte, full bool, k int, emit func([]byte)) {
	for bit := 0; bit < 8*len(tok); bit++ {
		m := append([]byte{}, tok...)
		m[bit/8] ^= 0x80 >> uint(bit%8)
		emit(m)
	}
	for pos := 0; pos < len(tok); pos++ {
		if full {
			for d := 1; d < 256; d++ {
				m := append([]byte{}, tok...)
				m[pos] ^= byte(d)
				emit(m)
			}
			continue
		}
		for _, d := range []int{1, 255} { // value ± 1 (mod 256)
			m := append([]byte{}, tok...)
			m[pos] += byte(d)
			emit(m)
		}
		for j := 0; j < k; j++ {
			m := append([]byte{}, tok...)
			m[pos] ^= byte(1 + e.rng.Intn(255))
			emit(m)
		}
	}
}

func milenageDomain(e *emitter) {
	t := TestGenAuthData.MilenageTestSet19
	e.op("mil_ts19", t.K, t.RAND, t.SQN, t.AMF, t.OP)

	fullBases := 2
	if e.thorough() {
		fullBases = 12
	}
	for c := 0; c < e.n; c++ {
		k, op, rnd, amf := e.bytes(16), e.bytes(16), e.bytes(16), e.bytes(2)
		switch c % 8 { // a few structured keys
		case 5:
			k = make([]byte, 16)
		case 6:
			for i := range op {
				op[i] = 0xff
			}
		}
		e.op("mil_opc", hx(k), hx(op))
		opc, err := milenage.GenerateOPC(k, op)
		if err != nil {
			panic(err)
		}
		// network SQN: random, with boundary values
		var sqnNet uint64
		switch c % 6 {
		case 0:
			sqnNet = 1
		case 1:
			sqnNet = 1<<48 - 1
		case 2:
			sqnNet = uint64(e.rng.Intn(256)) << 40 // only octet 0 non-zero
		default:
			sqnNet = e.rng.Uint64() >> 16
		}
		sqn := sqnBytes(sqnNet)
		e.op("mil_f1", hx(opc), hx(k), hx(rnd), hx(sqn), hx(amf))
		e.op("mil_f2345", hx(opc), hx(k), hx(rnd), "1", "1", "1", "1", "1")
		if c%5 == 0 {
			// tokens that are not AUTNs: the valid AUTN cut to 0..15 octets (a MAC-A prefix, no MAC at all) and extended
			short := make([]byte, 16)
			rl0 := uint(8)
			milenage.MilenageGenerate(opc, amf, k, sqn, rnd, short, make([]byte, 16), make([]byte, 16), make([]byte, 6), make([]byte, 8), &rl0)
			for _, n := range []int{0, 6, 8, 9, 12, 15} {
				e.op("mil_check", hx(opc), hx(k), hx(sqnBytes(0)), hx(rnd), hx(short[:n]))
			}
			e.op("mil_check", hx(opc), hx(k), hx(sqnBytes(0)), hx(rnd), hx(append(append([]byte{}, short...), 0x00)))
		}
		if c%4 == 0 {
			// the same K and RAND under another operator code, back to back (and the first one again)
			opc2 := e.bytes(16)
			e.op("mil_f1", hx(opc2), hx(k), hx(rnd), hx(sqn), hx(amf))
			e.op("mil_f2345", hx(opc2), hx(k), hx(rnd), "1", "1", "1", "1", "1")
			e.op("mil_gen", hx(opc2), hx(amf), hx(k), hx(sqn), hx(rnd), "8")
			e.op("mil_f1", hx(opc), hx(k), hx(rnd), hx(sqn), hx(amf))
			// the same K and OPc with another RAND, and another K with the same OPc and RAND
			rnd2, k2 := e.bytes(16), e.bytes(16)
			e.op("mil_f2345", hx(opc), hx(k), hx(rnd2), "1", "1", "1", "1", "1")
			e.op("mil_f2345", hx(opc), hx(k2), hx(rnd), "1", "1", "1", "1", "1")
			e.op("mil_f1", hx(opc), hx(k2), hx(rnd), hx(sqn), hx(amf))
		}
		m := e.rng.Intn(32)
		fl := func(b int) string { return strconv.Itoa((m >> uint(b)) & 1) }
		e.op("mil_f2345", hx(opc), hx(k), hx(rnd), fl(0), fl(1), fl(2), fl(3), fl(4))
		e.op("mil_gen", hx(opc), hx(amf), hx(k), hx(sqn), hx(rnd), "8")
		if c%16 == 0 {
			e.op("mil_gen", hx(opc), hx(amf), hx(k), hx(sqn), hx(rnd), u(uint64(e.rng.Intn(8))))
			e.op("mil_gen", hx(opc), hx(amf), hx(k), hx(sqn), hx(rnd), u(uint64(8+e.rng.Intn(1000))))
		}
		// the valid AUTN, produced by the implementation itself
		autn, ik, ck, ak, res := make([]byte, 16), make([]byte, 16), make([]byte, 16), make([]byte, 6), make([]byte, 8)
		rl := uint(8)
		milenage.MilenageGenerate(opc, amf, k, sqn, rnd, autn, ik, ck, ak, res, &rl)

		// UE-side SQN values relative to the network's: smaller / equal / larger, off by one, and differing only in octet 0
		ueSqns := []uint64{}
		add := func(v uint64) { ueSqns = append(ueSqns, v&(1<<48-1)) }
		add(sqnNet)     // equal → resynchronisation
		add(sqnNet - 1) // off by one below → accepted (wraps for 0)
		add(sqnNet + 1) // off by one above → resynchronisation
		add(0)
		add(1<<48 - 1)
		add(sqnNet ^ (uint64(1+e.rng.Intn(255)) << 40)) // differs only in octet 0
		add(sqnNet ^ (1 << 47))
		add(sqnNet ^ (1 << 40))
		add(sqnNet ^ (uint64(1+e.rng.Intn(255)) << (8 * uint(e.rng.Intn(5))))) // differs only in one later octet
		add(e.rng.Uint64() >> 16)
		var accepted, resync []byte // a UE SQN for which the AUTN is accepted / triggers resynchronisation
		for _, v := range ueSqns {
			e.op("mil_check", hx(opc), hx(k), hx(sqnBytes(v)), hx(rnd), hx(autn))
			if v < sqnNet && accepted == nil {
				accepted = sqnBytes(v)
			}
			if v >= sqnNet && resync == nil {
				resync = sqnBytes(v)
			}
		}
		// every single-bit and single-octet corruption of the valid AUTN, checked by a UE that would accept the original
		if accepted != nil {
			milCorruptions(e, autn, c < fullBases, 3, func(mu []byte) {
				e.op("mil_check", hx(opc), hx(k), hx(accepted), hx(rnd), hx(mu))
			})
		}
		// resynchronisation: the AUTS produced by the implementation, then all its corruptions at the network side
		if resync != nil {
			ik2, ck2, res2, auts := make([]byte, 16), make([]byte, 16), make([]byte, 8), make([]byte, 14)
			var rl2 uint
			if milenage.Milenage_check(opc, k, resync, rnd, autn, ik2, ck2, res2, &rl2, auts) == -2 {
				e.op("mil_auts", hx(opc), hx(k), hx(rnd), hx(auts))
				milCorruptions(e, auts, c < fullBases, 3, func(mu []byte) {
					e.op("mil_auts", hx(opc), hx(k), hx(rnd), hx(mu))
				})
			}
			e.op("mil_auts", hx(opc), hx(k), hx(rnd), hx(e.bytes(14)))
		}

		// malformed stream: wrong lengths (never 24/32-octet keys: AES-192/256 is outside the model's AES-128 parameter)
		if c%4 == 0 {
			short := func(b []byte) []byte {
				n := e.rng.Intn(len(b) + 2)
				if n == 24 || n == 32 {
					n = 23
				}
				if n <= len(b) {
					return b[:n]
				}
				return append(append([]byte{}, b...), e.bytes(n-len(b))...)
			}
			args := [][]byte{opc, k, rnd, sqn, amf, autn}
			which := e.rng.Intn(len(args))
			args[which] = short(args[which])
			if e.rng.Intn(3) == 0 {
				w2 := e.rng.Intn(len(args))
				args[w2] = short(args[w2])
			}
			o, kk, r, s, a, au := args[0], args[1], args[2], args[3], args[4], args[5]
			e.op("mil_f1", hx(o), hx(kk), hx(r), hx(s), hx(a))
			e.op("mil_f2345", hx(o), hx(kk), hx(r), fl(0), fl(1), fl(2), fl(3), fl(4))
			e.op("mil_gen", hx(o), hx(a), hx(kk), hx(s), hx(r), "8")
			e.op("mil_check", hx(o), hx(kk), hx(s), hx(r), hx(au))
			e.op("mil_check", hx(o), hx(kk), hx(short(sqnBytes(0))), hx(r), hx(au))
			e.op("mil_auts", hx(o), hx(kk), hx(r), hx(short(e.bytes(14))))
			e.op("mil_opc", hx(kk), hx(short(op)))
		}
	}
	// a key that is not an AES key (aes.NewCipher refuses every length but 16, 24, 32): the error / -1 return of every
	// entry point, all other arguments well-formed
	for _, n := range []int{0, 1, 15, 17, 31, 33} {
		kk, opc, rnd, sqn, amf, autn, op := e.bytes(n), e.bytes(16), e.bytes(16), sqnBytes(7), e.bytes(2), e.bytes(16), e.bytes(16)
		e.op("mil_f1", hx(opc), hx(kk), hx(rnd), hx(sqn), hx(amf))
		e.op("mil_f2345", hx(opc), hx(kk), hx(rnd), "1", "1", "1", "1", "1")
		e.op("mil_gen", hx(opc), hx(amf), hx(kk), hx(sqn), hx(rnd), "8")
		e.op("mil_check", hx(opc), hx(kk), hx(sqn), hx(rnd), hx(autn))
		e.op("mil_auts", hx(opc), hx(kk), hx(rnd), hx(e.bytes(14)))
		e.op("mil_opc", hx(kk), hx(op))
	}
}
