package main

import (
	"fmt"
	"os"
	"reflect"
	"sort"
	"strconv"
	"strings"
	"time"

	"free5gclib/aper"
	"free5gclib/ngap"
	"verifharness/internal/bld"
	"verifharness/internal/tags"
)

// Domain builders (C13): the 50 real ngapTestpacket.Build* functions and the 14 tglib.Get* wrappers.
//
//	build    <Name> <plmn|-> <arg tokens…>  → ok <hex> | <value tokens of the NGAPPDU>     (builder)
//	                                           err | <value tokens>   the encoder refused the PDU
//	                                           ok <hex> / err                                (wrapper: only octets)
//	                                           panic / exit           Go panic / os.Exit (fatal.Fatalf) inside the call
//	buildsum <Name> <plmn|-> <arg tokens…>  → ok proc=… class=… ies=… amf=… ran=… nas=… psi=… gnbid=… name=… tla=… plmn=…
//	                                           what the LIBRARY decoder finds in the octets the entry point produced
//	                                           err / panic / exit as above
//
// <plmn|-> is the state: `-` = no NG Setup yet (TestPlmn is the package default), otherwise the executor first
// announces these PLMN octets by calling the real BuildNGSetupRequest. Argument tokens: internal/bld.
// Every call runs in a child process (worker) because the builders end in os.Exit(1) on some inputs.
var bldWorker = &bld.Worker{Args: []string{"builders-worker"}}

func init() {
	register("builders", buildersDomain)
	register("builders-worker", func(e *emitter) {
		bld.Serve(os.Stdin, e.w, func(line string) string {
			toks := strings.Fields(line)
			if len(toks) == 0 {
				return "bad-op"
			}
			switch toks[0] {
			case "build":
				return bld.Run(toks[1:]).Text()
			case "buildsum":
				return buildSummary(toks[1:])
			}
			return "bad-op"
		})
	})
	viaWorker := func(op string) opFn {
		return func(a []string) string {
			if bld.InWorker() {
				panic("nested worker")
			}
			return bldWorker.Do(op + " " + strings.Join(a, " "))
		}
	}
	registerOp("build", viaWorker("build"))
	registerOp("buildsum", viaWorker("buildsum"))
	// the worker has its own time limit (4 s + 1 s per 16 K characters of the request); the executor's watchdog must not give up
	// before it (an abandoned call would overlap with the next request to the same worker)
	opLimits["build"] = 40 * time.Second
	opLimits["buildsum"] = 40 * time.Second
}

// ---------------------------------------------------------------- summary (library decoder + reflection walk)

type summary struct {
	amf, ran, nas, psi, gnbid, name, tla []string
	plmn                                 map[string]bool
}

func list(l []string) string {
	if len(l) == 0 {
		return "-"
	}
	return strings.Join(l, ",")
}

func xhex(b []byte) string {
	s := "x"
	for _, c := range b {
		s += fmt.Sprintf("%02x", c)
	}
	return s
}

func bitsText(bs aper.BitString) string {
	n := int((bs.BitLength + 7) / 8)
	b := bs.Bytes
	if len(b) > n {
		b = b[:n]
	}
	return strconv.FormatUint(bs.BitLength, 10) + ":" + hx(b)
}

// walk collects, by ASN.1 type name, the values the property speaks about; OCTET STRING fields named after a
// transfer type (and the source-to-target container) are decoded with "valueExt" and walked too.
func (s *summary) walk(v reflect.Value) {
	t := v.Type()
	switch t {
	case aper.BitStringType, aper.OctetStringType, aper.ObjectIdentifierType, aper.EnumeratedType:
		return
	}
	switch v.Kind() {
	case reflect.Ptr:
		if !v.IsNil() {
			s.walk(v.Elem())
		}
	case reflect.Slice:
		for i := 0; i < v.Len(); i++ {
			s.walk(v.Index(i))
		}
	case reflect.Struct:
		switch t.Name() {
		case "AMFUENGAPID":
			s.amf = append(s.amf, i(v.Field(0).Int()))
		case "RANUENGAPID":
			s.ran = append(s.ran, i(v.Field(0).Int()))
		case "NASPDU":
			s.nas = append(s.nas, xhex(v.Field(0).Bytes()))
		case "PDUSessionID":
			s.psi = append(s.psi, i(v.Field(0).Int()))
		case "RANNodeName":
			s.name = append(s.name, xhex([]byte(v.Field(0).String())))
		case "TransportLayerAddress":
			s.tla = append(s.tla, bitsText(v.Field(0).Interface().(aper.BitString)))
		case "PLMNIdentity":
			s.plmn[xhex(v.Field(0).Bytes())] = true
		case "GNBID":
			if v.Field(0).Int() == 1 && !v.Field(1).IsNil() {
				s.gnbid = append(s.gnbid, bitsText(v.Field(1).Elem().Interface().(aper.BitString)))
			}
		}
		for k := 0; k < t.NumField(); k++ {
			f := v.Field(k)
			if f.Type() == aper.OctetStringType {
				inner := t.Field(k).Name
				if t.Name() == "SourceToTargetTransparentContainer" {
					inner = "SourceNGRANNodeToTargetNGRANNodeTransparentContainer"
				}
				if it, ok := ngapTypes[inner]; ok && inner != t.Name() {
					p := reflect.New(it)
					if err := aper.UnmarshalWithParams(f.Bytes(), p.Interface(), "valueExt"); err == nil {
						s.walk(p.Elem())
					}
				}
				continue
			}
			s.walk(f)
		}
	}
}

func buildSummary(toks []string) string {
	r := bld.Run(toks)
	suffix := ""
	if r.Aliased {
		suffix = " ALIASED:previous-builder-call"
	}
	if r.Class != "ok" {
		return r.Class + suffix
	}
	return guardPanic(func() string {
		return buildSummaryOK(r)
	}) + suffix
}

func buildSummaryOK(r bld.Result) string {
	return guardPanic(func() string {
		pdu, err := ngap.Decoder(r.Octets)
		if err != nil {
			return "decerr"
		}
		v := reflect.ValueOf(pdu).Elem()
		present := int(v.Field(0).Int())
		if present < 1 || present > 3 || v.Field(present).IsNil() {
			return "decerr"
		}
		m := v.Field(present).Elem()
		proc := m.Field(0).Field(0).Int()
		val := m.Field(2)
		mp := int(val.Field(0).Int())
		var ies []string
		if mp >= 1 && mp < val.NumField() && !val.Field(mp).IsNil() {
			lst := val.Field(mp).Elem().Field(0).Field(0)
			for k := 0; k < lst.Len(); k++ {
				ie := lst.Index(k)
				ies = append(ies, i(ie.Field(0).Field(0).Int())+":"+u(ie.Field(1).Field(0).Uint()))
			}
		}
		s := &summary{plmn: map[string]bool{}}
		s.walk(v)
		var pl []string
		for k := range s.plmn {
			pl = append(pl, k)
		}
		sort.Strings(pl)
		return fmt.Sprintf("ok proc=%d class=%d ies=%s amf=%s ran=%s nas=%s psi=%s gnbid=%s name=%s tla=%s plmn=%s",
			proc, present-1, list(ies), list(s.amf), list(s.ran), list(s.nas), list(s.psi), list(s.gnbid), list(s.name), list(s.tla), list(pl))
	})
}

func guardPanic(f func() string) (res string) {
	defer func() {
		if r := recover(); r != nil {
			res = "panic"
		}
	}()
	return f()
}

// ---------------------------------------------------------------- generator

type argGen struct {
	e *emitter
	g *vgen
}

func (a *argGen) pick(l ...string) string { return l[a.e.rng.Intn(len(l))] }

// idTok: an AMF-UE-NGAP-ID (ub = 40) or RAN-UE-NGAP-ID (ub = 32): boundary values inside and just outside the range,
// about one in six outside.
func (a *argGen) idTok(ub uint) string {
	r := a.e.rng
	max := int64(1)<<ub - 1
	switch r.Intn(18) {
	case 0:
		return "i0"
	case 1:
		return "i1"
	case 2:
		return "i4294967295"
	case 3:
		return "i" + i(max)
	case 4:
		return "i" + i(max-1)
	case 5:
		if ub > 32 {
			return "i4294967296"
		}
		return "i2147483648"
	case 6:
		return "i" + i(max+1) // 2^32 resp. 2^40: first value outside
	case 7:
		return "i-1"
	case 8:
		return a.pick("i1099511627776", "i1099511627775", "i4294967296", "i"+i(int64(r.Uint64()>>1)), "i-"+i(int64(r.Uint64()>>1)))
	}
	return "i" + i(int64(r.Uint64()&uint64(max)))
}

func (a *argGen) psiTok() string {
	r := a.e.rng
	switch r.Intn(14) {
	case 0:
		return "i0"
	case 1:
		return "i1"
	case 2:
		return "i255"
	case 3:
		return "i256"
	case 4:
		return a.pick("i-1", "i257", "i65536", "i"+i(int64(r.Intn(100000))))
	}
	return "i" + i(int64(r.Intn(256)))
}

func (a *argGen) bytesTok(n int) string { return "o" + hx(a.e.bytes(n)) }

func (a *argGen) nasTok() string {
	r := a.e.rng
	switch r.Intn(12) {
	case 0:
		return "n"
	case 1:
		return "o-"
	case 2:
		return a.bytesTok(1)
	case 3:
		return a.bytesTok(127)
	case 4:
		return a.bytesTok(128)
	case 5:
		if r.Intn(4) == 0 || a.e.thorough() {
			return a.bytesTok(5000)
		}
		return a.bytesTok(300)
	case 6:
		// a NAS-PDU of three and more length fragments (64K + 16K + rest …), now and then
		if r.Intn(10) == 0 {
			return a.bytesTok([]int{81921, 98305, 131073}[r.Intn(3)])
		}
	}
	return a.bytesTok(1 + r.Intn(90))
}

func strTok(s string) string { return "s" + hx([]byte(s)) }

func (a *argGen) ipTok() string {
	r := a.e.rng
	switch r.Intn(10) {
	case 0:
		return strTok("0.0.0.0")
	case 1:
		return strTok("255.255.255.255")
	case 2:
		return strTok("10.0.0.1")
	case 3:
		return strTok(a.pick("", "1.2.3", "256.1.1.1", "abc", "1.2.3.4.5", "::1", "::ffff:1.2.3.4", " 1.2.3.4", "01.2.3.4", "1.2.3.4 ", "1..2.3", "fe80::1%eth0"))
	}
	return strTok(fmt.Sprintf("%d.%d.%d.%d", r.Intn(256), r.Intn(256), r.Intn(256), r.Intn(256)))
}

func (a *argGen) tmsiTok() string {
	r := a.e.rng
	switch r.Intn(8) {
	case 0, 1, 2:
		return strTok("")
	case 3:
		return strTok(a.pick("ab", "abc", "zzzzzzzzzzzz", "0123456789a", "0123456789", "0123456789abcd", "fe0g00000001", "FE0000000001"))
	}
	return strTok(hx(a.e.bytes(6)))
}

func (a *argGen) nameTok() string {
	r := a.e.rng
	n := 1 + r.Intn(20)
	switch r.Intn(8) {
	case 0:
		return strTok("free5GC")
	case 1:
		n = 0
	case 2:
		n = 150
	case 3:
		n = 151
	}
	b := make([]byte, n)
	for k := range b {
		b[k] = byte(0x20 + r.Intn(95))
	}
	return strTok(string(b))
}

func (a *argGen) plmnTok() string {
	r := a.e.rng
	switch r.Intn(10) {
	case 0:
		return a.bytesTok(2)
	case 1:
		return a.bytesTok(4)
	case 2:
		return "o-"
	case 3:
		return "o02f839"
	}
	return a.bytesTok(3)
}

func (a *argGen) valTok(t reflect.Type) string {
	r := a.e.rng
	if (t.Kind() == reflect.Ptr || t.Kind() == reflect.Slice) && r.Intn(3) == 0 {
		return "n"
	}
	if t.Kind() == reflect.Slice && r.Intn(6) == 0 {
		return "[ ]"
	}
	v := reflect.New(t).Elem()
	a.g.budget = 200
	a.g.fill(v, tags.Parse("valueExt"))
	if t.Kind() == reflect.Struct && v.NumField() == 1 && v.Field(0).Kind() == reflect.Slice && r.Intn(5) == 0 {
		v.Field(0).Set(reflect.Zero(v.Field(0).Type())) // a list container with no element
	}
	return bld.Reflect(v).Tokens()
}

// args generates the argument tokens of one call.
func (a *argGen) args(en *bld.Entry) []string {
	r := a.e.rng
	ft := reflect.TypeOf(en.Fn)
	out := make([]string, len(en.Roles))
	for k, role := range en.Roles {
		switch role {
		case bld.RAmf:
			out[k] = a.idTok(40)
		case bld.RRan:
			out[k] = a.idTok(32)
		case bld.RPsi:
			out[k] = a.psiTok()
		case bld.RPsiList:
			switch r.Intn(6) {
			case 0:
				out[k] = "n"
			case 1:
				out[k] = "[ ]"
			default:
				n := 1 + r.Intn(4)
				l := []string{"["}
				for j := 0; j < n; j++ {
					l = append(l, a.psiTok())
				}
				out[k] = strings.Join(append(l, "]"), " ")
			}
		case bld.RNas:
			out[k] = a.nasTok()
		case bld.RIp:
			out[k] = a.ipTok()
		case bld.RTmsi:
			out[k] = a.tmsiTok()
		case bld.RPlmn:
			out[k] = a.plmnTok()
		case bld.RName, bld.RStr:
			out[k] = a.nameTok()
		case bld.RInt:
			out[k] = a.pick("i0", "i255", "i256", "i-1", "i"+i(int64(r.Intn(256))), "i"+i(int64(r.Intn(256))))
		case bld.RPInt:
			out[k] = a.pick("n", "p i1", "p i99", "p i0", "p i100", "p i"+i(int64(1+r.Intn(99))))
		case bld.RVal:
			out[k] = a.valTok(ft.In(k))
		case bld.RGnbId, bld.RBitLen, bld.RCellId:
			// filled below (they depend on each other)
		default:
			panic("builders: role " + role)
		}
	}
	// gNB id octets with their bit length (NG Setup) or with the cell id (Handover Required)
	gi, bi, ci := -1, -1, -1
	for k, role := range en.Roles {
		switch role {
		case bld.RGnbId:
			gi = k
		case bld.RBitLen:
			bi = k
		case bld.RCellId:
			ci = k
		}
	}
	if gi >= 0 && bi >= 0 {
		bl := 22 + r.Intn(11)
		n := 3 + r.Intn(2)
		switch r.Intn(12) {
		case 0:
			bl = a.e.rng.Intn(2)*12 + 21 // 21 or 33: outside SIZE(22..32)
			n = 5
		case 1:
			bl = 22 + r.Intn(3)
			n = 2 // too few octets for the bit length
		case 2:
			bl = 0
		}
		// a bit length above 32 together with fewer octets than it needs is not generated: the encoder model
		// (Model/AperEnc.lean, scope: regular BitStrings) orders the two failures differently from marshal.go
		out[gi] = a.bytesTok(n)
		out[bi] = "i" + strconv.Itoa(bl)
	}
	if gi >= 0 && ci >= 0 {
		// the builder concatenates both into the 36-bit NR cell identity: 3+2 or 4+1 octets are the regular calls;
		// more than 5 octets in total is outside the encoder model's scope (BitString.Bytes longer than its length) and not generated
		g, c := 3, 2
		switch r.Intn(8) {
		case 0, 1, 2:
			g, c = 4, 1
		case 3:
			g, c = 3, 1
		case 4:
			g, c = 2+r.Intn(2), r.Intn(3)
		}
		out[gi] = a.bytesTok(g)
		out[ci] = a.bytesTok(c)
		if r.Intn(16) == 0 {
			out[ci] = "n"
		}
	}
	return out
}

func buildersDomain(e *emitter) {
	defer bldWorker.Close()
	a := &argGen{e: e, g: newVgen(e.rng)}
	for idx := range bld.Entries {
		en := &bld.Entries[idx]
		n := e.n
		if len(en.Roles) == 0 {
			n = 3 // no arguments: only the PLMN state varies
		}
		for c := 0; c < n; c++ {
			plmn := "-"
			if e.rng.Intn(2) == 0 {
				plmn = hx(e.bytes(3))
			}
			args := append([]string{en.Name, plmn}, strings.Fields(strings.Join(a.args(en), " "))...)
			e.op("build", args...)
			e.op("buildsum", args...)
		}
	}
}
