package main

import (
	"bytes"
	"encoding/hex"
	"os"
	"os/exec"
	"strings"
	"sync"

	"free5gclib/nas/security"
)

// Domain sec-alg: security.NASEncrypt / security.NASMacCalculate (C07).
//   nasenc <alg> <key16> <count> <bearer> <dir> <payload>   → payload afterwards
//   nasmac <alg> <key16> <count> <bearer> <dir> <msg>       → MAC
//   nasenc_cold / nasmac_cold: the same call as the FIRST use of the algorithms in a fresh process, made by 12 goroutines at
//       once, each on its own buffers (a table built lazily on first use must be complete for every one of them)
//       → the common result | ok diff
func init() {
	register("sec-alg", secAlg)
	cold := func(name string, call func(a []string) string) {
		registerOp(name+"_cold", func(a []string) string { return childOp(name+"_coldin", a) })
		registerOp(name+"_coldin", func(a []string) string {
			const g = 12
			var start, done sync.WaitGroup
			start.Add(1)
			res := make([]string, g)
			for i := 0; i < g; i++ {
				done.Add(1)
				go func(i int) {
					defer done.Done()
					defer func() {
						if r := recover(); r != nil {
							res[i] = "panic"
						}
					}()
					start.Wait()
					res[i] = call(a)
				}(i)
			}
			start.Done()
			done.Wait()
			for _, r := range res {
				if r != res[0] {
					return "ok diff"
				}
			}
			return res[0]
		})
	}
	// (called by twelve goroutines at once: no harness bookkeeping in here — plain formatting, private buffers)
	plain := func(b []byte, err error) string {
		if err != nil {
			return "err"
		}
		return "ok " + hx(b)
	}
	own := func(s string) []byte {
		b, err := hex.DecodeString(s)
		if err != nil && s != "-" {
			panic(badArg{})
		}
		return b
	}
	cold("nasenc", func(a []string) string {
		buf := own(a[5])
		var k [16]byte
		copy(k[:], own(a[1]))
		err := security.NASEncrypt(uint8(aU64(a[0])), k, uint32(aU64(a[2])), uint8(aU64(a[3])), uint8(aU64(a[4])), buf)
		return plain(buf, err)
	})
	cold("nasmac", func(a []string) string {
		var k [16]byte
		copy(k[:], own(a[1]))
		m, err := security.NASMacCalculate(uint8(aU64(a[0])), k, uint32(aU64(a[2])), uint8(aU64(a[3])), uint8(aU64(a[4])), own(a[5]))
		return plain(m, err)
	})
	registerOp("nasenc", func(a []string) string {
		buf := aHex(a[5])
		err := security.NASEncrypt(uint8(aU64(a[0])), a16(a[1]), uint32(aU64(a[2])), uint8(aU64(a[3])), uint8(aU64(a[4])), buf)
		return okHex(buf, err)
	})
	registerOp("nasmac", func(a []string) string {
		m, err := security.NASMacCalculate(uint8(aU64(a[0])), a16(a[1]), uint32(aU64(a[2])), uint8(aU64(a[3])), uint8(aU64(a[4])), aHex(a[5]))
		return okHex(m, err)
	})
}

// childOp executes one op in a fresh child process of this binary
func childOp(name string, a []string) string {
	cmd := exec.Command(os.Args[0], "run")
	cmd.Env = append(os.Environ(), "VERIF_CORR_CHILD=1")
	cmd.Stdin = strings.NewReader(name + " " + strings.Join(a, " ") + "\n")
	var out bytes.Buffer
	cmd.Stdout = &out
	cmd.Run()
	for _, line := range strings.Split(out.String(), "\n") {
		if i := strings.IndexByte(line, '\t'); i >= 0 && i+1 < len(line) && strings.HasPrefix(line, name+" ") { // an op line without a result: the child ended inside the op
			return line[i+1:]
		}
	}
	return "bad-op"
}

func secAlgCase(e *emitter, mac bool, alg uint8, key [16]byte, count uint32, bearer, dir uint8, msg []byte) {
	op := "nasenc"
	if mac {
		op = "nasmac"
	}
	e.op(op, u(uint64(alg)), hx(key[:]), u(uint64(count)), u(uint64(bearer)), u(uint64(dir)), hx(msg))
}

func secAlg(e *emitter) {
	maxLen := 80
	if e.thorough() {
		maxLen = 600
	}
	keys := [][16]byte{{}, {}, {}}
	copy(keys[1][:], e.bytes(16))
	for i := range keys[2] {
		keys[2][i] = 0xff
	}
	counts := []uint32{0, 1, 0x00ffffff, 0xffffffff, e.rng.Uint32()}
	// exhaustive over lengths 1..maxLen (every residue mod 4, 8, 16) x algorithms x dir x bearers
	for l := 1; l <= maxLen; l++ {
		msg := e.bytes(l)
		for _, alg := range []uint8{0, 1, 2} {
			for _, dir := range []uint8{0, 1} {
				for _, bearer := range []uint8{0, 1, 31} {
					k := keys[(l+int(alg)+int(dir))%3]
					c := counts[(l+int(bearer))%len(counts)]
					secAlgCase(e, false, alg, k, c, bearer, dir, msg)
					if alg != 0 {
						secAlgCase(e, true, alg, k, c, bearer, dir, msg)
					}
				}
			}
		}
	}
	// long messages: lengths around every power of two up to 64K (keystream drawn in bursts, word/block/page
	// boundaries, 16-bit length arithmetic) - NAS messages may be up to 65535 octets long
	long := []int{255, 256, 257, 1023, 1024, 1025, 2047, 2048, 2049, 4095, 4096, 4097, 4098, 4099, 4100, 4101, 8191, 8192, 8193, 8197}
	if e.thorough() {
		long = append(long, 12288, 12289, 16383, 16384, 16385, 32767, 32768, 32769, 65534, 65535, 65536, 65537, 70001)
	} else {
		long = append(long, 16385, 65537)
	}
	for i, l := range long {
		msg := e.bytes(l)
		for _, alg := range []uint8{1, 2} {
			dir := uint8((i + int(alg)) % 2)
			k := keys[(l+int(alg))%3]
			c := counts[(l+i)%len(counts)]
			secAlgCase(e, false, alg, k, c, 1, dir, msg)
			secAlgCase(e, true, alg, k, c, 1, dir, msg)
		}
	}
	// block boundaries of a keystream / block buffer that is NOT a power of two (768 words, 1536 words, 3 KiB, 6 KiB …): every
	// multiple B of 256 octets up to 4 KiB, then 6, 9 and 12 KiB, at B + 1, B + 2, B + 3 (a partial last word) and B − 1
	{
		var bs []int
		for b := 256; b <= 4096; b += 256 {
			bs = append(bs, b)
		}
		bs = append(bs, 6144, 9216, 12288)
		for i, b := range bs {
			if b&(b-1) == 0 && b >= 1024 {
				continue // the powers of two are in the list above
			}
			for _, d := range []int{-1, 1, 2, 3} {
				msg := e.bytes(b + d)
				alg := uint8(1 + (i+d+4)%2)
				secAlgCase(e, false, alg, keys[1], counts[(i+d+4)%len(counts)], 2, uint8(i%2), msg)
				if d == 1 {
					secAlgCase(e, false, 3-alg, keys[1], counts[i%len(counts)], 2, uint8(i%2), msg)
					secAlgCase(e, true, alg, keys[1], counts[i%len(counts)], 2, uint8(i%2), msg)
				}
			}
		}
	}
	// far beyond a NAS message (the property speaks of all inputs): more than 65 535 keystream words
	{
		giant := []int{262145}
		if e.thorough() {
			giant = []int{262141, 262144, 262145, 262400, 524289}
		}
		for i, l := range giant {
			msg := e.bytes(l)
			secAlgCase(e, false, 1, keys[1], counts[i%len(counts)], 1, 0, msg)
			if e.thorough() {
				secAlgCase(e, false, 2, keys[1], counts[i%len(counts)], 1, 1, msg)
			}
		}
	}
	// low-entropy messages: all-zero / all-one octets, and random messages with one 4/8/16-octet aligned block forced to
	// zeros or ones at every block position (data-dependent shortcuts: skipped zero blocks, cached blocks, sign handling)
	for _, l := range []int{1, 7, 8, 9, 15, 16, 17, 24, 31, 32, 33, 40, 64, 65, 100} {
		for _, fill := range []byte{0x00, 0xff} {
			msg := make([]byte, l)
			for i := range msg {
				msg[i] = fill
			}
			for _, alg := range []uint8{1, 2} {
				secAlgCase(e, false, alg, keys[1], counts[1], 1, 0, msg)
				secAlgCase(e, true, alg, keys[1], counts[1], 1, 1, msg)
			}
		}
	}
	for _, l := range []int{24, 40, 41, 64} {
		for _, bs := range []int{4, 8, 16} {
			for pos := 0; pos+bs <= l; pos += bs {
				msg := e.bytes(l)
				fill := byte(0x00)
				if (pos/bs)%3 == 2 {
					fill = 0xff
				}
				for i := pos; i < pos+bs; i++ {
					msg[i] = fill
				}
				alg := uint8(1 + (pos/bs+l)%2)
				secAlgCase(e, true, alg, keys[1], counts[(pos+l)%len(counts)], 1, uint8(pos/bs%2), msg)
				if bs == 16 {
					secAlgCase(e, false, alg, keys[1], counts[(pos+l)%len(counts)], 1, uint8(pos/bs%2), msg)
				}
			}
		}
	}
	// the same key / COUNT / BEARER / DIRECTION again and again with OTHER lengths, shorter then longer (a keystream or a
	// key schedule remembered from the call before must not be reused beyond what it covers)
	for _, alg := range []uint8{1, 2} {
		for _, dir := range []uint8{0, 1} {
			base := e.bytes(70)
			cnt := e.rng.Uint32()
			for _, l := range []int{10, 5, 10, 7, 23, 3, 24, 1, 16, 15, 17, 64, 33, 64, 2, 70, 9, 12} {
				secAlgCase(e, false, alg, keys[1], cnt, 3, dir, base[:l])
			}
			for _, l := range []int{10, 5, 10, 7, 23, 16, 15, 17, 33, 32} {
				secAlgCase(e, true, alg, keys[1], cnt, 3, dir, base[:l])
			}
		}
	}
	// first use of every algorithm in a fresh process, by 12 goroutines at once
	for i := 0; i < 24; i++ {
		alg := uint8(1 + i%2)
		msg := e.bytes(16 + e.rng.Intn(48))
		op := "nasenc_cold"
		if i%4 >= 2 {
			op = "nasmac_cold"
		}
		e.op(op, u(uint64(alg)), hx(keys[1][:]), u(uint64(e.rng.Uint32())), "1", u(uint64(i%2)), hx(msg))
	}
	// random cases, including argument-check edges
	for i := 0; i < e.n; i++ {
		var k [16]byte
		copy(k[:], e.bytes(16))
		l := 1 + e.rng.Intn(maxLen*2)
		if e.rng.Intn(50) == 0 {
			l = 0
		}
		alg := uint8(e.rng.Intn(3))
		if e.rng.Intn(40) == 0 {
			alg = uint8(3 + e.rng.Intn(3))
		}
		bearer := uint8(e.rng.Intn(32))
		if e.rng.Intn(40) == 0 {
			bearer = uint8(32 + e.rng.Intn(200))
		}
		dir := uint8(e.rng.Intn(2))
		if e.rng.Intn(40) == 0 {
			dir = uint8(2 + e.rng.Intn(200))
		}
		secAlgCase(e, e.rng.Intn(2) == 0, alg, k, e.rng.Uint32(), bearer, dir, e.bytes(l))
	}
}
