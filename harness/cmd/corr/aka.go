package main

import (
	"bytes"
	"encoding/hex"
	"fmt"
	"go/ast"
	"go/parser"
	"go/token"
	"os"
	"os/exec"
	"path/filepath"
	"strconv"
	"strings"
	"sync"

	"syscall"

	"free5gclib/UeauCommon"
	"free5gclib/milenage"
	"free5gclib/nas/security"
	"free5gclib/ngap"
	"stgutg"
	"tglib"

	"github.com/ishidawataru/sctp"

	peer2 "verifharness/peer"
)

// Domain aka: 5G-AKA RES* and key hierarchy (C05).
// Go strings travel as the hex of their octets ("-" = empty string).
//   aka_derive   <supi> <cipheringAlg> <integrityAlg> <AMF str> <K str> <OPc str> <OP str> <autn16> <rand> <snName> <mnc> <mcc>
//                                                   → ok <RES*> <Kamf> <KnasEnc> <KnasInt>   (tglib DeriveRESstarAndSetKey)
//   aka_derive_x same, executed in a child process: fatal.Fatalf (os.Exit(1)) → err
//   aka_snname   <mnc> <mcc>                        → ok <snName>  the two assignments in stgutg.RegisterUE, evaluated from its source
//   aka_kdf      <key> <FC str> <param>…            → ok <GetKDFValue(key, FC, param...)>
//   aka_kdfp     <key> <FC str> <P0> <P1>…          → ok <GetKDFValue(key, FC, P0, KDFLen(P0), P1, KDFLen(P1), …)>
//   aka_kdflen   <n>                                → ok <KDFLen(n octets)>
//   aka_consts                                      → ok <FC K_AUSF> <FC RES*> <FC K_SEAF> <FC K_AMF> <FC alg key> <N-NAS-enc-alg> <N-NAS-int-alg>
//   aka_kamf     <supi> <key> <snName> <sqn>        → ok <ue.Kamf>       (DerivateKamf)
//   aka_algkey   <kamf> <cipheringAlg> <integrityAlg> → ok <KnasEnc> <KnasInt>   (DerivateAlgKey)

func aStr(s string) string { return string(aHex(s)) }
func sx(s string) string   { return hx([]byte(s)) }

func a8(s string) uint8 {
	v := aU64(s)
	if v > 255 {
		panic(badArg{})
	}
	return uint8(v)
}

var snTieReported bool

func akaDerive(a []string) string {
	ue := tglib.NewRanUeContext(aStr(a[0]), 1, a8(a[1]), a8(a[2]))
	subs := tglib.GetAuthSubscription(aStr(a[4]), aStr(a[5]), aStr(a[6]))
	subs.AuthenticationManagementField = aStr(a[3])
	autn := a16(a[7])
	res := ue.DeriveRESstarAndSetKey(subs, autn, xb(a[8]), aStr(a[9]), aStr(a[10]), aStr(a[11]))
	return "ok " + hx(res) + " " + hx(ue.Kamf) + " " + hx(ue.KnasEnc[:]) + " " + hx(ue.KnasInt[:])
}

// akaDeriveAfter: as aka_derive, but a second subscription (other K / OPc / OP) is created between the creation of the UE's
// subscription and the derivation — the order in which the emulator creates its UE list before it registers the first UE.
// The first subscription must be unaffected.
func akaDeriveAfter(a []string) string {
	ue := tglib.NewRanUeContext(aStr(a[0]), 1, a8(a[1]), a8(a[2]))
	subs := tglib.GetAuthSubscription(aStr(a[4]), aStr(a[5]), aStr(a[6]))
	subs.AuthenticationManagementField = aStr(a[3])
	other := tglib.GetAuthSubscription(aStr(a[12]), aStr(a[13]), aStr(a[14]))
	_ = other
	autn := a16(a[7])
	res := ue.DeriveRESstarAndSetKey(subs, autn, xb(a[8]), aStr(a[9]), aStr(a[10]), aStr(a[11]))
	return "ok " + hx(res) + " " + hx(ue.Kamf) + " " + hx(ue.KnasEnc[:]) + " " + hx(ue.KnasInt[:])
}

// akaDeriveTwice: the SAME UE context authenticates twice (re-authentication): first with the arguments of the second half
// of the op line, then with the first 12 — the second derivation must be what a fresh context would derive from ITS arguments
// (nothing remembered from the first: RES*, keys, RAND).
func akaDeriveTwice(a []string) string {
	ue := tglib.NewRanUeContext(aStr(a[0]), 1, a8(a[1]), a8(a[2]))
	first := a[12:]
	subs1 := tglib.GetAuthSubscription(aStr(first[4]), aStr(first[5]), aStr(first[6]))
	subs1.AuthenticationManagementField = aStr(first[3])
	ue.DeriveRESstarAndSetKey(subs1, a16(first[7]), xb(first[8]), aStr(first[9]), aStr(first[10]), aStr(first[11]))
	subs := tglib.GetAuthSubscription(aStr(a[4]), aStr(a[5]), aStr(a[6]))
	subs.AuthenticationManagementField = aStr(a[3])
	res := ue.DeriveRESstarAndSetKey(subs, a16(a[7]), xb(a[8]), aStr(a[9]), aStr(a[10]), aStr(a[11]))
	return "ok " + hx(res) + " " + hx(ue.Kamf) + " " + hx(ue.KnasEnc[:]) + " " + hx(ue.KnasInt[:])
}

// akaRegister: the same twelve arguments (ciphering/integrity algorithm must be NEA0/NIA2, what CreateUE configures), but the
// derivation is reached the way the emulator reaches it: the real stgutg.RegisterUE over a socketpair against an AMF side
// that sends the AUTHENTICATION REQUEST carrying <rand>/<autn> and then decodable messages. RegisterUE builds the serving
// network name itself from mnc/mcc (the <snName> argument is what the model is given). All registrations of a run happen in
// this one process, on different PLMNs: nothing of an earlier registration may be remembered.
// RES* is cut out of the AUTHENTICATION RESPONSE on the wire, the keys are read from the UE context.
func akaRegister(a []string) string {
	if a8(a[1]) != security.AlgCiphering128NEA0 || a8(a[2]) != security.AlgIntegrity128NIA2 {
		panic(badArg{})
	}
	mnc, mcc := aStr(a[10]), aStr(a[11])
	rnd, autn := a16(a[8]), a16(a[7])
	ue := tglib.NewRanUeContext(aStr(a[0]), 7, security.AlgCiphering128NEA0, security.AlgIntegrity128NIA2)
	ue.AuthenticationSubs = tglib.GetAuthSubscription(aStr(a[4]), aStr(a[5]), aStr(a[6]))
	ue.AuthenticationSubs.AuthenticationManagementField = aStr(a[3])
	uls := runRegisterUE(ue, mnc, mcc, rnd, autn)
	var res []byte
	if len(uls) > 1 {
		if n := ulNasPdu(uls[1]); len(n) == 21 && n[0] == 0x7e && n[2] == 0x57 && n[3] == 0x2d && n[4] == 16 {
			res = n[5:]
		}
	}
	return "ok " + hx(res) + " " + hx(ue.Kamf) + " " + hx(ue.KnasEnc[:]) + " " + hx(ue.KnasInt[:])
}

// runRegisterUE drives the real stgutg.RegisterUE over a socketpair against an AMF side that sends the AUTHENTICATION REQUEST
// carrying rnd / autn and then decodable messages in place of the ones RegisterUE decodes and discards; it returns the uplink
// messages in order (REGISTRATION REQUEST, AUTHENTICATION RESPONSE, SECURITY MODE COMPLETE, INITIAL CONTEXT SETUP RESPONSE,
// REGISTRATION COMPLETE).
func runRegisterUE(ue *tglib.RanUeContext, mnc, mcc string, rnd, autn [16]byte) [][]byte {
	fds, err := syscall.Socketpair(syscall.AF_UNIX, syscall.SOCK_SEQPACKET, 0)
	if err != nil {
		panic(err)
	}
	conn := sctp.NewSCTPConn(fds[0], nil)
	defer conn.Close()
	ulCh := make(chan [][]byte, 1)
	go func() {
		defer syscall.Close(fds[1])
		var uls [][]byte
		defer func() { ulCh <- uls }()
		buf := make([]byte, 8192)
		rd := func() bool {
			n, err := syscall.Read(fds[1], buf)
			if err != nil || n <= 0 {
				return false
			}
			uls = append(uls, append([]byte{}, buf[:n]...))
			return true
		}
		dl := peer2.DownlinkNASTransport(0x1122334455, ue.RanUeNgapId, peer2.NasAuthenticationRequest(1, []byte{0, 0}, rnd, autn))
		if !rd() { // REGISTRATION REQUEST
			return
		}
		syscall.Write(fds[1], dl)
		rd()                      // AUTHENTICATION RESPONSE
		syscall.Write(fds[1], dl) // in place of SECURITY MODE COMMAND: decoded and discarded
		rd()                      // SECURITY MODE COMPLETE
		syscall.Write(fds[1], dl) // in place of INITIAL CONTEXT SETUP REQUEST
		rd()                      // INITIAL CONTEXT SETUP RESPONSE
		rd()                      // REGISTRATION COMPLETE
		syscall.Write(fds[1], dl) // in place of CONFIGURATION UPDATE COMMAND
	}()
	stgutg.RegisterUE(ue, mnc, mcc, conn)
	return <-ulCh
}

// ulNasPdu: the NAS-PDU of an INITIAL UE MESSAGE / UPLINK NAS TRANSPORT (nil when there is none)
func ulNasPdu(m []byte) []byte {
	pdu, e := ngap.Decoder(m)
	if e != nil || pdu.InitiatingMessage == nil {
		return nil
	}
	if t := pdu.InitiatingMessage.Value.UplinkNASTransport; t != nil {
		for _, ie := range t.ProtocolIEs.List {
			if ie.Value.NASPDU != nil {
				return ie.Value.NASPDU.Value
			}
		}
	}
	if t := pdu.InitiatingMessage.Value.InitialUEMessage; t != nil {
		for _, ie := range t.ProtocolIEs.List {
			if ie.Value.NASPDU != nil {
				return ie.Value.NASPDU.Value
			}
		}
	}
	return nil
}

// akaDeriveChild runs the op in a child process so that fatal.Fatalf's os.Exit(1) can be observed.
func akaDeriveChild(a []string) string {
	cmd := exec.Command(os.Args[0], "run")
	cmd.Env = append(os.Environ(), "VERIF_CORR_CHILD=1")
	cmd.Stdin = strings.NewReader("aka_derive " + strings.Join(a, " ") + "\n")
	var out bytes.Buffer
	cmd.Stdout = &out
	err := cmd.Run()
	for _, line := range strings.Split(out.String(), "\n") {
		if i := strings.IndexByte(line, '\t'); i >= 0 && i+1 < len(line) && strings.HasPrefix(line, "aka_derive ") { // an op line without a result: the child ended inside the op
			return line[i+1:]
		}
	}
	if ee, ok := err.(*exec.ExitError); ok && ee.ExitCode() == 1 {
		return "err" // fatal.Fatalf
	}
	return "bad-op"
}

// ---- the snName construction of stgutg.RegisterUE, evaluated from the source text (fails closed) ----

type snNameSrc struct {
	two, other ast.Expr // right-hand sides for len(mnc) == 2 and otherwise
	err        error
}

var (
	snOnce sync.Once
	snSrc  snNameSrc
)

func repoDir() string {
	if r := os.Getenv("VERIF_REPO"); r != "" {
		return r
	}
	return "/repo"
}

func loadSnName() {
	fail := func(f string, a ...interface{}) { snSrc.err = fmt.Errorf(f, a...) }
	path := filepath.Join(repoDir(), "src", "stgutg", "ue.go")
	fset := token.NewFileSet()
	file, err := parser.ParseFile(fset, path, nil, 0)
	if err != nil {
		fail("%v", err)
		return
	}
	var fn *ast.FuncDecl
	for _, d := range file.Decls {
		if f, ok := d.(*ast.FuncDecl); ok && f.Name.Name == "RegisterUE" && f.Recv == nil {
			fn = f
		}
	}
	if fn == nil {
		fail("RegisterUE not found in %s", path)
		return
	}
	// mnc and mcc must be string parameters
	strParams := map[string]bool{}
	for _, p := range fn.Type.Params.List {
		if id, ok := p.Type.(*ast.Ident); ok && id.Name == "string" {
			for _, n := range p.Names {
				strParams[n.Name] = true
			}
		}
	}
	if !strParams["mnc"] || !strParams["mcc"] {
		fail("RegisterUE: mnc/mcc are not string parameters")
		return
	}
	isIdent := func(e ast.Expr, name string) bool {
		id, ok := e.(*ast.Ident)
		return ok && id.Name == name
	}
	single := func(b *ast.BlockStmt) ast.Expr {
		if b == nil || len(b.List) != 1 {
			return nil
		}
		as, ok := b.List[0].(*ast.AssignStmt)
		if !ok || as.Tok != token.ASSIGN || len(as.Lhs) != 1 || len(as.Rhs) != 1 || !isIdent(as.Lhs[0], "snName") {
			return nil
		}
		return as.Rhs[0]
	}
	nAssign, nIf, usedOK := 0, 0, false
	ast.Inspect(fn.Body, func(n ast.Node) bool {
		switch s := n.(type) {
		case *ast.AssignStmt:
			for _, l := range s.Lhs {
				if isIdent(l, "snName") {
					nAssign++
				}
			}
		case *ast.IfStmt:
			be, ok := s.Cond.(*ast.BinaryExpr)
			if !ok || be.Op != token.EQL || s.Init != nil {
				return true
			}
			call, ok := be.X.(*ast.CallExpr)
			lit, ok2 := be.Y.(*ast.BasicLit)
			if !ok || !ok2 || !isIdent(call.Fun, "len") || len(call.Args) != 1 || !isIdent(call.Args[0], "mnc") || lit.Value != "2" {
				return true
			}
			els, _ := s.Else.(*ast.BlockStmt)
			if a, b := single(s.Body), single(els); a != nil && b != nil {
				snSrc.two, snSrc.other = a, b
				nIf++
			}
		case *ast.CallExpr:
			if sel, ok := s.Fun.(*ast.SelectorExpr); ok && sel.Sel.Name == "DeriveRESstarAndSetKey" {
				usedOK = len(s.Args) == 6 && isIdent(s.Args[3], "snName") && isIdent(s.Args[4], "mnc") && isIdent(s.Args[5], "mcc")
			}
		}
		return true
	})
	if nIf != 1 || nAssign != 2 || !usedOK {
		fail("RegisterUE: snName construction left the recognised shape (if=%d assignments=%d call=%v)", nIf, nAssign, usedOK)
	}
}

// evalStr evaluates a string expression made of string literals, the identifiers mnc/mcc and '+'.
func evalStr(e ast.Expr, mnc, mcc string) (string, bool) {
	switch x := e.(type) {
	case *ast.BasicLit:
		if x.Kind != token.STRING {
			return "", false
		}
		s, err := strconv.Unquote(x.Value)
		return s, err == nil
	case *ast.Ident:
		switch x.Name {
		case "mnc":
			return mnc, true
		case "mcc":
			return mcc, true
		}
		return "", false
	case *ast.ParenExpr:
		return evalStr(x.X, mnc, mcc)
	case *ast.BinaryExpr:
		if x.Op != token.ADD {
			return "", false
		}
		a, ok1 := evalStr(x.X, mnc, mcc)
		b, ok2 := evalStr(x.Y, mnc, mcc)
		return a + b, ok1 && ok2
	}
	return "", false
}

func akaSnName(mnc, mcc string) (string, bool) {
	snOnce.Do(loadSnName)
	if snSrc.err != nil {
		fmt.Fprintln(os.Stderr, "corr aka_snname:", snSrc.err)
		return "", false
	}
	if len(mnc) == 2 {
		return evalStr(snSrc.two, mnc, mcc)
	}
	return evalStr(snSrc.other, mnc, mcc)
}

func init() {
	register("aka", akaDomain)
	registerOp("aka_derive", akaDerive)
	registerOp("aka_derive_after", akaDeriveAfter)
	registerOp("aka_derive_twice", akaDeriveTwice)
	registerOp("aka_register", akaRegister)
	registerOp("aka_derive_x", func(a []string) string {
		if os.Getenv("VERIF_CORR_CHILD") != "" {
			return akaDerive(a)
		}
		return akaDeriveChild(a)
	})
	registerOp("aka_snname", func(a []string) string {
		s, ok := akaSnName(aStr(a[0]), aStr(a[1]))
		if !ok {
			return "bad-op"
		}
		return "ok " + sx(s)
	})
	registerOp("aka_kdf", func(a []string) string {
		ps := [][]byte{}
		for _, p := range a[2:] {
			ps = append(ps, xb(p))
		}
		return "ok " + hx(UeauCommon.GetKDFValue(xb(a[0]), aStr(a[1]), ps...))
	})
	registerOp("aka_kdfp", func(a []string) string {
		ps := [][]byte{}
		for _, p := range a[2:] {
			b := xb(p)
			ps = append(ps, b, UeauCommon.KDFLen(b))
		}
		return "ok " + hx(UeauCommon.GetKDFValue(xb(a[0]), aStr(a[1]), ps...))
	})
	registerOp("aka_kdflen", func(a []string) string {
		n := aU64(a[0])
		if n > 1<<20 {
			panic(badArg{})
		}
		return "ok " + hx(UeauCommon.KDFLen(make([]byte, n)))
	})
	registerOp("aka_consts", func(a []string) string {
		d := func(s string) string {
			b, err := hex.DecodeString(s)
			if err != nil {
				return "?"
			}
			return hx(b)
		}
		return "ok " + d(UeauCommon.FC_FOR_KAUSF_DERIVATION) + " " + d(UeauCommon.FC_FOR_RES_STAR_XRES_STAR_DERIVATION) + " " +
			d(UeauCommon.FC_FOR_KSEAF_DERIVATION) + " " + d(UeauCommon.FC_FOR_KAMF_DERIVATION) + " " +
			d(UeauCommon.FC_FOR_ALGORITHM_KEY_DERIVATION) + " " + hx([]byte{security.NNASEncAlg}) + " " + hx([]byte{security.NNASIntAlg})
	})
	registerOp("aka_kamf", func(a []string) string {
		ue := tglib.NewRanUeContext(aStr(a[0]), 1, 0, 0)
		ue.DerivateKamf(xb(a[1]), aStr(a[2]), xb(a[3]), nil)
		return "ok " + hx(ue.Kamf)
	})
	registerOp("aka_algkey", func(a []string) string {
		ue := tglib.NewRanUeContext("imsi-00000", 1, a8(a[1]), a8(a[2]))
		ue.Kamf = xb(a[0])
		ue.DerivateAlgKey()
		return "ok " + hx(ue.KnasEnc[:]) + " " + hx(ue.KnasInt[:])
	})
}

func (e *emitter) digits(n int) string {
	b := make([]byte, n)
	for i := range b {
		b[i] = byte('0' + e.rng.Intn(10))
	}
	return string(b)
}

func (e *emitter) hexStr(b []byte) string {
	s := hex.EncodeToString(b)
	if e.rng.Intn(4) == 0 {
		s = strings.ToUpper(s)
	}
	return s
}

func akaDomain(e *emitter) {
	e.op("aka_consts")
	for _, n := range []uint64{0, 1, 2, 6, 16, 32, 255, 256, 257, 65535, 65536, 65537, 70000} {
		e.op("aka_kdflen", u(n))
	}
	// serving network names: 2- and 3-digit MNC (and the shapes RegisterUE would also be given by a wrong configuration)
	for _, m := range []string{"93", "00", "99", "093", "410", "000", "999", "1", "", "1234"} {
		for _, c := range []string{"208", "001", "999", "20", "2080"} {
			e.op("aka_snname", sx(m), sx(c))
		}
	}
	for i := 0; i < 60; i++ {
		e.op("aka_snname", sx(e.digits(2+e.rng.Intn(2))), sx(e.digits(3)))
	}
	// GetKDFValue
	fcs := []string{"6A", "6B", "6C", "6D", "69", "6a", "20", "", "6", "zz", "6A6B"}
	for i := 0; i < e.n/4+20; i++ {
		key := e.bytes([]int{0, 1, 16, 32, 32, 32, 64, 65, 100}[e.rng.Intn(9)])
		fc := fcs[0]
		if i%3 == 0 {
			fc = fcs[e.rng.Intn(len(fcs))]
		} else {
			fc = fcs[e.rng.Intn(5)]
		}
		np := e.rng.Intn(4)
		args := []string{hx(key), sx(fc)}
		for j := 0; j < np; j++ {
			args = append(args, hx(e.bytes(e.rng.Intn(40))))
		}
		e.op("aka_kdfp", args...)
		e.op("aka_kdf", args...)
	}

	// two subscribers whose SUPI digits have the same CRC-32 (the checksum is linear: the pair collides behind ANY common prefix
	// and suffix), with everything else equal: a result remembered under a checksum of its input would be handed to the second
	{
		k, opc, rnd, autn := e.hexStr(e.bytes(16)), e.hexStr(e.bytes(16)), e.bytes(16), e.bytes(16)
		if sn, ok := akaSnName("01", "001"); ok {
			for _, supi := range []string{"imsi-001013179600191", "imsi-001018805722265", "imsi-001013179600191"} {
				e.op("aka_derive", sx(supi), "0", "2", sx("8000"), sx(k), sx(opc), sx(""), hx(autn), hx(rnd), sx(sn), sx("01"), sx("001"))
			}
		}
	}
	amfs := []string{"8000", "8000", "8000", "0000", "ffff", "c3ab"}
	for c := 0; c < e.n; c++ {
		k, op, rnd, autn := e.bytes(16), e.bytes(16), e.bytes(16), e.bytes(16)
		supiDigits := e.digits(5 + e.rng.Intn(11)) // 5..15 digits
		supi := "imsi-" + supiDigits
		mcc := e.digits(3)
		mnc := e.digits(2 + c%2)
		snName, ok := akaSnName(mnc, mcc)
		if !ok {
			// the source no longer has the two assignments: report the broken tie (once) and go on with the serving network
			// name of TS 24.501 9.12.1, so that the ops that reach the derivation through RegisterUE still run
			if !snTieReported {
				snTieReported = true
				e.op("aka_snname", sx(mnc), sx(mcc))
			}
			if len(mnc) == 2 {
				snName = "5G:mnc0" + mnc + ".mcc" + mcc + ".3gppnetwork.org"
			} else {
				snName = "5G:mnc" + mnc + ".mcc" + mcc + ".3gppnetwork.org"
			}
		}
		amf := amfs[e.rng.Intn(len(amfs))]
		kS, opS := e.hexStr(k), e.hexStr(op)
		opc, err := hexOPc(k, op)
		if err != nil {
			panic(err)
		}
		opcS := e.hexStr(opc)
		ca, ia := u(uint64(c%4)), u(uint64((c/4)%4)) // all 16 algorithm pairs
		base := func(opcStr, opStr string) []string {
			return []string{sx(supi), ca, ia, sx(amf), sx(kS), sx(opcStr), sx(opStr), hx(autn), hx(rnd), sx(snName), sx(mnc), sx(mcc)}
		}
		// OP only, the corresponding OPc only, and both configured (OPc wins)
		e.op("aka_derive", base("", opS)...)
		e.op("aka_derive", base(opcS, "")...)
		if c%3 == 0 {
			e.op("aka_derive", base(opcS, e.hexStr(e.bytes(16)))...)
		}
		if c%4 == 2 {
			// re-authentication of the same UE context: the same RAND with another AUTN, another serving network, another key
			b1 := base(opcS, "")
			v := append([]string{}, b1...)
			switch e.rng.Intn(3) {
			case 0:
				v[7] = hx(e.bytes(16)) // AUTN
			case 1:
				mnc2, mcc2 := e.digits(2+e.rng.Intn(2)), e.digits(3)
				if sn2, ok := akaSnName(mnc2, mcc2); ok {
					v[9], v[10], v[11] = sx(sn2), sx(mnc2), sx(mcc2)
				}
			default:
				v[4] = sx(e.hexStr(e.bytes(16))) // K
			}
			e.op("aka_derive_twice", append(b1, v...)...)
			e.op("aka_derive_twice", append(v, b1...)...)
		}
		if (c%8 == 3 || c%8 == 4) && len(supiDigits) >= 8 { // RegisterUE also encodes the SUCI: MCC, MNC and an MSIN
			// through the real RegisterUE (NEA0 / NIA2 as CreateUE configures): a different serving PLMN every time, 2- and
			// 3-digit MNCs alternating, all in this one process
			r := base(opcS, "")
			r[1], r[2] = u(uint64(security.AlgCiphering128NEA0)), u(uint64(security.AlgIntegrity128NIA2))
			e.op("aka_register", r...)
		}
		if c%4 == 1 {
			// another subscriber (other K / OPc / OP) is created before this one authenticates
			k2, op2 := e.hexStr(e.bytes(16)), e.hexStr(e.bytes(16))
			e.op("aka_derive_after", append(base("", opS), sx(k2), sx(""), sx(op2))...)
			e.op("aka_derive_after", append(base(opcS, ""), sx(k2), sx(e.hexStr(e.bytes(16))), sx(""))...)
		}
		e.op("aka_kamf", sx(supi), hx(e.bytes(32)), sx(snName), hx(autn[:6]))
		e.op("aka_algkey", hx(e.bytes(32)), ca, ia)

		// variations that stay inside the Go code's accepted inputs but leave the canonical ones
		if c%5 == 0 {
			a := base(opcS, "")
			switch e.rng.Intn(5) {
			case 0: // SUPI forms the regexp also accepts / truncates
				a[0] = sx([]string{"supi-" + supiDigits, "x" + supi, supi + "999999999999", "imsi-imsi-" + supiDigits, supi + "abc"}[e.rng.Intn(5)])
			case 1: // a serving network name that is not the PLMN's
				a[9] = sx("5G:mnc" + e.digits(3) + ".mcc" + e.digits(3) + ".3gppnetwork.org")
			case 2: // longer AMF
				a[3] = sx("800000")
			case 3: // algorithm identifiers outside 0..3
				a[1], a[2] = u(uint64(4+e.rng.Intn(252))), u(uint64(4+e.rng.Intn(252)))
			case 4: // RAND passed through, AUTN extremes
				a[7] = hx(bytes.Repeat([]byte{0xff}, 16))
			}
			e.op("aka_derive", a...)
			e.op("aka_kamf", a[0], hx(e.bytes(32)), a[9], hx(e.bytes(e.rng.Intn(9))))
		}
		// malformed: panics in-process (no SUPI match, short AMF), fatal exits in a child process
		if c%10 == 0 {
			a := base(opcS, "")
			a[0] = sx([]string{"imsi-1234", "imsi", "", "nai-" + supiDigits, "IMSI-" + supiDigits}[e.rng.Intn(5)])
			e.op("aka_derive", a...)
			e.op("aka_kamf", a[0], hx(e.bytes(32)), a[9], hx(autn[:6]))
			b := base(opcS, "")
			b[3] = sx([]string{"80", ""}[e.rng.Intn(2)])
			e.op("aka_derive", b...)
		}
		if c%25 == 0 {
			x := base(opcS, opS)
			switch (c / 25) % 11 {
			case 9:
				x[5] = sx(opcS[:30] + "zz") // OPc not hexadecimal
			case 10:
				x[5], x[6] = sx(""), sx("g"+opS[1:]) // OP not hexadecimal
			case 0:
				x[3] = sx("80zz") // AMF not hex
			case 1:
				x[4] = sx(kS[:30]) // K too short
			case 2:
				x[4] = sx(kS + "0") // K odd length
			case 3:
				x[5] = sx(opcS[:8]) // OPc too short
			case 4:
				x[5], x[6] = sx(""), sx("") // neither OPc nor OP
			case 5:
				x[8] = hx(rnd[:15]) // RAND too short
			case 6:
				x[11] = sx(mcc[:2]) // MCC of two digits
			case 7:
				x[10] = sx(mnc + "12") // MNC of four or five digits
			case 8:
				x[5], x[6] = sx(""), sx(opS[:10]) // OP too short
			}
			e.op("aka_derive_x", x...)
		}
	}
}

// hexOPc computes OPc = E_K(OP) xor OP with the repository's own milenage package (for generating the
// "corresponding OPc" inputs only).
func hexOPc(k, op []byte) ([]byte, error) { return milenage.GenerateOPC(k, op) }
