package main

import (
	"encoding/hex"
	"strconv"
)

// argument parsing helpers for op executors; a malformed argument is reported as "bad-op"
type badArg struct{}

func aHex(s string) []byte {
	if s == "-" {
		return []byte{}
	}
	b, err := hex.DecodeString(s)
	if err != nil {
		panic(badArg{})
	}
	return dirtySlack(b)
}

// dirtySlack returns b's octets in a buffer that has 24 octets of spare capacity filled with a non-zero pattern: a
// caller's slice is often a window into a larger, reused buffer, and what lies behind len(b) is not part of the value.
// An implementation that reads it (slicing up to cap, testing cap instead of len) computes something else than the model.
func dirtySlack(b []byte) []byte {
	backing := make([]byte, len(b)+24)
	copy(backing, b)
	for i := len(b); i < len(backing); i++ {
		backing[i] = 0xa5 ^ byte(i)
	}
	inputBufs = append(inputBufs, backing[:len(b)])
	return backing[:len(b)]
}

func aU64(s string) uint64 {
	v, err := strconv.ParseUint(s, 10, 64)
	if err != nil {
		panic(badArg{})
	}
	return v
}

func aI64(s string) int64 {
	v, err := strconv.ParseInt(s, 10, 64)
	if err != nil {
		panic(badArg{})
	}
	return v
}

func a16(s string) (k [16]byte) {
	b := aHex(s)
	if len(b) != 16 {
		panic(badArg{})
	}
	copy(k[:], b)
	return
}

func u(v uint64) string { return strconv.FormatUint(v, 10) }
func i(v int64) string  { return strconv.FormatInt(v, 10) }
