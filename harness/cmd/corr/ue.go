package main

import (
	"strings"

	"stgutg"
	"tglib"
)

// Domain ue (C16): stgutg.CreateUE, tglib.NewRanUeContext, GetUESecurityCapability.
//
//	createue <imsi:text-hex> <ueNumber> <K:text-hex> <OPC:text-hex> <OP:text-hex>
//	      → ok <Supi text-hex> <RanUeNgapId> <CipheringAlg> <IntegrityAlg> <K> <OPC> <OP> <AMF field>   (text-hex)
//	uecap <cipheringAlg> <integrityAlg>   → ok <Iei> <Len> <Buffer hex>
//	uesuci <imsi:text-hex> <mncLen> <ueNumber>   → ok <Buffer hex>: what RegisterUE sends for that UE,
//	        EncodeSuci([]byte(strings.TrimPrefix(CreateUE(imsi, ueNumber, …).Supi, "imsi-")), mncLen)
//	uepop <imsi:text-hex> <mncLen> <n> <K> <OPC> <OP>  → the population CreateUE(imsi, 0..n-1, K, OPC, OP):
//	        ok <#distinct SUPIs> <#distinct RAN-UE-NGAP-IDs> <all SUPIs as long as "imsi-"+imsi: 0|1>
//	           <all SUPIs start with "imsi-"+imsi[:3+mncLen]: 0|1> <every UE carries K/OPC/OP: 0|1>
func init() {
	register("ue", ueDomain)
	registerOp("createue", func(a []string) string {
		ue := stgutg.CreateUE(string(aHex(a[0])), int(aI64(a[1])), string(aHex(a[2])), string(aHex(a[3])), string(aHex(a[4])))
		s := ue.AuthenticationSubs
		return strings.Join([]string{"ok", tx(ue.Supi), i(ue.RanUeNgapId), u(uint64(ue.CipheringAlg)), u(uint64(ue.IntegrityAlg)),
			tx(s.PermanentKey.PermanentKeyValue), tx(s.Opc.OpcValue), tx(s.Milenage.Op.OpValue), tx(s.AuthenticationManagementField)}, " ")
	})
	registerOp("uecap", func(a []string) string {
		ue := tglib.NewRanUeContext("imsi-001010000000001", 1, uint8(aU64(a[0])), uint8(aU64(a[1])))
		c := ue.GetUESecurityCapability()
		return "ok " + u(uint64(c.Iei)) + " " + u(uint64(c.Len)) + " " + hx(c.Buffer)
	})
	// uecap2 <c> <i> <c0> <i0>: the context first advertised (c0, i0); its algorithms were then changed to (c, i) (the
	// fields are exported; key derivation and NAS protection read them on every use) and the capability is asked again:
	// it must be the capability of (c, i)
	registerOp("uecap2", func(a []string) string {
		ue := tglib.NewRanUeContext("imsi-001010000000001", 1, uint8(aU64(a[2])), uint8(aU64(a[3])))
		first := ue.GetUESecurityCapability()
		retain(func() string { return hx(first.Buffer) }) // what was handed out must not change afterwards either
		ue.CipheringAlg, ue.IntegrityAlg = uint8(aU64(a[0])), uint8(aU64(a[1]))
		c := ue.GetUESecurityCapability()
		return "ok " + u(uint64(c.Iei)) + " " + u(uint64(c.Len)) + " " + hx(c.Buffer)
	})
	registerOp("uesuci", func(a []string) string {
		ue := stgutg.CreateUE(string(aHex(a[0])), int(aI64(a[2])), "k", "opc", "op")
		m := stgutg.EncodeSuci([]byte(strings.TrimPrefix(ue.Supi, "imsi-")), int(aI64(a[1])))
		return "ok " + hx(m.Buffer)
	})
	registerOp("uepop", func(a []string) string {
		imsi := string(aHex(a[0]))
		mncLen := int(aU64(a[1]))
		n := int(aU64(a[2]))
		if n > 20000 || 3+mncLen > len(imsi) {
			panic(badArg{})
		}
		k, opc, op := string(aHex(a[3])), string(aHex(a[4])), string(aHex(a[5]))
		supis, ids := map[string]bool{}, map[int64]bool{}
		sameLen, samePrefix, creds := 1, 1, 1
		prefix := "imsi-" + imsi[:3+mncLen]
		// the whole population is created and KEPT first (the emulator's ueList), then looked at: a context handed out twice
		// (a recycled block, a pool) shows only when the early UEs are read after the late ones exist
		ues := make([]*tglib.RanUeContext, 0, n)
		for j := 0; j < n; j++ {
			ues = append(ues, stgutg.CreateUE(imsi, j, k, opc, op))
		}
		for _, ue := range ues {
			supis[ue.Supi] = true
			ids[ue.RanUeNgapId] = true
			if len(ue.Supi) != len("imsi-")+len(imsi) {
				sameLen = 0
			}
			if !strings.HasPrefix(ue.Supi, prefix) {
				samePrefix = 0
			}
			s := ue.AuthenticationSubs
			if s.PermanentKey.PermanentKeyValue != k || s.Opc.OpcValue != opc || s.Milenage.Op.OpValue != op {
				creds = 0
			}
		}
		return strings.Join([]string{"ok", i(int64(len(supis))), i(int64(len(ids))), i(int64(sameLen)), i(int64(samePrefix)), i(int64(creds))}, " ")
	})
}

func ueDomain(e *emitter) {
	const k, opc, op = "465B5CE8B199B49FAA5F0A2EE238A6BC", "E8ED289DEBA952E4283B54E88E6183CA", "E8ED289DEBA952E4283B54E88E6183CA"
	// all 16 x 16 algorithm pairs the capability switch can see, plus out-of-table values
	for c := 0; c < 8; c++ {
		for g := 0; g < 8; g++ {
			e.op("uecap", u(uint64(c)), u(uint64(g)))
			e.op("uecap2", u(uint64(c)), u(uint64(g)), u(uint64((c+1+g)%4)), u(uint64((g+2+c)%4)))
		}
	}
	for j := 0; j < 12; j++ {
		e.op("uecap", u(uint64(e.rng.Intn(256))), u(uint64(e.rng.Intn(256))))
	}
	// the shipped configuration, two UEs (the F4 example), leading zeros, 3-digit MNC
	e.op("createue", tx("001010000000001"), "0", tx(k), tx(opc), tx(op))
	e.op("createue", tx("001010000000001"), "1", tx(k), tx(opc), tx(op))
	e.op("uepop", tx("001010000000001"), "2", "2", tx(k), tx(opc), tx(op))
	e.op("uepop", tx("310410123456789"), "3", "1000", tx(k), tx(opc), tx(op))
	// populations: sizes 1..10 000, MSIN anywhere up to "close to but not beyond exhaustion", both MNC lengths
	sizes := []int{1, 2, 3, 10, 100, 999, 1000, 1001, 4096, 9999, 10000}
	nPop := e.n / 10 // quick 200, thorough 6000 populations
	if nPop < 30 {
		nPop = 30
	}
	for j := 0; j < nPop; j++ {
		mncLen := 2 + j%2
		msinLen := 1 + e.rng.Intn(10)
		if j%3 == 0 {
			msinLen = 9 + j%2 // the usual 15-digit IMSI
		}
		n := sizes[j%len(sizes)]
		if j >= len(sizes) && e.rng.Intn(2) == 0 {
			n = 1 + e.rng.Intn(10000)
		}
		// keep the population inside the MSIN space
		room := 1
		for d := 0; d < msinLen && room <= 10000; d++ {
			room *= 10
		}
		if n > room {
			n = room
		}
		var msin string
		switch j % 4 {
		case 0: // exactly exhausting: the last UE gets MSIN 99…9
			msin = padInt(pow10(msinLen)-int64(n), msinLen)
		case 1: // leading zeros
			msin = padInt(int64(e.rng.Intn(10)), msinLen)
		default:
			hi := pow10(msinLen) - int64(n)
			msin = padInt(e.rng.Int63n(hi+1), msinLen)
		}
		imsi := digits(e, 3) + digits(e, mncLen) + msin
		if j%5 == 1 {
			imsi = "00" + imsi[2:] // MCC with leading zeros (test networks 001/01)
		}
		e.op("uepop", tx(imsi), i(int64(mncLen)), i(int64(n)), hx(e.bytes(e.rng.Intn(33))), hx(e.bytes(e.rng.Intn(33))), hx(e.bytes(e.rng.Intn(33))))
	}
	// the SUCI each UE presents (link to C11): first, last and random members of a population
	for j := 0; j < e.n/4+20; j++ {
		mncLen := 2 + j%2
		msinLen := 1 + e.rng.Intn(10)
		imsi := digits(e, 3+mncLen) + padInt(e.rng.Int63n(pow10(msinLen)), msinLen)
		if j%7 == 0 {
			imsi = "00" + imsi[2:]
		}
		idx := int64(e.rng.Intn(10000))
		switch j % 5 {
		case 0:
			idx = 0
		case 1:
			idx = 9999
		}
		e.op("uesuci", tx(imsi), i(int64(mncLen)), i(idx))
	}
	e.op("uesuci", tx("001010000000001"), "2", "1")
	e.op("uesuci", tx("12345"), "2", "0")
	e.op("uesuci", tx("1234"), "2", "7")
	e.op("uesuci", tx("12a4567"), "3", "7")
	// populations that do NOT fit (outside the property's domain: the model must still agree)
	for j := 0; j < 6; j++ {
		msinLen := 1 + e.rng.Intn(3)
		imsi := digits(e, 5) + strings.Repeat("9", msinLen)
		e.op("uepop", tx(imsi), "2", i(int64(2+e.rng.Intn(20))), tx(k), tx(opc), tx(op))
	}
	// single UEs: random indices, random credentials
	for j := 0; j < e.n; j++ {
		imsi := digits(e, 5+e.rng.Intn(11))
		if e.rng.Intn(4) == 0 {
			imsi = "00" + imsi[2:]
		}
		idx := int64(e.rng.Intn(10000))
		if e.rng.Intn(20) == 0 {
			idx = int64(e.rng.Intn(1 << 30))
		}
		e.op("createue", tx(imsi), i(idx), hx(e.bytes(e.rng.Intn(33))), hx(e.bytes(e.rng.Intn(33))), hx(e.bytes(e.rng.Intn(33))))
	}
	// malformed IMSIs: empty, signs, letters, too long for an int, negative index
	bad := []string{"", "+", "-", "+12345", "-12345", "12a45", " 12345", "12345 ", "0x1234", "1_000", "99999999999999999999",
		"9223372036854775807", "9223372036854775808", "-9223372036854775808", "-9223372036854775809", "000000000000000000000001",
		"999999999999999", "0", "00000"}
	for _, s := range bad {
		for _, idx := range []int64{0, 1, 9999, -1, -20000} {
			e.op("createue", tx(s), i(idx), tx(k), tx(opc), tx(op))
		}
	}
}

func pow10(n int) int64 {
	r := int64(1)
	for j := 0; j < n; j++ {
		r *= 10
	}
	return r
}

func padInt(v int64, w int) string {
	s := i(v)
	for len(s) < w {
		s = "0" + s
	}
	return s
}
