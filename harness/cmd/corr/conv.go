package main

import (
	"encoding/hex"
	"fmt"
	"net"
	"strconv"
	"strings"

	"free5gclib/aper"
	"free5gclib/nas/nasConvert"
	"free5gclib/ngap/ngapConvert"
	"free5gclib/ngap/ngapType"
	"free5gclib/openapi/models"
	"free5gclib/util_3gpp"
)

// Domain conv (C17): nasConvert.{PlmnIDToNas, SnssaiToNas, AmfIdToNas, ProtocolConfigurationOptions},
// ngapConvert.{IPAddressToNgap, IPAddressToString}, util_3gpp.Dnn.
//
//	plmn2nas <mcc:text-hex> <mnc:text-hex>         → ok <3 octets>
//	snssai <sst:int32> <sd:text-hex>               → ok <octets>
//	amfid <amfId:text-hex>                         → ok <region> <set> <pointer>
//	amfid-range <lo> <hi>                          → ok <#ids in [lo,hi) whose fields do not recombine to the id> <checksum>
//	pcomar <units>    Marshal                      → ok <octets>         units = id.len.contentshex,…  ("-" = none)
//	pcounm <octets>   UnMarshal on a fresh value   → ok <units> | err
//	pcort <units>     UnMarshal(Marshal(units))    → ok <units> | err
//	ip2ngap <v4:text-hex> <v6:text-hex>            → ok <BitLength> <Bytes>
//	ngap2ip <BitLength> <Bytes>                    → ok <v4:text-hex> <v6:text-hex>
//	iprt <v4:text-hex> <v6:text-hex>               → IPAddressToString(IPAddressToNgap(v4, v6)) → ok <v4> <v6>
//	dnnmar <octets> / dnnunm <octets> / dnnrt <octets>
//	x-hexdec <text-hex> → ok <octets> <err 0|1>    x-parseip <text-hex> → ok <16 octets | ->    x-ipstr <octets> → ok <text-hex>
//	      (the standard-library calls themselves, against their Lean stand-ins in Model/NetExt.lean)
func init() {
	register("conv", convDomain)
	registerOp("plmn2nas", func(a []string) string {
		return okKeep(nasConvert.PlmnIDToNas(models.PlmnId{Mcc: string(aHex(a[0])), Mnc: string(aHex(a[1]))}))
	})
	registerOp("snssai", func(a []string) string {
		v := aI64(a[0])
		if v < -(1<<31) || v >= 1<<31 {
			panic(badArg{})
		}
		return okKeep(nasConvert.SnssaiToNas(models.Snssai{Sst: int32(v), Sd: string(aHex(a[1]))}))
	})
	registerOp("amfid", func(a []string) string {
		r, s, p := nasConvert.AmfIdToNas(string(aHex(a[0])))
		return "ok " + u(uint64(r)) + " " + u(uint64(s)) + " " + u(uint64(p))
	})
	registerOp("amfid-range", func(a []string) string {
		lo, hi := aU64(a[0]), aU64(a[1])
		if lo > hi || hi > 1<<24 || hi-lo > 1<<16 {
			panic(badArg{})
		}
		return amfidRange(lo, hi)
	})
	registerOp("pcomar", func(a []string) string {
		return okKeep(parseUnits(a[0]).Marshal())
	})
	registerOp("pcounm", func(a []string) string {
		p := nasConvert.NewProtocolConfigurationOptions()
		if err := p.UnMarshal(aHex(a[0])); err != nil {
			return "err"
		}
		retainDetached(func() string { return fmtUnits(p) })
		return "ok " + fmtUnits(p)
	})
	registerOp("pcort", func(a []string) string {
		p := nasConvert.NewProtocolConfigurationOptions()
		if err := p.UnMarshal(parseUnits(a[0]).Marshal()); err != nil {
			return "err"
		}
		return "ok " + fmtUnits(p)
	})
	// pcoadd <step>,<step>,… : the convenience constructors of ProtocolConfigurationOptions, applied in order to an empty
	// option list; r4 / r6 / ra = AddDNSServerIPv4AddressRequest / …IPv6AddressRequest / AddIPAddressAllocationViaNASSignallingUL,
	// d4.<ip octets> / d6.<ip octets> = AddDNSServerIPv4Address / …IPv6Address(net.IP), mtu.<n> = AddIPv4LinkMTU
	//   → ok <units> <Marshal octets> | err <index of the refused step> <units so far>
	registerOp("pcoadd", func(a []string) string {
		p := nasConvert.NewProtocolConfigurationOptions()
		for k, st := range strings.Split(a[0], ",") {
			f := strings.SplitN(st, ".", 2)
			var err error
			switch {
			case st == "r4":
				p.AddDNSServerIPv4AddressRequest()
			case st == "r6":
				p.AddDNSServerIPv6AddressRequest()
			case st == "ra":
				p.AddIPAddressAllocationViaNASSignallingUL()
			case len(f) == 2 && f[0] == "d4":
				err = p.AddDNSServerIPv4Address(net.IP(aHex(f[1])))
			case len(f) == 2 && f[0] == "d6":
				err = p.AddDNSServerIPv6Address(net.IP(aHex(f[1])))
			case len(f) == 2 && f[0] == "mtu":
				v := aU64(f[1])
				if v > 65535 {
					panic(badArg{})
				}
				err = p.AddIPv4LinkMTU(uint16(v))
			default:
				panic(badArg{})
			}
			if err != nil {
				return "err " + u(uint64(k)) + " " + fmtUnits(p)
			}
		}
		return "ok " + fmtUnits(p) + " " + hx(retainBytes(p.Marshal()))
	})
	registerOp("ip2ngap", func(a []string) string {
		t := ngapConvert.IPAddressToNgap(string(aHex(a[0])), string(aHex(a[1])))
		retainBytes(t.Value.Bytes) // the address octets handed out stay what they were when the next address is converted
		return "ok " + u(t.Value.BitLength) + " " + hx(t.Value.Bytes)
	})
	registerOp("ngap2ip", func(a []string) string {
		v4, v6 := ngapConvert.IPAddressToString(ngapType.TransportLayerAddress{Value: aper.BitString{Bytes: aHex(a[1]), BitLength: aU64(a[0])}})
		return "ok " + tx(v4) + " " + tx(v6)
	})
	registerOp("iprt", func(a []string) string {
		v4, v6 := ngapConvert.IPAddressToString(ngapConvert.IPAddressToNgap(string(aHex(a[0])), string(aHex(a[1]))))
		return "ok " + tx(v4) + " " + tx(v6)
	})
	registerOp("dnnmar", func(a []string) string {
		d := util_3gpp.Dnn(aHex(a[0]))
		b, err := d.MarshalBinary()
		return okHex(b, err)
	})
	registerOp("dnnunm", func(a []string) string {
		var d util_3gpp.Dnn
		err := d.UnmarshalBinary(aHex(a[0]))
		return okHex(d, err)
	})
	registerOp("dnnrt", func(a []string) string {
		d := util_3gpp.Dnn(aHex(a[0]))
		b, err := d.MarshalBinary()
		if err != nil {
			return "err"
		}
		var r util_3gpp.Dnn
		err = r.UnmarshalBinary(b)
		return okHex(r, err)
	})
	registerOp("x-hexdec", func(a []string) string {
		b, err := hex.DecodeString(string(aHex(a[0])))
		if err != nil {
			return "ok " + hx(b) + " 1"
		}
		return "ok " + hx(b) + " 0"
	})
	registerOp("x-parseip", func(a []string) string { return "ok " + hx(net.ParseIP(string(aHex(a[0])))) })
	registerOp("x-ipstr", func(a []string) string { return "ok " + tx(net.IP(aHex(a[0])).String()) })
}

func parseUnits(s string) *nasConvert.ProtocolConfigurationOptions {
	p := nasConvert.NewProtocolConfigurationOptions()
	if s == "-" {
		return p
	}
	for _, t := range strings.Split(s, ",") {
		f := strings.Split(t, ".")
		if len(f) != 3 {
			panic(badArg{})
		}
		id, err1 := strconv.ParseUint(f[0], 10, 16)
		l, err2 := strconv.ParseUint(f[1], 10, 8)
		if err1 != nil || err2 != nil {
			panic(badArg{})
		}
		p.ProtocolOrContainerList = append(p.ProtocolOrContainerList,
			&nasConvert.ProtocolOrContainerUnit{ProtocolOrContainerID: uint16(id), LengthOfContents: uint8(l), Contents: aHex(f[2])})
	}
	return p
}

func fmtUnit(id uint16, l uint8, c []byte) string {
	return u(uint64(id)) + "." + u(uint64(l)) + "." + hx(c)
}

func fmtUnits(p *nasConvert.ProtocolConfigurationOptions) string {
	if len(p.ProtocolOrContainerList) == 0 {
		return "-"
	}
	var out []string
	for _, c := range p.ProtocolOrContainerList {
		out = append(out, fmtUnit(c.ProtocolOrContainerID, c.LengthOfContents, c.Contents))
	}
	return strings.Join(out, ",")
}

func randV4(e *emitter) net.IP {
	// one address in four comes from a special-purpose block (RFC 6890): a conversion is a conversion for every address
	if e.rng.Intn(4) == 0 {
		pre := [][]byte{{0, 0}, {10, 0}, {100, 64}, {127, 0}, {169, 254}, {172, 16}, {192, 0}, {192, 168}, {198, 18}, {224, 0}, {240, 0}, {255, 255},
			{169, 253}, {169, 255}}[e.rng.Intn(14)]
		tail := e.bytes(2)
		if e.rng.Intn(3) == 0 {
			tail = [][]byte{{0, 0}, {0, 1}, {255, 255}, {169, 254}}[e.rng.Intn(4)]
		}
		return net.IP(append(append([]byte{}, pre...), tail...))
	}
	b := e.bytes(4)
	switch e.rng.Intn(6) {
	case 0:
		b[e.rng.Intn(4)] = 0
	case 1:
		b[e.rng.Intn(4)] = 255
	case 2:
		b = []byte{0, 0, 0, 0}
	}
	return net.IP(b)
}

func randV6(e *emitter) net.IP {
	b := e.bytes(16)
	switch e.rng.Intn(8) {
	case 0, 1, 2: // runs of zero groups (the "::" compression and its tie-breaks)
		for k := 0; k < 1+e.rng.Intn(3); k++ {
			st, ln := e.rng.Intn(8), 1+e.rng.Intn(7)
			for g := st; g < st+ln && g < 8; g++ {
				b[2*g], b[2*g+1] = 0, 0
			}
		}
	case 3: // small groups (leading zeros dropped)
		for g := 0; g < 8; g++ {
			if e.rng.Intn(2) == 0 {
				b[2*g] = 0
				if e.rng.Intn(2) == 0 {
					b[2*g+1] &= 0x0f
				}
			}
		}
	case 4:
		b = make([]byte, 16)
		b[15] = byte(e.rng.Intn(3))
	case 5: // IPv4-mapped
		b = append([]byte{0, 0, 0, 0, 0, 0, 0, 0, 0, 0, 0xff, 0xff}, e.bytes(4)...)
	}
	return net.IP(b)
}

// a non-canonical but valid spelling of the same address
func respell(e *emitter, ip net.IP) string {
	if len(ip) == 4 {
		return ip.String()
	}
	var g []string
	for k := 0; k < 8; k++ {
		v := uint16(ip[2*k])<<8 | uint16(ip[2*k+1])
		switch e.rng.Intn(3) {
		case 0:
			g = append(g, fmt.Sprintf("%04x", v))
		case 1:
			g = append(g, fmt.Sprintf("%X", v))
		default:
			g = append(g, fmt.Sprintf("%x", v))
		}
	}
	if e.rng.Intn(3) == 0 {
		return strings.Join(g[:6], ":") + ":" + net.IP(ip[12:16]).String()
	}
	return strings.Join(g, ":")
}

var badIPs = []string{"", "1.2.3", "1.2.3.4.5", "256.1.1.1", "01.2.3.4", "1..2.3", ".1.2.3", "1.2.3.", "1.2.3.4 ", " 1.2.3.4", "a.b.c.d",
	"1.2.3.-4", "::", "::1", "1::", ":::", "1:2:3:4:5:6:7", "1:2:3:4:5:6:7:8:9", "1:2:3:4:5:6:7::", "1:2:3:4:5:6:7:8::", "::1:2:3:4:5:6:7:8",
	"1::2::3", "12345::", "g::1", "fe80::1%eth0", "%eth0", "::%", "::ffff:1.2.3.4", "::1.2.3.4", "1:2:3:4:5:6:1.2.3.4", "1:2:3:4:5:1.2.3.4",
	"1:2:3:4:5:6:7:1.2.3.4", "::ffff:1.2.3", "::ffff:01.2.3.4", ":1:2:3:4:5:6:7", "1:2:3:4:5:6:7:", "1:", ":", "0:0:0:0:0:0:0:0",
	"0:0:0:0:0:ffff:102:304", "FFFF::", "ffff:ffff:ffff:ffff:ffff:ffff:ffff:ffff", "1.2.3.4%x", "localhost", "1:2:3:4:5:6:77777:8", "1:2:3:4:5:6:0007:8", "::00001"}

func convDomain(e *emitter) {
	// ---- PLMN: boundary digits; malformed strings ------------------------------------------------------
	for _, a := range boundaryDigits {
		for _, b := range boundaryDigits {
			for _, c := range boundaryDigits {
				e.op("plmn2nas", tx(a+b+c), tx(c+a))
				e.op("plmn2nas", tx(c+a+b), tx(b+c+a))
			}
		}
	}
	for k := 0; k < e.n; k++ {
		e.op("plmn2nas", tx(digits(e, 3)), tx(digits(e, 2+e.rng.Intn(2))))
	}
	for _, m := range [][2]string{{"", "01"}, {"00", "01"}, {"001", ""}, {"001", "0"}, {"001", "0123"}, {"0010", "01"}, {"0a1", "01"}, {"001", "0a"},
		{"001", "01a"}, {"001", "01f"}, {"+01", "-1"}, {"\xff01", "01"}, {"001", "\x8001"}, {"00a", "01"}, {"00-", "012"}, {"00\xff", "01"}} {
		e.op("plmn2nas", tx(m[0]), tx(m[1]))
	}
	// ---- S-NSSAI: every SST with SD absent / present; edges of int32 → uint8; bad SD text -----------------
	for sst := 0; sst < 256; sst++ {
		e.op("snssai", i(int64(sst)), "-")
		e.op("snssai", i(int64(sst)), tx(hex.EncodeToString(e.bytes(3))))
	}
	for k := 0; k < e.n/4; k++ {
		sd := hex.EncodeToString(e.bytes(3))
		if e.rng.Intn(2) == 0 {
			sd = strings.ToUpper(sd)
		}
		e.op("snssai", i(int64(e.rng.Intn(256))), tx(sd))
	}
	for _, v := range []int64{-1, 256, 257, -256, 1<<31 - 1, -(1 << 31), 1000} {
		e.op("snssai", i(v), tx("010203"))
		e.op("snssai", i(v), "-")
	}
	for _, sd := range []string{"0", "01020", "0102030", "zz0203", "01zz03", "01 0203", "01", "0102030405"} {
		e.op("snssai", "1", tx(sd))
	}
	// ---- AMF-ID: boundaries of the three fields; random; malformed ---------------------------------------
	for _, v := range []uint32{0, 1, 0x3f, 0x40, 0x7f, 0x80, 0xbf, 0xc0, 0xff, 0x100, 0x3fc0, 0xffc0, 0xffff, 0x10000, 0xff0000, 0xffffff, 0xcafe00, 0x010041} {
		e.op("amfid", tx(fmt.Sprintf("%06x", v)))
		e.op("amfid", tx(fmt.Sprintf("%06X", v)))
	}
	nAmf := e.n
	for k := 0; k < nAmf; k++ {
		e.op("amfid", tx(fmt.Sprintf("%06x", e.rng.Intn(1<<24))))
	}
	// exhaustive over whole regions (65 536 ids per op): all 256 regions in the thorough tier, 16 of them in quick
	for r := uint64(0); r < 256; r++ {
		if e.thorough() || r%16 == uint64(e.seed)%16 || r == 255 {
			e.op("amfid-range", u(r<<16), u((r+1)<<16))
		}
	}
	for _, s := range []string{"", "ca", "cafe", "cafe0", "cafe0g", "cafe000", "cafe0000", "zzzzzz", "ca fe00", "cafe0z", "cafez0"} {
		e.op("amfid", tx(s))
	}
	// ---- PCO: lists of 0..6 units, contents 0..255 octets; inconsistent length fields; raw octets ------------
	nPco := e.n / 2
	for k := 0; k < nPco+40; k++ {
		var us []string
		for j := e.rng.Intn(7); j > 0; j-- {
			l := 0
			switch e.rng.Intn(5) {
			case 0:
				l = 0
			case 1:
				l = 255 - e.rng.Intn(3)
			case 2:
				l = 1 + e.rng.Intn(4)
			default:
				l = e.rng.Intn(256)
			}
			if k%8 != 0 && l > 40 && !e.thorough() { // keep most quick-tier lines short
				l = l % 40
			}
			id := uint16(e.rng.Intn(1 << 16))
			if e.rng.Intn(3) == 0 {
				id = []uint16{0x000a, 0x0003, 0x000d, 0x0010, 0x8021, 0xc023, 0, 0xffff}[e.rng.Intn(8)]
			}
			us = append(us, fmtUnit(id, uint8(l), e.bytes(l)))
		}
		s := "-"
		if len(us) > 0 {
			s = strings.Join(us, ",")
		}
		e.op("pcomar", s)
		e.op("pcort", s)
	}
	for k := 0; k < 30; k++ { // LengthOfContents disagreeing with len(Contents): outside the property's domain
		l, c := e.rng.Intn(6), e.rng.Intn(6)
		s := fmtUnit(uint16(e.rng.Intn(1<<16)), uint8(l), e.bytes(c)) + "," + fmtUnit(10, 0, nil)
		e.op("pcomar", s)
		e.op("pcort", s)
	}
	e.op("pcounm", "-")
	// the constructors of the option list (pcoadd): every constructor alone, then random sequences; addresses of 4 and 16
	// octets in both slots (an IPv4-mapped 16-octet address is an IPv4 address to net.IP), and of other lengths
	ipTok := func() string {
		switch e.rng.Intn(8) {
		case 0:
			return hx(append(append(make([]byte, 10), 0xff, 0xff), e.bytes(4)...)) // IPv4-mapped
		case 1:
			return hx(e.bytes([]int{0, 1, 3, 5, 15, 17}[e.rng.Intn(6)]))
		case 2, 3, 4:
			return hx(e.bytes(16))
		}
		return hx(e.bytes(4))
	}
	stepTok := func() string {
		switch e.rng.Intn(6) {
		case 0:
			return "r4"
		case 1:
			return "r6"
		case 2:
			return "ra"
		case 3:
			return "d4." + ipTok()
		case 4:
			return "d6." + ipTok()
		}
		return "mtu." + u(uint64([]int{0, 1, 255, 256, 1280, 1500, 65535, e.rng.Intn(65536)}[e.rng.Intn(8)]))
	}
	for _, st := range []string{"r4", "r6", "ra", "d4.01020304", "d6.20010db8000000000000000000000001", "mtu.1500", "d4.-", "d6.01020304",
		"d4.00000000000000000000ffff0a000001", "d6.00000000000000000000ffff0a000001", "d4.20010db8000000000000000000000001", "r4,r6,ra"} {
		e.op("pcoadd", st)
	}
	for k := 0; k < 20+e.n/40; k++ {
		var steps []string
		for j := 1 + e.rng.Intn(6); j > 0; j-- {
			steps = append(steps, stepTok())
		}
		e.op("pcoadd", strings.Join(steps, ","))
	}
	for k := 0; k < nPco/2+60; k++ { // arbitrary octets: truncated units, wrong first octet
		b := e.bytes(e.rng.Intn(24))
		if len(b) > 0 && e.rng.Intn(2) == 0 {
			b[0] = 0x80
		}
		if len(b) > 3 && e.rng.Intn(2) == 0 {
			b[3] = byte(e.rng.Intn(6))
		}
		e.op("pcounm", hx(b))
	}
	// ---- transport layer address ----------------------------------------------------------------------
	nIP := e.n / 2
	for k := 0; k < nIP+60; k++ {
		v4, v6 := randV4(e), randV6(e)
		s4, s6 := v4.String(), v6.String()
		switch k % 3 {
		case 0:
			s6 = ""
		case 1:
			s4 = ""
		}
		e.op("ip2ngap", tx(s4), tx(s6))
		e.op("iprt", tx(s4), tx(s6))
		// the matching bit string, decoded
		switch k % 3 {
		case 0:
			e.op("ngap2ip", "32", hx(v4))
		case 1:
			e.op("ngap2ip", "128", hx(v6))
		default:
			e.op("ngap2ip", "160", hx(append(append([]byte{}, v4...), v6...)))
		}
		e.op("x-parseip", tx(v4.String()))
		e.op("x-parseip", tx(v6.String()))
		e.op("x-ipstr", hx(v6))
		if k%4 == 0 { // valid but not canonical spellings: the round trip normalises them
			r := respell(e, v6)
			e.op("x-parseip", tx(r))
			e.op("iprt", "-", tx(r))
			e.op("ip2ngap", tx(s4), tx(r))
		}
	}
	e.op("ip2ngap", "-", "-")
	e.op("iprt", "-", "-")
	for _, s := range badIPs {
		e.op("x-parseip", tx(s))
		e.op("ip2ngap", tx(s), "-")
		e.op("ip2ngap", "-", tx(s))
		e.op("ip2ngap", tx("10.0.0.1"), tx(s))
		e.op("ip2ngap", tx(s), tx("2001:db8::1"))
		e.op("iprt", tx(s), "-")
		e.op("iprt", "-", tx(s))
	}
	for k := 0; k < 60; k++ { // bit strings of other shapes
		bl := []uint64{0, 1, 31, 32, 33, 64, 127, 128, 129, 159, 160, 161, 255}[e.rng.Intn(13)]
		n := []int{0, 1, 3, 4, 5, 15, 16, 17, 19, 20, 21, 24}[e.rng.Intn(12)]
		e.op("ngap2ip", u(bl), hx(e.bytes(n)))
	}
	for k := 0; k < 40; k++ {
		e.op("x-ipstr", hx(e.bytes([]int{0, 1, 4, 4, 5, 15, 16, 16, 17, 20}[e.rng.Intn(10)])))
	}
	// ---- DNN -------------------------------------------------------------------------------------------
	for _, n := range []int{0, 1, 2, 8, 63, 100, 254, 255, 256, 257, 300} {
		b := e.bytes(n)
		e.op("dnnmar", hx(b))
		e.op("dnnrt", hx(b))
		e.op("dnnunm", hx(b))
	}
	for k := 0; k < e.n/4; k++ {
		b := e.bytes(e.rng.Intn(64))
		e.op("dnnmar", hx(b))
		e.op("dnnrt", hx(b))
		e.op("dnnunm", hx(b))
	}
	// ---- hex.DecodeString itself -------------------------------------------------------------------------
	for k := 0; k < 200; k++ {
		b := []byte(hex.EncodeToString(e.bytes(e.rng.Intn(6))))
		if e.rng.Intn(2) == 0 && len(b) > 0 {
			b[e.rng.Intn(len(b))] = "gG zZ-:/@`"[e.rng.Intn(10)]
		}
		if e.rng.Intn(3) == 0 {
			b = append(b, "0aAfFx9"[e.rng.Intn(7)])
		}
		e.op("x-hexdec", hx(b))
	}
}

// every identifier lo ≤ id < hi through the real AmfIdToNas: the number of ids whose fields do not recombine to
// the id (the inverse of TS 23.003 2.10.1) and a position-dependent checksum of all the fields
func amfidRange(lo, hi uint64) string {
	var bad, sum uint64
	for id := lo; id < hi; id++ {
		r, s, p := nasConvert.AmfIdToNas(fmt.Sprintf("%06x", id))
		if uint64(r)<<16|uint64(s)<<6|uint64(p) != id || s >= 1<<10 || p >= 1<<6 {
			bad++
		}
		sum += (uint64(r)*31 + uint64(s)*17 + uint64(p)*7 + 1) * (id%65521 + 1)
	}
	return "ok " + u(bad) + " " + u(sum)
}
