package main

import (
	"math/rand"
	"reflect"

	"free5gclib/aper"
	"verifharness/internal/tags"
)

// Type-directed random value generation for the ngapType structs (reflection + aper tags).

type vgen struct {
	rng       *rand.Rand
	maxList   int  // typical upper bound for SEQUENCE OF lengths
	maxStr    int  // typical upper bound for string lengths
	invalid   bool // when set, exactly one constraint violation is injected (then cleared)
	injected  string
	encodable map[reflect.Type]bool
	depth     int
	budget    int // remaining node budget for the value being generated
	cleanBits bool   // round-trip domains: BIT STRING buffers with clear unused bits only (the decoder returns them clear)
	pending   string // constraint sweep: the next leaf/list generated takes this boundary ("size-lb", "size-ub", "size-below",
	// "size-above", "val-lb", "val-ub", "val-below", "val-above"); consumed once
	forceType  reflect.Type // constraint sweep: the struct type whose field forceField is driven
	forceField int
	forceMode  string // a pending mode, or "present" / "absent" for an OPTIONAL field
	// fragmented lengths (X.691 11.9.3.8): while longLeft > 0 the next string whose length is a general length
	// (no upper bound, or one of 64K and more) takes one of longLens; longMax caps the choice (0 = no cap)
	longLeft int
	longMax  int
	longNext int // rotates through longLens so that a run covers all of them
}

// lengths around the fragmentation boundaries: one fragment and nothing/one item after it, two and three fragments,
// 64K − 1, exactly 64K (four fragments, final length 0), 64K + 1, a fragment and a long rest, two full 64K fragments
var longLens = []int{16383, 16384, 16385, 32768, 49152, 65535, 65536, 65537, 70000, 131072}

// longLength picks the next long length that fits under ub (ub < 0: unbounded) and the cap.
func (g *vgen) longLength(ub int64) (int, bool) {
	for k := 0; k < len(longLens); k++ {
		n := longLens[(g.longNext+k)%len(longLens)]
		if (ub < 0 || int64(n) <= ub) && (g.longMax == 0 || n <= g.longMax) {
			g.longNext = (g.longNext + k + 1) % len(longLens)
			return n, true
		}
	}
	return 0, false
}

// take consumes the pending sweep mode if it is one of the given ones.
func (g *vgen) take(modes ...string) string {
	for _, m := range modes {
		if g.pending == m {
			g.pending = ""
			return m
		}
	}
	return ""
}

func newVgen(rng *rand.Rand) *vgen {
	return &vgen{rng: rng, maxList: 3, maxStr: 40, encodable: map[reflect.Type]bool{}}
}

func isChoiceType(t reflect.Type) bool {
	return t.Kind() == reflect.Struct && t.NumField() > 0 && t.Field(0).Name == "Present"
}

// canEncode: whether some value of the type can be encoded at all (empty information object sets and
// OBJECT IDENTIFIER cannot).
func (g *vgen) canEncode(t reflect.Type) bool {
	if v, ok := g.encodable[t]; ok {
		return v
	}
	g.encodable[t] = false // cycle guard
	res := true
	switch {
	case t == aper.ObjectIdentifierType:
		res = false
	case t == aper.BitStringType || t == aper.OctetStringType || t == aper.EnumeratedType:
		res = true
	case t.Kind() == reflect.Ptr:
		res = g.canEncode(t.Elem())
	case t.Kind() == reflect.Slice:
		res = true // checked together with the size bounds by the caller
	case t.Kind() == reflect.Struct:
		if isChoiceType(t) {
			res = false
			for i := 1; i < t.NumField(); i++ {
				if g.canEncode(t.Field(i).Type) {
					res = true
				}
			}
		} else {
			if t.NumField() == 0 {
				res = false // empty information object set: no value exists
			}
			for i := 0; i < t.NumField(); i++ {
				f := t.Field(i)
				p := tags.Parse(f.Tag.Get("aper"))
				if p.Optional {
					continue
				}
				if f.Type.Kind() == reflect.Slice {
					if p.SizeLB != nil && *p.SizeLB > 0 && !g.canEncode(f.Type.Elem()) {
						res = false
					}
					continue
				}
				if !g.canEncode(f.Type) {
					res = false
				}
			}
		}
	}
	g.encodable[t] = res
	return res
}

func (g *vgen) inject(what string) bool {
	if g.invalid && g.rng.Intn(4) == 0 {
		g.invalid = false
		g.injected = what
		return true
	}
	return false
}

func (g *vgen) intIn(lb, ub int64) int64 {
	if ub <= lb {
		return lb
	}
	span := uint64(ub - lb)
	switch g.rng.Intn(8) {
	case 0:
		return lb
	case 1:
		return ub
	case 2:
		return lb + 1
	case 3:
		return ub - 1
	case 4:
		// a power-of-two boundary inside the range
		k := uint(g.rng.Intn(41))
		v := int64(1) << k
		if g.rng.Intn(2) == 0 {
			v--
		}
		if v >= lb && v <= ub {
			return v
		}
	}
	if span == ^uint64(0) {
		return int64(g.rng.Uint64())
	}
	return lb + int64(g.rng.Uint64()%(span+1))
}

func (g *vgen) length(p tags.Params, typical int) (n int, ok bool) {
	lb, ub := int64(0), int64(-1)
	if p.SizeLB != nil {
		lb = *p.SizeLB
	}
	if p.SizeUB != nil {
		ub = *p.SizeUB
	}
	switch g.take("size-lb", "size-ub", "size-below", "size-above") {
	case "size-lb":
		return int(lb), true
	case "size-ub":
		if ub >= 0 {
			return int(ub), true
		}
	case "size-below":
		if lb > 0 {
			g.injected = "size-below-lb"
			return int(lb - 1), true
		}
	case "size-above":
		if ub >= 0 {
			g.injected = "size-above-ub"
			return int(ub + 1), true
		}
	}
	if g.longLeft > 0 && typical > 4 && (ub < 0 || ub > 65535) {
		if n, ok := g.longLength(ub); ok {
			g.longLeft--
			return n, true
		}
	}
	if ub >= 0 && g.inject("size-above-ub") {
		if p.SizeExt || ub >= 65535 {
			g.invalid, g.injected = true, "" // extensible: not an error; try elsewhere
		} else {
			return int(ub + 1), true
		}
	}
	if lb > 0 && g.inject("size-below-lb") {
		return int(lb - 1), true
	}
	hi := int64(typical)
	if ub >= 0 && ub < hi {
		hi = ub
	}
	if hi < lb {
		hi = lb
	}
	switch g.rng.Intn(10) {
	case 0:
		return int(lb), true
	case 1:
		if ub >= 0 && ub <= 300 {
			return int(ub), true
		}
	case 2:
		// two-octet length determinants
		if ub < 0 || ub >= 200 {
			return 128 + g.rng.Intn(80), true
		}
	case 3:
		if p.SizeExt && ub >= 0 && ub < 250 {
			return int(ub) + 1 + g.rng.Intn(3), true // extension of the size range
		}
	}
	return int(lb) + g.rng.Intn(int(hi-lb)+1), true
}

// fill generates a value for v (settable) under the given field parameters.
func (g *vgen) fill(v reflect.Value, p tags.Params) {
	t := v.Type()
	g.budget--
	g.depth++
	defer func() { g.depth-- }()
	switch t {
	case aper.BitStringType:
		n, _ := g.length(p, 64)
		b := make([]byte, (n+7)/8)
		g.rng.Read(b)
		if n%8 != 0 && (g.cleanBits || g.rng.Intn(3) != 0) {
			// two times out of three the unused bits of the last octet are clear; otherwise the caller's buffer holds
			// arbitrary bits there (the value is the same BIT STRING; the encoding must not depend on them)
			b[len(b)-1] &= 0xff << uint(8-n%8)
		}
		if n > 8 && n%8 != 0 && g.inject("bitstring-short-bytes") {
			// fewer octets than the bit length needs: a trap (the mask of the unused bits indexes the missing octet), never a lock
			// or a buffer left behind. Bit lengths that are multiples of 8 are left out: there the library appends the octets it
			// is given without looking, while the model's guard (`bytes.length < ⌈n/8⌉ → trap`) is coarser — an imprecision of
			// the model outside the `regular` values that every theorem about it assumes.
			b = b[:len(b)-1]
		}
		if !g.cleanBits && g.rng.Intn(8) == 0 {
			// the caller's buffer is longer than the bit string (a 4-octet gNB id with a bit length of 24): the value is the first
			// n bits, the surplus octets are not part of it
			b = append(b, byte(g.rng.Intn(256)), byte(g.rng.Intn(256)))[:len(b)+1+g.rng.Intn(2)]
		}
		v.Set(reflect.ValueOf(aper.BitString{Bytes: b, BitLength: uint64(n)}))
		return
	case aper.OctetStringType:
		n, _ := g.length(p, g.maxStr)
		b := make([]byte, n)
		g.rng.Read(b)
		v.SetBytes(b)
		return
	case aper.ObjectIdentifierType:
		v.SetBytes([]byte{0x2a, 0x03})
		return
	case aper.EnumeratedType:
		lb, ub := int64(0), int64(0)
		if p.ValueLB != nil {
			lb = *p.ValueLB
		}
		if p.ValueUB != nil {
			ub = *p.ValueUB
		}
		switch g.take("val-lb", "val-ub", "val-above") {
		case "val-lb":
			v.SetUint(uint64(lb))
			return
		case "val-ub":
			v.SetUint(uint64(ub))
			return
		case "val-above":
			v.SetUint(uint64(ub + 1))
			return
		}
		if g.inject("enum-above-ub") {
			v.SetUint(uint64(ub + 1))
			return
		}
		v.SetUint(uint64(g.intIn(lb, ub)))
		return
	}
	switch t.Kind() {
	case reflect.Int, reflect.Int32, reflect.Int64:
		switch {
		case p.ValueLB != nil && p.ValueUB != nil:
			switch g.take("val-lb", "val-ub", "val-below", "val-above") {
			case "val-lb":
				v.SetInt(*p.ValueLB)
				return
			case "val-ub":
				v.SetInt(*p.ValueUB)
				return
			case "val-below":
				v.SetInt(*p.ValueLB - 1)
				return
			case "val-above":
				v.SetInt(*p.ValueUB + 1)
				return
			}
			if g.inject("int-above-ub") {
				if p.ValueExt {
					// extension of an extensible INTEGER is legal: produce one
					v.SetInt(*p.ValueUB + 1 + int64(g.rng.Intn(1000)))
					g.invalid, g.injected = true, ""
				} else {
					v.SetInt(*p.ValueUB + 1)
				}
				return
			}
			if g.inject("int-below-lb") {
				v.SetInt(*p.ValueLB - 1)
				return
			}
			if p.ValueExt && g.rng.Intn(6) == 0 {
				v.SetInt(*p.ValueUB + 1 + int64(g.rng.Intn(100000)))
				return
			}
			v.SetInt(g.intIn(*p.ValueLB, *p.ValueUB))
		case p.ValueLB != nil:
			v.SetInt(*p.ValueLB + int64(g.rng.Intn(100000)))
		default:
			v.SetInt(int64(g.rng.Intn(2000000)) - 1000000)
		}
	case reflect.Bool:
		v.SetBool(g.rng.Intn(2) == 0)
	case reflect.String:
		n, _ := g.length(p, g.maxStr)
		b := make([]byte, n)
		for i := range b {
			b[i] = byte(0x20 + g.rng.Intn(95))
		}
		v.SetString(string(b))
	case reflect.Ptr:
		pv := reflect.New(t.Elem())
		g.fill(pv.Elem(), p)
		v.Set(pv)
	case reflect.Slice:
		typical := g.maxList
		if g.depth > 12 || g.budget < 0 {
			typical = 0
		}
		n, _ := g.length(p, typical)
		if n > 4 && (g.budget < 200 || n > 300) {
			// keep values small: long lists only while the budget lasts
			lb := 0
			if p.SizeLB != nil {
				lb = int(*p.SizeLB)
			}
			n = lb
		}
		g.budget -= 4 * n
		if !g.canEncode(t.Elem()) {
			n = 0
		}
		ep := p
		ep.SizeExt, ep.SizeLB, ep.SizeUB = false, nil, nil
		sl := reflect.MakeSlice(t, n, n)
		for i := 0; i < n; i++ {
			g.fill(sl.Index(i), ep)
		}
		v.Set(sl)
	case reflect.Struct:
		if isChoiceType(t) {
			g.fillChoice(v, p, -1)
			return
		}
		params := make([]tags.Params, t.NumField())
		for i := 0; i < t.NumField(); i++ {
			params[i] = tags.Parse(t.Field(i).Tag.Get("aper"))
		}
		for i := 0; i < t.NumField(); i++ {
			f := v.Field(i)
			fp := params[i]
			forced := g.forceType == t && g.depth == 1 && g.forceField == i
			if forced && g.forceMode != "present" && g.forceMode != "absent" {
				g.pending = g.forceMode
			}
			if fp.Optional {
				absent := g.rng.Intn(2) == 0 || !g.canEncode(f.Type()) || g.depth > 14 || g.budget < 0
				if forced && g.canEncode(f.Type()) {
					absent = g.forceMode == "absent"
				}
				if absent {
					continue
				}
			} else if f.Kind() == reflect.Ptr && g.inject("nil-mandatory-pointer") {
				continue
			}
			if fp.OpenType && isChoiceType(f.Type()) {
				// choose an alternative and make the reference field agree with it
				alt := g.fillChoice(f, fp, -1)
				ref := int64(0)
				if alt > 0 {
					ap := tags.Parse(f.Type().Field(alt).Tag.Get("aper"))
					if ap.RefValue != nil {
						ref = *ap.RefValue
					}
				}
				if g.inject("open-type-reference-mismatch") {
					ref += 1000
				}
				for j := 0; j < i; j++ {
					if t.Field(j).Name == fp.RefField {
						setRefValue(v.Field(j), ref)
					}
				}
				continue
			}
			g.fill(f, fp)
		}
	}
}

// setRefValue stores x where getReferenceFieldValue will read it.
func setRefValue(v reflect.Value, x int64) {
	switch v.Kind() {
	case reflect.Int, reflect.Int32, reflect.Int64:
		v.SetInt(x)
	case reflect.Struct:
		if v.NumField() > 0 {
			setRefValue(v.Field(0), x)
		}
	}
}

// fillChoice sets Present and the chosen alternative; returns the alternative index (0 if none is encodable).
func (g *vgen) fillChoice(v reflect.Value, p tags.Params, want int) int {
	t := v.Type()
	var ok []int
	for i := 1; i < t.NumField(); i++ {
		if g.canEncode(t.Field(i).Type) {
			ok = append(ok, i)
		}
	}
	if g.inject("choice-present-0") || len(ok) == 0 {
		v.Field(0).SetInt(0)
		return 0
	}
	if g.inject("choice-present-too-large") {
		v.Field(0).SetInt(int64(t.NumField()))
		return 0
	}
	alt := ok[g.rng.Intn(len(ok))]
	if want > 0 {
		alt = want
	}
	v.Field(0).SetInt(int64(alt))
	if v.Field(alt).Kind() == reflect.Ptr && g.inject("choice-selected-nil") {
		// Present names an alternative that was never filled in: refused, not put on the wire as nothing
		return alt
	}
	ap := tags.Parse(t.Field(alt).Tag.Get("aper"))
	g.fill(v.Field(alt), ap)
	return alt
}
