package main

import (
	"fmt"
	"os"
	"os/exec"
	"path/filepath"
	"strconv"
	"sync"
	"time"

	"verifharness/peer"
)

// Domain failstop (C19): the REAL emulator binary (stg-utg.go, `go build -tags verif` from /repo's working tree on
// every run) in test mode against the scripted N2 peer of verifharness/peer over an AF_UNIX SOCK_SEQPACKET socketpair.
//
//	fsrun <ue_number> <r> <p> <s> <rel> <d> <kind> <k> <seed>
//
// r,p,s,rel,d = ue_registration, ue_pdu, ue_service, ue_pdu_release, ue_deregistration; kind ∈ none | close | garbage |
// trunc | other | silent (k = downlink index, 0 = NG Setup Response) | closeul (k = uplink index after which the peer closes).
// Result: the peer's canonical text (exit status, bucketed time, banner, ManageError text, test headers, message
// counts, the sequence of uplink message types). A run takes ≈ 8 s per UE because of the program's own sleeps; the
// generator runs 16 at a time.
func init() {
	registerOp("fsrun", opFsrun)
	opLimits["fsrun"] = 10 * time.Minute
	register("failstop", failstopDomain)
}

var (
	emuOnce sync.Once
	emuPath string
	emuErr  error
)

// buildEmulator builds stgutgmain with the verif hook from the repository's working tree (go.work workspace).
func buildEmulator() (string, error) {
	emuOnce.Do(func() {
		repo := os.Getenv("VERIF_REPO")
		if repo == "" {
			repo = "/repo"
		}
		bin := os.Getenv("VERIF_BIN")
		if bin == "" {
			bin = "/verif/.build/bin"
		}
		os.MkdirAll(bin, 0o755)
		out := filepath.Join(bin, "stgutgmain-verif")
		args := []string{"build", "-tags", "verif"}
		if v := os.Getenv("VERIF_COVER"); v != "" && v != "0" {
			// opt-in coverage mode (vlib/core.py): the emulator writes its counters to GOCOVERDIR (inherited) when it exits
			out += "-cover"
			args = append(args, "-cover", "-coverpkg=stgutgmain,free5gclib/...,tglib/...,stgutg/...")
		}
		tmp := fmt.Sprintf("%s.tmp.%d", out, os.Getpid())
		cmd := exec.Command("go", append(args, "-o", tmp, ".")...)
		cmd.Dir = repo
		env := []string{}
		for _, kv := range os.Environ() {
			switch {
			case len(kv) >= 8 && kv[:8] == "GOFLAGS=", len(kv) >= 7 && kv[:7] == "GOWORK=":
			default:
				env = append(env, kv)
			}
		}
		cmd.Env = append(env, "GOPROXY=off", "GOSUMDB=off", "GOTOOLCHAIN=local", "CGO_ENABLED=0")
		if b, err := cmd.CombinedOutput(); err != nil {
			os.Remove(tmp)
			emuErr = fmt.Errorf("go build of the emulator failed: %v\n%s", err, b)
			fmt.Fprintln(os.Stderr, emuErr)
			return
		}
		if err := os.Rename(tmp, out); err != nil {
			emuErr = err
			return
		}
		emuPath = out
	})
	return emuPath, emuErr
}

func fsRunRoot() string {
	if v := os.Getenv("VERIF_RUN_ROOT"); v != "" {
		return v
	}
	return "/verif/.build/run"
}

func opFsrun(a []string) string {
	if len(a) != 9 {
		panic(badArg{})
	}
	ues := int(aI64(a[0]))
	var c [5]int
	for i := 0; i < 5; i++ {
		c[i] = int(aI64(a[1+i]))
	}
	k := int(aI64(a[7]))
	seed := aI64(a[8])
	f := peer.Fault{Kind: a[6], K: k}
	switch a[6] {
	case peer.FaultNone:
		f.K = -1
	case peer.FaultClose, peer.FaultGarbage, peer.FaultTrunc, peer.FaultOther, peer.FaultCloseUL, peer.FaultSilent, peer.FaultBigGarbage, peer.FaultCount, peer.FaultShrink:
		if k < 0 {
			panic(badArg{})
		}
	default:
		panic(badArg{})
	}
	emu, err := buildEmulator()
	if err != nil {
		return "build-failed"
	}
	t, err := peer.Run(peer.Options{Emulator: emu, Script: peer.NewScript(seed, ues, c), Fault: f, RunRoot: fsRunRoot()})
	if err != nil {
		fmt.Fprintln(os.Stderr, "fsrun:", err)
		return "peer-failed"
	}
	if dir := os.Getenv("VERIF_FS_TRANSCRIPTS"); dir != "" {
		os.MkdirAll(dir, 0o755)
		t.WriteJSON(filepath.Join(dir, fmt.Sprintf("fsrun-%s.json", joinArgs(a))))
	}
	return t.Canonical()
}

func joinArgs(a []string) string {
	s := ""
	for i, x := range a {
		if i > 0 {
			s += "_"
		}
		s += x
	}
	return s
}

type fsCase struct {
	args []string
	res  string
}

func fsArgs(ues int, c [5]int, kind string, k int, seed int64) []string {
	return []string{strconv.Itoa(ues), strconv.Itoa(c[0]), strconv.Itoa(c[1]), strconv.Itoa(c[2]), strconv.Itoa(c[3]), strconv.Itoa(c[4]),
		kind, strconv.Itoa(k), strconv.FormatInt(seed, 10)}
}

func fsMin(a, b int) int {
	if a > b {
		return b
	}
	return a
}

func fsNat(a int) int {
	if a < 0 {
		return 0
	}
	return a
}

// fsShape: number of reads and writes of a fault-free conversation (from reading the code; only used to choose which
// fault indices to generate — the expected outcomes come from the Lean model of the generated script).
func fsShape(c [5]int) (reads, writes int) {
	r := fsNat(c[0])
	pe := fsNat(fsMin(c[0], c[1]))
	sr := fsNat(fsMin(fsMin(c[0], c[1]), c[2]))
	rel := fsNat(fsMin(fsMin(c[0], c[1]), c[3]))
	d := fsNat(fsMin(c[0], c[4]))
	return 1 + 4*r + pe + sr + 2*d, 1 + 5*r + 2*pe + 2*sr + 3*rel + 2*d
}

func failstopDomain(e *emitter) {
	var cases []*fsCase
	add := func(ues int, c [5]int, kind string, k int, seed int64) {
		cases = append(cases, &fsCase{args: fsArgs(ues, c, kind, k, seed)})
	}
	// every fault index × kind over one configuration, plus the fault-free run
	sweep := func(ues int, c [5]int, seed int64, kinds []string, ulStep int) {
		reads, writes := fsShape(c)
		add(ues, c, peer.FaultNone, 0, seed)
		for _, kind := range kinds {
			for k := 0; k < reads; k++ {
				add(ues, c, kind, k, seed)
			}
		}
		for k := 0; k < writes; k += ulStep {
			add(ues, c, peer.FaultCloseUL, k, seed)
		}
		// one index beyond the conversation: no fault is ever injected
		add(ues, c, peer.FaultClose, reads, seed)
	}
	if !e.thorough() {
		// quick: 1 UE, every read index × {close, garbage, trunc, other}, every uplink index for closeul
		sweep(1, [5]int{1, 1, 1, 1, 1}, e.seed, []string{peer.FaultClose, peer.FaultGarbage, peer.FaultTrunc, peer.FaultOther}, 1)
		// a reply that is well-formed except that it announces one IE more than it holds, at every read
		{
			reads, _ := fsShape([5]int{1, 1, 1, 1, 1})
			for k := 0; k < reads; k++ {
				add(1, [5]int{1, 1, 1, 1, 1}, peer.FaultCount, k, e.seed)
				add(1, [5]int{1, 1, 1, 1, 1}, peer.FaultShrink, k, e.seed)
			}
		}
		// counts that differ from each other (clamps), a configuration from another seed, the shipped configuration
		add(1, [5]int{1, 0, 1, 1, 1}, peer.FaultNone, 0, e.seed+1)
		add(2, [5]int{2, 1, 2, 0, 3}, peer.FaultGarbage, 5, 0)
		add(2, [5]int{2, 1, 2, 0, 3}, peer.FaultClose, 9, e.seed+2)
		// runs that END with each procedure (nothing follows that could notice the fault later): a close at every read
		for _, c := range [][5]int{{1, 0, 0, 0, 0}, {1, 1, 0, 0, 0}, {1, 1, 1, 0, 0}, {1, 0, 0, 0, 1}, {0, 0, 0, 0, 0}, {1, 1, 0, 1, 0}} {
			reads, writes := fsShape(c)
			for k := 0; k < reads; k++ {
				add(1, c, peer.FaultClose, k, e.seed+3)
			}
			add(1, c, peer.FaultGarbage, reads-1, e.seed+3)
			// the peer closes right after one of the LAST uplink messages of the run (ReleasePDU only writes)
			for k := writes - 4; k < writes-1; k++ {
				if k >= 0 {
					add(1, c, peer.FaultCloseUL, k, e.seed+3)
				}
			}
		}
		// undecodable replies longer than the 2048-octet receive buffer, at every read of a one-UE conversation
		{
			c := [5]int{1, 1, 1, 1, 1}
			reads, _ := fsShape(c)
			for k := 0; k < reads; k++ {
				add(1, c, peer.FaultBigGarbage, k, e.seed+4)
			}
			add(1, [5]int{1, 0, 0, 0, 0}, peer.FaultBigGarbage, 3, e.seed+4)
		}
		// outside the fault model: a peer that neither answers nor closes (the run is killed after 8 idle seconds)
		add(1, [5]int{1, 1, 1, 1, 1}, peer.FaultSilent, 3, 0)
	} else {
		sweep(3, [5]int{3, 3, 3, 3, 3}, e.seed, []string{peer.FaultClose, peer.FaultGarbage, peer.FaultTrunc, peer.FaultOther}, 1)
		// repetition counts above the UE count, zero and negative counts
		sweep(3, [5]int{3, 7, 5, 9, 4}, e.seed+1, []string{peer.FaultClose, peer.FaultGarbage}, 3)
		sweep(2, [5]int{2, 1, 5, 0, 3}, e.seed+2, []string{peer.FaultClose, peer.FaultTrunc}, 2)
		sweep(1, [5]int{1, -1, 1, 1, 2}, e.seed+3, []string{peer.FaultClose, peer.FaultGarbage}, 1)
		sweep(1, [5]int{1, 1, 1, 1, 1}, 0, []string{peer.FaultClose, peer.FaultGarbage, peer.FaultTrunc, peer.FaultOther}, 1)
		for _, c := range [][5]int{{1, 0, 0, 0, 0}, {2, 1, 0, 0, 0}, {2, 2, 1, 0, 0}, {2, 0, 0, 0, 1}, {2, 2, 0, 2, 0}} {
			sweep(c[0], c, e.seed+6, []string{peer.FaultClose, peer.FaultGarbage}, 2)
		}
		add(0, [5]int{0, 3, 3, 3, 3}, peer.FaultNone, 0, e.seed+4)
		add(0, [5]int{0, 3, 3, 3, 3}, peer.FaultClose, 0, e.seed+4)
		add(0, [5]int{0, 3, 3, 3, 3}, peer.FaultGarbage, 0, e.seed+4)
		add(1, [5]int{1, 1, 1, 1, 1}, peer.FaultSilent, 0, 0)
		add(2, [5]int{2, 2, 2, 2, 2}, peer.FaultSilent, 12, e.seed+5)
		// random single faults over random small configurations
		for i := 0; i < e.n; i++ {
			var c [5]int
			c[0] = 1 + e.rng.Intn(4)
			for j := 1; j < 5; j++ {
				c[j] = e.rng.Intn(c[0]+3) - 1
			}
			reads, writes := fsShape(c)
			kinds := []string{peer.FaultClose, peer.FaultGarbage, peer.FaultTrunc, peer.FaultOther, peer.FaultCloseUL}
			kind := kinds[e.rng.Intn(len(kinds))]
			k := e.rng.Intn(reads + 1)
			if kind == peer.FaultCloseUL {
				k = e.rng.Intn(writes + 1)
			}
			add(c[0], c, kind, k, e.seed+100+int64(i))
		}
	}
	if _, err := buildEmulator(); err != nil {
		for _, c := range cases {
			c.res = "build-failed"
		}
	} else {
		par := 16
		if v, err := strconv.Atoi(os.Getenv("VERIF_FS_PAR")); err == nil && v > 0 {
			par = v
		}
		jobs := make(chan *fsCase)
		var wg sync.WaitGroup
		for w := 0; w < par; w++ {
			wg.Add(1)
			go func() {
				defer wg.Done()
				for c := range jobs {
					c := c
					c.res = guardT(opLimits["fsrun"], func() string { return opFsrun(c.args) })
				}
			}()
		}
		for _, c := range cases {
			jobs <- c
		}
		close(jobs)
		wg.Wait()
	}
	for _, c := range cases {
		line := "fsrun"
		for _, a := range c.args {
			line += " " + a
		}
		fmt.Fprintf(e.w, "%s\t%s\n", line, c.res)
	}
}
