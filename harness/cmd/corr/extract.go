package main

// Domain extract (C12): stgutg.DecodePDUSessionNASPDU, stgutg.DecodePDUSessionResourceSetupRequestTransfer
// and their use in stgutg.EstablishPDU.
//
//   decnas  <bytes> <slack>            → ok <ip|->          raw byte string; the slice handed to the decoder is
//   decxfer <bytes> <slack>            → ok <teid> <ip|->   backing[:len(bytes)] of backing = bytes ++ slack (cap = both)
//   encacc  <accept params>            → ok <hex>           the protected DL NAS TRANSPORT built with the real NAS encoders
//   acc     <accept params> <slack>    → ok <ip|->          … and extracted from
//   encxfer <transfer params>          → ok <hex>           the transfer built with ngapType + aper.MarshalWithParams
//   xfer    <transfer params> <slack>  → ok <teid> <ip|->   … and extracted from
//   establish <rpp|x> <naspdu|x> <item nas> <item transfer>
//                                      → ok <ip|-> <teid> <upf|->   the real EstablishPDU against a scripted peer that
//                                        answers with a PDU SESSION RESOURCE SETUP REQUEST built by the real NGAP encoder
//
// accept params (23 tokens, `x` = optional IE absent, `-` = present and empty):
//   psi pti octet5 qosRules ambr6 cause pduAddress rqTimer snssai alwaysOn mappedEps eap qosFlowDescr epco dnn
//   sht mac4 sqn payloadContainerType psi2 additionalInfo cause5gmm backoff
// transfer params (5 tokens): ambr(dl:ul|x) tla teid pduType(0..4|x) qos(qfi.5qi.arp.cap.vul[+…]|x)

import (
	"encoding/binary"
	"fmt"
	"net"
	"sort"
	"strconv"
	"strings"
	"syscall"

	"free5gclib/aper"
	"free5gclib/nas"
	"free5gclib/nas/nasMessage"
	"free5gclib/nas/nasType"
	"free5gclib/nas/security"
	"free5gclib/ngap"
	"free5gclib/ngap/ngapType"
	"stgutg"
	"tglib"

	"github.com/ishidawataru/sctp"
)

func init() {
	register("extract", extractDomain)
	registerOp("decnas", func(a []string) string {
		exNeed(a, 2)
		return exFmtIP(stgutg.DecodePDUSessionNASPDU(exWithSlack(aHex(a[0]), aHex(a[1]))))
	})
	registerOp("decxfer", func(a []string) string {
		exNeed(a, 2)
		t, ip := stgutg.DecodePDUSessionResourceSetupRequestTransfer(exWithSlack(aHex(a[0]), aHex(a[1])))
		return exFmtTeidIP(t, ip)
	})
	registerOp("encacc", func(a []string) string { exNeed(a, 23); return "ok " + hx(buildAccept(a)) })
	registerOp("acc", func(a []string) string {
		exNeed(a, 24)
		return exFmtIP(stgutg.DecodePDUSessionNASPDU(exWithSlack(buildAccept(a[:23]), aHex(a[23]))))
	})
	registerOp("encxfer", func(a []string) string { exNeed(a, 5); return "ok " + hx(buildTransfer(a)) })
	registerOp("xfer", func(a []string) string {
		exNeed(a, 6)
		t, ip := stgutg.DecodePDUSessionResourceSetupRequestTransfer(exWithSlack(buildTransfer(a[:5]), aHex(a[5])))
		return exFmtTeidIP(t, ip)
	})
	registerOp("establish", opEstablish)
}

func exNeed(a []string, n int) {
	if len(a) != n {
		panic(badArg{})
	}
}

// withSlack returns a slice of length len(b) and capacity len(b)+len(slack) whose hidden tail is slack.
func exWithSlack(b, slack []byte) []byte {
	backing := make([]byte, len(b)+len(slack))
	copy(backing, b)
	copy(backing[len(b):], slack)
	return backing[:len(b):len(backing)]
}

func exFmtIP(ip net.IP) string { retainBytes(ip); return "ok " + hx(ip) }

func exFmtTeidIP(t uint32, ip net.IP) string {
	retainBytes(ip)
	return "ok " + u(uint64(t)) + " " + hx(ip)
}

func exOptU8(s string) *uint8 {
	if s == "x" {
		return nil
	}
	v := aU64(s)
	if v > 255 {
		panic(badArg{})
	}
	b := uint8(v)
	return &b
}

func exOptHex(s string) []byte {
	if s == "x" {
		return nil
	}
	return aHex(s)
}

func exU8(s string) uint8 {
	v := aU64(s)
	if v > 255 {
		panic(badArg{})
	}
	return uint8(v)
}

// buildAccept builds 7E <sht> <mac> <sqn> ‖ DL NAS TRANSPORT( PDU SESSION ESTABLISHMENT ACCEPT ) with the real encoders.
func buildAccept(a []string) []byte {
	m := nas.NewMessage()
	m.GsmMessage = nas.NewGsmMessage()
	m.GsmHeader.SetMessageType(nas.MsgTypePDUSessionEstablishmentAccept)
	acc := nasMessage.NewPDUSessionEstablishmentAccept(0)
	m.GsmMessage.PDUSessionEstablishmentAccept = acc
	acc.ExtendedProtocolDiscriminator.SetExtendedProtocolDiscriminator(nasMessage.Epd5GSSessionManagementMessage)
	acc.PDUSessionID.SetPDUSessionID(exU8(a[0]))
	acc.PTI.SetPTI(exU8(a[1]))
	acc.PDUSESSIONESTABLISHMENTACCEPTMessageIdentity.SetMessageType(nas.MsgTypePDUSessionEstablishmentAccept)
	acc.SelectedSSCModeAndSelectedPDUSessionType.Octet = exU8(a[2])
	qos := aHex(a[3])
	if len(qos) > 65535 {
		panic(badArg{})
	}
	acc.AuthorizedQosRules.SetLen(uint16(len(qos)))
	acc.AuthorizedQosRules.SetQosRule(qos)
	ambr := aHex(a[4])
	if len(ambr) != 6 {
		panic(badArg{})
	}
	acc.SessionAMBR.SetLen(6)
	copy(acc.SessionAMBR.Octet[:], ambr)
	if v := exOptU8(a[5]); v != nil {
		acc.Cause5GSM = nasType.NewCause5GSM(nasMessage.PDUSessionEstablishmentAcceptCause5GSMType)
		acc.Cause5GSM.SetCauseValue(*v)
	}
	if v := exOptHex(a[6]); v != nil {
		if len(v) > 13 {
			panic(badArg{})
		}
		acc.PDUAddress = nasType.NewPDUAddress(nasMessage.PDUSessionEstablishmentAcceptPDUAddressType)
		acc.PDUAddress.SetLen(uint8(len(v)))
		copy(acc.PDUAddress.Octet[:], v)
	}
	if v := exOptU8(a[7]); v != nil {
		acc.RQTimerValue = nasType.NewRQTimerValue(nasMessage.PDUSessionEstablishmentAcceptRQTimerValueType)
		acc.RQTimerValue.Octet = *v
	}
	if v := exOptHex(a[8]); v != nil {
		if len(v) > 8 {
			panic(badArg{})
		}
		acc.SNSSAI = nasType.NewSNSSAI(nasMessage.PDUSessionEstablishmentAcceptSNSSAIType)
		acc.SNSSAI.SetLen(uint8(len(v)))
		copy(acc.SNSSAI.Octet[:], v)
	}
	if v := exOptU8(a[9]); v != nil {
		if *v > 1 {
			panic(badArg{})
		}
		acc.AlwaysonPDUSessionIndication = nasType.NewAlwaysonPDUSessionIndication(nasMessage.PDUSessionEstablishmentAcceptAlwaysonPDUSessionIndicationType)
		acc.AlwaysonPDUSessionIndication.SetAPSI(*v)
	}
	if v := exOptHex(a[10]); v != nil {
		acc.MappedEPSBearerContexts = nasType.NewMappedEPSBearerContexts(nasMessage.PDUSessionEstablishmentAcceptMappedEPSBearerContextsType)
		acc.MappedEPSBearerContexts.SetLen(exLen16(v))
		copy(acc.MappedEPSBearerContexts.Buffer, v)
	}
	if v := exOptHex(a[11]); v != nil {
		acc.EAPMessage = nasType.NewEAPMessage(nasMessage.PDUSessionEstablishmentAcceptEAPMessageType)
		acc.EAPMessage.SetLen(exLen16(v))
		copy(acc.EAPMessage.Buffer, v)
	}
	if v := exOptHex(a[12]); v != nil {
		acc.AuthorizedQosFlowDescriptions = nasType.NewAuthorizedQosFlowDescriptions(nasMessage.PDUSessionEstablishmentAcceptAuthorizedQosFlowDescriptionsType)
		acc.AuthorizedQosFlowDescriptions.SetLen(exLen16(v))
		copy(acc.AuthorizedQosFlowDescriptions.Buffer, v)
	}
	if v := exOptHex(a[13]); v != nil {
		acc.ExtendedProtocolConfigurationOptions = nasType.NewExtendedProtocolConfigurationOptions(nasMessage.PDUSessionEstablishmentAcceptExtendedProtocolConfigurationOptionsType)
		acc.ExtendedProtocolConfigurationOptions.SetLen(exLen16(v))
		copy(acc.ExtendedProtocolConfigurationOptions.Buffer, v)
	}
	if v := exOptHex(a[14]); v != nil {
		if len(v) > 255 {
			panic(badArg{})
		}
		acc.DNN = nasType.NewDNN(nasMessage.PDUSessionEstablishmentAcceptDNNType)
		acc.DNN.SetLen(uint8(len(v)))
		copy(acc.DNN.Buffer, v)
	}
	inner, err := m.PlainNasEncode()
	if err != nil {
		panic(err)
	}
	if len(inner) > 65535 {
		panic(badArg{})
	}

	d := nas.NewMessage()
	d.GmmMessage = nas.NewGmmMessage()
	d.GmmHeader.SetMessageType(nas.MsgTypeDLNASTransport)
	dl := nasMessage.NewDLNASTransport(0)
	d.GmmMessage.DLNASTransport = dl
	dl.ExtendedProtocolDiscriminator.SetExtendedProtocolDiscriminator(nasMessage.Epd5GSMobilityManagementMessage)
	dl.SpareHalfOctetAndSecurityHeaderType.SetSecurityHeaderType(nas.SecurityHeaderTypePlainNas)
	dl.DLNASTRANSPORTMessageIdentity.SetMessageType(nas.MsgTypeDLNASTransport)
	dl.SpareHalfOctetAndPayloadContainerType.SetPayloadContainerType(exU8(a[18]))
	dl.PayloadContainer.SetLen(uint16(len(inner)))
	dl.PayloadContainer.SetPayloadContainerContents(inner)
	if v := exOptU8(a[19]); v != nil {
		dl.PduSessionID2Value = nasType.NewPduSessionID2Value(nasMessage.DLNASTransportPduSessionID2ValueType)
		dl.PduSessionID2Value.SetPduSessionID2Value(*v)
	}
	if v := exOptHex(a[20]); v != nil {
		if len(v) > 255 {
			panic(badArg{})
		}
		dl.AdditionalInformation = nasType.NewAdditionalInformation(nasMessage.DLNASTransportAdditionalInformationType)
		dl.AdditionalInformation.SetLen(uint8(len(v)))
		copy(dl.AdditionalInformation.Buffer, v)
	}
	if v := exOptU8(a[21]); v != nil {
		dl.Cause5GMM = nasType.NewCause5GMM(nasMessage.DLNASTransportCause5GMMType)
		dl.Cause5GMM.SetCauseValue(*v)
	}
	if v := exOptU8(a[22]); v != nil {
		dl.BackoffTimerValue = nasType.NewBackoffTimerValue(nasMessage.DLNASTransportBackoffTimerValueType)
		dl.BackoffTimerValue.SetLen(1)
		dl.BackoffTimerValue.Octet = *v
	}
	plain, err := d.PlainNasEncode()
	if err != nil {
		panic(err)
	}
	mac := aHex(a[16])
	if len(mac) != 4 {
		panic(badArg{})
	}
	// the security protected 5GS NAS message header (TS 24.501 9.1.1): EPD, SHT, MAC, SQN — what the AMF's NAS
	// security layer puts in front; with 5G-EA0 the plain message follows unchanged.
	out := []byte{nasMessage.Epd5GSMobilityManagementMessage, exU8(a[15])}
	out = append(out, mac...)
	out = append(out, exU8(a[17]))
	return append(out, plain...)
}

func exLen16(b []byte) uint16 {
	if len(b) > 65535 {
		panic(badArg{})
	}
	return uint16(len(b))
}

type exQosFlow struct{ qfi, fiveQI, arp, capab, vul int64 }

func exParseQos(s string) []exQosFlow {
	var out []exQosFlow
	for _, it := range strings.Split(s, "+") {
		f := strings.Split(it, ".")
		if len(f) != 5 {
			panic(badArg{})
		}
		var v [5]int64
		for i := range f {
			n, err := strconv.ParseInt(f[i], 10, 64)
			if err != nil {
				panic(badArg{})
			}
			v[i] = n
		}
		out = append(out, exQosFlow{v[0], v[1], v[2], v[3], v[4]})
	}
	return out
}

// buildTransfer builds a PDUSessionResourceSetupRequestTransfer with ngapType and the real APER encoder.
func buildTransfer(a []string) []byte {
	var tr ngapType.PDUSessionResourceSetupRequestTransfer
	add := func(ie ngapType.PDUSessionResourceSetupRequestTransferIEs) {
		tr.ProtocolIEs.List = append(tr.ProtocolIEs.List, ie)
	}
	if a[0] != "x" {
		f := strings.Split(a[0], ":")
		if len(f) != 2 {
			panic(badArg{})
		}
		ie := ngapType.PDUSessionResourceSetupRequestTransferIEs{}
		ie.Id.Value = ngapType.ProtocolIEIDPDUSessionAggregateMaximumBitRate
		ie.Criticality.Value = ngapType.CriticalityPresentReject
		ie.Value.Present = ngapType.PDUSessionResourceSetupRequestTransferIEsPresentPDUSessionAggregateMaximumBitRate
		ie.Value.PDUSessionAggregateMaximumBitRate = &ngapType.PDUSessionAggregateMaximumBitRate{}
		ie.Value.PDUSessionAggregateMaximumBitRate.PDUSessionAggregateMaximumBitRateDL.Value = aI64(f[0])
		ie.Value.PDUSessionAggregateMaximumBitRate.PDUSessionAggregateMaximumBitRateUL.Value = aI64(f[1])
		add(ie)
	}
	{
		tla := aHex(a[1])
		teid := aHex(a[2])
		ie := ngapType.PDUSessionResourceSetupRequestTransferIEs{}
		ie.Id.Value = ngapType.ProtocolIEIDULNGUUPTNLInformation
		ie.Criticality.Value = ngapType.CriticalityPresentReject
		ie.Value.Present = ngapType.PDUSessionResourceSetupRequestTransferIEsPresentULNGUUPTNLInformation
		ie.Value.ULNGUUPTNLInformation = &ngapType.UPTransportLayerInformation{
			Present: ngapType.UPTransportLayerInformationPresentGTPTunnel,
			GTPTunnel: &ngapType.GTPTunnel{
				TransportLayerAddress: ngapType.TransportLayerAddress{Value: aper.BitString{Bytes: tla, BitLength: uint64(8 * len(tla))}},
				GTPTEID:               ngapType.GTPTEID{Value: teid},
			},
		}
		add(ie)
	}
	if a[3] != "x" {
		ie := ngapType.PDUSessionResourceSetupRequestTransferIEs{}
		ie.Id.Value = ngapType.ProtocolIEIDPDUSessionType
		ie.Criticality.Value = ngapType.CriticalityPresentReject
		ie.Value.Present = ngapType.PDUSessionResourceSetupRequestTransferIEsPresentPDUSessionType
		ie.Value.PDUSessionType = &ngapType.PDUSessionType{Value: aper.Enumerated(aU64(a[3]))}
		add(ie)
	}
	if a[4] != "x" {
		ie := ngapType.PDUSessionResourceSetupRequestTransferIEs{}
		ie.Id.Value = ngapType.ProtocolIEIDQosFlowSetupRequestList
		ie.Criticality.Value = ngapType.CriticalityPresentReject
		ie.Value.Present = ngapType.PDUSessionResourceSetupRequestTransferIEsPresentQosFlowSetupRequestList
		l := &ngapType.QosFlowSetupRequestList{}
		for _, q := range exParseQos(a[4]) {
			it := ngapType.QosFlowSetupRequestItem{}
			it.QosFlowIdentifier.Value = q.qfi
			it.QosFlowLevelQosParameters.QosCharacteristics.Present = ngapType.QosCharacteristicsPresentNonDynamic5QI
			it.QosFlowLevelQosParameters.QosCharacteristics.NonDynamic5QI = &ngapType.NonDynamic5QIDescriptor{FiveQI: ngapType.FiveQI{Value: q.fiveQI}}
			it.QosFlowLevelQosParameters.AllocationAndRetentionPriority.PriorityLevelARP.Value = q.arp
			it.QosFlowLevelQosParameters.AllocationAndRetentionPriority.PreEmptionCapability.Value = aper.Enumerated(q.capab)
			it.QosFlowLevelQosParameters.AllocationAndRetentionPriority.PreEmptionVulnerability.Value = aper.Enumerated(q.vul)
			l.List = append(l.List, it)
		}
		ie.Value.QosFlowSetupRequestList = l
		add(ie)
	}
	b, err := aper.MarshalWithParams(tr, "valueExt")
	if err != nil {
		panic(fmt.Sprintf("aper: %v", err))
	}
	return b
}

// buildSetupRequest: PDU SESSION RESOURCE SETUP REQUEST (TS 38.413 9.2.1.1) with the optional RAN Paging Priority
// and NAS-PDU IEs as requested and one setup item carrying the given NAS-PDU and transfer.
func buildSetupRequest(rpp, nasPdu string, itemNas, transfer []byte, more ...[]byte) []byte {
	var pdu ngapType.NGAPPDU
	pdu.Present = ngapType.NGAPPDUPresentInitiatingMessage
	pdu.InitiatingMessage = new(ngapType.InitiatingMessage)
	im := pdu.InitiatingMessage
	im.ProcedureCode.Value = ngapType.ProcedureCodePDUSessionResourceSetup
	im.Criticality.Value = ngapType.CriticalityPresentReject
	im.Value.Present = ngapType.InitiatingMessagePresentPDUSessionResourceSetupRequest
	im.Value.PDUSessionResourceSetupRequest = new(ngapType.PDUSessionResourceSetupRequest)
	ies := &im.Value.PDUSessionResourceSetupRequest.ProtocolIEs
	{
		ie := ngapType.PDUSessionResourceSetupRequestIEs{}
		ie.Id.Value = ngapType.ProtocolIEIDAMFUENGAPID
		ie.Criticality.Value = ngapType.CriticalityPresentReject
		ie.Value.Present = ngapType.PDUSessionResourceSetupRequestIEsPresentAMFUENGAPID
		ie.Value.AMFUENGAPID = &ngapType.AMFUENGAPID{Value: 1}
		ies.List = append(ies.List, ie)
	}
	{
		ie := ngapType.PDUSessionResourceSetupRequestIEs{}
		ie.Id.Value = ngapType.ProtocolIEIDRANUENGAPID
		ie.Criticality.Value = ngapType.CriticalityPresentReject
		ie.Value.Present = ngapType.PDUSessionResourceSetupRequestIEsPresentRANUENGAPID
		ie.Value.RANUENGAPID = &ngapType.RANUENGAPID{Value: 1}
		ies.List = append(ies.List, ie)
	}
	if rpp != "x" {
		ie := ngapType.PDUSessionResourceSetupRequestIEs{}
		ie.Id.Value = ngapType.ProtocolIEIDRANPagingPriority
		ie.Criticality.Value = ngapType.CriticalityPresentIgnore
		ie.Value.Present = ngapType.PDUSessionResourceSetupRequestIEsPresentRANPagingPriority
		ie.Value.RANPagingPriority = &ngapType.RANPagingPriority{Value: aI64(rpp)}
		ies.List = append(ies.List, ie)
	}
	if nasPdu != "x" {
		ie := ngapType.PDUSessionResourceSetupRequestIEs{}
		ie.Id.Value = ngapType.ProtocolIEIDNASPDU
		ie.Criticality.Value = ngapType.CriticalityPresentReject
		ie.Value.Present = ngapType.PDUSessionResourceSetupRequestIEsPresentNASPDU
		ie.Value.NASPDU = &ngapType.NASPDU{Value: aHex(nasPdu)}
		ies.List = append(ies.List, ie)
	}
	{
		ie := ngapType.PDUSessionResourceSetupRequestIEs{}
		ie.Id.Value = ngapType.ProtocolIEIDPDUSessionResourceSetupListSUReq
		ie.Criticality.Value = ngapType.CriticalityPresentReject
		ie.Value.Present = ngapType.PDUSessionResourceSetupRequestIEsPresentPDUSessionResourceSetupListSUReq
		item := ngapType.PDUSessionResourceSetupItemSUReq{}
		item.PDUSessionID.Value = 1
		item.PDUSessionNASPDU = &ngapType.NASPDU{Value: itemNas}
		item.SNSSAI.SST.Value = []byte{1}
		item.SNSSAI.SD = &ngapType.SD{Value: []byte{1, 2, 3}}
		item.PDUSessionResourceSetupRequestTransfer = transfer
		ie.Value.PDUSessionResourceSetupListSUReq = &ngapType.PDUSessionResourceSetupListSUReq{List: []ngapType.PDUSessionResourceSetupItemSUReq{item}}
		// further items (NAS-PDU, transfer pairs): other sessions set up by the same message; the UE's own session is the first
		for k := 0; k+1 < len(more); k += 2 {
			o := ngapType.PDUSessionResourceSetupItemSUReq{}
			o.PDUSessionID.Value = int64(2 + k/2)
			o.PDUSessionNASPDU = &ngapType.NASPDU{Value: more[k]}
			o.SNSSAI.SST.Value = []byte{1}
			o.PDUSessionResourceSetupRequestTransfer = more[k+1]
			ie.Value.PDUSessionResourceSetupListSUReq.List = append(ie.Value.PDUSessionResourceSetupListSUReq.List, o)
		}
		ies.List = append(ies.List, ie)
	}
	b, err := ngap.Encoder(pdu)
	if err != nil {
		panic(fmt.Sprintf("ngap: %v", err))
	}
	return b
}

// opEstablish runs the real stgutg.EstablishPDU over an AF_UNIX SOCK_SEQPACKET pair (the sandbox has no SCTP; the
// SCTPConn wrapper only reads and writes the descriptor). The peer reads the UL NAS TRANSPORT, answers with the
// setup request and reads the setup response.
func opEstablish(a []string) string {
	if len(a) != 4 && len(a) != 6 && len(a) != 5 {
		panic(badArg{})
	}
	var more [][]byte
	if len(a) == 6 {
		more = [][]byte{aHex(a[4]), aHex(a[5])}
	}
	req := buildSetupRequest(a[0], a[1], aHex(a[2]), aHex(a[3]), more...)
	if len(a) == 5 {
		// one more IE, of an id this release of the message does not have (UE Aggregate Maximum Bit Rate, id 110, criticality
		// ignore, as later releases of TS 38.413 append it), spliced into the encoding: ignored by the receiver
		if a[4] != "u" {
			panic(badArg{})
		}
		_, lSize, count, ies, ok := ngapWalk(req)
		if !ok {
			panic(badArg{})
		}
		var raw [][]byte
		for _, ie := range ies {
			raw = append(raw, append([]byte{}, req[ie.off:ie.valOff+ie.l]...))
		}
		val := []byte{0x18, 0x3b, 0x9a, 0xca, 0x00, 0x18, 0x3b, 0x9a, 0xca, 0x00} // two bit rates of 1 Gbit/s
		unk := append([]byte{0x00, 110, 0x40}, append(perLenEnc(len(val)), val...)...)
		req = ngapAssemble(req[:3], req[3+lSize], count+1, append(raw, unk), nil)
	}
	if len(req) > 2048 {
		panic(badArg{}) // EstablishPDU reads into a 2048 octet buffer
	}
	fds, err := syscall.Socketpair(syscall.AF_UNIX, syscall.SOCK_SEQPACKET, 0)
	if err != nil {
		panic(err)
	}
	conn := sctp.NewSCTPConn(fds[0], nil)
	defer conn.Close()
	peerDone := make(chan struct{})
	go func() {
		defer close(peerDone)
		defer syscall.Close(fds[1])
		buf := make([]byte, 8192)
		if _, err := syscall.Read(fds[1], buf); err != nil {
			return
		}
		if _, err := syscall.Write(fds[1], req); err != nil {
			return
		}
		syscall.Read(fds[1], buf)
	}()
	ue := tglib.NewRanUeContext("imsi-2089300000001", 1, security.AlgCiphering128NEA0, security.AlgIntegrity128NIA2)
	ue.AmfUeNgapId = 1
	ip, teid, upf := stgutg.EstablishPDU(1, "010203", ue, conn, "10.0.0.1")
	return "ok " + hx(ip) + " " + u(uint64(teid)) + " " + hx(upf)
}

// ---------------------------------------------------------------------------------------------- generator

func (e *emitter) optByteTok(p float64) string {
	if e.rng.Float64() < p {
		return u(uint64(e.rng.Intn(256)))
	}
	return "x"
}

func (e *emitter) optHexTok(p float64, maxLen int) string {
	if e.rng.Float64() < p {
		n := e.rng.Intn(maxLen + 1)
		if e.rng.Intn(4) == 0 {
			n = e.rng.Intn(4)
		}
		return hx(e.bytes(n))
	}
	return "x"
}

func (e *emitter) slack() string {
	switch e.rng.Intn(4) {
	case 0:
		return "-"
	case 1:
		return hx(make([]byte, e.rng.Intn(17)))
	default:
		return hx(e.bytes(e.rng.Intn(24)))
	}
}

// acceptParams draws the 23 accept tokens; qosLen < 0 draws a length, wantV4 forces an IPv4 PDU address.
// macLike: a message authentication code; one in four starts with octets that look like NAS header fields (a message
// type and payload container type, an extended protocol discriminator, a security header) — the security header is
// skipped by position, never recognised by content
func (e *emitter) macLike() []byte {
	m := e.bytes(4)
	if e.rng.Intn(4) == 0 {
		pre := [][]byte{{0x68, 0x01}, {0x7e, 0x00}, {0x7e, 0x02}, {0x2e, 0x01}, {0x00, 0x68}, {0x67, 0x01}, {0x00, 0x00}, {0xff, 0xff}}[e.rng.Intn(8)]
		copy(m, pre)
	}
	return m
}

func (e *emitter) acceptParams(qosLen int, wantV4 bool) []string {
	r := e.rng
	if qosLen < 0 {
		switch r.Intn(6) {
		case 0:
			qosLen = 0
		case 1:
			qosLen = r.Intn(4001)
		default:
			qosLen = r.Intn(64)
		}
	}
	big := 40
	if e.thorough() && r.Intn(20) == 0 {
		big = 3000
	}
	addr := "x"
	if wantV4 || r.Intn(12) != 0 {
		addr = hx(append([]byte{byte(r.Intn(32)<<3 | 1)}, e.bytes(4)...))
		if !wantV4 && r.Intn(10) == 0 {
			// other PDU session types: IPv6 interface identifier, IPv4v6
			if r.Intn(2) == 0 {
				addr = hx(append([]byte{2}, e.bytes(8)...))
			} else {
				addr = hx(append([]byte{3}, e.bytes(12)...))
			}
		}
	}
	snssai := "x"
	if r.Intn(2) == 0 {
		snssai = hx(e.bytes([]int{1, 2, 4, 5, 8}[r.Intn(5)]))
	}
	ao := "x"
	if r.Intn(3) == 0 {
		ao = u(uint64(r.Intn(2)))
	}
	return []string{
		u(uint64(r.Intn(256))), u(uint64(r.Intn(256))), u(uint64(r.Intn(256))),
		hx(e.bytes(qosLen)), hx(e.bytes(6)),
		e.optByteTok(0.4), addr, e.optByteTok(0.3), snssai, ao,
		e.optHexTok(0.2, big), e.optHexTok(0.2, big), e.optHexTok(0.4, big), e.optHexTok(0.4, big), e.optHexTok(0.5, 30),
		u(uint64(r.Intn(5))), hx(e.macLike()), u(uint64(r.Intn(256))), u(uint64(1 + r.Intn(8))),
		e.optByteTok(0.7), e.optHexTok(0.2, 10), e.optByteTok(0.2), e.optByteTok(0.2),
	}
}

var bitRateEdges = []int64{0, 1, 127, 128, 255, 256, 65535, 65536, 1<<24 - 1, 1 << 24, 1<<32 - 1, 1 << 32, 1<<40 - 1, 1 << 40,
	3999999999999, 4000000000000}

func (e *emitter) bitRate() int64 {
	if e.rng.Intn(3) == 0 {
		return bitRateEdges[e.rng.Intn(len(bitRateEdges))]
	}
	// log-uniform over 0..4e12
	v := e.rng.Int63n(int64(1) << uint(1+e.rng.Intn(42)))
	if v > 4000000000000 {
		v = 4000000000000
	}
	return v
}

func (e *emitter) transferParams(v4 bool) []string {
	r := e.rng
	ambr := "x"
	if r.Intn(4) != 0 {
		ambr = i(e.bitRate()) + ":" + i(e.bitRate())
	}
	n := 4
	if !v4 {
		n = []int{16, 20}[r.Intn(2)]
	}
	pt := "x"
	if r.Intn(4) != 0 {
		pt = u(uint64(r.Intn(5)))
	}
	qos := "x"
	if r.Intn(6) != 0 {
		k := 1 + r.Intn(3)
		var parts []string
		for j := 0; j < k; j++ {
			parts = append(parts, fmt.Sprintf("%d.%d.%d.%d.%d", r.Intn(64), r.Intn(256), 1+r.Intn(15), r.Intn(2), r.Intn(2)))
		}
		qos = strings.Join(parts, "+")
	}
	return []string{ambr, hx(e.bytes(n)), hx(e.bytes(4)), pt, qos}
}

func extractDomain(e *emitter) {
	r := e.rng
	// 1. spec-shaped accepts: boundary QoS-rule lengths first, then random
	for _, q := range []int{0, 1, 2, 255, 256, 4000} {
		p := e.acceptParams(q, true)
		e.op("encacc", p...)
		e.op("acc", append(p, e.slack())...)
	}
	for k := 0; k < e.n; k++ {
		p := e.acceptParams(-1, r.Intn(10) != 0)
		if k%4 == 0 {
			e.op("encacc", p...)
		}
		e.op("acc", append(p, e.slack())...)
	}
	// 2. spec-shaped transfers
	for k := 0; k < e.n; k++ {
		p := e.transferParams(r.Intn(12) != 0)
		if k%4 == 0 {
			e.op("encxfer", p...)
		}
		e.op("xfer", append(p, e.slack())...)
	}
	// 3. the procedure: the request with and without the optional IEs in front of the setup list
	nEst := e.n / 20
	if nEst < 8 {
		nEst = 8
	}
	for k := 0; k < nEst; k++ {
		ap := e.acceptParams(r.Intn(40), true)
		tp := e.transferParams(true)
		rpp, np := "x", "x"
		if k&1 != 0 {
			rpp = u(uint64(1 + r.Intn(256)))
		}
		if k&2 != 0 {
			np = hx(e.bytes(1 + r.Intn(20)))
		}
		if len(buildAccept(ap))+len(buildTransfer(tp)) > 1800 {
			continue
		}
		if k%3 == 1 {
			e.op("establish", rpp, np, hx(buildAccept(ap)), hx(buildTransfer(tp)), "u")
			continue
		}
		if k%3 == 2 {
			// a second item (another session, other address / TEID / UPF) after the UE's own
			a2, t2 := buildAccept(e.acceptParams(r.Intn(20), true)), buildTransfer(e.transferParams(true))
			if len(buildAccept(ap))+len(buildTransfer(tp))+len(a2)+len(t2) <= 1800 {
				e.op("establish", rpp, np, hx(buildAccept(ap)), hx(buildTransfer(tp)), hx(a2), hx(t2))
				continue
			}
		}
		e.op("establish", rpp, np, hx(buildAccept(ap)), hx(buildTransfer(tp)))
	}
	// 3a. the selection of the setup list in whatever PDU arrives (findlist.go)
	findListCases(e)
	// 3b. the optional-IE walk at the END of the container: for every IEI of the length table (and two that are not in
	// it), the container stops right after the IEI, inside its length indicator, or its length claims more than is left;
	// alone and behind a well-formed IE / a half-octet IE (termination and panic classes on every branch of the walk)
	{
		var ieis []int
		for id := range stgutg.PDUSessionEstablishmentAcceptOptionalElementsLength {
			ieis = append(ieis, int(id))
		}
		sort.Ints(ieis)
		ieis = append(ieis, 0x33, 0x7f)
		frame := func(op []byte) []byte {
			qos := []byte{0x01, 0x00, 0x06, 0x31, 0x31, 0x01, 0x01, 0xff, 0x01} // one QoS rule, 9 octets
			pc := []byte{0x2e, 0x05, 0x01, 0xc2, 0x11, 0x00, byte(len(qos))}
			pc = append(pc, qos...)
			pc = append(pc, 0x06, 0x01, 0x00, 0x64, 0x01, 0x00, 0x64) // session AMBR
			pc = append(pc, op...)
			b := []byte{0x7e, 0x02, 0x11, 0x22, 0x33, 0x44, 0x00} // security header
			b = append(b, 0x7e, 0x00, 0x68, 0x01, byte(len(pc)>>8), byte(len(pc)))
			return append(b, pc...)
		}
		for _, pre := range [][]byte{{}, {0x59, 0x24}, {0x80}, {0x59, 0x24, 0xc1}} {
			for _, id := range ieis {
				for _, tail := range [][]byte{{}, {0x00}, {0x05}, {0x00, 0x00}, {0x00, 0x05}, {0x00, 0x05, 0xaa}, {0xff, 0xff}, {0x01, 0xaa, 0x29, 0x05, 0x01, 10, 0, 0, 1}} {
					op := append(append(append([]byte{}, pre...), byte(id)), tail...)
					e.op("decnas", hx(frame(op)), e.slack())
				}
			}
		}
	}
	// 4. arbitrary, truncated and mutated byte strings (termination, panic classes)
	hangs := 0
	raw := func(op string, b []byte) {
		res := e.op(op, hx(b), e.slack())
		if res == "hang" {
			hangs++
		}
	}
	for k := 0; k < e.n; k++ {
		var nasB, xferB []byte
		switch r.Intn(4) {
		case 0:
			nasB, xferB = e.bytes(r.Intn(60)), e.bytes(r.Intn(40))
		case 1: // truncation
			nasB = buildAccept(e.acceptParams(r.Intn(20), true))
			nasB = nasB[:r.Intn(len(nasB)+1)]
			xferB = buildTransfer(e.transferParams(true))
			xferB = xferB[:r.Intn(len(xferB)+1)]
		default: // a few octets changed (never to an IEI that is outside the length table once three hangs were seen)
			nasB = buildAccept(e.acceptParams(r.Intn(20), r.Intn(3) != 0))
			xferB = buildTransfer(e.transferParams(true))
			for m := 1 + r.Intn(3); m > 0; m-- {
				nasB[r.Intn(len(nasB))] = byte(r.Intn(256))
				xferB[r.Intn(len(xferB))] = byte(r.Intn(256))
			}
		}
		if hangs >= 3 && nasWouldStall(nasB) {
			continue
		}
		raw("decnas", nasB)
		raw("decxfer", xferB)
	}
}

// nasWouldStall is a generator-side filter only (keeps the number of 5 s hang cases per run small):
// true when the walk over the optional IEs meets an IEI that has no entry in the length table before 0x29.
func nasWouldStall(b []byte) bool {
	defer func() { recover() }()
	plain := b[7:]
	l := binary.BigEndian.Uint16(plain[4:6])
	pc := plain[6 : 6+l]
	q := binary.BigEndian.Uint16(pc[5:7])
	op := pc[5+2+q+7:]
	idx := 0
	for idx < len(op) {
		id := op[idx]
		if id == 0x29 {
			return false
		}
		if id&0xF0 == 0x80 || id&0xF0 == 0xC0 {
			idx++
			continue
		}
		n, ok := stgutg.PDUSessionEstablishmentAcceptOptionalElementsLength[id]
		switch {
		case !ok || n == 0:
			return true
		case n > 0:
			idx += n
		case n == -1:
			idx += 2 + int(op[idx+1])
		default:
			idx += 3 + int(binary.BigEndian.Uint16(op[idx+1:idx+3]))
		}
	}
	return false
}
