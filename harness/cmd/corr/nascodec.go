package main

import (
	"bytes"
	"fmt"
	"reflect"
	"sort"
	"strconv"
	"strings"

	"free5gclib/nas"
)

// Domain nas-rt (C08, C09 layout part): the generated NAS codec through the real Encode*/Decode* functions and
// PlainNasEncode/PlainNasDecode.  Messages are built and printed by reflection over the real nasMessage structs
// (the 45 types are the embedded pointers of nas.GmmMessage / nas.GsmMessage); the IEI of every optional field is
// found by probing the real decoder, not taken from the translator.
//
//   value token   nil | <Iei>.<Len>.<hex of Octet|Buffer>
//   nmenc  <Msg> <tok>*                    Encode<Msg>                         → ok <hex>
//   nmdec  <Msg> <hex>                     Decode<Msg> on New<Msg>()           → ok <tok>*
//   nmrt   <Msg> <tok>*                    encode, then decode                 → ok <hex> | <tok>*
//   nmre   <Msg> <hex>                     decode, then encode                 → ok <tok>* | <hex>
//   nmperm <Msg> <mand hex> <k> <ie hex>*k <perm>*k                            → ok <tok>* | <tok>*
//   nmpenc <gsm> <hdr hex> <Msg> <tok>*    PlainNasEncode                      → ok <hex>
//   nmpdec <hex>                           PlainNasDecode                      → ok <gsm> <hdr hex> <Msg> <tok>*

type nasMsgInfo struct {
	name string
	t    reflect.Type
	gsm  bool
	// per field
	ptr   []bool
	shape []nasShape
	// probing results
	mandLen int         // length of the encoding of the zero message
	ieiOf   map[int]int // first octet -> field index, from the real decoder
}

type nasShape struct {
	hasIei bool
	lenW   int
	body   string // none | octet | arr | buf
	n      int
}

var nasMsgs = map[string]*nasMsgInfo{}
var nasMsgNames []string

func init() {
	for k, t := range []reflect.Type{reflect.TypeOf(nas.GmmMessage{}), reflect.TypeOf(nas.GsmMessage{})} {
		for i := 0; i < t.NumField(); i++ {
			f := t.Field(i)
			if f.Type.Kind() != reflect.Ptr {
				continue // GmmHeader / GsmHeader
			}
			mi := &nasMsgInfo{name: f.Name, t: f.Type.Elem(), gsm: k == 1}
			for j := 0; j < mi.t.NumField(); j++ {
				ft := mi.t.Field(j).Type
				p := ft.Kind() == reflect.Ptr
				if p {
					ft = ft.Elem()
				}
				mi.ptr = append(mi.ptr, p)
				mi.shape = append(mi.shape, shapeOf(ft))
			}
			nasMsgs[mi.name] = mi
			nasMsgNames = append(nasMsgNames, mi.name)
		}
	}
	sort.Strings(nasMsgNames)

	register("nas-rt", nasRt)
	registerOp("nmenc", func(a []string) string {
		mi, mv := nasBuild(a[0], a[1:])
		return okHex(nasEncode(mi, mv), nil)
	})
	registerOp("nmdec", func(a []string) string {
		mi := nasInfo(a[0])
		mv := nasDecode(mi, aHex(a[1]))
		retainDetached(func() string { return nasShow(mi, mv) })
		return strings.TrimSpace("ok " + nasShow(mi, mv))
	})
	registerOp("nmrt", func(a []string) string {
		mi, mv := nasBuild(a[0], a[1:])
		b := nasEncode(mi, mv)
		return strings.TrimSpace("ok " + hx(b) + " | " + nasShow(mi, nasDecode(mi, b)))
	})
	registerOp("nmre", func(a []string) string {
		mi := nasInfo(a[0])
		mv := nasDecode(mi, aHex(a[1]))
		return "ok " + strings.TrimSpace(nasShow(mi, mv)) + " | " + hx(nasEncode(mi, mv))
	})
	registerOp("nmperm", func(a []string) string {
		mi := nasInfo(a[0])
		mand := aHex(a[1])
		k := int(aU64(a[2]))
		if len(a) != 3+2*k {
			panic(badArg{})
		}
		canon := append([]byte{}, mand...)
		perm := append([]byte{}, mand...)
		for i := 0; i < k; i++ {
			canon = append(canon, aHex(a[3+i])...)
			j := int(aU64(a[3+k+i]))
			if j >= k {
				panic(badArg{})
			}
			perm = append(perm, aHex(a[3+j])...)
		}
		return "ok " + strings.TrimSpace(nasShow(mi, nasDecode(mi, perm))) + " | " + strings.TrimSpace(nasShow(mi, nasDecode(mi, canon)))
	})
	registerOp("nmpenc", func(a []string) string {
		gsm := aU64(a[0]) != 0
		hdr := aHex(a[1])
		mi, mv := nasBuild(a[2], a[3:])
		m := nas.NewMessage()
		if gsm != mi.gsm {
			panic(badArg{})
		}
		if gsm {
			m.GsmMessage = nas.NewGsmMessage()
			if len(hdr) != len(m.GsmHeader.Octet) {
				panic(badArg{})
			}
			copy(m.GsmHeader.Octet[:], hdr)
			reflect.ValueOf(m.GsmMessage).Elem().FieldByName(mi.name).Set(mv)
		} else {
			m.GmmMessage = nas.NewGmmMessage()
			if len(hdr) != len(m.GmmHeader.Octet) {
				panic(badArg{})
			}
			copy(m.GmmHeader.Octet[:], hdr)
			reflect.ValueOf(m.GmmMessage).Elem().FieldByName(mi.name).Set(mv)
		}
		b, err := m.PlainNasEncode()
		if err == nil {
			retainBytes(b)
		}
		return okHex(b, err)
	})
	registerOp("nmpre2", func(a []string) string {
		// one Message object, decoded into from <b1>, then given the contents of <b2> by hand (the caller replaces the 5GMM /
		// 5GSM part and the header), then encoded: the octets are those of a fresh Message decoded from <b2>
		b1, b2 := aHex(a[0]), aHex(a[1])
		m, m2, m3 := nas.NewMessage(), nas.NewMessage(), nas.NewMessage()
		// whether <b1> / <b2> decode at all is nmpdec's business: nothing to compare when they do not
		if err := m2.PlainNasDecode(&b2); err != nil {
			return "ok same"
		}
		want, err := m2.PlainNasEncode()
		if err != nil {
			return "ok same"
		}
		want = append([]byte{}, want...)
		b3 := append([]byte{}, b2...)
		if err := m3.PlainNasDecode(&b3); err != nil {
			return "ok same"
		}
		// the decode into m is the LAST decode before m is given other contents and encoded
		if err := m.PlainNasDecode(&b1); err != nil {
			return "ok same"
		}
		m.SecurityHeader, m.GmmMessage, m.GsmMessage = m3.SecurityHeader, m3.GmmMessage, m3.GsmMessage
		got, err := m.PlainNasEncode()
		if err != nil {
			return "err"
		}
		if !bytes.Equal(got, want) {
			return "ok diff " + hx(got) + " " + hx(want)
		}
		return "ok same"
	})
	registerOp("nmpdec", func(a []string) string {
		b := aHex(a[0])
		m := nas.NewMessage()
		if err := m.PlainNasDecode(&b); err != nil {
			return "err"
		}
		var hdr []byte
		var holder reflect.Value
		gsm := 0
		switch {
		case m.GmmMessage != nil:
			hdr = m.GmmHeader.Octet[:]
			holder = reflect.ValueOf(m.GmmMessage).Elem()
		case m.GsmMessage != nil:
			hdr = m.GsmHeader.Octet[:]
			holder = reflect.ValueOf(m.GsmMessage).Elem()
			gsm = 1
		default:
			return "ok none"
		}
		var parts []string
		for i := 0; i < holder.NumField(); i++ {
			f := holder.Field(i)
			if f.Kind() == reflect.Ptr && !f.IsNil() {
				mi := nasMsgs[holder.Type().Field(i).Name]
				parts = append(parts, strings.TrimSpace(mi.name+" "+nasShow(mi, f)))
			}
		}
		return fmt.Sprintf("ok %d %s %s", gsm, hx(hdr), strings.Join(parts, " & "))
	})
}

func shapeOf(t reflect.Type) nasShape {
	var s nasShape
	s.body = "none"
	for i := 0; i < t.NumField(); i++ {
		f := t.Field(i)
		switch f.Name {
		case "Iei":
			s.hasIei = true
		case "Len":
			s.lenW = int(f.Type.Size())
		case "Octet":
			if f.Type.Kind() == reflect.Array {
				s.body, s.n = "arr", f.Type.Len()
			} else {
				s.body, s.n = "octet", 1
			}
		case "Buffer":
			s.body = "buf"
		default:
			panic("nascodec: unexpected field " + t.Name() + "." + f.Name)
		}
	}
	return s
}

func nasInfo(name string) *nasMsgInfo {
	mi, ok := nasMsgs[name]
	if !ok {
		panic(badArg{})
	}
	return mi
}

// nasBuild constructs *<Msg> from value tokens.
func nasBuild(name string, toks []string) (*nasMsgInfo, reflect.Value) {
	mi := nasInfo(name)
	if len(toks) != mi.t.NumField() {
		panic(badArg{})
	}
	mv := reflect.New(mi.t)
	for i, tok := range toks {
		f := mv.Elem().Field(i)
		if tok == "nil" {
			if !mi.ptr[i] {
				panic(badArg{})
			}
			continue
		}
		p := strings.Split(tok, ".")
		if len(p) != 3 {
			panic(badArg{})
		}
		iei, len_, data := aU64(p[0]), aU64(p[1]), aHex(p[2])
		if mi.ptr[i] {
			nv := reflect.New(f.Type().Elem())
			f.Set(nv)
			f = nv.Elem()
		}
		sh := mi.shape[i]
		if sh.hasIei {
			if iei > 255 {
				panic(badArg{})
			}
			f.FieldByName("Iei").SetUint(iei)
		} else if iei != 0 {
			panic(badArg{})
		}
		if sh.lenW > 0 {
			if len_ >= 1<<(8*uint(sh.lenW)) {
				panic(badArg{})
			}
			f.FieldByName("Len").SetUint(len_)
		} else if len_ != 0 {
			panic(badArg{})
		}
		switch sh.body {
		case "octet":
			if len(data) != 1 {
				panic(badArg{})
			}
			f.FieldByName("Octet").SetUint(uint64(data[0]))
		case "arr":
			if len(data) != sh.n {
				panic(badArg{})
			}
			reflect.Copy(f.FieldByName("Octet"), reflect.ValueOf(data))
		case "buf":
			f.FieldByName("Buffer").SetBytes(data)
		default:
			if len(data) != 0 {
				panic(badArg{})
			}
		}
	}
	return mi, mv
}

func nasTok(sh nasShape, f reflect.Value) string {
	var iei, len_ uint64
	var data []byte
	if sh.hasIei {
		iei = f.FieldByName("Iei").Uint()
	}
	if sh.lenW > 0 {
		len_ = f.FieldByName("Len").Uint()
	}
	switch sh.body {
	case "octet":
		data = []byte{byte(f.FieldByName("Octet").Uint())}
	case "arr":
		a := f.FieldByName("Octet")
		data = make([]byte, a.Len())
		reflect.Copy(reflect.ValueOf(data), a)
	case "buf":
		data = f.FieldByName("Buffer").Bytes()
	}
	return strconv.FormatUint(iei, 10) + "." + strconv.FormatUint(len_, 10) + "." + hx(data)
}

func nasShow(mi *nasMsgInfo, mv reflect.Value) string {
	var p []string
	for i := 0; i < mi.t.NumField(); i++ {
		f := mv.Elem().Field(i)
		if mi.ptr[i] {
			if f.IsNil() {
				p = append(p, "nil")
				continue
			}
			f = f.Elem()
		}
		p = append(p, nasTok(mi.shape[i], f))
	}
	return strings.Join(p, " ")
}

// nasEncode: Encode<Msg> appends to the buffer it is given. Two calls in three the buffer already holds octets (a security
// header in front of the message, as a sender assembles it): what was there stays and what is appended is the message.
func nasEncode(mi *nasMsgInfo, mv reflect.Value) []byte {
	nasEncSeq++
	prefix := [][]byte{nil, {0x7e, 0x02, 0xde, 0xad, 0xbe, 0xef, 0x07}, {0x7e, 0x00, 0x67}}[nasEncSeq%3]
	buf := bytes.NewBuffer(append([]byte{}, prefix...))
	mv.MethodByName("Encode" + mi.name).Call([]reflect.Value{reflect.ValueOf(buf)})
	out := buf.Bytes()
	if len(out) < len(prefix) || !bytes.Equal(out[:len(prefix)], prefix) {
		return out // the octets in front were overwritten: shown whole
	}
	return out[len(prefix):]
}

var nasEncSeq int

func nasDecode(mi *nasMsgInfo, b []byte) reflect.Value {
	mv := reflect.New(mi.t)
	bb := dirtySlack(b) // a tracked copy: the input-aliasing check overwrites it after the op
	mv.MethodByName("Decode" + mi.name).Call([]reflect.Value{reflect.ValueOf(&bb)})
	return mv
}

// probe: the encoding of the zero message is the shortest mandatory part; one more octet b makes the real decoder
// allocate the field whose case matches b.
func (mi *nasMsgInfo) probe() {
	if mi.ieiOf != nil {
		return
	}
	mi.ieiOf = map[int]int{}
	zero := nasEncode(mi, reflect.New(mi.t))
	mi.mandLen = len(zero)
	for b := 0; b < 256; b++ {
		mv := nasDecode(mi, append(append([]byte{}, zero...), byte(b)))
		for i := range mi.ptr {
			if mi.ptr[i] && !mv.Elem().Field(i).IsNil() {
				if _, dup := mi.ieiOf[b]; dup {
					panic("nascodec: octet sets two fields")
				}
				mi.ieiOf[b] = i
			}
		}
	}
}

// iei octets that select field i (one for full-octet IEIs, sixteen for half-octet ones)
func (mi *nasMsgInfo) octetsFor(i int) []int {
	mi.probe()
	var out []int
	for b := 0; b < 256; b++ {
		if f, ok := mi.ieiOf[b]; ok && f == i {
			out = append(out, b)
		}
	}
	return out
}

// ---------------------------------------------------------------- generators

type nasGen struct {
	e *emitter
}

func (g nasGen) pick(xs ...int) int { return xs[g.e.rng.Intn(len(xs))] }

// body: n content octets — random three times in four; otherwise contents with STRUCTURE of their own, which a codec that looks
// inside opaque contents would trip over: all ones (reserved values such as SD ffffff), all zeros, a value followed by all
// ones, an inner length field (octets 2..3, big endian, as in an EAP packet) that is shorter than the contents with a zero
// tail, a first octet that equals the number of octets after it
func (g nasGen) body(n int) []byte {
	b := g.e.bytes(n)
	rng := g.e.rng
	if n == 0 || rng.Intn(4) != 0 {
		return b
	}
	switch rng.Intn(5) {
	case 0:
		for i := range b {
			b[i] = 0xff
		}
	case 1:
		for i := range b {
			b[i] = 0
		}
	case 2:
		for i := 1; i < n; i++ {
			b[i] = 0xff
		}
	case 3:
		if n > 5 {
			k := 4 + rng.Intn(n-4)
			b[2], b[3] = byte(k>>8), byte(k)
			for i := k; i < n; i++ {
				b[i] = 0
			}
		}
	case 4:
		b[0] = byte(n - 1)
	}
	return b
}

// wfVal: a well-formed value for field i of mi (MsgWF of Model/NasWF.lean); big = allow the extreme lengths
func (g nasGen) wfVal(mi *nasMsgInfo, i int, big bool) string {
	sh := mi.shape[i]
	rng := g.e.rng
	iei, len_ := 0, 0
	var data []byte
	opt := mi.ptr[i]
	var octs []int
	if opt {
		octs = mi.octetsFor(i)
		if len(octs) == 0 {
			panic("nascodec: no IEI octet reaches field " + mi.name + "." + mi.t.Field(i).Name)
		}
	}
	if opt && sh.hasIei {
		iei = octs[0]
	}
	maxLen := 1<<(8*uint(sh.lenW)) - 1
	switch sh.body {
	case "octet":
		data = g.e.bytes(1)
		if opt && !sh.hasIei {
			data[0] = byte(octs[rng.Intn(len(octs))])
		}
		if sh.lenW > 0 {
			len_ = 1
			if rng.Intn(4) == 0 {
				len_ = rng.Intn(maxLen + 1)
			}
		}
	case "arr":
		data = g.body(sh.n)
		if sh.lenW > 0 {
			len_ = g.pick(0, 1, sh.n, sh.n, rng.Intn(sh.n+1))
			if !opt { // mandatory `Len` + whole array: any Len round-trips
				if rng.Intn(3) == 0 {
					len_ = rng.Intn(maxLen + 1)
				}
			} else {
				if sh.n >= 5 && rng.Intn(6) == 0 {
					// the lengths an S-NSSAI takes (SST+SD, SST+SD+mapped SST) with a slice differentiator of all ones (reserved:
					// "no SD") or with leading zero octets
					len_ = g.pick(4, 5)
					copy(data[1:4], [][]byte{{0xff, 0xff, 0xff}, {0x00, 0x00, 0x01}, {0x00, 0xab, 0x00}}[rng.Intn(3)])
				}
				for k := len_; k < sh.n; k++ {
					data[k] = 0
				}
			}
		}
	case "buf":
		len_ = g.pick(0, 1, 2, 1+rng.Intn(20), 1+rng.Intn(20), rng.Intn(200))
		if big {
			len_ = g.pick(0, 1, 255, 255, 254)
			if sh.lenW == 2 {
				// boundaries, and any length in between (arithmetic on a narrowed remaining-octet count depends on the
				// length modulo 256, not on the boundaries)
				len_ = g.pick(255, 256, 257, 65535, 65535, 65534, 1000+rng.Intn(5000), 200+rng.Intn(900), 200+rng.Intn(900), 230+rng.Intn(40), 486+rng.Intn(40))
			}
		}
		if len_ > maxLen {
			len_ = maxLen
		}
		data = g.body(len_)
	}
	return fmt.Sprintf("%d.%d.%s", iei, len_, hx(data))
}

// badVal: a value outside MsgWF (length/IEI inconsistencies, capacity overruns)
func (g nasGen) badVal(mi *nasMsgInfo, i int) string {
	sh := mi.shape[i]
	rng := g.e.rng
	p := strings.Split(g.wfVal(mi, i, false), ".")
	iei, _ := strconv.Atoi(p[0])
	len_, _ := strconv.Atoi(p[1])
	data := aHex(p[2])
	maxLen := 1<<(8*uint(sh.lenW)) - 1
	switch rng.Intn(4) {
	case 0:
		if sh.hasIei {
			iei = rng.Intn(256)
		} else if sh.body == "octet" {
			data[0] = byte(rng.Intn(256))
		}
	case 1:
		if sh.lenW > 0 {
			len_ = g.pick(0, 1, len(data)+1, len(data)-1, sh.n+1, maxLen, rng.Intn(maxLen+1))
			if len_ < 0 {
				len_ = 0
			}
		}
	case 2:
		if sh.body == "buf" {
			data = g.e.bytes(g.pick(0, 1, len_+1, 300))
		} else if sh.body == "arr" {
			data = g.e.bytes(sh.n) // non-zero tail
		}
	case 3:
		if sh.lenW > 0 {
			len_ = rng.Intn(maxLen + 1)
		}
		if sh.hasIei {
			iei = rng.Intn(256)
		}
	}
	return fmt.Sprintf("%d.%d.%s", iei, len_, hx(data))
}

func (g nasGen) msg(mi *nasMsgInfo, present func(i int) bool, val func(i int) string) []string {
	toks := make([]string, len(mi.ptr))
	for i := range mi.ptr {
		if mi.ptr[i] && !present(i) {
			toks[i] = "nil"
		} else {
			toks[i] = val(i)
		}
	}
	return toks
}

func (mi *nasMsgInfo) optIdx() []int {
	var o []int
	for i, p := range mi.ptr {
		if p {
			o = append(o, i)
		}
	}
	return o
}

func nasRt(e *emitter) {
	g := nasGen{e}
	rng := e.rng
	prevPlain := ""
	for _, name := range nasMsgNames {
		mi := nasMsgs[name]
		mi.probe()
		opt := mi.optIdx()
		k := len(opt)
		// --- optional subsets: exhaustive for k <= 10, sampled beyond
		var subsets []uint64
		if k <= 10 {
			for s := uint64(0); s < 1<<uint(k); s++ {
				subsets = append(subsets, s)
			}
		} else {
			full := uint64(1)<<uint(k) - 1
			subsets = append(subsets, 0, full)
			for j := 0; j < k; j++ {
				subsets = append(subsets, 1<<uint(j), full&^(1<<uint(j)))
			}
			n := 60
			if e.thorough() {
				n = 3000
			}
			for j := 0; j < n; j++ {
				subsets = append(subsets, rng.Uint64()&full)
			}
		}
		if e.thorough() && k <= 10 {
			for rep := 0; rep < 3; rep++ {
				for s := uint64(0); s < 1<<uint(k); s++ {
					subsets = append(subsets, s)
				}
			}
		}
		inSet := func(s uint64) func(int) bool {
			return func(i int) bool {
				for j, o := range opt {
					if o == i {
						return s&(1<<uint(j)) != 0
					}
				}
				return false
			}
		}
		for _, s := range subsets {
			toks := g.msg(mi, inSet(s), func(i int) string { return g.wfVal(mi, i, false) })
			e.op("nmrt", append([]string{name}, toks...)...)
		}
		// --- extreme lengths: one field at a time at 0/1/255/256/65535 (and capacity for arrays)
		reps := 2
		if e.thorough() {
			reps = 8
		}
		for i := range mi.ptr {
			if mi.shape[i].lenW == 0 {
				continue
			}
			for r := 0; r < reps; r++ {
				toks := g.msg(mi, func(j int) bool { return j == i || rng.Intn(3) == 0 },
					func(j int) string { return g.wfVal(mi, j, j == i) })
				e.op("nmrt", append([]string{name}, toks...)...)
			}
		}
		// --- both nibbles of half-octet IEs: all sixteen value nibbles
		for _, i := range opt {
			if mi.shape[i].hasIei || mi.shape[i].body != "octet" {
				continue
			}
			for _, b := range mi.octetsFor(i) {
				toks := g.msg(mi, func(j int) bool { return j == i }, func(j int) string {
					if j == i {
						return fmt.Sprintf("0.0.%02x", b)
					}
					return g.wfVal(mi, j, false)
				})
				e.op("nmrt", append([]string{name}, toks...)...)
			}
		}
		// --- the same messages through nmenc (C09 layout oracle) : mandatory only, each optional IE alone, all
		e.op("nmenc", append([]string{name}, g.msg(mi, func(int) bool { return false }, func(i int) string { return g.wfVal(mi, i, false) })...)...)
		for _, i := range opt {
			for r := 0; r < 2; r++ {
				e.op("nmenc", append([]string{name}, g.msg(mi, func(j int) bool { return j == i }, func(j int) string { return g.wfVal(mi, j, r == 1 && j == i) })...)...)
			}
		}
		e.op("nmenc", append([]string{name}, g.msg(mi, func(int) bool { return true }, func(i int) string { return g.wfVal(mi, i, false) })...)...)
		// --- messages outside MsgWF: class and bytes must still agree with the model
		nb := 30
		if e.thorough() {
			nb = 600
		}
		for r := 0; r < nb; r++ {
			bad := rng.Intn(len(mi.ptr))
			toks := g.msg(mi, func(j int) bool { return j == bad || rng.Intn(2) == 0 }, func(j int) string {
				if j == bad || rng.Intn(6) == 0 {
					return g.badVal(mi, j)
				}
				return g.wfVal(mi, j, false)
			})
			e.op("nmrt", append([]string{name}, toks...)...)
		}
		// --- shuffled optional order
		np := 12
		if e.thorough() {
			np = 300
		}
		for r := 0; r < np && k >= 2; r++ {
			var chosen []int
			for _, o := range opt {
				if rng.Intn(2) == 0 || len(chosen) < 2 {
					chosen = append(chosen, o)
				}
			}
			mandToks := g.msg(mi, func(int) bool { return false }, func(i int) string { return g.wfVal(mi, i, false) })
			_, mv := nasBuild(name, mandToks)
			mand := nasEncode(mi, mv)
			args := []string{name, hx(mand), strconv.Itoa(len(chosen))}
			for _, o := range chosen {
				one := append([]string{}, mandToks...)
				one[o] = g.wfVal(mi, o, false)
				_, mv := nasBuild(name, one)
				b := nasEncode(mi, mv)
				args = append(args, hx(b[len(mand):]))
			}
			for _, j := range rng.Perm(len(chosen)) {
				args = append(args, strconv.Itoa(j))
			}
			e.op("nmperm", args...)
		}
		// --- decode side: canonical bytes, every prefix of one full message, mutations, random strings
		full := g.msg(mi, func(int) bool { return true }, func(i int) string { return g.wfVal(mi, i, false) })
		_, mv := nasBuild(name, full)
		fb := nasEncode(mi, mv)
		e.op("nmre", name, hx(fb))
		e.op("nmdec", name, hx(fb))
		// the same message followed by octets: for 8.2.28 the plain message, otherwise trailing garbage
		e.op("nmdec", name, hx(append(append([]byte{}, fb...), e.bytes(3+rng.Intn(20))...)))
		step := 1
		if len(fb) > 120 && !e.thorough() {
			step = len(fb) / 120
		}
		for l := 0; l < len(fb); l += step {
			e.op("nmre", name, hx(fb[:l]))
		}
		nm := 40
		if e.thorough() {
			nm = 1500
		}
		for r := 0; r < nm; r++ {
			toks := g.msg(mi, func(int) bool { return rng.Intn(2) == 0 }, func(i int) string { return g.wfVal(mi, i, false) })
			_, mv := nasBuild(name, toks)
			b := append([]byte{}, nasEncode(mi, mv)...)
			switch rng.Intn(5) {
			case 0: // canonical
			case 1:
				if len(b) > 0 {
					b[rng.Intn(len(b))] = byte(rng.Intn(256))
				}
			case 2:
				if len(b) > 0 {
					b = b[:rng.Intn(len(b))]
				}
			case 3:
				p := rng.Intn(len(b) + 1)
				b = append(append(append([]byte{}, b[:p]...), byte(rng.Intn(256))), b[p:]...)
			case 4:
				b = e.bytes(rng.Intn(40))
			}
			e.op("nmre", name, hx(b))
			if r%2 == 0 {
				e.op("nmdec", name, hx(b))
			}
		}
		// each optional IE alone after the mandatory part (C09 decode direction)
		for _, i := range opt {
			toks := g.msg(mi, func(j int) bool { return j == i }, func(j int) string { return g.wfVal(mi, j, false) })
			_, mv := nasBuild(name, toks)
			e.op("nmdec", name, hx(nasEncode(mi, mv)))
		}
		// --- nas.go glue
		if _, ok := plainType[name]; ok {
			np := 6
			if e.thorough() {
				np = 100
			}
			for r := 0; r < np; r++ {
				toks := g.msg(mi, func(int) bool { return rng.Intn(2) == 0 }, func(i int) string { return g.wfVal(mi, i, false) })
				hdrLen := 3
				if mi.gsm {
					hdrLen = 4
				}
				hdr := make([]byte, hdrLen)
				for j := 0; j < hdrLen; j++ {
					hdr[j] = aHex(strings.Split(toks[j], ".")[2])[0]
				}
				// consistent header: EPD and message type of this message
				if r%3 != 2 {
					hdr[0] = map[bool]byte{false: 0x7e, true: 0x2e}[mi.gsm]
					hdr[hdrLen-1] = plainType[name]
					toks[0] = fmt.Sprintf("0.0.%02x", hdr[0])
					toks[hdrLen-1] = fmt.Sprintf("0.0.%02x", hdr[hdrLen-1])
				} else if rng.Intn(2) == 0 {
					hdr[hdrLen-1] = byte(rng.Intn(256))
				}
				gs := "0"
				if mi.gsm {
					gs = "1"
				}
				res := e.op("nmpenc", append([]string{gs, hx(hdr), name}, toks...)...)
				if strings.HasPrefix(res, "ok ") && res != "ok -" {
					e.op("nmpdec", strings.TrimPrefix(res, "ok "))
					if prevPlain != "" && rng.Intn(3) == 0 {
						e.op("nmpre2", prevPlain, strings.TrimPrefix(res, "ok "))
					}
					prevPlain = strings.TrimPrefix(res, "ok ")
				}
			}
		}
	}
	// --- PlainNasDecode on short / unknown / arbitrary input
	e.op("nmpdec", "-")
	for _, epd := range []byte{0x7e, 0x2e, 0x00, 0xff} {
		e.op("nmpdec", hx([]byte{epd}))
		e.op("nmpdec", hx([]byte{epd, 0}))
		e.op("nmpdec", hx([]byte{epd, 0, 0x41}))
		for t := 0; t < 256; t++ {
			e.op("nmpdec", hx([]byte{epd, 0, byte(t)}))
			e.op("nmpdec", hx([]byte{epd, 5, 0, byte(t)}))
			e.op("nmpdec", hx(append([]byte{epd, byte(rng.Intn(256)), byte(t), byte(t)}, e.bytes(rng.Intn(30))...)))
		}
	}
	for r := 0; r < e.n; r++ {
		b := e.bytes(rng.Intn(60))
		if len(b) > 0 && rng.Intn(4) != 0 {
			b[0] = []byte{0x7e, 0x2e}[rng.Intn(2)]
		}
		e.op("nmpdec", hx(b))
	}
}

// message type octets of the messages reachable through PlainNasEncode/Decode, found by probing the real
// PlainNasDecode with a header-only message for every type value.
var plainType = map[string]byte{}

func init() {
	for _, epd := range []byte{0x7e, 0x2e} {
		for t := 0; t < 256; t++ {
			b := []byte{epd, 0, byte(t)}
			if epd == 0x2e {
				b = []byte{epd, 0, 0, byte(t)}
			}
			m := nas.NewMessage()
			func() {
				defer func() { recover() }()
				if err := m.PlainNasDecode(&b); err != nil {
					return
				}
				var holder reflect.Value
				if m.GmmMessage != nil {
					holder = reflect.ValueOf(m.GmmMessage).Elem()
				} else {
					holder = reflect.ValueOf(m.GsmMessage).Elem()
				}
				for i := 0; i < holder.NumField(); i++ {
					if f := holder.Field(i); f.Kind() == reflect.Ptr && !f.IsNil() {
						plainType[holder.Type().Field(i).Name] = byte(t)
					}
				}
			}()
		}
	}
}
