package main

import (
	"encoding/hex"
	"reflect"
	"runtime"
	"sort"
	"strings"
	"time"
	"verifharness/internal/tags"

	"free5gclib/aper"
	"free5gclib/ngap"
	"free5gclib/ngap/ngapType"
)

// Domains aper-enc / aper-dec (C03, C04, C14, C13): the reflective APER codec on the NGAP schema.
//
//	aperenc <Type> <params|-> <value tokens…>   → ok <hex> | err | panic      aper.MarshalWithParams
//	ngapenc <value tokens…>                      → ok <hex> | err | panic      ngap.Encoder
//	aperdec <Type> <params|-> <hex>              → ok <value tokens> | err     aper.UnmarshalWithParams
//	ngapdec <hex>                                → ok <value tokens> | err     ngap.Decoder
//	aperrt  <Type> <params|-> <value tokens…>   → ok <hex> same | ok <hex> diff <tokens> | err | decerr
//	aperre  <Type> <params|-> <hex>              → ok same | ok diff <hex> | err | encerr   (decode, re-encode)
func init() {
	register("aper-enc", func(e *emitter) { aperEncDomain(e, false) })
	register("aper-rt", func(e *emitter) { aperEncDomain(e, true) })
	register("aper-dec", aperDecDomain)
	registerOp("aperenc", func(a []string) string {
		t := typeByName(a[0])
		v := reflect.New(t).Elem()
		parseVal(v, &tokStream{toks: a[2:]})
		b, err := aper.MarshalWithParams(v.Interface(), paramArg(a[1]))
		return okHex(b, err)
	})
	registerOp("ngapenc", func(a []string) string {
		var pdu ngapType.NGAPPDU
		parseVal(reflect.ValueOf(&pdu).Elem(), &tokStream{toks: a})
		b, err := ngap.Encoder(pdu)
		return okHex(b, err)
	})
	registerOp("aperdec", func(a []string) string {
		t := typeByName(a[0])
		p := reflect.New(t)
		b := aHex(a[2])
		err := measured(len(b), func() error { return aper.UnmarshalWithParams(b, p.Interface(), paramArg(a[1])) })
		if err != nil {
			return "err"
		}
		return "ok " + valTokens(p.Elem())
	})
	registerOp("ngapdec", func(a []string) string {
		b := aHex(a[0])
		var pdu *ngapType.NGAPPDU
		err := measured(len(b), func() (e error) { pdu, e = ngap.Decoder(b); return })
		if err != nil {
			return "err"
		}
		// the decoded PDU must not point into the octets it was decoded from (the procedures reuse their receive buffer)
		retainDetached(func() string { return valTokens(reflect.ValueOf(pdu).Elem()) })
		return "ok " + valTokens(reflect.ValueOf(pdu).Elem())
	})
	registerOp("aperrt", func(a []string) string {
		t := typeByName(a[0])
		v := reflect.New(t).Elem()
		parseVal(v, &tokStream{toks: a[2:]})
		want := strings.Join(a[2:], " ")
		b, err := aper.MarshalWithParams(v.Interface(), paramArg(a[1]))
		if err != nil {
			return "err"
		}
		p := reflect.New(t)
		if err := aper.UnmarshalWithParams(b, p.Interface(), paramArg(a[1])); err != nil {
			return "decerr " + hx(b)
		}
		got := valTokens(p.Elem())
		if got == want {
			return "ok " + hx(b) + " same"
		}
		return "ok " + hx(b) + " diff " + got
	})
	registerOp("aperre", func(a []string) string {
		t := typeByName(a[0])
		p := reflect.New(t)
		b := aHex(a[2])
		if err := aper.UnmarshalWithParams(b, p.Interface(), paramArg(a[1])); err != nil {
			return "err"
		}
		b2, err := aper.MarshalWithParams(p.Elem().Interface(), paramArg(a[1]))
		if err != nil {
			return "encerr"
		}
		same := hex.EncodeToString(b) == hex.EncodeToString(b2)
		if a[0] == "NGAPPDU" {
			// a decoded PDU (every field sits inside an open type, which the decoder copies) must not point into its input
			retainDetached(func() string { return valTokens(p.Elem()) })
		}
		if same {
			return "ok same"
		}
		return "ok diff " + hx(b2)
	})
}

// measured records the worst wall time and allocation of a decode call (C14: bounded time and memory).
var statMaxNs, statMaxAlloc, statMaxAllocInput, statMaxNsInput int64

// cumulative allocation per input octet, over inputs longer than 4 KiB (the linear clause of C14's memory bound)
var statMaxAllocPerOctet, statMaxAllocPerOctetInput int64
var statMaxNsPerOctet, statMaxNsPerOctetInput int64

func measured(inputLen int, f func() error) error {
	var m0, m1 runtime.MemStats
	runtime.ReadMemStats(&m0)
	t0 := time.Now()
	err := f()
	d := time.Since(t0).Nanoseconds()
	runtime.ReadMemStats(&m1)
	alloc := int64(m1.TotalAlloc - m0.TotalAlloc)
	// wall time: absolute for inputs of at most 4 KiB, per octet for longer ones (a message of 65 535 IEs takes its time honestly)
	if inputLen <= 4096 {
		if d > statMaxNs {
			statMaxNs, statMaxNsInput = d, int64(inputLen)
		}
	} else if r := d / int64(inputLen); r > statMaxNsPerOctet {
		statMaxNsPerOctet, statMaxNsPerOctetInput = r, int64(inputLen)
	}
	// TotalAlloc is CUMULATIVE allocation (garbage included), an upper bound of the memory in use. For a short input it must stay
	// small whatever the counts and lengths inside claim (decode_max_alloc_bytes, inputs of at most 4 KiB); for a long input it
	// may grow with the input, linearly (decode_max_alloc_per_octet): a message that really holds 16 384 IEs is decoded IE by IE
	// with a few KiB of short-lived allocations each, while the heap does not grow.
	if inputLen <= 4096 {
		if alloc > statMaxAlloc {
			statMaxAlloc, statMaxAllocInput = alloc, int64(inputLen)
		}
	} else if r := alloc / int64(inputLen); r > statMaxAllocPerOctet {
		statMaxAllocPerOctet, statMaxAllocPerOctetInput = r, int64(inputLen)
	}
	return err
}

func init() {
	statFns = append(statFns, func() []string {
		if statMaxNs == 0 && statMaxAlloc == 0 {
			return nil
		}
		return []string{
			"decode_max_ns " + i(statMaxNs) + " input_len " + i(statMaxNsInput),
			"decode_max_alloc_bytes " + i(statMaxAlloc) + " input_len " + i(statMaxAllocInput),
			"decode_max_alloc_per_octet " + i(statMaxAllocPerOctet) + " input_len " + i(statMaxAllocPerOctetInput),
			"decode_max_ns_per_octet " + i(statMaxNsPerOctet) + " input_len " + i(statMaxNsPerOctetInput),
		}
	})
}

const ngapTop = "valueExt,valueLB:0,valueUB:2"

// transfer containers and other types marshalled on their own (aper.MarshalWithParams(x, "valueExt"))
func standaloneTypes() []string {
	var out []string
	for n := range ngapTypes {
		if strings.HasSuffix(n, "Transfer") || strings.HasSuffix(n, "TransparentContainer") {
			out = append(out, n)
		}
	}
	sort.Strings(out)
	return out
}

func leafTypes() []string {
	var out []string
	for n, t := range ngapTypes {
		if t.NumField() == 1 && t.Field(0).Name == "Value" {
			out = append(out, n)
		}
	}
	sort.Strings(out)
	return out
}

// allTypeNames: every type that is meaningful as a stand-alone value; the value sets of open types
// (structs whose alternatives carry referenceFieldValue) only ever occur behind their governing field.
func allTypeNames() []string {
	var out []string
	for n, t := range ngapTypes {
		openSet := false
		if isChoiceType(t) {
			for i := 1; i < t.NumField(); i++ {
				if strings.Contains(t.Field(i).Tag.Get("aper"), "referenceFieldValue") {
					openSet = true
				}
			}
			if t.NumField() <= 2 {
				openSet = true // a value set with one or no alternative: never a CHOICE of its own
			}
		}
		if openSet {
			continue
		}
		out = append(out, n)
	}
	sort.Strings(out)
	return out
}

// genPDU builds a random NGAPPDU whose message is the k-th alternative of the chosen outcome class.
func genValue(g *vgen, name string) reflect.Value {
	t := typeByName(name)
	v := reflect.New(t).Elem()
	top := tagsFor(name)
	g.budget = 600
	g.fill(v, top)
	return v
}

// genLong builds a value of the type that contains one string of a fragmented length (16K items or more, or the
// boundary 16383), if the type has a string whose length is a general length; ok reports whether it does.
func genLong(g *vgen, name string) (v reflect.Value, ok bool) {
	for try := 0; try < 40; try++ {
		g.longLeft = 1
		v = genValue(g, name)
		if g.longLeft == 0 {
			return v, true
		}
	}
	g.longLeft = 0
	return v, false
}

func aperEncDomain(e *emitter, roundTrip bool) {
	g := newVgen(e.rng)
	g.cleanBits = roundTrip
	transfers := standaloneTypes()
	leaves := leafTypes()
	all := allTypeNames()
	emit := func(name string, v reflect.Value, rt bool) {
		params := paramTok(topParamString(name))
		args := append([]string{name, params}, strings.Fields(valTokens(v))...)
		_ = rt
		if roundTrip {
			e.op("aperrt", args...)
		} else {
			e.op("aperenc", args...)
		}
	}
	// 1. every leaf wrapper type (all INTEGER / ENUMERATED / string leaf constraints), several values each
	for _, n := range leaves {
		for k := 0; k < 6; k++ {
			emit(n, genValue(g, n), k%2 == 0)
		}
		// 1a. fragmented lengths: every leaf string type whose length is a general length, at one of the lengths
		// around the 16K / 64K boundaries (the lengths rotate, so the leaf types together cover all of them)
		if v, ok := genLong(g, n); ok {
			emit(n, v, false)
		}
		if !roundTrip {
			g.invalid = true
			emit(n, genValue(g, n), false)
			g.invalid = false
		}
	}
	// 1b. constraint sweep: every aper tag of every struct type at its boundaries. For each field that carries a size or
	// value constraint: the bounds themselves, one below the lower bound and one above the upper bound (refused unless the
	// constraint is extensible); for each OPTIONAL field: present and absent; for each CHOICE: every alternative.
	// The other fields of the value are random and small. One value of the containing type per (field, mode).
	for _, n := range all {
		t := typeByName(n)
		if t.Kind() != reflect.Struct || !g.canEncode(t) {
			continue
		}
		if isChoiceType(t) {
			for alt := 1; alt < t.NumField(); alt++ {
				if !g.canEncode(t.Field(alt).Type) {
					continue
				}
				v := reflect.New(t).Elem()
				g.budget = 200
				g.depth = 0
				g.fillChoice(v, tagsFor(n), alt)
				emit(n, v, false)
			}
			continue
		}
		for i := 0; i < t.NumField(); i++ {
			fp := tags.Parse(t.Field(i).Tag.Get("aper"))
			var modes []string
			if fp.SizeLB != nil || fp.SizeUB != nil {
				modes = append(modes, "size-lb", "size-below")
				if fp.SizeUB != nil && *fp.SizeUB < 16384 {
					modes = append(modes, "size-ub", "size-above")
				}
			}
			if fp.ValueLB != nil || fp.ValueUB != nil {
				modes = append(modes, "val-lb", "val-ub", "val-below", "val-above")
			}
			if fp.Optional {
				modes = append(modes, "present", "absent")
			}
			for _, m := range modes {
				if roundTrip && (m == "size-below" || m == "size-above" || m == "val-below" || m == "val-above") {
					continue
				}
				g.forceType, g.forceField, g.forceMode = t, i, m
				g.pending, g.injected = "", ""
				v := genValue(g, n)
				g.forceType, g.pending = nil, ""
				emit(n, v, false)
			}
		}
	}
	// 1c. fragmented open types: PDUs that carry one long string (e.g. a NAS-PDU of 16K octets or more inside an IE, so
	// that the IE value and the message, both open types, are fragmented as well)
	nLong := 3
	if e.thorough() {
		nLong = 40
	}
	for i := 0; i < nLong; i++ {
		if v, ok := genLong(g, "NGAPPDU"); ok {
			if !roundTrip && i%2 == 0 {
				e.op("ngapenc", strings.Fields(valTokens(v))...)
			} else {
				emit("NGAPPDU", v, false)
			}
		}
	}
	// 1d. an OPEN TYPE whose own content is an exact multiple of 64K octets (the boundary of its fragmentation loop is the
	// total of the inner encoding, not the length of the string inside): DOWNLINK NAS TRANSPORT with NAS-PDUs of 65533 /
	// 131068 octets makes the NAS-PDU IE value 65536 / 131072 octets; neighbours on both sides
	if !roundTrip || e.thorough() {
		// … and strings of three and more length pieces (a 64K fragment, a 16K fragment and a rest; six 16K fragments)
		lens := []int{65532, 65533, 65534, 81920, 81921, 98305}
		if e.thorough() {
			lens = []int{65529, 65530, 65531, 65532, 65533, 65534, 65535, 81919, 81920, 81921, 98304, 98305, 131066, 131067, 131068, 131069, 131070, 147457}
		}
		for _, n := range lens {
			pdu := dlNasTransportPdu(n)
			if roundTrip {
				emit("NGAPPDU", reflect.ValueOf(pdu), false)
			} else {
				e.op("ngapenc", strings.Fields(valTokens(reflect.ValueOf(pdu)))...)
			}
		}
	}
	// 1f. general length determinants at their form boundaries: DOWNLINK NAS TRANSPORT with every NAS-PDU length of a
	// contiguous range, so that each nesting level (the OCTET STRING, the IE value, the message value — all general lengths)
	// passes through exactly 127 / 128 (one octet → two octets) and 16383 / 16384 (two octets → fragments) at some length
	{
		var lens []int
		for n := 88; n <= 135; n++ {
			lens = append(lens, n)
		}
		for n := 16352; n <= 16388; n++ {
			if e.thorough() || n%2 == 0 || n >= 16380 {
				lens = append(lens, n)
			}
		}
		for _, n := range lens {
			pdu := dlNasTransportPdu(n)
			if roundTrip || n%3 == 0 {
				emit("NGAPPDU", reflect.ValueOf(pdu), false)
			} else {
				e.op("ngapenc", strings.Fields(valTokens(reflect.ValueOf(pdu)))...)
			}
		}
	}
	// 1e. long lists (see manyIEs)
	{
		counts := []int{4098, 16384}
		if e.thorough() {
			counts = []int{256, 4096, 4097, 4098, 9000, 16383, 16384, 16385, 30000, 65535}
		}
		for _, n := range counts {
			emit("NGAPPDU", reflect.ValueOf(manyIEs(n)), false)
		}
	}
	// 2. random PDUs, transfers and arbitrary types
	for i := 0; i < e.n; i++ {
		var name string
		switch r := e.rng.Intn(10); {
		case r < 6:
			name = "NGAPPDU"
		case r < 8:
			name = transfers[e.rng.Intn(len(transfers))]
		default:
			name = all[e.rng.Intn(len(all))]
		}
		if !g.canEncode(typeByName(name)) {
			continue
		}
		g.invalid = !roundTrip && e.rng.Intn(8) == 0
		g.injected = ""
		v := genValue(g, name)
		g.invalid = false
		if name == "NGAPPDU" && !roundTrip && e.rng.Intn(3) == 0 {
			e.op("ngapenc", strings.Fields(valTokens(v))...)
		}
		if roundTrip {
			// the library's own encoding must decode and re-encode to itself
			if b, err := safeMarshal(v, topParamString(name)); err == nil && len(b) > 0 {
				e.op("aperre", name, paramTok(topParamString(name)), hx(b))
			}
		}
		emit(name, v, e.rng.Intn(2) == 0)
	}
	// 3. synthetic schemas: the parts of the codec that no NGAP type uses (apersyn.go)
	g.longMax = 32768
	if e.thorough() {
		g.longMax = 0
	}
	aperSynEnc(e, g, roundTrip)
}

// ---- structural mutations of an NGAP PDU ------------------------------------------------------------------------------------
//
// Layout of every NGAP PDU in ALIGNED PER: choice octet, procedure code, criticality octet, length L of the message value (an
// open type), then the value: one octet holding the extension bit of the message SEQUENCE, the IE count (2 octets), and per IE:
// id (2 octets), criticality octet, length of the IE value (an open type), the value.
type ngapIE struct{ off, lenOff, lenSize, l, valOff int }

func perLen(b []byte, off int) (n, size int, ok bool) {
	if off >= len(b) {
		return 0, 0, false
	}
	if b[off]&0x80 == 0 {
		return int(b[off]), 1, true
	}
	if b[off]&0x40 == 0 && off+1 < len(b) {
		return int(b[off]&0x3f)<<8 | int(b[off+1]), 2, true
	}
	return 0, 0, false // fragmented
}

func perLenEnc(n int) []byte {
	if n < 128 {
		return []byte{byte(n)}
	}
	return []byte{0x80 | byte(n>>8), byte(n)}
}

func ngapWalk(b []byte) (L, lSize, count int, ies []ngapIE, ok bool) {
	L, lSize, ok = perLen(b, 3)
	if !ok || 3+lSize+L != len(b) || L < 3 {
		return 0, 0, 0, nil, false
	}
	v := 3 + lSize
	count = int(b[v+1])<<8 | int(b[v+2])
	off := v + 3
	for k := 0; k < count; k++ {
		if off+3 >= len(b) {
			return 0, 0, 0, nil, false
		}
		l, ls, ok2 := perLen(b, off+3)
		if !ok2 || off+3+ls+l > len(b) {
			return 0, 0, 0, nil, false
		}
		ies = append(ies, ngapIE{off, off + 3, ls, l, off + 3 + ls})
		off += 3 + ls + l
	}
	return L, lSize, count, ies, off == len(b)
}

// ngapAssemble rebuilds a PDU from its three header octets, an IE count and the IEs' octets
func ngapAssemble(hdr []byte, ext byte, count int, ies [][]byte, trail []byte) []byte {
	val := []byte{ext, byte(count >> 8), byte(count)}
	for _, ie := range ies {
		val = append(val, ie...)
	}
	if len(val) >= 16384 {
		return nil
	}
	out := append(append([]byte{}, hdr...), perLenEnc(len(val))...)
	return append(append(out, val...), trail...)
}

// ngapLies: variants of a well-formed PDU in which one thing is untrue while the message length, and (where they are kept) the
// IE lengths, stay consistent with the octets present — what a whole-message truncation or a flipped bit does not produce:
//   an IE value cut short with its own length and the message length adjusted (the component inside now needs more octets than
//   its open type holds); the same with the cut octets left BEHIND the message in the datagram (a reader that runs past the end
//   of the open type finds them); an IE count above / below the IEs present; one more IE of an id the message's table does
//   not have (a later release of the protocol), criticality ignore.
func ngapLies(e *emitter, b []byte) (out [][]byte) {
	_, lSize, count, ies, ok := ngapWalk(b)
	if !ok || count == 0 {
		return nil
	}
	hdr, ext := b[:3], b[3+lSize]
	raw := func() [][]byte {
		var r [][]byte
		for _, ie := range ies {
			r = append(r, append([]byte{}, b[ie.off:ie.valOff+ie.l]...))
		}
		return r
	}
	add := func(c []byte) {
		if c != nil {
			out = append(out, c)
		}
	}
	k := e.rng.Intn(count)
	ie := ies[k]
	if ie.l > 0 {
		for _, nl := range []int{0, ie.l / 2, ie.l - 1} {
			if nl >= ie.l {
				continue
			}
			r := raw()
			r[k] = append(append(append([]byte{}, b[ie.off:ie.off+3]...), perLenEnc(nl)...), b[ie.valOff:ie.valOff+nl]...)
			add(ngapAssemble(hdr, ext, count, r, nil))
			if k == count-1 {
				add(ngapAssemble(hdr, ext, count, r, b[ie.valOff+nl:ie.valOff+ie.l])) // the cut octets follow the message
			}
		}
	}
	add(ngapAssemble(hdr, ext, count+1, raw(), nil))
	add(ngapAssemble(hdr, ext, count+2, raw(), nil))
	if count > 1 {
		add(ngapAssemble(hdr, ext, count-1, raw(), nil))
	}
	for _, id := range []int{110, 0xfffe} {
		val := []byte{0x18, 0x00, 0x8b, 0x00, 0x01, 0x02}
		unk := append([]byte{byte(id >> 8), byte(id), 0x40}, append(perLenEnc(len(val)), val...)...)
		add(ngapAssemble(hdr, ext, count+1, append(raw(), unk), nil))
		// in front of the others as well
		add(ngapAssemble(hdr, ext, count+1, append([][]byte{unk}, raw()...), nil))
	}
	return out
}

// dlNasTransportPdu: DOWNLINK NAS TRANSPORT (AMF-UE-NGAP-ID 1, RAN-UE-NGAP-ID 1) with a NAS-PDU of n octets
func dlNasTransportPdu(n int) ngapType.NGAPPDU {
	pdu := ngapType.NGAPPDU{Present: ngapType.NGAPPDUPresentInitiatingMessage}
	im := &ngapType.InitiatingMessage{}
	im.ProcedureCode.Value = ngapType.ProcedureCodeDownlinkNASTransport
	im.Criticality.Value = ngapType.CriticalityPresentIgnore
	im.Value.Present = ngapType.InitiatingMessagePresentDownlinkNASTransport
	m := &ngapType.DownlinkNASTransport{}
	add := func(id int64, f func(ie *ngapType.DownlinkNASTransportIEs)) {
		ie := ngapType.DownlinkNASTransportIEs{}
		ie.Id.Value = id
		ie.Criticality.Value = ngapType.CriticalityPresentReject
		f(&ie)
		m.ProtocolIEs.List = append(m.ProtocolIEs.List, ie)
	}
	add(ngapType.ProtocolIEIDAMFUENGAPID, func(ie *ngapType.DownlinkNASTransportIEs) {
		ie.Value.Present = ngapType.DownlinkNASTransportIEsPresentAMFUENGAPID
		ie.Value.AMFUENGAPID = &ngapType.AMFUENGAPID{Value: 1}
	})
	add(ngapType.ProtocolIEIDRANUENGAPID, func(ie *ngapType.DownlinkNASTransportIEs) {
		ie.Value.Present = ngapType.DownlinkNASTransportIEsPresentRANUENGAPID
		ie.Value.RANUENGAPID = &ngapType.RANUENGAPID{Value: 1}
	})
	add(ngapType.ProtocolIEIDNASPDU, func(ie *ngapType.DownlinkNASTransportIEs) {
		ie.Value.Present = ngapType.DownlinkNASTransportIEsPresentNASPDU
		// content that differs by position (a copy taken from the wrong offset shows)
		b := make([]byte, n)
		for i := range b {
			b[i] = byte(i*7 + i>>8 + i>>16)
		}
		ie.Value.NASPDU = &ngapType.NASPDU{Value: b}
	})
	im.Value.DownlinkNASTransport = m
	pdu.InitiatingMessage = im
	return pdu
}

func safeMarshal(v reflect.Value, params string) (b []byte, err error) {
	defer func() {
		if r := recover(); r != nil {
			err = errPanic
		}
	}()
	// marshal a copy: the encoder masks BIT STRING octets in place
	return aper.MarshalWithParams(v.Interface(), params)
}

// manyIEs: an NG SETUP REQUEST with n Default Paging DRX IEs (3-octet values; the codec does not look at duplicates)
func manyIEs(n int) ngapType.NGAPPDU {
	pdu := ngapType.NGAPPDU{Present: ngapType.NGAPPDUPresentInitiatingMessage}
	im := &ngapType.InitiatingMessage{}
	im.ProcedureCode.Value = ngapType.ProcedureCodeNGSetup
	im.Criticality.Value = ngapType.CriticalityPresentReject
	im.Value.Present = ngapType.InitiatingMessagePresentNGSetupRequest
	m := &ngapType.NGSetupRequest{}
	for i := 0; i < n; i++ {
		ie := ngapType.NGSetupRequestIEs{}
		ie.Id.Value = ngapType.ProtocolIEIDDefaultPagingDRX
		ie.Criticality.Value = ngapType.CriticalityPresentIgnore
		ie.Value.Present = ngapType.NGSetupRequestIEsPresentDefaultPagingDRX
		ie.Value.DefaultPagingDRX = &ngapType.PagingDRX{Value: aper.Enumerated(i % 4)}
		m.ProtocolIEs.List = append(m.ProtocolIEs.List, ie)
	}
	im.Value.NGSetupRequest = m
	pdu.InitiatingMessage = im
	return pdu
}

func aperDecDomain(e *emitter) {
	g := newVgen(e.rng)
	transfers := standaloneTypes()
	dec := func(name string, b []byte) {
		if name == "NGAPPDU" && e.rng.Intn(2) == 0 {
			e.op("ngapdec", hx(b))
			return
		}
		e.op("aperdec", name, paramTok(topParamString(name)), hx(b))
	}
	// long lists that are really there: an NG SETUP REQUEST whose ProtocolIE container (SIZE(0..65535)) holds thousands of
	// (small) IEs; counts around 4096 and well above (growth strategies of the element slice, 12-bit counters)
	{
		counts := []int{4097, 4098, 5000, 16384}
		if e.thorough() {
			counts = []int{255, 256, 257, 1024, 2048, 4095, 4096, 4097, 4098, 5000, 9000, 16383, 16384, 16385, 20000, 65535}
		}
		for _, n := range counts {
			if b, err := ngap.Encoder(manyIEs(n)); err == nil {
				e.op("ngapdec", hx(b))
				e.op("ngapdec", hx(b[:len(b)-2])) // the last IE cut short
			}
		}
	}
	// fragmented lengths: a few inputs whose encoding holds a string of 16K items or more (quick tier: up to 32K, the
	// prefixes and corruptions of each make some thirty inputs of that size)
	g.longMax = 32768
	nLong := 1
	if e.thorough() {
		g.longMax = 0
		nLong = 12
	}
	for i := 0; i < e.n; i++ {
		name := "NGAPPDU"
		if e.rng.Intn(5) == 0 {
			name = transfers[e.rng.Intn(len(transfers))]
		}
		v := genValue(g, name)
		if i < nLong {
			if lv, ok := genLong(g, "NGAPPDU"); ok {
				name, v = "NGAPPDU", lv
			}
		}
		b, err := safeMarshal(v, topParamString(name))
		if err != nil || len(b) == 0 {
			continue
		}
		dec(name, b)
		// prefixes
		step := 1
		if len(b) > 40 {
			step = len(b) / 20
		}
		for k := 0; k < len(b); k += step {
			dec(name, b[:k])
		}
		// single bit flips and byte corruptions, adversarial length / count octets
		for k := 0; k < 12; k++ {
			c := append([]byte{}, b...)
			pos := e.rng.Intn(len(c))
			switch e.rng.Intn(5) {
			case 0:
				c[pos] ^= 1 << uint(e.rng.Intn(8))
			case 1:
				c[pos] = byte(e.rng.Intn(256))
			case 2:
				c[pos] = 0xff
			case 3:
				c[pos] = 0x00
			case 4:
				c[pos] = []byte{0x80, 0xc1, 0xc4, 0x7f, 0xbf}[e.rng.Intn(5)]
			}
			dec(name, c)
		}
		// appended garbage
		if e.rng.Intn(4) == 0 {
			dec(name, append(append([]byte{}, b...), e.bytes(1+e.rng.Intn(4))...))
		}
		// structural lies that keep every OUTER length consistent (see ngapLies)
		if name == "NGAPPDU" {
			for _, c := range ngapLies(e, b) {
				dec(name, c)
			}
		}
	}
	// head sweep of leaf types: every value of the first octet (extension bit, large-form bit of an extension index, first bits of
	// a length or value) in front of four tails — a zero length, a length of one, the fragment marker, all ones. Three
	// extensible ENUMERATED types always, ten more leaf types rotating with the seed (thorough: every leaf type).
	{
		leaves := leafTypes()
		pick := []string{}
		for _, n := range []string{"PagingDRX", "CauseRadioNetwork", "RRCEstablishmentCause"} {
			for _, l := range leaves {
				if l == n {
					pick = append(pick, n)
				}
			}
		}
		if e.thorough() {
			pick = leaves
		} else if len(leaves) > 0 {
			for k := 0; k < 10; k++ {
				pick = append(pick, leaves[(int(e.seed)*10+k*7)%len(leaves)])
			}
		}
		tails := [][]byte{{0, 0, 0, 0}, {1, 0, 0, 0}, {0x80, 0, 0, 0}, {0xff, 0xff, 0xff, 0xff}}
		for _, n := range pick {
			for b0 := 0; b0 < 256; b0++ {
				for _, t := range tails {
					e.op("aperdec", n, paramTok(topParamString(n)), hx(append([]byte{byte(b0)}, t...)))
				}
			}
		}
	}
	// PRIVATE MESSAGE (procedure code 31): the one place of the schema with an OBJECT IDENTIFIER (the global alternative of
	// PrivateIE-ID); no value of it can be generated by encoding, so its inputs are written out: local and global ids, object
	// identifiers of 0..4 contents octets, whole and cut short
	for _, idb := range []byte{0x00, 0x40, 0x80, 0xc0} {
		for oidLen := 0; oidLen <= 4; oidLen++ {
			ie := append([]byte{idb, byte(oidLen)}, []byte{0x2a, 0x03, 0x04, 0x05}[:oidLen]...)
			ie = append(ie, 0x00, 0x01, 0x00)
			body := append([]byte{0x00, 0x00, 0x01}, ie...)
			msg := append([]byte{0x00, 0x1f, 0x40, byte(len(body))}, body...)
			e.op("ngapdec", hx(msg))
			e.op("ngapdec", hx(msg[:len(msg)-3]))
			e.op("ngapdec", hx(append([]byte{0x00, 0x1f, 0x40, byte(len(body) - 3)}, body[:len(body)-3]...)))
		}
	}
	// random strings
	for i := 0; i < e.n/2; i++ {
		b := e.bytes(e.rng.Intn(64))
		if len(b) > 2 && e.rng.Intn(2) == 0 {
			b[0] = []byte{0x00, 0x20, 0x40}[e.rng.Intn(3)]
			b[2] = 0x00
		}
		dec("NGAPPDU", b)
	}
	// synthetic schemas: the parts of the decoder that no NGAP type uses (apersyn.go)
	aperSynDec(e, g)
}
