// Command corr runs the real implementation (built from /repo's working tree) on generated
// operations and prints one line per operation:   <op> <args...> \t <canonical result>
// The same op text is fed to the Lean driver; the check diffs the result columns.
//
//	corr <domain> [-n N] [-seed S] [-tier quick|thorough]
//
// Results are canonical: "ok <hex>" | "err" | "panic" | "hang"; "-" is the empty byte string.
package main

import (
	"bufio"
	"encoding/hex"
	"flag"
	"fmt"
	"math/rand"
	"os"
	"sort"
	"strings"
	"time"
)

type domainFn func(e *emitter)

var domains = map[string]domainFn{}

func register(name string, f domainFn) { domains[name] = f }

type emitter struct {
	w         *bufio.Writer
	rng       *rand.Rand
	n         int
	tier      string
	seed      int64
	sample    []sampled
	seen      int
	replaying bool
	soaking   bool
}

func hx(b []byte) string {
	if len(b) == 0 {
		return "-"
	}
	return hex.EncodeToString(b)
}

// opFn executes one operation on the real implementation; args are the space separated tokens
// after the op name. It returns the canonical result text.
type opFn func(args []string) string

var ops = map[string]opFn{}

func registerOp(name string, f opFn) { ops[name] = f }

// op formats the line, runs the registered executor under guard and writes "line \t result".
// Generators and replays share this single path.
func (e *emitter) op(name string, args ...string) string {
	f, ok := ops[name]
	if !ok {
		panic("corr: unregistered op " + name)
	}
	curOpName = name
	keptCur = nil
	constArgs = nil
	retainedPtr = map[*byte]bool{}
	// the op line goes out BEFORE the op runs: if the implementation ends the process (os.Exit in a library, a fatal runtime
	// error) the last, unfinished line names the op that did it
	if !e.soaking {
		fmt.Fprintf(e.w, "%s %s\t", name, strings.Join(args, " "))
		e.w.Flush()
	}
	// the watchdog: the op's limit plus one second per 64 K characters of arguments (a round trip of a message of 65 535 IEs is
	// megabytes of value tokens: seconds of honest work on a loaded machine)
	argLen := 0
	for _, a := range args {
		argLen += len(a)
	}
	res := guardT(opLimit(name)+time.Duration(argLen/65536)*time.Second, func() string { return f(args) })
	// input-only arguments must not have been written to by the implementation
	if res != "hang" {
		for _, c := range constArgs {
			if hx(c.b) != c.snap {
				res += " ARGMUT:" + name
				break
			}
		}
		// results registered with retainDetached must not share storage with the op's input buffers: the caller's receive
		// buffer is reused for the next message. All input buffers of this op are overwritten, then the results are read again.
		detached := false
		for _, k := range keptCur {
			detached = detached || k.detached
		}
		if detached {
			for _, b := range inputBufs {
				full := b[:cap(b)]
				for i := range full {
					full[i] = 0xee
				}
			}
			for _, k := range keptCur {
				if k.detached && guardT(2*time.Second, k.live) != k.snap {
					res += " ALIASED:input-of-" + name
					break
				}
			}
		}
	}
	inputBufs = nil
	// what the PREVIOUS op handed out must still be what it was (no package-level buffer, no shared backing array)
	if res != "hang" {
		for i, k := range keptPrev {
			now := guardT(2*time.Second, k.live)
			if now != k.snap {
				res += " ALIASED:" + k.op
				keptPrev = append(keptPrev[:i:i], keptPrev[i+1:]...) // reported once
				break
			}
		}
		// one result in five also stays under watch for the whole run (see soak): storage recycled after thousands of calls
		if !e.soaking {
			for _, k := range keptCur {
				longSeen++
				if longSeen%5 == 0 && len(keptLong) < 2048 {
					keptLong = append(keptLong, k)
				}
			}
		}
		// results of the last few ops stay under watch (the call that reuses the storage may come several ops later)
		keptPrev = append(keptPrev, keptCur...)
		if len(keptPrev) > keepWindow {
			keptPrev = keptPrev[len(keptPrev)-keepWindow:]
		}
		keptCur = nil
	} else {
		keptPrev, keptCur = nil, nil
	}
	fmt.Fprintf(e.w, "%s\n", res)
	// a sample of the ops is executed a second time at the end of the run, in reverse order (see replaySample)
	if !e.replaying && res != "hang" {
		if opLimit(name) <= time.Minute { // the process-level scenarios (limits of minutes) are not repeated
			e.seen++
			if len(e.sample) < 400 && (e.seen%17 == 3 || e.seen < 8) {
				e.sample = append(e.sample, sampled{name, append([]string{}, args...), res})
			}
		}
	}
	return res
}

// soak: results handed out early in the run must survive MANY later calls (a ring of a few thousand slots, a pool that grows
// and recycles). The sampled ops are executed again and again without output — for at most 4 s, 200 rounds or 60 000 calls — and
// then the results kept for the long term (keptLong, one in five of all retained results, at most 2048) are read again,
// by putting them under the watch of one last repeated op: a change is reported on that line as ALIASED:<op that handed it out>.
func (e *emitter) soak() {
	if len(e.sample) == 0 || len(keptLong) == 0 {
		return
	}
	e.soaking = true
	t0 := time.Now()
	calls := 0
	// ops that returned the first time are called directly (no watchdog goroutine); the long ones are left out
	var quickOps []sampled
	for _, sm := range e.sample {
		n := 0
		for _, a := range sm.args {
			n += len(a)
		}
		if n <= 2048 && sm.res != "hang" {
			quickOps = append(quickOps, sm)
		}
	}
	call := func(sm sampled) {
		defer func() { recover() }()
		ops[sm.name](sm.args)
	}
	for round := 0; round < 200 && time.Since(t0) < 4*time.Second && calls < 60000; round++ {
		for _, sm := range quickOps {
			curOpName = sm.name
			keptCur, constArgs = nil, nil
			call(sm)
			inputBufs = nil
			calls++
		}
	}
	if os.Getenv("VERIF_SOAK_DEBUG") != "" {
		os.WriteFile("/tmp/lead/soak.dbg", []byte(fmt.Sprintf("soak: sample=%d keptLong=%d calls=%d wall=%v\n", len(e.sample), len(keptLong), calls, time.Since(t0))), 0o644)
	}
	keptCur = nil
	keptPrev = append(keptLong, keptPrev...)
	keptLong = nil
	e.soaking = false
	e.replaying = true
	// every changed long-term result is reported (one per repeated op line)
	for i := 0; i < len(e.sample) && i < 8; i++ {
		e.op(e.sample[i].name, e.sample[i].args...)
	}
	e.replaying = false
}

var (
	keptLong []kept
	longSeen int
)

type sampled struct {
	name string
	args []string
	res  string
}

// replaySample: every op line is self-contained, so executing it again — later, after many other calls, in another order —
// must give the same result. A result that depends on what ran before (a cache keyed too narrowly, a table built on first
// use, a counter that is not reset) shows up as a second line for the same op with a different result, which then
// disagrees with the model. Ops with a time limit of their own (process-level scenarios) are not repeated.
func (e *emitter) replaySample() {
	e.replaying = true
	for i := len(e.sample) - 1; i >= 0; i-- {
		sm := e.sample[i]
		e.op(sm.name, sm.args...)
	}
	e.replaying = false
}

// Retention. An op may register the live objects it obtained from the implementation (byte slices, structures) with a
// closure that serialises them again; after each of the next few ops (keepWindow results stay under watch) the closure must still give the same text. A result that
// changed was aliasing storage the implementation reuses between calls: the next op's line is marked "ALIASED:<op>".
type kept struct {
	op, snap string
	live     func() string
	detached bool // must not alias the op's input buffers either
}

// inputBufs: the byte-slice arguments created for the current op (args.go aHex)
var inputBufs [][]byte

// retainDetached: as retain, and the object must also be independent of the op's INPUT buffers (a decoded message that
// points into the octets it was decoded from changes when the caller reuses its receive buffer)
func retainDetached(live func() string) {
	keptCur = append(keptCur, kept{curOpName, live(), live, true})
}

var (
	keptPrev, keptCur []kept
	curOpName         string
)

const keepWindow = 64

// constArg registers a slice passed to the implementation as a pure INPUT (key, OP, RAND, …): after the op it must
// still hold what it held (a function that scribbles on its caller's buffer breaks the caller's next use of it).
type constA struct {
	b    []byte
	snap string
}

var constArgs []constA

func constArg(b []byte) []byte {
	constArgs = append(constArgs, constA{b, hx(b)})
	return b
}

func retain(live func() string) {
	keptCur = append(keptCur, kept{curOpName, live(), live, false})
}

// retainBytes registers a byte slice returned by the implementation and returns it
func retainBytes(b []byte) []byte {
	if len(b) > 0 {
		retainedPtr[&b[0]] = true
	}
	retain(func() string { return hx(b) })
	return b
}

// retainedPtr: the slices registered for the retention check during the current op (okHex does not overwrite those)
var retainedPtr = map[*byte]bool{}

// runLines executes op lines read from stdin (replay, corpus, known findings).
func runLines(e *emitter) {
	sc := bufio.NewScanner(os.Stdin)
	sc.Buffer(make([]byte, 1<<20), 1<<26)
	for sc.Scan() {
		line := strings.TrimSpace(sc.Text())
		if i := strings.IndexByte(line, '\t'); i >= 0 {
			line = line[:i]
		}
		if line == "" || strings.HasPrefix(line, "#") {
			continue
		}
		toks := strings.Fields(line)
		if _, ok := ops[toks[0]]; !ok {
			fmt.Fprintf(e.w, "%s\tbad-op\n", line)
			continue
		}
		e.op(toks[0], toks[1:]...)
	}
}

// opLimits: ops that need more than the default 5 s (e.g. scenarios executed in a child process)
var opLimits = map[string]time.Duration{}

func opLimit(name string) time.Duration {
	if d, ok := opLimits[name]; ok {
		return d
	}
	return 5 * time.Second
}

// guard runs f, mapping a Go panic to "panic" and a run longer than the limit to "hang".
func guard(f func() string) (res string) { return guardT(5*time.Second, f) }

func guardT(limit time.Duration, f func() string) (res string) {
	done := make(chan string, 1)
	go func() {
		defer func() {
			if r := recover(); r != nil {
				if _, bad := r.(badArg); bad {
					done <- "bad-op"
				} else {
					done <- "panic"
				}
			}
		}()
		done <- f()
	}()
	select {
	case r := <-done:
		return r
	case <-time.After(limit):
		return "hang"
	}
}

func okHex(b []byte, err error) string {
	if err != nil {
		return "err"
	}
	out := "ok " + hx(b)
	okHexSeq++
	if okHexSeq%2 == 0 && len(b) > 0 && len(b) <= 4096 && !retainedPtr[&b[0]] {
		// what a function hands out is the caller's: every other (short) result is overwritten once it has been recorded — a
		// result that is really storage shared by all callers (one zero octet for every empty encoding, a package-level
		// constant returned by reference) then shows up in somebody else's result
		for i := range b {
			b[i] = 0xa7 ^ byte(i)
		}
		return out
	}
	retainBytes(b) // the implementation's own slice: must still read the same after the next op
	return out
}

var okHexSeq int

// okKeep: "ok <hex>" for a slice obtained from the implementation, registered for the retention check
func okKeep(b []byte) string { return "ok " + hx(retainBytes(b)) }

func (e *emitter) bytes(n int) []byte {
	b := make([]byte, n)
	e.rng.Read(b)
	return b
}

func (e *emitter) thorough() bool { return e.tier == "thorough" }

// statsOut: side-channel measurements ("#stat name value" lines, no tab, ignored by the op parser)
var statFns []func() []string

func statsOut() (out []string) {
	for _, f := range statFns {
		out = append(out, f()...)
	}
	return
}

func main() {
	if len(os.Args) < 2 {
		names := []string{}
		for k := range domains {
			names = append(names, k)
		}
		sort.Strings(names)
		fmt.Fprintln(os.Stderr, "usage: corr <domain> [-n N] [-seed S] [-tier T]; domains:", names)
		os.Exit(2)
	}
	dom := os.Args[1]
	fs := flag.NewFlagSet("corr", flag.ExitOnError)
	n := fs.Int("n", 1000, "number of random cases (domain specific meaning)")
	seed := fs.Int64("seed", 1, "PRNG seed")
	tier := fs.String("tier", "quick", "quick|thorough")
	fs.Parse(os.Args[2:])
	f, ok := domains[dom]
	if dom == "run" {
		f, ok = runLines, true
	}
	if !ok {
		fmt.Fprintf(os.Stderr, "corr: unknown domain %q\n", dom)
		os.Exit(2)
	}
	// the repo's logger packages write to stdout/stderr; keep our protocol on a dup of stdout
	out := os.NewFile(uintptr(dupStdout()), "protocol")
	w := bufio.NewWriterSize(out, 1<<20)
	e := &emitter{w: w, rng: rand.New(rand.NewSource(*seed)), n: *n, tier: *tier, seed: *seed}
	f(e)
	if dom != "run" {
		e.replaySample()
		e.soak()
	}
	for _, st := range statsOut() {
		fmt.Fprintf(w, "#stat %s\n", st)
	}
	w.Flush()
}
