package main

import (
	"fmt"
	"math/rand"
	"reflect"
	"strconv"
	"strings"
	"sync"

	"free5gclib/aper"
	"verifharness/internal/tags"
)

// Synthetic schemas for the reflective APER codec (C03, C04, C14).
//
// The codec (marshal.go / aper.go) and its Lean model are generic in the schema, the theorems about the model quantify
// over every schema that passes a decidable predicate, but the NGAP structs only use part of the codec: no BOOLEAN, no
// unconstrained / semi-constrained / single-value INTEGER, no fixed-size or size-extensible SEQUENCE OF, no string with
// an upper bound of 64K or more, no open type whose reference field is a CHOICE … (measured: see /verif/COVERAGE.md).
// The ops below run the real codec on struct types that are built at run time (reflect.StructOf) from a schema carried
// by the op line itself, so that the line stays a self-contained replay and the Lean driver models the same schema:
//
//	synenc <schema> <type> <params|-> <value tokens…>   → ok <hex> | err | panic     aper.MarshalWithParams
//	syndec <schema> <type> <params|-> <hex>             → ok <value tokens> | err    aper.UnmarshalWithParams
//	synrt  <schema> <type> <params|-> <value tokens…>   → ok <hex> same | ok <hex> diff <tokens> | err | decerr <hex>
//
//	schema := struct ("|" struct)*            struct k is referred to as S<k>; a struct only mentions smaller indices
//	struct := Name "=" [field (";" field)*]
//	field  := Name "~" type "~" tag           tag = the text of the aper:"…" tag (may be empty)
//	type   := i (int64) | e (Enumerated) | b (BitString) | o (OctetString) | s (string) | t (bool) | d (ObjectIdentifier)
//	          | S<k> | "*" type | "[" type    (the type argument of the op is a type, usually S<k>)

type synField struct {
	name, ty, tag string
}

type synStruct struct {
	name   string
	fields []synField
}

type synSchema []synStruct

func (s synSchema) String() string {
	var parts []string
	for _, st := range s {
		var fs []string
		for _, f := range st.fields {
			fs = append(fs, f.name+"~"+f.ty+"~"+f.tag)
		}
		parts = append(parts, st.name+"="+strings.Join(fs, ";"))
	}
	return strings.Join(parts, "|")
}

func parseSynSchema(text string) synSchema {
	var out synSchema
	for _, part := range strings.Split(text, "|") {
		eq := strings.IndexByte(part, '=')
		if eq <= 0 {
			panic(badArg{})
		}
		st := synStruct{name: part[:eq]}
		if body := part[eq+1:]; body != "" {
			for _, f := range strings.Split(body, ";") {
				x := strings.SplitN(f, "~", 3)
				if len(x) != 3 || x[0] == "" || x[1] == "" {
					panic(badArg{})
				}
				st.fields = append(st.fields, synField{x[0], x[1], x[2]})
			}
		}
		out = append(out, st)
	}
	return out
}

type synBuilt struct {
	structs []reflect.Type
}

var (
	synCache   = map[string]*synBuilt{}
	synCacheMu sync.Mutex
)

func (b *synBuilt) typeOf(ty string, below int) reflect.Type {
	switch {
	case ty == "i":
		return reflect.TypeOf(int64(0))
	case ty == "e":
		return aper.EnumeratedType
	case ty == "b":
		return aper.BitStringType
	case ty == "o":
		return aper.OctetStringType
	case ty == "s":
		return reflect.TypeOf("")
	case ty == "t":
		return reflect.TypeOf(false)
	case ty == "d":
		return aper.ObjectIdentifierType
	case ty[0] == '*':
		return reflect.PtrTo(b.typeOf(ty[1:], below))
	case ty[0] == '[':
		return reflect.SliceOf(b.typeOf(ty[1:], below))
	case ty[0] == 'S':
		k, err := strconv.Atoi(ty[1:])
		if err != nil || k < 0 || k >= below {
			panic(badArg{})
		}
		return b.structs[k]
	}
	panic(badArg{})
}

// buildSyn turns the schema text into reflect types (cached: a run uses a schema for many values).
func buildSyn(text string) *synBuilt {
	synCacheMu.Lock()
	defer synCacheMu.Unlock()
	if b, ok := synCache[text]; ok {
		return b
	}
	b := &synBuilt{}
	for k, st := range parseSynSchema(text) {
		var fs []reflect.StructField
		for _, f := range st.fields {
			if f.name[0] < 'A' || f.name[0] > 'Z' {
				panic(badArg{}) // reflect.StructOf has no unexported fields
			}
			tag := reflect.StructTag("")
			if f.tag != "" {
				tag = reflect.StructTag(`aper:"` + f.tag + `"`)
			}
			fs = append(fs, reflect.StructField{Name: f.name, Type: b.typeOf(f.ty, k), Tag: tag})
		}
		b.structs = append(b.structs, reflect.StructOf(fs))
	}
	if len(synCache) > 4096 {
		synCache = map[string]*synBuilt{}
	}
	synCache[text] = b
	return b
}

func synType(schema, ty string) reflect.Type {
	b := buildSyn(schema)
	return b.typeOf(ty, len(b.structs))
}

func init() {
	registerOp("synenc", func(a []string) string {
		if len(a) < 4 {
			panic(badArg{})
		}
		t := synType(a[0], a[1])
		v := reflect.New(t).Elem()
		ts := &tokStream{toks: a[3:]}
		parseVal(v, ts)
		if ts.i != len(ts.toks) {
			panic(badArg{})
		}
		if a[2] == "-" {
			b, err := aper.Marshal(v.Interface()) // the entry point without parameters
			return okHex(b, err)
		}
		b, err := aper.MarshalWithParams(v.Interface(), paramArg(a[2]))
		return okHex(b, err)
	})
	registerOp("syndec", func(a []string) string {
		if len(a) != 4 {
			panic(badArg{})
		}
		t := synType(a[0], a[1])
		p := reflect.New(t)
		b := aHex(a[3])
		err := measured(len(b), func() error {
			if a[2] == "-" {
				return aper.Unmarshal(b, p.Interface()) // the entry point without parameters
			}
			return aper.UnmarshalWithParams(b, p.Interface(), paramArg(a[2]))
		})
		if err != nil {
			return "err"
		}
		return "ok " + valTokens(p.Elem())
	})
	registerOp("synrt", func(a []string) string {
		if len(a) < 4 {
			panic(badArg{})
		}
		t := synType(a[0], a[1])
		v := reflect.New(t).Elem()
		parseVal(v, &tokStream{toks: a[3:]})
		want := strings.Join(a[3:], " ")
		b, err := aper.MarshalWithParams(v.Interface(), paramArg(a[2]))
		if err != nil {
			return "err"
		}
		p := reflect.New(t)
		if err := aper.UnmarshalWithParams(b, p.Interface(), paramArg(a[2])); err != nil {
			return "decerr " + hx(b)
		}
		got := valTokens(p.Elem())
		if got == want {
			return "ok " + hx(b) + " same"
		}
		return "ok " + hx(b) + " diff " + got
	})
}

// ---------------------------------------------------------------------------------------------------------------
// random schemas

type synGen struct {
	rng   *rand.Rand
	s     synSchema
	weird bool // also tags the codec has no sensible meaning for (a CHOICE without an upper bound, an ENUMERATED without bounds, …)
	// no string of fixed size 0: the DECODER traps on every input for such a type (GetBitString with numBits = 0 indexes
	// dstBytes[-1]; in the model). aper-dec belongs to C14, whose judge calls a decoder panic a violation — C14 is about the
	// NGAP schema, which has no such type; the synthetic schemas of aper-dec leave it out, aper-rt decodes it (syndec).
	decSafe bool
	// the schema has a string with a lower bound above 0 and no upper bound: such a schema gets no string of a fragmented
	// length (the library adds the lower bound to every fragment and slices beyond the value — a trap the model does not
	// have; outside strOK' / fragOK and outside every NGAP type; COVERAGE.md section 3)
	lbOnly bool
}

func (g *synGen) pick(xs ...int64) int64 { return xs[g.rng.Intn(len(xs))] }

func tagJoin(parts ...string) string {
	var out []string
	for _, p := range parts {
		if p != "" {
			out = append(out, p)
		}
	}
	return strings.Join(out, ",")
}

// intTag: every class of INTEGER constraint the encoder distinguishes: none (unconstrained), lower bound only
// (semi-constrained), one value, ranges of at most 255, 256, up to 64K, above 64K (1..8 octets), with and without extension
func (g *synGen) intTag() string {
	ext := ""
	if g.rng.Intn(3) == 0 {
		ext = "valueExt"
	}
	lb := g.pick(0, 0, 1, -1, -128, -129, 5, 255, 256, -32768, 65535, 65536, -2147483648, 1<<31, 1<<40, -(1 << 40))
	switch g.rng.Intn(12) {
	case 0:
		return ext // unconstrained (valueLB missing)
	case 1:
		return tagJoin(ext, "valueUB:"+i(lb)) // only an upper bound: treated as unconstrained
	case 2, 3:
		return tagJoin(ext, "valueLB:"+i(lb)) // semi-constrained
	case 4:
		return tagJoin(ext, "valueLB:"+i(lb), "valueUB:"+i(lb)) // one value: nothing is written
	case 5:
		w := g.pick(1, 2, 3, 7, 15, 127, 253, 254) // range ≤ 255
		return tagJoin(ext, "valueLB:"+i(lb), "valueUB:"+i(lb+w))
	case 6:
		return tagJoin(ext, "valueLB:"+i(lb), "valueUB:"+i(lb+255)) // range 256: one aligned octet
	case 7:
		w := g.pick(256, 257, 1000, 65534, 65535) // two aligned octets
		return tagJoin(ext, "valueLB:"+i(lb), "valueUB:"+i(lb+w))
	case 8, 9:
		w := g.pick(65536, 65537, 1<<24-1, 1<<24, 1<<32-1, 1<<32, 1<<40, 1<<48, 1<<56-1, 1<<56, 1<<62)
		if lb > 0 && w >= 1<<62 {
			lb = 0
		}
		return tagJoin(ext, "valueLB:"+i(lb), "valueUB:"+i(lb+w))
	case 10:
		return tagJoin(ext, "valueLB:0", "valueUB:"+i(g.pick(1, 255, 256, 65535, 65536, 4294967295)))
	default:
		return tagJoin(ext, "valueLB:0", "valueUB:"+i(g.pick(1, 2, 7, 8, 63, 64, 127, 128, 255)))
	}
}

func (g *synGen) enumTag() string {
	ext := ""
	if g.rng.Intn(3) == 0 {
		ext = "valueExt"
	}
	switch g.rng.Intn(8) {
	case 0:
		return tagJoin(ext, "valueLB:0", "valueUB:0") // one value
	case 1:
		if g.weird {
			return g.pickS(ext, "valueLB:0", "valueUB:3") // a bound is missing: refused
		}
	case 2:
		return tagJoin(ext, "valueLB:0", "valueUB:"+i(g.pick(255, 256, 300, 65535, 65536)))
	case 3:
		if g.weird {
			return tagJoin(ext, "valueLB:"+i(g.pick(1, 2)), "valueUB:"+i(g.pick(2, 5))) // a lower bound other than 0
		}
	}
	return tagJoin(ext, "valueLB:0", "valueUB:"+i(g.pick(1, 2, 3, 7, 8, 15, 16, 254)))
}

func (g *synGen) pickS(xs ...string) string { return xs[g.rng.Intn(len(xs))] }

// sizeTag: every class of size constraint: none, lower bound only, fixed (short / long), a range (≤ 255, 256, ≤ 64K),
// an upper bound of 64K or more (general length, fragmented when long), each with and without extension
func (g *synGen) sizeTag(forList bool) string {
	ext := ""
	if g.rng.Intn(3) == 0 {
		ext = "sizeExt"
	}
	switch g.rng.Intn(12) {
	case 0:
		return ext
	case 1:
		// (a value shorter than a lower bound without upper bound makes the encoder slice beyond the value: a trap, in the
		// model since this generator found it)
		lb := g.pick(0, 0, 1, 2, 3)
		if lb > 0 && !forList {
			g.lbOnly = true
		}
		return tagJoin(ext, "sizeLB:"+i(lb))
	case 2:
		n := g.pick(1, 2, 3, 8, 16, 17)
		if forList {
			n = g.pick(1, 2, 3)
		}
		return tagJoin(ext, "sizeLB:"+i(n), "sizeUB:"+i(n)) // fixed
	case 3:
		if !forList {
			n := g.pick(24, 25, 32, 64, 150)
			return tagJoin(ext, "sizeLB:"+i(n), "sizeUB:"+i(n)) // fixed, more than two octets
		}
		return tagJoin(ext, "sizeLB:0", "sizeUB:"+i(g.pick(1, 2, 3)))
	case 4:
		// fixed, empty (for a string: putBitString(bytes, 0) at an unaligned position indexes bytes[0] of an empty slice — a
		// trap, in the model since this generator found it)
		if forList || !g.decSafe {
			return tagJoin(ext, "sizeLB:0", "sizeUB:0")
		}
	case 5:
		return tagJoin(ext, "sizeLB:"+i(g.pick(0, 1)), "sizeUB:"+i(g.pick(255, 256, 257)))
	case 6:
		return tagJoin(ext, "sizeLB:"+i(g.pick(0, 1, 2)), "sizeUB:"+i(g.pick(65534, 65535)))
	case 7:
		return tagJoin(ext, "sizeLB:"+i(g.pick(0, 1, 2, 4)), "sizeUB:"+i(g.pick(65536, 65537, 100000, 1<<32))) // 64K or more
	case 8:
		if g.weird {
			return tagJoin(ext, "sizeUB:"+i(g.pick(0, 2, 300, 70000))) // an upper bound without a lower bound
		}
	}
	lb := g.pick(0, 0, 1, 2)
	return tagJoin(ext, "sizeLB:"+i(lb), "sizeUB:"+i(lb+g.pick(1, 2, 3, 6, 14, 30, 100)))
}

var synNames = []string{"A", "B", "C", "D", "E", "F", "G", "H", "K", "L", "M", "N"}

// leaf returns (type, tag) of a random primitive field
func (g *synGen) leaf() (string, string) {
	switch g.rng.Intn(12) {
	case 0, 1, 2:
		return "i", g.intTag()
	case 3:
		return "e", g.enumTag()
	case 4, 5:
		return "b", g.sizeTag(false)
	case 6, 7:
		return "o", g.sizeTag(false)
	case 8:
		return "s", g.sizeTag(false)
	case 9, 10:
		return "t", ""
	default:
		if g.weird {
			return "d", "" // OBJECT IDENTIFIER: refused by both directions
		}
		return "t", ""
	}
}

func (g *synGen) add(st synStruct) string {
	st.name = "T" + strconv.Itoa(len(g.s))
	g.s = append(g.s, st)
	return "S" + strconv.Itoa(len(g.s)-1)
}

// field of any kind; depth bounds the nesting
func (g *synGen) anyField(depth int) (string, string) {
	if depth <= 0 {
		return g.leaf()
	}
	switch g.rng.Intn(10) {
	case 0, 1:
		// SEQUENCE OF
		et, etag := g.elemType(depth - 1)
		return "[" + et, tagJoin(g.sizeTag(true), etag)
	case 2:
		return g.sequence(depth - 1), g.pickS("", "valueExt")
	case 3:
		return "*" + g.sequence(depth-1), g.pickS("", "valueExt")
	case 4:
		return g.choice(depth - 1)
	default:
		return g.leaf()
	}
}

// element type of a SEQUENCE OF: the element is coded with the field's tag minus the size constraint, so value
// constraints of a primitive element ride on the same tag
func (g *synGen) elemType(depth int) (string, string) {
	switch g.rng.Intn(6) {
	case 0:
		return "i", g.intTag()
	case 1:
		return "e", g.enumTag()
	case 2:
		return "t", ""
	case 3:
		return "o", "" // strings as elements lose their size constraint: general length
	default:
		return g.sequence(depth), g.pickS("", "valueExt")
	}
}

func (g *synGen) sequence(depth int) string {
	n := 1 + g.rng.Intn(4)
	if g.rng.Intn(12) == 0 {
		n = 0
	}
	var st synStruct
	for k := 0; k < n; k++ {
		ty, tag := g.anyField(depth)
		if g.rng.Intn(4) == 0 {
			// OPTIONAL: a pointer (or a slice, which is nillable as well)
			if ty[0] != '*' && ty[0] != '[' {
				ty = "*" + ty
			}
			tag = tagJoin(tag, "optional")
		} else if g.weird && g.rng.Intn(30) == 0 && ty[0] != '*' && ty[0] != '[' {
			// OPTIONAL on a Go type that cannot be nil: the encoder asks IsNil of it — a trap (on a []byte type: present)
			tag = tagJoin(tag, "optional")
		}
		st.fields = append(st.fields, synField{synNames[k], ty, tag})
	}
	return g.add(st)
}

// choice returns the type and the tag the FIELD holding it must carry (valueLB:0,valueUB:n-1 as the NGAP generator writes it)
func (g *synGen) choice(depth int) (string, string) {
	n := 1 + g.rng.Intn(4)
	st := synStruct{fields: []synField{{"Present", "i", ""}}}
	for k := 0; k < n; k++ {
		ty, tag := g.anyField(depth)
		if ty[0] == '[' {
			ty, tag = g.leaf()
		}
		if ty[0] != '*' {
			ty = "*" + ty
		}
		st.fields = append(st.fields, synField{synNames[k], ty, tag})
	}
	ub := int64(n - 1)
	ext := ""
	switch g.rng.Intn(10) {
	case 0:
		ext = "valueExt"
	case 1:
		ext = "valueExt"
		if n > 1 {
			ub = int64(n - 2) // the last alternative is an extension addition: refused by the encoder
		}
	case 2:
		if g.weird {
			return "*" + g.add(st), g.pickS("", "valueLB:0", "valueLB:0,valueUB:-1") // no / negative upper bound
		}
	}
	ty := g.add(st)
	if g.rng.Intn(2) == 0 {
		ty = "*" + ty
	}
	return ty, tagJoin(ext, "valueLB:0", "valueUB:"+i(ub))
}

// openTypeSeq: SEQUENCE { Id <ref type>, [Crit ENUMERATED], Value OPEN TYPE (by Id) }, the reference field being an INTEGER,
// a wrapper struct around one, or a CHOICE of wrappers (getReferenceFieldValue follows Present)
func (g *synGen) openTypeSeq(depth int) string {
	n := 1 + g.rng.Intn(3)
	val := synStruct{fields: []synField{{"Present", "i", ""}}}
	for k := 0; k < n; k++ {
		ty, tag := g.anyField(depth)
		if ty[0] == '[' {
			ty, tag = g.leaf()
		}
		if ty[0] != '*' {
			ty = "*" + ty
		}
		rv := int64(10 + 7*k)
		if g.weird && k > 0 && g.rng.Intn(6) == 0 {
			rv = 10 // two alternatives with the same reference value: the decoder takes the first
		}
		val.fields = append(val.fields, synField{synNames[k], ty, tagJoin(tag, "referenceFieldValue:"+i(rv))})
	}
	valTy := g.add(val)
	idTag := "valueLB:0,valueUB:65535"
	var idTy string
	switch g.rng.Intn(4) {
	case 0:
		idTy = "i"
	case 1:
		idTy = g.add(synStruct{fields: []synField{{"Value", "i", idTag}}})
		idTag = ""
	case 2:
		w1 := g.add(synStruct{fields: []synField{{"Value", "i", idTag}}})
		w2 := g.add(synStruct{fields: []synField{{"Value", "i", "valueLB:0,valueUB:255"}}})
		idTy = g.add(synStruct{fields: []synField{{"Present", "i", ""}, {"Local", "*" + w1, ""}, {"Global", "*" + w2, ""}}})
		idTag = "valueLB:0,valueUB:1"
	default:
		if g.weird {
			idTy, idTag = g.pickS("e", "o", "t"), "valueLB:0,valueUB:255" // a reference field that is not an INTEGER
		} else {
			idTy = "i"
		}
	}
	st := synStruct{fields: []synField{{"Id", idTy, idTag}}}
	if g.rng.Intn(2) == 0 {
		st.fields = append(st.fields, synField{"Crit", "e", "valueLB:0,valueUB:2"})
	}
	ref := "Id"
	if g.weird && g.rng.Intn(8) == 0 {
		ref = g.pickS("Value", "Nope", "Crit") // a reference name that is not an earlier field
	}
	st.fields = append(st.fields, synField{"Value", valTy, "openType,referenceFieldName:" + ref})
	if g.rng.Intn(3) == 0 {
		ty, tag := g.leaf()
		st.fields = append(st.fields, synField{"Tail", ty, tag})
	}
	return g.add(st)
}

// newSynSchema: a random schema and the type / parameter string to code at the top
func newSynSchema(rng *rand.Rand, weird, decSafe bool) (schema string, ty string, params string, lbOnly bool) {
	g := &synGen{rng: rng, weird: weird, decSafe: decSafe}
	defer func() { lbOnly = g.lbOnly }()
	switch rng.Intn(10) {
	case 0, 1:
		// a leaf wrapper: one constrained primitive
		lt, tag := g.leaf()
		ty = g.add(synStruct{fields: []synField{{"Value", lt, tag}}})
	case 2, 3:
		// a list wrapper
		et, etag := g.elemType(1)
		ty = g.add(synStruct{fields: []synField{{"List", "[" + et, tagJoin(g.sizeTag(true), etag)}}})
	case 4, 5:
		ty = g.openTypeSeq(1)
		if rng.Intn(2) == 0 {
			// a container of such fields, as the ProtocolIE containers are
			ty = g.add(synStruct{fields: []synField{{"List", "[" + ty, tagJoin(g.sizeTag(true), "valueExt")}}})
		}
		params = "valueExt"
	case 6:
		var tag string
		ty, tag = g.choice(2)
		ty = strings.TrimPrefix(ty, "*")
		params = tag
	default:
		ty = g.sequence(2)
		params = g.pickS("", "valueExt")
	}
	return g.s.String(), ty, params, false
}

// synSetRef: make the reference field of every open-type field agree with the alternative chosen (vgen.fill does this for
// INTEGER and wrapper reference fields; a CHOICE reference needs Present followed)
func synSetRef(v reflect.Value, x int64) {
	switch v.Kind() {
	case reflect.Int64:
		v.SetInt(x)
	case reflect.Ptr:
		if !v.IsNil() {
			synSetRef(v.Elem(), x)
		}
	case reflect.Struct:
		if v.NumField() == 0 {
			return
		}
		if v.Type().Field(0).Name == "Present" {
			// vgen's setRefValue wrote the reference value into Present: point it back at the alternative that was filled
			for p := 1; p < v.NumField(); p++ {
				if !v.Field(p).IsNil() {
					v.Field(0).SetInt(int64(p))
					synSetRef(v.Field(p), x)
					return
				}
			}
			return
		}
		synSetRef(v.Field(0), x)
	}
}

func synFixRefs(v reflect.Value) {
	switch v.Kind() {
	case reflect.Ptr:
		if !v.IsNil() {
			synFixRefs(v.Elem())
		}
	case reflect.Slice:
		for k := 0; k < v.Len(); k++ {
			synFixRefs(v.Index(k))
		}
	case reflect.Struct:
		t := v.Type()
		if t == aper.BitStringType {
			return
		}
		for k := 0; k < t.NumField(); k++ {
			fp := tags.Parse(t.Field(k).Tag.Get("aper"))
			if fp.OpenType && isChoiceType(t.Field(k).Type) {
				f := v.Field(k)
				alt := int(f.Field(0).Int())
				if alt > 0 && alt < f.NumField() {
					ap := tags.Parse(f.Type().Field(alt).Tag.Get("aper"))
					if ap.RefValue != nil {
						for j := 0; j < k; j++ {
							if t.Field(j).Name == fp.RefField && isChoiceType(t.Field(j).Type) {
								synSetRef(v.Field(j), *ap.RefValue)
							}
						}
					}
				}
			}
			synFixRefs(v.Field(k))
		}
	}
}

// synValue: a random value of a synthetic type (the NGAP value generator works on any reflect type with aper tags)
func synValue(g *vgen, t reflect.Type, params string) (v reflect.Value, err error) {
	defer func() {
		if r := recover(); r != nil {
			err = fmt.Errorf("value generator: %v", r)
		}
	}()
	v = reflect.New(t).Elem()
	g.budget = 300
	g.depth = 0
	g.fill(v, tags.Parse(params))
	synFixRefs(v)
	return v, nil
}

// Directed cases: one small schema per branch that the random schemas reach rarely or never (each line names the block
// of marshal.go / aper.go it is there for; measured with ./check C03 --cover).
var synDirectedEnc = []string{
	// appendConstraintValue: a range above 64K that is not an INTEGER's ("Constraint Value is large than 65536")
	"T0=A~e~valueLB:0,valueUB:70000 S0 - ( e5 )",
	"T0=Present~i~;A~*t~;B~*t~ S0 valueLB:0,valueUB:70000 ( i2 n p t )",
	// appendOctetString / appendBitString: shorter than the lower bound under an upper bound of 64K or more (the repair of F34)
	"T0=A~o~sizeLB:4,sizeUB:100000 S0 - ( o0102 )",
	"T0=A~o~sizeLB:4,sizeUB:100000 S0 - ( o01020304 )",
	"T0=A~b~sizeLB:4,sizeUB:100000 S0 - ( b2:c0 )",
	"T0=A~b~sizeLB:4,sizeUB:100000 S0 - ( b4:c0 )",
	"T0=A~s~sizeExt,sizeLB:2,sizeUB:65536 S0 - ( s41 )",
	// a string of fixed size 0: nothing is written at an octet boundary, putBitString(bytes, 0) traps anywhere else
	"T0=A~o~sizeLB:0,sizeUB:0 S0 - ( o- )", "T0=A~o~sizeLB:0,sizeUB:0 S0 valueExt ( o- )", "T0=A~t~;B~b~sizeLB:0,sizeUB:0 S0 - ( t b0:- )",
	"T0=A~s~sizeExt,sizeLB:0,sizeUB:0 S0 - ( s- )", "T0=A~s~sizeExt,sizeLB:0,sizeUB:0 S0 - ( s41 )", "T0=A~o~sizeLB:0,sizeUB:0 S0 - ( o41 )",
	// a lower bound without upper bound and a shorter value: length - lb wraps, a 64K fragment is announced, the slice traps;
	// with an upper bound the wrapped length does not fit the constrained length field: refused
	"T0=A~o~sizeLB:2 S0 - ( o01 )", "T0=A~o~sizeLB:2 S0 - ( o0102 )", "T0=A~b~sizeLB:3 S0 - ( b2:40 )", "T0=A~s~sizeLB:1 S0 - ( s- )",
	"T0=A~o~sizeLB:2,sizeUB:9 S0 - ( o01 )", "T0=A~o~sizeLB:2,sizeUB:300 S0 - ( o01 )", "T0=A~b~sizeLB:3,sizeUB:65535 S0 - ( b2:40 )",
	// OPTIONAL on a type that cannot be nil (IsNil traps) / on a []byte type (present) / behind a refused mandatory nil pointer
	"T0=A~t~optional;B~t~ S0 - ( f t )", "T0=A~i~valueLB:0,valueUB:7,optional S0 - ( i3 )", "T0=A~e~valueLB:0,valueUB:3,optional S0 valueExt ( e1 )",
	"T0=A~b~sizeLB:1,sizeUB:8,optional S0 - ( b3:a0 )", "T0=A~s~optional S0 - ( s41 )", "T0=A~o~sizeLB:0,sizeUB:4,optional;B~t~ S0 - ( o0102 t )",
	"T0=A~d~optional;B~t~ S0 - ( d2a03 t )", "T0=A~*t~;B~t~optional S0 - ( n f )", "T0=A~t~optional;B~*t~ S0 - ( t n )", "T0=|T1=A~S0~optional S1 - ( ( ) )",
	// appendEnumerated: below a lower bound other than 0; without bounds
	"T0=A~e~valueLB:2,valueUB:5 S0 - ( e1 )",
	"T0=A~e~valueLB:2,valueUB:5 S0 - ( e2 )",
	"T0=A~e~valueLB:2,valueUB:5 S0 - ( e6 )",
	"T0=A~e~valueLB:0 S0 - ( e0 )",
	"T0=A~e~valueExt,valueLB:0,valueUB:3 S0 - ( e4 )",
	// parseSequenceOf (encoder): a fixed size with another count; exactly the size; extensible beyond / within the bound
	"T0=A~[t~sizeLB:2,sizeUB:2 S0 - ( [ t ] )",
	"T0=A~[t~sizeLB:2,sizeUB:2 S0 - ( [ t f ] )",
	"T0=A~[t~sizeLB:2,sizeUB:2 S0 - ( [ t f t ] )",
	"T0=A~[t~sizeExt,sizeLB:1,sizeUB:2 S0 - ( [ t f t ] )",
	"T0=A~[t~sizeExt,sizeLB:1,sizeUB:2 S0 - ( [ t ] )",
	"T0=A~[t~sizeExt,sizeLB:1,sizeUB:2 S0 - ( [ ] )",
	"T0=A~[t~sizeLB:1,sizeUB:70000 S0 - ( [ ] )",
	"T0=A~[t~sizeLB:70000,sizeUB:70001 S0 - ( [ t ] )",
	// appendChoiceIndex: upper bound missing / negative / an extension addition
	"T0=Present~i~;A~*t~ S0 - ( i1 p t )",
	"T0=Present~i~;A~*t~ S0 valueLB:0,valueUB:-1 ( i1 p t )",
	"T0=Present~i~;A~*t~;B~*t~ S0 valueExt,valueLB:0,valueUB:0 ( i2 n p t )",
	"T0=Present~i~;A~*t~;B~*t~ S0 valueExt,valueLB:0,valueUB:0 ( i1 p f n )",
	// makeField: an open type without a reference value; a reference name that is not an earlier field; a reference field
	// that is not an INTEGER (pointer, ENUMERATED); a CHOICE as reference field
	"T0=Present~i~;A~*t~referenceFieldValue:1 S0 openType ( i1 p t )",
	"T0=Present~i~;A~*t~referenceFieldValue:1|T1=Id~i~valueLB:0,valueUB:9;Value~S0~openType,referenceFieldName:Nope S1 - ( i1 ( i1 p t ) )",
	"T0=Present~i~;A~*t~referenceFieldValue:1|T1=Id~i~valueLB:0,valueUB:9;Value~S0~openType,referenceFieldName:Value S1 - ( i1 ( i1 p t ) )",
	"T0=Present~i~;A~*t~referenceFieldValue:1|T1=Id~*i~valueLB:0,valueUB:9;Value~S0~openType,referenceFieldName:Id S1 - ( p i1 ( i1 p t ) )",
	"T0=Present~i~;A~*t~referenceFieldValue:1|T1=Id~e~valueLB:0,valueUB:9;Value~S0~openType,referenceFieldName:Id S1 - ( e1 ( i1 p t ) )",
	"T0=Present~i~;A~*t~referenceFieldValue:1|T1=Id~i~valueLB:0,valueUB:9;Value~S0~openType,referenceFieldName:Id S1 - ( i2 ( i1 p t ) )",
	"T0=Present~i~;A~*t~referenceFieldValue:1|T1=Id~i~valueLB:0,valueUB:9;Value~S0~openType,referenceFieldName:Id S1 - ( i1 ( i1 p t ) )",
	"T0=Present~i~;A~*t~referenceFieldValue:7;B~*i~valueLB:0,valueUB:255,referenceFieldValue:9|T1=Value~i~valueLB:0,valueUB:65535|T2=Value~i~valueLB:0,valueUB:255|T3=Present~i~;Local~*S1~;Global~*S2~|T4=Id~S3~valueLB:0,valueUB:1;Value~S0~openType,referenceFieldName:Id S4 valueExt ( ( i2 n p ( i9 ) ) ( i2 n p i200 ) )",
	"T0=Present~i~;A~*t~referenceFieldValue:7;B~*i~valueLB:0,valueUB:255,referenceFieldValue:9|T1=Value~i~valueLB:0,valueUB:65535|T2=Value~i~valueLB:0,valueUB:255|T3=Present~i~;Local~*S1~;Global~*S2~|T4=Id~S3~valueLB:0,valueUB:1;Value~S0~openType,referenceFieldName:Id S4 valueExt ( ( i1 p ( i7 ) n ) ( i1 p t n ) )",
	// an empty struct as reference field (fieldType.Field(0) of a struct without fields)
	"T0=|T1=Present~i~;A~*t~referenceFieldValue:1|T2=Id~S0~;Value~S1~openType,referenceFieldName:Id S2 - ( ( ) ( i1 p t ) )",
	// OBJECT IDENTIFIER is refused
	"T0=A~d~ S0 - ( d2a03 )",
	// INTEGER: unconstrained negative values at the octet boundaries, one value, semi-constrained, above 64K ranges
	"T0=A~i~ S0 - ( i-1 )", "T0=A~i~ S0 - ( i-128 )", "T0=A~i~ S0 - ( i-129 )", "T0=A~i~ S0 - ( i127 )", "T0=A~i~ S0 - ( i128 )",
	"T0=A~i~ S0 - ( i-32768 )", "T0=A~i~ S0 - ( i-32769 )", "T0=A~i~ S0 - ( i32767 )", "T0=A~i~ S0 - ( i32768 )",
	"T0=A~i~ S0 - ( i9223372036854775807 )", "T0=A~i~ S0 - ( i-9223372036854775808 )", "T0=A~i~ S0 - ( i0 )",
	"T0=A~i~valueLB:5,valueUB:5 S0 - ( i5 )", "T0=A~i~valueLB:5,valueUB:5 S0 - ( i6 )", "T0=A~i~valueExt,valueLB:5,valueUB:5 S0 - ( i6 )",
	"T0=A~i~valueLB:-5 S0 - ( i-5 )", "T0=A~i~valueLB:-5 S0 - ( i-6 )", "T0=A~i~valueLB:-5 S0 - ( i250 )", "T0=A~i~valueLB:-5 S0 - ( i251 )",
	"T0=A~i~valueLB:0 S0 - ( i9223372036854775807 )", "T0=A~i~valueUB:7 S0 - ( i9 )",
	// a tag part the codec parses but never uses (default:)
	"T0=A~i~valueLB:0,valueUB:7,default:5 S0 - ( i5 )",
	// BOOLEAN at every bit position of an octet
	"T0=A~t~;B~t~;C~t~;D~t~;E~t~;F~t~;G~t~;H~t~;K~t~ S0 - ( t f t t f f t f t )",
}

var synDirectedDec = []string{
	"T0=A~e~valueLB:0 S0 - 00", "T0=A~e~valueUB:3 S0 - 00", "T0=A~e~valueLB:0,valueUB:70000 S0 - 0001",
	"T0=Present~i~;A~*t~ S0 - 80", "T0=Present~i~;A~*t~ S0 valueLB:0,valueUB:-1 80", "T0=Present~i~;A~*t~;B~*t~ S0 valueLB:0,valueUB:70000 000180",
	"T0=A~d~ S0 - 2a03",
	"T0=Present~i~;A~*t~referenceFieldValue:1 S0 openType 0180",
	"T0=Present~i~;A~*t~referenceFieldValue:1|T1=Id~i~valueLB:0,valueUB:9;Value~S0~openType,referenceFieldName:Nope S1 - 100180",
	"T0=Present~i~;A~*t~referenceFieldValue:1|T1=Id~i~valueLB:0,valueUB:9;Value~S0~openType,referenceFieldName:Value S1 - 100180",
	"T0=Present~i~;A~*t~referenceFieldValue:1|T1=Id~*i~valueLB:0,valueUB:9;Value~S0~openType,referenceFieldName:Id S1 - 100180",
	"T0=Present~i~;A~*t~referenceFieldValue:1|T1=Id~e~valueLB:0,valueUB:9;Value~S0~openType,referenceFieldName:Id S1 - 100180",
	"T0=Present~i~;A~*t~referenceFieldValue:1|T1=Id~i~valueLB:0,valueUB:9;Value~S0~openType,referenceFieldName:Id S1 - 100180",
	"T0=Present~i~;A~*t~referenceFieldValue:1|T1=Id~i~valueLB:0,valueUB:9;Value~S0~openType,referenceFieldName:Id S1 - 200180",
	// the length-of-length bits of a large INTEGER range run over the end of the input (7 BOOLEANs, then two bits)
	"T0=A~t~;B~t~;C~t~;D~t~;E~t~;F~t~;G~t~;H~i~valueLB:0,valueUB:4294967295 S0 - fe",
	"T0=A~t~;B~t~;C~t~;D~t~;E~t~;F~t~;G~t~;H~i~valueLB:0,valueUB:4294967295 S0 - fe0005",
	"T0=A~t~ S0 - -", "T0=A~t~ S0 valueExt -", "T0=A~t~ S0 valueExt 80", "T0=A~t~ S0 valueExt c0", "T0=A~t~ S0 - 80",
	"T0=A~i~valueLB:5,valueUB:5 S0 - 00", "T0=A~i~ S0 - 0180", "T0=A~i~ S0 - 02ff7f", "T0=A~i~ S0 - 00", "T0=A~i~ S0 - 09000000000000000001",
	"T0=A~i~valueLB:-5 S0 - 01ff", "T0=A~i~valueLB:-5 S0 - 087fffffffffffffff", "T0=A~i~valueLB:0 S0 - 08ffffffffffffffff",
	"T0=A~[t~sizeLB:2,sizeUB:2 S0 - c0", "T0=A~[t~sizeLB:2,sizeUB:2 S0 - -", "T0=A~[t~sizeExt,sizeLB:1,sizeUB:2 S0 - 8003e0",
	"T0=A~[t~sizeLB:70000,sizeUB:70001 S0 - 0180", "T0=A~[t~ S0 - 8180", "T0=A~[t~ S0 - c100",
	"T0=A~o~sizeLB:4,sizeUB:100000 S0 - 0201ff", "T0=A~o~sizeLB:4,sizeUB:100000 S0 - 0401020304", "T0=A~b~sizeLB:4,sizeUB:100000 S0 - 02c0",
}

// the decoder traps on this schema (fieldType.Field(0) of an empty struct used as reference field); model and code agree on
// the panic. Run in aper-rt, not in aper-dec: C14 is about the NGAP schema, where a decoder panic is a violation.
var synDirectedDecTrap = []string{
	"T0=A~o~sizeLB:0,sizeUB:0 S0 - 00", "T0=A~b~sizeLB:0,sizeUB:0;B~t~ S0 - 80", "T0=A~t~;B~s~sizeExt,sizeLB:0,sizeUB:0;C~t~ S0 - c0",
	"T0=|T1=Present~i~;A~*t~referenceFieldValue:1|T2=Id~S0~;Value~S1~openType,referenceFieldName:Id S2 - 0180",
}

func synDirected(e *emitter, op string, lines []string) {
	for _, l := range lines {
		e.op(op, strings.Fields(l)...)
	}
}

// aperSynEnc: the synthetic part of aper-enc / aper-rt
func aperSynEnc(e *emitter, g *vgen, roundTrip bool) {
	if !roundTrip {
		synDirected(e, "synenc", synDirectedEnc)
		// a SEQUENCE OF of 16384 elements without an upper bound needs a fragmented count: refused; 16383 is the last one coded
		for _, n := range []int{16383, 16384} {
			e.op("synenc", append(append([]string{"T0=A~[t~", "S0", "-", "(", "["}, strings.Fields(strings.Repeat("t ", n))...), "]", ")")...)
		}
	} else {
		synDirected(e, "synrt", synDirectedEnc)
		synDirected(e, "syndec", synDirectedDecTrap)
	}
	nSchemas := 60 + e.n/4
	if e.thorough() {
		nSchemas = 400 + e.n/10
	}
	op := "synenc"
	if roundTrip {
		op = "synrt"
	}
	for k := 0; k < nSchemas; k++ {
		weird := !roundTrip && k%4 == 3
		schema, ty, params, lbOnly := newSynSchema(e.rng, weird, false)
		t := synType(schema, ty)
		for j := 0; j < 6; j++ {
			g.invalid = !roundTrip && j == 5
			g.injected = ""
			if j == 4 && k%8 == 0 && !lbOnly {
				g.longLeft = 1 // one value with a long string where the schema has a string with a general length
			}
			v, err := synValue(g, t, params)
			g.invalid, g.longLeft = false, 0
			if err != nil {
				continue
			}
			args := append([]string{schema, ty, paramTok(params)}, strings.Fields(valTokens(v))...)
			e.op(op, args...)
			if roundTrip && j < 2 {
				if b, err := safeMarshal(v, params); err == nil && len(b) > 0 {
					e.op("syndec", schema, ty, paramTok(params), hx(b))
				}
			}
		}
	}
}

// aperSynDec: the synthetic part of aper-dec: valid encodings, their prefixes and corruptions, random octets
func aperSynDec(e *emitter, g *vgen) {
	synDirected(e, "syndec", synDirectedDec)
	nSchemas := 30 + e.n/8
	if e.thorough() {
		nSchemas = 300 + e.n/10
	}
	for k := 0; k < nSchemas; k++ {
		schema, ty, params, _ := newSynSchema(e.rng, false, true)
		t := synType(schema, ty)
		dec := func(b []byte) { e.op("syndec", schema, ty, paramTok(params), hx(b)) }
		for j := 0; j < 3; j++ {
			v, err := synValue(g, t, params)
			if err != nil {
				continue
			}
			b, err := safeMarshal(v, params)
			if err != nil || len(b) == 0 {
				continue
			}
			dec(b)
			step := 1
			if len(b) > 24 {
				step = len(b) / 12
			}
			for n := 0; n < len(b); n += step {
				dec(b[:n])
			}
			for m := 0; m < 8; m++ {
				c := append([]byte{}, b...)
				pos := e.rng.Intn(len(c))
				switch e.rng.Intn(5) {
				case 0:
					c[pos] ^= 1 << uint(e.rng.Intn(8))
				case 1:
					c[pos] = byte(e.rng.Intn(256))
				case 2:
					c[pos] = 0xff
				case 3:
					c[pos] = 0x00
				case 4:
					c[pos] = []byte{0x80, 0xc1, 0xc4, 0x7f, 0xbf}[e.rng.Intn(5)]
				}
				dec(c)
			}
		}
		for j := 0; j < 4; j++ {
			dec(e.bytes(e.rng.Intn(24)))
		}
	}
}
