// Package fptest is the self-test input of `gen footprint` (C20): small functions with KNOWN footprints over
// this package's variables. The translator analyses it together with /repo on every run and fails closed when
// a computed footprint differs from the expectation written next to the function (R = reads, W = writes,
// S = shares). It is never executed.
package fptest

var arr [4]int
var sl = []int{1, 2}
var m = map[int]int{}

type T struct {
	x   int
	ref []int
}

var p = &T{}
var st struct{ a [3]int }
var tbl [2]int
var g1 int
var fn = func() { g1 = 1 }
var ro = []int{7, 8}

func init() { tbl[0] = 1 }

// WArr: W arr
func WArr(i int) { arr[i] = 1 }

// RArr: R arr
func RArr(i int) int { return arr[i] }

// WSl: R sl W sl   (store through a slice loaded from the variable)
func WSl() { sl[0] = 1 }

// WMap: R m W m
func WMap() { m[1] = 2 }

// RMap: R m
func RMap() int { return m[1] }

// WPtr: R p W p   (store through a pointer loaded from the variable)
func WPtr() { p.x = 1 }

func helper(q *[4]int) { q[0] = 1 }

// WEsc: W arr   (the address is passed to a callee that stores through it)
func WEsc() { helper(&arr) }

type I interface{ M() }
type impl struct{}

func (impl) M() { g1 = 2 }

// MkI: (nothing)
func MkI() I { return impl{} }

// ViaIface: W g1   (interface call resolved by class hierarchy)
func ViaIface(i I) { i.M() }

// CallF: R fn W g1   (call through a func value)
func CallF() { fn() }

func retSl() []int { return sl }

// WRet: R sl W sl   (store through a reference returned by a callee)
func WRet() { retSl()[0] = 1 }

// Share: R sl S sl   (the reference is copied into other memory)
func Share() *T { x := new(T); x.ref = sl; return x }

// WClos: W arr   (closure)
func WClos() { h := func() { arr[0] = 2 }; h() }

// WField: W st
func WField() { st.a[1] = 1 }

// RTbl: R tbl   (written in init only)
func RTbl() int { return tbl[0] }

// WApp: R sl W sl
func WApp() { sl = append(sl, 1) }

// WCopy: R sl W sl
func WCopy(b []int) { copy(sl, b) }

// RRange: R ro
func RRange() (n int) {
	for _, v := range ro {
		n += v
	}
	return
}

func sum(xs []int) (n int) {
	for _, v := range xs {
		n += v
	}
	return
}

// RParam: R ro   (a callee only reads through the reference it receives)
func RParam() int { return sum(ro) }

func poke(xs []int) { xs[0] = 9 }

// WParam: R ro W ro   (a callee stores through the reference it receives)
func WParam() { poke(ro) }

// Pure: (nothing)
func Pure(a, b int) int { return a + b }
