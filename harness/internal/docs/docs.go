// Package docs reads the user-facing documentation of the configuration keys: src/config.yaml (the sample
// configuration file) and the snippets of README.md. Shared by the `gen wiring` translator and the `config`
// correspondence domain so that both see the same key lists.
package docs

import (
	"bufio"
	"fmt"
	"os"
	"regexp"
	"strings"
)

var yamlKeyLine = regexp.MustCompile(`^  ([A-Za-z_][A-Za-z_0-9]*):[ \t]*(\S.*)?$`)
var yamlSection = regexp.MustCompile(`^([A-Za-z_][A-Za-z_0-9]*):[ \t]*$`)

// ConfigYamlKeys returns the keys of the `key: value` lines (two spaces of indentation) of the section
// `configuration:`. Grammar: blank lines, comment lines, `section:` lines, `  key: value` lines; anything else
// is an error.
func ConfigYamlKeys(path string) ([]string, error) {
	fh, err := os.Open(path)
	if err != nil {
		return nil, err
	}
	defer fh.Close()
	var keys []string
	section := ""
	sc := bufio.NewScanner(fh)
	n := 0
	for sc.Scan() {
		n++
		line := strings.TrimRight(sc.Text(), " \t\r")
		if line == "" || strings.HasPrefix(strings.TrimSpace(line), "#") {
			continue
		}
		if m := yamlSection.FindStringSubmatch(line); m != nil {
			section = m[1]
			continue
		}
		if m := yamlKeyLine.FindStringSubmatch(line); m != nil && m[2] != "" {
			if section == "configuration" {
				keys = append(keys, m[1])
			} else if section == "" {
				return nil, fmt.Errorf("%s:%d: key outside a section", path, n)
			}
			continue
		}
		return nil, fmt.Errorf("%s:%d: unrecognised line %q", path, n, line)
	}
	if len(keys) == 0 {
		return nil, fmt.Errorf("%s: no keys under configuration:", path)
	}
	return keys, sc.Err()
}

var readmeKeyLine = regexp.MustCompile(`^\s+([a-z_][a-z_0-9]*):\s+\S`)

// ReadmeKeys returns the keys of the indented `key: value` lines inside the fenced blocks of the README section
// whose heading contains "Configure STGUTG" (first occurrence of each key, in order).
func ReadmeKeys(path string) ([]string, error) {
	fh, err := os.Open(path)
	if err != nil {
		return nil, err
	}
	defer fh.Close()
	var keys []string
	seen := map[string]bool{}
	inSection, inFence, found := false, false, false
	sc := bufio.NewScanner(fh)
	for sc.Scan() {
		line := sc.Text()
		if strings.HasPrefix(line, "#") && !inFence {
			inSection = strings.Contains(line, "Configure STGUTG")
			found = found || inSection
			continue
		}
		if strings.HasPrefix(strings.TrimSpace(line), "```") {
			inFence = !inFence
			continue
		}
		if inSection && inFence {
			if m := readmeKeyLine.FindStringSubmatch(line); m != nil && !seen[m[1]] {
				seen[m[1]] = true
				keys = append(keys, m[1])
			}
		}
	}
	if !found {
		return nil, fmt.Errorf("%s: section \"Configure STGUTG\" not found", path)
	}
	return keys, sc.Err()
}
