// Package tags re-implements aper.parseFieldParameters (unexported in the repo) for the
// schema translator and the value generators. The correspondence run cross-checks it.
package tags

import (
	"strconv"
	"strings"
)

type Params struct {
	Optional, SizeExt, ValueExt, OpenType bool
	SizeLB, SizeUB, ValueLB, ValueUB      *int64
	RefField                              string
	RefValue                              *int64
}

func p64(i int64) *int64 { return &i }

func Parse(str string) (p Params) {
	for _, part := range strings.Split(str, ",") {
		switch {
		case part == "optional":
			p.Optional = true
		case part == "sizeExt":
			p.SizeExt = true
		case part == "valueExt":
			p.ValueExt = true
		case strings.HasPrefix(part, "sizeLB:"):
			if i, err := strconv.ParseInt(part[7:], 10, 64); err == nil {
				p.SizeLB = p64(i)
			}
		case strings.HasPrefix(part, "sizeUB:"):
			if i, err := strconv.ParseInt(part[7:], 10, 64); err == nil {
				p.SizeUB = p64(i)
			}
		case strings.HasPrefix(part, "valueLB:"):
			if i, err := strconv.ParseInt(part[8:], 10, 64); err == nil {
				p.ValueLB = p64(i)
			}
		case strings.HasPrefix(part, "valueUB:"):
			if i, err := strconv.ParseInt(part[8:], 10, 64); err == nil {
				p.ValueUB = p64(i)
			}
		case part == "openType":
			p.OpenType = true
		case strings.HasPrefix(part, "referenceFieldName:"):
			p.RefField = part[19:]
		case strings.HasPrefix(part, "referenceFieldValue:"):
			if i, err := strconv.ParseInt(part[20:], 10, 64); err == nil {
				p.RefValue = p64(i)
			}
		}
	}
	return
}

// Lean renders the parameters as a Lean `Params` structure instance.
func (p Params) Lean() string {
	var parts []string
	if p.Optional {
		parts = append(parts, "optional := true")
	}
	if p.SizeExt {
		parts = append(parts, "sizeExt := true")
	}
	if p.ValueExt {
		parts = append(parts, "valueExt := true")
	}
	opt := func(n string, v *int64) {
		if v != nil {
			parts = append(parts, n+" := some ("+strconv.FormatInt(*v, 10)+")")
		}
	}
	opt("sizeLB", p.SizeLB)
	opt("sizeUB", p.SizeUB)
	opt("valueLB", p.ValueLB)
	opt("valueUB", p.ValueUB)
	if p.OpenType {
		parts = append(parts, "openType := true")
	}
	if p.RefField != "" {
		parts = append(parts, "refField := "+strconv.Quote(p.RefField))
	}
	opt("refValue", p.RefValue)
	if len(parts) == 0 {
		return "{}"
	}
	return "{ " + strings.Join(parts, ", ") + " }"
}
