// Package bld is the registry of the NGAP message-construction entry points of /repo (C13):
// the 52 ngapTestpacket.Build* functions (two of them declared-but-empty stubs) and the 14 tglib.Get*
// build-and-encode wrappers, with the ROLE of every parameter (what the caller's value means).
// It is shared by `gen templates` (probing) and `corr builders` (correspondence).
//
// Arguments travel as value tokens (the same token language as cmd/corr/aperval.go):
//
//	i<dec>            int64 / uint64
//	s<hex>            string           o<hex>  []byte / aper.OctetString     n  nil slice / nil pointer
//	[ i<dec> … ]      []int64          p i<dec>  *int64
//	( … ) / p ( … ) / [ … ]            ngapType struct / pointer / slice of structs
package bld

import (
	"encoding/hex"
	"fmt"
	"reflect"
	"strconv"
	"strings"

	"free5gclib/aper"
	"free5gclib/ngap/ngapType"
	"tglib"
	"tglib/ngapTestpacket"
)

// Roles: what a parameter means to the property.
const (
	RAmf     = "amf"     // AMF-UE-NGAP-ID (int64)
	RRan     = "ran"     // RAN-UE-NGAP-ID (int64)
	RPsi     = "psi"     // PDU session id (int64)
	RPsiList = "psilist" // PDU session ids ([]int64)
	RNas     = "nas"     // NAS-PDU ([]byte / aper.OctetString)
	RIp      = "ip"      // GTP transport address, IPv4 text (string)
	RTmsi    = "tmsi"    // 5G-S-TMSI as hexadecimal text (string)
	RPlmn    = "plmn"    // PLMN octets announced at NG Setup ([]uint8); becomes the TestPlmn state
	RGnbId   = "gnbid"   // gNB id octets ([]byte)
	RBitLen  = "bitlen"  // gNB id bit length (uint64)
	RName    = "name"    // RAN node name (string)
	RCellId  = "cellid"  // target cell id octets ([]byte)
	RInt     = "int"     // any other int64
	RStr     = "str"     // any other string
	RPInt    = "pint"    // *int64
	RVal     = "val"     // an ngapType value (struct, pointer, slice of structs) embedded by the builder
)

type Entry struct {
	Name    string
	Fn      interface{}
	Roles   []string
	Message string // TS 38.413 message name (row of Spec.Ts38413)
	Wrapper bool   // tglib.Get*: returns ([]byte, error)
	Hand    bool   // template hand-written in lean/Stgutg/Model/Builders.lean (else probed)
}

// Stubs: declared but empty (return the zero NGAPPDU); excluded by the property statement.
var Stubs = []string{"BuildAMFStatusIndication", "BuildUETNLABindingReleaseRequest"}

var Entries = []Entry{
	// ---- the 14 wrappers of tglib/packet.go
	{"GetNGSetupRequest", tglib.GetNGSetupRequest, []string{RGnbId, RPlmn, RBitLen, RName}, "NGSetupRequest", true, true},
	{"GetInitialUEMessage", tglib.GetInitialUEMessage, []string{RRan, RNas, RTmsi}, "InitialUEMessage", true, true},
	{"GetUplinkNASTransport", tglib.GetUplinkNASTransport, []string{RAmf, RRan, RNas}, "UplinkNASTransport", true, true},
	{"GetInitialContextSetupResponse", tglib.GetInitialContextSetupResponse, []string{RAmf, RRan}, "InitialContextSetupResponse", true, true},
	{"GetInitialContextSetupResponseForServiceRequest", tglib.GetInitialContextSetupResponseForServiceRequest, []string{RAmf, RRan, RPsi, RIp}, "InitialContextSetupResponse", true, true},
	{"GetPDUSessionResourceSetupResponse", tglib.GetPDUSessionResourceSetupResponse, []string{RAmf, RRan, RPsi, RIp}, "PDUSessionResourceSetupResponse", true, true},
	{"GetUEContextReleaseComplete", tglib.GetUEContextReleaseComplete, []string{RAmf, RRan, RPsiList}, "UEContextReleaseComplete", true, true},
	{"GetUEContextReleaseRequest", tglib.GetUEContextReleaseRequest, []string{RAmf, RRan, RPsiList}, "UEContextReleaseRequest", true, true},
	{"GetPDUSessionResourceReleaseResponse", tglib.GetPDUSessionResourceReleaseResponse, []string{RAmf, RRan, RPsi}, "PDUSessionResourceReleaseResponse", true, true},
	{"GetPathSwitchRequest", tglib.GetPathSwitchRequest, []string{RAmf, RRan}, "PathSwitchRequest", true, true},
	{"GetHandoverRequired", tglib.GetHandoverRequired, []string{RAmf, RRan, RGnbId, RCellId}, "HandoverRequired", true, true},
	{"GetHandoverRequestAcknowledge", tglib.GetHandoverRequestAcknowledge, []string{RAmf, RRan}, "HandoverRequestAcknowledge", true, true},
	{"GetHandoverNotify", tglib.GetHandoverNotify, []string{RAmf, RRan}, "HandoverNotify", true, true},
	{"GetPDUSessionResourceSetupResponseForPaging", tglib.GetPDUSessionResourceSetupResponseForPaging, []string{RAmf, RRan, RIp}, "PDUSessionResourceSetupResponse", true, true},

	// ---- the builders behind them (hand templates)
	{"BuildNGSetupRequest", ngapTestpacket.BuildNGSetupRequest, []string{RPlmn}, "NGSetupRequest", false, true},
	{"BuildInitialUEMessage", ngapTestpacket.BuildInitialUEMessage, []string{RRan, RNas, RTmsi}, "InitialUEMessage", false, true},
	{"BuildUplinkNasTransport", ngapTestpacket.BuildUplinkNasTransport, []string{RAmf, RRan, RNas}, "UplinkNASTransport", false, true},
	{"BuildInitialContextSetupResponseForRegistraionTest", ngapTestpacket.BuildInitialContextSetupResponseForRegistraionTest, []string{RAmf, RRan}, "InitialContextSetupResponse", false, true},
	{"BuildInitialContextSetupResponse", ngapTestpacket.BuildInitialContextSetupResponse, []string{RAmf, RRan, RPsi, RIp, RVal}, "InitialContextSetupResponse", false, true},
	{"BuildPDUSessionResourceSetupResponseForRegistrationTest", ngapTestpacket.BuildPDUSessionResourceSetupResponseForRegistrationTest, []string{RAmf, RRan, RPsi, RIp}, "PDUSessionResourceSetupResponse", false, true},
	{"BuildUEContextReleaseComplete", ngapTestpacket.BuildUEContextReleaseComplete, []string{RAmf, RRan, RPsiList}, "UEContextReleaseComplete", false, true},
	{"BuildUEContextReleaseRequest", ngapTestpacket.BuildUEContextReleaseRequest, []string{RAmf, RRan, RPsiList}, "UEContextReleaseRequest", false, true},
	{"BuildPDUSessionResourceReleaseResponseForReleaseTest", ngapTestpacket.BuildPDUSessionResourceReleaseResponseForReleaseTest, []string{RAmf, RRan, RPsi}, "PDUSessionResourceReleaseResponse", false, true},
	{"BuildPathSwitchRequest", ngapTestpacket.BuildPathSwitchRequest, []string{RAmf, RRan}, "PathSwitchRequest", false, true},
	{"BuildHandoverRequired", ngapTestpacket.BuildHandoverRequired, []string{RAmf, RRan, RGnbId, RCellId}, "HandoverRequired", false, true},
	{"BuildHandoverRequestAcknowledge", ngapTestpacket.BuildHandoverRequestAcknowledge, []string{RAmf, RRan}, "HandoverRequestAcknowledge", false, true},
	{"BuildHandoverNotify", ngapTestpacket.BuildHandoverNotify, []string{RAmf, RRan}, "HandoverNotify", false, true},
	{"BuildPDUSessionResourceSetupResponseForPaging", ngapTestpacket.BuildPDUSessionResourceSetupResponseForPaging, []string{RAmf, RRan, RIp}, "PDUSessionResourceSetupResponse", false, true},
	{"BuildPDUSessionResourceSetupResponse", ngapTestpacket.BuildPDUSessionResourceSetupResponse, []string{RAmf, RRan, RIp}, "PDUSessionResourceSetupResponse", false, true},

	// ---- the other builders (probed templates)
	{"BuildNGReset", ngapTestpacket.BuildNGReset, []string{RVal}, "NGReset", false, false},
	{"BuildNGResetAcknowledge", ngapTestpacket.BuildNGResetAcknowledge, nil, "NGResetAcknowledge", false, false},
	{"BuildErrorIndication", ngapTestpacket.BuildErrorIndication, nil, "ErrorIndication", false, false},
	{"BuildUEContextModificationResponse", ngapTestpacket.BuildUEContextModificationResponse, []string{RAmf, RRan}, "UEContextModificationResponse", false, false},
	{"BuildInitialContextSetupFailure", ngapTestpacket.BuildInitialContextSetupFailure, []string{RAmf, RRan}, "InitialContextSetupFailure", false, false},
	{"BuildHandoverFailure", ngapTestpacket.BuildHandoverFailure, []string{RAmf}, "HandoverFailure", false, false},
	{"BuildPDUSessionResourceReleaseResponse", ngapTestpacket.BuildPDUSessionResourceReleaseResponse, nil, "PDUSessionResourceReleaseResponse", false, false},
	{"BuildAMFConfigurationUpdateFailure", ngapTestpacket.BuildAMFConfigurationUpdateFailure, nil, "AMFConfigurationUpdateFailure", false, false},
	{"BuildUERadioCapabilityCheckRequest", ngapTestpacket.BuildUERadioCapabilityCheckRequest, []string{RAmf, RRan}, "UERadioCapabilityCheckRequest", false, false},
	{"BuildUERadioCapabilityCheckResponse", ngapTestpacket.BuildUERadioCapabilityCheckResponse, nil, "UERadioCapabilityCheckResponse", false, false},
	{"BuildHandoverCancel", ngapTestpacket.BuildHandoverCancel, nil, "HandoverCancel", false, false},
	{"BuildLocationReportingFailureIndication", ngapTestpacket.BuildLocationReportingFailureIndication, nil, "LocationReportingFailureIndication", false, false},
	{"BuildPDUSessionResourceModifyResponse", ngapTestpacket.BuildPDUSessionResourceModifyResponse, []string{RAmf, RRan}, "PDUSessionResourceModifyResponse", false, false},
	{"BuildPDUSessionResourceNotify", ngapTestpacket.BuildPDUSessionResourceNotify, nil, "PDUSessionResourceNotify", false, false},
	{"BuildPDUSessionResourceModifyIndication", ngapTestpacket.BuildPDUSessionResourceModifyIndication, []string{RAmf, RRan}, "PDUSessionResourceModifyIndication", false, false},
	{"BuildUEContextModificationFailure", ngapTestpacket.BuildUEContextModificationFailure, []string{RAmf, RRan}, "UEContextModificationFailure", false, false},
	{"BuildRRCInactiveTransitionReport", ngapTestpacket.BuildRRCInactiveTransitionReport, nil, "RRCInactiveTransitionReport", false, false},
	{"BuildUplinkRanStatusTransfer", ngapTestpacket.BuildUplinkRanStatusTransfer, []string{RAmf, RRan}, "UplinkRANStatusTransfer", false, false},
	{"BuildNasNonDeliveryIndication", ngapTestpacket.BuildNasNonDeliveryIndication, []string{RAmf, RRan, RNas}, "NASNonDeliveryIndication", false, false},
	{"BuildRanConfigurationUpdate", ngapTestpacket.BuildRanConfigurationUpdate, nil, "RANConfigurationUpdate", false, false},
	{"BuildRanConfigurationUpdateAck", ngapTestpacket.BuildRanConfigurationUpdateAck, []string{RVal}, "RANConfigurationUpdateAcknowledge", false, false},
	{"BuildRanConfigurationUpdateFailure", ngapTestpacket.BuildRanConfigurationUpdateFailure, []string{RVal, RVal}, "RANConfigurationUpdateFailure", false, false},
	{"BuildUplinkRanConfigurationTransfer", ngapTestpacket.BuildUplinkRanConfigurationTransfer, nil, "UplinkRANConfigurationTransfer", false, false},
	{"BuildUplinkUEAssociatedNRPPATransport", ngapTestpacket.BuildUplinkUEAssociatedNRPPATransport, nil, "UplinkUEAssociatedNRPPaTransport", false, false},
	{"BuildUplinkNonUEAssociatedNRPPATransport", ngapTestpacket.BuildUplinkNonUEAssociatedNRPPATransport, nil, "UplinkNonUEAssociatedNRPPaTransport", false, false},
	{"BuildLocationReport", ngapTestpacket.BuildLocationReport, nil, "LocationReport", false, false},
	{"BuildUERadioCapabilityInfoIndication", ngapTestpacket.BuildUERadioCapabilityInfoIndication, nil, "UERadioCapabilityInfoIndication", false, false},
	{"BuildAMFConfigurationUpdateAcknowledge", ngapTestpacket.BuildAMFConfigurationUpdateAcknowledge, nil, "AMFConfigurationUpdateAcknowledge", false, false},
	{"BuildAMFConfigurationUpdate", ngapTestpacket.BuildAMFConfigurationUpdate, []string{RStr, RVal, RVal, RInt, RVal, RVal, RVal}, "AMFConfigurationUpdate", false, false},
	{"BuildCellTrafficTrace", ngapTestpacket.BuildCellTrafficTrace, []string{RAmf, RRan}, "CellTrafficTrace", false, false},
	{"BuildNGSetupResponse", ngapTestpacket.BuildNGSetupResponse, []string{RStr, RVal, RVal, RInt}, "NGSetupResponse", false, false},
	{"BuildPDUSessionResourceModifyConfirm", ngapTestpacket.BuildPDUSessionResourceModifyConfirm, []string{RAmf, RRan, RVal, RVal, RVal}, "PDUSessionResourceModifyConfirm", false, false},
	{"BuildPDUSessionResourceReleaseCommand", ngapTestpacket.BuildPDUSessionResourceReleaseCommand, []string{RAmf, RRan, RVal, RNas, RVal}, "PDUSessionResourceReleaseCommand", false, false},
	{"BuildOverloadStart", ngapTestpacket.BuildOverloadStart, []string{RVal, RPInt, RVal}, "OverloadStart", false, false},
	{"BuildOverloadStop", ngapTestpacket.BuildOverloadStop, nil, "OverloadStop", false, false},
}

var byName map[string]*Entry

func init() {
	byName = map[string]*Entry{}
	for i := range Entries {
		e := &Entries[i]
		byName[e.Name] = e
		ft := reflect.TypeOf(e.Fn)
		if ft.NumIn() != len(e.Roles) {
			panic(fmt.Sprintf("bld: %s has %d parameters, %d roles declared", e.Name, ft.NumIn(), len(e.Roles)))
		}
		for k, r := range e.Roles {
			if !roleFits(r, ft.In(k)) {
				panic(fmt.Sprintf("bld: %s parameter %d (%s) cannot have role %s", e.Name, k, ft.In(k), r))
			}
		}
	}
}

func Lookup(name string) *Entry { return byName[name] }

var (
	tInt64   = reflect.TypeOf(int64(0))
	tUint64  = reflect.TypeOf(uint64(0))
	tString  = reflect.TypeOf("")
	tBytes   = reflect.TypeOf([]byte(nil))
	tInt64s  = reflect.TypeOf([]int64(nil))
	tPInt64  = reflect.TypeOf((*int64)(nil))
	ngapPath = reflect.TypeOf(ngapType.NGAPPDU{}).PkgPath()
)

func isBytes(t reflect.Type) bool { return t == tBytes || t == aper.OctetStringType }

func isNgapValue(t reflect.Type) bool {
	switch t.Kind() {
	case reflect.Ptr, reflect.Slice:
		return t.Elem().Kind() == reflect.Struct && t.Elem().PkgPath() == ngapPath
	case reflect.Struct:
		return t.PkgPath() == ngapPath
	}
	return false
}

func roleFits(role string, t reflect.Type) bool {
	switch role {
	case RAmf, RRan, RPsi, RInt:
		return t == tInt64
	case RBitLen:
		return t == tUint64
	case RPsiList:
		return t == tInt64s
	case RNas, RPlmn, RGnbId, RCellId:
		return isBytes(t)
	case RIp, RTmsi, RName, RStr:
		return t == tString
	case RPInt:
		return t == tPInt64
	case RVal:
		return isNgapValue(t)
	}
	return false
}

// ---------------------------------------------------------------- value trees and tokens

// Node is a reflected Go value in the shape of the Lean `Val` type.
type Node struct {
	Kind string // int enum bits octs str bool oid nil ptr struct slice
	I    int64
	U    uint64
	B    []byte
	Kids []*Node
}

func Reflect(v reflect.Value) *Node {
	t := v.Type()
	switch t {
	case aper.BitStringType:
		bs := v.Interface().(aper.BitString)
		return &Node{Kind: "bits", B: append([]byte{}, bs.Bytes...), U: bs.BitLength}
	case aper.OctetStringType:
		return &Node{Kind: "octs", B: append([]byte{}, v.Bytes()...)}
	case aper.ObjectIdentifierType:
		return &Node{Kind: "oid", B: append([]byte{}, v.Bytes()...)}
	case aper.EnumeratedType:
		return &Node{Kind: "enum", U: v.Uint()}
	}
	switch v.Kind() {
	case reflect.Int, reflect.Int32, reflect.Int64:
		return &Node{Kind: "int", I: v.Int()}
	case reflect.Uint64:
		return &Node{Kind: "int", I: int64(v.Uint())}
	case reflect.Bool:
		n := &Node{Kind: "bool"}
		if v.Bool() {
			n.U = 1
		}
		return n
	case reflect.String:
		return &Node{Kind: "str", B: []byte(v.String())}
	case reflect.Ptr:
		if v.IsNil() {
			return &Node{Kind: "nil"}
		}
		return &Node{Kind: "ptr", Kids: []*Node{Reflect(v.Elem())}}
	case reflect.Slice:
		if v.Type().Elem().Kind() == reflect.Uint8 {
			return &Node{Kind: "octs", B: append([]byte{}, v.Bytes()...)}
		}
		n := &Node{Kind: "slice"}
		for i := 0; i < v.Len(); i++ {
			n.Kids = append(n.Kids, Reflect(v.Index(i)))
		}
		return n
	case reflect.Struct:
		n := &Node{Kind: "struct"}
		for i := 0; i < v.NumField(); i++ {
			n.Kids = append(n.Kids, Reflect(v.Field(i)))
		}
		return n
	}
	panic("bld.Reflect: unsupported kind " + v.Kind().String())
}

func hx(b []byte) string {
	if len(b) == 0 {
		return "-"
	}
	return hex.EncodeToString(b)
}

func (n *Node) toks(out *[]string) {
	switch n.Kind {
	case "int":
		*out = append(*out, "i"+strconv.FormatInt(n.I, 10))
	case "enum":
		*out = append(*out, "e"+strconv.FormatUint(n.U, 10))
	case "bits":
		*out = append(*out, "b"+strconv.FormatUint(n.U, 10)+":"+hx(n.B))
	case "octs":
		*out = append(*out, "o"+hx(n.B))
	case "oid":
		*out = append(*out, "d"+hx(n.B))
	case "str":
		*out = append(*out, "s"+hx(n.B))
	case "bool":
		if n.U != 0 {
			*out = append(*out, "t")
		} else {
			*out = append(*out, "f")
		}
	case "nil":
		*out = append(*out, "n")
	case "ptr":
		*out = append(*out, "p")
		n.Kids[0].toks(out)
	case "struct":
		*out = append(*out, "(")
		for _, k := range n.Kids {
			k.toks(out)
		}
		*out = append(*out, ")")
	case "slice":
		*out = append(*out, "[")
		for _, k := range n.Kids {
			k.toks(out)
		}
		*out = append(*out, "]")
	}
}

// Tokens prints the tree in the token language of cmd/corr/aperval.go / Driver/Aper.lean.
func (n *Node) Tokens() string {
	var out []string
	n.toks(&out)
	return strings.Join(out, " ")
}

func (n *Node) Equal(m *Node) bool {
	if n.Kind != m.Kind || n.I != m.I || n.U != m.U || string(n.B) != string(m.B) || len(n.Kids) != len(m.Kids) {
		return false
	}
	for i := range n.Kids {
		if !n.Kids[i].Equal(m.Kids[i]) {
			return false
		}
	}
	return true
}

// ---------------------------------------------------------------- argument tokens

type BadArg struct{ Why string }

type stream struct {
	toks []string
	i    int
}

func (s *stream) next() string {
	if s.i >= len(s.toks) {
		panic(BadArg{"missing token"})
	}
	t := s.toks[s.i]
	s.i++
	return t
}

func (s *stream) peek() string {
	if s.i >= len(s.toks) {
		return ""
	}
	return s.toks[s.i]
}

func unhex(s string) []byte {
	if s == "-" {
		return []byte{}
	}
	b, err := hex.DecodeString(s)
	if err != nil {
		panic(BadArg{"hex"})
	}
	return b
}

func pref(tok, p string) string {
	if !strings.HasPrefix(tok, p) {
		panic(BadArg{"expected " + p + "…, got " + tok})
	}
	return tok[len(p):]
}

// parseNgap fills v (an ngapType value) from tokens; same grammar as cmd/corr parseVal, plus `n` for a nil slice.
func parseNgap(v reflect.Value, s *stream) {
	t := v.Type()
	switch t {
	case aper.BitStringType:
		parts := strings.SplitN(pref(s.next(), "b"), ":", 2)
		if len(parts) != 2 {
			panic(BadArg{"bits"})
		}
		n, err := strconv.ParseUint(parts[0], 10, 64)
		if err != nil {
			panic(BadArg{"bits"})
		}
		raw := unhex(parts[1])
		b := make([]byte, len(raw))
		copy(b, raw)
		v.Set(reflect.ValueOf(aper.BitString{Bytes: b, BitLength: n}))
		return
	case aper.OctetStringType:
		v.SetBytes(unhex(pref(s.next(), "o")))
		return
	case aper.ObjectIdentifierType:
		v.SetBytes(unhex(pref(s.next(), "d")))
		return
	case aper.EnumeratedType:
		n, err := strconv.ParseUint(pref(s.next(), "e"), 10, 64)
		if err != nil {
			panic(BadArg{"enum"})
		}
		v.SetUint(n)
		return
	}
	switch v.Kind() {
	case reflect.Int, reflect.Int32, reflect.Int64:
		n, err := strconv.ParseInt(pref(s.next(), "i"), 10, 64)
		if err != nil {
			panic(BadArg{"int"})
		}
		v.SetInt(n)
	case reflect.Bool:
		tok := s.next()
		if tok != "t" && tok != "f" {
			panic(BadArg{"bool"})
		}
		v.SetBool(tok == "t")
	case reflect.String:
		v.SetString(string(unhex(pref(s.next(), "s"))))
	case reflect.Ptr:
		tok := s.next()
		if tok == "n" {
			return
		}
		if tok != "p" {
			panic(BadArg{"ptr"})
		}
		p := reflect.New(t.Elem())
		parseNgap(p.Elem(), s)
		v.Set(p)
	case reflect.Slice:
		tok := s.next()
		if tok == "n" {
			return
		}
		if tok != "[" {
			panic(BadArg{"slice"})
		}
		sl := reflect.MakeSlice(t, 0, 0)
		for s.peek() != "]" {
			e := reflect.New(t.Elem()).Elem()
			parseNgap(e, s)
			sl = reflect.Append(sl, e)
		}
		s.next()
		v.Set(sl)
	case reflect.Struct:
		if s.next() != "(" {
			panic(BadArg{"struct"})
		}
		for i := 0; i < v.NumField(); i++ {
			parseNgap(v.Field(i), s)
		}
		if s.next() != ")" {
			panic(BadArg{"struct end"})
		}
	default:
		panic(BadArg{"unsupported kind " + v.Kind().String()})
	}
}

// ParseArgs turns the argument tokens of one op into the reflect values the entry point is called with.
func ParseArgs(e *Entry, toks []string) []reflect.Value {
	ft := reflect.TypeOf(e.Fn)
	s := &stream{toks: toks}
	args := make([]reflect.Value, ft.NumIn())
	for k := 0; k < ft.NumIn(); k++ {
		t := ft.In(k)
		v := reflect.New(t).Elem()
		switch {
		case t == tInt64:
			n, err := strconv.ParseInt(pref(s.next(), "i"), 10, 64)
			if err != nil {
				panic(BadArg{"int64"})
			}
			v.SetInt(n)
		case t == tUint64:
			n, err := strconv.ParseUint(pref(s.next(), "i"), 10, 64)
			if err != nil {
				panic(BadArg{"uint64"})
			}
			v.SetUint(n)
		case t == tString:
			v.SetString(string(unhex(pref(s.next(), "s"))))
		case isBytes(t):
			tok := s.next()
			if tok != "n" {
				raw := unhex(pref(tok, "o"))
				b := make([]byte, len(raw)) // cap == len: an append by the callee cannot write into a shared array
				copy(b, raw)
				v.SetBytes(b)
			}
		case t == tInt64s:
			tok := s.next()
			if tok != "n" {
				if tok != "[" {
					panic(BadArg{"[]int64"})
				}
				sl := []int64{}
				for s.peek() != "]" {
					n, err := strconv.ParseInt(pref(s.next(), "i"), 10, 64)
					if err != nil {
						panic(BadArg{"[]int64 element"})
					}
					sl = append(sl, n)
				}
				s.next()
				v.Set(reflect.ValueOf(sl))
			}
		case t == tPInt64:
			tok := s.next()
			if tok != "n" {
				if tok != "p" {
					panic(BadArg{"*int64"})
				}
				n, err := strconv.ParseInt(pref(s.next(), "i"), 10, 64)
				if err != nil {
					panic(BadArg{"*int64"})
				}
				v.Set(reflect.ValueOf(&n))
			}
		default:
			parseNgap(v, s)
		}
		args[k] = v
	}
	if s.i != len(s.toks) {
		panic(BadArg{"trailing tokens"})
	}
	return args
}

// ArgTokens prints call arguments in the token language ParseArgs reads.
func ArgTokens(args []reflect.Value) string {
	var out []string
	for _, a := range args {
		t := a.Type()
		switch {
		case isBytes(t) && a.IsNil(), t == tInt64s && a.IsNil():
			out = append(out, "n")
		case t.Kind() == reflect.Slice && !isBytes(t) && a.IsNil():
			out = append(out, "n")
		default:
			out = append(out, Reflect(a).Tokens())
		}
	}
	return strings.Join(out, " ")
}

// ---------------------------------------------------------------- calling

// DefaultPlmn is the value ngapTestpacket's init() gives TestPlmn.
var DefaultPlmn = []byte{0x02, 0xf8, 0x39}

// SetPlmnState makes the op self-contained: `-` = nothing announced yet (the package default), otherwise the
// PLMN is announced by running the real BuildNGSetupRequest first.
func SetPlmnState(tok string) {
	if tok == "-" {
		ngapTestpacket.TestPlmn.Value = aper.OctetString(append([]byte{}, DefaultPlmn...))
		return
	}
	ngapTestpacket.BuildNGSetupRequest(unhex(tok))
}

// Call runs the entry point. For a builder the result is the NGAPPDU, for a wrapper the octets and the error.
func Call(e *Entry, args []reflect.Value) (pdu *ngapType.NGAPPDU, octets []byte, err error) {
	out := reflect.ValueOf(e.Fn).Call(args)
	if e.Wrapper {
		octets = out[0].Bytes()
		if !out[1].IsNil() {
			err = out[1].Interface().(error)
		}
		return nil, octets, err
	}
	p := out[0].Interface().(ngapType.NGAPPDU)
	return &p, nil, nil
}

// ParseTokens reads a value back from its token text (no type information needed).
func ParseTokens(toks []string) (*Node, []string) {
	if len(toks) == 0 {
		panic(BadArg{"empty token list"})
	}
	t, rest := toks[0], toks[1:]
	switch t {
	case "n":
		return &Node{Kind: "nil"}, rest
	case "t":
		return &Node{Kind: "bool", U: 1}, rest
	case "f":
		return &Node{Kind: "bool"}, rest
	case "p":
		k, r := ParseTokens(rest)
		return &Node{Kind: "ptr", Kids: []*Node{k}}, r
	case "(", "[":
		n := &Node{Kind: "struct"}
		cl := ")"
		if t == "[" {
			n.Kind, cl = "slice", "]"
		}
		for {
			if len(rest) == 0 {
				panic(BadArg{"unterminated " + t})
			}
			if rest[0] == cl {
				return n, rest[1:]
			}
			var k *Node
			k, rest = ParseTokens(rest)
			n.Kids = append(n.Kids, k)
		}
	}
	body := t[1:]
	switch t[0] {
	case 'i':
		v, err := strconv.ParseInt(body, 10, 64)
		if err != nil {
			panic(BadArg{"int token"})
		}
		return &Node{Kind: "int", I: v}, rest
	case 'e':
		v, err := strconv.ParseUint(body, 10, 64)
		if err != nil {
			panic(BadArg{"enum token"})
		}
		return &Node{Kind: "enum", U: v}, rest
	case 'o':
		return &Node{Kind: "octs", B: unhex(body)}, rest
	case 's':
		return &Node{Kind: "str", B: unhex(body)}, rest
	case 'd':
		return &Node{Kind: "oid", B: unhex(body)}, rest
	case 'b':
		parts := strings.SplitN(body, ":", 2)
		if len(parts) != 2 {
			panic(BadArg{"bits token"})
		}
		n, err := strconv.ParseUint(parts[0], 10, 64)
		if err != nil {
			panic(BadArg{"bits token"})
		}
		return &Node{Kind: "bits", B: unhex(parts[1]), U: n}, rest
	}
	panic(BadArg{"token " + t})
}
