package bld

import (
	"bufio"
	"io"
	"os"
	"os/exec"
	"strings"
	"sync"
	"syscall"
	"time"
)

// The builders end in github.com/calee0219/fatal.Fatalf (fmt.Println + os.Exit(1)) when a nested
// aper.MarshalWithParams or hex.DecodeString fails. os.Exit cannot be recovered in-process, so every
// builder call runs in a child process (the same binary, worker mode); a child that dies is observed as
// the outcome class "exit" and restarted.

const WorkerEnv = "VERIF_BLD_WORKER"

func InWorker() bool { return os.Getenv(WorkerEnv) == "1" }

type Worker struct {
	Args []string   // arguments that put the binary into worker mode
	mu   sync.Mutex // one request at a time: a caller that gave up waiting must not overlap with the next request
	cmd  *exec.Cmd
	in   io.WriteCloser
	out  *bufio.Reader
}

func (w *Worker) start() error {
	exe, err := os.Executable()
	if err != nil {
		return err
	}
	cmd := exec.Command(exe, w.Args...)
	cmd.Env = append(os.Environ(), WorkerEnv+"=1")
	in, err := cmd.StdinPipe()
	if err != nil {
		return err
	}
	out, err := cmd.StdoutPipe()
	if err != nil {
		return err
	}
	if err := cmd.Start(); err != nil {
		return err
	}
	w.cmd, w.in, w.out = cmd, in, bufio.NewReaderSize(out, 1<<20)
	return nil
}

func (w *Worker) stop() {
	if w.cmd != nil {
		w.in.Close()
		if os.Getenv("GOCOVERDIR") != "" {
			// coverage mode (./check --cover): the child writes its counters when it returns from main, which it does on
			// the end of its input; give it the time before the kill
			done := make(chan struct{})
			go func() { w.cmd.Wait(); close(done) }()
			select {
			case <-done:
				w.cmd = nil
				return
			case <-time.After(3 * time.Second):
			}
			w.cmd.Process.Kill()
			<-done
			w.cmd = nil
			return
		}
		w.cmd.Process.Kill()
		w.cmd.Wait()
		w.cmd = nil
	}
}

func (w *Worker) Close() { w.stop() }

// Do sends one request line and returns the reply line; "exit" if the child terminated instead of
// answering, "hang" if it did not answer within 4 s (plus 1 s per 16 K characters of the request).
func (w *Worker) Do(line string) string {
	w.mu.Lock()
	defer w.mu.Unlock()
	if w.cmd == nil {
		if err := w.start(); err != nil {
			panic("bld worker: " + err.Error())
		}
	}
	if _, err := io.WriteString(w.in, line+"\n"); err != nil {
		w.stop()
		return "exit"
	}
	type reply struct {
		s   string
		err error
	}
	ch := make(chan reply, 1)
	rd := w.out
	go func() {
		s, err := rd.ReadString('\n')
		ch <- reply{s, err}
	}()
	select {
	case r := <-ch:
		if r.err != nil {
			w.stop()
			return "exit"
		}
		return strings.TrimRight(r.s, "\n")
	// 4 s, and one more second for every 16 K characters of the request (a NAS-PDU of 128 K octets is built, encoded, decoded
	// for the summary and encoded again for the retention check: about 4 s of honest work)
	case <-time.After(4*time.Second + time.Duration(len(line)/16384)*time.Second):
		w.stop()
		return "hang"
	}
}

// Serve is the child side: one reply line per request line, flushed at once.
func Serve(in io.Reader, out io.Writer, handle func(line string) string) {
	sc := bufio.NewScanner(in)
	sc.Buffer(make([]byte, 1<<20), 1<<26)
	w := bufio.NewWriterSize(out, 1<<20)
	for sc.Scan() {
		w.WriteString(handle(sc.Text()))
		w.WriteByte('\n')
		w.Flush()
		if f, ok := out.(interface{ Flush() error }); ok {
			f.Flush()
		}
	}
}

// QuietStdout duplicates fd 1 for the protocol and points fd 1 and 2 at /dev/null (the code under test prints).
func QuietStdout() *os.File {
	fd, err := syscall.Dup(1)
	if err != nil {
		panic(err)
	}
	null, err := os.OpenFile("/dev/null", os.O_WRONLY, 0)
	if err != nil {
		panic(err)
	}
	syscall.Dup2(int(null.Fd()), 1)
	if os.Getenv("VERIF_CORR_STDERR") == "" {
		syscall.Dup2(int(null.Fd()), 2)
	}
	return os.NewFile(uintptr(fd), "protocol")
}
