package bld

import (
	"reflect"

	"free5gclib/ngap"
	"free5gclib/ngap/ngapType"
)

// Result of running one entry point in-process.
type Result struct {
	Class   string // ok | err | panic | bad-op
	Octets  []byte // ngap.Encoder output (Class ok)
	PDU     *Node  // the builder's return value, reflected BEFORE encoding (nil for wrappers)
	Raw     *ngapType.NGAPPDU
	Aliased bool // the result of the PREVIOUS call changed while this one ran
}

// Run executes `<Name> <plmn|-> <arg tokens…>` in this process. A Go panic is reported as class "panic";
// os.Exit inside the builder kills the process (the caller runs this in a worker, see worker.go).
func Run(toks []string) (res Result) {
	defer func() {
		if r := recover(); r != nil {
			if _, bad := r.(BadArg); bad {
				res = Result{Class: "bad-op"}
			} else {
				res = Result{Class: "panic"}
			}
		}
	}()
	if len(toks) < 2 {
		panic(BadArg{"short op"})
	}
	e := Lookup(toks[0])
	if e == nil {
		panic(BadArg{"unknown entry point"})
	}
	args := ParseArgs(e, toks[2:])
	SetPlmnState(toks[1])
	pdu, octets, err := Call(e, args)
	// what the previous call handed out must be unaffected by this call (no IE array, buffer or cache shared between messages)
	aliased := prevChanged()
	if e.Wrapper {
		if err != nil {
			prevLive = nil
			return Result{Class: "err", Aliased: aliased}
		}
		snap := string(octets)
		prevLive = func() bool { return string(octets) != snap }
		return Result{Class: "ok", Octets: octets, Aliased: aliased}
	}
	node := Reflect(reflect.ValueOf(pdu).Elem()) // before encoding: the encoder masks BIT STRING octets in place
	octets, err = ngap.Encoder(*pdu)
	if err != nil {
		prevLive = nil
		return Result{Class: "err", PDU: node, Raw: pdu, Aliased: aliased}
	}
	{
		held, snap := pdu, string(octets)
		prevLive = func() bool {
			again, err := ngap.Encoder(*held) // the PDU built by the previous call, encoded after the next one was built
			return err != nil || string(again) != snap
		}
	}
	return Result{Class: "ok", Octets: octets, PDU: node, Raw: pdu, Aliased: aliased}
}

var prevLive func() bool

func prevChanged() (changed bool) {
	if prevLive == nil {
		return false
	}
	defer func() {
		if recover() != nil {
			changed = true
		}
	}()
	return prevLive()
}

// Text is the canonical result of the `build` op.
func (r Result) Text() string {
	s := r.Class
	if r.Class == "ok" {
		s += " " + hx(r.Octets)
	}
	if r.PDU != nil {
		s += " | " + r.PDU.Tokens()
	}
	if r.Aliased {
		s += " ALIASED:previous-builder-call"
	}
	return s
}
