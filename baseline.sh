#!/bin/sh
# Runs the repository's pinned test suite with the verif guard OFF (no -tags verif).
set -e
export GOPROXY=off GOSUMDB=off GOTOOLCHAIN=local
for m in . ./src/free5gclib ./src/stgutg ./src/tglib; do
  (cd /repo/$m && MF=""; gw=$(go env GOWORK 2>/dev/null); if [ -z "$gw" ] || [ "$gw" = off ]; then MF="-mod=mod"; fi; go test $MF -vet=off -count=1 -timeout 25m ./...)
done
