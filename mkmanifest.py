#!/usr/bin/env python3
"""Writes MANIFEST.json from vlib/props.py (claimed) and vlib/na.py (not applicable)."""
import json, os, sys
sys.path.insert(0, os.path.dirname(os.path.abspath(__file__)))
from vlib import props
try:
    from vlib.na import NOT_APPLICABLE
except ImportError:
    NOT_APPLICABLE = {}
ids = [json.loads(l)["id"] for l in open(os.path.join(os.path.dirname(os.path.abspath(__file__)), "properties.jsonl"))]
checks = []
for pid in ids:
    if pid not in props.PROPS:
        continue
    p = props.PROPS[pid]
    checks.append({
        "property_id": pid,
        "quick_cmd": "./check %s --tier quick" % pid,
        "thorough_cmd": "./check %s --tier thorough" % pid,
        "evidence_file": "/verif/evidence/%s.json" % pid,
        "replay_cmd_template": "./check %s --replay {path}" % pid,
        "engine": "lean4-proof+correspondence",
        "level_claimed": {"category": "proof", "text": p.level_text or p.title, "design_ref": "DESIGN.md section 5, " + pid},
        "level_note": p.level_note,
        "technique": p.technique,
    })
na = [{"property_id": pid, "reason": NOT_APPLICABLE.get(pid, "not yet built in this session; see DESIGN.md")}
      for pid in ids if pid not in props.PROPS]
m = {
    "version": 1,
    "setup_cmd": "./setup.sh",
    "hooks": {
        "guard": "verif",
        "enable": "go build -tags verif (only the process-level checks need the hook: tglib.ConnectToAmf adopts an inherited socket)",
        "baseline_off_cmd": "/verif/baseline.sh",
        "source_commits": json.load(open(os.path.join(os.path.dirname(os.path.abspath(__file__)), "hooks.json")))["source_commits"] if os.path.exists(os.path.join(os.path.dirname(os.path.abspath(__file__)), "hooks.json")) else [],
        "add_only": True,
    },
    "engines": [{
        "name": "lean4-proof+correspondence", "path": "/verif/lean + /verif/harness + /verif/check",
        "serves_properties": [c["property_id"] for c in checks],
        "kind_free_text": "Lean 4 theorems about executable models (lean/Stgutg/Props), models tied to /repo on every run by "
                          "translators (harness/cmd/gen) and by differential execution against the Go code (harness/cmd/corr vs the compiled Lean driver)",
    }],
    "checks": checks,
    "notes": "All checks rebuild the harness from /repo's working tree and regenerate lean/Stgutg/Gen before proving. See DESIGN.md.",
    "not_applicable": na,
}
json.dump(m, open(os.path.join(os.path.dirname(os.path.abspath(__file__)), "MANIFEST.json"), "w"), indent=1)
print("checks:", [c["property_id"] for c in checks], "not claimed:", [n["property_id"] for n in na])
