import Stgutg.Base.Hex
