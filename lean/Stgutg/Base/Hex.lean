/-
  Bytes, hex parsing/printing and small helpers shared by every model, spec and the driver.
  Core Lean only (the driver is linked as a `lean_exe`).
-/
namespace Stgutg

abbrev Bytes := List UInt8

def hexVal (c : Char) : Option Nat :=
  if '0' ≤ c ∧ c ≤ '9' then some (c.toNat - '0'.toNat)
  else if 'a' ≤ c ∧ c ≤ 'f' then some (c.toNat - 'a'.toNat + 10)
  else if 'A' ≤ c ∧ c ≤ 'F' then some (c.toNat - 'A'.toNat + 10)
  else none

def ofHexAux : List Char → Bytes → Option Bytes
  | [], acc => some acc.reverse
  | [_], _ => none
  | a :: b :: rest, acc =>
    match hexVal a, hexVal b with
    | some x, some y => ofHexAux rest (UInt8.ofNat (x * 16 + y) :: acc)
    | _, _ => none

/-- `"-"` denotes the empty byte string on the line protocol. -/
def ofHex? (s : String) : Option Bytes :=
  if s = "-" then some [] else ofHexAux s.toList []

def hexChar (n : Nat) : Char := if n < 10 then Char.ofNat (48 + n) else Char.ofNat (87 + n)

def toHex (bs : Bytes) : String :=
  if bs.isEmpty then "-" else
  String.ofList (bs.flatMap fun b => [hexChar (b.toNat / 16), hexChar (b.toNat % 16)])

/-- Big-endian bytes → Nat. -/
def beNat (bs : Bytes) : Nat := bs.foldl (fun a b => a * 256 + b.toNat) 0

/-- `n` as `w` big-endian octets (truncating). -/
def natBE (w n : Nat) : Bytes :=
  (List.range w).map fun i => UInt8.ofNat (n / 256 ^ (w - 1 - i))

def xorBytes (a b : Bytes) : Bytes := List.zipWith (· ^^^ ·) a b

/-- Outcome classes shared with the Go harness: value | error | panic | hang. -/
inductive Err where
  | error | panic | hang
  deriving DecidableEq, Repr, Inhabited

abbrev Res (α : Type) := Except Err α

def Err.tag : Err → String
  | .error => "err" | .panic => "panic" | .hang => "hang"

def resHex : Res Bytes → String
  | .ok b => "ok " ++ toHex b
  | .error e => e.tag

end Stgutg
