/-
  External primitives every security model and theorem is parametric in.
  (Go: crypto/aes, crypto/cipher.NewCTR, github.com/aead/cmac, crypto/hmac+sha256.)
-/
import Stgutg.Base.Hex
namespace Stgutg

structure Prims where
  /-- AES-128 block encryption: key(16) → block(16) → block(16) -/
  aes : Bytes → Bytes → Bytes
  /-- `cipher.NewCTR(aes(key), iv).XORKeyStream(out, msg)` -/
  ctr : Bytes → Bytes → Bytes → Bytes
  /-- `cmac.Sum(msg, aes(key), 16)` -/
  cmac : Bytes → Bytes → Bytes
  /-- HMAC-SHA-256 key msg -/
  hmac : Bytes → Bytes → Bytes

end Stgutg
