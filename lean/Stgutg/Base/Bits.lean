/- Bit strings as `List Bool` (most significant bit first), conversions to/from `Nat` and octets. -/
import Stgutg.Base.Hex
namespace Stgutg

abbrev Bits := List Bool

/-- the `w` low bits of `n`, most significant first -/
def natToBits : Nat → Nat → Bits
  | 0, _ => []
  | w + 1, n => n.testBit w :: natToBits w n

def bitsToNat (b : Bits) : Nat := b.foldl (fun a x => 2 * a + (if x then 1 else 0)) 0

def byteBits (b : UInt8) : Bits := natToBits 8 b.toNat

def bytesToBits (bs : Bytes) : Bits := bs.flatMap byteBits

/-- pack into octets, the last one padded with zero bits (fuel = number of bits) -/
def bitsToBytesAux : Nat → Bits → Bytes
  | 0, _ => []
  | fuel + 1, b =>
    if b.isEmpty then [] else
    UInt8.ofNat (bitsToNat (b.take 8 ++ List.replicate (8 - (b.take 8).length) false)) :: bitsToBytesAux fuel (b.drop 8)

def bitsToBytes (b : Bits) : Bytes := bitsToBytesAux b.length b

/-- number of padding bits to the next octet boundary -/
def padLen (pos : Nat) : Nat := (8 - pos % 8) % 8

@[simp] theorem natToBits_length (w n : Nat) : (natToBits w n).length = w := by
  induction w with
  | zero => rfl
  | succ w ih => simp [natToBits, ih]

end Stgutg
