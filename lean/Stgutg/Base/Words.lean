/-
  Big-endian word ↔ octet notation shared by models and specifications
  (the standards write `A ‖ B`, Go writes `binary.BigEndian`).
-/
import Stgutg.Base.Hex
namespace Stgutg

/-- the octets of a 32-bit word, most significant first -/
def u32Bytes (w : UInt32) : Bytes := [(w >>> 24).toUInt8, (w >>> 16).toUInt8, (w >>> 8).toUInt8, w.toUInt8]

/-- big-endian octets → 32-bit word (`binary.BigEndian.Uint32`; any length, later octets are less significant) -/
def be32 (b : Bytes) : UInt32 := b.foldl (fun a x => (a <<< 8) ||| x.toUInt32) 0

/-- big-endian octets → 64-bit word (`binary.BigEndian.Uint64`) -/
def be64 (b : Bytes) : UInt64 := b.foldl (fun a x => (a <<< 8) ||| x.toUInt64) 0

@[simp] theorem u32Bytes_length (w : UInt32) : (u32Bytes w).length = 4 := rfl

end Stgutg
