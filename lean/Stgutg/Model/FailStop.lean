import Stgutg.Model.FailStopTypes

/-!
# Fail-stop model (C19): what the test-mode program does against a peer that answers, answers garbage, or closes

The program is the *generated* script (`Gen/Script.lean`): per procedure the ordered I/O actions with their `checked`
flags. This file gives it an executable meaning.

* `fuse` pairs every `conn.Read` with the `ngap.Decoder` call on its buffer (`recv`).
* `flat` unrolls `main`'s test-mode branch for given configuration counts into one list of operations
  (loops `for i := 0; i < bound; i++`, procedure calls inlined, `L[i]` → `need L i`).
* `exec` runs operations against the peer: a list of replies consumed by the reads in order, and optionally the number
  of uplink messages after which the peer closes the association.

Not modelled (trusted, tied by the process-level runs): kernel socket semantics (EOF on a closed peer, EPIPE on a write
to it), `os.Exit`, the Go scheduler, the message builders (they cannot fail because of the peer). A peer that neither
answers nor closes leaves the program `blocked` — outside the property's fault model.
-/
namespace Stgutg.Model.FailStop

/-- what the peer does for one `conn.Read` of the program -/
inductive Reply where
  /-- the message the program expects at this point, well-formed -/
  | ok
  /-- a decodable NGAP PDU that is not the message expected here -/
  | other
  /-- octets that `ngap.Decoder` refuses -/
  | garbage
  /-- the peer has closed: the read returns EOF -/
  | closed
  deriving DecidableEq, Repr, Inhabited

/-- value of a variable holding (something derived from) a decoded PDU -/
inductive Val where
  | good | other | nil
  deriving DecidableEq, Repr, Inhabited

/-- operations after fusing and flattening -/
inductive Op where
  | build (fn : String) (checked : Bool) (emsg : String)
  | write (ngap nas : String) (checked : Bool) (emsg : String)
  /-- `n, err := conn.Read(recvMsg)` [checked `rc`, text `er`] followed by `v, err := ngap.Decoder(recvMsg[:n])`
      [checked `dc`, text `ed`]. `decoded = false`: the buffer is never handed to the decoder. -/
  | recv (rc : Bool) (er : String) (decoded : Bool) (var : Option Nat) (dc : Bool) (ed : String)
  | derive (dst src : Nat)
  | use (var : Nat) (guarded : Bool) (emsg : String)
  | sleep (ms : Nat)
  | print (text : String)
  | report
  | closeConn
  | exit (code : Nat)
  /-- `L = append(L, v)` -/
  | append (list : String)
  /-- `L[i]` evaluated: index out of range is a Go panic -/
  | need (list : String) (i : Nat)
  /-- something the model gives no meaning to (a decode without a read, a call of an unknown procedure) -/
  | bad (why : String)
  deriving DecidableEq, Repr, Inhabited

/-- pair reads with the decoder call that follows them -/
def fuse : List Act → List Op
  | [] => []
  | .read rc er :: .decode v dc ed :: rest => .recv rc er true v dc ed :: fuse rest
  | .read rc er :: rest => .recv rc er false none false "" :: fuse rest
  | .decode _ _ _ :: rest => .bad "decode without read" :: fuse rest
  | .build f c e :: rest => .build f c e :: fuse rest
  | .write n s c e :: rest => .write n s c e :: fuse rest
  | .derive d s :: rest => .derive d s :: fuse rest
  | .use v g e :: rest => .use v g e :: fuse rest
  | .sleep ms :: rest => .sleep ms :: fuse rest
  | .print t :: rest => .print t :: fuse rest
  | .report :: rest => .report :: fuse rest
  | .closeConn :: rest => .closeConn :: fuse rest
  | .exit c :: rest => .exit c :: fuse rest

/-- the five repetition counts of the configuration (Go `int`: may be negative) -/
structure Counts where
  reg : Int
  pdu : Int
  svc : Int
  rel : Int
  dereg : Int
  deriving DecidableEq, Repr, Inhabited

def Counts.get (c : Counts) : String → Int
  | "Test_ue_registation" => c.reg
  | "Test_ue_pdu_establishment" => c.pdu
  | "Test_ue_service" => c.svc
  | "Test_ue_pdu_release" => c.rel
  | "Test_ue_deregistration" => c.dereg
  | _ => 0

/-- `stgutg.Min` -/
def goMin (x y : Int) : Int := if x > y then y else x

def CountExpr.eval (c : Counts) : CountExpr → Int
  | .cfg f => c.get f
  | .min a b => goMin (a.eval c) (b.eval c)

def procOps (procs : List (String × List Act)) (p : String) : List Op :=
  match procs.lookup p with
  | some acts => fuse acts
  | none => [.bad ("unknown procedure " ++ p)]

def flatStmt (procs : List (String × List Act)) (i : Nat) : Stmt → List Op
  | .act a => fuse [a]
  | .call p needs => needs.map (fun l => Op.need l i) ++ procOps procs p
  | .append l => [.append l]

def flatItem (procs : List (String × List Act)) (c : Counts) : MainItem → List Op
  | .stmt s => flatStmt procs 0 s
  | .loop b body => (List.range (b.eval c).toNat).flatMap (fun i => body.flatMap (flatStmt procs i))

def flatItems (procs : List (String × List Act)) (c : Counts) (items : List MainItem) : List Op :=
  items.flatMap (flatItem procs c)

/-- the whole test-mode run for the given counts -/
def flat (s : Script) (c : Counts) : List Op := flatItems s.procs c s.main

/-! ### execution -/

/-- what appears on the terminal -/
inductive Out where
  | line (text : String)
  /-- `ManageError` printed `emsg: <error>` -/
  | error (emsg : String)
  /-- the Go runtime's panic report (stderr) -/
  | goPanic
  deriving DecidableEq, Repr, Inhabited

structure St where
  /-- replies not yet consumed -/
  rs : List Reply
  /-- the program has seen the peer's close -/
  peerClosed : Bool := false
  /-- the peer closes after accepting this many more uplink messages (`none`: it does not) -/
  ulLeft : Option Nat := none
  env : List (Nat × Val) := []
  lens : List (String × Nat) := []
  /-- `some status`: the process has terminated -/
  exit : Option Nat := none
  /-- waiting in a read for a peer that neither answers nor closes -/
  blocked : Bool := false
  printed : List Out := []
  /-- uplink messages delivered: builder, NAS constructor, replies consumed before -/
  ul : List (String × String × Nat) := []
  /-- reads performed (replies consumed, a `closed` one included) -/
  consumed : Nat := 0
  /-- reads that returned a message -/
  dl : Nat := 0
  /-- `consumed` at the time each session was reported -/
  sessions : List Nat := []
  sleptMs : Nat := 0
  deriving Repr, Inhabited

def St.done (s : St) : Bool := s.exit.isSome || s.blocked

/-- the association is closed from the program's point of view -/
def St.isClosed (s : St) : Bool := s.peerClosed || s.ulLeft == some 0

/-- `ManageError(emsg, err)` with `err != nil` -/
def St.fail (s : St) (emsg : String) : St := { s with exit := some 1, printed := s.printed ++ [.error emsg] }

/-- nil dereference / index out of range -/
def St.panic (s : St) : St := { s with exit := some 2, printed := s.printed ++ [.goPanic] }

def lookupVal (env : List (Nat × Val)) (v : Nat) : Val := (env.lookup v).getD .nil

def St.bind (s : St) (var : Option Nat) (v : Val) : St :=
  match var with
  | some x => { s with env := (x, v) :: s.env }
  | none => s

/-- the decoder refused the buffer -/
def St.decodeFail (s : St) (decoded : Bool) (var : Option Nat) (dc : Bool) (ed : String) : St :=
  if !decoded then s
  else if dc then s.fail ed
  else s.bind var .nil

def step (op : Op) (s : St) : St :=
  match op with
  | .build _ _ _ => s
  | .write n nas c e =>
    if s.isClosed then
      -- EPIPE
      if c then s.fail e else { s with peerClosed := true }
    else
      { s with ul := s.ul ++ [(n, nas, s.consumed)], ulLeft := s.ulLeft.map (· - 1) }
  | .recv rc er decoded var dc ed =>
    if s.isClosed then
      -- EOF again
      if rc then s.fail er else ({ s with peerClosed := true }).decodeFail decoded var dc ed
    else
      match s.rs with
      | [] => { s with blocked := true }
      | r :: rest =>
        let s1 := { s with rs := rest, consumed := s.consumed + 1 }
        match r with
        | .closed =>
          let s2 := { s1 with peerClosed := true }
          if rc then s2.fail er else s2.decodeFail decoded var dc ed
        | .garbage => ({ s1 with dl := s1.dl + 1 }).decodeFail decoded var dc ed
        | .ok => ({ s1 with dl := s1.dl + 1 }).bind var .good
        | .other => ({ s1 with dl := s1.dl + 1 }).bind var .other
  | .derive d src => { s with env := (d, lookupVal s.env src) :: s.env }
  | .use v guarded e =>
    match lookupVal s.env v with
    | .good => s
    | _ => if guarded then s.fail e else s.panic
  | .sleep ms => { s with sleptMs := s.sleptMs + ms }
  | .print t => { s with printed := s.printed ++ [.line t] }
  | .report => { s with sessions := s.sessions ++ [s.consumed] }
  | .closeConn => s
  | .exit c => { s with exit := some c }
  | .append l => { s with lens := (l, (s.lens.lookup l).getD 0 + 1) :: s.lens }
  | .need l i => if i < (s.lens.lookup l).getD 0 then s else s.panic
  | .bad _ => { s with blocked := true }

/-- run the operations in order until the process has terminated (or is blocked) -/
def exec : List Op → St → St
  | [], s => s
  | op :: rest, s => if s.done then s else exec rest (step op s)

/-- the completion banner of test mode -/
def banner : String := ">> All tests finished"

/-- initial state: the replies the peer will give, and (optionally) after how many uplink messages it closes -/
def initSt (rs : List Reply) (closeAfter : Option Nat := none) : St := { rs := rs, ulLeft := closeAfter }

/-- `run script counts replies closeAfter` -/
def run (s : Script) (c : Counts) (rs : List Reply) (closeAfter : Option Nat := none) : St :=
  exec (flat s c) (initSt rs closeAfter)

/-! ### static views of an operation list -/

/-- for every read, in order: does an undecodable answer stop the program (decoder called and its error checked)? -/
def kinds : List Op → List Bool
  | [] => []
  | .recv _ _ decoded _ dc _ :: rest => (decoded && dc) :: kinds rest
  | _ :: rest => kinds rest

def writes : List Op → Nat
  | [] => 0
  | .write _ _ _ _ :: rest => writes rest + 1
  | _ :: rest => writes rest

def sleepTotal : List Op → Nat
  | [] => 0
  | .sleep ms :: rest => ms + sleepTotal rest
  | _ :: rest => sleepTotal rest

/-- what fail-stop needs of one operation: read and write errors reach `ManageError`; a decoder error reaches it or
    the decoded value is never used; no successful exit and no completion banner. -/
def safeOp : Op → Bool
  | .write _ _ c _ => c
  | .recv rc _ decoded var dc _ => rc && ((decoded && dc) || var.isNone)
  | .exit c => c != 0
  | .print t => t != banner
  | .bad _ => false
  | _ => true

end Stgutg.Model.FailStop
