/-
  Hand model of the APER *decoder*: src/free5gclib/aper/aper.go (parseField and the parse* helpers,
  GetBitString / GetBitsValue). The reader `perBitData{bytes, byteOffset, bitsOffset}` is modelled as the
  list of bits not yet consumed plus the absolute bit position (byteOffset = pos / 8, bitsOffset = pos % 8;
  `pos ≤ 8·len(bytes)` is an invariant, so `byteOffset == len(bytes)` ⇔ no bits are left).

  Every place where the Go code can trap is an explicit `.panic`:
    * `GetBitString(…, numBits = 0)` indexes `dstBytes[-1]`
    * `fieldType.Field(0)` of an empty struct in getReferenceFieldValue
  Machine-word effects are kept: `GetBitsValue` accumulates in a uint64 (wraps for > 64 bits), `int64(x) + lb` wraps.
-/
import Stgutg.Model.AperEnc

namespace Stgutg.Aper

/-- `len` caches `rest.length` (invariant `Rd.WF`), so that bounds checks cost O(1) in the compiled driver -/
structure Rd where
  rest : Bits
  pos : Nat
  len : Nat
  deriving Repr

def Rd.WF (r : Rd) : Prop := r.len = r.rest.length

def Rd.ofBytes (b : Bytes) : Rd := ⟨bytesToBits b, 0, 8 * b.length⟩

/-- decoder monad: reader state + outcome -/
def D (α : Type) := Rd → Res (α × Rd)

instance : Monad D where
  pure a := fun r => .ok (a, r)
  bind m f := fun r =>
    match m r with
    | .ok (a, r') => f a r'
    | .error e => .error e

def D.fail {α : Type} (e : Err) : D α := fun _ => .error e

/-- log-and-continue: an *error* of `m` is replaced by `(h r)` (value and reader state); panics propagate -/
def D.catchErr {α : Type} (m : D α) (h : Rd → α × Rd) : D α := fun r =>
  match m r with
  | .ok x => .ok x
  | .error .error => .ok (h r)
  | .error e => .error e

/-- the current reader state -/
def D.get : D Rd := fun r => .ok (r, r)

/-- `GetBitString`/`getBitString(numBits)`: the next `n` bits; traps for n = 0 -/
def getBits (n : Nat) : D Bits := fun r =>
  if n = 0 then .error .panic
  else if n > r.len then .error .error
  else .ok (r.rest.take n, ⟨r.rest.drop n, r.pos + n, r.len - n⟩)

/-- `getBitsValue(numBits)` (uint64 accumulator) -/
def getBitsValue (n : Nat) : D Nat := do
  let b ← getBits n
  pure (bitsToNat b % 2 ^ 64)

/-- `parseAlignBits`: padding bits must be zero -/
def parseAlignBits : D Unit := fun r =>
  if r.pos % 8 > 0 then
    match getBitsValue (8 - r.pos % 8) r with
    | .error e => .error e
    | .ok (v, r') => if v ≠ 0 then .error .error else .ok ((), r')
  else .ok ((), r)

/-- aligned read of `n` whole octets (`pd.bytes[byteOffset : byteOffset+n]`), the bounds check as written -/
def takeOctets (n : Nat) : D Bytes := fun r =>
  if 8 * n > r.len then .error .error
  else .ok (bitsToBytes (r.rest.take (8 * n)), ⟨r.rest.drop (8 * n), r.pos + 8 * n, r.len - 8 * n⟩)

/-- `parseConstraintValue(valueRange)` -/
def parseConstraintValue (range : Int) : D Nat :=
  if range ≤ 255 then
    if range < 0 then D.fail .error else getBitsValue (bitsForRange range)
  else if range = 256 then do parseAlignBits; getBitsValue 8
  else if range ≤ 65536 then do parseAlignBits; getBitsValue 16
  else D.fail .error

/-- `parseLength(sizeRange, &repeat)` → (value, repeat) -/
def parseLength (sizeRange : Int) : D (Nat × Bool) :=
  if sizeRange ≤ 65536 ∧ sizeRange > 0 then do
    let v ← parseConstraintValue sizeRange
    pure (v, false)
  else do
    parseAlignBits
    let first ← getBitsValue 8
    if first &&& 128 = 0 then pure (first &&& 0x7f, false)
    else if first &&& 64 = 0 then do
      let second ← getBitsValue 8
      pure (((first &&& 63) <<< 8) ||| second, false)
    else
      let k := first &&& 63
      if k < 1 ∨ k > 4 then D.fail .error else pure (16384 * k, true)

/-- (lb, ub, sizeRange) of parseBitString / parseOctetString -/
def sizeBounds (extensed : Bool) (lbP ubP : Option Int) : Int × Int × Int :=
  if extensed then (0, -1, -1)
  else
    let lb : Int := lbP.getD 0
    match ubP with
    | none => (lb, -1, -1)
    | some ub => (if ub > 65535 then 0 else lb, ub, if ub > 65535 then -1 else ub - lb + 1)

/-- `parseBitString` → (bytes, bit length). The decoded octets are masked to the bit length
    (the repair of F17: the Go code returned whole input octets, unused bits included). -/
def parseBitStringLoop (sizeRange lb : Int) : Nat → Bytes → Nat → D (Bytes × Nat)
  | 0, _, _ => D.fail .hang
  | fuel + 1, accB, accL => do
    let (len, rep) ← parseLength sizeRange
    let rawLength : Nat := ((len : Int) + lb).toNat
    if rawLength = 0 then pure (accB, accL)
    else do
      parseAlignBits
      let r ← D.get
      let sizes := (rawLength + 7) / 8
      if 8 * sizes > r.len then D.fail .error
      else do
        let b ← getBits rawLength
        let accB := accB ++ bitsToBytes b
        let accL := accL + rawLength
        if rep then parseBitStringLoop sizeRange lb fuel accB accL else pure (accB, accL)

def parseBitString (extensed : Bool) (lbP ubP : Option Int) : D (Bytes × Nat) :=
  let (lb, ub, sizeRange) := sizeBounds extensed lbP ubP
  if sizeRange = 1 then
    let n := ub.toNat
    let sizes := (n + 7) / 8
    if sizes > 2 then do
      parseAlignBits
      let r ← D.get
      if 8 * sizes > r.len then D.fail .error
      else do
        let b ← getBits n
        pure (bitsToBytes b, n)
    else do
      let b ← getBits n
      pure (bitsToBytes b, n)
  else do
    let r ← D.get
    parseBitStringLoop sizeRange lb (r.len + 2) [] 0

def parseOctetStringLoop (sizeRange lb : Int) : Nat → Bytes → D Bytes
  | 0, _ => D.fail .hang
  | fuel + 1, acc => do
    let (len, rep) ← parseLength sizeRange
    let rawLength : Nat := ((len : Int) + lb).toNat
    if rawLength = 0 then pure acc
    else do
      parseAlignBits
      let b ← takeOctets rawLength
      let acc := acc ++ b
      if rep then parseOctetStringLoop sizeRange lb fuel acc else pure acc

def parseOctetString (extensed : Bool) (lbP ubP : Option Int) : D Bytes :=
  let (lb, ub, sizeRange) := sizeBounds extensed lbP ubP
  if sizeRange = 1 then
    if ub > 2 then do
      parseAlignBits
      takeOctets ub.toNat
    else do
      let b ← getBits (8 * ub.toNat)
      pure (bitsToBytes b)
  else do
    let r ← D.get
    parseOctetStringLoop sizeRange lb (r.len + 2) []

/-- a uint64 reinterpreted as int64 -/
def toInt64 (n : Nat) : Int :=
  let m : Nat := n % 2 ^ 64
  if m < 2 ^ 63 then (m : Int) else (m : Int) - 2 ^ 64

/-- int64 wrap-around of an exact integer -/
def wrapInt64 (i : Int) : Int := toInt64 (i % (2 ^ 64 : Int)).toNat

/-- `parseInteger(extensed, lb, ub)`; a length octet of 0 is refused (the repair of F10) -/
def parseInteger (extensed : Bool) (lbP ubP : Option Int) : D Int :=
  let (lb, ub, range) : Int × Int × Int :=
    if extensed then (0, -1, -1)
    else match lbP with
      | none => (0, -1, -1)
      | some l => match ubP with
        | none => (l, -1, 0)
        | some u => (l, u, u - l + 1)
  if range = 1 then pure ub
  else if range ≤ 0 then do
    parseAlignBits
    let lenB ← takeOctets 1
    let rawLength := (lenB.headD 0).toNat
    if rawLength = 0 then D.fail .error else do
    let raw ← getBitsValue (rawLength * 8)
    if range < 0 then
      let signBit : Nat := if rawLength * 8 - 1 < 64 then 2 ^ (rawLength * 8 - 1) else 0
      let valueMask : Nat := (signBit + 2 ^ 64 - 1) % 2 ^ 64
      if raw &&& signBit > 0 then
        pure (wrapInt64 (-(toInt64 ((((2 ^ 64 - 1 - raw) &&& valueMask) + 1) % 2 ^ 64))))
      else pure (wrapInt64 (toInt64 raw + lb))
    else pure (wrapInt64 (toInt64 raw + lb))
  else if range ≤ 65536 then do
    let raw ← parseConstraintValue range
    pure (wrapInt64 ((raw : Int) + lb))
  else do
    let t ← getBitsValue (bitsForRange (rangeByteLen range))
    let rawLength := t + 1
    parseAlignBits
    let raw ← getBitsValue (rawLength * 8)
    pure (wrapInt64 (toInt64 raw + lb))

/-- `parseEnumerated` -/
def parseEnumerated (extensed : Bool) (lbP ubP : Option Int) : D Nat :=
  if extensed then D.fail .error
  else match lbP, ubP with
    | some lb, some ub =>
      let range := ub - lb + 1
      if range > 1 then parseConstraintValue range else pure 0
    | _, _ => D.fail .error

/-- `getChoiceIndex(extensed, ub)` -/
def getChoiceIndex (extensed : Bool) (ubP : Option Int) : D Nat :=
  if extensed then D.fail .error
  else match ubP with
    | none => D.fail .error
    | some ub =>
      if ub < 0 then D.fail .error
      else do
        let raw ← parseConstraintValue (ub + 1)
        pure (raw + 1)

/-- Go zero value of a type -/
def zeroVal (env : Env) : Nat → Ty → Val
  | _, .int => .int 0
  | _, .enum => .enum 0
  | _, .bits => .bits [] 0
  | _, .octs => .octs []
  | _, .str => .str []
  | _, .bool => .bool false
  | _, .oid => .oid []
  | _, .ptr _ => .nil
  | _, .slice _ => .slice []
  | 0, .struct _ => .struct []
  | fuel + 1, .struct id =>
    match env[id]? with
    | none => .struct []
    | some sd => .struct (sd.fields.map fun f => zeroVal env fuel f.ty)

/-- the octets of an open type (`parseOpenType`'s length/fragment loop) -/
def openTypeOctets : Nat → Bytes → D Bytes
  | 0, _ => D.fail .hang
  | fuel + 1, acc => do
    let (rawLength, rep) ← parseLength (-1)
    if rawLength = 0 then pure acc
    else do
      parseAlignBits
      let b ← takeOctets rawLength
      let acc := acc ++ b
      if rep then openTypeOctets fuel acc
      else do
        parseAlignBits
        pure acc

/-- elements of a SEQUENCE OF -/
def decElems (f : D Val) : Nat → D (List Val)
  | 0 => pure []
  | n + 1 => do
    let v ← f
    let vs ← decElems f n
    pure (v :: vs)

def setAt (l : List Val) (i : Nat) (v : Val) : List Val := l.set i v

/-- the field loop of a SEQUENCE. `vals` holds the values decoded so far (zero values elsewhere):
    the open-type reference is read from it, exactly as `val.Field(index)` is. -/
def decSeqFields (f : Ty → Params → D Val) (rfv : Ty → Val → Res Int) (allFields : List Field) :
    Nat → Nat → Nat → List Field → List Val → D (List Val)
  | _, _, _, [], vals => pure vals
  | i, optCount, optBits, fd :: frest, vals =>
    let skip : Bool := fd.params.optional ∧ optCount > 0 ∧ ¬ (optBits.testBit (optCount - 1))
    let optCount' := if fd.params.optional ∧ optCount > 0 then optCount - 1 else optCount
    if skip then decSeqFields f rfv allFields (i + 1) optCount' optBits frest vals
    else
      match resolveRef rfv allFields vals i fd with
      | .error e => D.fail e
      | .ok fp => do
        let v ← f fd.ty fp
        decSeqFields f rfv allFields (i + 1) optCount' optBits frest (setAt vals i v)

/-- first alternative (index ≥ 1) whose referenceFieldValue equals `rv` -/
def findAlt (fields : List Field) (rv : Int) : Option Nat :=
  match (fields.drop 1).findIdx? (fun f => f.params.refValue == some rv) with
  | some k => some (k + 1)
  | none => none

/-- the extension bits read at the start of parseField: (sizeExt, valueExt); no value-extension bit for slices -/
def extBits (params : Params) (isSlice : Bool) : D (Bool × Bool) := do
  let sizeExt ← (if params.sizeExt then do let b ← getBitsValue 1; pure (b != 0) else pure false : D Bool)
  let valueExt ← (if params.valueExt && !isSlice then do let b ← getBitsValue 1; pure (b != 0) else pure false : D Bool)
  pure (sizeExt, valueExt)

/-- leaf kinds of parseField -/
def decLeaf (ty : Ty) (params : Params) (sizeExt valueExt : Bool) : D Val :=
  match ty with
  | .bits => do
    let (b, n) ← parseBitString sizeExt params.sizeLB params.sizeUB
    pure (.bits b n)
  | .octs => do
    let b ← parseOctetString sizeExt params.sizeLB params.sizeUB
    pure (.octs b)
  | .str => do
    let b ← parseOctetString sizeExt params.sizeLB params.sizeUB
    pure (.str b)
  | .enum => do
    let n ← parseEnumerated valueExt params.valueLB params.valueUB
    pure (.enum n)
  | .bool => do
    let b ← getBitsValue 1
    pure (.bool (b = 1))
  | .int => do
    let n ← parseInteger valueExt params.valueLB params.valueUB
    pure (.int n)
  | _ => D.fail .error        -- ObjectIdentifier: "Unsupport ObjectIdenfier type"

/-- the element count of `parseSequenceOf` given (lb, sizeRange) -/
def sliceCountWith (lb sizeRange : Int) : D Nat :=
  if sizeRange > 1 then
    -- a failed count read is only logged: the count is then lb; padding already consumed stays consumed
    D.catchErr (do let n ← parseConstraintValue sizeRange; pure (n + lb.toNat)) (fun r =>
      let k := 8 - r.pos % 8
      (lb.toNat, if sizeRange > 255 ∧ r.pos % 8 > 0 ∧ k ≤ r.len then ⟨r.rest.drop k, r.pos + k, r.len - k⟩ else r))
  else if sizeRange = 1 then pure lb.toNat
  else do
    let (n, rep) ← parseLength (-1)
    if rep then D.fail .error else pure n         -- fragmented counts are refused

def sliceCount (params : Params) (sizeExt : Bool) : D Nat :=
  let lb : Int := match params.sizeLB with | some l => if l < 65536 then l else 0 | none => 0
  let sizeRange : Int :=
    match params.sizeUB with
    | some u => if ¬ sizeExt ∧ u < 65536 then u - lb + 1 else -1
    | none => -1
  sliceCountWith lb sizeRange

abbrev stripSize := stripSizeE

/-- struct case of parseField: SEQUENCE, CHOICE or open type. `f` is parseField on the component types,
    `rfv` is getReferenceFieldValue, `zero` the Go zero value. -/
def decStruct (f : Ty → Params → D Val) (rfv : Ty → Val → Res Int) (zero : Ty → Val)
    (sd : StructDef) (params : Params) (valueExt : Bool) : D Val :=
  let optCount := (sd.fields.filter (·.params.optional)).length
  do
    let optBits ← (if optCount > 0 then getBitsValue optCount else pure 0 : D Nat)
    let zeros := sd.fields.map fun fd => zero fd.ty
    if isChoice sd then
      if params.openType then
        match params.refValue with
        | none => D.fail .error
        | some rv =>
          match findAlt sd.fields rv with
          | none => pure (.struct zeros)       -- unknown id: nothing consumed, nil value
          | some present =>
            match sd.fields[present]? with
            | none => D.fail .error
            | some fd => do
              let r0 ← D.get
              let octs ← openTypeOctets (r0.len + 2) []
              -- the inner value is parsed from its own buffer; what is left there is ignored
              match f fd.ty fd.params (Rd.ofBytes octs) with
              | .error e => D.fail e
              | .ok (v, _) => pure (.struct (setAt (setAt zeros 0 (.int present)) present v))
      else do
        -- a failed index read is only logged and leaves present = 0 → error
        let present ← D.catchErr (getChoiceIndex valueExt params.valueUB) (fun r => (0, r))
        if present = 0 then D.fail .error
        else if present ≥ sd.fields.length then D.fail .error
        else
          match sd.fields[present]? with
          | none => D.fail .error
          | some fd => do
            let v ← f fd.ty fd.params
            pure (.struct (setAt (setAt zeros 0 (.int present)) present v))
    else do
      let vals ← decSeqFields f rfv sd.fields 0 optCount optBits sd.fields zeros
      pure (.struct vals)

/-- `parseField(v, pd, params)` for a value of type `ty` -/
def decField (env : Env) : Nat → Ty → Params → D Val
  | 0, _, _ => D.fail .hang
  | fuel + 1, ty, params => fun r0 =>
    if r0.len = 0 then .error .error else      -- "sequence truncated"
    match ty with
    | .ptr t =>
      (do let v ← decField env fuel t params
          pure (.ptr v) : D Val) r0
    | .slice t =>
      (do let (sizeExt, _) ← extBits params true
          let n ← sliceCount params sizeExt
          let vs ← decElems (decField env fuel t (stripSize params)) n
          pure (.slice vs) : D Val) r0
    | .struct id =>
      match env[id]? with
      | none => .error .error
      | some sd =>
        (do let (_, valueExt) ← extBits params false
            decStruct (decField env fuel) (refFieldValue env fuel) (zeroVal env fuel) sd params valueExt : D Val) r0
    | leaf =>
      (do let (sizeExt, valueExt) ← extBits params false
          decLeaf leaf params sizeExt valueExt : D Val) r0

/-- `aper.UnmarshalWithParams(b, &T{}, params)` -/
def unmarshal (env : Env) (fuel : Nat) (ty : Ty) (params : Params) (b : Bytes) : Res Val :=
  match decField env fuel ty params (Rd.ofBytes b) with
  | .error e => .error e
  | .ok (v, _) => .ok v

end Stgutg.Aper
