/-
  Hand model of src/stgutg/ue.go CreateUE and of src/tglib/ranUe.go NewRanUeContext,
  GetAuthSubscription, GetUESecurityCapability (with the nasType.UESecurityCapability setters it calls).
  Go strings are `Bytes`; Go `int` is a 64-bit two's-complement integer (`wrap64`).
  `strconv.Atoi` and `fmt.Sprintf("%0*d")` are standard-library calls, modelled here (see `atoi`, `fmtPad0`).
-/
import Stgutg.Base.Hex

namespace Stgutg.Model.UeIdentity
open Stgutg

/-! ### standard library -/

def isDigitByte (c : UInt8) : Bool := 48 ≤ c && c ≤ 57

/-- the value of a string of decimal digits -/
def decVal (ds : Bytes) : Nat := ds.foldl (fun a c => a * 10 + (c.toNat - 48)) 0

/-- the optional sign `strconv.Atoi` accepts: `(negative, rest)` -/
def splitSign (s : Bytes) : Bool × Bytes :=
  match s with
  | 43 :: r => (false, r)
  | 45 :: r => (true, r)
  | _ => (false, s)

/-- `strconv.Atoi(s)` → `(value, err != nil)`: 0 on a syntax error, the clamped value on a range error -/
def atoi (s : Bytes) : Int × Bool :=
  let neg := (splitSign s).1
  let body := (splitSign s).2
  if body.isEmpty || !body.all isDigitByte then (0, true)
  else
    let n := decVal body
    if neg then (if n > 2 ^ 63 then (-(2 ^ 63 : Int), true) else (-(n : Int), false))
    else if n ≥ 2 ^ 63 then ((2 ^ 63 : Int) - 1, true) else ((n : Int), false)

/-- Go `int` arithmetic wraps -/
def wrap64 (x : Int) : Int := (x + 2 ^ 63) % 2 ^ 64 - 2 ^ 63

/-- `n` written with exactly `w` decimal digits (the low `w` digits) -/
def decW : Nat → Nat → Bytes
  | 0, _ => []
  | w + 1, n => decW w (n / 10) ++ [UInt8.ofNat (48 + n % 10)]

def natDec (n : Nat) : Bytes := (toString n).toList.map fun c => UInt8.ofNat c.toNat

/-- `fmt.Sprintf("%0*d", w, v)`: at least `w` characters, zero padded after the sign -/
def fmtPad0 (w : Nat) (v : Int) : Bytes :=
  if 0 ≤ v then
    if 1 ≤ w ∧ v.toNat < 10 ^ w then decW w v.toNat
    else natDec v.toNat
  else
    let ds := natDec (-v).toNat
    45 :: (List.replicate (w - 1 - ds.length) 48 ++ ds)

/-! ### tglib/ranUe.go -/

/-- the fields of `RanUeContext` that UE creation sets (everything else is the zero value) -/
structure RanUeContext where
  supi : Bytes
  ranUeNgapId : Int
  cipheringAlg : UInt8
  integrityAlg : UInt8
  /-- `AuthenticationSubs.PermanentKey.PermanentKeyValue` -/
  k : Bytes
  /-- `AuthenticationSubs.Opc.OpcValue` -/
  opc : Bytes
  /-- `AuthenticationSubs.Milenage.Op.OpValue` -/
  op : Bytes
  /-- `AuthenticationSubs.AuthenticationManagementField` -/
  amf : Bytes
  deriving DecidableEq, Repr

/-- `NewRanUeContext(supi, ranUeNgapId, cipheringAlg, integrityAlg)` -/
def newRanUeContext (supi : Bytes) (ranUeNgapId : Int) (cipheringAlg integrityAlg : UInt8) : RanUeContext :=
  { supi := supi, ranUeNgapId := ranUeNgapId, cipheringAlg := cipheringAlg, integrityAlg := integrityAlg,
    k := [], opc := [], op := [], amf := [] }

/-- `ue.AuthenticationSubs = GetAuthSubscription(K, OPC, OP)`; AMF field "8000" -/
def setAuthSubscription (ue : RanUeContext) (k opc op : Bytes) : RanUeContext :=
  { ue with k := k, opc := opc, op := op, amf := [56, 48, 48, 48] }

/-- `security.AlgCiphering128NEA0`, `security.AlgIntegrity128NIA2` -/
def algCiphering128NEA0 : UInt8 := 0
def algIntegrity128NIA2 : UInt8 := 2

/-! ### stgutg/ue.go -/

/-- `"imsi-"` -/
def imsiPrefix : Bytes := [105, 109, 115, 105, 45]

/-- `CreateUE(imsi, ueNumber, K, OPC, OP)`:
      parsedIMSI, err := strconv.Atoi(imsi)            (an error is printed, the value is used)
      ranUeNgapId := (parsedIMSI + ueNumber) % 1e4
      supi := fmt.Sprintf("imsi-%0*d", len(imsi), parsedIMSI+ueNumber)      (F4 repaired) -/
def createUE (imsi : Bytes) (ueNumber : Int) (k opc op : Bytes) : RanUeContext :=
  let parsedIMSI := (atoi imsi).1
  let sum := wrap64 (parsedIMSI + ueNumber)
  let ranUeNgapId := Int.tmod sum 10000
  let supi := imsiPrefix ++ fmtPad0 imsi.length sum
  setAuthSubscription (newRanUeContext supi ranUeNgapId algCiphering128NEA0 algIntegrity128NIA2) k opc op

/-! ### GetUESecurityCapability -/

structure UESecurityCapability where
  iei : UInt8
  len : UInt8
  buffer : Bytes
  deriving DecidableEq, Repr

/-- the setters `a.Buffer[i] = (a.Buffer[i] & mask) + ((v & 1) << shift)` -/
def setField (x mask v : UInt8) (shift : UInt8) : UInt8 := (x &&& mask) + ((v &&& 1) <<< shift)

/-- `(ue *RanUeContext).GetUESecurityCapability()`; the buffer is `[]uint8{0x00, 0x00}`, the setters cannot trap -/
def getUESecurityCapability (cipheringAlg integrityAlg : UInt8) : UESecurityCapability :=
  let b0 : UInt8 := 0
  let b1 : UInt8 := 0
  let b0 :=
    if cipheringAlg = 0 then setField b0 127 1 7        -- SetEA0_5G(1)
    else if cipheringAlg = 1 then setField b0 191 1 6   -- SetEA1_128_5G(1)
    else if cipheringAlg = 2 then setField b0 223 1 5   -- SetEA2_128_5G(1)
    else if cipheringAlg = 3 then setField b0 239 1 4   -- SetEA3_128_5G(1)
    else b0
  let b1 :=
    if integrityAlg = 0 then setField b1 127 1 7        -- SetIA0_5G(1)
    else if integrityAlg = 1 then setField b1 191 1 6   -- SetIA1_128_5G(1)
    else if integrityAlg = 2 then setField b1 223 1 5   -- SetIA2_128_5G(1)
    else if integrityAlg = 3 then setField b1 239 1 4   -- SetIA3_128_5G(1)
    else b1
  { iei := 0x2E, len := 2, buffer := [b0, b1] }

end Stgutg.Model.UeIdentity
