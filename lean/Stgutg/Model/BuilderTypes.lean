/-
  C13 — data model of the NGAP message builders (src/tglib/ngapTestpacket/build.go, src/tglib/packet.go).

  A builder is argument-linear: it returns a fixed tree of NGAP structures in which some leaves are the caller's
  arguments (or `TestPlmn`), chosen by a few nil / empty tests on the arguments. A `Template` is that description:
  a decision table from argument classes to a skeleton `Tm` (a `Val` with holes) or to the outcome `panic` / `exit`.
  `Builders.eval` (Model/Builders.lean) fills the holes.  Hand-written templates live in Model/Builders.lean,
  probed ones in Gen/Templates.lean (written by `gen templates`).

  Everything here is numeric (struct ids, field positions): kernel evaluation of string comparisons is far too slow
  for table facts over the 1 431-type schema.
-/
import Stgutg.Model.AperTypes
import Stgutg.Spec.Ts38413

namespace Stgutg.Builders
open Stgutg Stgutg.Aper

/-- what a parameter of an entry point means (harness/internal/bld: the same vocabulary) -/
inductive Role where
  | amf | ran | psi | psilist | nas | ip | tmsi | plmn | gnbid | bitlen | name | cellid | int | str | pint | val
  deriving DecidableEq, Repr, Inhabited

/-- the TS 38.413 messages that have a builder (Spec/Ts38413.lean) -/
abbrev Msg := Spec.Ts38413.Msg

/-- argument-dependent leaves. `i`, `j` are parameter positions. -/
inductive Hole where
  /-- `TestPlmn.Value` (an OCTET STRING) -/
  | plmn
  /-- the argument itself: int64 → INTEGER, string → string, an ngapType value → that value -/
  | arg (i : Nat)
  /-- a `string` argument as a string value -/
  | argStr (i : Nat)
  /-- a slice-of-structs argument (a nil slice is the empty list) -/
  | argSlice (i : Nat)
  /-- a `[]byte` argument as OCTET STRING contents (a nil slice is the empty string) -/
  | argOcts (i : Nat)
  /-- `*p` of a pointer argument -/
  | deref (i : Nat)
  /-- the loop variable of the enclosing `mapInts` -/
  | elem
  /-- `ngapConvert.IPAddressToNgap(arg, "")` -/
  | ip4 (i : Nat)
  /-- `aper.BitString{Bytes: arg, BitLength: 8·len(arg)}` -/
  | bits8 (i : Nat)
  /-- `aper.BitString{Bytes: append(arg i, arg j...), BitLength: 36}` -/
  | cell36 (i j : Nat)
  /-- `aper.BitString{Bytes: arg i, BitLength: arg j}` (the gNB id the NG Setup wrapper writes into the PDU) -/
  | bitsLen (i j : Nat)
  /-- `BitString{hex.DecodeString(arg[:4]), 10}`, `BitString{hex.DecodeString(arg[2:4]), 6}`, `hex.DecodeString(arg[4:])` -/
  | tmsiSet (i : Nat) | tmsiPtr (i : Nat) | tmsiVal (i : Nat)
  deriving DecidableEq, Repr, Inhabited

/-- a `Val` with holes -/
inductive Tm where
  | int (v : Int)
  | enum (v : Nat)
  | bits (b : Bytes) (n : Nat)
  | octs (b : Bytes)
  | str (b : Bytes)
  | bool (b : Bool)
  | nil
  | ptr (t : Tm)
  | struct (fs : List Tm)
  | slice (l : List Tm)
  | hole (h : Hole)
  /-- `for _, x := range arg i { list = append(list, item) }` over a `[]int64` -/
  | mapInts (i : Nat) (item : Tm)
  /-- `aper.MarshalWithParams(t, "valueExt")` of a value of struct type `ty` (an index into the NGAP schema),
      stored as OCTET STRING (the transfer containers) -/
  | enc (ty : Nat) (t : Tm)
  deriving Repr, Inhabited

inductive Outcome where
  | val (t : Tm)
  | panic
  | exit
  deriving Repr, Inhabited

/-- one row of the decision table: the classes of the `dims` arguments (see `Builders.cls`) and what the builder does -/
structure Case where
  cls : List Nat
  out : Outcome
  deriving Repr, Inhabited

structure Template where
  name : String
  message : Msg
  roles : List Role
  /-- the parameters whose class decides the control flow -/
  dims : List Nat
  cases : List Case
  deriving Repr, Inhabited

/-- a CHOICE value: `Present = k`, alternative `k` set, the other `n − 1` alternatives nil -/
def choiceT (n k : Nat) (t : Tm) : Tm :=
  .struct (.int k :: (List.replicate (k - 1) .nil ++ [t] ++ List.replicate (n - k) .nil))

end Stgutg.Builders
