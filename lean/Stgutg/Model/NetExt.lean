/-
  Executable stand-ins for the Go standard-library calls the conversion helpers make
  (`encoding/hex.DecodeString`, `net.ParseIP`, `net.IP.String`; Go 1.23 `net/netip`).
  They are part of the COMPARATOR only: every theorem is stated over an arbitrary `Ext`.
  The correspondence run checks them against the real functions as well (ops `x-hexdec`, `x-parseip`, `x-ipstr`).
-/
import Stgutg.Model.Convert

namespace Stgutg.Model.NetExt
open Stgutg Stgutg.Model.Convert

def hexVal8 (c : UInt8) : Option UInt8 :=
  if 48 ≤ c && c ≤ 57 then some (c - 48)
  else if 97 ≤ c && c ≤ 102 then some (c - 97 + 10)
  else if 65 ≤ c && c ≤ 70 then some (c - 65 + 10)
  else none

/-- `hex.DecodeString`: pairs are decoded until the first bad character; an odd tail is an error -/
def hexDecode : Bytes → Bytes × Bool
  | [] => ([], false)
  | [_] => ([], true)
  | p :: q :: rest =>
    match hexVal8 p, hexVal8 q with
    | some a, some b => let (t, e) := hexDecode rest; (((a <<< 4) ||| b) :: t, e)
    | _, _ => ([], true)

/-- `parseIPv4Fields` -/
def v4Loop : Bytes → Nat → Nat → Nat → Bytes → Bool → Bool → Option Bytes
  | [], val, pos, _, fields, _, _ => if pos < 3 then none else some (fields ++ [UInt8.ofNat val])
  | c :: rest, val, pos, digLen, fields, first, prevDot =>
    if 48 ≤ c && c ≤ 57 then
      if digLen == 1 && val == 0 then none
      else
        let val := val * 10 + (c.toNat - 48)
        if val > 255 then none else v4Loop rest val pos (digLen + 1) fields false false
    else if c == 46 then
      if first || rest.isEmpty || prevDot then none
      else if pos == 3 then none
      else v4Loop rest 0 (pos + 1) 0 (fields ++ [UInt8.ofNat val]) false true
    else none

def parseIPv4Fields (s : Bytes) : Option Bytes := v4Loop s 0 0 0 [] true false

/-- the inner hex-group loop of `parseIPv6`: `(off, acc, rest)` -/
def hexRun : Bytes → Nat → Nat → Option (Nat × Nat × Bytes)
  | [], off, acc => some (off, acc, [])
  | c :: rest, off, acc =>
    match hexVal8 c with
    | some v =>
      let acc := acc * 16 + v.toNat
      if off > 3 then none else if acc > 65535 then none else hexRun rest (off + 1) acc
    | none => some (off, acc, c :: rest)

/-- the `for i < 16` loop of `parseIPv6`; `ip` holds the `i` octets stored so far -/
def v6Loop : Nat → Bytes → Bytes → Option Nat → Option (Bytes × Bytes × Option Nat)
  | 0, s, ip, ell => some (s, ip, ell)
  | fuel + 1, s, ip, ell =>
    if ip.length ≥ 16 then some (s, ip, ell) else
    match hexRun s 0 0 with
    | none => none
    | some (off, acc, rest) =>
      if off == 0 then none else
      match rest with
      | 46 :: _ =>
        if ell.isNone && ip.length != 12 then none
        else if ip.length + 4 > 16 then none
        else match parseIPv4Fields s with
          | none => none
          | some f => some ([], ip ++ f, ell)
      | [] => some ([], ip ++ [UInt8.ofNat (acc / 256), UInt8.ofNat acc], ell)
      | c :: rest1 =>
        let ip := ip ++ [UInt8.ofNat (acc / 256), UInt8.ofNat acc]
        if c != 58 then none
        else match rest1 with
          | [] => none
          | 58 :: rest2 =>
            if ell.isSome then none
            else if rest2.isEmpty then some ([], ip, some ip.length)
            else v6Loop fuel rest2 ip (some ip.length)
          | _ => v6Loop fuel rest1 ip ell

def parseIPv6 (s : Bytes) : Option Bytes :=
  let (s, ell, only) : Bytes × Option Nat × Bool :=
    match s with
    | 58 :: 58 :: rest => (rest, some 0, rest.isEmpty)
    | _ => (s, none, false)
  if only then some (List.replicate 16 0) else
  match v6Loop 9 s [] ell with
  | none => none
  | some (s, ip, ell) =>
    if !s.isEmpty then none
    else if ip.length < 16 then
      match ell with
      | none => none
      | some e => some (ip.take e ++ List.replicate (16 - ip.length) 0 ++ ip.drop e)
    else if ell.isSome then none
    else some ip

/-- `net.ParseIP` (via `netip.ParseAddr`; any zone makes it nil) -/
def parseIP (s : Bytes) : Option Bytes :=
  match s.find? (fun c => c == 46 || c == 58 || c == 37) with
  | some 46 => (parseIPv4Fields s).bind fun f =>
      match f with
      | [a, b, c, d] => some (netIPv4 a b c d)
      | _ => none
  | some 58 => if s.contains 37 then none else parseIPv6 s
  | _ => none

def asciiOf (s : String) : Bytes := s.toList.map fun c => UInt8.ofNat c.toNat

def hexDigitLower (n : Nat) : UInt8 := if n < 10 then UInt8.ofNat (48 + n) else UInt8.ofNat (87 + n)

/-- `appendHex`: lower-case hexadecimal without leading zeros -/
def appendHex (v : Nat) : Bytes :=
  if v ≥ 0x1000 then [hexDigitLower (v / 4096), hexDigitLower (v / 256 % 16), hexDigitLower (v / 16 % 16), hexDigitLower (v % 16)]
  else if v ≥ 0x100 then [hexDigitLower (v / 256 % 16), hexDigitLower (v / 16 % 16), hexDigitLower (v % 16)]
  else if v ≥ 0x10 then [hexDigitLower (v / 16 % 16), hexDigitLower (v % 16)]
  else [hexDigitLower (v % 16)]

def groups16 : Bytes → List Nat
  | a :: b :: rest => (a.toNat * 256 + b.toNat) :: groups16 rest
  | _ => []

/-- length of the run of zero groups starting at the head -/
def zeroRun : List Nat → Nat
  | 0 :: rest => zeroRun rest + 1
  | _ => 0

/-- first longest run (length ≥ 2) of zero groups: `(zeroStart, zeroEnd)`, `(255, 255)` when there is none -/
def findZeros : List Nat → Nat → Nat × Nat → Nat × Nat
  | [], _, best => best
  | g :: rest, i, best =>
    let l := zeroRun (g :: rest)
    let best := if l ≥ 2 && l > best.2 - best.1 then (i, i + l) else best
    findZeros rest (i + 1) best

def groupAt (g : List Nat) (i : Nat) : Nat := match g[i]? with | some v => v | none => 0

def pr6 (g : List Nat) (zs ze : Nat) : Nat → Nat → Bytes
  | 0, _ => []
  | fuel + 1, i =>
    if i ≥ 8 then []
    else if i == zs then
      [58, 58] ++ (if ze ≥ 8 then [] else appendHex (groupAt g ze) ++ pr6 g zs ze fuel (ze + 1))
    else (if i > 0 then [58] else []) ++ appendHex (groupAt g i) ++ pr6 g zs ze fuel (i + 1)

/-- `net.IP.String()` -/
def ipString (ip : Bytes) : Bytes :=
  if ip.length = 0 then asciiOf "<nil>"
  else if ip.length ≠ 4 && ip.length ≠ 16 then
    63 :: ip.flatMap fun b => [hexDigitLower (b.toNat / 16), hexDigitLower (b.toNat % 16)]
  else match to4 (some ip) with
    | some [a, b, c, d] =>
      asciiOf (toString a.toNat ++ "." ++ toString b.toNat ++ "." ++ toString c.toNat ++ "." ++ toString d.toNat)
    | _ =>
      let g := groups16 ip
      let (zs, ze) := findZeros g 0 (255, 255)
      pr6 g zs ze 9 0

/-- the instantiation used by the driver -/
def goExt : Ext := { hexDecode := hexDecode, parseIP := parseIP, ipString := ipString }

end Stgutg.Model.NetExt
