/-
  Hand model of src/free5gclib/nas/security/snow3g/snow3g.go.
  The package-level `lfsr`/`fsm` variables become an explicit state value.
  Tables `sr`/`sq` are regenerated from the source (Gen/Snow3gTables.lean).
-/
import Stgutg.Base.Hex
import Stgutg.Gen.Snow3gTables

namespace Stgutg.Model.Snow3g

/-- `[16]uint32` + `[3]uint32`, as in the Go globals `lfsr.s` and `fsm.r`. -/
structure State where
  s0 : UInt32
  s1 : UInt32
  s2 : UInt32
  s3 : UInt32
  s4 : UInt32
  s5 : UInt32
  s6 : UInt32
  s7 : UInt32
  s8 : UInt32
  s9 : UInt32
  s10 : UInt32
  s11 : UInt32
  s12 : UInt32
  s13 : UInt32
  s14 : UInt32
  s15 : UInt32
  r0 : UInt32
  r1 : UInt32
  r2 : UInt32
  deriving DecidableEq, Repr

/-- `tbl[i]` for a `[256]byte` table; the length fact is proved in Props.C07. -/
def look (tbl : List Nat) (i : UInt32) : UInt8 := UInt8.ofNat (tbl.getD i.toNat 0)

def mulx (v c : UInt8) : UInt8 :=
  if v &&& 0x80 != 0 then (v <<< 1) ^^^ c else v <<< 1

def mulxPow (v : UInt8) (i : Nat) (c : UInt8) : UInt8 :=
  match i with
  | 0 => v
  | n + 1 => mulx (mulxPow v n c) c

def pack4 (r0 r1 r2 r3 : UInt8) : UInt32 :=
  (r0.toUInt32 <<< 24) ||| (r1.toUInt32 <<< 16) ||| (r2.toUInt32 <<< 8) ||| r3.toUInt32

/-- The MixColumn-style S-box of `s1`/`s2`, parametrised by table and reduction constant. -/
def sbox (tbl : List Nat) (c : UInt8) (w : UInt32) : UInt32 :=
  let w0 := (w >>> 24) &&& 0xff
  let w1 := (w >>> 16) &&& 0xff
  let w2 := (w >>> 8) &&& 0xff
  let w3 := w &&& 0xff
  let t0 := look tbl w0
  let t1 := look tbl w1
  let t2 := look tbl w2
  let t3 := look tbl w3
  let r0 := mulx t0 c ^^^ t1 ^^^ t2 ^^^ mulx t3 c ^^^ t3
  let r1 := mulx t0 c ^^^ t0 ^^^ mulx t1 c ^^^ t2 ^^^ t3
  let r2 := t0 ^^^ mulx t1 c ^^^ t1 ^^^ mulx t2 c ^^^ t3
  let r3 := t0 ^^^ t1 ^^^ mulx t2 c ^^^ t2 ^^^ mulx t3 c
  pack4 r0 r1 r2 r3

def s1 (w : UInt32) : UInt32 := sbox Gen.Snow3g.sr 0x1b w
def s2 (w : UInt32) : UInt32 := sbox Gen.Snow3g.sq 0x69 w

def mulAlpha (c : UInt8) : UInt32 :=
  pack4 (mulxPow c 23 0xa9) (mulxPow c 245 0xa9) (mulxPow c 48 0xa9) (mulxPow c 239 0xa9)

def divAlpha (c : UInt8) : UInt32 :=
  pack4 (mulxPow c 16 0xa9) (mulxPow c 39 0xa9) (mulxPow c 6 0xa9) (mulxPow c 64 0xa9)

/-- feedback word shared by both LFSR modes (`byte(x>>24)&0xff`, `byte(x&0xff)`). -/
def feedback (st : State) : UInt32 :=
  (st.s0 <<< 8) ^^^ mulAlpha (st.s0 >>> 24).toUInt8 ^^^ st.s2 ^^^ (st.s11 >>> 8) ^^^
    divAlpha (st.s11 &&& 0xff).toUInt8

def shiftIn (st : State) (v : UInt32) : State :=
  { st with s0 := st.s1, s1 := st.s2, s2 := st.s3, s3 := st.s4, s4 := st.s5, s5 := st.s6,
            s6 := st.s7, s7 := st.s8, s8 := st.s9, s9 := st.s10, s10 := st.s11, s11 := st.s12,
            s12 := st.s13, s13 := st.s14, s14 := st.s15, s15 := v }

def lfsrInitialisationMode (st : State) (f : UInt32) : State := shiftIn st (feedback st ^^^ f)
def lfsrKeystreamMode (st : State) : State := shiftIn st (feedback st)

/-- `clockFsm(lfsr.s[15], lfsr.s[5])` : returns F and the state with the FSM updated. -/
def clockFsm (st : State) : UInt32 × State :=
  let f := (st.s15 + st.r0) ^^^ st.r1
  let r := st.r1 + (st.r2 ^^^ st.s5)
  (f, { st with r2 := s2 st.r1, r1 := s1 st.r0, r0 := r })

def initRound (st : State) : State :=
  let (f, st') := clockFsm st
  lfsrInitialisationMode st' f

def iter {α : Type} (f : α → α) : Nat → α → α
  | 0, a => a
  | n + 1, a => iter f n (f a)

/-- `InitSnow3g(k, iv)`: every one of the 19 words is overwritten, so the previous state is irrelevant. -/
def initSnow3g (k0 k1 k2 k3 iv0 iv1 iv2 iv3 : UInt32) : State :=
  let ff : UInt32 := 0xffffffff
  let st : State :=
    { s0 := k0 ^^^ ff, s1 := k1 ^^^ ff, s2 := k2 ^^^ ff, s3 := k3 ^^^ ff,
      s4 := k0, s5 := k1, s6 := k2, s7 := k3,
      s8 := k0 ^^^ ff, s9 := k1 ^^^ ff ^^^ iv3, s10 := k2 ^^^ ff ^^^ iv2, s11 := k3 ^^^ ff,
      s12 := k0 ^^^ iv1, s13 := k1, s14 := k2, s15 := k3 ^^^ iv0,
      r0 := 0, r1 := 0, r2 := 0 }
  iter initRound 32 st

def genWords : Nat → State → List UInt32 × State
  | 0, st => ([], st)
  | n + 1, st =>
    let (f, st1) := clockFsm st
    let z := f ^^^ st1.s0
    let st2 := lfsrKeystreamMode st1
    let (zs, st3) := genWords n st2
    (z :: zs, st3)

/-- `GenerateKeystream(n, ks)` : one discarded clock, then n words. -/
def generateKeystream (n : Nat) (st : State) : List UInt32 × State :=
  let (_, st1) := clockFsm st
  genWords n (lfsrKeystreamMode st1)

end Stgutg.Model.Snow3g
