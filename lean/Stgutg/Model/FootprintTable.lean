/-
  C20 — the regenerated footprint table (`Gen/Footprint.lean`, written by `gen footprint` from the SSA form of
  /repo) as declared footprints of the interleaving model.  Core Lean only (the driver links this file).
-/
import Stgutg.Model.Interleave
import Stgutg.Gen.Footprint

namespace Stgutg.Model.FootprintTable
open Stgutg.Model.Interleave
open Stgutg.Gen.Footprint (Entry)

/-- Strict reading: a variable whose referent is shared by reference (`shares`) counts as read AND written —
    the analysis no longer sees what is done through the copied reference. -/
def toFP (e : Entry) : FP := { reads := e.reads ++ e.shares, writes := e.writes ++ e.shares }

/-- Reading used for the message builders: a shared referent counts as read only (see `Props/C20.lean`). -/
def toFPShareAsRead (e : Entry) : FP := { reads := e.reads ++ e.shares, writes := e.writes }

/-- declared footprints of the property's entry points, in table order -/
def coreFPs : List FP := Gen.Footprint.footprint.map toFP

/-- the two builders of the NG Setup Request: a gNB-level procedure, run once before any UE exists -/
def isNgSetup (e : Entry) : Bool := e.name == "tglib.GetNGSetupRequest" || e.name == "ngapTestpacket.BuildNGSetupRequest"

/-- the per-UE message builders -/
def ueBuilders : List Entry := Gen.Footprint.builders.filter (fun e => !isNgSetup e)

/-- entry points and per-UE builders together, shared referents read-only -/
def allShareAsRead : List FP := (Gen.Footprint.footprint ++ ueBuilders).map toFPShareAsRead

def find? (name : String) : Option Entry :=
  (Gen.Footprint.footprint ++ Gen.Footprint.builders).find? (fun e => e.name == name)

/-- `true` iff calls of the named entry points / builders, made by different goroutines in any combination
    (the same one twice included), are pairwise interference free according to the table; `none` if a name
    is not in the table -/
def namesDisjoint (names : List String) : Option Bool :=
  (names.mapM find?).map (fun es => footprintsDisjoint (es.map toFPShareAsRead))

end Stgutg.Model.FootprintTable
