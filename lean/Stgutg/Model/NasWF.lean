/-
  Decidable well-formedness of NAS layouts and messages (hypotheses of the C08 theorems, also
  evaluated by the driver to decide when the round-trip property applies to a generated case).
  Core Lean only.
-/
import Stgutg.Model.NasCodec
namespace Stgutg.Nas

def Body.isOctets : Body → Bool
  | .octet | .arr _ => true
  | _ => false

def lenWOK (w : Nat) : Bool := w == 1 || w == 2

/-- statement pairings of a mandatory field under which it round-trips -/
def mandKindOK (s : Shape) : List WOp → List ROp → Bool
  | [.octet], [.octet] => s.body.isOctets
  | [.len, .buf], [.lenSet, .bufPtr] => s.body == .buf && lenWOK s.lenW
  | [.len, .octet], [.lenSet, .octet] => s.body.isOctets && lenWOK s.lenW
  | [.raw], [.raw] => s.body == .none
  | _, _ => false

/-- statement pairings of an optional IE (encode block, decode case) under which it round-trips -/
def optKindOK (s : Shape) : List WOp → List ROp → Bool
  | [.octet], [.new, .setOctet] => s.body == .octet && !s.hasIei && s.lenW == 0
  | [.iei, .octet], [.new, .octet] => s.hasIei && s.newSetsIei && s.body.isOctets
  | [.iei, .len, .octet], [.new, .lenSet, .octet] => s.hasIei && s.newSetsIei && s.body.isOctets && lenWOK s.lenW
  | [.iei, .len, .buf], [.new, .lenSet, .bufLen] => s.hasIei && s.newSetsIei && s.body == .buf && lenWOK s.lenW
  | [.iei, .len, .octetLen], [.new, .lenSet, .octetLen] =>
    s.hasIei && s.newSetsIei && lenWOK s.lenW && (match s.body with | .arr _ => true | _ => false)
  | _, _ => false

/-- the IEI constant is reachable under the decoder's own rule: a half-octet IE (first octet = IEI
    nibble ‖ value) needs 8 ≤ IEI ≤ 15 so that the octet is ≥ 0x80 and maps to the nibble; a
    full-octet IEI must be < 0x80, otherwise the decoder would look at its high nibble only -/
def ieiRangeOK (enc : List WOp) (iei : Nat) : Bool :=
  match enc with
  | [.octet] => 8 ≤ iei && iei < 16
  | _ => iei < 128

/-- unconditional part: encode group i and decode group i are both on struct field i, which is
    not a pointer, with a round-tripping statement pairing -/
def mandWF (fields : List Field) : Nat → List (Nat × List WOp) → List (Nat × List ROp) → Bool
  | _, [], [] => true
  | i, (a, e) :: ge, (b, d) :: gd =>
    a == i && b == i &&
    (match fields[i]? with
      | some f => !f.ptr && mandKindOK f.shape e d
      | none => false) &&
    mandWF fields (i + 1) ge gd
  | _, _, _ => false

/-- optional part: encode block j and decode case j are both on struct field k+j, a pointer, with
    a round-tripping pairing and a reachable IEI; all fields are covered -/
def optWF (fields : List Field) : Nat → List (Nat × List WOp) → List DecCase → Bool
  | i, [], [] => i == fields.length
  | i, (a, e) :: ge, c :: cs =>
    a == i && c.slot == i &&
    (match fields[i]? with
      | some f => f.ptr && optKindOK f.shape e c.ops && ieiRangeOK e c.iei
      | none => false) &&
    optWF fields (i + 1) ge cs
  | _, _, _ => false

def nodupNat : List Nat → Bool
  | [] => true
  | a :: as => !as.contains a && nodupNat as

def layoutWF (L : Layout) : Bool :=
  mandWF L.fields 0 L.encMand L.decMand &&
  optWF L.fields L.encMand.length L.encOpt L.cases &&
  nodupNat (L.cases.map (·.iei))

/-- a layout whose codec is lossless (theorems of Props/C08) -/
def LayoutWF (L : Layout) : Prop := layoutWF L = true
instance (L : Layout) : Decidable (LayoutWF L) := inferInstanceAs (Decidable (_ = true))

/-! ### messages -/

def lenFits (w n : Nat) : Bool := (w == 1 && n < 256) || (w == 2 && n < 65536)

def allZero (bs : Bytes) : Bool := bs.all (· == 0)

/-- value of a mandatory field: fields that are not transmitted are zero, `Len` = |Buffer| -/
def mandValOK (s : Shape) (v : Val) : List WOp → Bool
  | [.octet] => v.iei == 0 && v.len == 0 && v.data.length == s.body.size
  | [.len, .buf] => v.iei == 0 && v.len == v.data.length && lenFits s.lenW v.len
  | [.len, .octet] => v.iei == 0 && lenFits s.lenW v.len && v.data.length == s.body.size
  | [.raw] => v.iei == 0 && v.len == 0 && v.data.isEmpty
  | _ => false

/-- value of an optional IE whose decode case has IEI constant `c` -/
def optValOK (s : Shape) (c : Nat) (v : Val) : List WOp → Bool
  | [.octet] => v.iei == 0 && v.len == 0 && (match v.data with | [b] => b.toNat / 16 == c | _ => false)
  | [.iei, .octet] => v.iei == c && v.len == 0 && v.data.length == s.body.size
  | [.iei, .len, .octet] => v.iei == c && lenFits s.lenW v.len && v.data.length == s.body.size
  | [.iei, .len, .buf] => v.iei == c && v.len == v.data.length && lenFits s.lenW v.len
  | [.iei, .len, .octetLen] =>
    v.iei == c && lenFits s.lenW v.len && v.data.length == s.body.size && v.len ≤ s.body.size &&
    allZero (v.data.drop v.len)
  | _ => false

def mandValsOK (fields : List Field) (m : Msg) : List (Nat × List WOp) → Bool
  | [] => true
  | (i, e) :: ge =>
    (match fields[i]?, m[i]? with
      | some f, some (some v) => mandValOK f.shape v e
      | _, _ => false) &&
    mandValsOK fields m ge

def optValsOK (fields : List Field) (m : Msg) : List (Nat × List WOp) → List DecCase → Bool
  | [], _ => true
  | (i, e) :: ge, c :: cs =>
    (match fields[i]?, m[i]? with
      | some f, some (some v) => optValOK f.shape c.iei v e
      | some _, some none => true
      | _, _ => false) &&
    optValsOK fields m ge cs
  | _ :: _, [] => false

def msgWF (L : Layout) (m : Msg) : Bool :=
  m.length == L.fields.length && mandValsOK L.fields m L.encMand && optValsOK L.fields m L.encOpt L.cases

/-- a well-formed message of layout `L`: one value per struct field; mandatory fields present;
    `Iei` = the decode case's constant (high nibble of `Octet` for half-octet IEs, 0 for mandatory
    fields, which never transmit it); `Len` = |Buffer|; `Len` ≤ capacity and zero tail for `Octet[N]`
    IEs written as `Octet[:Len]` -/
def MsgWF (L : Layout) (m : Msg) : Prop := msgWF L m = true
instance (L : Layout) (m : Msg) : Decidable (MsgWF L m) := inferInstanceAs (Decidable (_ = true))

/-- what each `if a.X != nil { … }` block of `Encode<Msg>` contributes, labelled with its field index
    (the optional part of an encoding is the concatenation of these pieces in this order) -/
def optPieces (fields : List Field) (m : Msg) : List (Nat × List WOp) → List (Nat × Bytes)
  | [] => []
  | (i, e) :: ge =>
    match fields[i]?, m[i]? with
    | some f, some (some v) =>
      match encIE f.shape v e with
      | .ok bs => (i, bs) :: optPieces fields m ge
      | .error _ => optPieces fields m ge
    | _, _ => optPieces fields m ge

/-! ### nas.go glue -/

/-- both switches of nas.go list the same (type, message) pairs, every listed message starts with
    `hdrLen` one-octet mandatory fields (so that the header octets are those fields) -/
def hdrFieldsOK (L : Layout) (hdrLen : Nat) : Bool :=
  hdrLen ≤ L.encMand.length &&
  (L.encMand.take hdrLen).all fun g =>
    g.2 == [.octet] && (match L.fields[g.1]? with | some f => f.shape.body == .octet | none => false)

def dispatchWF (layouts : List Layout) (d : Dispatch) : Bool :=
  d.dec == d.enc && d.typeIdx < d.hdrLen && 0 < d.typeIdx && d.epd < 256 &&
  nodupNat (d.dec.map (·.1)) && nodupNat (d.dec.map (·.2)) &&
  d.dec.all fun p => p.1 < 256 && (match layouts[p.2]? with | some L => layoutWF L && hdrFieldsOK L d.hdrLen | none => false)

def codecWF (C : Codec) : Bool :=
  dispatchWF C.layouts C.gmm && dispatchWF C.layouts C.gsm && C.gmm.epd != C.gsm.epd &&
  (C.gmm.dec.all fun p => C.gsm.dec.all fun q => p.2 != q.2)

def CodecWF (C : Codec) : Prop := codecWF C = true
instance (C : Codec) : Decidable (CodecWF C) := inferInstanceAs (Decidable (_ = true))

/-- `nas.Message` as `PlainNasDecode` produces it: the EPD and message type in the header select the
    embedded message, which is well-formed, and the header octets are the first octets of its encoding -/
def plainWF (C : Codec) (pm : PlainMsg) : Bool :=
  let d := if pm.gsm then C.gsm else C.gmm
  (match pm.hdr[0]?, pm.hdr[d.typeIdx]? with
    | some e, some t => e.toNat == d.epd && d.dec.lookup t.toNat == some pm.idx
    | _, _ => false) &&
  (match C.layouts[pm.idx]? with
    | some L => msgWF L pm.body &&
        (match encode L pm.body with
          | .ok bs => d.hdrLen ≤ bs.length && pm.hdr == bs.take d.hdrLen
          | .error _ => false)
    | none => false)

def PlainWF (C : Codec) (pm : PlainMsg) : Prop := plainWF C pm = true
instance (C : Codec) (pm : PlainMsg) : Decidable (PlainWF C pm) := inferInstanceAs (Decidable (_ = true))

end Stgutg.Nas
