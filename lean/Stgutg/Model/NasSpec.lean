/-
  Bridge between the extracted NAS layouts (`Nas.Layout`, what the Go codec does) and the wire structure of
  the TS 24.501 tables (`Spec.Ts24501.Wire`, what the standard says): the wire structure a layout
  implements, and the translation of codec values to / from the standard's abstract messages.
  Used by Props/C09 (table comparison by `decide`) and by the driver (specification column).  Core Lean only.
-/
import Stgutg.Model.NasWF
import Stgutg.Spec.Ts24501
namespace Stgutg.Nas
open Stgutg Stgutg.Spec.Ts24501

/-- wire element a mandatory statement group implements -/
def mandWireOf (s : Shape) : List WOp → Option MWire
  | [.octet] => some (.v s.body.size)
  | [.raw] => some (.v 0)
  | [.len, .buf] => if s.lenW = 1 then some (.lv none) else if s.lenW = 2 then some (.lve none) else none
  | [.len, .octet] =>
    if s.lenW = 1 then some (.lv (some s.body.size)) else if s.lenW = 2 then some (.lve (some s.body.size)) else none
  | _ => none

/-- wire kind and value capacity an optional block implements: (kind, capacity of the value part) -/
def optKindOf (s : Shape) : List WOp → Option (OKind × Option Nat)
  | [.octet] => if s.body = .octet ∧ !s.hasIei then some (.half, some 0) else none
  | [.iei, .octet] => some (.tv s.body.size, some s.body.size)
  | [.iei, .len, .buf] =>
    if s.lenW = 1 then some (.tlv, none) else if s.lenW = 2 then some (.tlve, none) else none
  | [.iei, .len, .octetLen] | [.iei, .len, .octet] =>
    if s.lenW = 1 then some (.tlv, some s.body.size) else if s.lenW = 2 then some (.tlve, some s.body.size) else none
  | _ => none

/-- does the implemented element carry the tabulated one?  Same kind and length-field width; a fixed-size
    implementation needs the table's fixed size; an `Octet[N]` capacity must reach the table's maximum -/
def mandMatches (impl spec : MWire) : Bool :=
  match impl, spec with
  | .v n, .v n' => n == n'
  | .lv none, .lv none => true
  | .lve none, .lve none => true
  | .lv (some n), .lv (some n') => n == n'
  | .lve (some n), .lve (some n') => n == n'
  | _, _ => false

def optMatches (iei : Nat) (impl : OKind × Option Nat) (spec : OWire) : Bool :=
  iei == spec.iei && impl.1 == spec.kind &&
  (match impl.2, spec.maxVal with
    | none, _ => true
    | some cap, some mx => cap == mx
    | some _, none => false)

/-- the wire structure a layout implements, row by row, against a table; the result lists what deviates:
    `Sum.inl i` = mandatory element i, `Sum.inr iei` = the optional row with that IEI (table order) -/
def deviations (L : Layout) (w : Wire) : List (Nat ⊕ Nat) :=
  let mandImpl := L.encMand.map fun g => (L.fields[g.1]?).bind fun f => mandWireOf f.shape g.2
  let optImpl := (L.encOpt.zip L.cases).map fun p =>
    (p.2.iei, (L.fields[p.1.1]?).bind fun f => optKindOf f.shape p.1.2)
  let md := (List.range (max mandImpl.length w.mand.length)).filterMap fun i =>
    match mandImpl[i]?, w.mand[i]? with
    | some (some a), some b => if mandMatches a b then none else some (Sum.inl i)
    | _, _ => some (Sum.inl i)
  let od := (List.range (max optImpl.length w.opt.length)).filterMap fun i =>
    match optImpl[i]?, w.opt[i]? with
    | some (iei, some a), some b => if optMatches iei a b then none else some (Sum.inr b.iei)
    | some (iei, _), none => some (Sum.inr iei)
    | _, some b => some (Sum.inr b.iei)
    | none, none => none
  md ++ od

/-- row-by-row agreement in the form the proofs use: every mandatory element matches, and every optional row
    matches except those of the struct fields listed in `skip` (which a message must then leave nil) -/
def mandAgree (fields : List Field) : List (Nat × List WOp) → List MWire → Bool
  | [], [] => true
  | (i, e) :: ge, mw :: mws =>
    (match fields[i]? with
      | some f => (match mandWireOf f.shape e with
          | some impl => mandMatches impl mw
          | none => false)
      | none => false) && mandAgree fields ge mws
  | _, _ => false

def optAgree (fields : List Field) (skip : List Nat) : List (Nat × List WOp) → List DecCase → List OWire → Bool
  | [], [], [] => true
  | (i, e) :: ge, c :: cs, ow :: ows =>
    (skip.contains i ||
      (match fields[i]? with
        | some f => (match optKindOf f.shape e with
            | some impl => optMatches c.iei impl ow
            | none => false)
        | none => false)) && optAgree fields skip ge cs ows
  | _, _, _ => false

def agree (L : Layout) (w : Wire) (skip : List Nat) : Bool :=
  mandAgree L.fields L.encMand w.mand && optAgree L.fields skip L.encOpt L.cases w.opt &&
  nodupNat (w.opt.map (·.iei)) && noRest w

/-- the message leaves the skipped fields nil -/
def skips (m : Msg) (skip : List Nat) : Bool := skip.all fun i => m[i]? == some none

/-! ### codec values ↔ abstract messages -/

/-- value part of a mandatory field as the standard sees it -/
def mandToSpec (v : Val) : List WOp → Bytes
  | _ => v.data

/-- (IEI, value part) of an optional IE whose case constant is `c`.  A type 3 IE carries the number of
    value octets the table gives it (an `Octet[N]` struct with N larger than that has no way to say more) -/
def optToSpec (w : Wire) (c : Nat) (v : Val) : List WOp → Nat × Bytes
  | [.octet] => (c, v.data.map fun b => UInt8.ofNat (b.toNat % 16))
  | [.iei, .len, .octetLen] => (c, v.data.take v.len)
  | [.iei, .octet] =>
    match w.opt.find? (·.iei == c) with
    | some ⟨_, .tv n, _, _⟩ => (c, v.data.take n)
    | _ => (c, v.data)
  | _ => (c, v.data)

/-- the abstract message of a codec message (mandatory fields, then the present optional IEs in layout order) -/
def toSpec (L : Layout) (w : Wire) (m : Msg) : SMsg :=
  { mand := L.encMand.filterMap fun g => match m[g.1]? with
      | some (some v) => some (mandToSpec v g.2)
      | _ => none,
    opt := (L.encOpt.zip L.cases).filterMap fun p => match m[p.1.1]? with
      | some (some v) => some (optToSpec w p.2.iei v p.1.2)
      | _ => none }

/-- conformance conditions beyond `MsgWF` under which a codec message denotes an abstract message:
    the `Len` of `Len`+fixed-`Octet` fields is the number of octets sent -/
def specValOK (s : Shape) (v : Val) : List WOp → Bool
  | [.len, .octet] | [.iei, .len, .octet] => v.len == s.body.size
  | _ => true

def specValsOK (fields : List Field) (m : Msg) (ge : List (Nat × List WOp)) : Bool :=
  ge.all fun g => match fields[g.1]?, m[g.1]? with
    | some f, some (some v) => specValOK f.shape v g.2
    | _, _ => true

def specWF (L : Layout) (m : Msg) : Bool :=
  msgWF L m && specValsOK L.fields m L.encMand && specValsOK L.fields m L.encOpt

/-- the codec value a decoder should produce for a value part of the standard (the `Octet[N]` shapes pad
    with zeros, `Len` is the number of value octets) -/
def mandFromSpec (_s : Shape) (val : Bytes) : List WOp → Val
  | [.len, .buf] | [.len, .octet] => { len := val.length, data := val }
  | _ => { data := val }

def optFromSpec (s : Shape) (iei : Nat) (val : Bytes) : List WOp → Val
  | [.octet] => { data := val.map fun x => UInt8.ofNat (iei * 16 + x.toNat % 16) }
  | [.iei, .octet] => { iei := iei, data := val ++ List.replicate (s.body.size - val.length) 0 }
  | [.iei, .len, .octetLen] =>
    { iei := iei, len := val.length, data := val ++ List.replicate (s.body.size - val.length) 0 }
  | _ => { iei := iei, len := val.length, data := val }

/-- the codec message a decoder should produce for an abstract message (last occurrence of an IEI wins;
    fields the layout has no wire element for stay at their zero value / nil) -/
def fromSpec (L : Layout) (sm : SMsg) : Msg :=
  let mand := (L.encMand.zip sm.mand).map fun p =>
    (p.1.1, (L.fields[p.1.1]?).map fun f => mandFromSpec f.shape p.2 p.1.2)
  let opt := sm.opt.filterMap fun (iei, val) =>
    ((L.encOpt.zip L.cases).find? fun p => p.2.iei == iei).bind fun p =>
      (L.fields[p.1.1]?).map fun f => (p.1.1, some (optFromSpec f.shape iei val p.1.2))
  (mand ++ opt).foldl (fun m p => match p.2 with
    | some v => m.set p.1 (some v)
    | none => m) (initMsg L)

end Stgutg.Nas
