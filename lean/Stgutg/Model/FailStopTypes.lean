/-!
# Procedure scripts (C19): the data types of `Gen/Script.lean`

`gen script` (harness/cmd/gen/script.go) walks `src/stgutg/{ngsetup,ue,pdu,service}.go` and the test-mode branch of
`stg-utg.go` and writes, per procedure, the ordered list of I/O actions below. Nothing here is executable semantics;
that is `Model/FailStop.lean`.
-/
namespace Stgutg.Model.FailStop

/-- One action of a procedure, in source order. `checked` = the action's `err` result reaches `ManageError`
    (which prints `emsg: <err>` and calls `os.Exit(1)`) before the next action. -/
inductive Act where
  /-- `x, err := f(...)` where `f` is neither the connection nor the NGAP decoder (message builders, NAS protection,
      `strconv.Atoi`, `tglib.ConnectToAmf`): its error does not depend on what the peer sends. -/
  | build (fn : String) (checked : Bool) (emsg : String)
  /-- `_, err = conn.Write(sendMsg)`; `ngap`/`nas` name the builder of `sendMsg` and the NAS constructor inside it. -/
  | write (ngap nas : String) (checked : Bool) (emsg : String)
  /-- `n, err := conn.Read(recvMsg)` -/
  | read (checked : Bool) (emsg : String)
  /-- `v, err := ngap.Decoder(recvMsg[:n])`; `var = none` when the decoded PDU is discarded (`_` or an expression statement) -/
  | decode (var : Option Nat) (checked : Bool) (emsg : String)
  /-- `dst := f(… src …)`: `dst` is only as good as `src` (nil / wrong shape when `src` is not the expected message) -/
  | derive (dst src : Nat)
  /-- a dereference of `var` (selector / index chain, method call). `guarded`: the code tests for nil first and
      calls `ManageError`; otherwise a value that is not the expected message is a Go panic (exit status 2). -/
  | use (var : Nat) (guarded : Bool) (emsg : String)
  | sleep (ms : Nat)
  /-- `fmt.Println(text, …)`: the first string literal -/
  | print (text : String)
  /-- the procedure returns session values (results of type `net.IP`) to its caller -/
  | report
  /-- `conn.Close()` -/
  | closeConn
  /-- `os.Exit(code)` -/
  | exit (code : Nat)
  deriving DecidableEq, Repr, Inhabited

/-- loop bounds of the test-mode branch: configuration fields and `stgutg.Min` of them -/
inductive CountExpr where
  | cfg (field : String)
  | min (a b : CountExpr)
  deriving DecidableEq, Repr, Inhabited

/-- a statement of `main`'s test-mode branch -/
inductive Stmt where
  | act (a : Act)
  /-- a call of a procedure; `needs` lists the slices indexed with the loop variable in its arguments (`ueList[i]`) -/
  | call (proc : String) (needs : List String)
  /-- `L = append(L, v)` -/
  | append (list : String)
  deriving DecidableEq, Repr, Inhabited

inductive MainItem where
  | stmt (s : Stmt)
  /-- `for i := 0; i < bound; i++ { body }` -/
  | loop (bound : CountExpr) (body : List Stmt)
  deriving DecidableEq, Repr, Inhabited

structure Script where
  procs : List (String × List Act)
  main : List MainItem
  deriving Repr, Inhabited

end Stgutg.Model.FailStop
