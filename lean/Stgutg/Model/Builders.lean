/-
  C13 — hand model of the gNB-side NGAP message construction:
    src/tglib/packet.go                  the 14 build-and-encode wrappers `Get…`
    src/tglib/ngapTestpacket/build.go    the builders behind them, the transfer containers they embed,
                                         and the package variable `TestPlmn`
  The other builders of build.go have probed templates (Gen/Templates.lean, written by `gen templates`); both kinds
  are `Template`s (Model/BuilderTypes.lean) and are evaluated by the same `eval` / `build` below.

  State: `TestPlmn` is an explicit argument (`BEnv.plmn`); `BuildNGSetupRequest` assigns it before it reads it.
  Externals (parameters, `Model.Convert.Ext`): `net.ParseIP` and `encoding/hex.DecodeString`.
  Outcomes: a value | `panic` (slice index / nil dereference) | `exit` (`fatal.Fatalf` = print + `os.Exit(1)` when a nested
  `aper.MarshalWithParams` or `hex.DecodeString` fails).
-/
import Stgutg.Model.BuilderTypes
import Stgutg.Model.AperEnc
import Stgutg.Model.Convert
import Stgutg.Gen.NgapSchema
import Stgutg.Gen.Templates

namespace Stgutg.Builders
open Stgutg Stgutg.Aper Stgutg.Model.Convert

/-- how a builder call ends when it does not return a PDU -/
inductive BErr where
  | panic | exit
  deriving DecidableEq, Repr, Inhabited

abbrev BRes (α : Type) := Except BErr α

/-- the state and the arguments of one call; arguments are `Val`s: int64 → `.int`, string → `.str`, `[]byte` → `.octs` or `.nil`,
    `[]int64` → `.slice [.int …]` or `.nil`, `*int64` → `.ptr (.int …)` or `.nil`, ngapType values as they are -/
structure BEnv where
  plmn : Bytes
  args : List Val

def BEnv.arg (e : BEnv) (i : Nat) : Val :=
  match e.args[i]? with
  | some v => v
  | none => .nil

def bytesOf : Val → Bytes
  | .octs b => b
  | .str b => b
  | _ => []

def natOf : Val → Nat
  | .int n => n.toNat
  | _ => 0

/-- the fuel of Props.C14 (schema-determined); irreducible for the elaborator only (it would evaluate the length of the
    1 431-entry schema while generating equation lemmas), the kernel and the compiler see through it -/
@[irreducible] def fuel : Nat := 8 * (Gen.Ngap.schema.length + 1) + 1

/-- the parameter string of the transfer containers: `aper.MarshalWithParams(data, "valueExt")` -/
def transferParams : Params := { valueExt := true }

/-- `aper.MarshalWithParams(v, "valueExt")` for a value of struct type `ty` -/
def marshalTransfer (ty : Nat) (v : Val) : Res Bytes :=
  marshal Gen.Ngap.schema fuel (.struct ty) transferParams v

def evalHole (E : Ext) (e : BEnv) (cur : Val) : Hole → Val
  | .plmn => .octs e.plmn
  | .arg i => e.arg i
  | .argSlice i => match e.arg i with | .nil => .slice [] | v => v
  | .argOcts i => .octs (bytesOf (e.arg i))
  | .argStr i => .str (bytesOf (e.arg i))
  | .deref i => match e.arg i with | .ptr v => v | _ => .nil
  | .elem => cur
  | .ip4 i =>
    match ipAddressToNgap E (bytesOf (e.arg i)) [] with
    | .ok b => .bits b.bytes b.bitLength
    | .error _ => .bits [] 0
  | .bits8 i => .bits (bytesOf (e.arg i)) (8 * (bytesOf (e.arg i)).length)
  | .cell36 i j => .bits (bytesOf (e.arg i) ++ bytesOf (e.arg j)) 36
  | .bitsLen i j => .bits (bytesOf (e.arg i)) (natOf (e.arg j))
  | .tmsiSet i => .bits (E.hexDecode ((bytesOf (e.arg i)).take 4)).1 10
  | .tmsiPtr i => .bits (E.hexDecode (((bytesOf (e.arg i)).drop 2).take 2)).1 6
  | .tmsiVal i => .octs (E.hexDecode ((bytesOf (e.arg i)).drop 4)).1

mutual
/-- fill the holes of a skeleton. A nested encoding that fails contributes the empty string here; `encOutcome`
    reports the failure, and `build` never returns the value in that case. -/
def eval (E : Ext) (e : BEnv) (cur : Val) : Tm → Val
  | .int v => .int v
  | .enum v => .enum v
  | .bits b n => .bits b n
  | .octs b => .octs b
  | .str b => .str b
  | .bool b => .bool b
  | .nil => .nil
  | .ptr t => .ptr (eval E e cur t)
  | .struct fs => .struct (evalL E e cur fs)
  | .slice l => .slice (evalL E e cur l)
  | .hole h => evalHole E e cur h
  | .mapInts i item =>
    match e.arg i with
    | .slice xs => .slice (xs.map fun x => eval E e x item)
    | _ => .slice []
  | .enc ty t =>
    match marshalTransfer ty (eval E e cur t) with
    | .ok b => .octs b
    | .error _ => .octs []
def evalL (E : Ext) (e : BEnv) (cur : Val) : List Tm → List Val
  | [] => []
  | t :: ts => eval E e cur t :: evalL E e cur ts
end

mutual
/-- the first nested `aper.MarshalWithParams` that does not return octets: an error ends in `fatal.Fatalf` (exit),
    a Go panic inside the encoder propagates -/
def encOutcome (E : Ext) (e : BEnv) (cur : Val) : Tm → Option BErr
  | .ptr t => encOutcome E e cur t
  | .struct fs => encOutcomeL E e cur fs
  | .slice l => encOutcomeL E e cur l
  | .mapInts _ _ => none
  | .enc ty t =>
    match encOutcome E e cur t with
    | some x => some x
    | none =>
      match marshalTransfer ty (eval E e cur t) with
      | .ok _ => none
      | .error .panic => some .panic
      | .error _ => some .exit
  | _ => none
def encOutcomeL (E : Ext) (e : BEnv) (cur : Val) : List Tm → Option BErr
  | [] => none
  | t :: ts =>
    match encOutcome E e cur t with
    | some x => some x
    | none => encOutcomeL E e cur ts
end

/-- `hex.DecodeString` reports an error -/
def hexBad (E : Ext) (s : Bytes) : Bool := (E.hexDecode s).2

/-- the class of an argument, by the role of its parameter:
    0 = nil, 1 = empty (length 0; a list container without elements), 2 = anything else;
    an IPv4 text that `net.ParseIP(..).To4()` does not accept is 3 (the builder indexes the nil result: panic);
    a 5G-S-TMSI text shorter than 4 characters is 3 (slice bounds: panic), one that is not hexadecimal is 4 (exit) -/
def cls (E : Ext) (r : Role) (v : Val) : Nat :=
  match r, v with
  | .ip, .str s =>
    if s.isEmpty then 1
    else match first4 (to4 (E.parseIP s)) with
      | .ok _ => 2
      | .error _ => 3
  | .tmsi, .str s =>
    if s.isEmpty then 1
    else if s.length < 4 then 3
    else if hexBad E (s.take 4) || hexBad E ((s.drop 2).take 2) || hexBad E (s.drop 4) then 4
    else 2
  | _, .nil => 0
  | _, .octs [] => 1
  | _, .str [] => 1
  | _, .slice [] => 1
  | _, .struct [.slice []] => 1
  | _, _ => 2

def roleAt (t : Template) (i : Nat) : Role :=
  match t.roles[i]? with
  | some r => r
  | none => .val

def classes (E : Ext) (t : Template) (e : BEnv) : List Nat :=
  t.dims.map fun i => cls E (roleAt t i) (e.arg i)

/-- the PLMN octets a call announces (`BuildNGSetupRequest`: `TestPlmn.Value = aper.OctetString(mobilePLMN)`) -/
def announced (roles : List Role) (args : List Val) : Option Bytes :=
  match roles, args with
  | .plmn :: _, v :: _ => some (bytesOf v)
  | _ :: rs, _ :: vs => announced rs vs
  | _, _ => none

/-- `TestPlmn` as the builder reads it: the announced octets if the call announces some, else the state -/
def effEnv (t : Template) (plmn : Bytes) (args : List Val) : BEnv :=
  { plmn := match announced t.roles args with | some p => p | none => plmn, args := args }

/-- run a builder: the PDU it returns, or how the call ends -/
def build (E : Ext) (t : Template) (plmn : Bytes) (args : List Val) : BRes Val :=
  let e := effEnv t plmn args
  match t.cases.find? (fun c => c.cls == classes E t e) with
  | none => .error .panic          -- no such class (not reachable for the argument shapes of the harness)
  | some c =>
    match c.out with
    | .panic => .error .panic
    | .exit => .error .exit
    | .val tm =>
      match encOutcome E e .nil tm with
      | some x => .error x
      | none => .ok (eval E e .nil tm)

/-- `ngap.Encoder(pdu)` -/
def encodePdu (v : Val) : Res Bytes :=
  marshal Gen.Ngap.schema fuel (.struct Gen.Ngap.pduId) Gen.Ngap.encoderParams v

/-! ## skeleton helpers (positions and alternative counts are those of the ngapType structs; `handIdsOk` in Props.C13
    re-checks the struct ids against the regenerated schema) -/

/-- criticality: 0 reject, 1 ignore, 2 notify -/
def reject : Nat := 0
def ignore : Nat := 1

/-- one protocol IE: `{Id, Criticality, Value}` with `Value` a CHOICE of `n` alternatives, alternative `k` pointing to `v` -/
def ieT (id : Int) (crit n k : Nat) (v : Tm) : Tm :=
  .struct [.struct [.int id], .struct [.enum crit], choiceT n k (.ptr v)]

/-- `NGAPPDU{Present: cls, X: &{ProcedureCode, Criticality, Value{Present: k, Msg: &{ProtocolIEs{List: ies}}}}}`;
    `cls` 1 = initiating message (52 messages), 2 = successful outcome (18), 3 = unsuccessful outcome (8) -/
def pduT (cls : Nat) (code : Int) (crit nMsgs k : Nat) (ies : List Tm) : Tm :=
  choiceT 3 cls (.ptr (.struct [.struct [.int code], .struct [.enum crit],
    choiceT nMsgs k (.ptr (.struct [.struct [.slice ies]]))]))

def initiating (code : Int) (crit k : Nat) (ies : List Tm) : Tm := pduT 1 code crit 52 k ies
def successful (code : Int) (crit k : Nat) (ies : List Tm) : Tm := pduT 2 code crit 18 k ies

def plmnT : Tm := .struct [.hole .plmn]

/-- `UserLocationInformation{Present: NR, UserLocationInformationNR: &{NRCGI{TestPlmn, cell}, TAI{TestPlmn, tac}}}` -/
def userLocationNR (cell tac : Bytes) : Tm :=
  choiceT 4 2 (.ptr (.struct [
    .struct [plmnT, .struct [.bits cell 36], .nil],
    .struct [plmnT, .struct [.octs tac], .nil],
    .nil, .nil]))

/-- `Cause{Present: k, X: &{Value: v}}` (6 alternatives: 1 radio network, 2 transport, 3 NAS, 4 protocol, 5 misc) -/
def causeT (k v : Nat) : Tm := choiceT 6 k (.ptr (.struct [.enum v]))

/-- `UPTransportLayerInformation{Present: GTPTunnel, GTPTunnel: &{TransportLayerAddress, GTPTEID}}` -/
def gtpTunnelT (addr : Tm) (teid : Bytes) : Tm :=
  choiceT 2 1 (.ptr (.struct [.struct [addr], .struct [.octs teid], .nil]))

/-! ### the transfer containers (`build…Transfer` + `Get…Transfer` = build, then `aper.MarshalWithParams(data, "valueExt")`) -/

/-- `buildPDUSessionResourceSetupResponseTransfer(ipv4)` — struct 1360 -/
def setupResponseTransfer (ip : Nat) : Tm :=
  .enc 1360 (.struct [
    .struct [gtpTunnelT (.hole (.ip4 ip)) [0, 0, 0, 1], .struct [.slice [.struct [.struct [.int 1], .nil, .nil]]], .nil],
    .nil, .nil, .nil, .nil])

/-- `buildPDUSessionResourceSetupUnsucessfulTransfer()` — struct 1364; radio network cause 11 = cell not available -/
def setupUnsuccessfulTransfer : Tm := .enc 1364 (.struct [causeT 1 11, .nil, .nil])

/-- `buildPDUSessionResourceReleaseResponseTransfer()` — struct 1342: the zero value -/
def releaseResponseTransfer : Tm := .enc 1342 (.struct [.nil])

/-- `buildPathSwitchRequestTransfer()` — struct 1387; `IPAddressToNgap("127.0.0.15", "")` -/
def pathSwitchRequestTransfer : Tm :=
  .enc 1387 (.struct [gtpTunnelT (.bits [127, 0, 0, 15] 32) [0, 0, 0, 2], .nil, .nil,
    .struct [.slice [.struct [.struct [.int 1], .nil]]], .nil])

/-- `buildPathSwitchRequestSetupFailedTransfer()` — struct 1374; transport cause 0 = transport resource unavailable -/
def pathSwitchRequestSetupFailedTransfer : Tm := .enc 1374 (.struct [causeT 2 0, .nil])

/-- `buildHandoverRequestAcknowledgeTransfer()` — struct 732; `IPAddressToNgap("10.200.200.2", "")` -/
def handoverRequestAcknowledgeTransfer : Tm :=
  .enc 732 (.struct [gtpTunnelT (.bits [10, 200, 200, 2] 32) [0, 0, 0, 1], .nil, .nil,
    .struct [.slice [.struct [.struct [.int 1], .nil, .nil]]], .nil, .nil, .nil])

/-- `buildHandoverResourceAllocationUnsuccessfulTransfer()` — struct 755; radio network cause 5 = handover cancelled -/
def handoverResourceAllocationUnsuccessfulTransfer : Tm := .enc 755 (.struct [causeT 1 5, .nil, .nil])

/-- `buildHandoverRequiredTransfer()` — struct 751; direct path available -/
def handoverRequiredTransfer : Tm := .enc 751 (.struct [.ptr (.struct [.enum 0]), .nil])

/-- `buildSourceToTargetTransparentTransfer(targetGNBID, targetCellID)` — struct 1413.
    `data.TargetCellID.Present = TargetIDPresentTargetRANNodeID` (= 1) selects the NR-CGI alternative of NGRAN-CGI. -/
def sourceToTargetTransfer (gnb cell : Nat) : Tm :=
  .enc 1413 (.struct [
    .struct [.octs [0, 0, 0x11]],
    .ptr (.struct [.slice [.struct [.struct [.int 10], .struct [.slice [.struct [.struct [.int 1], .nil, .nil]]], .nil, .nil]]]),
    .nil,
    choiceT 3 1 (.ptr (.struct [plmnT, .struct [.hole (.cell36 gnb cell)], .nil])),
    .nil,
    .struct [.slice [.struct [
      choiceT 5 1 (.ptr (.struct [
        choiceT 3 1 (.ptr (.struct [plmnT, .struct [.bits [0, 0, 0, 0, 0x10] 36], .nil])),
        .struct [.struct [.enum 0], .nil],
        .struct [.int 10], .nil, .nil, .nil])),
      .nil]]],
    .nil])

/-! ### the builders behind the 14 wrappers -/

/-- IE ids (ngapType/ProtocolIEID.go) -/
def idAMF : Int := 10
def idRAN : Int := 85
def idNAS : Int := 38
def idULI : Int := 121
def idCause : Int := 15

def amfIE (crit n k a : Nat) : Tm := ieT idAMF crit n k (.struct [.hole (.arg a)])
def ranIE (crit n k a : Nat) : Tm := ieT idRAN crit n k (.struct [.hole (.arg a)])

/-- `BuildNGSetupRequest(mobilePLMN)`; the gNB id and name are the constants the wrapper overwrites -/
def ngSetupIEs (gnbId name : Tm) : List Tm := [
  ieT 27 reject 4 1 (choiceT 4 1 (.ptr (.struct [plmnT, .struct [.int 1, .ptr gnbId, .nil], .nil]))),
  ieT 82 ignore 4 2 (.struct [name]),
  ieT 102 reject 4 3 (.struct [.slice [.struct [
    .struct [.octs [0, 0, 1]],
    .struct [.slice [.struct [plmnT,
      .struct [.slice [.struct [.struct [.struct [.octs [1]], .ptr (.struct [.octs [1, 2, 3]]), .nil], .nil]]],
      .nil]]],
    .nil]]]),
  ieT 21 ignore 4 4 (.struct [.enum 2])]

def tNGSetupRequest : Template := {
  name := "BuildNGSetupRequest", message := .NGSetupRequest, roles := [.plmn], dims := [],
  cases := [⟨[], .val (initiating 21 reject 7 (ngSetupIEs (.bits [0x45, 0x46, 0x47] 24) (.str [0x66, 0x72, 0x65, 0x65, 0x35, 0x47, 0x43])))⟩] }

/-- `BuildInitialUEMessage(ranUeNgapID, nasPdu, fiveGSTmsi)` -/
def initialUEIEs (tmsi : Bool) : List Tm :=
  [ ranIE reject 8 1 0,
    ieT idNAS reject 8 2 (.struct [.hole (.argOcts 1)]),
    ieT idULI reject 8 3 (userLocationNR [0, 0, 0, 0, 0x10] [0, 0, 1]),
    ieT 90 ignore 8 4 (.struct [.enum 2]) ]
  ++ (if tmsi then
        [ieT 26 reject 8 5 (.struct [.struct [.hole (.tmsiSet 2)], .struct [.hole (.tmsiPtr 2)], .struct [.hole (.tmsiVal 2)], .nil])]
      else [])
  ++ [ ieT 112 ignore 8 7 (.struct [.enum 0]) ]

def tInitialUEMessage : Template := {
  name := "BuildInitialUEMessage", message := .InitialUEMessage, roles := [.ran, .nas, .tmsi], dims := [2],
  cases := [
    ⟨[1], .val (initiating 15 ignore 29 (initialUEIEs false))⟩,      -- fiveGSTmsi == ""
    ⟨[3], .panic⟩,                                                   -- fiveGSTmsi[:4] out of range
    ⟨[4], .exit⟩,                                                    -- hex.DecodeString error → fatal.Fatalf
    ⟨[2], .val (initiating 15 ignore 29 (initialUEIEs true))⟩] }

/-- `BuildUplinkNasTransport(amfUeNgapID, ranUeNgapID, nasPdu)` -/
def tUplinkNasTransport : Template := {
  name := "BuildUplinkNasTransport", message := .UplinkNASTransport, roles := [.amf, .ran, .nas], dims := [],
  cases := [⟨[], .val (initiating 46 ignore 48 [
    amfIE reject 4 1 0, ranIE reject 4 2 1,
    ieT idNAS reject 4 3 (.struct [.hole (.argOcts 2)]),
    ieT idULI ignore 4 4 (userLocationNR [0, 0, 0, 0, 0x10] [0, 0, 1])])⟩] }

/-- `BuildInitialContextSetupResponseForRegistraionTest(amfUeNgapID, ranUeNgapID)` -/
def tInitialContextSetupResponseForRegistraionTest : Template := {
  name := "BuildInitialContextSetupResponseForRegistraionTest", message := .InitialContextSetupResponse, roles := [.amf, .ran], dims := [],
  cases := [⟨[], .val (successful 14 reject 5 [amfIE ignore 5 1 0, ranIE ignore 5 2 1])⟩] }

/-- an item `{PDUSessionID, transfer, nil}` of the setup / release / handover lists -/
def psiItem (psi transfer : Tm) : Tm := .struct [.struct [psi], transfer, .nil]

/-- `BuildInitialContextSetupResponse(amfUeNgapID, ranUeNgapID, pduId, ipv4, pduSessionFailedList)` -/
def icsResponseIEs (failed : Bool) : List Tm :=
  [ amfIE ignore 5 1 0, ranIE ignore 5 2 1,
    ieT 72 ignore 5 3 (.struct [.slice [psiItem (.hole (.arg 2)) (setupResponseTransfer 3)]]) ]
  ++ (if failed then [.struct [.struct [.int 55], .struct [.enum ignore], choiceT 5 4 (.hole (.arg 4))]] else [])

def tInitialContextSetupResponse : Template := {
  name := "BuildInitialContextSetupResponse", message := .InitialContextSetupResponse, roles := [.amf, .ran, .psi, .ip, .val], dims := [3, 4],
  cases := [
    ⟨[3, 0], .panic⟩, ⟨[3, 2], .panic⟩,                              -- net.ParseIP(ipv4).To4() is nil: index out of range
    ⟨[1, 0], .val (successful 14 reject 5 (icsResponseIEs false))⟩,  -- ipv4 == "": empty address, the nested encoding fails (exit)
    ⟨[1, 2], .val (successful 14 reject 5 (icsResponseIEs true))⟩,
    ⟨[2, 0], .val (successful 14 reject 5 (icsResponseIEs false))⟩,
    ⟨[2, 2], .val (successful 14 reject 5 (icsResponseIEs true))⟩] }

/-- `BuildPDUSessionResourceSetupResponseForRegistrationTest(amfUeNgapID, ranUeNgapID, pduId, ipv4)` -/
def tPDUSessionResourceSetupResponseForRegistrationTest : Template := {
  name := "BuildPDUSessionResourceSetupResponseForRegistrationTest", message := .PDUSessionResourceSetupResponse,
  roles := [.amf, .ran, .psi, .ip], dims := [3],
  cases :=
    let t := successful 29 reject 12 [amfIE ignore 5 1 0, ranIE ignore 5 2 1,
      ieT 75 ignore 5 3 (.struct [.slice [psiItem (.hole (.arg 2)) (setupResponseTransfer 3)]])]
    [⟨[3], .panic⟩, ⟨[1], .val t⟩, ⟨[2], .val t⟩] }

/-- `BuildPDUSessionResourceSetupResponseForPaging(amfUeNgapID, ranUeNgapID, ipv4)`: session id 10; the failed-to-setup IE is
    prepared but never appended -/
def tPDUSessionResourceSetupResponseForPaging : Template := {
  name := "BuildPDUSessionResourceSetupResponseForPaging", message := .PDUSessionResourceSetupResponse,
  roles := [.amf, .ran, .ip], dims := [2],
  cases :=
    let t := successful 29 reject 12 [amfIE ignore 5 1 0, ranIE ignore 5 2 1,
      ieT 75 ignore 5 3 (.struct [.slice [psiItem (.int 10) (setupResponseTransfer 2)]])]
    [⟨[3], .panic⟩, ⟨[1], .val t⟩, ⟨[2], .val t⟩] }

/-- `BuildPDUSessionResourceSetupResponse(amfUeNgapID, ranUeNgapID, ipv4)`: session id 10 in both lists -/
def tPDUSessionResourceSetupResponse : Template := {
  name := "BuildPDUSessionResourceSetupResponse", message := .PDUSessionResourceSetupResponse,
  roles := [.amf, .ran, .ip], dims := [2],
  cases :=
    let t := successful 29 reject 12 [amfIE ignore 5 1 0, ranIE ignore 5 2 1,
      ieT 75 ignore 5 3 (.struct [.slice [psiItem (.int 10) (setupResponseTransfer 2)]]),
      ieT 58 ignore 5 4 (.struct [.slice [psiItem (.int 10) setupUnsuccessfulTransfer]])]
    [⟨[3], .panic⟩, ⟨[1], .val t⟩, ⟨[2], .val t⟩] }

/-- `BuildUEContextReleaseComplete(amfUeNgapID, ranUeNgapID, pduSessionIDList)` -/
def ueCtxRelCompleteIEs (list : Bool) : List Tm :=
  [ amfIE ignore 6 1 0, ranIE ignore 6 2 1,
    ieT idULI ignore 6 3 (userLocationNR [0, 0, 0, 0, 0x10] [0, 0, 0x11]) ]
  ++ (if list then [ieT 60 reject 6 5 (.struct [.mapInts 2 (.struct [.struct [.hole .elem], .nil])])] else [])

def tUEContextReleaseComplete : Template := {
  name := "BuildUEContextReleaseComplete", message := .UEContextReleaseComplete, roles := [.amf, .ran, .psilist], dims := [2],
  cases := [
    ⟨[0], .val (successful 41 reject 16 (ueCtxRelCompleteIEs false))⟩,   -- pduSessionIDList == nil
    ⟨[1], .val (successful 41 reject 16 (ueCtxRelCompleteIEs true))⟩,
    ⟨[2], .val (successful 41 reject 16 (ueCtxRelCompleteIEs true))⟩] }

/-- `BuildUEContextReleaseRequest(amfUeNgapID, ranUeNgapID, pduSessionIDList)`; radio network cause 1 = TXnRELOCOverall expiry -/
def ueCtxRelRequestIEs (list : Bool) : List Tm :=
  [ amfIE reject 4 1 0, ranIE reject 4 2 1 ]
  ++ (if list then [ieT 133 reject 4 3 (.struct [.mapInts 2 (.struct [.struct [.hole .elem], .nil])])] else [])
  ++ [ ieT idCause ignore 4 4 (causeT 1 1) ]

def tUEContextReleaseRequest : Template := {
  name := "BuildUEContextReleaseRequest", message := .UEContextReleaseRequest, roles := [.amf, .ran, .psilist], dims := [2],
  cases := [
    ⟨[0], .val (initiating 42 ignore 45 (ueCtxRelRequestIEs false))⟩,
    ⟨[1], .val (initiating 42 ignore 45 (ueCtxRelRequestIEs true))⟩,
    ⟨[2], .val (initiating 42 ignore 45 (ueCtxRelRequestIEs true))⟩] }

/-- `BuildPDUSessionResourceReleaseResponseForReleaseTest(amfUeNgapID, ranUeNgapID, pduId)` -/
def tPDUSessionResourceReleaseResponseForReleaseTest : Template := {
  name := "BuildPDUSessionResourceReleaseResponseForReleaseTest", message := .PDUSessionResourceReleaseResponse,
  roles := [.amf, .ran, .psi], dims := [],
  cases := [⟨[], .val (successful 28 reject 11 [amfIE ignore 5 1 0, ranIE ignore 5 2 1,
    ieT 70 ignore 5 3 (.struct [.slice [psiItem (.hole (.arg 2)) releaseResponseTransfer]])])⟩] }

/-- `BuildPathSwitchRequest(sourceAmfUeNgapID, ranUeNgapID)`: six IEs (the wrapper keeps the first five) -/
def pathSwitchIEs : List Tm := [
  ranIE reject 6 1 1,
  ieT 100 reject 6 2 (.struct [.hole (.arg 0)]),
  ieT idULI ignore 6 3 (userLocationNR [0, 0, 0, 0, 0x20] [0, 0, 0x11]),
  ieT 119 ignore 6 4 (.struct [.struct [.bits [0xff, 0xff] 16], .struct [.bits [0xff, 0xff] 16],
                               .struct [.bits [0xff, 0xff] 16], .struct [.bits [0xff, 0xff] 16], .nil]),
  ieT 76 reject 6 5 (.struct [.slice [psiItem (.int 10) pathSwitchRequestTransfer]]),
  ieT 57 ignore 6 6 (.struct [.slice [psiItem (.int 11) pathSwitchRequestSetupFailedTransfer]])]

def tPathSwitchRequest : Template := {
  name := "BuildPathSwitchRequest", message := .PathSwitchRequest, roles := [.amf, .ran], dims := [],
  cases := [⟨[], .val (initiating 25 reject 8 pathSwitchIEs)⟩] }

/-- `BuildHandoverRequired(amfUeNgapID, ranUeNgapID, targetGNBID, targetCellID)`; radio network cause 16 =
    handover desirable for radio reasons; handover type 0 = intra-5GS -/
def tHandoverRequired : Template := {
  name := "BuildHandoverRequired", message := .HandoverRequired, roles := [.amf, .ran, .gnbid, .cellid], dims := [],
  cases := [⟨[], .val (initiating 12 reject 3 [
    amfIE reject 8 1 0, ranIE reject 8 2 1,
    ieT 29 reject 8 3 (.struct [.enum 0]),
    ieT idCause ignore 8 4 (causeT 1 16),
    ieT 105 reject 8 5 (choiceT 3 1 (.ptr (.struct [
      choiceT 4 1 (.ptr (.struct [plmnT, .struct [.int 1, .ptr (.hole (.bits8 2)), .nil], .nil])),
      .struct [plmnT, .struct [.octs [0x30, 0x33, 0x99]], .nil],
      .nil]))),
    ieT 61 reject 8 7 (.struct [.slice [psiItem (.int 10) handoverRequiredTransfer]]),
    ieT 101 reject 8 8 (.struct [sourceToTargetTransfer 2 3])])⟩] }

/-- `BuildHandoverRequestAcknowledge(amfUeNgapID, ranUeNgapID)` -/
def tHandoverRequestAcknowledge : Template := {
  name := "BuildHandoverRequestAcknowledge", message := .HandoverRequestAcknowledge, roles := [.amf, .ran], dims := [],
  cases := [⟨[], .val (successful 13 reject 4 [
    amfIE ignore 6 1 0, ranIE ignore 6 2 1,
    ieT 53 ignore 6 3 (.struct [.slice [psiItem (.int 10) handoverRequestAcknowledgeTransfer]]),
    ieT 56 ignore 6 4 (.struct [.slice [psiItem (.int 11) handoverResourceAllocationUnsuccessfulTransfer]]),
    ieT 106 reject 6 5 (.struct [.octs [0, 1, 0, 0]])])⟩] }

/-- `BuildHandoverNotify(amfUeNgapID, ranUeNgapID)`: E-UTRA user location `{EUTRACGI{plmn, cell}, TAI{plmn, tac}}` -/
def tHandoverNotify : Template := {
  name := "BuildHandoverNotify", message := .HandoverNotify, roles := [.amf, .ran], dims := [],
  cases := [⟨[], .val (initiating 11 ignore 28 [
    amfIE reject 3 1 0, ranIE reject 3 2 1,
    ieT idULI ignore 3 3 (choiceT 4 1 (.ptr (.struct [
      .struct [plmnT, .struct [.bits [0x24, 0x16, 0x08, 0xff] 28], .nil],
      .struct [plmnT, .struct [.octs [0x30, 0x33, 0x99]], .nil],
      .nil, .nil])))])⟩] }

/-- the hand-written templates -/
def handTable : List Template := [
  tNGSetupRequest, tInitialUEMessage, tUplinkNasTransport, tInitialContextSetupResponseForRegistraionTest,
  tInitialContextSetupResponse, tPDUSessionResourceSetupResponseForRegistrationTest, tUEContextReleaseComplete,
  tUEContextReleaseRequest, tPDUSessionResourceReleaseResponseForReleaseTest, tPathSwitchRequest, tHandoverRequired,
  tHandoverRequestAcknowledge, tHandoverNotify, tPDUSessionResourceSetupResponseForPaging, tPDUSessionResourceSetupResponse]

/-- every builder that has a template: 15 hand-written + the probed ones -/
def table : List Template := handTable ++ Gen.Templates.table

/-! ## the wrappers of packet.go -/

inductive Wrapper where
  | GetNGSetupRequest | GetInitialUEMessage | GetUplinkNASTransport | GetInitialContextSetupResponse
  | GetInitialContextSetupResponseForServiceRequest | GetPDUSessionResourceSetupResponse | GetUEContextReleaseComplete
  | GetUEContextReleaseRequest | GetPDUSessionResourceReleaseResponse | GetPathSwitchRequest | GetHandoverRequired
  | GetHandoverRequestAcknowledge | GetHandoverNotify | GetPDUSessionResourceSetupResponseForPaging
  deriving DecidableEq, Repr, Inhabited

/-- replace the sub-value at a position (struct field / slice element index; 0 through a pointer);
    `none` where the Go code would dereference nil or index out of range -/
def Val.update (f : Val → Val) : List Nat → Val → Option Val
  | [], v => some (f v)
  | i :: p, .struct fs =>
    match fs[i]? with
    | some x => (Val.update f p x).map fun y => .struct (fs.set i y)
    | none => none
  | i :: p, .slice fs =>
    match fs[i]? with
    | some x => (Val.update f p x).map fun y => .slice (fs.set i y)
    | none => none
  | 0 :: p, .ptr x => (Val.update f p x).map .ptr
  | _, _ => none

/-- `message.InitiatingMessage.Value.<alternative k>.ProtocolIEs.List` -/
def iesPath (k : Nat) : List Nat := [1, 0, 2, k, 0, 0, 0]

/-- the surgery of `GetNGSetupRequest`:
    `ie := …NGSetupRequest.ProtocolIEs.List[0]; gnbID := ie.Value.GlobalRANNodeID.GlobalGNBID.GNBID.GNBID; gnbID.Bytes = gnbId;
     gnbID.BitLength = bitlength; ie = …List[1]; ie.Value.RANNodeName.Value = name` -/
def ngSetupSurgery (gnbId : Bytes) (bitlength : Nat) (name : Bytes) (pdu : Val) : Option Val :=
  (Val.update (fun _ => .bits gnbId bitlength) (iesPath 7 ++ [0, 2, 1, 0, 1, 0, 1, 1, 0]) pdu).bind
    (Val.update (fun _ => .str name) (iesPath 7 ++ [1, 2, 2, 0, 0]))

/-- `…PathSwitchRequest.ProtocolIEs.List = …List[0:5]` -/
def pathSwitchSurgery (pdu : Val) : Option Val :=
  match Val.update (fun l => match l with | .slice ies => .slice (ies.take 5) | v => v) (iesPath 8) pdu with
  | some v =>
    -- the slice expression traps when fewer than five IEs were built
    match Val.update id (iesPath 8 ++ [4]) v with
    | some _ => some v
    | none => none
  | none => none

def orPanic : Option Val → BRes Val
  | some v => .ok v
  | none => .error .panic

/-- the PDU a wrapper hands to `ngap.Encoder` -/
def Wrapper.pdu (E : Ext) (w : Wrapper) (plmn : Bytes) (args : List Val) : BRes Val :=
  match w, args with
  | .GetNGSetupRequest, [gnbId, mobilePLMN, bitlength, name] =>
    match build E tNGSetupRequest plmn [mobilePLMN] with
    | .ok pdu => orPanic (ngSetupSurgery (bytesOf gnbId) (natOf bitlength) (bytesOf name) pdu)
    | .error x => .error x
  | .GetInitialUEMessage, _ => build E tInitialUEMessage plmn args
  | .GetUplinkNASTransport, _ => build E tUplinkNasTransport plmn args
  | .GetInitialContextSetupResponse, _ => build E tInitialContextSetupResponseForRegistraionTest plmn args
  | .GetInitialContextSetupResponseForServiceRequest, _ => build E tInitialContextSetupResponse plmn (args ++ [.nil])
  | .GetPDUSessionResourceSetupResponse, _ => build E tPDUSessionResourceSetupResponseForRegistrationTest plmn args
  | .GetUEContextReleaseComplete, _ => build E tUEContextReleaseComplete plmn args
  | .GetUEContextReleaseRequest, _ => build E tUEContextReleaseRequest plmn args
  | .GetPDUSessionResourceReleaseResponse, _ => build E tPDUSessionResourceReleaseResponseForReleaseTest plmn args
  | .GetPathSwitchRequest, _ =>
    match build E tPathSwitchRequest plmn args with
    | .ok pdu => orPanic (pathSwitchSurgery pdu)
    | .error x => .error x
  | .GetHandoverRequired, _ => build E tHandoverRequired plmn args
  | .GetHandoverRequestAcknowledge, _ => build E tHandoverRequestAcknowledge plmn args
  | .GetHandoverNotify, _ => build E tHandoverNotify plmn args
  | .GetPDUSessionResourceSetupResponseForPaging, _ => build E tPDUSessionResourceSetupResponseForPaging plmn args
  | _, _ => .error .panic

/-- what a wrapper returns: `([]byte, error)`, or how the call ends -/
def Wrapper.run (E : Ext) (w : Wrapper) (plmn : Bytes) (args : List Val) : BRes (Res Bytes) :=
  match w.pdu E plmn args with
  | .ok pdu => .ok (encodePdu pdu)
  | .error x => .error x

/-- the PDU a wrapper encodes, as one skeleton (what the surgery yields): used by the theorems about wrappers -/
def tGetNGSetupRequest : Template := {
  name := "GetNGSetupRequest", message := .NGSetupRequest, roles := [.gnbid, .plmn, .bitlen, .name], dims := [],
  cases := [⟨[], .val (initiating 21 reject 7 (ngSetupIEs (.hole (.bitsLen 0 2)) (.hole (.argStr 3))))⟩] }

def tGetPathSwitchRequest : Template := {
  name := "GetPathSwitchRequest", message := .PathSwitchRequest, roles := [.amf, .ran], dims := [],
  cases := [⟨[], .val (initiating 25 reject 8 (pathSwitchIEs.take 5))⟩] }

/-- the arguments the wrapper passes on (`GetInitialContextSetupResponseForServiceRequest` adds a nil failed-list) -/
def Wrapper.args (w : Wrapper) (args : List Val) : List Val :=
  match w with
  | .GetInitialContextSetupResponseForServiceRequest => args ++ [.nil]
  | _ => args

/-- the skeleton behind each wrapper -/
def Wrapper.template : Wrapper → Template
  | .GetNGSetupRequest => tGetNGSetupRequest
  | .GetInitialUEMessage => tInitialUEMessage
  | .GetUplinkNASTransport => tUplinkNasTransport
  | .GetInitialContextSetupResponse => tInitialContextSetupResponseForRegistraionTest
  | .GetInitialContextSetupResponseForServiceRequest => tInitialContextSetupResponse
  | .GetPDUSessionResourceSetupResponse => tPDUSessionResourceSetupResponseForRegistrationTest
  | .GetUEContextReleaseComplete => tUEContextReleaseComplete
  | .GetUEContextReleaseRequest => tUEContextReleaseRequest
  | .GetPDUSessionResourceReleaseResponse => tPDUSessionResourceReleaseResponseForReleaseTest
  | .GetPathSwitchRequest => tGetPathSwitchRequest
  | .GetHandoverRequired => tHandoverRequired
  | .GetHandoverRequestAcknowledge => tHandoverRequestAcknowledge
  | .GetHandoverNotify => tHandoverNotify
  | .GetPDUSessionResourceSetupResponseForPaging => tPDUSessionResourceSetupResponseForPaging

end Stgutg.Builders
