/-
  Data types of the NAS codec layouts (C08/C09).  `Gen/NasLayouts.lean` (written by
  `gen naslayout`, which includes the IE shapes of `gen nasie`) instantiates them from
  src/free5gclib/nas/nasMessage/NAS_*.go, nasType/NAS_*.go and nas.go; `Model/NasCodec.lean`
  gives them their semantics.  Core Lean only.
-/
import Stgutg.Base.Hex
namespace Stgutg.Nas

/-- payload part of an IE struct in nasType -/
inductive Body where
  | none                 -- `struct {}`
  | octet                -- `Octet uint8`
  | arr (n : Nat)        -- `Octet [n]uint8`
  | buf                  -- `Buffer []uint8`
  deriving DecidableEq, Repr, Inhabited

/-- one nasType IE struct: which of `Iei uint8`, `Len uint8|uint16`, `Octet…|Buffer` it has and
    what its constructor and `SetIei` do.  The translator fails closed unless
    `GetIei`/`GetLen` return the field, `SetLen` stores the field and (exactly for `Buffer` shapes)
    allocates `Buffer = make([]uint8, Len)`. -/
structure Shape where
  hasIei : Bool
  /-- width of the `Len` field in octets: 0 (none), 1 (`uint8`), 2 (`uint16`) -/
  lenW : Nat
  body : Body
  /-- `NewX(iei)` calls `SetIei(iei)` -/
  newSetsIei : Bool
  /-- `SetIei` writes `(Octet & 15) + ((iei & 15) << 4)` (shape without an `Iei` field) -/
  ieiNibble : Bool
  deriving DecidableEq, Repr, Inhabited

/-- the write statements `binary.Write(buffer, binary.BigEndian, <arg>)` -/
inductive WOp where
  | iei        -- `a.X.GetIei()`
  | len        -- `a.X.GetLen()`
  | octet      -- `&a.X.Octet`            (one octet or the whole array)
  | buf        -- `&a.X.Buffer`
  | octetLen   -- `a.X.Octet[:a.X.GetLen()]`
  | raw        -- `&a.X`                  (only the empty struct)
  deriving DecidableEq, Repr, Inhabited

/-- the decode statements -/
inductive ROp where
  | new        -- `a.X = nasType.NewX(ieiN)`
  | setOctet   -- `a.X.Octet = ieiN`
  | lenSet     -- `binary.Read(.., &a.X.Len)` ; `a.X.SetLen(a.X.GetLen())`
  | octet      -- `binary.Read(.., &a.X.Octet)`
  | bufLen     -- `binary.Read(.., a.X.Buffer[:a.X.GetLen()])`
  | bufPtr     -- `binary.Read(.., &a.X.Buffer)`
  | octetLen   -- `binary.Read(.., a.X.Octet[:a.X.GetLen()])`
  | raw        -- `binary.Read(.., &a.X)`
  deriving DecidableEq, Repr, Inhabited

/-- one embedded field of a nasMessage struct -/
structure Field where
  name : String
  shape : Shape
  /-- `*nasType.X` (optional IE) rather than `nasType.X` -/
  ptr : Bool
  deriving Repr, Inhabited

structure DecCase where
  /-- value of the `case` constant -/
  iei : Nat
  /-- index of the struct field the case assigns -/
  slot : Nat
  ops : List ROp
  deriving Repr, Inhabited

/-- what `gen naslayout` extracts from one `NAS_<Msg>.go` -/
structure Layout where
  name : String
  fields : List Field
  /-- unconditional writes of `Encode<Msg>`, grouped by field, in statement order -/
  encMand : List (Nat × List WOp)
  /-- the `if a.X != nil { … }` blocks of `Encode<Msg>` in statement order -/
  encOpt : List (Nat × List WOp)
  /-- reads of `Decode<Msg>` before the loop, grouped by field -/
  decMand : List (Nat × List ROp)
  /-- the `switch tmpIeiN` of the decode loop, in source order -/
  cases : List DecCase
  deriving Repr, Inhabited

/-- message-type dispatch of nas.go: for 5GMM and 5GSM, the `case MsgTypeX:` tables of the
    decode and of the encode switch, each as (message type value, index into `layouts`) -/
structure Dispatch where
  epd : Nat
  /-- `len(Header.Octet)` -/
  hdrLen : Nat
  /-- index used by `GetMessageType` -/
  typeIdx : Nat
  dec : List (Nat × Nat)
  enc : List (Nat × Nat)
  deriving Repr, Inhabited

/-- where a bit-field setter of nasType writes -/
inductive SetTarget where
  | octet                -- `a.Octet`
  | octetAt              -- `a.Octet[i]`
  | bufferAt             -- `a.Buffer[i]`
  deriving DecidableEq, Repr, Inhabited

/-- `TGT = (TGT & keep) + ((v & take) << shift)` in `uint8` (written by `gen nassetters`) -/
structure BitSet where
  target : SetTarget
  idx : Nat
  keep : Nat
  take : Nat
  shift : Nat
  deriving DecidableEq, Repr, Inhabited

/-- `copy(a.Buffer, v)` -/
inductive CopySet where
  | buffer
  deriving DecidableEq, Repr, Inhabited

end Stgutg.Nas
