/-
  C20 — interleaving semantics for calls that share package-level variables.

  A *location* is a package-level variable of the repo's packages (an index into `Gen.Footprint.globals`).
  A thread is a list of atomic *steps*; a step declares a read set and a write set over locations and acts on
  (shared store, thread-local state).  Caller-owned memory — the UE context and the messages of "its own UE",
  which the property gives to exactly one goroutine — is the thread-local state.
  There is no synchronisation in the model (the code has none), so two steps of different threads are never
  ordered by happens-before: a *race* is any pair of steps of different threads, anywhere in a trace, one of
  which writes a location the other reads or writes.

  A schedule is any merge of the threads' step lists (`Interleaving`); the sequential run is the merge that
  runs the threads one after the other (`seqTrace`).  Core Lean only (the driver links this file).
-/
namespace Stgutg.Model.Interleave

abbrev Loc := Nat
abbrev Tid := Nat

/-- the shared store: one value per package-level variable -/
abbrev Store (Val : Type) := Loc → Val

/-- an atomic step: declared footprint and action.  The action returns the writes it performs (in order)
    and the new thread-local state. -/
structure Step (Val Local : Type) where
  reads : List Loc
  writes : List Loc
  act : Store Val → Local → List (Loc × Val) × Local

def setLoc {Val : Type} (σ : Store Val) (l : Loc) (v : Val) : Store Val :=
  fun l' => if l' = l then v else σ l'

def applyWrites {Val : Type} (σ : Store Val) : List (Loc × Val) → Store Val
  | [] => σ
  | w :: ws => applyWrites (setLoc σ w.1 w.2) ws

/-- the step stays inside its declared footprint: what it does depends on the store only through `reads`,
    and it writes only locations in `writes`.  (For the entry points this is what `gen footprint` computes
    from the source; it is a hypothesis of every theorem.) -/
structure Respects {Val Local : Type} (s : Step Val Local) : Prop where
  reads_only : ∀ (σ σ' : Store Val) (loc : Local), (∀ l, l ∈ s.reads → σ l = σ' l) → s.act σ loc = s.act σ' loc
  writes_only : ∀ (σ : Store Val) (loc : Local) (w : Loc × Val), w ∈ (s.act σ loc).1 → w.1 ∈ s.writes

structure Config (Val Local : Type) where
  store : Store Val
  locals : Tid → Local

def upd {α : Type} (f : Nat → α) (i : Nat) (a : α) : Nat → α := fun j => if j = i then a else f j

/-- thread `i` performs step `s` -/
def stepCfg {Val Local : Type} (c : Config Val Local) (i : Tid) (s : Step Val Local) : Config Val Local :=
  let r := s.act c.store (c.locals i)
  { store := applyWrites c.store r.1, locals := upd c.locals i r.2 }

/-- an executed schedule: which thread performed which step, in order -/
abbrev Trace (Val Local : Type) := List (Tid × Step Val Local)

def exec {Val Local : Type} (c : Config Val Local) : Trace Val Local → Config Val Local
  | [] => c
  | e :: tr => exec (stepCfg c e.1 e.2) tr

/-- the threads: thread id ↦ its remaining steps in program order (any number of threads, any lengths) -/
abbrev Pool (Val Local : Type) := Tid → List (Step Val Local)

/-- `Interleaving p tr`: `tr` is a merge of the step lists of `p` — every thread's steps all occur, in program
    order, and nothing else occurs.  These are exactly the schedules. -/
inductive Interleaving {Val Local : Type} : Pool Val Local → Trace Val Local → Prop
  | done {p : Pool Val Local} : (∀ i, p i = []) → Interleaving p []
  | pick {p : Pool Val Local} {i : Tid} {s : Step Val Local} {rest : List (Step Val Local)} {tr : Trace Val Local} :
      p i = s :: rest → Interleaving (upd p i rest) tr → Interleaving p ((i, s) :: tr)

/-- one thread run alone from store `σ` -/
def solo {Val Local : Type} (σ : Store Val) (loc : Local) : List (Step Val Local) → Store Val × Local
  | [] => (σ, loc)
  | s :: ss => solo (applyWrites σ (s.act σ loc).1) (s.act σ loc).2 ss

/-- the sequential run: the threads listed in `ids`, each to completion, one after the other -/
def seqTrace {Val Local : Type} (p : Pool Val Local) : List Tid → Trace Val Local
  | [] => []
  | i :: ids => (p i).map (fun s => (i, s)) ++ seqTrace p ids

def readsOf {Val Local : Type} : List (Step Val Local) → List Loc
  | [] => []
  | s :: ss => s.reads ++ readsOf ss

def writesOf {Val Local : Type} : List (Step Val Local) → List Loc
  | [] => []
  | s :: ss => s.writes ++ writesOf ss

/-- `s` writes nothing that `s'` reads or writes -/
def NoWriteInto {Val Local : Type} (s s' : Step Val Local) : Prop :=
  ∀ l, l ∈ s.writes → l ∉ s'.reads ∧ l ∉ s'.writes

def Independent {Val Local : Type} (s s' : Step Val Local) : Prop := NoWriteInto s s' ∧ NoWriteInto s' s

/-- no conflicting access pair: any two steps of different threads in the trace are independent -/
def RaceFree {Val Local : Type} (tr : Trace Val Local) : Prop :=
  tr.Pairwise (fun a b => a.1 ≠ b.1 → Independent a.2 b.2)

def PoolRespects {Val Local : Type} (p : Pool Val Local) : Prop := ∀ i s, s ∈ p i → Respects s

/-- steps of different threads have disjoint footprints: W₁ ∩ (R₂ ∪ W₂) = ∅ (quantified both ways) -/
def PoolDisjoint {Val Local : Type} (p : Pool Val Local) : Prop :=
  ∀ i j, i ≠ j → ∀ s, s ∈ p i → ∀ s', s' ∈ p j → NoWriteInto s s'

/-- a finite list of threads as a pool -/
def pool {Val Local : Type} (ts : List (List (Step Val Local))) : Pool Val Local := fun i => (ts[i]?).getD []

/-- thread 0 to completion, then thread 1, … -/
def sequential {Val Local : Type} (ts : List (List (Step Val Local))) : Trace Val Local :=
  seqTrace (pool ts) (List.range ts.length)

/-! ### declared footprints of entry points (the shape of `Gen.Footprint`) -/

/-- transitive footprint of an entry point over the repo's package-level variables -/
structure FP where
  reads : List Loc
  writes : List Loc
  deriving Repr, DecidableEq

/-- `a` writes something that `b` reads or writes -/
def FP.interferes (a b : FP) : Bool := a.writes.any (fun l => b.reads.contains l || b.writes.contains l)

/-- every pair of entry points — a pair of calls of the SAME entry point included — is interference free -/
def footprintsDisjoint (fps : List FP) : Bool := fps.all (fun a => fps.all (fun b => !(a.interferes b)))

/-- one call of entry point number `entry`, decomposed (in any way) into atomic steps -/
structure Call (Val Local : Type) where
  entry : Nat
  steps : List (Step Val Local)

/-- all atomic steps of the call stay within the entry point's declared footprint -/
def Call.Within {Val Local : Type} (fps : List FP) (c : Call Val Local) : Prop :=
  ∃ e, fps[c.entry]? = some e ∧ ∀ s, s ∈ c.steps → (∀ l, l ∈ s.reads → l ∈ e.reads) ∧ (∀ l, l ∈ s.writes → l ∈ e.writes)

/-- the step list of a thread that performs the given calls in order -/
def callSteps {Val Local : Type} : List (Call Val Local) → List (Step Val Local)
  | [] => []
  | c :: cs => c.steps ++ callSteps cs

end Stgutg.Model.Interleave
