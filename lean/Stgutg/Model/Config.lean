/-
  Hand model of `GetMode` and `Min` (src/stgutg/utils.go) and the reading of the generated wiring table of `main`
  (Gen/Wiring.lean from stg-utg.go and the yaml tags of `Conf`).
-/
import Stgutg.Base.Hex
import Stgutg.Gen.Wiring

namespace Stgutg.Model.Config
open Stgutg

/-- `GetMode(args []string) int`. With two arguments it compares `os.Args[1]` — the process arguments, not its
    parameter — with "-t" (an index expression: it traps when the process has fewer than two arguments). -/
def getMode (args osArgs : List String) : Res Nat :=
  if args.length = 1 then .ok 1
  else if args.length = 2 then
    match osArgs[1]? with
    | none => .error .panic
    | some testMode => if testMode = "-t" then .ok 2 else .ok 0
  else .ok 0

/-- `Min(x, y int) int` -/
def goMin (x y : Int) : Int := if x > y then y else x

/-- the yaml key whose value `yaml.Unmarshal` stores in the struct field (the struct tags) -/
def keyOfField (f : String) : Option String :=
  (Gen.Wiring.fields.find? (fun e => e.2.1 == f)).map (·.1)

/-- value of an argument source under a configuration given per yaml key; `mn` interprets `stgutg.Min` -/
def Src.eval {V : Type} (cfg : String → V) (mn : V → V → V) : Src → Option V
  | .field f => (keyOfField f).map cfg
  | .min a b =>
    match a.eval cfg mn, b.eval cfg mn with
    | some x, some y => some (mn x y)
    | _, _ => none
  | .other _ => none

/-- the `occ`-th (from 0) call of `callee` in a list of calls -/
def nthCall (calls : List Call) (callee : String) (occ : Nat) : Option Call :=
  (calls.filter (fun c => c.callee == callee))[occ]?

/-- the procedure calls `main` performs for the value GetMode returned: the block of the matching `mode == n`
    branch; no branch, no call (the if-chain has no else) -/
def callsOfMode (mode : Nat) : List Call :=
  match Gen.Wiring.modes.lookup mode with
  | some cs => cs
  | none => []

/-- the source of argument `pos` of the `occ`-th call of `callee` in mode `mode` -/
def argAt (mode : Nat) (callee : String) (occ pos : Nat) : Option Src :=
  (nthCall (callsOfMode mode) callee occ).bind (·.args[pos]?)

def boundAt (mode : Nat) (callee : String) (occ : Nat) : Option Bound :=
  (nthCall (callsOfMode mode) callee occ).map (·.bound)

/-- what `main` starts for an argument vector (os.Args is what `main` passes to GetMode) -/
def proceduresStarted (argv : List String) : List Call :=
  match getMode argv argv with
  | .ok m => callsOfMode m
  | .error _ => []

end Stgutg.Model.Config
