/-!
# Transport facts: the data types of `Gen/Transport.lean`

`gen transport` (harness/cmd/gen/transport.go) reads `getNgapIp` and `ConnectToAmf` of src/tglib/ngsetup.go statement by
statement and records how the four arguments reach `sctp.DialSCTP`. The `verif` hook replaces exactly this code by an inherited
socket, so no correspondence run executes it; `Props/C01Transport.lean` decides it from these facts.
-/
namespace Stgutg.Model.Transport

/-- `r = &sctp.SCTPAddr{IPAddrs: ips, Port: p}` inside getNgapIp, `ips` holding exactly the resolved parameter `ipParam`;
    `result` is the index of the named result (0 or 1), the parameters are indices of getNgapIp's parameter list -/
structure AddrFact where
  result : Nat
  ipParam : Nat
  portParam : Nat
  deriving DecidableEq, Repr, Inhabited

structure Facts where
  /-- ConnectToAmf starts with `if c := verifAdopt(); c != nil { return c, nil }` (nil without the build tag) -/
  adoptFirst : Bool
  /-- the arguments of the getNgapIp call, as indices of ConnectToAmf's parameters (amfIP, stgIP, amfPort, stgPort) -/
  callArgs : List Nat
  addrs : List AddrFact
  /-- the order in which getNgapIp returns its two named results -/
  returned : List Nat
  /-- network literal of net.ResolveIPAddr / of sctp.DialSCTP -/
  resolveNet : String
  network : String
  /-- which of the two values returned by getNgapIp is DialSCTP's local / remote address -/
  dialLocal : Nat
  dialRemote : Nat
  /-- the value stored in SndRcvInfo.PPID before SetDefaultSentParam -/
  ppid : Nat
  deriving DecidableEq, Repr, Inhabited

end Stgutg.Model.Transport
