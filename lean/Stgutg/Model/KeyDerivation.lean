/-
  Hand model of
    src/free5gclib/UeauCommon/UeauCommon.go   GetKDFValue, KDFLen, FC_FOR_… constants
    src/tglib/ranUe.go                        DeriveRESstarAndSetKey, DerivateKamf, DerivateAlgKey
    src/stgutg/ue.go                          the snName construction in RegisterUE
    github.com/wmnsk/milenage v1.2.1          New / NewWithOPc / validateLength / computeOPc / F2345 / ComputeRESStar
                                              (third party, modelled from its source in the module cache; trusted base)

  Go strings are modelled by their octets (`Bytes`): `len(s)`, `[]byte(s)`, `+` and `%s` act on octets and the
  SUPI regexp contains ASCII only, so nothing depends on the UTF-8 reading.
  `fatal.Fatalf` (prints, then `os.Exit(1)`) is the outcome `.error .error`; an index/slice trap is `.error .panic`.
  `P.hmac key msg` stands for `hmac.New(sha256.New, key)` + `Write(msg)` + `Sum(nil)`.
-/
import Stgutg.Base.Prims
import Stgutg.Model.Milenage

namespace Stgutg.Model.KeyDerivation
open Stgutg.Model.Milenage (xor16 scatter xorLast)

/-- the octets of an ASCII string literal -/
def str (cs : List Char) : Bytes := cs.map fun c => UInt8.ofNat c.toNat

/-! UeauCommon constants (strings, decoded by GetKDFValue) and nas/security parameters -/
def FC_FOR_KSEAF_DERIVATION : Bytes := str ['6', 'C']
def FC_FOR_RES_STAR_XRES_STAR_DERIVATION : Bytes := str ['6', 'B']
def FC_FOR_KAUSF_DERIVATION : Bytes := str ['6', 'A']
def FC_FOR_KAMF_DERIVATION : Bytes := str ['6', 'D']
def FC_FOR_ALGORITHM_KEY_DERIVATION : Bytes := str ['6', '9']
def NNASEncAlg : UInt8 := 0x01
def NNASIntAlg : UInt8 := 0x02

def hexNibble (b : UInt8) : Option UInt8 :=
  if 0x30 ≤ b ∧ b ≤ 0x39 then some (b - 0x30)
  else if 0x61 ≤ b ∧ b ≤ 0x66 then some (b - 0x61 + 10)
  else if 0x41 ≤ b ∧ b ≤ 0x46 then some (b - 0x41 + 10)
  else none

/-- `encoding/hex.DecodeString`: `none` = error (odd length or a non-hex character) -/
def hexDecode : Bytes → Option Bytes
  | [] => some []
  | [_] => none
  | a :: b :: rest =>
    match hexNibble a, hexNibble b, hexDecode rest with
    | some x, some y, some r => some ((x <<< 4 ||| y) :: r)
    | _, _, _ => none

/-- `KDFLen(input)`: `binary.BigEndian.PutUint16(r, uint16(len(input)))` -/
def KDFLen (input : Bytes) : Bytes := natBE 2 (input.length % 65536)

/-- `GetKDFValue(key, FC, param...)`: a FC that does not decode is logged and S starts empty -/
def GetKDFValue (P : Prims) (key : Bytes) (fc : Bytes) (param : List Bytes) : Bytes :=
  let s := match hexDecode fc with
    | some b => b
    | none => []
  P.hmac key (s ++ param.flatten)

/-! the SUPI regexp `(?:imsi|supi)-([0-9]{5,15})`, leftmost match, greedy digits -/
def isDigit (b : UInt8) : Bool := 0x30 ≤ b && b ≤ 0x39

/-- a match starting at the head of `s`: group 1 -/
def supiMatchAt (s : Bytes) : Option Bytes :=
  if s.take 5 = str ['i', 'm', 's', 'i', '-'] ∨ s.take 5 = str ['s', 'u', 'p', 'i', '-'] then
    let ds := (s.drop 5).takeWhile isDigit
    if 5 ≤ ds.length then some (ds.take 15) else none
  else none

/-- `supiRegexp.FindStringSubmatch(supi)`: `none` = nil (no match), else group 1 -/
def supiFind : Bytes → Option Bytes
  | [] => none
  | c :: t =>
    match supiMatchAt (c :: t) with
    | some d => some d
    | none => supiFind t

/-- the three keys computed inside `DerivateKamf(key, snName, SQN, AK)`; only the last one is stored.
    `groups[1]` on a nil match panics. P1 of K_AUSF is the `SQN` argument as it is (the caller passes AUTN[0:6]). -/
def derivateKamfChain (P : Prims) (supi key snName sqn : Bytes) : Res (Bytes × Bytes × Bytes) :=
  let kausf := GetKDFValue P key FC_FOR_KAUSF_DERIVATION [snName, KDFLen snName, sqn, KDFLen sqn]
  let kseaf := GetKDFValue P kausf FC_FOR_KSEAF_DERIVATION [snName, KDFLen snName]
  match supiFind supi with
  | none => .error .panic
  | some digits =>
    let p1 : Bytes := [0x00, 0x00]
    .ok (kausf, kseaf, GetKDFValue P kseaf FC_FOR_KAMF_DERIVATION [digits, KDFLen digits, p1, KDFLen p1])

/-- `ue.DerivateKamf(key, snName, SQN, AK)` → ue.Kamf -/
def DerivateKamf (P : Prims) (supi key snName sqn : Bytes) : Res Bytes :=
  (derivateKamfChain P supi key snName sqn).map fun t => t.2.2

/-- `ue.DerivateAlgKey()` → (ue.KnasEnc, ue.KnasInt); `kenc[16:32]` traps on a MAC shorter than 32 octets -/
def DerivateAlgKey (P : Prims) (kamf : Bytes) (cipheringAlg integrityAlg : UInt8) : Res (Bytes × Bytes) :=
  let kenc := GetKDFValue P kamf FC_FOR_ALGORITHM_KEY_DERIVATION
    [[NNASEncAlg], KDFLen [NNASEncAlg], [cipheringAlg], KDFLen [cipheringAlg]]
  if kenc.length < 32 then .error .panic else
  let kint := GetKDFValue P kamf FC_FOR_ALGORITHM_KEY_DERIVATION
    [[NNASIntAlg], KDFLen [NNASIntAlg], [integrityAlg], KDFLen [integrityAlg]]
  if kint.length < 32 then .error .panic else
  .ok ((kenc.drop 16).take 16, (kint.drop 16).take 16)

/-- stgutg/ue.go RegisterUE:
    `if len(mnc) == 2 { snName = "5G:mnc0" + mnc + ".mcc" + mcc + ".3gppnetwork.org" } else { snName = "5G:mnc" + mnc + … }` -/
def snName (mnc mcc : Bytes) : Bytes :=
  let tail := str ['.', 'm', 'c', 'c'] ++ mcc ++
    str ['.', '3', 'g', 'p', 'p', 'n', 'e', 't', 'w', 'o', 'r', 'k', '.', 'o', 'r', 'g']
  if mnc.length = 2 then str ['5', 'G', ':', 'm', 'n', 'c', '0'] ++ mnc ++ tail
  else str ['5', 'G', ':', 'm', 'n', 'c'] ++ mnc ++ tail

/-! github.com/wmnsk/milenage as used by DeriveRESstarAndSetKey -/

/-- the fields of `*milenage.Milenage` that matter: K, OP (nil or not), OPc (nil or not), RAND -/
structure Mil where
  k : Bytes
  op : Option Bytes
  opc : Option Bytes
  rand : Bytes

/-- `validateLength` (the fields New/NewWithOPc allocate themselves always have the right length) -/
def Mil.validateLength (m : Mil) : Bool :=
  m.k.length == 16 && (match m.op with | some op => op.length == 16 | none => true) &&
  (match m.opc with | some opc => opc.length == 16 | none => true) && m.rand.length == 16

/-- `computeOPc`: OPc = E_K(OP) xor OP (only reached with a validated 16-octet K and OP) -/
def Mil.computeOPc (P : Prims) (m : Mil) : Bytes :=
  let op := m.op.getD []
  xorBytes (P.aes m.k op) op

/-- the outputs of `F2345()` that are kept in the struct: RES, CK, IK, AK -/
structure MilOut where
  res : Bytes
  ck : Bytes
  ik : Bytes
  ak : Bytes

/-- `(*Milenage).F2345()`: `none` = error return -/
def Mil.F2345 (P : Prims) (m : Mil) : Option MilOut :=
  if ¬ m.validateLength then none else
  let opc := match m.opc with
    | some o => o
    | none => m.computeOPc P
  let temp := P.aes m.k (xor16 m.rand opc)
  let tmp := xorBytes (P.aes m.k (xorLast (xor16 temp opc) 1)) opc
  let ck := xorBytes (P.aes m.k (xorLast (scatter 12 (xor16 temp opc)) 2)) opc
  let ik := xorBytes (P.aes m.k (xorLast (scatter 8 (xor16 temp opc)) 4)) opc
  some { res := tmp.drop 8, ak := tmp.take 6, ck := ck, ik := ik }

/-- `(*Milenage).ComputeRESStar(mcc, mnc)` after a successful F2345: `none` = error return.
    `out[len(out)-16:]` traps on a MAC shorter than 16 octets. -/
def computeRESStar (P : Prims) (rand : Bytes) (o : MilOut) (mcc mnc : Bytes) : Res (Option Bytes) :=
  if mcc.length ≠ 3 then .ok none else
  if mnc.length ≠ 2 ∧ mnc.length ≠ 3 then .ok none else
  let mnc := if mnc.length = 2 then 0x30 :: mnc else mnc
  let snn := str ['5', 'G', ':', 'm', 'n', 'c'] ++ mnc ++ str ['.', 'm', 'c', 'c'] ++ mcc ++
    str ['.', '3', 'g', 'p', 'p', 'n', 'e', 't', 'w', 'o', 'r', 'k', '.', 'o', 'r', 'g']
  if snn.length ≠ 32 then .ok none else
  -- b[0] = 0x6b; snn ‖ len; RAND ‖ len; RES ‖ len (copies into fixed 16- and 8-octet windows)
  let b : Bytes := [0x6b] ++ snn ++ natBE 2 snn.length ++ (rand.take 16 ++ List.replicate (16 - rand.length) 0) ++
    natBE 2 rand.length ++ (o.res.take 8 ++ List.replicate (8 - o.res.length) 0) ++ natBE 2 o.res.length
  let key := (o.ck.take 16 ++ List.replicate (16 - o.ck.length) 0) ++ (o.ik.take 16 ++ List.replicate (16 - o.ik.length) 0)
  let out := P.hmac key b
  if out.length < 16 then .error .panic else
  .ok (some (out.drop (out.length - 16)))

/-- the string fields of `models.AuthenticationSubscription` that are read -/
structure AuthSubs where
  amf : Bytes      -- AuthenticationManagementField (hex string)
  k : Bytes        -- PermanentKey.PermanentKeyValue
  opc : Bytes      -- Opc.OpcValue
  op : Bytes       -- Milenage.Op.OpValue

/-- what the call returns and installs in the UE context -/
structure UeKeys where
  resStar : Bytes
  kamf : Bytes
  knasEnc : Bytes
  knasInt : Bytes
  deriving DecidableEq, Repr

/-- `ue.DeriveRESstarAndSetKey(authSubs, autn, rand, snName, mnc, mcc)` with ue.Supi / CipheringAlg / IntegrityAlg.
    `mil.F1()` and `mil.F1Star(sqn, amf)` are called first and their results and errors discarded; their only
    lasting effect (caching OPc = E_K(OP) xor OP when only OP is configured) is what F2345 would compute itself. -/
def DeriveRESstarAndSetKey (P : Prims) (supi : Bytes) (cipheringAlg integrityAlg : UInt8) (a : AuthSubs)
    (autn rand snName mnc mcc : Bytes) : Res UeKeys :=
  match hexDecode a.amf with
  | none => .error .error
  | some amf =>
  match hexDecode a.k with
  | none => .error .error
  | some k =>
  let mk : Res Mil :=
    if a.opc = [] then
      match hexDecode a.op with
      | none => .error .error
      | some op =>
        -- binary.LittleEndian.Uint16(amf)
        if amf.length < 2 then .error .panic else .ok { k := k, op := some op, opc := none, rand := rand }
    else
      match hexDecode a.opc with
      | none => .error .error
      | some opc =>
        if amf.length < 2 then .error .panic else .ok { k := k, op := none, opc := some opc, rand := rand }
  match mk with
  | .error e => .error e
  | .ok mil =>
  match mil.F2345 P with
  | none => .error .error
  | some o =>
  let key := o.ck ++ o.ik
  match DerivateKamf P supi key snName (autn.take 6) with
  | .error e => .error e
  | .ok kamf =>
  match DerivateAlgKey P kamf cipheringAlg integrityAlg with
  | .error e => .error e
  | .ok (kenc, kint) =>
  match computeRESStar P rand o mcc mnc with
  | .error e => .error e
  | .ok none => .error .error
  | .ok (some resStar) => .ok { resStar := resStar, kamf := kamf, knasEnc := kenc, knasInt := kint }

end Stgutg.Model.KeyDerivation
