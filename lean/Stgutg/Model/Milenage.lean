/-
  Hand model of src/free5gclib/milenage/milenage.go
  (milenageF1, milenageF2345, F1, F2345, GenerateOPC, MilenageGenerate, Milenage_check, Milenage_auts, os_memcmp).

  Conventions: input slices are `Bytes` of any length (a Go index/slice trap is `.error .panic`, an
  `aes.NewCipher` error is `.error .error`); output buffers are either nil or fresh zeroed buffers of the
  documented size (RES 8, CK 16, IK 16, AK 6, AK* 6, AUTN 16, AUTS 14, SQN 6) and are returned as values;
  slices have cap = len. `P.aes key block` stands for `aes.NewCipher(key)` + `Encrypt` of one 16-octet block.
-/
import Stgutg.Base.Prims

namespace Stgutg.Model.Milenage

/-- `aes.NewCipher(k)` fails unless len(k) ∈ {16, 24, 32} -/
def newCipher (k : Bytes) : Res Unit :=
  if k.length = 16 ∨ k.length = 24 ∨ k.length = 32 then .ok () else .error .error

/-- `for i := 0; i < 16; i++ { out[i] = a[i] ^ b[i] }` (both already known to have ≥ 16 octets) -/
def xor16 (a b : Bytes) : Bytes := xorBytes (a.take 16) (b.take 16)

/-- `for i := 0; i < 16; i++ { out[(i+s)%16] = x[i] }` on a 16-octet buffer -/
def scatter (s : Nat) (x : Bytes) : Bytes :=
  (List.range 16).foldl (fun out i => out.set ((i + s) % 16) (x.getD i 0)) (List.replicate 16 0)

/-- `t[15] ^= c` -/
def xorLast (t : Bytes) (c : UInt8) : Bytes := t.set 15 (t.getD 15 0 ^^^ c)

/-- `milenageF1`: returns what is written to (mac_a, mac_s) when the buffer is not nil -/
def milenageF1 (P : Prims) (opc k rand sqn amf : Bytes) : Res (Bytes × Bytes) :=
  -- rijndaelInput[i] = _rand[i] ^ opc[i]
  if rand.length < 16 ∨ opc.length < 16 then .error .panic else
  match newCipher k with
  | .error e => .error e
  | .ok () =>
    let tmp1 := P.aes k (xor16 rand opc)
    -- copy(tmp2[0:], sqn[0:6]); copy(tmp2[6:], amf[0:2]); copy(tmp2[8:], tmp2[0:8])
    if sqn.length < 6 then .error .panic else
    if amf.length < 2 then .error .panic else
    let tmp2 := sqn.take 6 ++ amf.take 2 ++ (sqn.take 6 ++ amf.take 2)
    -- tmp3[(i+8)%16] = tmp2[i] ^ opc[i]
    let tmp3 := scatter 8 (xor16 tmp2 opc)
    -- tmp3[i] ^= tmp1[i]
    let tmp3 := xorBytes tmp3 tmp1
    -- tmp1 = E_K(tmp3); tmp1[i] ^= opc[i]
    let out := xorBytes (P.aes k tmp3) (opc.take 16)
    .ok (out.take 8, out.drop 8)

/-- the five optional outputs of `milenageF2345`; `none` = the buffer was nil -/
structure F2345Out where
  res : Option Bytes
  ck : Option Bytes
  ik : Option Bytes
  ak : Option Bytes
  akstar : Option Bytes
  deriving DecidableEq, Repr

def opt (want : Bool) (v : Bytes) : Option Bytes := if want then some v else none

/-- `milenageF2345(opc, k, _rand, res, ck, ik, ak, akstar)`; the Bool says whether the buffer is non-nil -/
def milenageF2345 (P : Prims) (opc k rand : Bytes) (wRes wCk wIk wAk wAkstar : Bool) : Res F2345Out :=
  if rand.length < 16 ∨ opc.length < 16 then .error .panic else
  match newCipher k with
  | .error e => .error e
  | .ok () =>
    let tmp2 := P.aes k (xor16 rand opc)
    -- f2 and f5: tmp1[i] = tmp2[i] ^ opc[i]; tmp1[15] ^= 1; tmp3 = E_K(tmp1) ^ opc
    let tmp3 := xorBytes (P.aes k (xorLast (xor16 tmp2 opc) 1)) (opc.take 16)
    -- f3: tmp1[(i+12)%16] = tmp2[i] ^ opc[i]; tmp1[15] ^= 2
    let ck := xorBytes (P.aes k (xorLast (scatter 12 (xor16 tmp2 opc)) 2)) (opc.take 16)
    -- f4: tmp1[(i+8)%16] = tmp2[i] ^ opc[i]; tmp1[15] ^= 4
    let ik := xorBytes (P.aes k (xorLast (scatter 8 (xor16 tmp2 opc)) 4)) (opc.take 16)
    -- f5*: tmp1[(i+4)%16] = tmp2[i] ^ opc[i]; tmp1[15] ^= 8; akstar[i] = tmp1[i] ^ opc[i] for i < 6
    let akstar := xorBytes ((P.aes k (xorLast (scatter 4 (xor16 tmp2 opc)) 8)).take 6) (opc.take 6)
    .ok { res := opt wRes (tmp3.drop 8), ak := opt wAk (tmp3.take 6),
          ck := opt wCk ck, ik := opt wIk ik, akstar := opt wAkstar akstar }

/-- exported wrapper `F1(opc, k, _rand, sqn, amf, mac_a, mac_s)` -/
def F1 (P : Prims) (opc k rand sqn amf : Bytes) : Res (Bytes × Bytes) := milenageF1 P opc k rand sqn amf

/-- exported wrapper `F2345` -/
def F2345 (P : Prims) (opc k rand : Bytes) (wRes wCk wIk wAk wAkstar : Bool) : Res F2345Out :=
  milenageF2345 P opc k rand wRes wCk wIk wAk wAkstar

/-- `GenerateOPC(k, op)`: `block.Encrypt(opc, op)` needs a full input block, then `opc[i] ^= op[i]` -/
def GenerateOPC (P : Prims) (k op : Bytes) : Res Bytes :=
  match newCipher k with
  | .error e => .error e
  | .ok () =>
    if op.length < 16 then .error .panic else
    .ok (xorBytes (P.aes k (op.take 16)) (op.take 16))

structure GenOut where
  resLen : Nat
  autn : Bytes
  ik : Bytes
  ck : Bytes
  ak : Bytes
  res : Bytes
  deriving DecidableEq, Repr

def zeros (n : Nat) : Bytes := List.replicate n 0

/-- `MilenageGenerate(opc, amf, k, sqn, _rand, autn, ik, ck, ak, res, &res_len)`, all buffers non-nil -/
def MilenageGenerate (P : Prims) (opc amf k sqn rand : Bytes) (resLen : Nat) : Res GenOut :=
  let untouched (n : Nat) : GenOut := ⟨n, zeros 16, zeros 16, zeros 16, zeros 6, zeros 8⟩
  if resLen < 8 then .ok (untouched 0) else
  match milenageF1 P opc k rand sqn amf with
  | .error .error => .ok (untouched 0)
  | .error e => .error e
  | .ok (macA, _) =>
    match milenageF2345 P opc k rand true true true true false with
    | .error .error => .ok (untouched 0)
    | .error e => .error e
    | .ok o =>
      let ak := o.ak.getD []
      -- autn[i] = sqn[i] ^ ak[i] (i < 6); copy(autn[6:], amf[0:2]); copy(autn[8:], mac_a[0:8])
      .ok ⟨8, xorBytes (sqn.take 6) ak ++ amf.take 2 ++ macA, o.ik.getD [], o.ck.getD [], ak, o.res.getD []⟩

/-- `os_memcmp(a, b, num)`: -1 / 1 at the first differing octet, 0 when the first `num` octets agree
    (before the F3 repair the result was minus/plus the INDEX of that octet, hence 0 for a difference in octet 0) -/
def osMemcmpFrom (a b : Bytes) : Nat → Nat → Res Int
  | 0, _ => .ok 0
  | n + 1, i =>
    match a[i]?, b[i]? with
    | some x, some y =>
      if x < y then .ok (-1)
      else if x > y then .ok 1
      else osMemcmpFrom a b n (i + 1)
    | _, _ => .error .panic

def os_memcmp (a b : Bytes) (num : Nat) : Res Int := osMemcmpFrom a b num 0

structure CheckOut where
  ret : Int
  resLen : Nat
  res : Bytes
  ck : Bytes
  ik : Bytes
  auts : Bytes
  deriving DecidableEq, Repr

/-- `Milenage_check(opc, k, sqn, _rand, autn, ik, ck, res, &res_len, auts)`; `resLen0` is *res_len on entry -/
def Milenage_check (P : Prims) (opc k sqn rand autn : Bytes) (resLen0 : Nat) : Res CheckOut :=
  match milenageF2345 P opc k rand true true true true false with
  | .error .error => .ok ⟨-1, resLen0, zeros 8, zeros 16, zeros 16, zeros 14⟩
  | .error e => .error e
  | .ok o =>
    let res := o.res.getD []
    let ck := o.ck.getD []
    let ik := o.ik.getD []
    let ak := o.ak.getD []
    -- rx_sqn[i] = autn[i] ^ ak[i]
    if autn.length < 6 then .error .panic else
    let rxSqn := xorBytes (autn.take 6) ak
    match os_memcmp rxSqn sqn 6 with
    | .error e => .error e
    | .ok c =>
      if c ≤ 0 then
        match milenageF2345 P opc k rand false false false false true with
        | .error .error => .ok ⟨-1, 8, res, ck, ik, zeros 14⟩
        | .error e => .error e
        | .ok o2 =>
          -- auts[i] = sqn[i] ^ ak[i]
          if sqn.length < 6 then .error .panic else
          let autsHead := xorBytes (sqn.take 6) (o2.akstar.getD [])
          match milenageF1 P opc k rand sqn [0, 0] with
          | .error .error => .ok ⟨-1, 8, res, ck, ik, autsHead ++ zeros 8⟩
          | .error e => .error e
          | .ok (_, macS) => .ok ⟨-2, 8, res, ck, ik, autsHead ++ macS⟩
      else
        -- amf = autn[6:]; milenageF1 slices amf[0:2]
        if autn.length < 8 then .error .panic else
        match milenageF1 P opc k rand rxSqn (autn.drop 6) with
        | .error .error => .ok ⟨-1, 8, res, ck, ik, zeros 14⟩
        | .error e => .error e
        | .ok (macA, _) =>
          match os_memcmp macA (autn.drop 8) 8 with
          | .error e => .error e
          | .ok c2 =>
            if c2 ≠ 0 then .ok ⟨-1, 8, res, ck, ik, zeros 14⟩
            else .ok ⟨0, 8, res, ck, ik, zeros 14⟩

/-- `Milenage_auts(opc, k, _rand, auts, sqn)` → (return code, sqn buffer afterwards) -/
def Milenage_auts (P : Prims) (opc k rand auts : Bytes) : Res (Int × Bytes) :=
  match milenageF2345 P opc k rand false false false false true with
  | .error .error => .ok (-1, zeros 6)
  | .error e => .error e
  | .ok o =>
    -- sqn[i] = auts[i] ^ ak[i]
    if auts.length < 6 then .error .panic else
    let sqn := xorBytes (auts.take 6) (o.akstar.getD [])
    match milenageF1 P opc k rand sqn [0, 0] with
    | .error .error => .ok (-1, sqn)
    | .error e => .error e
    | .ok (_, macS) =>
      -- reflect.DeepEqual(mac_s, auts[6:14])
      if auts.length < 14 then .error .panic else
      if macS = (auts.drop 6).take 8 then .ok (0, sqn) else .ok (-1, sqn)

end Stgutg.Model.Milenage
