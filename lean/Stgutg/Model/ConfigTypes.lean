/-
  Types of the generated wiring table (Gen/Wiring.lean, written by `gen wiring` from stg-utg.go).
-/
namespace Stgutg.Model.Config

/-- where an argument (or loop bound) of a procedure call in `main` comes from -/
inductive Src where
  /-- `c.Configuration.<name>`, directly or through one local variable defined once from it -/
  | field (name : String)
  /-- `stgutg.Min(a, b)` through one local variable -/
  | min (a b : Src)
  /-- an expression that does not mention the configuration (connection, UE context, loop index …) -/
  | other (text : String)
  deriving DecidableEq, Repr

/-- how often the statement containing a call runs -/
inductive Bound where
  /-- straight-line code: once -/
  | none
  /-- `for i := 0; i < b; i++` -/
  | upto (b : Src)
  /-- `for … := range list`, where `list` receives exactly one element per turn of the loop bounded by `b` -/
  | each (list : String) (b : Src)
  deriving DecidableEq, Repr

structure Call where
  callee : String
  args : List Src
  bound : Bound
  deriving DecidableEq, Repr

end Stgutg.Model.Config
