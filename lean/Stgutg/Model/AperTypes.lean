/-
  Data model shared by the APER model, the X.691 spec and the generated NGAP schema:
  `reflect.Type` + struct tags become `Ty` / `Params` / `StructDef`; `reflect.Value` becomes `Val`.
-/
import Stgutg.Base.Hex

namespace Stgutg.Aper

/-- Go types as the reflective codec sees them. -/
inductive Ty where
  | int | enum | bits | octs | str | bool | oid
  | struct (id : Nat)          -- index into the schema (SEQUENCE, or CHOICE iff field 0 is named "Present")
  | ptr (t : Ty)
  | slice (t : Ty)
  deriving DecidableEq, Repr, Inhabited

/-- `aper.fieldParameters` (the parsed `aper:"…"` tag). -/
structure Params where
  optional : Bool := false
  sizeExt : Bool := false
  valueExt : Bool := false
  sizeLB : Option Int := none
  sizeUB : Option Int := none
  valueLB : Option Int := none
  valueUB : Option Int := none
  openType : Bool := false
  refField : String := ""
  refValue : Option Int := none
  deriving DecidableEq, Repr, Inhabited

structure Field where
  name : String
  params : Params
  ty : Ty
  deriving DecidableEq, Repr, Inhabited

structure StructDef where
  name : String
  fields : List Field
  deriving DecidableEq, Repr, Inhabited

abbrev Env := List StructDef

/-- Go values. A CHOICE struct is `struct (int present :: alternatives)`, each alternative a pointer. -/
inductive Val where
  | int (v : Int)
  | enum (v : Nat)
  | bits (bytes : Bytes) (len : Nat)
  | octs (b : Bytes)
  | str (b : Bytes)
  | bool (b : Bool)
  | oid (b : Bytes)
  | struct (fs : List Val)
  | nil                        -- nil pointer
  | ptr (v : Val)              -- non-nil pointer
  | slice (l : List Val)
  deriving Repr, Inhabited

end Stgutg.Aper
