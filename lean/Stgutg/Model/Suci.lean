/-
  Hand model of src/stgutg/utils.go (hexCharToByte, EncodeSuci) and of the PLMN that
  src/stgutg/ngsetup.go ManageNGSetup takes from it (`EncodeSuci(imsi, len(mnc)).Buffer[1:4]`),
  with the copies the builders of src/tglib/ngapTestpacket/build.go make of it (package variable
  `TestPlmn`, set by BuildNGSetupRequest, read by every user-location IE).
  `imsi` is the Go `[]byte` (ASCII); an index past its end is a Go panic.
-/
import Stgutg.Base.Hex

namespace Stgutg.Model.Suci
open Stgutg

/-- `hexCharToByte` -/
def hexCharToByte (c : UInt8) : UInt8 :=
  if 48 ≤ c && c ≤ 57 then c - 48          -- '0'..'9'
  else if 97 ≤ c && c ≤ 102 then c - 97 + 10  -- 'a'..'f'
  else if 65 ≤ c && c ≤ 70 then c - 65 + 10   -- 'A'..'F'
  else 0

/-- `hexCharToByte(hi)<<4 | hexCharToByte(lo)` -/
def pack (hi lo : UInt8) : UInt8 := (hexCharToByte hi <<< 4) ||| hexCharToByte lo

/-- the loop `for i := 0; i < len(msin); i += 2 { append … }` -/
def packMsin : Bytes → Bytes
  | [] => []
  | [a] => [((0xf : UInt8) <<< 4) ||| hexCharToByte a]
  | a :: b :: rest => pack b a :: packMsin rest

/-- `EncodeSuci(imsi, mncLen).Buffer` (`Len` is `uint16(len(Buffer))`). -/
def encodeSuci (imsi : Bytes) (mncLen : Int) : Res Bytes :=
  -- Buffer: {SupiFormatImsi<<4 | MobileIdentity5GSTypeSuci, 0, 0, 0, 0xf0, 0xff, 0x00, 0x00}
  match imsi with
  | i0 :: i1 :: i2 :: t3 =>
    if mncLen > 2 then
      match t3 with
      | i3 :: i4 :: i5 :: msin =>            -- imsi[5] and imsi[6:] need len ≥ 6
        .ok ([0x01, pack i1 i0, pack i5 i2, pack i4 i3, 0xf0, 0xff, 0x00, 0x00] ++ packMsin msin)
      | _ => .error .panic
    else
      match t3 with
      | i3 :: i4 :: msin =>                  -- imsi[4] and imsi[5:] need len ≥ 5
        .ok ([0x01, pack i1 i0, ((0xf : UInt8) <<< 4) ||| hexCharToByte i2, pack i4 i3, 0xf0, 0xff, 0x00, 0x00] ++ packMsin msin)
      | _ => .error .panic
  | _ => .error .panic                       -- imsi[1] / imsi[2]

/-- `strings.TrimPrefix(imsi, "imsi-")` on bytes -/
def trimImsiPrefix (s : Bytes) : Bytes :=
  match s with
  | 105 :: 109 :: 115 :: 105 :: 45 :: rest => rest
  | _ => s

/-- ManageNGSetup: `mobilePLMN := EncodeSuci([]byte(strings.TrimPrefix(imsi, "imsi-")), len(mnc)).Buffer[1:4]`
    (the buffer always has at least 8 octets, the slice cannot trap). -/
def ngSetupPlmn (imsi : Bytes) (mncLen : Int) : Res Bytes :=
  match encodeSuci (trimImsiPrefix imsi) mncLen with
  | .ok buf => .ok ((buf.drop 1).take 3)
  | .error e => .error e

/-- The PLMN fields of the messages built after `BuildNGSetupRequest(mobilePLMN)`:
    `TestPlmn.Value = mobilePLMN`; GlobalGNBID and BroadcastPLMNItem of the NG Setup Request and NR-CGI and TAI
    of the UserLocationInformationNR of later messages all copy `TestPlmn.Value`. -/
structure PlmnFields where
  globalGnb : Bytes
  broadcast : Bytes
  uliNrCgi : Bytes
  uliTai : Bytes
  deriving DecidableEq, Repr

def builderPlmns (mobilePLMN : Bytes) : PlmnFields :=
  let testPlmn := mobilePLMN
  { globalGnb := testPlmn, broadcast := testPlmn, uliNrCgi := testPlmn, uliTai := testPlmn }

def ngSetupFields (imsi : Bytes) (mncLen : Int) : Res PlmnFields :=
  match ngSetupPlmn imsi mncLen with
  | .ok p => .ok (builderPlmns p)
  | .error e => .error e

end Stgutg.Model.Suci
