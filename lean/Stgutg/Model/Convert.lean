/-
  Hand model of the conversion helpers
    src/free5gclib/nas/nasConvert/{PlmnId,Snssai,AmfId,ProtocolConfigurationOptions}.go
    src/free5gclib/ngap/ngapConvert/IpAddress.go
    src/free5gclib/util_3gpp/3gpp_type.go
  Go strings are `Bytes`. The standard-library calls `encoding/hex.DecodeString`, `net.ParseIP` and
  `net.IP.String` are parameters (`Ext`); `Model/NetExt.lean` instantiates them for the comparator.
-/
import Stgutg.Base.Hex

namespace Stgutg.Model.Convert
open Stgutg

/-- the external calls -/
structure Ext where
  /-- `hex.DecodeString(s)`: the octets decoded before the first problem, and whether `err != nil` -/
  hexDecode : Bytes → Bytes × Bool
  /-- `net.ParseIP(s)`: `none` = nil, otherwise the 16-octet form -/
  parseIP : Bytes → Option Bytes
  /-- `net.IP(b).String()` -/
  ipString : Bytes → Bytes

/-! ### nasConvert/PlmnId.go -/

/-- `if tmp, err := strconv.Atoi(string(b)); err != nil { warn } else { digit = tmp }` for one byte `b` of the
    string: the digit variable keeps its previous value `keep` when `b` is not '0'..'9' -/
def atoiOr (keep : Nat) (c : UInt8) : Nat := if 48 ≤ c && c ≤ 57 then c.toNat - 48 else keep

/-- `uint8((hi << 4) | lo)` on Go `int`s -/
def nib (hi lo : Nat) : UInt8 := UInt8.ofNat ((hi <<< 4) ||| lo)

/-- `PlmnIDToNas(models.PlmnId{Mcc, Mnc})` -/
def plmnIDToNas (mcc mnc : Bytes) : Res Bytes :=
  match mcc, mnc with
  | c1 :: c2 :: c3 :: _, n1 :: n2 :: nrest =>
    let mccDigit1 := atoiOr 0 c1               -- `var mccDigit1 int` stays 0 when Atoi fails (a warning is logged)
    let mccDigit2 := atoiOr 0 c2
    let mccDigit3 := atoiOr 0 c3
    let mncDigit1 := atoiOr 0 n1
    let mncDigit2 := atoiOr 0 n2
    let mncDigit3 :=
      match nrest with
      | [n3] => atoiOr 0x0f n3                  -- `mncDigit3 = 0x0f` before `if len(plmnID.Mnc) == 3`
      | _ => 0x0f
    .ok [nib mccDigit2 mccDigit1, nib mncDigit3 mccDigit3, nib mncDigit2 mncDigit1]
  | _, _ => .error .panic                       -- Mcc[0..2], Mnc[0..1]

/-! ### nasConvert/Snssai.go -/

/-- `uint8(x)` for a Go `int32` -/
def u8OfInt (x : Int) : UInt8 := UInt8.ofNat (x % 256).toNat

/-- `SnssaiToNas(models.Snssai{Sst, Sd})` -/
def snssaiToNas (E : Ext) (sst : Int) (sd : Bytes) : Bytes :=
  if sd.isEmpty then [0x01, u8OfInt sst]
  else
    let (byteArray, err) := E.hexDecode sd
    if err then [0x04, u8OfInt sst] else [0x04, u8OfInt sst] ++ byteArray

/-! ### nasConvert/AmfId.go -/

/-- `AmfIdToNas(amfId)`: a decode error is only logged, the octets decoded so far are used -/
def amfIdToNas (E : Ext) (amfId : Bytes) : Res (UInt8 × UInt16 × UInt8) :=
  match (E.hexDecode amfId).1 with
  | b0 :: b1 :: b2 :: _ =>
    .ok (b0, (b1.toUInt16 <<< 2) + ((b2.toUInt16 &&& 0x00c0) >>> 6), b2 &&& 0x3f)
  | _ => .error .panic

/-! ### nasConvert/ProtocolConfigurationOptions.go -/

structure PcoUnit where
  id : UInt16
  len : UInt8
  contents : Bytes
  deriving DecidableEq, Repr

def u16BE (v : UInt16) : Bytes := [(v >>> 8).toUInt8, v.toUInt8]

/-- `Marshal()`: the four `binary.Write`s; `Contents` is written whatever `LengthOfContents` says -/
def pcoMarshalUnits : List PcoUnit → Bytes
  | [] => []
  | u :: rest => u16BE u.id ++ [u.len] ++ u.contents ++ pcoMarshalUnits rest

def pcoMarshal (l : List PcoUnit) : Bytes :=
  let metaInfo : UInt8 := ((1 : UInt8) <<< 7) ||| ((0 : UInt8) <<< 6) ||| 0
  metaInfo :: pcoMarshalUnits l

inductive PcoState where
  | readingID | readingLength | readingContent
  deriving DecidableEq, Repr

/-- the loop `for numOfBytes > 0 { switch readingState {…} }`; `rd` is what the `bytes.Reader` still holds,
    `cur` is `*curContainer`, `acc` the receiver's list. Fuel exhaustion would be a hang. -/
def pcoLoop (fuel : Nat) (st : PcoState) (numOfBytes : Int) (rd : Bytes) (cur : PcoUnit)
    (acc : List PcoUnit) : Res (List PcoUnit) :=
  if numOfBytes ≤ 0 then .ok acc else
  match fuel with
  | 0 => .error .hang
  | fuel + 1 =>
    match st with
    | .readingID =>
      match rd with
      | a :: b :: rd' =>
        pcoLoop fuel .readingLength (numOfBytes - 2) rd'
          { id := (a.toUInt16 <<< 8) ||| b.toUInt16, len := 0, contents := [] } acc
      | _ => .error .error
    | .readingLength =>
      match rd with
      | l :: rd' =>
        let cur' := { cur with len := l }
        pcoLoop fuel .readingContent (numOfBytes - 1) rd' cur' (if l == 0 then acc ++ [cur'] else acc)
      | [] => .error .error
    | .readingContent =>
      if cur.len > 0 then
        if rd.length < cur.len.toNat then .error .error
        else
          let cur' := { cur with contents := rd.take cur.len.toNat }
          pcoLoop fuel .readingID (numOfBytes - cur.len.toNat) (rd.drop cur.len.toNat) cur' (acc ++ [cur'])
      else
        pcoLoop fuel .readingID (numOfBytes - cur.len.toNat) rd cur acc

/-- `UnMarshal(data)` on a receiver whose list is `init`; the result is the receiver's list afterwards -/
def pcoUnmarshalFrom (init : List PcoUnit) (data : Bytes) : Res (List PcoUnit) :=
  match data with
  | [] => .error .error                          -- binary.Read of the first octet: EOF
  | _ :: rd =>
    pcoLoop (3 * data.length + 3) .readingID ((data.length : Int) - 1) rd { id := 0, len := 0, contents := [] } init

def pcoUnmarshal (data : Bytes) : Res (List PcoUnit) := pcoUnmarshalFrom [] data

/-! ### ngapConvert/IpAddress.go -/

/-- `net.IPv4(a, b, c, d)` -/
def netIPv4 (a b c d : UInt8) : Bytes := [0, 0, 0, 0, 0, 0, 0, 0, 0, 0, 0xff, 0xff, a, b, c, d]

/-- `IP.To4()`; nil is `none` -/
def to4 (ip : Option Bytes) : Option Bytes :=
  match ip with
  | some l =>
    if l.length = 4 then some l
    else if l.length = 16 && l.take 12 == [0, 0, 0, 0, 0, 0, 0, 0, 0, 0, 0xff, 0xff] then some (l.drop 12)
    else none
  | none => none

/-- `IP.To16()` -/
def to16 (ip : Option Bytes) : Option Bytes :=
  match ip with
  | some [a, b, c, d] => some (netIPv4 a b c d)
  | some l => if l.length = 16 then some l else none
  | none => none

/-- `aper.BitString{Bytes, BitLength}` -/
structure BitStr where
  bytes : Bytes
  bitLength : Nat
  deriving DecidableEq, Repr

/-- the first four elements of a Go slice, `x[0], x[1], x[2], x[3]` (nil → panic) -/
def first4 (x : Option Bytes) : Res Bytes :=
  match x with
  | some (a :: b :: c :: d :: _) => .ok [a, b, c, d]
  | _ => .error .panic

/-- `for i := 0; i < 16; i++ { ipBytes = append(ipBytes, x[i]) }` -/
def first16 (x : Option Bytes) : Res Bytes :=
  match x with
  | some l => if l.length ≥ 16 then .ok (l.take 16) else .error .panic
  | none => .error .panic

/-- `IPAddressToNgap(ipv4Addr, ipv6Addr)` -/
def ipAddressToNgap (E : Ext) (ipv4Addr ipv6Addr : Bytes) : Res BitStr :=
  if ipv4Addr.isEmpty && ipv6Addr.isEmpty then .ok { bytes := [], bitLength := 0 }
  else if !ipv4Addr.isEmpty && !ipv6Addr.isEmpty then do
    let ipv4NetIP := to4 (E.parseIP ipv4Addr)
    let ipv6NetIP := to16 (E.parseIP ipv6Addr)
    let b4 ← first4 ipv4NetIP
    let b6 ← first16 ipv6NetIP
    .ok { bytes := b4 ++ b6, bitLength := 160 }
  else if !ipv4Addr.isEmpty && ipv6Addr.isEmpty then do
    let b4 ← first4 (to4 (E.parseIP ipv4Addr))
    .ok { bytes := b4, bitLength := 32 }
  else do
    let b6 ← first16 (to16 (E.parseIP ipv6Addr))
    .ok { bytes := b6, bitLength := 128 }

/-- `IPAddressToString(TransportLayerAddress{Value: ip})` → `(ipv4Addr, ipv6Addr)` -/
def ipAddressToString (E : Ext) (ip : BitStr) : Res (Bytes × Bytes) :=
  if ip.bitLength = 32 then
    match ip.bytes with
    | a :: b :: c :: d :: _ => .ok (E.ipString (netIPv4 a b c d), [])
    | _ => .error .panic
  else if ip.bitLength = 128 then
    .ok ([], E.ipString ip.bytes)               -- every octet of `ip.Bytes` is appended to `netIP`
  else if ip.bitLength = 160 then
    match ip.bytes with
    | a :: b :: c :: d :: rest =>
      -- `for i := range ip.Bytes[4:] { netIPv6 = append(netIPv6, ip.Bytes[i+4]) }`  (F6 repaired)
      .ok (E.ipString (netIPv4 a b c d), E.ipString rest)
    | _ => .error .panic
  else .ok ([], [])

/-! ### util_3gpp/3gpp_type.go -/

/-- `(*Dnn).MarshalBinary` -/
def dnnMarshal (d : Bytes) : Bytes := UInt8.ofNat d.length :: d

/-- `(*Dnn).UnmarshalBinary`: `data[1:]` -/
def dnnUnmarshal (data : Bytes) : Res Bytes :=
  match data with
  | _ :: rest => .ok rest
  | [] => .error .panic

end Stgutg.Model.Convert
