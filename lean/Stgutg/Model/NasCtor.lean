/-
  Hand model of the 14 NAS message constructors on the emulator's path
  (src/free5gclib/nas/nasTestpacket/NasPdu.go), statement by statement, over the generic codec model.
  Fields are addressed through the generated index constants, setters through the generated setter table
  (`Gen/NasSetters.lean`), so a renamed field or changed setter breaks the build.  Tied by `corr nas-ctor`.
  Core Lean only.
-/
import Stgutg.Model.NasCodec
import Stgutg.Gen.NasLayouts
import Stgutg.Gen.NasSetters
namespace Stgutg.Nas.Ctor
open Stgutg Stgutg.Nas Stgutg.Gen.Nas Stgutg.Gen

/-! ### the `other` setters this model relies on, pinned to their source text -/
example : NasSet.TMSI5GS.SetAMFSetID.src =
  "(aMFSetID uint16) { a.Octet[1] = uint8((aMFSetID)>>2) & 255 a.Octet[2] = a.Octet[2]&GetBitMask(6, 6) + uint8(aMFSetID&3)<<6 }" := rfl
example : NasSet.TMSI5GS.SetTMSI5G.src = "(tMSI5G [4]uint8) { copy(a.Octet[3:7], tMSI5G[:]) }" := rfl
example : NasSet.SNSSAI.SetSD.src = "(sD [3]uint8) { copy(a.Octet[1:4], sD[:]) }" := rfl
example : NasSet.DNN.SetDNN.src =
  "(dNN []uint8) { tmp := (util_3gpp.Dnn)(dNN) dnn, _ := tmp.MarshalBinary() a.Buffer = dnn a.Len = uint8(len(a.Buffer)) }" := rfl

/-! ### primitives -/

/-- `TGT = (TGT & keep) + ((x & take) << shift)` -/
def bits (s : BitSet) (x : UInt8) (v : Val) : Res Val :=
  let upd (o : UInt8) : UInt8 := (o &&& UInt8.ofNat s.keep) + ((x &&& UInt8.ofNat s.take) <<< UInt8.ofNat s.shift)
  match s.target with
  | .octet =>
    match v.data with
    | [o] => .ok { v with data := [upd o] }
    | _ => .error .panic
  | .octetAt | .bufferAt =>
    match v.data[s.idx]? with
    | some o => .ok { v with data := v.data.set s.idx (upd o) }
    | none => .error .panic

/-- Go `copy(dst, src)` -/
def copyInto (dst src : Bytes) : Bytes := src.take dst.length ++ dst.drop src.length

/-- `copy(a.Octet[lo:hi], src)` -/
def copyAt (dst : Bytes) (lo hi : Nat) (src : Bytes) : Bytes :=
  dst.take lo ++ copyInto ((dst.drop lo).take (hi - lo)) src ++ dst.drop hi

/-- `X.SetLen(n)` on a `Buffer` shape (n already truncated to the field's width) -/
def setLenBuf (n : Nat) (v : Val) : Val := { v with len := n, data := List.replicate n 0 }

/-- `X.SetLen(n)` on an `Octet[N]` shape -/
def setLen (n : Nat) (v : Val) : Val := { v with len := n }

/-- `copy(a.Buffer, src)` -/
def setContents (_ : CopySet) (src : Bytes) (v : Val) : Val := { v with data := copyInto v.data src }

/-- apply `f` to the embedded (non-pointer or already allocated) field `i` -/
def updF (m : Msg) (i : Nat) (f : Val → Res Val) : Res Msg :=
  match m[i]? with
  | some (some v) =>
    match f v with
    | .ok v' => .ok (m.set i (some v'))
    | .error e => .error e
  | _ => .error .panic

def ok1 (f : Val → Val) : Val → Res Val := fun v => .ok (f v)

/-- `x := nasType.NewX(iei)` … / `x := new(nasType.X)` …, then `msg.X = x` -/
def setP (m : Msg) (i : Nat) (v : Option Val) : Msg := m.set i v

def octet (x : UInt8) : Val → Res Val := fun v => .ok { v with data := [x] }

/-- a buffer IE built as `NewX(iei); SetLen(uintN(len(c))); SetContents(c)` -/
def bufIE (s : Shape) (iei : Nat) (w : Nat) (c : Bytes) (cp : CopySet) : Val :=
  setContents cp c (setLenBuf (c.length % w) (newVal s (UInt8.ofNat iei)))

/-- the protocol configuration options the establishment request asks for
    (`AddIPAddressAllocationViaNASSignallingUL`, `AddDNSServerIPv4AddressRequest`, `AddDNSServerIPv6AddressRequest`
    marshalled by nasConvert; the marshalling itself belongs to C17) -/
def pcoContents : Bytes := [0x80, 0x00, 0x0a, 0x00, 0x00, 0x0d, 0x00, 0x00, 0x03, 0x00]

/-! ### 5GMM header shared by every 5GMM constructor -/

def gmmHeader (m : Msg) (iEpd iSht iType : Nat) (msgType : UInt8) (setSpare : Bool) : Res Msg := do
  let m ← updF m iEpd (bits NasSet.ExtendedProtocolDiscriminator.SetExtendedProtocolDiscriminator 0x7E)
  let m ← updF m iSht (bits NasSet.SpareHalfOctetAndSecurityHeaderType.SetSecurityHeaderType 0)
  let m ← if setSpare then updF m iSht (bits NasSet.SpareHalfOctetAndSecurityHeaderType.SetSpareHalfOctet 0) else pure m
  updF m iType (octet msgType)

/-! ### the constructors -/

/-- `GetRegistrationRequest`, the statements that depend on the registration type only -/
def registrationRequestBase (regType : UInt8) : Res Msg := do
  let L := layout_RegistrationRequest
  let m ← gmmHeader (initMsg L) idx_RegistrationRequest_ExtendedProtocolDiscriminator
    idx_RegistrationRequest_SpareHalfOctetAndSecurityHeaderType idx_RegistrationRequest_RegistrationRequestMessageIdentity 0x41 true
  let i := idx_RegistrationRequest_NgksiAndRegistrationType5GS
  let m ← updF m i (bits NasSet.NgksiAndRegistrationType5GS.SetTSC 0)
  let m ← updF m i (bits NasSet.NgksiAndRegistrationType5GS.SetNasKeySetIdentifiler 7)
  let m ← updF m i (bits NasSet.NgksiAndRegistrationType5GS.SetFOR 1)
  updF m i (bits NasSet.NgksiAndRegistrationType5GS.SetRegistrationType5GS regType)

/-- `GetRegistrationRequest` -/
def registrationRequest (regType : UInt8) (mobileIdentity : Val) (requestedNSSAI ueSecurityCapability capability5GMM : Option Val)
    (nasMessageContainer : Option Bytes) (uplinkDataStatus : Option Val) : Res Msg :=
  match registrationRequestBase regType with
  | .error e => .error e
  | .ok m =>
    let m := m.set idx_RegistrationRequest_MobileIdentity5GS (some mobileIdentity)
    let m := setP m idx_RegistrationRequest_UESecurityCapability ueSecurityCapability
    let m := setP m idx_RegistrationRequest_Capability5GMM capability5GMM
    let m := setP m idx_RegistrationRequest_RequestedNSSAI requestedNSSAI
    let m := setP m idx_RegistrationRequest_UplinkDataStatus uplinkDataStatus
    .ok (match nasMessageContainer with
      | some c => setP m idx_RegistrationRequest_NASMessageContainer
          (some (bufIE sh_NASMessageContainer 0x71 65536 c NasSet.NASMessageContainer.SetNASMessageContainerContents))
      | none => m)

/-- the 5GSM header `EPD, PDU session ID, PTI, message type` -/
def gsmHeader (m : Msg) (iEpd iPsi iPti iType : Nat) (psi pti msgType : UInt8) : Res Msg := do
  let m ← updF m iEpd (bits NasSet.ExtendedProtocolDiscriminator.SetExtendedProtocolDiscriminator 0x2E)
  let m ← updF m iType (octet msgType)
  let m ← updF m iPsi (bits NasSet.PDUSessionID.SetPDUSessionID psi)
  updF m iPti (bits NasSet.PTI.SetPTI pti)

/-- `GetPduSessionEstablishmentRequest` -/
def pduSessionEstablishmentRequest (psi : UInt8) : Res Msg := do
  let L := layout_PDUSessionEstablishmentRequest
  let m ← gsmHeader (initMsg L) idx_PDUSessionEstablishmentRequest_ExtendedProtocolDiscriminator
    idx_PDUSessionEstablishmentRequest_PDUSessionID idx_PDUSessionEstablishmentRequest_PTI
    idx_PDUSessionEstablishmentRequest_PDUSESSIONESTABLISHMENTREQUESTMessageIdentity psi 1 0xC1
  let i := idx_PDUSessionEstablishmentRequest_IntegrityProtectionMaximumDataRate
  let m ← updF m i (bits NasSet.IntegrityProtectionMaximumDataRate.SetMaximumDataRatePerUEForUserPlaneIntegrityProtectionForDownLink 0xff)
  let m ← updF m i (bits NasSet.IntegrityProtectionMaximumDataRate.SetMaximumDataRatePerUEForUserPlaneIntegrityProtectionForUpLink 0xff)
  let t ← bits NasSet.PDUSessionType.SetPDUSessionTypeValue 1 (newVal sh_PDUSessionType 0x09)
  let m := setP m idx_PDUSessionEstablishmentRequest_PDUSessionType (some t)
  pure (setP m idx_PDUSessionEstablishmentRequest_ExtendedProtocolConfigurationOptions
    (some (bufIE sh_ExtendedProtocolConfigurationOptions 0x7B 65536 pcoContents
      NasSet.ExtendedProtocolConfigurationOptions.SetExtendedProtocolConfigurationOptionsContents)))

/-- `GetPduSessionModificationRequest` -/
def pduSessionModificationRequest (psi : UInt8) : Res Msg :=
  gsmHeader (initMsg layout_PDUSessionModificationRequest) idx_PDUSessionModificationRequest_ExtendedProtocolDiscriminator
    idx_PDUSessionModificationRequest_PDUSessionID idx_PDUSessionModificationRequest_PTI
    idx_PDUSessionModificationRequest_PDUSESSIONMODIFICATIONREQUESTMessageIdentity psi 1 0xC9

/-- `GetPduSessionReleaseRequest` -/
def pduSessionReleaseRequest (psi : UInt8) : Res Msg :=
  gsmHeader (initMsg layout_PDUSessionReleaseRequest) idx_PDUSessionReleaseRequest_ExtendedProtocolDiscriminator
    idx_PDUSessionReleaseRequest_PDUSessionID idx_PDUSessionReleaseRequest_PTI
    idx_PDUSessionReleaseRequest_PDUSESSIONRELEASEREQUESTMessageIdentity psi 1 0xD1

/-- `GetPduSessionReleaseComplete` -/
def pduSessionReleaseComplete (psi : UInt8) : Res Msg :=
  gsmHeader (initMsg layout_PDUSessionReleaseComplete) idx_PDUSessionReleaseComplete_ExtendedProtocolDiscriminator
    idx_PDUSessionReleaseComplete_PDUSessionID idx_PDUSessionReleaseComplete_PTI
    idx_PDUSessionReleaseComplete_PDUSESSIONRELEASECOMPLETEMessageIdentity psi 1 0xD4

/-- `*models.Snssai`: `Sst int32` (already truncated to `uint8`) and the octets `hex.DecodeString(Sd)` yields -/
structure Snssai where
  sst : UInt8
  sd : Bytes
  deriving Repr

/-- UL NAS TRANSPORT wrapper, statements up to and including the PDU session ID IE -/
def ulHead (psi : UInt8) : Res Msg := do
  let m := initMsg layout_ULNASTransport
  let m ← updF m idx_ULNASTransport_SpareHalfOctetAndSecurityHeaderType
    (bits NasSet.SpareHalfOctetAndSecurityHeaderType.SetSecurityHeaderType 0)
  let m ← updF m idx_ULNASTransport_ULNASTRANSPORTMessageIdentity (octet 0x67)
  let m ← updF m idx_ULNASTransport_ExtendedProtocolDiscriminator
    (bits NasSet.ExtendedProtocolDiscriminator.SetExtendedProtocolDiscriminator 0x7E)
  let p ← bits NasSet.PduSessionID2Value.SetPduSessionID2Value psi { sh_PduSessionID2Value.zero with iei := 0x12 }
  pure (setP m idx_ULNASTransport_PduSessionID2Value (some p))

/-- `new(nasType.RequestType)`; `SetIei(0x08)` writes the high nibble of the zero octet; then the value bits -/
def ulRequestTypeIE (requestType : UInt8) : Res Val :=
  bits NasSet.RequestType.SetRequestTypeValue requestType (newVal sh_RequestType 0x08)

/-- `NewSNSSAI(0x22)`; `SetLen(4)`; `SetSST(uint8(Sst))`; `SetSD(sdTemp)` with `copy(sdTemp[:], sd)` -/
def ulSnssaiIE (s : Snssai) : Res Val :=
  match bits NasSet.SNSSAI.SetSST s.sst (setLen 4 (newVal sh_SNSSAI 0x22)) with
  | .error e => .error e
  | .ok v => .ok { v with data := copyAt v.data 1 4 (s.sd.take 3 ++ List.replicate (3 - s.sd.length) 0) }

/-- `SetIei`, `SetLen(uint8(len))`, `SetDNN`: Buffer = len ‖ dnn, Len = uint8(len(Buffer)) -/
def ulDnnIE (dnn : Bytes) : Val := { iei := 0x25, len := (dnn.length + 1) % 256, data := UInt8.ofNat dnn.length :: dnn }

/-- payload container type N1 SM information, then the payload container -/
def ulTail (m : Msg) (payload : Bytes) : Res Msg :=
  match updF m idx_ULNASTransport_SpareHalfOctetAndPayloadContainerType
      (bits NasSet.SpareHalfOctetAndPayloadContainerType.SetPayloadContainerType 1) with
  | .error e => .error e
  | .ok m =>
    updF m idx_ULNASTransport_PayloadContainer (ok1 fun v =>
      setContents NasSet.PayloadContainer.SetPayloadContainerContents payload (setLenBuf (payload.length % 65536) v))

/-- the UL NAS TRANSPORT wrapper shared by the four `GetUlNasTransport_…` constructors; `full` = the variant
    that also sets request type, DNN and S-NSSAI -/
def ulNasTransport (payload : Bytes) (psi : UInt8) (full : Bool) (requestType : UInt8) (dnn : Bytes)
    (snssai : Option Snssai) : Res Msg :=
  match ulHead psi with
  | .error e => .error e
  | .ok m =>
    let mid : Res Msg :=
      if full then
        match ulRequestTypeIE requestType with
        | .error e => .error e
        | .ok r =>
          let m := setP m idx_ULNASTransport_RequestType (some r)
          let m := if dnn.isEmpty then m else setP m idx_ULNASTransport_DNN (some (ulDnnIE dnn))
          match snssai with
          | none => .ok m
          | some s =>
            match ulSnssaiIE s with
            | .error e => .error e
            | .ok v => .ok (setP m idx_ULNASTransport_SNSSAI (some v))
      else .ok m
    match mid with
    | .error e => .error e
    | .ok m => ulTail m payload

def encodeWith (L : Layout) (m : Res Msg) : Res Bytes :=
  match m with
  | .ok m => encode L m
  | .error e => .error e

/-- `GetUlNasTransport_PduSessionEstablishmentRequest` -/
def ulEstablishment (psi requestType : UInt8) (dnn : Bytes) (snssai : Option Snssai) : Res Msg :=
  match encodeWith layout_PDUSessionEstablishmentRequest (pduSessionEstablishmentRequest psi) with
  | .ok inner => ulNasTransport inner psi true requestType dnn snssai
  | .error e => .error e

/-- `GetUlNasTransport_PduSessionModificationRequest` -/
def ulModification (psi requestType : UInt8) (dnn : Bytes) (snssai : Option Snssai) : Res Msg :=
  match encodeWith layout_PDUSessionModificationRequest (pduSessionModificationRequest psi) with
  | .ok inner => ulNasTransport inner psi true requestType dnn snssai
  | .error e => .error e

/-- `GetUlNasTransport_PduSessionReleaseRequest` -/
def ulReleaseRequest (psi : UInt8) : Res Msg :=
  match encodeWith layout_PDUSessionReleaseRequest (pduSessionReleaseRequest psi) with
  | .ok inner => ulNasTransport inner psi false 0 [] none
  | .error e => .error e

/-- `GetUlNasTransport_PduSessionReleaseComplete` -/
def ulReleaseComplete (psi requestType : UInt8) (dnn : Bytes) (snssai : Option Snssai) : Res Msg :=
  match encodeWith layout_PDUSessionReleaseComplete (pduSessionReleaseComplete psi) with
  | .ok inner => ulNasTransport inner psi true requestType dnn snssai
  | .error e => .error e

/-- `GetServiceRequest` -/
def serviceRequest (serviceType : UInt8) : Res Msg := do
  let L := layout_ServiceRequest
  let m ← gmmHeader (initMsg L) idx_ServiceRequest_ExtendedProtocolDiscriminator
    idx_ServiceRequest_SpareHalfOctetAndSecurityHeaderType idx_ServiceRequest_ServiceRequestMessageIdentity 0x4C false
  let i := idx_ServiceRequest_ServiceTypeAndNgksi
  let m ← updF m i (bits NasSet.ServiceTypeAndNgksi.SetServiceTypeValue serviceType)
  let m ← updF m i (bits NasSet.ServiceTypeAndNgksi.SetNasKeySetIdentifiler 1)
  let t := idx_ServiceRequest_TMSI5GS
  -- SetAMFSetID(0xFE << 2): Octet[1] = uint8(id >> 2) = 0xFE; Octet[2] = (Octet[2] & GetBitMask(6, 6)) + (uint8(id & 3) << 6)
  -- where GetBitMask(6, 6) = ((1 << 0) - 1) << 6 = 0 and id & 3 = 0
  let m ← updF m t (ok1 fun v => { v with data := (v.data.set 1 0xFE).set 2 0 })
  let m ← updF m t (bits NasSet.TMSI5GS.SetAMFPointer 0)
  let m ← updF m t (ok1 fun v => { v with data := copyAt v.data 3 7 [0, 0, 0, 1] })
  let m ← updF m t (ok1 fun v => { v with data := v.data.set 0 0xF0 })
  let m ← updF m t (bits NasSet.TMSI5GS.SetTypeOfIdentity 4)
  let m ← updF m t (ok1 (setLen 7))
  pure (if serviceType = 2 then
      setP m idx_ServiceRequest_AllowedPDUSessionStatus (some { iei := 0x25, len := 2, data := [0x00, 0x08] })
    else if serviceType = 1 then
      setP m idx_ServiceRequest_UplinkDataStatus (some { iei := 0x40, len := 2, data := [0x00, 0x04] })
    else m)

def authenticationResponseBase : Res Msg :=
  gmmHeader (initMsg layout_AuthenticationResponse) idx_AuthenticationResponse_ExtendedProtocolDiscriminator
    idx_AuthenticationResponse_SpareHalfOctetAndSecurityHeaderType idx_AuthenticationResponse_AuthenticationResponseMessageIdentity 0x57 true

/-- `GetAuthenticationResponse` (`eap` = the octets `base64.StdEncoding.DecodeString(eapMsg)` yields) -/
def authenticationResponse (param : Bytes) (eap : Bytes) : Res Msg :=
  match authenticationResponseBase with
  | .error e => .error e
  | .ok m =>
    if param.length > 0 then
      -- copy(Octet[:], param[0:16]) panics when the slice is shorter than 16 (capacity = length for the emulator's RES*)
      if param.length < 16 then .error .panic else
      let v := setLen (param.length % 256) (newVal sh_AuthenticationResponseParameter 0x2D)
      .ok (setP m idx_AuthenticationResponse_AuthenticationResponseParameter (some { v with data := copyInto v.data (param.take 16) }))
    else if eap.length > 0 then
      .ok (setP m idx_AuthenticationResponse_EAPMessage (some (bufIE sh_EAPMessage 0x78 65536 eap NasSet.EAPMessage.SetEAPMessage)))
    else .ok m

def registrationCompleteBase : Res Msg :=
  gmmHeader (initMsg layout_RegistrationComplete) idx_RegistrationComplete_ExtendedProtocolDiscriminator
    idx_RegistrationComplete_SpareHalfOctetAndSecurityHeaderType idx_RegistrationComplete_RegistrationCompleteMessageIdentity 0x43 true

/-- `GetRegistrationComplete` -/
def registrationComplete (sor : Option Bytes) : Res Msg :=
  match registrationCompleteBase with
  | .error e => .error e
  | .ok m =>
    .ok (match sor with
      | some c => setP m idx_RegistrationComplete_SORTransparentContainer
          (some (bufIE sh_SORTransparentContainer 0x73 65536 c NasSet.SORTransparentContainer.SetSORContent))
      | none => m)

/-- `GetSecurityModeComplete` up to and including the IMEISV -/
def securityModeCompleteBase : Res Msg := do
  let L := layout_SecurityModeComplete
  let m ← gmmHeader (initMsg L) idx_SecurityModeComplete_ExtendedProtocolDiscriminator
    idx_SecurityModeComplete_SpareHalfOctetAndSecurityHeaderType idx_SecurityModeComplete_SecurityModeCompleteMessageIdentity 0x5E true
  let v := setLen 9 (newVal sh_IMEISV 0x77)
  let v ← bits NasSet.IMEISV.SetOddEvenIdic 0 v
  let v ← bits NasSet.IMEISV.SetTypeOfIdentity 5 v
  let v ← bits NasSet.IMEISV.SetIdentityDigit1 1 v
  let v ← bits NasSet.IMEISV.SetIdentityDigitP_1 1 v
  let v ← bits NasSet.IMEISV.SetIdentityDigitP 1 v
  pure (setP m idx_SecurityModeComplete_IMEISV (some v))

/-- `GetSecurityModeComplete` -/
def securityModeComplete (nasMessageContainer : Option Bytes) : Res Msg :=
  match securityModeCompleteBase with
  | .error e => .error e
  | .ok m =>
    .ok (match nasMessageContainer with
      | some c => setP m idx_SecurityModeComplete_NASMessageContainer
          (some (bufIE sh_NASMessageContainer 0x71 65536 c NasSet.NASMessageContainer.SetNASMessageContainerContents))
      | none => m)

/-- `GetDeregistrationRequest`, the statements before the mobile identity -/
def deregistrationRequestBase (accessType switchOff ngKsi : UInt8) : Res Msg := do
  let L := layout_DeregistrationRequestUEOriginatingDeregistration
  let m ← gmmHeader (initMsg L) idx_DeregistrationRequestUEOriginatingDeregistration_ExtendedProtocolDiscriminator
    idx_DeregistrationRequestUEOriginatingDeregistration_SpareHalfOctetAndSecurityHeaderType
    idx_DeregistrationRequestUEOriginatingDeregistration_DeregistrationRequestMessageIdentity 0x45 true
  let i := idx_DeregistrationRequestUEOriginatingDeregistration_NgksiAndDeregistrationType
  let m ← updF m i (bits NasSet.NgksiAndDeregistrationType.SetAccessType accessType)
  let m ← updF m i (bits NasSet.NgksiAndDeregistrationType.SetSwitchOff switchOff)
  let m ← updF m i (bits NasSet.NgksiAndDeregistrationType.SetReRegistrationRequired 0)
  let m ← updF m i (bits NasSet.NgksiAndDeregistrationType.SetTSC ngKsi)
  updF m i (bits NasSet.NgksiAndDeregistrationType.SetNasKeySetIdentifiler ngKsi)

/-- `GetDeregistrationRequest` -/
def deregistrationRequest (accessType switchOff ngKsi : UInt8) (mobileIdentity : Val) : Res Msg :=
  match deregistrationRequestBase accessType switchOff ngKsi with
  | .error e => .error e
  | .ok m =>
    -- SetLen(mi.GetLen()); SetMobileIdentity5GSContents(mi.GetMobileIdentity5GSContents())
    updF m idx_DeregistrationRequestUEOriginatingDeregistration_MobileIdentity5GS (ok1 fun v =>
      setContents NasSet.MobileIdentity5GS.SetMobileIdentity5GSContents mobileIdentity.data (setLenBuf mobileIdentity.len v))

end Stgutg.Nas.Ctor
