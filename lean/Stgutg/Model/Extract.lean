/-
  Hand model of src/stgutg/pdu.go: DecodePDUSessionNASPDU, DecodePDUSessionResourceSetupRequestTransfer and the
  selection of the setup item in EstablishPDU.

  A Go byte slice is modelled with its hidden capacity: Go checks `s[i]` and the default upper bound of `s[a:]`
  against len(s) but the bounds of `s[a:b]` against cap(s), so a slice expression can legally reach octets
  behind the slice's length. Every index/slice expression that Go would trap yields `.error .panic`;
  the two loops run on fuel and yield `.error .hang` when it runs out.
-/
import Stgutg.Base.Hex
import Stgutg.Gen.ExtractTables

namespace Stgutg.Model.Extract
open Stgutg

/-- `mem` = the backing array from the slice's first element on (`mem.length` = cap), `len` = len(s). -/
structure Sl where
  mem : Bytes
  len : Nat
  deriving Repr

namespace Sl

/-- a slice of length `b.length` whose backing array continues with `slack` -/
def ofBytes (b slack : Bytes) : Sl := ⟨b ++ slack, b.length⟩

/-- the visible contents -/
def toBytes (s : Sl) : Bytes := s.mem.take s.len

/-- `s[i]` -/
def idx (s : Sl) (i : Nat) : Res UInt8 :=
  if i < s.len then
    match s.mem[i]? with
    | some b => .ok b
    | none => .error .panic
  else .error .panic

/-- `s[a:]` (upper bound defaults to len(s)) -/
def sliceFrom (s : Sl) (a : Nat) : Res Sl :=
  if a ≤ s.len then .ok ⟨s.mem.drop a, s.len - a⟩ else .error .panic

/-- `s[a:b]` (checked against cap(s)) -/
def slice (s : Sl) (a b : Nat) : Res Sl :=
  if a ≤ b ∧ b ≤ s.mem.length then .ok ⟨s.mem.drop a, b - a⟩ else .error .panic

end Sl

/-- `binary.BigEndian.Uint16(b)`: `_ = b[1]` then `uint16(b[1]) | uint16(b[0])<<8` -/
def be16 (s : Sl) : Res Nat := do
  let b1 ← s.idx 1
  let b0 ← s.idx 0
  pure (b0.toNat * 256 + b1.toNat)

/-- `binary.BigEndian.Uint32(b)`: `_ = b[3]` first -/
def be32 (s : Sl) : Res Nat := do
  let b3 ← s.idx 3
  let b0 ← s.idx 0
  let b1 ← s.idx 1
  let b2 ← s.idx 2
  pure (((b0.toNat * 256 + b1.toNat) * 256 + b2.toNat) * 256 + b3.toNat)

/-- `PDUSessionEstablishmentAcceptOptionalElementsLength[id]` — a Go map read: 0 for an absent key -/
def lookupLen (id : UInt8) : Int :=
  match Gen.Extract.optLen.lookup id.toNat with
  | some v => v
  | none => 0

/-- `for _, id := range …HalfByte { if opElementID&0xF0 == id {…} }` -/
def isHalfByte (id : UInt8) : Bool := Gen.Extract.halfByte.any (fun h => (id &&& 0xF0).toNat == h)

/-- the `outerloop` of DecodePDUSessionNASPDU over `opElements`; result = `bip` (empty = nil).
    `stop = true` is the code after the F9 repair (an IEI whose table entry is neither positive, -1 nor -2 ends
    the walk); `stop = false` is the original code, where such an IEI leaves `index` unchanged. -/
def nasLoop (stop : Bool) (op : Sl) : Nat → Nat → Res Bytes
  | 0, _ => .error .hang
  | fuel + 1, index =>
    if index < op.len then do
      let id ← op.idx index
      if id = 0x29 then do
        let s ← op.slice (index + 3) (index + 7)
        pure s.toBytes
      else if isHalfByte id then nasLoop stop op fuel (index + 1)
      else
        let l := lookupLen id
        if l > 0 then nasLoop stop op fuel (index + l.toNat)
        else if l = -1 then do
          let n ← op.idx (index + 1)
          nasLoop stop op fuel (index + 1 + 1 + n.toNat)
        else if l = -2 then do
          let n ← be16 (← op.slice (index + 1) (index + 1 + 2))
          nasLoop stop op fuel (index + 1 + 2 + n)
        else if stop then pure []
        else nasLoop stop op fuel index
    else pure []

/-- DecodePDUSessionNASPDU. The two offsets `6+payloadContainerLength` and `5+2+QoSRulesLength+7` are uint16
    expressions in the Go code and wrap modulo 2^16. -/
def decodeNas (stop : Bool) (fuel : Nat) (s : Sl) : Res Bytes := do
  let plain ← s.sliceFrom 7
  let pcl ← be16 (← plain.slice 4 6)
  let pc ← plain.slice 6 ((6 + pcl) % 65536)
  let q ← be16 (← pc.slice 5 7)
  let op ← pc.sliceFrom ((5 + 2 + q + 7) % 65536)
  nasLoop stop op fuel 0

/-- the loop of DecodePDUSessionResourceSetupRequestTransfer; result = (teid, upfip) (empty = nil) -/
def xferLoop (s : Sl) : Nat → Nat → Res (Nat × Bytes)
  | 0, _ => .error .hang
  | fuel + 1, offset =>
    if offset < s.len then do
      let id ← be16 (← s.slice offset (offset + 2))
      if id ≠ 139 then do
        let l ← s.idx (offset + 3)
        xferLoop s fuel (offset + 3 + l.toNat + 1)
      else do
        let n ← s.idx (offset + 3)
        let info ← s.slice (offset + 3 + 1) (offset + 3 + 1 + n.toNat)
        -- `info[n-4:]`, `info[n-8 : n-4]` are int expressions: a negative bound traps
        if n.toNat < 4 then .error .panic else
        let teid ← be32 (← info.sliceFrom (n.toNat - 4))
        if n.toNat < 8 then .error .panic else
        let ip ← info.slice (n.toNat - 8) (n.toNat - 4)
        pure (teid, ip.toBytes)
    else pure (0, [])

def decodeTransfer (fuel : Nat) (s : Sl) : Res (Nat × Bytes) := xferLoop s fuel 3

/-- fuel that the termination theorems (Props/C12) prove sufficient: one more than the capacity -/
def fuelFor (s : Sl) : Nat := s.mem.length + 1

/-- which of the two variants of the IEI walk the code in /repo currently is (F9) -/
def stopOnUnknownIei : Bool := true

def decodeNasPdu (s : Sl) : Res Bytes := decodeNas stopOnUnknownIei (fuelFor s) s
def decodeTransferPdu (s : Sl) : Res (Nat × Bytes) := decodeTransfer (fuelFor s) s

/-! ### EstablishPDU: which IE of the PDU SESSION RESOURCE SETUP REQUEST is taken for the setup list.
    `ids` = the protocol IE ids of the decoded request in order. -/

/-- original code: `ProtocolIEs.List[2].Value.PDUSessionResourceSetupListSUReq.List[0]` — the third IE whatever
    its id; when it is not the setup list the pointer is nil and `.List[0]` traps. -/
def selectPositional (ids : List Nat) : Res Nat :=
  match ids[2]? with
  | some 74 => .ok 2
  | _ => .error .panic

/-- repaired code: the first IE whose id is 74 (id-PDUSessionResourceSetupListSUReq); none → the procedure
    reports the error and exits (class `err`). -/
def selectById (ids : List Nat) : Res Nat :=
  match ids.findIdx? (· == 74) with
  | some i => .ok i
  | none => .error .error

/-- the selection the code in /repo currently performs (F16) -/
def selectSetupList : List Nat → Res Nat := selectById

end Stgutg.Model.Extract
