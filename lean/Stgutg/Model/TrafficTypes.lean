/-!
# Traffic-mode skeleton: the data types of `Gen/Traffic.lean`

`gen traffic` (harness/cmd/gen/traffic.go) reads the `mode == 1` branch of `main` (stg-utg.go) statement by statement and writes
the signalling skeleton below. Traffic mode itself needs XDP and is not run; what is decided about it is structural
(`Props/C02Traffic.lean`): the skeleton makes the same procedure calls for the same UEs as the test-mode branch does with the
counts (N, N, 0, N, N).
-/
namespace Stgutg.Model.Traffic

/-- which UE a procedure call of a loop acts on -/
inductive UeRef where
  /-- `L[i]`, `i` the key of the enclosing `for i := range …` -/
  | index (list : String)
  /-- the value variable of the enclosing `for _, ue := range L` -/
  | rangeVar (list : String)
  deriving DecidableEq, Repr, Inhabited

inductive Item where
  /-- statements that touch neither the connection nor the UE lists (XDP set-up, client table, printing) -/
  | dataplane
  /-- `conn, err := tglib.ConnectToAmf(…)` followed by `ManageError` -/
  | connect
  /-- `stgutg.ManageNGSetup(conn, …, imsi, …)` with `imsi := c.Configuration.Initial_imsi` -/
  | ngsetup
  /-- `for i := 0; i < c.Configuration.<bound>; i++ { ue := CreateUE(imsi, i, …); ue, pdu, _ := RegisterUE(ue, …, conn); appends }` -/
  | regLoop (bound : String) (appends : List String)
  /-- a loop over a UE list calling one procedure per UE; `dataplane` lists the data-plane calls made on the procedure's results
      (result positions, 0-based) -/
  | procLoop (proc over : String) (ue : UeRef) (dataplane : List (String × List Nat))
  /-- `sig := <-stopProgram` -/
  | waitSignal
  | closeConn
  | exit (code : Nat)
  deriving DecidableEq, Repr, Inhabited

end Stgutg.Model.Traffic
