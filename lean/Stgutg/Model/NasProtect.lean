/-
  Hand model of
    src/free5gclib/nas/security/counter.go   (Count: Set/Get/AddOne/SQN/SetSQN/Overflow/SetOverflow)
    src/tglib/security.go                    (NASEncode, NASDecode)
    src/tglib/packet.go                      (EncodeNasPduWithSecurity — the envelope part)
    src/tglib/decode.go                      (GetNasPdu)
  on top of Model/NasAlg.lean (security.NASEncrypt / security.NASMacCalculate).

  The plain NAS codec is outside this model: `PlainNasEncode` of the message is an input (`plain`),
  and `nasDecode` returns the octets it hands to `PlainNasDecode`.
  `*RanUeContext` mutation becomes state passing (`UeSec`); the state that is returned together
  with an error/panic is the state the Go code has reached at that point.
-/
import Stgutg.Model.NasAlg

namespace Stgutg.Model.NasProtect
open Stgutg.Model.NasAlg

/-- `type Count struct { count uint32 }` — the stored word, all 32 bits of it. -/
abbrev Count := UInt32

namespace Count

/-- `counter.count &= 0x00ffffff` -/
def maskTo24Bits (c : UInt32) : UInt32 := c &&& 0x00ffffff

/-- `Get()` masks the stored word in place and returns it: (counter afterwards, value). -/
def get (c : UInt32) : UInt32 × UInt32 := (maskTo24Bits c, maskTo24Bits c)

/-- `counter.count++; maskTo24Bits()` (the `++` wraps at 2^32 first). -/
def addOne (c : UInt32) : UInt32 := maskTo24Bits (c + 1)

/-- `uint8(counter.count & 0x000000ff)` -/
def sqn (c : UInt32) : UInt8 := (c &&& (0x000000ff : UInt32)).toUInt8

/-- `counter.count = (counter.count & 0xffffff00) | uint32(sqn)` -/
def setSQN (c : UInt32) (s : UInt8) : UInt32 := (c &&& (0xffffff00 : UInt32)) ||| (s.toUInt32 : UInt32)

/-- `uint16((counter.count & 0x00ffff00) >> 8)` -/
def overflow (c : UInt32) : UInt16 := ((c &&& (0x00ffff00 : UInt32)) >>> 8).toUInt16

/-- `counter.count = (counter.count & 0xff0000ff) | (uint32(overflow) << 8)` -/
def setOverflow (c : UInt32) (o : UInt16) : UInt32 := (c &&& (0xff0000ff : UInt32)) ||| ((o.toUInt32 : UInt32) <<< (8 : UInt32))

/-- `Set(overflow, sqn)` = `SetOverflow(overflow); SetSQN(sqn)` -/
def set (c : UInt32) (o : UInt16) (s : UInt8) : UInt32 := setSQN (setOverflow c o) s

end Count

/-- the fields of `tglib.RanUeContext` that NAS protection reads or writes -/
structure UeSec where
  ulCount : Count
  dlCount : Count
  cipheringAlg : UInt8
  integrityAlg : UInt8
  /-- `[16]uint8` -/
  knasEnc : Bytes
  /-- `[16]uint8` -/
  knasInt : Bytes
  deriving DecidableEq, Repr

/-- `security.Bearer3GPP` -/
def bearer3GPP : UInt8 := 1
/-- `security.DirectionUplink` -/
def directionUplink : UInt8 := 0
/-- `security.DirectionDownlink` -/
def directionDownlink : UInt8 := 1

/-- `SecurityHeaderTypeIntegrityProtectedAndCiphered` (2) or `…AndCipheredWithNew5gNasSecurityContext` (4) -/
def isCipheredType (sht : UInt8) : Bool := sht == 2 || sht == 4

/-- `SecurityHeaderTypeIntegrityProtectedWithNew5gNasSecurityContext` (3) or `…AndCipheredWithNew…` (4) -/
def isNewContextType (sht : UInt8) : Bool := sht == 3 || sht == 4

/-- the arguments of one `NASEncode` call: `plain` = `msg.PlainNasEncode()`,
    `epd`/`sht` = `msg.SecurityHeader.{ProtocolDiscriminator, SecurityHeaderType}` -/
structure UlOp where
  plain : Bytes
  epd : UInt8
  sht : UInt8
  ctxAvail : Bool
  newCtx : Bool
  deriving DecidableEq, Repr

/-- `NASEncode(ue, msg, securityContextAvailable, newSecurityContext)`, `ue` and `msg` non-nil,
    parametrised by the predicate "this header type is ciphered" (`cipherP`). -/
def nasEncodeCore (cipherP : UInt8 → Bool) (P : Prims) (ue : UeSec) (op : UlOp) : UeSec × Res Bytes :=
  if !op.ctxAvail then (ue, .ok op.plain)
  else
    let ue := if op.newCtx then { ue with ulCount := Count.set ue.ulCount 0 0, dlCount := Count.set ue.dlCount 0 0 } else ue
    let sequenceNumber := Count.sqn ue.ulCount
    -- `ue.ULCount.Get()` masks the stored word
    let (ul1, c1) := Count.get ue.ulCount
    let ue := { ue with ulCount := ul1 }
    let enc : Res Bytes :=
      if cipherP op.sht then
        nasEncrypt P ue.cipheringAlg ue.knasEnc c1 bearer3GPP directionUplink op.plain
      else .ok op.plain
    match enc with
    | .error e => (ue, .error e)
    | .ok body =>
      let payload := sequenceNumber :: body
      let (ul2, c2) := Count.get ue.ulCount
      let ue := { ue with ulCount := ul2 }
      match nasMac P ue.integrityAlg ue.knasInt c2 bearer3GPP directionUplink payload with
      | .error e => (ue, .error e)
      | .ok mac32 =>
        ({ ue with ulCount := Count.addOne ue.ulCount }, .ok ([op.epd, op.sht] ++ mac32 ++ payload))

/-- the code as repaired (F8): `NASEncrypt` is called under header types 2 and 4 only. -/
def nasEncode (P : Prims) (ue : UeSec) (op : UlOp) : UeSec × Res Bytes :=
  nasEncodeCore isCipheredType P ue op

/-- the code before the F8 repair: `NASEncrypt` was called under every header type. -/
def nasEncodeLegacy (P : Prims) (ue : UeSec) (op : UlOp) : UeSec × Res Bytes :=
  nasEncodeCore (fun _ => true) P ue op

/-- `EncodeNasPduWithSecurity(ue, pdu, sht, ctxAvail, newCtx)` with `pdu` accepted by `PlainNasDecode`
    and re-encoded to `plain`: the EPD is fixed to `Epd5GSMobilityManagementMessage` (0x7e). -/
def encodeNasPduWithSecurity (P : Prims) (ue : UeSec) (plain : Bytes) (sht : UInt8) (ctxAvail newCtx : Bool) :
    UeSec × Res Bytes :=
  nasEncode P ue { plain := plain, epd := 0x7e, sht := sht, ctxAvail := ctxAvail, newCtx := newCtx }

/-- `msg.PlainNasDecode(&payload)` starts with `GetEPD(payload)` = `payload[0]`: empty input panics.
    Otherwise the octets are handed to the (separately modelled) plain codec. -/
def handToPlainDecode (payload : Bytes) : Res Bytes :=
  if payload.isEmpty then .error .panic else .ok payload

/-- `NASDecode(ue, securityHeaderType, payload)`, `ue` and `payload` non-nil, parametrised by
    "this header type is deciphered" and the DIRECTION passed to `NASEncrypt`.
    Result: the octets handed to `PlainNasDecode`. -/
def nasDecodeCore (decipherP : UInt8 → Bool) (dir : UInt8) (P : Prims) (ue : UeSec) (sht : UInt8) (payload : Bytes) :
    UeSec × Res Bytes :=
  if sht == 0 then (ue, handToPlainDecode payload)
  else if ue.integrityAlg == 0 then
    -- `payload = payload[3:]`
    if payload.length < 3 then (ue, .error .panic) else
    let payload := payload.drop 3
    let (dl1, c) := Count.get ue.dlCount
    let ue := { ue with dlCount := dl1 }
    match nasEncrypt P ue.cipheringAlg ue.knasEnc c bearer3GPP directionDownlink payload with
    | .error e => (ue, .error e)
    | .ok p => (ue, handToPlainDecode p)
  else
    let ue := if isNewContextType sht then { ue with dlCount := Count.set ue.dlCount 0 0 } else ue
    -- `payload[0:6]`, `payload[6]`
    match payload.drop 6 with
    | [] => (ue, .error .panic)
    | sequenceNumber :: rest =>
    -- `payload = payload[6:]`: the sequence number and what follows
    let payload := sequenceNumber :: rest
    let ue := if Count.sqn ue.dlCount > sequenceNumber
              then { ue with dlCount := Count.setOverflow ue.dlCount (Count.overflow ue.dlCount + 1) } else ue
    let ue := { ue with dlCount := Count.setSQN ue.dlCount sequenceNumber }
    let (dl1, c1) := Count.get ue.dlCount
    let ue := { ue with dlCount := dl1 }
    -- `ue.IntegrityAlg != NIA0` holds on this branch; a MAC mismatch is printed, not refused
    match nasMac P ue.integrityAlg ue.knasInt c1 bearer3GPP directionDownlink payload with
    | .error e => (ue, .error e)
    | .ok _ =>
      let payload := payload.drop 1
      if decipherP sht then
        let (dl2, c2) := Count.get ue.dlCount
        let ue := { ue with dlCount := dl2 }
        match nasEncrypt P ue.cipheringAlg ue.knasEnc c2 bearer3GPP dir payload with
        | .error e => (ue, .error e)
        | .ok p => (ue, handToPlainDecode p)
      else (ue, handToPlainDecode payload)

/-- the code as repaired (F7): deciphers under header types 2 and 4 only, with DIRECTION = downlink. -/
def nasDecode (P : Prims) (ue : UeSec) (sht : UInt8) (payload : Bytes) : UeSec × Res Bytes :=
  nasDecodeCore isCipheredType directionDownlink P ue sht payload

/-- the code before the F7 repair: deciphered every protected message, with DIRECTION = uplink. -/
def nasDecodeLegacy (P : Prims) (ue : UeSec) (sht : UInt8) (payload : Bytes) : UeSec × Res Bytes :=
  nasDecodeCore (fun _ => true) directionUplink P ue sht payload

/-- `payload == nil` is refused before anything else. -/
def nasDecodeNilable (P : Prims) (ue : UeSec) (sht : UInt8) : Option Bytes → UeSec × Res Bytes
  | none => (ue, .error .error)
  | some payload => nasDecode P ue sht payload

/-- `m, err := NASDecode(…); if err != nil { return nil }; return m` — a panic stays a panic -/
def nilOnError : UeSec × Res Bytes → UeSec × Res (Option Bytes)
  | (ue', .ok b) => (ue', .ok (some b))
  | (ue', .error .panic) => (ue', .error .panic)
  | (ue', .error .hang) => (ue', .error .hang)
  | (ue', .error .error) => (ue', .ok none)

/-- `GetNasPdu(ue, msg)` over a given `NASDecode`: `ies` lists `msg.ProtocolIEs.List` as `some v` for an IE whose
    id is `ProtocolIEIDNASPDU` (value `v`) and `none` for any other IE. The first NAS-PDU IE decides:
    header type = `pkg[1]` (`nas.GetSecurityHeaderType`), an error from `NASDecode` becomes `nil`.
    Result `none` = returned `nil`. -/
def getNasPduWith (dec : UeSec → UInt8 → Bytes → UeSec × Res Bytes) (ue : UeSec) :
    List (Option Bytes) → UeSec × Res (Option Bytes)
  | [] => (ue, .ok none)
  | none :: rest => getNasPduWith dec ue rest
  | some pkg :: _ =>
    match pkg with
    | _ :: sht :: _ => nilOnError (dec ue sht pkg)
    | _ => (ue, .error .panic)

def getNasPdu (P : Prims) (ue : UeSec) (ies : List (Option Bytes)) : UeSec × Res (Option Bytes) :=
  getNasPduWith (nasDecode P) ue ies

def getNasPduLegacy (P : Prims) (ue : UeSec) (ies : List (Option Bytes)) : UeSec × Res (Option Bytes) :=
  getNasPduWith (nasDecodeLegacy P) ue ies

/-! ### histories: the same `*RanUeContext` is used for one call after the other -/

/-- a sequence of `NASEncode` calls on one UE context: final context and the result of every call -/
def runEncode (P : Prims) : UeSec → List UlOp → UeSec × List (Res Bytes)
  | ue, [] => (ue, [])
  | ue, op :: ops =>
    let r := nasEncode P ue op
    let rs := runEncode P r.1 ops
    (rs.1, r.2 :: rs.2)

/-- a sequence of `NASDecode(ue, sht, payload)` calls on one UE context -/
def runDecode (P : Prims) : UeSec → List (UInt8 × Bytes) → UeSec × List (Res Bytes)
  | ue, [] => (ue, [])
  | ue, m :: ms =>
    let r := nasDecode P ue m.1 m.2
    let rs := runDecode P r.1 ms
    (rs.1, r.2 :: rs.2)

end Stgutg.Model.NasProtect
