/-
  Hand model of the APER *encoder*: src/free5gclib/aper/marshal.go (makeField and the append* helpers).
  The writer `perRawBitData{bytes, bitsOffset}` is modelled at the bit level: every function returns the
  bits it appends as a function of `pos`, the number of bits written before it (Go: 8·len(bytes) − unused
  bits of the last octet; `appendAlignBits` pads to the next octet boundary with the zero bits that are
  already in the last octet).

  Scope (stated in DESIGN.md): values whose Go representation is regular (a BitString's `Bytes` holds exactly
  ⌈BitLength/8⌉ octets; int64 / uint64 ranges). Out-of-constraint values are modelled for the error
  classes the correspondence generator produces (integer below/above bounds, size above/below bounds,
  Present 0 / too large, nil mandatory pointer, open type / reference mismatch, enumerated out of range).
-/
import Stgutg.Base.Bits
import Stgutg.Model.AperTypes

namespace Stgutg.Aper

def err {α : Type} : Res α := .error .error
def panic {α : Type} : Res α := .error .panic
def hang {α : Type} : Res α := .error .hang

/-- zero bits up to the next octet boundary (`appendAlignBits`) -/
def alignBits (pos : Nat) : Bits := List.replicate (padLen pos) false

/-- `putBitsValue(value, numBits)`: nothing for 0 bits; "over capacity" iff the value needs more bits -/
def putBitsValue (value numBits : Nat) : Res Bits :=
  if numBits = 0 then .ok []
  else if numBits < 64 ∧ value ≥ 2 ^ numBits then err
  else .ok (natToBits numBits value)

/-- the `for i = 1; i <= 8; i++ { if 1<<i >= range break }` loop -/
def bitsForRange (range : Int) : Nat :=
  if range ≤ 2 then 1 else if range ≤ 4 then 2 else if range ≤ 8 then 3 else if range ≤ 16 then 4
  else if range ≤ 32 then 5 else if range ≤ 64 then 6 else if range ≤ 128 then 7 else if range ≤ 256 then 8 else 9

/-- `appendConstraintValue(valueRange, value)` -/
def appendConstraintValue (pos : Nat) (range : Int) (value : Nat) : Res Bits :=
  if range ≤ 255 then
    if range < 0 then err else putBitsValue value (bitsForRange range)
  else if range = 256 then do
    let b ← putBitsValue value 8
    pure (alignBits pos ++ b)
  else if range ≤ 65536 then do
    let b ← putBitsValue value 16
    pure (alignBits pos ++ b)
  else err

/-- `appendLength(sizeRange, value)` -/
def appendLength (pos : Nat) (sizeRange : Int) (value : Nat) : Res Bits :=
  if sizeRange ≤ 65536 ∧ sizeRange > 0 then appendConstraintValue pos sizeRange value
  else if value ≤ 127 then do
    let b ← putBitsValue value 8
    pure (alignBits pos ++ b)
  else if value ≤ 16383 then do
    let b ← putBitsValue (value ||| 0x8000) 16
    pure (alignBits pos ++ b)
  else do
    let b ← putBitsValue ((value >>> 14) ||| 0xc0) 8
    pure (alignBits pos ++ b)

/-- size-constraint preamble shared by BIT STRING and OCTET STRING:
    returns (extension bit written, lb, ub, sizeRange) or an error. `len` is the bit / octet length. -/
def sizePreamble (len : Nat) (ext : Bool) (lbP ubP : Option Int) : Res (Bits × Int × Int × Int) :=
  match lbP with
  | none => .ok ([], 0, -1, -1)
  | some l =>
    match ubP with
    | none => .ok ([], l, -1, -1)
    | some u =>
      if (len : Int) ≤ u then
        -- with an upper bound of 64K or more the length itself is encoded (lb := 0; the repair of F24);
        -- a string shorter than the lower bound is refused there explicitly (the repair of F34)
        if u > 65535 ∧ (len : Int) < l then err
        else .ok (if ext then [false] else [], if u > 65535 then 0 else l, u, if u > 65535 then -1 else u - l + 1)
      else if !ext then err
      else .ok ([true], 0, u, -1)

/-- the fragmentation loop of appendBitString / appendOctetString / appendOpenType.
    `unit` = 1 for bit strings (lengths count bits), 8 for octet strings / open types;
    `payload` are the content bits (already a whole number of units). -/
def fragLoop (unit : Nat) (sizeRange : Int) (lb : Nat) : Nat → Nat → Nat → Bits → Res Bits
  | 0, _, _, _ => hang
  | fuel + 1, pos, rawLength, payload =>
    -- `>= 65536` and the continuation after a 16K-multiple fragment: the repair of F36 (X.691 11.9.3.8)
    let part := if rawLength ≥ 65536 then 65536 else if rawLength ≥ 16384 then rawLength &&& 0xc000 else rawLength
    match appendLength pos sizeRange part with
    | .error e => .error e
    | .ok lenBits =>
      let partLen := part + lb
      if partLen = 0 then .ok lenBits
      else
        let pos1 := pos + lenBits.length
        let al := alignBits pos1
        let nbits := partLen * unit
        let chunk := payload.take nbits
        let rest := rawLength - part
        if rest > 0 ∨ part ≥ 16384 then
          -- octets of this fragment are whole; continue with the next fragment, or after a fragment (a multiple of
          -- 16K) with nothing left, with the final length 0 (11.9.3.8.3)
          match fragLoop unit sizeRange lb fuel (pos1 + al.length + (chunk.length + 7) / 8 * 8) rest (payload.drop nbits) with
          | .error e => .error e
          | .ok more => .ok (lenBits ++ al ++ chunk ++ alignBits (pos1 + al.length + chunk.length) ++ more)
        else .ok (lenBits ++ al ++ chunk)

/-- `appendBitString(bytes, bitsLength, ext, lb, ub)`; `bytes` must hold ⌈bitsLength/8⌉ octets (else Go panics / emits garbage) -/
def appendBitString (pos : Nat) (bytes : Bytes) (bitsLength : Nat) (ext : Bool) (lbP ubP : Option Int) : Res Bits :=
  if bytes.length < (bitsLength + 7) / 8 then panic else
  match sizePreamble bitsLength ext lbP ubP with
  | .error e => .error e
  | .ok (pre, lb, ub, sizeRange) =>
    let content := (bytesToBits bytes).take bitsLength      -- the in-place mask clears the unused bits
    let pos1 := pos + pre.length
    if sizeRange = 1 then
      if (bitsLength : Int) ≠ ub then err
      else if (bitsLength + 7) / 8 > 2 then
        .ok (pre ++ alignBits pos1 ++ content)
      -- `putBitString(bytes, 0)` at an unaligned position indexes `bytes[0]` of the empty slice `bytes[:0]`
      else if bitsLength = 0 ∧ pos1 % 8 ≠ 0 then panic
      else .ok (pre ++ content)
    -- no upper bound: `rawLength = bitsLength - lb` wraps, a 64K fragment is announced and `bytes[0:8192+…]` is out of range
    else if (bitsLength : Int) < lb then (if sizeRange = -1 then panic else err)
    else
      match fragLoop 1 sizeRange lb.toNat (bitsLength / 16384 + 2) pos1 (bitsLength - lb.toNat) content with
      | .error e => .error e
      | .ok b => .ok (pre ++ b)

/-- `appendOctetString(bytes, ext, lb, ub)` -/
def appendOctetString (pos : Nat) (bytes : Bytes) (ext : Bool) (lbP ubP : Option Int) : Res Bits :=
  match sizePreamble bytes.length ext lbP ubP with
  | .error e => .error e
  | .ok (pre, lb, ub, sizeRange) =>
    let content := bytesToBits bytes
    let pos1 := pos + pre.length
    if sizeRange = 1 then
      if (bytes.length : Int) ≠ ub then err
      else if bytes.length > 2 then .ok (pre ++ alignBits pos1 ++ content)
      -- `putBitString(bytes, 0)` at an unaligned position indexes `bytes[0]` of an empty slice
      else if bytes.length = 0 ∧ pos1 % 8 ≠ 0 then panic
      else .ok (pre ++ content)
    -- no upper bound: `rawLength = byteLen - lb` wraps, a 64K fragment is announced and `bytes[0:65536+lb]` is out of range
    else if (bytes.length : Int) < lb then (if sizeRange = -1 then panic else err)
    else
      match fragLoop 8 sizeRange lb.toNat (bytes.length / 16384 + 2) pos1 (bytes.length - lb.toNat) content with
      | .error e => .error e
      | .ok b => .ok (pre ++ b)

/-- number of octets of a non-negative value after the first `>>= shift` (loop `for rawLength = 1; …`) -/
def octetCount : Nat → Nat → Nat
  | 0, _ => 1
  | fuel + 1, v => if v = 0 then 1 else 1 + octetCount fuel (v >>> 8)

/-- the octet count − 1 field width for ranges above 64K: `byteLen` = octets of `range − 1`
    (decoder's form `== 0`; the encoder's `<= 1` was F11), then the 1..8 bit loop -/
def rangeByteLen (range : Int) : Nat := octetCount 16 ((range - 1).toNat >>> 8)

/-- `appendInteger(value, ext, lb, ub)` -/
def appendInteger (pos : Nat) (value : Int) (ext : Bool) (lbP ubP : Option Int) : Res Bits :=
  -- (extension bit, lb, valueRange): 0 = semi-constrained, −1 = unconstrained
  let hdr : Res (Bits × Int × Int) :=
    match lbP with
    | none => .ok ([], 0, -1)
    | some l =>
      if value < l then err else
      match ubP with
      | none => .ok ([], l, 0)
      | some u =>
        if value ≤ u then .ok (if ext then [false] else [], l, u - l + 1)
        else if !ext then err
        else .ok ([true], l, -1)
  match hdr with
  | .error e => .error e
  | .ok (pre, lb, range) =>
    let pos1 := pos + pre.length
    if range = 1 then .ok pre
    else
      let unsignedValue : Nat := if value < 0 then (-value - 1).toNat else value.toNat
      if range ≤ 0 then
        -- length octet, then two's complement (unconstrained) or value − lb (semi-constrained)
        let rawLength := octetCount 9 (unsignedValue >>> 7)
        let al := alignBits pos1
        let lenBits := natToBits 8 rawLength
        let body : Nat :=
          if range < 0 then (value % (2 ^ (8 * rawLength) : Nat)).toNat
          else (value - lb).toNat
        match putBitsValue body (8 * rawLength) with
        | .error e => .error e
        | .ok b => .ok (pre ++ al ++ lenBits ++ b)
      else if range ≤ 65536 then
        match appendConstraintValue pos1 range (value - lb).toNat with
        | .error e => .error e
        | .ok b => .ok (pre ++ b)
      else
        let rawLength := octetCount 9 (unsignedValue >>> 8)
        match putBitsValue (rawLength - 1) (bitsForRange (rangeByteLen range)) with
        | .error e => .error e
        | .ok lenBits =>
          let pos2 := pos1 + lenBits.length
          match putBitsValue (value - lb).toNat (8 * rawLength) with
          | .error e => .error e
          | .ok b => .ok (pre ++ lenBits ++ alignBits pos2 ++ b)

/-- `appendEnumerated(value, ext, lb, ub)` -/
def appendEnumerated (pos : Nat) (value : Nat) (ext : Bool) (lbP ubP : Option Int) : Res Bits :=
  match lbP, ubP with
  | some lb, some ub =>
    if (value : Int) > ub then err
    else if (value : Int) < lb then err
    else
      let pre : Bits := if ext then [false] else []
      let range := ub - lb + 1
      if range > 1 then
        match appendConstraintValue (pos + pre.length) range value with
        | .error e => .error e
        | .ok b => .ok (pre ++ b)
      else .ok pre
  | _, _ => err

/-- `appendChoiceIndex(present, ext, ub)` -/
def appendChoiceIndex (pos : Nat) (present : Nat) (ext : Bool) (ubP : Option Int) : Res Bits :=
  match ubP with
  | none => err
  | some ub =>
    if ub < 0 then err
    else if ext ∧ ((present - 1 : Nat) : Int) > ub then err
    else appendConstraintValue pos (ub + 1) (present - 1)

def isChoice (sd : StructDef) : Bool :=
  match sd.fields with
  | f :: _ => f.name == "Present"
  | [] => false

/-- `getReferenceFieldValue(v)` on a field of type `ty` -/
def refFieldValue (env : Env) : Nat → Ty → Val → Res Int
  | 0, _, _ => hang
  | _ + 1, .int, .int v => .ok v
  | fuel + 1, .struct id, .struct fs =>
    match env[id]? with
    | none => err
    | some sd =>
      match sd.fields with
      | [] => panic                                      -- fieldType.Field(0) on an empty struct
      | f0 :: _ =>
        if f0.name == "Present" then
          match fs with
          | .int p :: _ =>
            if p ≤ 0 then err        -- 0: "present is 0"; negative values do not occur (Go would trap)
            else if p.toNat ≥ sd.fields.length then err
            else
              match sd.fields[p.toNat]?, fs[p.toNat]? with
              | some f, some v => refFieldValue env fuel f.ty v
              | _, _ => err
          | _ => err
        else
          match fs with
          | v0 :: _ => refFieldValue env fuel f0.ty v0
          | [] => err
  | _ + 1, _, _ => err

/-- index of the field named `name` among the first `i` fields (`for index = 0; index < i; …`) -/
def refIndex (fields : List Field) (name : String) (i : Nat) : Option Nat :=
  match (fields.take i).findIdx? (fun f => f.name == name) with
  | some k => some k
  | none => none

/-- elements of a SEQUENCE OF, threading the position -/
def encElems (f : Nat → Val → Res Bits) : Nat → List Val → Res Bits
  | _, [] => .ok []
  | pos, v :: vs =>
    match f pos v with
    | .error e => .error e
    | .ok a =>
      match encElems f (pos + a.length) vs with
      | .error e => .error e
      | .ok b => .ok (a ++ b)

def isNil : Val → Bool
  | .nil => true
  | _ => false

/-- the Go kinds `reflect.Value.IsNil` accepts among the types of a schema: pointers and slices
    (`aper.OctetString` and `aper.ObjectIdentifier` are `[]byte`); on any other kind it traps -/
def nillable : Ty → Bool
  | .ptr _ => true
  | .slice _ => true
  | .octs => true
  | .oid => true
  | _ => false

/-- the OPTIONAL bitmap of a SEQUENCE: one bit per field tagged `optional`, set iff non-nil
    (`v.Field(i).IsNil()`: a trap when the field's type cannot be nil — found by the synthetic-schema
    correspondence run); a nil pointer in a mandatory position is an error -/
def optBitmap : List Field → List Val → Res Bits
  | [], _ => .ok []
  | f :: fs, v :: vs =>
    if f.params.optional then
      if !(nillable f.ty) then panic else
      match optBitmap fs vs with
      | .error e => .error e
      | .ok b => .ok ((!(isNil v)) :: b)
    else if isNil v then err
    else optBitmap fs vs
  | _ :: _, [] => err

/-- the parameters a SEQUENCE component is coded with: for an open type the reference value is taken from
    the earlier field named `refField` (`getReferenceFieldValue(val.Field(index))`) -/
def resolveRef (rfv : Ty → Val → Res Int) (allFields : List Field) (allVals : List Val) (i : Nat) (fd : Field) :
    Res Params :=
  if fd.params.openType then
    match refIndex allFields fd.params.refField i with
    | none => err
    | some k =>
      match allFields[k]?, allVals[k]? with
      | some rf, some rv =>
        match rfv rf.ty rv with
        | .error e => .error e
        | .ok x => .ok { fd.params with refValue := some x }
      | _, _ => err
  else .ok fd.params

/-- the field loop of a SEQUENCE: absent optionals skipped; an open-type field gets its reference value
    from the earlier field named `refField` (`getReferenceFieldValue`) -/
def encSeqFields (f : Nat → Ty → Params → Val → Res Bits) (rfv : Ty → Val → Res Int)
    (allFields : List Field) (allVals : List Val) : Nat → Nat → List Field → List Val → Res Bits
  | _, _, [], _ => .ok []
  | _, _, _ :: _, [] => err
  | i, pos, fd :: frest, v :: vrest =>
    if fd.params.optional ∧ isNil v then encSeqFields f rfv allFields allVals (i + 1) pos frest vrest
    else
      match resolveRef rfv allFields allVals i fd with
      | .error e => .error e
      | .ok fp =>
        match f pos fd.ty fp v with
        | .error e => .error e
        | .ok a =>
          match encSeqFields f rfv allFields allVals (i + 1) (pos + a.length) frest vrest with
          | .error e => .error e
          | .ok b => .ok (a ++ b)

/-- element parameters of a SEQUENCE OF: the field's parameters without the size constraint -/
def stripSizeE (params : Params) : Params := { params with sizeExt := false, sizeUB := none, sizeLB := none }

/-- header of `parseSequenceOf` (encoder): (extension bit, lb, ub, sizeRange) -/
def sliceHeader (params : Params) (n : Nat) : Res (Bits × Int × Int × Int) :=
  let lb : Int := match params.sizeLB with | some l => if l < 65536 then l else 0 | none => 0
  match params.sizeUB with
  | some u =>
    if u < 65536 then
      if params.sizeExt then
        if (n : Int) > u then .ok ([true], lb, u, -1) else .ok ([false], lb, u, u - lb + 1)
      else if (n : Int) > u then err
      else .ok ([], lb, u, u - lb + 1)
    else .ok ([], lb, -1, -1)
  | none => .ok ([], lb, -1, -1)

/-- the element count of a SEQUENCE OF as written by the encoder -/
def sliceCountBits (pos1 : Nat) (n : Nat) (lb ub sizeRange : Int) : Res Bits :=
  if (n : Int) < lb then err
  else if sizeRange = 1 then (if (n : Int) ≠ ub then err else .ok [])
  else if sizeRange > 0 then appendConstraintValue pos1 sizeRange ((n : Int) - lb).toNat
  else if n ≥ 16384 then err                       -- would need a fragmented length: refused
  else appendLength pos1 (-1) n                    -- general length determinant (the repair of F25)

/-- SEQUENCE OF: `f` encodes one element at a position -/
def encSlice (f : Nat → Val → Res Bits) (params : Params) (pos : Nat) (vs : List Val) : Res Bits :=
  match sliceHeader params vs.length with
  | .error e => .error e
  | .ok (pre, lb, ub, sizeRange) =>
    let pos1 := pos + pre.length
    match sliceCountBits pos1 vs.length lb ub sizeRange with
    | .error e => .error e
    | .ok cb =>
      match encElems f (pos1 + cb.length) vs with
      | .error e => .error e
      | .ok eb => .ok (pre ++ cb ++ eb)

/-- SEQUENCE body: OPTIONAL bitmap, then the components -/
def encSeq (f : Nat → Ty → Params → Val → Res Bits) (rfv : Ty → Val → Res Int) (sd : StructDef)
    (pos1 : Nat) (fs : List Val) : Res Bits :=
  if fs.length ≠ sd.fields.length then err else
  match optBitmap sd.fields fs with
  | .error e => .error e
  | .ok bm =>
    match encSeqFields f rfv sd.fields fs 0 (pos1 + bm.length) sd.fields fs with
    | .error e => .error e
    | .ok body => .ok (bm ++ body)

/-- open type: the inner encoding, padded to whole octets, behind a length determinant (`appendOpenType`) -/
def encOpenType (pos1 : Nat) (inner : Bits) : Res Bits :=
  let nOct := (inner.length + 7) / 8
  fragLoop 8 (-1) 0 (nOct / 16384 + 2) pos1 nOct (inner ++ alignBits inner.length)

/-- CHOICE / open-type body -/
def encChoice (f : Nat → Ty → Params → Val → Res Bits) (sd : StructDef) (params : Params)
    (pos1 : Nat) (fs : List Val) : Res Bits :=
  match fs with
  | .int p :: _ =>
    if p ≤ 0 then err
    else if p.toNat ≥ sd.fields.length then err
    else
      match sd.fields[p.toNat]?, fs[p.toNat]? with
      | some fd, some alt =>
        if params.openType then
          match params.refValue with
          | none => err
          | some rv =>
            if fd.params.refValue ≠ some rv then err
            else
              match f 0 fd.ty fd.params alt with
              | .error e => .error e
              | .ok inner => encOpenType pos1 inner
        else
          match appendChoiceIndex pos1 p.toNat params.valueExt params.valueUB with
          | .error e => .error e
          | .ok ib =>
            match f (pos1 + ib.length) fd.ty fd.params alt with
            | .error e => .error e
            | .ok ab => .ok (ib ++ ab)
      | _, _ => err
  | _ => err

/-- `makeField(v, params)` with `v` of type `ty`. `fuel` bounds the nesting depth (types are finite and acyclic). -/
def encField (env : Env) : Nat → Nat → Ty → Params → Val → Res Bits
  | 0, _, _, _, _ => hang
  | fuel + 1, pos, ty, params, v =>
    match ty, v with
    | .ptr _, .nil => err                                  -- "cannot marshal nil value"
    | .ptr t, .ptr v' => encField env fuel pos t params v'
    | .bits, .bits bytes len => appendBitString pos bytes len params.sizeExt params.sizeLB params.sizeUB
    | .oid, _ => err
    | .octs, .octs b => appendOctetString pos b params.sizeExt params.sizeLB params.sizeUB
    | .str, .str b => appendOctetString pos b params.sizeExt params.sizeLB params.sizeUB
    | .enum, .enum n => appendEnumerated pos n params.valueExt params.valueLB params.valueUB
    | .bool, .bool b => .ok [b]
    | .int, .int n => appendInteger pos n params.valueExt params.valueLB params.valueUB
    | .slice t, .slice vs =>
      encSlice (fun p v => encField env fuel p t (stripSizeE params) v) params pos vs
    | .struct id, .struct fs =>
      match env[id]? with
      | none => err
      | some sd =>
        let pre : Bits := if params.valueExt then [false] else []
        let body : Res Bits :=
          if !(isChoice sd) then encSeq (encField env fuel) (refFieldValue env fuel) sd (pos + pre.length) fs
          else encChoice (encField env fuel) sd params (pos + pre.length) fs
        match body with
        | .error e => .error e
        | .ok b => .ok (pre ++ b)
    | _, _ => err

/-- `aper.MarshalWithParams(val, params)`: the packed octets; an empty encoding becomes one zero octet -/
def marshal (env : Env) (fuel : Nat) (ty : Ty) (params : Params) (v : Val) : Res Bytes :=
  match encField env fuel 0 ty params v with
  | .error e => .error e
  | .ok bits => if bits.isEmpty then .ok [0] else .ok (bitsToBytes bits)

end Stgutg.Aper
