/-
  Instrumented APER decoder: the computation of `Model/AperDec.lean` (`decField` / `unmarshal`, the model of
  aper.go `parseField` / `UnmarshalWithParams`) in a monad that also accumulates — EVEN WHEN THE RESULT IS AN ERROR —
    * `alloc` : the elements passed to `reflect.MakeSlice` (`parseSequenceOf` allocates `MakeSlice(count)` BEFORE any
                element is read) plus the octets copied into OCTET STRING / BIT STRING / open-type buffers
                (every `takeOctets n` of those parsers, the masked octets of a BIT STRING);
    * `steps` : the number of `parseField` entries (a proxy for time).
  Erasing the counters gives exactly `decField` / `unmarshal` (`Proofs/AperCostErase.lean`), so this model is tied to
  the Go code through the existing correspondence; WHERE the counters are charged is the modelling claim of this file.
-/
import Stgutg.Model.AperDec

namespace Stgutg.Aper

structure Cost where
  alloc : Nat
  steps : Nat
  deriving Repr, DecidableEq, Inhabited

def Cost.zero : Cost := ⟨0, 0⟩
def Cost.add (a b : Cost) : Cost := ⟨a.alloc + b.alloc, a.steps + b.steps⟩

/-- decoder monad with cost: reader state → outcome and the cost spent (also on failure) -/
def DC (α : Type) := Rd → Res (α × Rd) × Cost

instance : Monad DC where
  pure a := fun r => (.ok (a, r), Cost.zero)
  bind m f := fun r =>
    match m r with
    | (.ok (a, r'), c) => ((f a r').1, c.add (f a r').2)
    | (.error e, c) => (.error e, c)

def DC.fail {α : Type} (e : Err) : DC α := fun _ => (.error e, Cost.zero)

/-- a cost-free step of the plain decoder -/
def DC.lift {α : Type} (m : D α) : DC α := fun r => (m r, Cost.zero)

def DC.chargeAlloc (n : Nat) : DC Unit := fun r => (.ok ((), r), ⟨n, 0⟩)
/-- one step, then `k` (the step is counted whatever `k` does) -/
def DC.tickThen {α : Type} (k : DC α) : DC α := fun r => ((k r).1, (⟨0, 1⟩ : Cost).add (k r).2)
def DC.get : DC Rd := fun r => (.ok (r, r), Cost.zero)

/-- the outcome of a decoder run on ANOTHER buffer (the inner value of an open type): its cost is spent here,
    its left-over reader is dropped, this reader is unchanged -/
def DC.sub {α : Type} (x : Res (α × Rd) × Cost) : DC α := fun r =>
  match x.1 with
  | .error e => (.error e, x.2)
  | .ok (v, _) => (.ok (v, r), x.2)

/-- erasing the counters -/
def DC.erase {α : Type} (m : DC α) : D α := fun r => (m r).1

/-- `takeOctets n` copying its `n` octets -/
def takeOctetsC (n : Nat) : DC Bytes := do
  let b ← DC.lift (takeOctets n)
  DC.chargeAlloc n
  pure b

/-- `getBits n` packed into `⌈n/8⌉` fresh octets -/
def getBitsCopyC (n : Nat) : DC Bits := do
  let b ← DC.lift (getBits n)
  DC.chargeAlloc ((n + 7) / 8)
  pure b

def parseBitStringLoopC (sizeRange lb : Int) : Nat → Bytes → Nat → DC (Bytes × Nat)
  | 0, _, _ => DC.fail .hang
  | fuel + 1, accB, accL => do
    let (len, rep) ← DC.lift (parseLength sizeRange)
    let rawLength : Nat := ((len : Int) + lb).toNat
    if rawLength = 0 then pure (accB, accL)
    else do
      DC.lift parseAlignBits
      let r ← DC.get
      let sizes := (rawLength + 7) / 8
      if 8 * sizes > r.len then DC.fail .error
      else do
        let b ← getBitsCopyC rawLength
        let accB := accB ++ bitsToBytes b
        let accL := accL + rawLength
        if rep then parseBitStringLoopC sizeRange lb fuel accB accL else pure (accB, accL)

def parseBitStringC (extensed : Bool) (lbP ubP : Option Int) : DC (Bytes × Nat) :=
  let (lb, ub, sizeRange) := sizeBounds extensed lbP ubP
  if sizeRange = 1 then
    let n := ub.toNat
    let sizes := (n + 7) / 8
    if sizes > 2 then do
      DC.lift parseAlignBits
      let r ← DC.get
      if 8 * sizes > r.len then DC.fail .error
      else do
        let b ← getBitsCopyC n
        pure (bitsToBytes b, n)
    else do
      let b ← getBitsCopyC n
      pure (bitsToBytes b, n)
  else do
    let r ← DC.get
    parseBitStringLoopC sizeRange lb (r.len + 2) [] 0

def parseOctetStringLoopC (sizeRange lb : Int) : Nat → Bytes → DC Bytes
  | 0, _ => DC.fail .hang
  | fuel + 1, acc => do
    let (len, rep) ← DC.lift (parseLength sizeRange)
    let rawLength : Nat := ((len : Int) + lb).toNat
    if rawLength = 0 then pure acc
    else do
      DC.lift parseAlignBits
      let b ← takeOctetsC rawLength
      let acc := acc ++ b
      if rep then parseOctetStringLoopC sizeRange lb fuel acc else pure acc

def parseOctetStringC (extensed : Bool) (lbP ubP : Option Int) : DC Bytes :=
  let (lb, ub, sizeRange) := sizeBounds extensed lbP ubP
  if sizeRange = 1 then
    if ub > 2 then do
      DC.lift parseAlignBits
      takeOctetsC ub.toNat
    else do
      let b ← getBitsCopyC (8 * ub.toNat)
      pure (bitsToBytes b)
  else do
    let r ← DC.get
    parseOctetStringLoopC sizeRange lb (r.len + 2) []

/-- the octets of an open type, each fragment copied -/
def openTypeOctetsC : Nat → Bytes → DC Bytes
  | 0, _ => DC.fail .hang
  | fuel + 1, acc => do
    let (rawLength, rep) ← DC.lift (parseLength (-1))
    if rawLength = 0 then pure acc
    else do
      DC.lift parseAlignBits
      let b ← takeOctetsC rawLength
      let acc := acc ++ b
      if rep then openTypeOctetsC fuel acc
      else do
        DC.lift parseAlignBits
        pure acc

def decElemsC (f : DC Val) : Nat → DC (List Val)
  | 0 => pure []
  | n + 1 => do
    let v ← f
    let vs ← decElemsC f n
    pure (v :: vs)

def decSeqFieldsC (f : Ty → Params → DC Val) (rfv : Ty → Val → Res Int) (allFields : List Field) :
    Nat → Nat → Nat → List Field → List Val → DC (List Val)
  | _, _, _, [], vals => pure vals
  | i, optCount, optBits, fd :: frest, vals =>
    let skip : Bool := fd.params.optional ∧ optCount > 0 ∧ ¬ (optBits.testBit (optCount - 1))
    let optCount' := if fd.params.optional ∧ optCount > 0 then optCount - 1 else optCount
    if skip then decSeqFieldsC f rfv allFields (i + 1) optCount' optBits frest vals
    else
      match resolveRef rfv allFields vals i fd with
      | .error e => DC.fail e
      | .ok fp => do
        let v ← f fd.ty fp
        decSeqFieldsC f rfv allFields (i + 1) optCount' optBits frest (setAt vals i v)

def decLeafC (ty : Ty) (params : Params) (sizeExt valueExt : Bool) : DC Val :=
  match ty with
  | .bits => do
    let (b, n) ← parseBitStringC sizeExt params.sizeLB params.sizeUB
    pure (.bits b n)
  | .octs => do
    let b ← parseOctetStringC sizeExt params.sizeLB params.sizeUB
    pure (.octs b)
  | .str => do
    let b ← parseOctetStringC sizeExt params.sizeLB params.sizeUB
    pure (.str b)
  | .enum => do
    let n ← DC.lift (parseEnumerated valueExt params.valueLB params.valueUB)
    pure (.enum n)
  | .bool => do
    let b ← DC.lift (getBitsValue 1)
    pure (.bool (b = 1))
  | .int => do
    let n ← DC.lift (parseInteger valueExt params.valueLB params.valueUB)
    pure (.int n)
  | _ => DC.fail .error

def decStructC (f : Ty → Params → DC Val) (rfv : Ty → Val → Res Int) (zero : Ty → Val)
    (sd : StructDef) (params : Params) (valueExt : Bool) : DC Val :=
  let optCount := (sd.fields.filter (·.params.optional)).length
  do
    let optBits ← DC.lift (if optCount > 0 then getBitsValue optCount else pure 0 : D Nat)
    let zeros := sd.fields.map fun fd => zero fd.ty
    if isChoice sd then
      if params.openType then
        match params.refValue with
        | none => DC.fail .error
        | some rv =>
          match findAlt sd.fields rv with
          | none => pure (.struct zeros)
          | some present =>
            match sd.fields[present]? with
            | none => DC.fail .error
            | some fd => do
              let r0 ← DC.get
              let octs ← openTypeOctetsC (r0.len + 2) []
              let v ← DC.sub (f fd.ty fd.params (Rd.ofBytes octs))
              pure (.struct (setAt (setAt zeros 0 (.int present)) present v))
      else do
        let present ← DC.lift (D.catchErr (getChoiceIndex valueExt params.valueUB) (fun r => (0, r)))
        if present = 0 then DC.fail .error
        else if present ≥ sd.fields.length then DC.fail .error
        else
          match sd.fields[present]? with
          | none => DC.fail .error
          | some fd => do
            let v ← f fd.ty fd.params
            pure (.struct (setAt (setAt zeros 0 (.int present)) present v))
    else do
      let vals ← decSeqFieldsC f rfv sd.fields 0 optCount optBits sd.fields zeros
      pure (.struct vals)

/-- `parseField` with cost: one step per entry (also for the entry that finds the reader exhausted),
    `MakeSlice(count)` charged before the elements are read -/
def decFieldC (env : Env) : Nat → Ty → Params → DC Val
  | 0, _, _ => DC.fail .hang
  | fuel + 1, ty, params =>
    DC.tickThen fun r0 =>
    if r0.len = 0 then (.error .error, Cost.zero) else
    match ty with
    | .ptr t =>
      (do let v ← decFieldC env fuel t params
          pure (.ptr v) : DC Val) r0
    | .slice t =>
      (do let (sizeExt, _) ← DC.lift (extBits params true)
          let n ← DC.lift (sliceCount params sizeExt)
          DC.chargeAlloc n
          let vs ← decElemsC (decFieldC env fuel t (stripSize params)) n
          pure (.slice vs) : DC Val) r0
    | .struct id =>
      match env[id]? with
      | none => (.error .error, Cost.zero)
      | some sd =>
        (do let (_, valueExt) ← DC.lift (extBits params false)
            decStructC (decFieldC env fuel) (refFieldValue env fuel) (zeroVal env fuel) sd params valueExt : DC Val) r0
    | leaf =>
      (do let (sizeExt, valueExt) ← DC.lift (extBits params false)
          decLeafC leaf params sizeExt valueExt : DC Val) r0

/-- `aper.UnmarshalWithParams` with cost -/
def unmarshalCost (env : Env) (fuel : Nat) (ty : Ty) (params : Params) (b : Bytes) : Res Val × Cost :=
  match decFieldC env fuel ty params (Rd.ofBytes b) with
  | (.error e, c) => (.error e, c)
  | (.ok (v, _), c) => (.ok v, c)

end Stgutg.Aper
