/-
  C01 / C02 — hand model of the procedure drivers and of the test-mode branch of `main`:
    src/stgutg/ngsetup.go   ManageNGSetup
    src/stgutg/ue.go        CreateUE (Model/UeIdentity.lean), RegisterUE, DeregisterUE
    src/stgutg/pdu.go       EstablishPDU, FindPDUSessionResourceSetupListSUReq, ReleasePDU
    src/stgutg/service.go   ServiceRequest
    stg-utg.go              the `mode == 2` branch (test mode): the four `stgutg.Min` clamps and the five loops
  as pure functions over an explicit world: the downlink messages the peer sends (one per `conn.Read`), the uplink
  messages written so far, the package variable `TestPlmn`, and what `EstablishPDU` returned.

  Every step is an existing model function; this file is the glue (which field of a downlink message goes where, the
  order of the `NASEncode` calls, which results are discarded):
    NGAP build + encode   Model/Builders.lean  `Wrapper.run` (tglib.Get…)
    NGAP decode           Model/AperDec.lean   `unmarshal` over the generated schema (ngap.Decoder)
    NAS constructors      Model/NasCtor.lean   (nasTestpacket.Get…)
    plain NAS codec       Model/NasCodec.lean  `plainDecode` / `plainEncode` (nas.Message.PlainNasDecode / PlainNasEncode)
    NAS protection        Model/NasProtect.lean `encodeNasPduWithSecurity`, `getNasPdu`
    5G-AKA                Model/KeyDerivation.lean `DeriveRESstarAndSetKey`, `snName`
    SUCI / PLMN           Model/Suci.lean
    extraction            Model/Extract.lean

  How a run ends (`Stop`): `exit 1` through `ManageError` / `fatal.Fatalf`, a Go panic (exit status 2), or `blocked` when
  the program reads and the peer has nothing more to say (outside C01/C02: the peer of these properties answers).
  `time.Sleep`, `fmt.Println` and the connection set-up are not modelled. Traffic mode (no `-t`) needs XDP and is not modelled.
  The decoder's octet strings are modelled without hidden capacity (`Sl.ofBytes b []`): for the well-formed setup requests
  of C01/C02 the extraction does not look beyond the length (Props/C12).
  `P : Prims` and `E : Ext` are parameters (the driver instantiates them with Crypto.prims and NetExt.goExt).
-/
import Stgutg.Model.Builders
import Stgutg.Model.AperDec
import Stgutg.Model.NasCtor
import Stgutg.Model.NasProtect
import Stgutg.Model.KeyDerivation
import Stgutg.Model.Suci
import Stgutg.Model.UeIdentity
import Stgutg.Model.Extract
import Stgutg.Model.FailStop
import Stgutg.Gen.Script

namespace Stgutg.Model.Emulator
open Stgutg Stgutg.Builders Stgutg.Model.NasProtect

/-! ### configuration (`c.Configuration`, the fields test mode reads) -/

structure Cfg where
  imsi : Bytes
  mcc : Bytes
  mnc : Bytes
  k : Bytes
  opc : Bytes
  op : Bytes
  /-- `[]byte(c.Configuration.Gnb_id)` -/
  gnbId : Bytes
  bitlength : Nat
  name : Bytes
  /-- `int32` -/
  sst : Int
  sd : Bytes
  gnbGtp : Bytes
  /-- `Test_ue_registation`, `Test_ue_pdu_establishment`, `Test_ue_service`, `Test_ue_pdu_release`, `Test_ue_deregistration` -/
  reg : Int
  pdu : Int
  svc : Int
  rel : Int
  dereg : Int
  deriving Repr

/-! ### the world and the outcome monad -/

inductive Stop where
  /-- `ManageError(msg, err)` / `fatal.Fatalf`: prints, `os.Exit(1)` -/
  | exit1
  /-- a Go panic: exit status 2 -/
  | panic
  /-- `conn.Read` with no downlink message left -/
  | blocked
  /-- fuel of a decoder loop ran out -/
  | hang
  /-- a NAS constructor's encoder reported an error (the Go constructor prints it and returns what was written so far);
      not reachable with the arguments the procedures pass, reported as such if it ever is -/
  | unmodelled
  deriving DecidableEq, Repr, Inhabited

/-- what `EstablishPDU` returned: UE address (`net.IP`, empty = nil), uplink TEID, UPF address -/
structure Report where
  ip : Bytes
  teid : Nat
  upf : Bytes
  deriving DecidableEq, Repr

structure World where
  /-- downlink messages not yet read -/
  dls : List Bytes
  /-- uplink messages written, most recent first -/
  ulsRev : List Bytes := []
  /-- `ngapTestpacket.TestPlmn.Value` -/
  plmn : Bytes := []
  /-- results of `EstablishPDU`, most recent first -/
  reportsRev : List Report := []
  deriving Repr

def M (α : Type) := World → World × Except Stop α

def M.pure {α : Type} (a : α) : M α := fun w => (w, .ok a)

def M.bind {α β : Type} (m : M α) (f : α → M β) : M β := fun w =>
  match m w with
  | (w', .ok a) => f a w'
  | (w', .error e) => (w', .error e)

instance : Monad M where
  pure := M.pure
  bind := M.bind

def stop {α : Type} (s : Stop) : M α := fun w => (w, .error s)

/-- `conn.Write(sendMsg)` (its error is not modelled: the peer of C01/C02 stays) -/
def write (b : Bytes) : M Unit := fun w => ({ w with ulsRev := b :: w.ulsRev }, .ok ())

/-- `n, err := conn.Read(recvMsg)` into the 2048-octet buffer, then `recvMsg[:n]` -/
def read : M Bytes := fun w =>
  match w.dls with
  | [] => (w, .error .blocked)
  | d :: rest => ({ w with dls := rest }, .ok (d.take 2048))

def getPlmn : M Bytes := fun w => (w, .ok w.plmn)
def setPlmn (p : Bytes) : M Unit := fun w => ({ w with plmn := p }, .ok ())
def report (r : Report) : M Unit := fun w => ({ w with reportsRev := r :: w.reportsRev }, .ok ())

/-- a `(value, err)` result that reaches `ManageError` -/
def checked {α : Type} : Res α → M α
  | .ok a => pure a
  | .error .error => stop .exit1
  | .error .panic => stop .panic
  | .error .hang => stop .hang

/-- a value whose computation can only trap (no error result) -/
def orTrap {α : Type} : Res α → M α
  | .ok a => pure a
  | .error .hang => stop .hang
  | .error _ => stop .panic

/-- the output of a `nasTestpacket.Get…` constructor -/
def ctor (L : Nas.Layout) (m : Res Nas.Msg) : M Bytes :=
  match Nas.Ctor.encodeWith L m with
  | .ok b => pure b
  | .error .panic => stop .panic
  | .error _ => stop .unmodelled

/-! ### tglib wrappers -/

/-- `tglib.Get…(args)` → `([]byte, error)`; a panic or `fatal.Fatalf` inside ends the run -/
def wrapper (E : Convert.Ext) (w : Wrapper) (args : List Aper.Val) : M (Res Bytes) := do
  let plmn ← getPlmn
  match w.run E plmn args with
  | .ok r => pure r
  | .error .panic => stop .panic
  | .error .exit => stop .exit1

/-- `sendMsg, err := tglib.Get…(args); ManageError(…, err)` -/
def wrapperChecked (E : Convert.Ext) (w : Wrapper) (args : List Aper.Val) : M Bytes := do
  checked (← wrapper E w args)

/-- `sendMsg, err = tglib.Get…(args)` with `err` overwritten by the next statement: on an error `sendMsg` is nil -/
def wrapperUnchecked (E : Convert.Ext) (w : Wrapper) (args : List Aper.Val) : M Bytes := do
  match ← wrapper E w args with
  | .ok b => pure b
  | .error .panic => stop .panic
  | .error .hang => stop .hang
  | .error .error => pure []

/-- `ngap.Decoder(recvMsg[:n])` -/
def ngapDecode (b : Bytes) : Res Aper.Val :=
  Aper.unmarshal Gen.Ngap.schema Builders.fuel (.struct Gen.Ngap.pduId) Gen.Ngap.decoderParams b

/-! ### the UE context (`*tglib.RanUeContext`) -/

structure Ue where
  ctx : UeIdentity.RanUeContext
  amfUeNgapId : Int := 0
  sec : UeSec
  kamf : Bytes := []
  deriving Repr

/-- `stgutg.CreateUE(imsi, i, K, OPC, OP)`: counters zero, key arrays zero -/
def createUE (cfg : Cfg) (i : Int) : Ue :=
  let ctx := UeIdentity.createUE cfg.imsi i cfg.k cfg.opc cfg.op
  { ctx := ctx,
    sec := { ulCount := 0, dlCount := 0, cipheringAlg := ctx.cipheringAlg, integrityAlg := ctx.integrityAlg,
             knasEnc := List.replicate 16 0, knasInt := List.replicate 16 0 } }

def nasCodec : Nas.Codec := { layouts := Gen.Nas.layouts, gmm := Gen.Nas.dispatchGmm, gsm := Gen.Nas.dispatchGsm }

/-- `tglib.EncodeNasPduWithSecurity(ue, pdu, sht, ctxAvail, newCtx)`: `PlainNasDecode(&pdu)`, then `NASEncode`, which
    re-encodes the decoded message (`PlainNasEncode`) and protects it; the UE context keeps what `NASEncode` did to it -/
def encodeNasPduWithSecurity (P : Prims) (ue : Ue) (pdu : Bytes) (sht : UInt8) (ctxAvail newCtx : Bool) : Ue × Res Bytes :=
  match Nas.plainDecode nasCodec pdu with
  | .error e => (ue, .error e)
  | .ok pm =>
    if !ctxAvail then
      -- NASEncode: `return msg.PlainNasEncode()`
      (ue, Nas.plainEncode nasCodec pm)
    else
      -- the counters are reset before `PlainNasEncode` is called
      let sec0 := if newCtx then { ue.sec with ulCount := Count.set ue.sec.ulCount 0 0, dlCount := Count.set ue.sec.dlCount 0 0 } else ue.sec
      match Nas.plainEncode nasCodec pm with
      | .error e => ({ ue with sec := sec0 }, .error e)
      | .ok plain =>
        let r := NasProtect.encodeNasPduWithSecurity P ue.sec plain sht ctxAvail newCtx
        ({ ue with sec := r.1 }, r.2)

/-- `pdu, err := tglib.EncodeNasPduWithSecurity(…); ManageError(…, err)` -/
def protect (P : Prims) (ue : Ue) (pdu : Bytes) (sht : UInt8) (newCtx : Bool) : M (Ue × Bytes) := do
  let r := encodeNasPduWithSecurity P ue pdu sht true newCtx
  let b ← checked r.2
  pure (r.1, b)

/-! ### navigation in decoded PDUs (positions are those of the ngapType structs; `schemaPositions` pins them) -/

/-- `p.X` through a pointer `p`: nil traps -/
def deref : Aper.Val → Option Aper.Val
  | .ptr v => some v
  | _ => none

def field (i : Nat) : Aper.Val → Option Aper.Val
  | .struct fs => fs[i]?
  | _ => none

/-- alternative `DownlinkNASTransport` / `PDUSessionResourceSetupRequest` of `InitiatingMessageValue` -/
def altDownlinkNASTransport : Nat := 22
def altPDUSessionResourceSetupRequest : Nat := 12
/-- alternatives of `DownlinkNASTransportIEsValue` -/
def altDnAMFUENGAPID : Nat := 1
def altDnNASPDU : Nat := 5
/-- alternative `PDUSessionResourceSetupListSUReq` of `PDUSessionResourceSetupRequestIEsValue` -/
def altSuList : Nat := 5

def fieldName (sid i : Nat) : String :=
  match Gen.Ngap.schema[sid]? with
  | some sd => match sd.fields[i]? with | some f => f.name | none => ""
  | none => ""

def structIdOf (name : String) : Nat := (Gen.Ngap.schema.findIdx? (·.name == name)).getD 0

/-- the positions used below are those of the regenerated schema (evaluated when this file is compiled: a schema that
    moves a field breaks the build) -/
def schemaPositions : Bool :=
  fieldName (structIdOf "InitiatingMessageValue") altDownlinkNASTransport == "DownlinkNASTransport" &&
  fieldName (structIdOf "InitiatingMessageValue") altPDUSessionResourceSetupRequest == "PDUSessionResourceSetupRequest" &&
  fieldName (structIdOf "DownlinkNASTransportIEsValue") altDnAMFUENGAPID == "AMFUENGAPID" &&
  fieldName (structIdOf "DownlinkNASTransportIEsValue") altDnNASPDU == "NASPDU" &&
  fieldName (structIdOf "PDUSessionResourceSetupRequestIEsValue") altSuList == "PDUSessionResourceSetupListSUReq" &&
  fieldName (structIdOf "PDUSessionResourceSetupItemSUReq") 0 == "PDUSessionID" &&
  fieldName (structIdOf "PDUSessionResourceSetupItemSUReq") 1 == "PDUSessionNASPDU" &&
  fieldName (structIdOf "PDUSessionResourceSetupItemSUReq") 3 == "PDUSessionResourceSetupRequestTransfer" &&
  fieldName (structIdOf "NGAPPDU") 1 == "InitiatingMessage" &&
  fieldName (structIdOf "InitiatingMessage") 2 == "Value"
#guard schemaPositions

/-- `msg.InitiatingMessage.Value.<alternative k>`: `none` = the nil dereference of `msg.InitiatingMessage`;
    `some none` = the alternative is a nil pointer -/
def initiatingAlt (k : Nat) (pdu : Aper.Val) : Option (Option Aper.Val) :=
  match (field 1 pdu).bind deref with
  | none => none
  | some im =>
    match (field 2 im).bind (field k) with
    | some (.ptr v) => some (some v)
    | _ => some none

/-- `x.ProtocolIEs.List` -/
def ieList (msg : Aper.Val) : Option (List Aper.Val) :=
  match (field 0 msg).bind (field 0) with
  | some (.slice l) => some l
  | _ => none

/-- `ie.Id.Value` -/
def ieId (ie : Aper.Val) : Option Int :=
  match (field 0 ie).bind (field 0) with
  | some (.int n) => some n
  | _ => none

/-- `ie.Value.<alternative k>` (a pointer) -/
def ieAlt (k : Nat) (ie : Aper.Val) : Option Aper.Val := (field 2 ie).bind (field k)

/-! ### ManageNGSetup -/

def manageNGSetup (E : Convert.Ext) (cfg : Cfg) : M Unit := do
  -- mobilePLMN := EncodeSuci([]byte(strings.TrimPrefix(imsi, "imsi-")), len(mnc)).Buffer[1:4]
  let mobilePLMN ← orTrap (Suci.ngSetupPlmn cfg.imsi cfg.mnc.length)
  let r ← wrapper E .GetNGSetupRequest [.octs cfg.gnbId, .octs mobilePLMN, .int cfg.bitlength, .str cfg.name]
  -- BuildNGSetupRequest has assigned TestPlmn before the encoder runs
  setPlmn mobilePLMN
  let sendMsg ← checked r
  write sendMsg
  let recv ← read
  let _ ← checked (ngapDecode recv)

/-! ### RegisterUE -/

/-- the mobile identity `EncodeSuci` returns: `Iei` 0, `Len = uint16(len(Buffer))` -/
def suciVal (buf : Bytes) : Nas.Val := { iei := 0, len := buf.length % 65536, data := buf }

def secCapVal (ue : Ue) : Nas.Val :=
  let c := UeIdentity.getUESecurityCapability ue.ctx.cipheringAlg ue.ctx.integrityAlg
  { iei := c.iei.toNat, len := c.len.toNat, data := c.buffer }

/-- `ue.Get5GMMCapability()` -/
def cap5GMMVal : Nas.Val := { iei := 0x10, len := 1, data := 0x07 :: List.replicate 12 0 }

/-- what `RegisterUE` takes from the NAS message `GetNasPdu` returned: AUTN and RAND; `none` = a nil dereference -/
def authParams (pm : Option Nas.PlainMsg) : Option (Bytes × Bytes) :=
  match pm with
  | none => none
  | some pm =>
    if pm.gsm then none
    else if (Gen.Nas.dispatchGmm.dec.lookup 0x56) != some pm.idx then none
    else
      match pm.body[Gen.Nas.idx_AuthenticationRequest_AuthenticationParameterAUTN]?,
            pm.body[Gen.Nas.idx_AuthenticationRequest_AuthenticationParameterRAND]? with
      | some (some autn), some (some rand) => some (autn.data.take 16, rand.data.take 16)
      | _, _ => none

/-- `tglib.GetNasPdu(ue, msg)` followed by the `PlainNasDecode` at the end of `NASDecode` -/
def getNasPdu (P : Prims) (ue : Ue) (msg : Aper.Val) : M (Ue × Option Nas.PlainMsg) := do
  match ieList msg with
  | none => stop .panic
  | some ies =>
    let pkgs : List (Option (Option Bytes)) := ies.map fun ie =>
      if ieId ie == some 38 then
        match (ieAlt altDnNASPDU ie).bind deref |>.bind (field 0) with
        | some (.octs b) => some (some b)
        | _ => none
      else some none
    if pkgs.any (·.isNone) then stop .panic else
    let r := NasProtect.getNasPdu P ue.sec (pkgs.map fun p => p.getD none)
    let ue := { ue with sec := r.1 }
    match r.2 with
    | .error .hang => stop .hang
    | .error _ => stop .panic
    | .ok none => pure (ue, none)
    | .ok (some payload) =>
      match Nas.plainDecode nasCodec payload with
      | .ok pm => pure (ue, some pm)
      | .error .error => pure (ue, none)
      | .error .hang => stop .hang
      | .error .panic => stop .panic

def str (s : String) : Bytes := s.toUTF8.toList

/-- what `RegisterUE` changes in the context behind `ue`: the AMF-UE-NGAP-ID, K_AMF, and the NAS security state
    (keys, counters). SUPI, RAN-UE-NGAP-ID, algorithms and credentials are never assigned after `CreateUE`. -/
structure RegResult where
  amfUeNgapId : Int
  kamf : Bytes
  sec : UeSec
  deriving Repr

/-- `RegisterUE(ue, mnc, mcc, conn)` → what it changed in the UE context (the returned NAS PDU is never used by the callers) -/
def registerUE (P : Prims) (E : Convert.Ext) (cfg : Cfg) (ue : Ue) : M RegResult := do
  let suci ← orTrap (Suci.encodeSuci (Suci.trimImsiPrefix ue.ctx.supi) cfg.mnc.length)
  let mi := suciVal suci
  let secCap := secCapVal ue
  let registrationRequest ← ctor Gen.Nas.layout_RegistrationRequest
    (Nas.Ctor.registrationRequest 1 mi none (some secCap) none none none)
  let sendMsg ← wrapperChecked E .GetInitialUEMessage [.int ue.ctx.ranUeNgapId, .octs registrationRequest, .str []]
  write sendMsg
  let recv ← read
  let ngapMsg ← checked (ngapDecode recv)
  -- nasPdu := tglib.GetNasPdu(ue, ngapMsg.InitiatingMessage.Value.DownlinkNASTransport)
  let dnt ← match initiatingAlt altDownlinkNASTransport ngapMsg with
    | some (some v) => pure v
    | _ => stop .panic
  let (ue, nasPdu) ← getNasPdu P ue dnt
  let (autn, rand) ← match authParams nasPdu with
    | some x => pure x
    | none => stop .panic
  let snName := KeyDerivation.snName cfg.mnc cfg.mcc
  let keys ← checked (KeyDerivation.DeriveRESstarAndSetKey P ue.ctx.supi ue.ctx.cipheringAlg ue.ctx.integrityAlg
    { amf := ue.ctx.amf, k := ue.ctx.k, opc := ue.ctx.opc, op := ue.ctx.op } autn rand snName cfg.mnc cfg.mcc)
  let ue := { ue with kamf := keys.kamf, sec := { ue.sec with knasEnc := keys.knasEnc, knasInt := keys.knasInt } }
  -- ue.AmfUeNgapId = …DownlinkNASTransport.ProtocolIEs.List[0].Value.AMFUENGAPID.Value
  let amfId ← match (ieList dnt).bind (·[0]?) |>.bind (ieAlt altDnAMFUENGAPID) |>.bind deref |>.bind (field 0) with
    | some (.int n) => pure n
    | _ => stop .panic
  let ue := { ue with amfUeNgapId := amfId }
  let pdu ← ctor Gen.Nas.layout_AuthenticationResponse (Nas.Ctor.authenticationResponse keys.resStar [])
  let sendMsg ← wrapperUnchecked E .GetUplinkNASTransport [.int ue.amfUeNgapId, .int ue.ctx.ranUeNgapId, .octs pdu]
  write sendMsg
  let recv ← read
  let _ ← checked (ngapDecode recv)
  let registrationRequestWith5GMM ← ctor Gen.Nas.layout_RegistrationRequest
    (Nas.Ctor.registrationRequest 1 mi none (some secCap) (some cap5GMMVal) none none)
  let pdu ← ctor Gen.Nas.layout_SecurityModeComplete (Nas.Ctor.securityModeComplete (some registrationRequestWith5GMM))
  let (ue, pdu) ← protect P ue pdu 4 true
  let sendMsg ← wrapperChecked E .GetUplinkNASTransport [.int ue.amfUeNgapId, .int ue.ctx.ranUeNgapId, .octs pdu]
  write sendMsg
  let recv ← read
  let _ ← checked (ngapDecode recv)
  let sendMsg ← wrapperChecked E .GetInitialContextSetupResponse [.int ue.amfUeNgapId, .int ue.ctx.ranUeNgapId]
  write sendMsg
  let pdu ← ctor Gen.Nas.layout_RegistrationComplete (Nas.Ctor.registrationComplete none)
  let (ue, pdu) ← protect P ue pdu 2 false
  let sendMsg ← wrapperChecked E .GetUplinkNASTransport [.int ue.amfUeNgapId, .int ue.ctx.ranUeNgapId, .octs pdu]
  write sendMsg
  -- the read after Registration Complete is checked, the decoder's result is not looked at; a decoder panic still propagates
  let recv ← read
  match ngapDecode recv with
  | .error .panic => stop .panic
  | .error .hang => stop .hang
  | _ => pure { amfUeNgapId := ue.amfUeNgapId, kamf := ue.kamf, sec := ue.sec }

/-! ### the PDU session identity: `strings.Split(ue.Supi, "-")[1]`, `strconv.Atoi`, `(supiInt+14)%15 + 1` -/

/-- `strings.Split(s, "-")` -/
def splitDash (s : Bytes) : List Bytes :=
  let rec go (cur : Bytes) : Bytes → List Bytes
    | [] => [cur]
    | c :: rest => if c = 45 then cur :: go [] rest else go (cur ++ [c]) rest
  go [] s

/-- `(supiInt, err != nil)`; `none` = `[1]` out of range (a SUPI without `-`) -/
def supiInt (supi : Bytes) : Option (Int × Bool) := (splitDash supi)[1]?.map UeIdentity.atoi

/-- `pduId := int64((supiInt+14)%15 + 1)` (Go `int` arithmetic: the sum wraps at 64 bits, `%` truncates towards zero);
    before commit a0d23df of /repo this was `supiInt % 1e4` (finding F14) -/
def pduIdOf (n : Int) : Int := Int.tmod (UeIdentity.wrap64 (n + 14)) 15 + 1

/-- `uint8(pduId)` -/
def psi8 (pduId : Int) : UInt8 := UInt8.ofNat (pduId % 256).toNat

/-- `models.Snssai{Sst: sst, Sd: sd}` as the UL NAS TRANSPORT constructors read it: `uint8(sNssai.Sst)`,
    `hex.DecodeString(sNssai.Sd)` -/
def snssaiOf (E : Convert.Ext) (cfg : Cfg) : Option Nas.Ctor.Snssai :=
  let d := E.hexDecode cfg.sd
  if d.2 then none else some { sst := UInt8.ofNat (cfg.sst % 256).toNat, sd := d.1 }

/-- `"internet"` -/
def internet : Bytes := [105, 110, 116, 101, 114, 110, 101, 116]

/-! ### EstablishPDU -/

/-- `FindPDUSessionResourceSetupListSUReq(msg)`: `none` = nil -/
def findSetupList (pdu : Aper.Val) : Option Aper.Val :=
  match (field 1 pdu) with
  | some (.ptr im) =>
    match (field 2 im).bind (field altPDUSessionResourceSetupRequest) with
    | some (.ptr req) =>
      match ieList req with
      | none => none
      | some ies =>
        match ies.find? (fun ie => ieId ie == some 74) with
        | none => none
        | some ie => (ieAlt altSuList ie).bind deref
    | _ => none
  | _ => none

/-- what `EstablishPDU` makes of the decoded downlink message: the setup list is looked up by IE id; no list / an empty
    list ends in `ManageError`; the first item's `PDUSessionNASPDU` (optional: nil traps) and transfer go to the two extractors -/
def extractReport (msg : Aper.Val) : Except Stop Report :=
  match findSetupList msg with
  | none => .error .exit1
  | some l =>
    match field 0 l with
    | some (.slice (item :: _)) =>
      match (field 1 item).bind deref |>.bind (field 0), field 3 item with
      | some (.octs nasPdu), some (.octs transfer) =>
        match Extract.decodeNasPdu (Extract.Sl.ofBytes nasPdu []) with
        | .error .hang => .error .hang
        | .error _ => .error .panic
        | .ok clientip =>
          match Extract.decodeTransferPdu (Extract.Sl.ofBytes transfer []) with
          | .error .hang => .error .hang
          | .error _ => .error .panic
          | .ok (teid, upfip) => .ok { ip := clientip, teid := teid, upf := upfip }
      | _, _ => .error .panic
    | _ => .error .exit1

def establishPDU (P : Prims) (E : Convert.Ext) (cfg : Cfg) (ue : Ue) : M UeSec := do
  let supiInt ← match supiInt ue.ctx.supi with
    | some x => pure x.1
    | none => stop .panic
  let pduId := pduIdOf supiInt
  let sn ← match snssaiOf E cfg with
    | some s => pure s
    | none => stop .unmodelled
  let pdu ← ctor Gen.Nas.layout_ULNASTransport (Nas.Ctor.ulEstablishment (psi8 pduId) 1 internet (some sn))
  let (ue, pdu) ← protect P ue pdu 2 false
  let sendMsg ← wrapperChecked E .GetUplinkNASTransport [.int ue.amfUeNgapId, .int ue.ctx.ranUeNgapId, .octs pdu]
  write sendMsg
  let recv ← read
  let msg ← checked (ngapDecode recv)
  -- FindPDUSessionResourceSetupListSUReq … DecodePDUSessionNASPDU, DecodePDUSessionResourceSetupRequestTransfer
  let rep ← fun w => (w, extractReport msg)
  let sendMsg ← wrapperChecked E .GetPDUSessionResourceSetupResponse
    [.int ue.amfUeNgapId, .int ue.ctx.ranUeNgapId, .int pduId, .str cfg.gnbGtp]
  write sendMsg
  report rep
  pure ue.sec

/-! ### ServiceRequest -/

def serviceRequest (P : Prims) (E : Convert.Ext) (cfg : Cfg) (ue : Ue) : M UeSec := do
  let supiInt ← match supiInt ue.ctx.supi with
    | some x => pure x.1
    | none => stop .panic
  let pduId := pduIdOf supiInt
  -- nasMessage.ServiceTypeData = 1
  let pdu ← ctor Gen.Nas.layout_ServiceRequest (Nas.Ctor.serviceRequest 1)
  let (ue, pdu) ← protect P ue pdu 2 false
  let sendMsg ← wrapperChecked E .GetInitialUEMessage [.int ue.ctx.ranUeNgapId, .octs pdu, .str []]
  write sendMsg
  let recv ← read
  let _ ← checked (ngapDecode recv)
  let sendMsg ← wrapperUnchecked E .GetInitialContextSetupResponseForServiceRequest
    [.int ue.amfUeNgapId, .int ue.ctx.ranUeNgapId, .int pduId, .str cfg.gnbGtp]
  write sendMsg
  pure ue.sec

/-! ### ReleasePDU -/

def releasePDU (P : Prims) (E : Convert.Ext) (cfg : Cfg) (ue : Ue) : M UeSec := do
  let supiInt ← match supiInt ue.ctx.supi with
    | some (n, false) => pure n
    | some (_, true) => stop .exit1          -- ManageError("Error releasing PDU", err)
    | none => stop .panic
  let pduId := pduIdOf supiInt
  let pdu ← ctor Gen.Nas.layout_ULNASTransport (Nas.Ctor.ulReleaseRequest (psi8 pduId))
  let (ue, pdu) ← protect P ue pdu 2 false
  let sendMsg ← wrapperChecked E .GetUplinkNASTransport [.int ue.amfUeNgapId, .int ue.ctx.ranUeNgapId, .octs pdu]
  write sendMsg
  let sendMsg ← wrapperChecked E .GetPDUSessionResourceReleaseResponse [.int ue.amfUeNgapId, .int ue.ctx.ranUeNgapId, .int pduId]
  write sendMsg
  let sn ← match snssaiOf E cfg with
    | some s => pure s
    | none => stop .unmodelled
  let pdu ← ctor Gen.Nas.layout_ULNASTransport (Nas.Ctor.ulReleaseComplete (psi8 pduId) 1 internet (some sn))
  let (ue, pdu) ← protect P ue pdu 2 false
  let sendMsg ← wrapperChecked E .GetUplinkNASTransport [.int ue.amfUeNgapId, .int ue.ctx.ranUeNgapId, .octs pdu]
  write sendMsg
  pure ue.sec

/-! ### DeregisterUE -/

def deregisterUE (P : Prims) (E : Convert.Ext) (cfg : Cfg) (ue : Ue) : M UeSec := do
  let suci ← orTrap (Suci.encodeSuci (Suci.trimImsiPrefix ue.ctx.supi) cfg.mnc.length)
  -- GetDeregistrationRequest(nasMessage.AccessType3GPP, 0, 0x04, *mobileIdentity5GS)
  let pdu ← ctor Gen.Nas.layout_DeregistrationRequestUEOriginatingDeregistration
    (Nas.Ctor.deregistrationRequest 1 0 4 (suciVal suci))
  let (ue, pdu) ← protect P ue pdu 2 false
  let sendMsg ← wrapperChecked E .GetUplinkNASTransport [.int ue.amfUeNgapId, .int ue.ctx.ranUeNgapId, .octs pdu]
  write sendMsg
  let recv ← read
  let _ ← checked (ngapDecode recv)
  let recv ← read
  let _ ← checked (ngapDecode recv)
  let sendMsg ← wrapperChecked E .GetUEContextReleaseComplete [.int ue.amfUeNgapId, .int ue.ctx.ranUeNgapId, .nil]
  write sendMsg
  pure ue.sec

/-! ### test mode of `main` -/

/-- `for i := 0; i < n; i++ { f(ueList[i]) }`: the procedures after registration change the context behind the pointer only
    through `NASEncode` (the NAS security state); `ueList[i]` beyond the list is an index panic -/
def forUes (f : Ue → M UeSec) : Nat → Nat → List Ue → M (List Ue)
  | 0, _, ues => pure ues
  | n + 1, i, ues =>
    match ues[i]? with
    | none => stop .panic
    | some ue => do
      let sec ← f ue
      forUes f n (i + 1) (ues.set i { ue with sec := sec })

/-- `for i := 0; i < n; i++ { ue := CreateUE(imsi, i, …); ue, pdu, _ := RegisterUE(ue, …); ueList = append(ueList, ue) }` -/
def registerLoop (P : Prims) (E : Convert.Ext) (cfg : Cfg) : Nat → Nat → List Ue → M (List Ue)
  | 0, _, ues => pure ues
  | n + 1, i, ues => do
    let ue := createUE cfg i
    let r ← registerUE P E cfg ue
    registerLoop P E cfg n (i + 1) (ues ++ [{ ue with amfUeNgapId := r.amfUeNgapId, kamf := r.kamf, sec := r.sec }])

/-- the loop bounds of test mode -/
structure Numbers where
  establish : Int
  service : Int
  release : Int
  deregister : Int
  deriving DecidableEq, Repr

/-- the four clamps as one reads them in stg-utg.go (`pdu_establishment_number := Min(reg, pdu)`, `service_request_number :=
    Min(pdu_establishment_number, svc)`, …): the EXPECTED bounds; `Props.C02.C02_generated_bounds` proves that the bounds
    `gen script` extracts from the source on every run are these -/
def numbers (reg pdu svc rel dereg : Int) : Numbers :=
  let pe := FailStop.goMin reg pdu
  { establish := pe, service := FailStop.goMin pe svc, release := FailStop.goMin pe rel, deregister := FailStop.goMin reg dereg }

/-- the bound of the `for i := 0; i < bound; i++` loop of `main`'s test-mode branch that calls `proc`, as extracted from
    stg-utg.go by `gen script` (Gen/Script.lean, regenerated on every check; variables are inlined, so the bound is an
    expression in the configuration fields and `stgutg.Min`). No such loop: the field "" (evaluates to 0). -/
def loopBound (proc : String) : FailStop.CountExpr :=
  (Gen.Script.main.findSome? fun
    | .loop b body => if body.any (fun st => match st with | .call p _ => p == proc | _ => false) then some b else none
    | _ => none).getD (.cfg "")

def countsOf (cfg : Cfg) : FailStop.Counts := { reg := cfg.reg, pdu := cfg.pdu, svc := cfg.svc, rel := cfg.rel, dereg := cfg.dereg }

/-- the loop bounds test mode actually uses: the generated expressions evaluated on the configuration -/
def genNumbers (c : FailStop.Counts) : Numbers :=
  { establish := (loopBound "EstablishPDU").eval c, service := (loopBound "ServiceRequest").eval c,
    release := (loopBound "ReleasePDU").eval c, deregister := (loopBound "DeregisterUE").eval c }

def genRegistrations (c : FailStop.Counts) : Int := (loopBound "RegisterUE").eval c

def testMode (P : Prims) (E : Convert.Ext) (cfg : Cfg) : M Unit := do
  let n := genNumbers (countsOf cfg)
  manageNGSetup E cfg
  let ues ← registerLoop P E cfg (genRegistrations (countsOf cfg)).toNat 0 []
  let ues ← forUes (establishPDU P E cfg) n.establish.toNat 0 ues
  let ues ← forUes (serviceRequest P E cfg) n.service.toNat 0 ues
  let ues ← forUes (releasePDU P E cfg) n.release.toNat 0 ues
  let _ ← forUes (deregisterUE P E cfg) n.deregister.toNat 0 ues

/-- `for i := 0; i < n; i++ { proc(ue) }` on ONE context (not a loop of `main`: the long-history scenario of the
    correspondence harness, which calls a procedure repeatedly for the same UE to drive the NAS COUNT beyond 255) -/
def repeatUe (f : Ue → M UeSec) : Nat → Ue → M Ue
  | 0, ue => pure ue
  | n + 1, ue => do
    let sec ← f ue
    repeatUe f n { ue with sec := sec }

/-- the long-history scenario: NG Setup, registration of UE 0, then `cfg.pdu` calls of `EstablishPDU` for it -/
def histMode (P : Prims) (E : Convert.Ext) (cfg : Cfg) : M Unit := do
  manageNGSetup E cfg
  let ue := createUE cfg 0
  let r ← registerUE P E cfg ue
  let _ ← repeatUe (establishPDU P E cfg) cfg.pdu.toNat { ue with amfUeNgapId := r.amfUeNgapId, kamf := r.kamf, sec := r.sec }

/-- how the process ends: 0 after the banner, 1, 2, or never -/
inductive Outcome where
  | completed | exit1 | panic | blocked | hang | unmodelled
  deriving DecidableEq, Repr

structure Transcript where
  uls : List Bytes
  reports : List Report
  outcome : Outcome
  deriving Repr

def transcriptOf (r : World × Except Stop Unit) : Transcript :=
  { uls := r.1.ulsRev.reverse, reports := r.1.reportsRev.reverse,
    outcome := match r.2 with
      | .ok _ => .completed
      | .error .exit1 => .exit1
      | .error .panic => .panic
      | .error .blocked => .blocked
      | .error .hang => .hang
      | .error .unmodelled => .unmodelled }

def emulate (P : Prims) (E : Convert.Ext) (cfg : Cfg) (dls : List Bytes) : Transcript :=
  transcriptOf (testMode P E cfg { dls := dls })

def emulateHist (P : Prims) (E : Convert.Ext) (cfg : Cfg) (dls : List Bytes) : Transcript :=
  transcriptOf (histMode P E cfg { dls := dls })

end Stgutg.Model.Emulator
