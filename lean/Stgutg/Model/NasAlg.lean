/-
  Hand model of src/free5gclib/nas/security/security.go
  (NASEncrypt, NASMacCalculate, NEA1, NEA2, NIA1, NIA2, mulx, mulxPow, mul).
-/
import Stgutg.Base.Prims
import Stgutg.Base.Words
import Stgutg.Model.Snow3g

namespace Stgutg.Model.NasAlg
open Stgutg.Model

/-- `k[i] = BigEndian.Uint32(ck[4*(3-i) : 4*(3-i+1)])` for i = 0..3; key must have 16 octets (it is a `[16]byte`). -/
def keyWords (ck : Bytes) : UInt32 × UInt32 × UInt32 × UInt32 :=
  (be32 ((ck.drop 12).take 4), be32 ((ck.drop 8).take 4), be32 ((ck.drop 4).take 4), be32 (ck.take 4))

/-- Go `1 << n` on uint32 with a variable count: 0 when n ≥ 32. -/
def shl32 (x : UInt32) (n : Nat) : UInt32 := if n ≥ 32 then 0 else x <<< (UInt32.ofNat n)

/-- `ks[l-1] &= ^((1 << (32 - r)) - 1)` guarded by `r != 0` (the guard is the F2 repair). -/
def maskLast (r : Nat) (ks : List UInt32) : List UInt32 :=
  if r = 0 then ks else
  match ks.getLast? with
  | none => ks
  | some w => ks.dropLast ++ [w &&& ~~~(shl32 1 (32 - r) - 1)]

/-- the two xor loops: whole words, then `(r+7)/8` octets of the last word. -/
def xorWords : List UInt32 → Bytes → Bytes
  | [], _ => []
  | w :: ws, ibs => List.zipWith (· ^^^ ·) (ibs.take 4) (u32Bytes w) ++ xorWords ws (ibs.drop 4)

def nea1 (ck : Bytes) (count bearer dir : UInt32) (ibs : Bytes) : Res Bytes :=
  let (k0, k1, k2, k3) := keyWords ck
  let iv0 := (bearer <<< 27) ||| (dir <<< 26)
  let st := Snow3g.initSnow3g k0 k1 k2 k3 iv0 count iv0 count
  let length := 8 * ibs.length
  let l := (length + 31) / 32
  let r := length % 32
  let ks := (Snow3g.generateKeystream l st).1
  .ok (xorWords (maskLast r ks) ibs)

def counterPrefix (count : UInt32) (bearer dir : UInt8) : Bytes :=
  u32Bytes count ++ [(bearer <<< 3) ||| (dir <<< 2)]

def nea2 (P : Prims) (key : Bytes) (count : UInt32) (bearer dir : UInt8) (ibs : Bytes) : Res Bytes :=
  .ok (P.ctr key (counterPrefix count bearer dir ++ List.replicate 11 0) ibs)

def mulx64 (v c : UInt64) : UInt64 :=
  if v &&& 0x8000000000000000 != 0 then (v <<< 1) ^^^ c else v <<< 1

def mulxPow64 (v : UInt64) (i : Nat) (c : UInt64) : UInt64 :=
  match i with
  | 0 => v
  | n + 1 => mulx64 (mulxPow64 v n c) c

def mul64 (v p c : UInt64) : UInt64 :=
  (List.range 64).foldl (fun rst i => if (p >>> (UInt64.ofNat i)) &&& 1 == 1 then rst ^^^ mulxPow64 v i c else rst) 0

/-- the loop over the D-2 full blocks followed by the zero-padded last block -/
def evalBlocks (p : UInt64) : Nat → UInt64 → Bytes → UInt64
  | 0, ev, _ => ev
  | fuel + 1, ev, msg =>
    if msg.length ≤ 8 then
      mul64 (ev ^^^ be64 (msg ++ List.replicate (8 - msg.length) 0)) p 0x1b
    else
      evalBlocks p fuel (mul64 (ev ^^^ be64 (msg.take 8)) p 0x1b) (msg.drop 8)

def nia1 (ik : Bytes) (count : UInt32) (bearer : UInt8) (dir : UInt32) (msg : Bytes) : Res Bytes :=
  if msg.isEmpty then .error .panic else    -- D-2 underflows, `BigEndian.Uint64` of an empty slice panics
  let fresh := bearer.toUInt32 <<< 27
  let (k0, k1, k2, k3) := keyWords ik
  let st := Snow3g.initSnow3g k0 k1 k2 k3 (fresh ^^^ (dir <<< 15)) (count ^^^ (dir <<< 31)) fresh count
  match (Snow3g.generateKeystream 5 st).1 with
  | [z0, z1, z2, z3, z4] =>
    let p := (z0.toUInt64 <<< 32) ||| z1.toUInt64
    let q := (z2.toUInt64 <<< 32) ||| z3.toUInt64
    let ev := evalBlocks p (msg.length / 8 + 1) 0 msg
    let ev := ev ^^^ UInt64.ofNat (8 * msg.length)
    let ev := mul64 ev q 0x1b
    .ok (u32Bytes ((ev >>> 32).toUInt32 ^^^ z4))
  | _ => .error .panic

def nia2 (P : Prims) (key : Bytes) (count : UInt32) (bearer dir : UInt8) (msg : Bytes) : Res Bytes :=
  .ok ((P.cmac key (counterPrefix count bearer dir ++ [0, 0, 0] ++ msg)).take 4)

/-- `NASEncrypt(AlgoID, KnasEnc, Count, Bearer, Direction, payload)` — result is the payload afterwards. -/
def nasEncrypt (P : Prims) (alg : UInt8) (key : Bytes) (count : UInt32) (bearer dir : UInt8)
    (payload : Bytes) : Res Bytes :=
  if bearer > 0x1f then .error .error
  else if dir > 1 then .error .error
  else match alg with
    | 0 => .ok payload
    | 1 => nea1 key count bearer.toUInt32 dir.toUInt32 payload
    | 2 => nea2 P key count bearer dir payload
    | _ => .error .error

/-- `NASMacCalculate`; NIA0 returns `nil, nil` (modelled as the empty MAC). -/
def nasMac (P : Prims) (alg : UInt8) (key : Bytes) (count : UInt32) (bearer dir : UInt8)
    (msg : Bytes) : Res Bytes :=
  if bearer > 0x1f then .error .error
  else if dir > 1 then .error .error
  else match alg with
    | 0 => .ok []
    | 1 => nia1 key count bearer dir.toUInt32 msg
    | 2 => nia2 P key count bearer dir msg
    | _ => .error .error

end Stgutg.Model.NasAlg
