/-
  Hand model of the generated NAS codec (C08/C09): the semantics of the write/read statement shapes
  of src/free5gclib/nas/nasMessage/NAS_*.go over `bytes.Buffer` + `encoding/binary`, generic in the
  `Layout` extracted by `gen naslayout`, and of the glue in src/free5gclib/nas/nas.go
  (`PlainNasEncode` / `PlainNasDecode`, message-type dispatch).  Tied to the Go code by `corr nas-rt`.

  Behaviour mirrored (found by reading encoding/binary of Go 1.23 and by the correspondence run):
  * `binary.Read` of n octets with fewer than n left consumes what is left, reports an error that the
    generated code ignores and leaves the destination unchanged (a fresh struct: zeros);
  * `X.Octet[:X.GetLen()]` / `X.Buffer[:X.GetLen()]` panic when `Len` exceeds the capacity;
  * the bytes written for `&X.Buffer` are the whole `Buffer`, whatever `Len` says; `&X.Octet` writes the
    whole array; the length octets written are the `Len` field;
  * in the decode loop an octet that matches no `case` is consumed and the loop continues;
  * `ieiN >= 0x80` → the switch sees the high nibble.
  Core Lean only.
-/
import Stgutg.Model.NasLayout
namespace Stgutg.Nas

/-- value of one nasType IE struct: `Iei`, `Len` (0 when the struct has no such field) and the
    payload: `[Octet]`, the `Octet` array, or `Buffer` (nil ≡ empty). -/
structure Val where
  iei : Nat := 0
  len : Nat := 0
  data : Bytes := []
  deriving DecidableEq, Repr, Inhabited

instance instDecidableEqRes {α : Type} [DecidableEq α] : DecidableEq (Res α)
  | .ok a, .ok b => if h : a = b then isTrue (by rw [h]) else isFalse (fun h' => by cases h'; exact h rfl)
  | .error a, .error b => if h : a = b then isTrue (by rw [h]) else isFalse (fun h' => by cases h'; exact h rfl)
  | .ok _, .error _ => isFalse (fun h => by cases h)
  | .error _, .ok _ => isFalse (fun h => by cases h)

/-- value of a nasMessage struct: one entry per embedded field, `none` = nil pointer -/
abbrev Msg := List (Option Val)

def Body.size : Body → Nat
  | .none => 0 | .octet => 1 | .arr n => n | .buf => 0

/-- Go zero value -/
def Shape.zero (s : Shape) : Val := { iei := 0, len := 0, data := List.replicate s.body.size 0 }

/-- big-endian `Len` field as written by `binary.Write` (`uint8` / `uint16`) -/
def lenBytes (w n : Nat) : Bytes :=
  match w with
  | 1 => [UInt8.ofNat n]
  | 2 => [UInt8.ofNat (n / 256), UInt8.ofNat n]
  | _ => []

def lenOfBytes : Bytes → Nat
  | [a] => a.toNat
  | [a, b] => a.toNat * 256 + b.toNat
  | _ => 0

/-! ### encode -/

def wop (s : Shape) (v : Val) : WOp → Res Bytes
  | .iei => .ok [UInt8.ofNat v.iei]
  | .len => .ok (lenBytes s.lenW v.len)
  | .octet => .ok v.data
  | .buf => .ok v.data
  | .octetLen => if v.len ≤ v.data.length then .ok (v.data.take v.len) else .error .panic
  | .raw => .ok []

def encIE (s : Shape) (v : Val) : List WOp → Res Bytes
  | [] => .ok []
  | op :: ops =>
    match wop s v op with
    | .error e => .error e
    | .ok a =>
      match encIE s v ops with
      | .error e => .error e
      | .ok b => .ok (a ++ b)

/-- the statement groups of `Encode<Msg>`; `opt` = inside `if a.X != nil { … }` -/
def encGroups (fields : List Field) (m : Msg) (opt : Bool) : List (Nat × List WOp) → Res Bytes
  | [] => .ok []
  | (i, ops) :: gs =>
    match fields[i]?, m[i]? with
    | some f, some (some v) =>
      match encIE f.shape v ops with
      | .error e => .error e
      | .ok a =>
        match encGroups fields m opt gs with
        | .error e => .error e
        | .ok b => .ok (a ++ b)
    | some _, some none =>
      -- a nil pointer is skipped by the `if`; an unconditional access would dereference it
      if opt then encGroups fields m opt gs else .error .panic
    | _, _ => .error .panic

/-- `Encode<Msg>` -/
def encode (L : Layout) (m : Msg) : Res Bytes :=
  match encGroups L.fields m false L.encMand with
  | .error e => .error e
  | .ok a =>
    match encGroups L.fields m true L.encOpt with
    | .error e => .error e
    | .ok b => .ok (a ++ b)

/-! ### decode -/

/-- `binary.Read` of `n` octets from a `bytes.Buffer`: `none` = short read (everything consumed) -/
def readN (n : Nat) (rest : Bytes) : Option Bytes × Bytes :=
  if n ≤ rest.length then (some (rest.take n), rest.drop n) else (none, [])

/-- `nasType.NewX(ieiN)` -/
def newVal (s : Shape) (ieiN : UInt8) : Val :=
  let z := s.zero
  if s.newSetsIei then
    if s.hasIei then { z with iei := ieiN.toNat }
    else if s.ieiNibble then { z with data := [UInt8.ofNat (ieiN.toNat % 16 * 16)] }
    else z
  else z

def rop (s : Shape) (ieiN : UInt8) (v : Val) (rest : Bytes) : ROp → Res (Val × Bytes)
  | .new => .ok (newVal s ieiN, rest)
  | .setOctet => .ok ({ v with data := [ieiN] }, rest)
  | .lenSet =>
    let (r, rest') := readN s.lenW rest
    let len := match r with
      | some bs => lenOfBytes bs
      | none => v.len
    -- SetLen: stores the field; `Buffer` shapes allocate `make([]uint8, Len)`
    .ok ({ v with len := len, data := if s.body = .buf then List.replicate len 0 else v.data }, rest')
  | .octet =>
    let (r, rest') := readN s.body.size rest
    .ok (match r with
      | some bs => { v with data := bs }
      | none => v, rest')
  | .bufPtr =>
    let (r, rest') := readN v.data.length rest
    .ok (match r with
      | some bs => { v with data := bs }
      | none => v, rest')
  | .bufLen | .octetLen =>
    if v.len ≤ v.data.length then
      let (r, rest') := readN v.len rest
      .ok (match r with
        | some bs => { v with data := bs ++ v.data.drop v.len }
        | none => v, rest')
    else .error .panic
  | .raw => .ok (v, rest)

def decOps (s : Shape) (ieiN : UInt8) : List ROp → Val → Bytes → Res (Val × Bytes)
  | [], v, rest => .ok (v, rest)
  | op :: ops, v, rest =>
    match rop s ieiN v rest op with
    | .error e => .error e
    | .ok (v', rest') => decOps s ieiN ops v' rest'

/-- reads before the loop: every group fills the (fresh, zero) embedded struct of its field -/
def decMand (fields : List Field) : List (Nat × List ROp) → Bytes → Res (List (Nat × Val) × Bytes)
  | [], rest => .ok ([], rest)
  | (i, ops) :: gs, rest =>
    match fields[i]? with
    | none => .error .panic
    | some f =>
      match decOps f.shape 0 ops f.shape.zero rest with
      | .error e => .error e
      | .ok (v, rest') =>
        match decMand fields gs rest' with
        | .error e => .error e
        | .ok (tr, rest'') => .ok ((i, v) :: tr, rest'')

/-- the value `switch tmpIeiN` sees -/
def tmpIei (b : UInt8) : Nat := if b.toNat ≥ 128 then b.toNat / 16 else b.toNat

/-- `for buffer.Len() > 0 { … }`: the trace of (field, value) assignments in the order they happen.
    `fuel` bounds the iterations (each consumes at least the IEI octet; `decode` passes the length). -/
def decLoop (L : Layout) : Nat → Bytes → Res (List (Nat × Val))
  | _, [] => .ok []
  | 0, _ :: _ => .error .hang
  | fuel + 1, b :: rest =>
    match L.cases.find? (fun c => c.iei == tmpIei b) with
    | none => decLoop L fuel rest
    | some c =>
      match L.fields[c.slot]? with
      | none => .error .panic
      | some f =>
        match decOps f.shape b c.ops f.shape.zero rest with
        | .error e => .error e
        | .ok (v, rest') =>
          match decLoop L fuel rest' with
          | .error e => .error e
          | .ok tr => .ok ((c.slot, v) :: tr)

/-- `New<Msg>()`: embedded structs are zero, pointers nil -/
def initMsg (L : Layout) : Msg := L.fields.map fun f => if f.ptr then none else some f.shape.zero

/-- the assignments applied in order (a later assignment to the same field replaces the earlier) -/
def assign (m : Msg) (tr : List (Nat × Val)) : Msg := tr.foldl (fun m p => m.set p.1 (some p.2)) m

/-- `Decode<Msg>` on a fresh `New<Msg>()` -/
def decode (L : Layout) (bytes : Bytes) : Res Msg :=
  match decMand L.fields L.decMand bytes with
  | .error e => .error e
  | .ok (tr₁, rest) =>
    match decLoop L rest.length rest with
    | .error e => .error e
    | .ok tr₂ => .ok (assign (initMsg L) (tr₁ ++ tr₂))

/-! ### nas.go: `nas.Message` with exactly one of GmmMessage / GsmMessage and one embedded message -/

structure PlainMsg where
  /-- `GsmMessage != nil` (else `GmmMessage != nil`) -/
  gsm : Bool
  /-- `GmmHeader.Octet` / `GsmHeader.Octet` -/
  hdr : Bytes
  /-- which embedded `*nasMessage.X` is non-nil (index into `layouts`) -/
  idx : Nat
  body : Msg
  deriving DecidableEq, Repr

structure Codec where
  layouts : List Layout
  gmm : Dispatch
  gsm : Dispatch

/-- `PlainNasEncode` -/
def plainEncode (C : Codec) (pm : PlainMsg) : Res Bytes :=
  let d := if pm.gsm then C.gsm else C.gmm
  match pm.hdr[d.typeIdx]? with
  | none => .error .panic
  | some t =>
    match d.enc.lookup t.toNat with
    | none => .error .error
    | some i =>
      -- `a.GmmMessage.EncodeX(buffer)` on a nil embedded `*X` dereferences nil
      if i ≠ pm.idx then .error .panic else
      match C.layouts[i]? with
      | none => .error .panic
      | some L => encode L pm.body

/-- `PlainNasDecode` -/
def plainDecode (C : Codec) (bytes : Bytes) : Res PlainMsg :=
  match bytes with
  | [] => .error .panic                      -- GetEPD: byteArray[0]
  | epd :: _ =>
    let go (gsm : Bool) (d : Dispatch) : Res PlainMsg :=
      let hdr := match (readN d.hdrLen bytes).1 with
        | some h => h
        | none => List.replicate d.hdrLen 0
      match hdr[d.typeIdx]? with
      | none => .error .panic
      | some t =>
        match d.dec.lookup t.toNat with
        | none => .error .error
        | some i =>
          match C.layouts[i]? with
          | none => .error .panic
          | some L =>
            match decode L bytes with
            | .error e => .error e
            | .ok m => .ok { gsm := gsm, hdr := hdr, idx := i, body := m }
    if epd.toNat = C.gmm.epd then go false C.gmm
    else if epd.toNat = C.gsm.epd then go true C.gsm
    else .error .error

end Stgutg.Nas
