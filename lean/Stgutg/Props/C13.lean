/- C13 property theorems (under construction) -/
import Stgutg.Model.Builders
namespace Stgutg.Props.C13
end Stgutg.Props.C13
