/-
  C13 — gNB-side NGAP messages carry the caller's values and all mandatory IEs.

  Model: Stgutg.Model.Builders (hand templates for the 14 wrappers of packet.go and the 15 builders around them) and
  Stgutg.Gen.Templates (probed templates for the other 35 builders), over the NGAP schema regenerated from /repo.
  Specification: Stgutg.Spec.Ts38413 (procedure codes, message classes, mandatory IE tables, identifier ranges) and the
  reference IE walker Stgutg.Spec.NgapView. Helper lemmas: Stgutg/Proofs/Builders.lean.

  Every theorem is about `build E t plmn args` for ALL arguments `args`, ALL `TestPlmn` states `plmn` and ALL externals
  `E` (net.ParseIP, hex.DecodeString): "whenever the builder returns a PDU, then …".
-/
import Stgutg.Proofs.Builders

namespace Stgutg.Props.C13
open Stgutg Stgutg.Aper Stgutg.Builders Stgutg.Spec.NgapView Stgutg.Spec.Ts38413 Stgutg.Model.Convert
open Stgutg.Proofs.Builders

set_option maxRecDepth 1000000 in
/-- table fact (kernel evaluation over the hand-written and the regenerated probed templates) -/
theorem class_table : allTable.all classOK = true := by decide +kernel

/-- **C13_class**: every PDU a builder returns is the NGAP-PDU alternative (initiating message / successful outcome /
    unsuccessful outcome) and carries the procedure code that TS 38.413 clause 9.4.3 / 9.4.7 give for its message. -/
theorem C13_class (E : Ext) (t : Template) (ht : t ∈ allTable) (plmn : Bytes) (args : List Val) (pdu : Val)
    (h : Shaped E t plmn args pdu) :
    pduPresent pdu = some ((msgClass t.message).index + 1) ∧ pduProc pdu = some (procCode t.message : Int) := by
  obtain ⟨tm, htm, hp⟩ := h
  have hT := List.all_eq_true.mp class_table t ht
  have hS := List.all_eq_true.mp hT tm htm
  simp only [Bool.and_eq_true, decide_eq_true_eq] at hS
  subst hp
  exact ⟨pduPresent_eval E _ _ tm _ hS.1, pduProc_eval E _ _ tm _ hS.2⟩

set_option maxRecDepth 1000000 in
theorem mandatory_table : allTable.all mandOK = true := by decide +kernel

/-- **C13_mandatory**: for the messages the emulator sends (those with a transcribed clause 9.2 table), every IE with
    presence M is in the PDU the builder returns, with the criticality the standard assigns. `hs` is the list of
    (IE id, criticality) of ALL IEs of the PDU, in order. -/
theorem C13_mandatory (E : Ext) (t : Template) (ht : t ∈ allTable) (ms : List (Nat × Nat)) (hm : mandatory t.message = some ms)
    (plmn : Bytes) (args : List Val) (pdu : Val) (h : Shaped E t plmn args pdu) :
    ∃ hs : List (Int × Nat), headers pdu = some (hs.map some) ∧ ∀ m ∈ ms, ((m.1 : Int), m.2) ∈ hs := by
  obtain ⟨tm, htm, hp⟩ := h
  have hT := List.all_eq_true.mp mandatory_table t ht
  unfold mandOK at hT
  rw [hm] at hT
  have hS := List.all_eq_true.mp hT tm htm
  cases hh : Tm.headers tm with
  | none => simp [hh] at hS
  | some hs =>
    simp only [hh] at hS
    refine ⟨hs, ?_, ?_⟩
    · subst hp; exact headers_eval E _ _ tm hs hh
    · intro m hmem
      have := List.all_eq_true.mp hS m hmem
      simpa using this


set_option maxRecDepth 1000000 in
theorem amf_table : allTable.all amfOK = true := by decide +kernel
set_option maxRecDepth 1000000 in
theorem ran_table : allTable.all ranOK = true := by decide +kernel
set_option maxRecDepth 1000000 in
theorem nas_table : allTable.all nasOK = true := by decide +kernel
set_option maxRecDepth 1000000 in
theorem psi_table : allTable.all psiOK = true := by decide +kernel
set_option maxRecDepth 1000000 in
theorem psilist_table : allTable.all psiListOK = true := by decide +kernel
set_option maxRecDepth 1000000 in
theorem name_table : allTable.all nameOK = true := by decide +kernel
set_option maxRecDepth 1000000 in
theorem gnb_table : allTable.all gnbOK = true := by decide +kernel
set_option maxRecDepth 1000000 in
theorem ip_table : allTable.all ipOK = true := by decide +kernel


theorem effEnv_arg (t : Template) (plmn : Bytes) (args : List Val) (i : Nat) (a : Val) (ha : args[i]? = some a) :
    (effEnv t plmn args).arg i = a := by
  simp [effEnv, BEnv.arg, ha]

/-- **C13_carries (AMF-UE-NGAP-ID)**: a builder that takes an AMF-UE-NGAP-ID returns a PDU with exactly one
    AMF UE NGAP ID IE (Source AMF UE NGAP ID in PATH SWITCH REQUEST) whose value is the argument. -/
theorem C13_carries_amf (E : Ext) (t : Template) (ht : t ∈ allTable) (i : Nat) (hi : roleIdx t .amf = some i)
    (plmn : Bytes) (args : List Val) (pdu : Val) (h : Shaped E t plmn args pdu) (a : Val) (ha : args[i]? = some a) :
    ∃ v, ieValuesById pdu (amfIe t.message : Int) = some [some v] ∧ Val.at [0] v = some a := by
  obtain ⟨tm, htm, hp⟩ := h
  have hT := List.all_eq_true.mp amf_table t ht
  unfold amfOK at hT
  rw [hi] at hT
  have hS := List.all_eq_true.mp hT tm htm
  obtain ⟨v, h1, h2⟩ := carriesHole_sound E (effEnv t plmn args) .nil tm _ _ _ hS
  subst hp
  exact ⟨v, h1, by rw [h2]; simp [evalHole, effEnv_arg t plmn args i a ha]⟩

/-- **C13_carries (RAN-UE-NGAP-ID)** -/
theorem C13_carries_ran (E : Ext) (t : Template) (ht : t ∈ allTable) (i : Nat) (hi : roleIdx t .ran = some i)
    (plmn : Bytes) (args : List Val) (pdu : Val) (h : Shaped E t plmn args pdu) (a : Val) (ha : args[i]? = some a) :
    ∃ v, ieValuesById pdu (ieRANUENGAPID : Int) = some [some v] ∧ Val.at [0] v = some a := by
  obtain ⟨tm, htm, hp⟩ := h
  have hT := List.all_eq_true.mp ran_table t ht
  unfold ranOK at hT
  rw [hi] at hT
  have hS := List.all_eq_true.mp hT tm htm
  obtain ⟨v, h1, h2⟩ := carriesHole_sound E (effEnv t plmn args) .nil tm _ _ _ hS
  subst hp
  exact ⟨v, h1, by rw [h2]; simp [evalHole, effEnv_arg t plmn args i a ha]⟩

/-- **C13_carries (NAS-PDU)**: exactly one NAS-PDU IE whose octets are the argument (a nil slice is the empty string);
    only a builder whose control flow tests the argument (`i ∈ t.dims`: PDU SESSION RESOURCE RELEASE COMMAND, `if nasPdu != nil`)
    may leave the IE out instead. -/
theorem C13_carries_nas (E : Ext) (t : Template) (ht : t ∈ allTable) (i : Nat) (hi : roleIdx t .nas = some i)
    (plmn : Bytes) (args : List Val) (pdu : Val) (h : Shaped E t plmn args pdu) (a : Val) (ha : args[i]? = some a) :
    (∃ v, ieValuesById pdu (ieNASPDU : Int) = some [some v] ∧ Val.at [0] v = some (.octs (bytesOf a))) ∨
    (i ∈ t.dims ∧ ieValuesById pdu (ieNASPDU : Int) = some []) := by
  obtain ⟨tm, htm, hp⟩ := h
  have hT := List.all_eq_true.mp nas_table t ht
  unfold nasOK at hT
  rw [hi] at hT
  have hS := List.all_eq_true.mp hT tm htm
  simp only [Bool.or_eq_true, Bool.and_eq_true] at hS
  subst hp
  rcases hS with hS | ⟨hd, hS⟩
  · obtain ⟨v, h1, h2⟩ := carriesHole_sound E (effEnv t plmn args) .nil tm _ _ _ hS
    exact .inl ⟨v, h1, by rw [h2]; simp [evalHole, effEnv_arg t plmn args i a ha]⟩
  · exact .inr ⟨by simpa using hd, lacksIE_sound E _ _ tm _ hS⟩

/-- **C13_carries (PDU session id)**: the first item of the setup / released list of the response starts with the
    PDU Session ID the caller gave (`Val.at [0,0,0,0]`: list container → list → item 0 → PDUSessionID → value). -/
theorem C13_carries_psi (E : Ext) (t : Template) (ht : t ∈ allTable) (i : Nat) (hi : roleIdx t .psi = some i)
    (plmn : Bytes) (args : List Val) (pdu : Val) (h : Shaped E t plmn args pdu) (a : Val) (ha : args[i]? = some a) :
    ∃ id v, psiItemIe t.message = some id ∧ ieValuesById pdu (id : Int) = some [some v] ∧ Val.at [0, 0, 0, 0] v = some a := by
  obtain ⟨tm, htm, hp⟩ := h
  have hT := List.all_eq_true.mp psi_table t ht
  unfold psiOK at hT
  rw [hi] at hT
  cases hid : psiItemIe t.message with
  | none => simp [hid] at hT
  | some id =>
    simp only [hid] at hT
    have hS := List.all_eq_true.mp hT tm htm
    obtain ⟨v, h1, h2⟩ := carriesHole_sound E (effEnv t plmn args) .nil tm _ _ _ hS
    subst hp
    exact ⟨id, v, rfl, h1, by rw [h2]; simp [evalHole, effEnv_arg t plmn args i a ha]⟩

/-- **C13_carries (RAN node name)** (the NG Setup wrapper) -/
theorem C13_carries_name (E : Ext) (t : Template) (ht : t ∈ allTable) (i : Nat) (hi : roleIdx t .name = some i)
    (plmn : Bytes) (args : List Val) (pdu : Val) (h : Shaped E t plmn args pdu) (a : Val) (ha : args[i]? = some a) :
    ∃ v, ieValuesById pdu (ieRANNodeName : Int) = some [some v] ∧ Val.at [0] v = some (.str (bytesOf a)) := by
  obtain ⟨tm, htm, hp⟩ := h
  have hT := List.all_eq_true.mp name_table t ht
  unfold nameOK at hT
  rw [hi] at hT
  have hS := List.all_eq_true.mp hT tm htm
  obtain ⟨v, h1, h2⟩ := carriesHole_sound E (effEnv t plmn args) .nil tm _ _ _ hS
  subst hp
  exact ⟨v, h1, by rw [h2]; simp [evalHole, effEnv_arg t plmn args i a ha]⟩


theorem cls_psilist_slice (E : Ext) (xs : List Val) : cls E .psilist (.slice xs) ≠ 0 := by
  cases xs <;> simp [cls]

/-- **C13_carries (PDU session id list)**: UE CONTEXT RELEASE COMPLETE / REQUEST built from a non-nil list carry exactly one
    PDU Session Resource List whose items are the caller's ids, in order; built from a nil list they carry none. -/
theorem C13_carries_psilist (E : Ext) (t : Template) (ht : t ∈ allTable) (i : Nat) (hi : roleIdx t .psilist = some i)
    (plmn : Bytes) (args : List Val) (pdu : Val) (h : build E t plmn args = .ok pdu) :
    ∃ id, psiListIe t.message = some id ∧
      (∀ xs, args[i]? = some (.slice xs) →
        ieValuesById pdu (id : Int) = some [some (.struct [.slice (xs.map fun x => .struct [.struct [x], .nil])])]) ∧
      (args[i]? = some .nil → ieValuesById pdu (id : Int) = some []) := by
  obtain ⟨c, hc, tm, hcls, hout, _, hp⟩ := build_ok E t plmn args pdu h
  have hT := List.all_eq_true.mp psilist_table t ht
  unfold psiListOK at hT
  rw [hi] at hT
  cases hid : psiListIe t.message with
  | none => simp [hid] at hT
  | some id =>
    simp only [hid, Bool.and_eq_true, beq_iff_eq] at hT
    obtain ⟨⟨hdims, hrole⟩, hcases⟩ := hT
    have hC := List.all_eq_true.mp hcases c hc
    rw [hout] at hC
    dsimp only at hC
    have hclass : c.cls = [cls E .psilist ((effEnv t plmn args).arg i)] := by
      rw [hcls]; simp [classes, hdims, hrole]
    subst hp
    refine ⟨id, rfl, ?_, ?_⟩
    · intro xs ha
      have harg := effEnv_arg t plmn args i _ ha
      have hne : ¬ c.cls = [0] := by
        rw [hclass, harg]
        have := cls_psilist_slice E xs
        simp [this]
      rw [if_neg hne] at hC
      exact carriesList_sound E (effEnv t plmn args) .nil tm _ i xs harg hC
    · intro ha
      have harg := effEnv_arg t plmn args i _ ha
      have heq : c.cls = [0] := by
        rw [hclass, harg]; simp [cls]
      rw [if_pos heq] at hC
      exact lacksIE_sound E _ _ tm _ hC

/-- **C13_carries (gNB id, NG SETUP REQUEST)**: the Global RAN Node ID holds the gNB id octets with the bit length the
    caller gave (`Val.at [1,0,1,1,0]`: GlobalGNBID alternative → GNBID field → gNB-ID alternative → BIT STRING). -/
theorem C13_carries_gnbid_ngsetup (E : Ext) (t : Template) (ht : t ∈ allTable) (i j : Nat)
    (hi : roleIdx t .gnbid = some i) (hj : roleIdx t .bitlen = some j)
    (plmn : Bytes) (args : List Val) (pdu : Val) (h : Shaped E t plmn args pdu)
    (g bl : Val) (hg : args[i]? = some g) (hb : args[j]? = some bl) :
    ∃ v, ieValuesById pdu (ieGlobalRANNodeID : Int) = some [some v] ∧
      Val.at [1, 0, 1, 1, 0] v = some (.bits (bytesOf g) (natOf bl)) := by
  obtain ⟨tm, htm, hp⟩ := h
  have hT := List.all_eq_true.mp gnb_table t ht
  unfold gnbOK at hT
  rw [hi, hj] at hT
  cases hcell : roleIdx t .cellid with
  | some k => simp [hcell] at hT
  | none =>
    simp only [hcell] at hT
    have hS := List.all_eq_true.mp hT tm htm
    obtain ⟨v, h1, h2⟩ := carriesHole_sound E (effEnv t plmn args) .nil tm _ _ _ hS
    subst hp
    exact ⟨v, h1, by rw [h2]; simp [evalHole, effEnv_arg t plmn args i g hg, effEnv_arg t plmn args j bl hb]⟩

/-- **C13_carries (gNB id and cell id, HANDOVER REQUIRED)**: the Target ID holds the gNB id as a BIT STRING of all its octets;
    the source-to-target transparent container is the encoding (`marshalTransfer 1413`, "valueExt") of a
    SourceNGRANNode-ToTargetNGRANNode-TransparentContainer whose target cell NR CGI is gNB id ++ cell id, 36 bits. -/
theorem C13_carries_gnbid_handover (E : Ext) (t : Template) (ht : t ∈ allTable) (i j : Nat)
    (hi : roleIdx t .gnbid = some i) (hj : roleIdx t .cellid = some j)
    (plmn : Bytes) (args : List Val) (pdu : Val) (h : build E t plmn args = .ok pdu)
    (g c : Val) (hg : args[i]? = some g) (hc : args[j]? = some c) :
    (∃ v, ieValuesById pdu (ieTargetID : Int) = some [some v] ∧
      Val.at [1, 0, 0, 1, 0, 1, 1, 0] v = some (.bits (bytesOf g) (8 * (bytesOf g).length))) ∧
    (∃ v b w, ieValuesById pdu (ieSourceToTargetTransparentContainer : Int) = some [some v] ∧ Val.at [0] v = some (.octs b) ∧
      marshalTransfer 1413 w = .ok b ∧ Val.at [3, 1, 0, 1, 0] w = some (.bits (bytesOf g ++ bytesOf c) 36)) := by
  obtain ⟨tm, htm, henc, hp⟩ := build_ok_skeleton E t plmn args pdu h
  have hT := List.all_eq_true.mp gnb_table t ht
  unfold gnbOK at hT
  rw [hi, hj] at hT
  cases hbl : roleIdx t .bitlen with
  | some k => simp [hbl] at hT
  | none =>
    simp only [hbl] at hT
    have hS := List.all_eq_true.mp hT tm htm
    simp only [Bool.and_eq_true] at hS
    obtain ⟨v, h1, h2⟩ := carriesHole_sound E (effEnv t plmn args) .nil tm _ _ _ hS.1
    obtain ⟨v', b, w, k1, k2, k3, k4⟩ := carriesEnc_sound E (effEnv t plmn args) .nil tm _ _ _ _ _ hS.2 henc
    subst hp
    refine ⟨⟨v, h1, ?_⟩, ⟨v', b, w, k1, k2, k3, ?_⟩⟩
    · rw [h2]; simp [evalHole, effEnv_arg t plmn args i g hg]
    · rw [k4]; simp [evalHole, effEnv_arg t plmn args i g hg, effEnv_arg t plmn args j c hc]

/-- **C13_carries (GTP transport address)**: the first item of the setup list holds octets `b` that are the encoding
    (`marshalTransfer 1360`, "valueExt") of a PDUSessionResourceSetupResponseTransfer `w` whose GTP tunnel transport layer
    address (`Val.at [0,0,1,0,0,0]`) is `IPAddressToNgap(ipv4, "")` — 32 bits, the four octets of `net.ParseIP(ipv4).To4()`. -/
theorem C13_carries_tla (E : Ext) (t : Template) (ht : t ∈ allTable) (i : Nat) (hi : roleIdx t .ip = some i)
    (plmn : Bytes) (args : List Val) (pdu : Val) (h : build E t plmn args = .ok pdu) :
    ∃ id v b w, psiItemIe t.message = some id ∧ ieValuesById pdu (id : Int) = some [some v] ∧
      Val.at [0, 0, 1] v = some (.octs b) ∧ marshalTransfer 1360 w = .ok b ∧
      Val.at [0, 0, 1, 0, 0, 0] w = some (evalHole E { plmn := plmn, args := args } .nil (.ip4 i)) := by
  obtain ⟨tm, htm, henc, hp⟩ := build_ok_skeleton E t plmn args pdu h
  have hT := List.all_eq_true.mp ip_table t ht
  unfold ipOK at hT
  rw [hi] at hT
  cases hid : psiItemIe t.message with
  | none => simp [hid] at hT
  | some id =>
    simp only [hid] at hT
    have hS := List.all_eq_true.mp hT tm htm
    obtain ⟨v, b, w, k1, k2, k3, k4⟩ := carriesEnc_sound E (effEnv t plmn args) .nil tm _ _ _ _ _ hS henc
    subst hp
    refine ⟨id, v, b, w, rfl, k1, k2, k3, ?_⟩
    rw [k4]; simp [evalHole, BEnv.arg, effEnv]

/-- what `evalHole … (.ip4 i)` is: the model of `ngapConvert.IPAddressToNgap(ipv4, "")` (Model/Convert.lean) -/
theorem ip4_hole (E : Ext) (plmn : Bytes) (args : List Val) (i : Nat) (s : Bytes) (ha : args[i]? = some (.str s))
    (b : BitStr) (hb : ipAddressToNgap E s [] = .ok b) :
    evalHole E { plmn := plmn, args := args } .nil (.ip4 i) = .bits b.bytes b.bitLength := by
  simp [evalHole, BEnv.arg, ha, bytesOf, hb]


set_option maxRecDepth 1000000 in
theorem plmn_table : allTable.all plmnOK = true := by decide +kernel


/-- the PLMN a builder reads from `TestPlmn`: the one this very call announces (`BuildNGSetupRequest(mobilePLMN)` assigns
    `TestPlmn` first), otherwise the state left by the last NG Setup -/
def effPlmn (t : Template) (plmn : Bytes) (args : List Val) : Bytes := (effEnv t plmn args).plmn

/-- **C13_plmn**: the PDU a builder returns is the evaluation of a skeleton `tm` of its template in which EVERY position
    whose schema type is `PLMNIdentity` (`sitesOf`: traversal of the skeleton directed by the regenerated NGAP schema,
    entering nested transfer containers with their own type, not entering caller-supplied values) holds `TestPlmn`;
    for the positions outside nested encodings this is a statement about the returned value itself:
    `Val.at position pdu = PLMNIdentity{TestPlmn}`. -/
theorem C13_plmn (E : Ext) (t : Template) (ht : t ∈ allTable) (plmn : Bytes) (args : List Val) (pdu : Val)
    (h : Shaped E t plmn args pdu) :
    ∃ tm ∈ skeletons t, pdu = eval E (effEnv t plmn args) .nil tm ∧
      ∀ site ∈ sitesOf tm,
        eval E (effEnv t plmn args) .nil site.2.2 = .struct [.octs (effPlmn t plmn args)] ∧
        (site.2.1 = false → Val.at site.1 pdu = some (.struct [.octs (effPlmn t plmn args)])) := by
  obtain ⟨tm, htm, hp⟩ := h
  have hT := List.all_eq_true.mp plmn_table t ht
  have hS := List.all_eq_true.mp hT tm htm
  refine ⟨tm, htm, hp, ?_⟩
  intro site hsite
  have hs := List.all_eq_true.mp hS site hsite
  simp only [Bool.and_eq_true, Bool.or_eq_true] at hs
  refine ⟨isPlmnT_eval E _ _ _ hs.1, ?_⟩
  intro hn
  rcases hs.2 with hnn | hat
  · rw [hn] at hnn; simp at hnn
  · cases hq : Tm.at site.1 tm with
    | none => simp [hq] at hat
    | some s' =>
      simp only [hq] at hat
      subst hp
      rw [eval_at E _ _ site.1 tm s' hq]
      rw [isPlmnT_eval E _ _ s' hat]
      rfl

end Stgutg.Props.C13
