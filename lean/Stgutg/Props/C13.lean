/-
  C13 — gNB-side NGAP messages carry the caller's values and all mandatory IEs.

  Model: Stgutg.Model.Builders (hand templates for the 14 wrappers of packet.go and the 15 builders around them) and
  Stgutg.Gen.Templates (probed templates for the other 35 builders), over the NGAP schema regenerated from /repo.
  Specification: Stgutg.Spec.Ts38413 (procedure codes, message classes, mandatory IE tables, identifier ranges) and the
  reference IE walker Stgutg.Spec.NgapView. Helper lemmas: Stgutg/Proofs/Builders.lean.

  Every theorem is about `build E t plmn args` for ALL arguments `args`, ALL `TestPlmn` states `plmn` and ALL externals
  `E` (net.ParseIP, hex.DecodeString): "whenever the builder returns a PDU, then …".
-/
import Stgutg.Proofs.Builders
import Stgutg.Proofs.BuildersRoles
import Stgutg.Proofs.BuildersRefuseTm
import Stgutg.Model.NetExt

namespace Stgutg.Props.C13
open Stgutg Stgutg.Aper Stgutg.Builders Stgutg.Spec.NgapView Stgutg.Spec.Ts38413 Stgutg.Model.Convert
open Stgutg.Proofs.Builders

set_option maxRecDepth 1000000 in
/-- table fact (kernel evaluation over the hand-written and the regenerated probed templates) -/
theorem class_table : allTable.all classOK = true := by decide +kernel

/-- **C13_class**: every PDU a builder returns is the NGAP-PDU alternative (initiating message / successful outcome /
    unsuccessful outcome) and carries the procedure code that TS 38.413 clause 9.4.3 / 9.4.7 give for its message. -/
theorem C13_class (E : Ext) (t : Template) (ht : t ∈ allTable) (plmn : Bytes) (args : List Val) (pdu : Val)
    (h : Shaped E t plmn args pdu) :
    pduPresent pdu = some ((msgClass t.message).index + 1) ∧ pduProc pdu = some (procCode t.message : Int) := by
  obtain ⟨tm, htm, hp⟩ := h
  have hT := List.all_eq_true.mp class_table t ht
  have hS := List.all_eq_true.mp hT tm htm
  simp only [Bool.and_eq_true, decide_eq_true_eq] at hS
  subst hp
  exact ⟨pduPresent_eval E _ _ tm _ hS.1, pduProc_eval E _ _ tm _ hS.2⟩

set_option maxRecDepth 1000000 in
theorem mandatory_table : allTable.all mandOK = true := by decide +kernel

/-- **C13_mandatory**: for the messages the emulator sends (those with a transcribed clause 9.2 table), every IE with
    presence M is in the PDU the builder returns, with the criticality the standard assigns. `hs` is the list of
    (IE id, criticality) of ALL IEs of the PDU, in order. -/
theorem C13_mandatory (E : Ext) (t : Template) (ht : t ∈ allTable) (ms : List (Nat × Nat)) (hm : mandatory t.message = some ms)
    (plmn : Bytes) (args : List Val) (pdu : Val) (h : Shaped E t plmn args pdu) :
    ∃ hs : List (Int × Nat), headers pdu = some (hs.map some) ∧ ∀ m ∈ ms, ((m.1 : Int), m.2) ∈ hs := by
  obtain ⟨tm, htm, hp⟩ := h
  have hT := List.all_eq_true.mp mandatory_table t ht
  unfold mandOK at hT
  rw [hm] at hT
  have hS := List.all_eq_true.mp hT tm htm
  cases hh : Tm.headers tm with
  | none => simp [hh] at hS
  | some hs =>
    simp only [hh] at hS
    refine ⟨hs, ?_, ?_⟩
    · subst hp; exact headers_eval E _ _ tm hs hh
    · intro m hmem
      have := List.all_eq_true.mp hS m hmem
      simpa using this


set_option maxRecDepth 1000000 in
theorem amf_table : allTable.all amfOK = true := by decide +kernel
set_option maxRecDepth 1000000 in
theorem ran_table : allTable.all ranOK = true := by decide +kernel
set_option maxRecDepth 1000000 in
theorem nas_table : allTable.all nasOK = true := by decide +kernel
set_option maxRecDepth 1000000 in
theorem psi_table : allTable.all psiOK = true := by decide +kernel
set_option maxRecDepth 1000000 in
theorem psilist_table : allTable.all psiListOK = true := by decide +kernel
set_option maxRecDepth 1000000 in
theorem name_table : allTable.all nameOK = true := by decide +kernel
set_option maxRecDepth 1000000 in
theorem gnb_table : allTable.all gnbOK = true := by decide +kernel
set_option maxRecDepth 1000000 in
theorem ip_table : allTable.all ipOK = true := by decide +kernel


theorem effEnv_arg (t : Template) (plmn : Bytes) (args : List Val) (i : Nat) (a : Val) (ha : args[i]? = some a) :
    (effEnv t plmn args).arg i = a := by
  simp [effEnv, BEnv.arg, ha]

/-- **C13_carries (AMF-UE-NGAP-ID)**: a builder that takes an AMF-UE-NGAP-ID returns a PDU with exactly one
    AMF UE NGAP ID IE (Source AMF UE NGAP ID in PATH SWITCH REQUEST) whose value is the argument. -/
theorem C13_carries_amf (E : Ext) (t : Template) (ht : t ∈ allTable) (i : Nat) (hi : roleIdx t .amf = some i)
    (plmn : Bytes) (args : List Val) (pdu : Val) (h : Shaped E t plmn args pdu) (a : Val) (ha : args[i]? = some a) :
    ∃ v, ieValuesById pdu (amfIe t.message : Int) = some [some v] ∧ Val.at [0] v = some a := by
  obtain ⟨tm, htm, hp⟩ := h
  have hT := List.all_eq_true.mp amf_table t ht
  unfold amfOK at hT
  rw [hi] at hT
  have hS := List.all_eq_true.mp hT tm htm
  obtain ⟨v, h1, h2⟩ := carriesHole_sound E (effEnv t plmn args) .nil tm _ _ _ hS
  subst hp
  exact ⟨v, h1, by rw [h2]; simp [evalHole, effEnv_arg t plmn args i a ha]⟩

/-- **C13_carries (RAN-UE-NGAP-ID)** -/
theorem C13_carries_ran (E : Ext) (t : Template) (ht : t ∈ allTable) (i : Nat) (hi : roleIdx t .ran = some i)
    (plmn : Bytes) (args : List Val) (pdu : Val) (h : Shaped E t plmn args pdu) (a : Val) (ha : args[i]? = some a) :
    ∃ v, ieValuesById pdu (ieRANUENGAPID : Int) = some [some v] ∧ Val.at [0] v = some a := by
  obtain ⟨tm, htm, hp⟩ := h
  have hT := List.all_eq_true.mp ran_table t ht
  unfold ranOK at hT
  rw [hi] at hT
  have hS := List.all_eq_true.mp hT tm htm
  obtain ⟨v, h1, h2⟩ := carriesHole_sound E (effEnv t plmn args) .nil tm _ _ _ hS
  subst hp
  exact ⟨v, h1, by rw [h2]; simp [evalHole, effEnv_arg t plmn args i a ha]⟩

/-- **C13_carries (NAS-PDU)**: exactly one NAS-PDU IE whose octets are the argument (a nil slice is the empty string);
    only a builder whose control flow tests the argument (`i ∈ t.dims`: PDU SESSION RESOURCE RELEASE COMMAND, `if nasPdu != nil`)
    may leave the IE out instead. -/
theorem C13_carries_nas (E : Ext) (t : Template) (ht : t ∈ allTable) (i : Nat) (hi : roleIdx t .nas = some i)
    (plmn : Bytes) (args : List Val) (pdu : Val) (h : Shaped E t plmn args pdu) (a : Val) (ha : args[i]? = some a) :
    (∃ v, ieValuesById pdu (ieNASPDU : Int) = some [some v] ∧ Val.at [0] v = some (.octs (bytesOf a))) ∨
    (i ∈ t.dims ∧ ieValuesById pdu (ieNASPDU : Int) = some []) := by
  obtain ⟨tm, htm, hp⟩ := h
  have hT := List.all_eq_true.mp nas_table t ht
  unfold nasOK at hT
  rw [hi] at hT
  have hS := List.all_eq_true.mp hT tm htm
  simp only [Bool.or_eq_true, Bool.and_eq_true] at hS
  subst hp
  rcases hS with hS | ⟨hd, hS⟩
  · obtain ⟨v, h1, h2⟩ := carriesHole_sound E (effEnv t plmn args) .nil tm _ _ _ hS
    exact .inl ⟨v, h1, by rw [h2]; simp [evalHole, effEnv_arg t plmn args i a ha]⟩
  · exact .inr ⟨by simpa using hd, lacksIE_sound E _ _ tm _ hS⟩

/-- **C13_carries (PDU session id)**: the first item of the setup / released list of the response starts with the
    PDU Session ID the caller gave (`Val.at [0,0,0,0]`: list container → list → item 0 → PDUSessionID → value). -/
theorem C13_carries_psi (E : Ext) (t : Template) (ht : t ∈ allTable) (i : Nat) (hi : roleIdx t .psi = some i)
    (plmn : Bytes) (args : List Val) (pdu : Val) (h : Shaped E t plmn args pdu) (a : Val) (ha : args[i]? = some a) :
    ∃ id v, psiItemIe t.message = some id ∧ ieValuesById pdu (id : Int) = some [some v] ∧ Val.at [0, 0, 0, 0] v = some a := by
  obtain ⟨tm, htm, hp⟩ := h
  have hT := List.all_eq_true.mp psi_table t ht
  unfold psiOK at hT
  rw [hi] at hT
  cases hid : psiItemIe t.message with
  | none => simp [hid] at hT
  | some id =>
    simp only [hid] at hT
    have hS := List.all_eq_true.mp hT tm htm
    obtain ⟨v, h1, h2⟩ := carriesHole_sound E (effEnv t plmn args) .nil tm _ _ _ hS
    subst hp
    exact ⟨id, v, rfl, h1, by rw [h2]; simp [evalHole, effEnv_arg t plmn args i a ha]⟩

/-- **C13_carries (RAN node name)** (the NG Setup wrapper) -/
theorem C13_carries_name (E : Ext) (t : Template) (ht : t ∈ allTable) (i : Nat) (hi : roleIdx t .name = some i)
    (plmn : Bytes) (args : List Val) (pdu : Val) (h : Shaped E t plmn args pdu) (a : Val) (ha : args[i]? = some a) :
    ∃ v, ieValuesById pdu (ieRANNodeName : Int) = some [some v] ∧ Val.at [0] v = some (.str (bytesOf a)) := by
  obtain ⟨tm, htm, hp⟩ := h
  have hT := List.all_eq_true.mp name_table t ht
  unfold nameOK at hT
  rw [hi] at hT
  have hS := List.all_eq_true.mp hT tm htm
  obtain ⟨v, h1, h2⟩ := carriesHole_sound E (effEnv t plmn args) .nil tm _ _ _ hS
  subst hp
  exact ⟨v, h1, by rw [h2]; simp [evalHole, effEnv_arg t plmn args i a ha]⟩


theorem cls_psilist_slice (E : Ext) (xs : List Val) : cls E .psilist (.slice xs) ≠ 0 := by
  cases xs <;> simp [cls]

/-- **C13_carries (PDU session id list)**: UE CONTEXT RELEASE COMPLETE / REQUEST built from a non-nil list carry exactly one
    PDU Session Resource List whose items are the caller's ids, in order; built from a nil list they carry none. -/
theorem C13_carries_psilist (E : Ext) (t : Template) (ht : t ∈ allTable) (i : Nat) (hi : roleIdx t .psilist = some i)
    (plmn : Bytes) (args : List Val) (pdu : Val) (h : build E t plmn args = .ok pdu) :
    ∃ id, psiListIe t.message = some id ∧
      (∀ xs, args[i]? = some (.slice xs) →
        ieValuesById pdu (id : Int) = some [some (.struct [.slice (xs.map fun x => .struct [.struct [x], .nil])])]) ∧
      (args[i]? = some .nil → ieValuesById pdu (id : Int) = some []) := by
  obtain ⟨c, hc, tm, hcls, hout, _, hp⟩ := build_ok E t plmn args pdu h
  have hT := List.all_eq_true.mp psilist_table t ht
  unfold psiListOK at hT
  rw [hi] at hT
  cases hid : psiListIe t.message with
  | none => simp [hid] at hT
  | some id =>
    simp only [hid, Bool.and_eq_true, beq_iff_eq] at hT
    obtain ⟨⟨hdims, hrole⟩, hcases⟩ := hT
    have hC := List.all_eq_true.mp hcases c hc
    rw [hout] at hC
    dsimp only at hC
    have hclass : c.cls = [cls E .psilist ((effEnv t plmn args).arg i)] := by
      rw [hcls]; simp [classes, hdims, hrole]
    subst hp
    refine ⟨id, rfl, ?_, ?_⟩
    · intro xs ha
      have harg := effEnv_arg t plmn args i _ ha
      have hne : ¬ c.cls = [0] := by
        rw [hclass, harg]
        have := cls_psilist_slice E xs
        simp [this]
      rw [if_neg hne] at hC
      exact carriesList_sound E (effEnv t plmn args) .nil tm _ i xs harg hC
    · intro ha
      have harg := effEnv_arg t plmn args i _ ha
      have heq : c.cls = [0] := by
        rw [hclass, harg]; simp [cls]
      rw [if_pos heq] at hC
      exact lacksIE_sound E _ _ tm _ hC

/-- **C13_carries (gNB id, NG SETUP REQUEST)**: the Global RAN Node ID holds the gNB id octets with the bit length the
    caller gave (`Val.at [1,0,1,1,0]`: GlobalGNBID alternative → GNBID field → gNB-ID alternative → BIT STRING). -/
theorem C13_carries_gnbid_ngsetup (E : Ext) (t : Template) (ht : t ∈ allTable) (i j : Nat)
    (hi : roleIdx t .gnbid = some i) (hj : roleIdx t .bitlen = some j)
    (plmn : Bytes) (args : List Val) (pdu : Val) (h : Shaped E t plmn args pdu)
    (g bl : Val) (hg : args[i]? = some g) (hb : args[j]? = some bl) :
    ∃ v, ieValuesById pdu (ieGlobalRANNodeID : Int) = some [some v] ∧
      Val.at [1, 0, 1, 1, 0] v = some (.bits (bytesOf g) (natOf bl)) := by
  obtain ⟨tm, htm, hp⟩ := h
  have hT := List.all_eq_true.mp gnb_table t ht
  unfold gnbOK at hT
  rw [hi, hj] at hT
  cases hcell : roleIdx t .cellid with
  | some k => simp [hcell] at hT
  | none =>
    simp only [hcell] at hT
    have hS := List.all_eq_true.mp hT tm htm
    obtain ⟨v, h1, h2⟩ := carriesHole_sound E (effEnv t plmn args) .nil tm _ _ _ hS
    subst hp
    exact ⟨v, h1, by rw [h2]; simp [evalHole, effEnv_arg t plmn args i g hg, effEnv_arg t plmn args j bl hb]⟩

/-- **C13_carries (gNB id and cell id, HANDOVER REQUIRED)**: the Target ID holds the gNB id as a BIT STRING of all its octets;
    the source-to-target transparent container is the encoding (`marshalTransfer 1413`, "valueExt") of a
    SourceNGRANNode-ToTargetNGRANNode-TransparentContainer whose target cell NR CGI is gNB id ++ cell id, 36 bits. -/
theorem C13_carries_gnbid_handover (E : Ext) (t : Template) (ht : t ∈ allTable) (i j : Nat)
    (hi : roleIdx t .gnbid = some i) (hj : roleIdx t .cellid = some j)
    (plmn : Bytes) (args : List Val) (pdu : Val) (h : build E t plmn args = .ok pdu)
    (g c : Val) (hg : args[i]? = some g) (hc : args[j]? = some c) :
    (∃ v, ieValuesById pdu (ieTargetID : Int) = some [some v] ∧
      Val.at [1, 0, 0, 1, 0, 1, 1, 0] v = some (.bits (bytesOf g) (8 * (bytesOf g).length))) ∧
    (∃ v b w, ieValuesById pdu (ieSourceToTargetTransparentContainer : Int) = some [some v] ∧ Val.at [0] v = some (.octs b) ∧
      marshalTransfer 1413 w = .ok b ∧ Val.at [3, 1, 0, 1, 0] w = some (.bits (bytesOf g ++ bytesOf c) 36)) := by
  obtain ⟨tm, htm, henc, hp⟩ := build_ok_skeleton E t plmn args pdu h
  have hT := List.all_eq_true.mp gnb_table t ht
  unfold gnbOK at hT
  rw [hi, hj] at hT
  cases hbl : roleIdx t .bitlen with
  | some k => simp [hbl] at hT
  | none =>
    simp only [hbl] at hT
    have hS := List.all_eq_true.mp hT tm htm
    simp only [Bool.and_eq_true] at hS
    obtain ⟨v, h1, h2⟩ := carriesHole_sound E (effEnv t plmn args) .nil tm _ _ _ hS.1
    obtain ⟨v', b, w, k1, k2, k3, k4⟩ := carriesEnc_sound E (effEnv t plmn args) .nil tm _ _ _ _ _ hS.2 henc
    subst hp
    refine ⟨⟨v, h1, ?_⟩, ⟨v', b, w, k1, k2, k3, ?_⟩⟩
    · rw [h2]; simp [evalHole, effEnv_arg t plmn args i g hg]
    · rw [k4]; simp [evalHole, effEnv_arg t plmn args i g hg, effEnv_arg t plmn args j c hc]

/-- **C13_carries (GTP transport address)**: the first item of the setup list holds octets `b` that are the encoding
    (`marshalTransfer 1360`, "valueExt") of a PDUSessionResourceSetupResponseTransfer `w` whose GTP tunnel transport layer
    address (`Val.at [0,0,1,0,0,0]`) is `IPAddressToNgap(ipv4, "")` — 32 bits, the four octets of `net.ParseIP(ipv4).To4()`. -/
theorem C13_carries_tla (E : Ext) (t : Template) (ht : t ∈ allTable) (i : Nat) (hi : roleIdx t .ip = some i)
    (plmn : Bytes) (args : List Val) (pdu : Val) (h : build E t plmn args = .ok pdu) :
    ∃ id v b w, psiItemIe t.message = some id ∧ ieValuesById pdu (id : Int) = some [some v] ∧
      Val.at [0, 0, 1] v = some (.octs b) ∧ marshalTransfer 1360 w = .ok b ∧
      Val.at [0, 0, 1, 0, 0, 0] w = some (evalHole E { plmn := plmn, args := args } .nil (.ip4 i)) := by
  obtain ⟨tm, htm, henc, hp⟩ := build_ok_skeleton E t plmn args pdu h
  have hT := List.all_eq_true.mp ip_table t ht
  unfold ipOK at hT
  rw [hi] at hT
  cases hid : psiItemIe t.message with
  | none => simp [hid] at hT
  | some id =>
    simp only [hid] at hT
    have hS := List.all_eq_true.mp hT tm htm
    obtain ⟨v, b, w, k1, k2, k3, k4⟩ := carriesEnc_sound E (effEnv t plmn args) .nil tm _ _ _ _ _ hS henc
    subst hp
    refine ⟨id, v, b, w, rfl, k1, k2, k3, ?_⟩
    rw [k4]; simp [evalHole, BEnv.arg, effEnv]

/-- what `evalHole … (.ip4 i)` is: the model of `ngapConvert.IPAddressToNgap(ipv4, "")` (Model/Convert.lean) -/
theorem ip4_hole (E : Ext) (plmn : Bytes) (args : List Val) (i : Nat) (s : Bytes) (ha : args[i]? = some (.str s))
    (b : BitStr) (hb : ipAddressToNgap E s [] = .ok b) :
    evalHole E { plmn := plmn, args := args } .nil (.ip4 i) = .bits b.bytes b.bitLength := by
  simp [evalHole, BEnv.arg, ha, bytesOf, hb]


set_option maxRecDepth 1000000 in
theorem plmn_table : allTable.all plmnOK = true := by decide +kernel


/-- the PLMN a builder reads from `TestPlmn`: the one this very call announces (`BuildNGSetupRequest(mobilePLMN)` assigns
    `TestPlmn` first), otherwise the state left by the last NG Setup -/
def effPlmn (t : Template) (plmn : Bytes) (args : List Val) : Bytes := (effEnv t plmn args).plmn

/-- **C13_plmn**: the PDU a builder returns is the evaluation of a skeleton `tm` of its template in which EVERY position
    whose schema type is `PLMNIdentity` (`sitesOf`: traversal of the skeleton directed by the regenerated NGAP schema,
    entering nested transfer containers with their own type, not entering caller-supplied values) holds `TestPlmn`;
    for the positions outside nested encodings this is a statement about the returned value itself:
    `Val.at position pdu = PLMNIdentity{TestPlmn}`. -/
theorem C13_plmn (E : Ext) (t : Template) (ht : t ∈ allTable) (plmn : Bytes) (args : List Val) (pdu : Val)
    (h : Shaped E t plmn args pdu) :
    ∃ tm ∈ skeletons t, pdu = eval E (effEnv t plmn args) .nil tm ∧
      ∀ site ∈ sitesOf tm,
        eval E (effEnv t plmn args) .nil site.2.2 = .struct [.octs (effPlmn t plmn args)] ∧
        (site.2.1 = false → Val.at site.1 pdu = some (.struct [.octs (effPlmn t plmn args)])) := by
  obtain ⟨tm, htm, hp⟩ := h
  have hT := List.all_eq_true.mp plmn_table t ht
  have hS := List.all_eq_true.mp hT tm htm
  refine ⟨tm, htm, hp, ?_⟩
  intro site hsite
  have hs := List.all_eq_true.mp hS site hsite
  simp only [Bool.and_eq_true, Bool.or_eq_true] at hs
  refine ⟨isPlmnT_eval E _ _ _ hs.1, ?_⟩
  intro hn
  rcases hs.2 with hnn | hat
  · rw [hn] at hnn; simp at hnn
  · cases hq : Tm.at site.1 tm with
    | none => simp [hq] at hat
    | some s' =>
      simp only [hq] at hat
      subst hp
      rw [eval_at E _ _ site.1 tm s' hq]
      rw [isPlmnT_eval E _ _ s' hat]
      rfl


/-! ## the builders encode for all in-range arguments, and refuse out-of-range identifiers

  Helper lemmas: Proofs/BuildersOk*.lean (one value predicate `okV` ⇒ C03's `regular`, C04's `conf`, and "the X.691
  specification encodes it"), Proofs/BuildersTm*.lean (static analysis `tmOK` of a skeleton against the schema, the
  obligations `obls` it leaves to the arguments, soundness), Proofs/BuildersRange.lean (`InRange`), Proofs/BuildersRoles.lean
  (the obligations role by role: `ArgsInRange`), Proofs/BuildersRefuse*.lean (`badV` ⇒ the encoder model returns an error). -/

open Stgutg.Proofs.BuildersOk Stgutg.Proofs.BuildersTm Stgutg.Proofs.BuildersRange Stgutg.Proofs.BuildersRoles
open Stgutg.Proofs.BuildersRefuse

/- FINDING F37 (found by this analysis, confirmed on the real code, FIXED in /repo f4784a9): `BuildPDUSessionResourceReleaseCommand`
   called with a paging priority tagged the RAN Paging Priority value with IE id 52 (PagingPriority) instead of 83
   (RANPagingPriority); the open type did not match its identifier and `ngap.Encoder` refused the builder's own PDU for all
   arguments. Before the repair these rows were an explicit exception of `skeleton_table` / `C13_encodes`; the table now passes
   without exception (replay: harness/corpus/builders/f37-release-command-paging-priority-id.ops). -/

/-- the constants of `BuildHandoverNotify` / `BuildLocationReport` contain a 28-bit E-UTRA cell identity whose last octet has
    bits set beyond the 28th (`0xff`, `0x13`): the encoder masks them, so the PDU is encoded but the decoder returns the
    masked octets, not the builder's value. Excluded from `C13_decodes_back` only. -/
def NonCanonicalConst (t : Template) : Bool :=
  t.message == .HandoverNotify || t.message == .LocationReport

set_option maxRecDepth 1000000 in
/-- table fact (kernel evaluation over the hand-written and the regenerated probed templates, against the regenerated
    schema): every skeleton of every builder passes the static analysis — for encoding, and (two builders excepted) for the
    round trip —, and every obligation it leaves to the arguments is either one of the explicit role kinds at a position with
    exactly the promised constraints, or concerns a caller-supplied value without a fixed range -/
theorem skeleton_table :
    (allTable.all fun t => t.cases.all fun c =>
      match c.out with
      | .val tm =>
        (skOK false tm && (skOK true tm || NonCanonicalConst t)) &&
        (skObls tm).all (fun o => explicitOK t o || genericOK t o)
      | _ => true) = true := by decide +kernel

theorem skeleton_facts (t : Template) (ht : t ∈ allTable) (c : Case) (hc : c ∈ t.cases) (tm : Tm) (hout : c.out = .val tm) :
    (skOK false tm = true ∧ (skOK true tm = true ∨ NonCanonicalConst t = true)) ∧
    ∀ o ∈ skObls tm, explicitOK t o = true ∨ genericOK t o = true := by
  have h := List.all_eq_true.mp (List.all_eq_true.mp skeleton_table t ht) c hc
  rw [hout] at h
  simp only [Bool.and_eq_true, Bool.or_eq_true, List.all_eq_true] at h
  exact h

/-- **C13_encodes**: for every builder of the table and all arguments in range (`InRange false`: they select a row of the
    decision table that returns a PDU and fill every hole of its skeleton with a value of the type and within the
    constraints of its position — `C13_in_range` states this role by role), the builder returns a PDU, `ngap.Encoder`
    (model) returns octets for it, and these octets are the complete X.691 ALIGNED PER encoding of the PDU (C03). -/
theorem C13_encodes (E : Ext) (t : Template) (ht : t ∈ allTable) (plmn : Bytes) (args : List Val)
    (h : InRange false E t plmn args) :
    ∃ pdu bs, build E t plmn args = .ok pdu ∧ encodePdu pdu = .ok bs ∧
      Spec.X691.encodePdu Gen.Ngap.schema Builders.fuel (.struct Gen.Ngap.pduId) Gen.Ngap.encoderParams pdu = some bs := by
  obtain ⟨c, tm, hsel, hout, hob⟩ := h
  have hsk : skOK false tm = true := (skeleton_facts t ht c (selected_mem E t plmn args c hsel) tm hout).1.1
  obtain ⟨hb, hv⟩ := selected_builds false E t plmn args c tm hsel hout hsk hob
  obtain ⟨bs, h1, h2⟩ := okV_pdu_encodes false _ hv
  exact ⟨_, bs, hb, h1, h2⟩

set_option maxRecDepth 1000000 in
/-- the hypothesis `InRange` is satisfiable (the general case, role by role: `C13_in_range`; for the messages of the
    registration path with explicit ranges: Proofs/BuildersPath.lean): UPLINK NAS TRANSPORT with the largest identifiers -/
example : InRange true Model.NetExt.goExt tUplinkNasTransport [0x02, 0xf8, 0x39]
    [.int (2 ^ 40 - 1), .int (2 ^ 32 - 1), .octs [0x7e, 0x00, 0x41]] := by
  refine ⟨⟨[], .val _⟩, _, rfl, rfl, ?_⟩
  have h : ((skObls (initiating 46 Builders.ignore 48 [
      amfIE Builders.reject 4 1 0, ranIE Builders.reject 4 2 1,
      ieT idNAS Builders.reject 4 3 (.struct [.hole (.argOcts 2)]),
      ieT idULI Builders.ignore 4 4 (userLocationNR [0, 0, 0, 0, 0x10] [0, 0, 1])])).all fun o =>
        Obl.ok Gen.Ngap.schema true Model.NetExt.goExt (effEnv tUplinkNasTransport [0x02, 0xf8, 0x39]
          [.int (2 ^ 40 - 1), .int (2 ^ 32 - 1), .octs [0x7e, 0x00, 0x41]]) .nil o) = true := by decide +kernel
  exact fun o ho => List.all_eq_true.mp h o ho

set_option maxRecDepth 1000000 in
/-- … also with a caller-supplied ngapType value and a non-empty PDU session id list: UE CONTEXT RELEASE COMPLETE for
    sessions 1 and 255 -/
example : InRange true Model.NetExt.goExt tUEContextReleaseComplete [0x02, 0xf8, 0x39]
    [.int 1, .int 2, .slice [.int 1, .int 255]] := by
  refine ⟨⟨[2], .val (successful 41 Builders.reject 16 (ueCtxRelCompleteIEs true))⟩, _, rfl, rfl, ?_⟩
  have h : ((skObls (successful 41 Builders.reject 16 (ueCtxRelCompleteIEs true))).all fun o =>
        Obl.ok Gen.Ngap.schema true Model.NetExt.goExt (effEnv tUEContextReleaseComplete [0x02, 0xf8, 0x39]
          [.int 1, .int 2, .slice [.int 1, .int 255]]) .nil o) = true := by decide +kernel
  exact fun o ho => List.all_eq_true.mp h o ho

/-- **C13_decodes_back**: with bit strings in canonical form (`InRange true`: unused bits of a gNB id's last octet clear)
    the library decoder (model) returns, from the octets `ngap.Encoder` produced, exactly the PDU the builder made (C04) —
    so every "carries" theorem above is a statement about what the receiver decodes. -/
theorem C13_decodes_back (E : Ext) (t : Template) (ht : t ∈ allTable) (plmn : Bytes) (args : List Val)
    (h : InRange true E t plmn args) (hnc : NonCanonicalConst t = false) :
    ∃ pdu bs, build E t plmn args = .ok pdu ∧ encodePdu pdu = .ok bs ∧
      unmarshal Gen.Ngap.schema Builders.fuel (.struct Gen.Ngap.pduId) Gen.Ngap.decoderParams bs = .ok pdu := by
  obtain ⟨c, tm, hsel, hout, hob⟩ := h
  have hsk : skOK true tm = true := by
    rcases (skeleton_facts t ht c (selected_mem E t plmn args c hsel) tm hout).1.2 with h2 | h2
    · exact h2
    · rw [hnc] at h2; cases h2
  obtain ⟨hb, hv⟩ := selected_builds true E t plmn args c tm hsel hout hsk hob
  obtain ⟨bs, h1, _⟩ := okV_pdu_encodes true _ hv
  exact ⟨_, bs, hb, h1, okV_pdu_decodes _ bs hv h1⟩

/-- **C13_in_range**: `InRange`, role by role. The arguments select the row `c` with skeleton `tm`; the identifiers, PLMN,
    address, name, gNB id and session id list are in the explicit ranges of `ArgsInRange`; every caller-supplied ngapType
    value / string / integer of a role without a fixed range (AMF-side builders; the 5G-S-TMSI text) conforms to the type at
    the position the builder puts it (`genericOK` obligations). -/
theorem C13_in_range (canon : Bool) (E : Ext) (t : Template) (ht : t ∈ allTable) (plmn : Bytes) (args : List Val)
    (c : Case) (tm : Tm) (hsel : selected E t plmn args = some c) (hout : c.out = .val tm)
    (hr : ArgsInRange canon E t (effEnv t plmn args) tm)
    (hgen : ∀ o ∈ skObls tm, genericOK t o = true → Obl.ok Gen.Ngap.schema canon E (effEnv t plmn args) .nil o = true) :
    InRange canon E t plmn args := by
  refine ⟨c, tm, hsel, hout, fun o ho => ?_⟩
  rcases (skeleton_facts t ht c (selected_mem E t plmn args c hsel) tm hout).2 o ho with h1 | h1
  · exact explicit_sound canon E t _ tm hr o ho h1
  · exact hgen o ho h1

/-- the ASN.1 range of an identifier role: AMF-UE-NGAP-ID 0..2^40−1, RAN-UE-NGAP-ID 0..2^32−1, PDU session ID 0..255 -/
def idUpper : Role → Option Int
  | .amf => some (2 ^ 40 - 1)
  | .ran => some (2 ^ 32 - 1)
  | .psi => some 255
  | _ => none

/-- the skeleton's encoder path reaches the hole `h` at an INTEGER constrained to exactly `0..ub` -/
def skReach (h : Hole) (ub : Int) (tm : Tm) : Bool :=
  tmReach Gen.Ngap.schema h 0 ub skDepth Builders.fuel (.struct Gen.Ngap.pduId) Gen.Ngap.encoderParams tm

def reachOK (r : Role) (t : Template) : Bool :=
  match roleIdx t r, idUpper r with
  | some i, some ub => (skeletons t).all (skReach (.arg i) ub)
  | _, _ => true

set_option maxRecDepth 1000000 in
/-- table fact: in every skeleton of every builder that takes an AMF-UE-NGAP-ID / RAN-UE-NGAP-ID / PDU session id, the
    encoder reaches the argument at an INTEGER position constrained to exactly the identifier's range, no extension marker -/
theorem reach_table : (allTable.all fun t => reachOK .amf t && reachOK .ran t && reachOK .psi t) = true := by decide +kernel

/-- the hypotheses of `C13_refuses` are satisfiable: UPLINK NAS TRANSPORT with AMF-UE-NGAP-ID 2^40 -/
example (E : Ext) : Shaped E tUplinkNasTransport [0x02, 0xf8, 0x39] [.int (2 ^ 40), .int 7, .octs []]
    (eval E (effEnv tUplinkNasTransport [0x02, 0xf8, 0x39] [.int (2 ^ 40), .int 7, .octs []]) .nil
      (initiating 46 Builders.ignore 48 [amfIE Builders.reject 4 1 0, ranIE Builders.reject 4 2 1,
        ieT idNAS Builders.reject 4 3 (.struct [.hole (.argOcts 2)]),
        ieT idULI Builders.ignore 4 4 (userLocationNR [0, 0, 0, 0, 0x10] [0, 0, 1])])) ∧
    roleIdx tUplinkNasTransport .amf = some 0 ∧ idUpper .amf = some (2 ^ 40 - 1) ∧ (2 ^ 40 - 1 : Int) < 2 ^ 40 :=
  ⟨⟨_, by simp [skeletons, tUplinkNasTransport], rfl⟩, by decide, rfl, by decide⟩

/-- **C13_refuses**: an identifier outside its ASN.1 range is refused with an error, never truncated: for every builder
    that takes an AMF-UE-NGAP-ID (`r = .amf`), RAN-UE-NGAP-ID (`.ran`) or PDU session id (`.psi`), whatever the other
    arguments are, if that argument is negative or above 2^40−1 / 2^32−1 / 255, then `ngap.Encoder` (model) does not
    return octets for the PDU the builder (or the wrapper) made. -/
theorem C13_refuses (E : Ext) (t : Template) (ht : t ∈ allTable) (r : Role) (ub : Int) (hub : idUpper r = some ub)
    (hr : r = .amf ∨ r = .ran ∨ r = .psi) (i : Nat) (hi : roleIdx t r = some i)
    (plmn : Bytes) (args : List Val) (pdu : Val) (h : Shaped E t plmn args pdu)
    (n : Int) (ha : args[i]? = some (.int n)) (hout : n < 0 ∨ ub < n) :
    ∀ bs, encodePdu pdu ≠ .ok bs := by
  obtain ⟨tm, htm, hp⟩ := h
  have hT := List.all_eq_true.mp reach_table t ht
  simp only [Bool.and_eq_true] at hT
  have hR : reachOK r t = true := by
    rcases hr with rfl | rfl | rfl
    · exact hT.1.1
    · exact hT.1.2
    · exact hT.2
  unfold reachOK at hR
  rw [hi, hub] at hR
  have hS := List.all_eq_true.mp hR tm htm
  have hev : evalHole E (effEnv t plmn args) .nil (.arg i) = .int n := by
    simp [evalHole, effEnv_arg t plmn args i _ ha]
  have hbad := tmReach_sound E (effEnv t plmn args) Gen.Ngap.schema (.arg i) 0 ub n hout skDepth Builders.fuel _ _ tm .nil hev hS
  subst hp
  intro bs hbs
  unfold encodePdu marshal at hbs
  cases henc : encField Gen.Ngap.schema Builders.fuel 0 (.struct Gen.Ngap.pduId) Gen.Ngap.encoderParams
      (eval E (effEnv t plmn args) .nil tm) with
  | error x => rw [henc] at hbs; cases hbs
  | ok bits => exact badV_refused Gen.Ngap.schema _ _ _ _ hbad 0 bits henc

/-- in every row of the decision table that ranges over the PDU session id list argument (every row but the one for a nil
    list), the encoder reaches the loop variable at an INTEGER constrained to exactly 0..255 -/
def reachListOK (t : Template) : Bool :=
  match roleIdx t .psilist with
  | some i =>
    t.dims == [i] && roleAt t i == .psilist && t.cases.all fun c =>
      match c.out with
      | .val tm => c.cls == [0] ||
          tmReachList Gen.Ngap.schema i 0 255 skDepth Builders.fuel (.struct Gen.Ngap.pduId) Gen.Ngap.encoderParams tm
      | _ => true
  | none => true

set_option maxRecDepth 1000000 in
theorem reach_list_table : allTable.all reachListOK = true := by decide +kernel

/-- **C13_refuses (PDU session id list)**: UE CONTEXT RELEASE COMPLETE / REQUEST built from a list that contains a PDU
    session id outside 0..255 is never encoded, whatever the other arguments and the other elements are. -/
theorem C13_refuses_list (E : Ext) (t : Template) (ht : t ∈ allTable) (i : Nat) (hi : roleIdx t .psilist = some i)
    (plmn : Bytes) (args : List Val) (pdu : Val) (h : build E t plmn args = .ok pdu)
    (xs : List Val) (ha : args[i]? = some (.slice xs)) (n : Int) (hmem : Val.int n ∈ xs) (hout : n < 0 ∨ 255 < n) :
    ∀ bs, encodePdu pdu ≠ .ok bs := by
  obtain ⟨c, hc, tm, hcls, hcout, _, hp⟩ := build_ok E t plmn args pdu h
  have hT := List.all_eq_true.mp reach_list_table t ht
  unfold reachListOK at hT
  rw [hi] at hT
  simp only [Bool.and_eq_true, beq_iff_eq] at hT
  obtain ⟨⟨hdims, hrole⟩, hcases⟩ := hT
  have hC := List.all_eq_true.mp hcases c hc
  rw [hcout] at hC
  have harg := effEnv_arg t plmn args i _ ha
  have hne : (c.cls == [0]) = false := by
    have hclass : c.cls = [cls E .psilist ((effEnv t plmn args).arg i)] := by
      rw [hcls]; simp [classes, hdims, hrole]
    rw [hclass, harg]
    have := cls_psilist_slice E xs
    simp [this]
  simp only [hne, Bool.false_or] at hC
  have hbad := tmReachList_sound E (effEnv t plmn args) Gen.Ngap.schema i 0 255 n hout xs harg hmem skDepth Builders.fuel _ _ tm
    .nil hC
  subst hp
  intro bs hbs
  unfold encodePdu marshal at hbs
  cases henc : encField Gen.Ngap.schema Builders.fuel 0 (.struct Gen.Ngap.pduId) Gen.Ngap.encoderParams
      (eval E (effEnv t plmn args) .nil tm) with
  | error x => rw [henc] at hbs; cases hbs
  | ok bits => exact badV_refused Gen.Ngap.schema _ _ _ _ hbad 0 bits henc

end Stgutg.Props.C13
