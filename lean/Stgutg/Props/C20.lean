/-
  C20 — codecs and security functions are safe to use concurrently for different UEs.
  Property theorems only; helper lemmas live in Stgutg/Proofs/{Interleave,SnowRace}.lean.

  Model: Stgutg.Model.Interleave — threads are lists of atomic steps with declared read / write sets over the
  package-level variables of the repo's packages; a schedule is any merge of the threads' step lists
  (`Interleaving`); caller-owned memory (the goroutine's own UE context and messages) is thread-local state.
  Table: Stgutg.Gen.Footprint, regenerated from the SSA form of /repo on every run (`gen footprint`).

  What is proved: for any number of threads and steps, if every step stays inside its declared footprint and
  steps of different threads have disjoint footprints, then EVERY schedule leaves every thread with the result
  of the one-call-at-a-time run (and of running alone), leaves the same shared store, and contains no
  conflicting access pair; the regenerated footprints of the entry points are pairwise disjoint; hence the
  conclusion for every system of goroutines that call these entry points, however a call decomposes into
  atomic steps.  What is assumed (hypothesis `Respects`, trusted): the footprints over-approximate what the
  compiled code touches — that is the translator's job; the Go memory model, the race detector and third-party
  packages are outside the model and tied by the `conc` runs under `-race`.
-/
import Stgutg.Proofs.Interleave
import Stgutg.Proofs.SnowRace
import Stgutg.Model.FootprintTable

namespace Stgutg.Props.C20
open Stgutg Stgutg.Model.Interleave Stgutg.Model.FootprintTable

variable {Val Local : Type}

/-- hypothesis of the theorems: steps of different threads have disjoint footprints,
    W₁ ∩ (R₂ ∪ W₂) = ∅ (the quantification covers both orders) -/
def Disjoint (ts : List (List (Step Val Local))) : Prop :=
  ∀ (i j : Nat) (hi : i < ts.length) (hj : j < ts.length), i ≠ j →
    ∀ s, s ∈ ts[i] → ∀ s', s' ∈ ts[j] → ∀ l, l ∈ s.writes → l ∉ s'.reads ∧ l ∉ s'.writes

private theorem poolDisjoint_of (ts : List (List (Step Val Local))) (hD : Disjoint ts) : PoolDisjoint (pool ts) := by
  intro i j hij s hs s' hs'
  have get : ∀ (k : Nat) (x : Step Val Local), x ∈ pool ts k → ∃ hk : k < ts.length, x ∈ ts[k] := by
    intro k x hx
    unfold pool at hx
    by_cases hk : k < ts.length
    · exact ⟨hk, by simpa [List.getElem?_eq_getElem hk] using hx⟩
    · simp [List.getElem?_eq_none (Nat.le_of_not_lt hk)] at hx
  obtain ⟨hi, hsi⟩ := get i s hs
  obtain ⟨hj, hsj⟩ := get j s' hs'
  exact hD i j hi hj hij s hsi s' hsj

private theorem poolRespects_of (ts : List (List (Step Val Local)))
    (hR : ∀ t, t ∈ ts → ∀ s, s ∈ t → Respects s) : PoolRespects (pool ts) := by
  intro i s hs
  obtain ⟨t, ht, hst⟩ := Proofs.Interleave.mem_pool hs
  exact hR t ht s hst

/-- the one-call-at-a-time run (thread 0 to completion, then thread 1, …) is itself one of the schedules -/
theorem sequential_is_schedule (ts : List (List (Step Val Local))) : Interleaving (pool ts) (sequential ts) :=
  Proofs.Interleave.sequential_interleaving ts

/-- NONINTERFERENCE, full strength: any number of threads, any number of steps, EVERY schedule `tr` (any merge
    of the threads' step lists).  If every step respects its declared footprint and steps of different threads
    have disjoint footprints, then the thread-local results and the shared store after `tr` are those of the
    sequential run, and `tr` contains no conflicting access pair (no race). -/
theorem noninterference (ts : List (List (Step Val Local)))
    (hR : ∀ t, t ∈ ts → ∀ s, s ∈ t → Respects s) (hD : Disjoint ts)
    (c : Config Val Local) (tr : Trace Val Local) (h : Interleaving (pool ts) tr) :
    (exec c tr).locals = (exec c (sequential ts)).locals ∧
    (exec c tr).store = (exec c (sequential ts)).store ∧
    RaceFree tr := by
  have hR' := poolRespects_of ts hR
  have hD' := poolDisjoint_of ts hD
  have := Proofs.Interleave.schedules_agree hR' hD' c h (sequential_is_schedule ts)
  exact ⟨this.1, this.2, Proofs.Interleave.raceFree hD' h⟩

/-- … and each thread's result is what it computes when it runs ALONE from the initial store: the other
    goroutines are invisible to it, under every schedule. -/
theorem thread_alone (ts : List (List (Step Val Local)))
    (hR : ∀ t, t ∈ ts → ∀ s, s ∈ t → Respects s) (hD : Disjoint ts)
    (c : Config Val Local) (tr : Trace Val Local) (h : Interleaving (pool ts) tr) (i : Nat) :
    (exec c tr).locals i = (solo c.store (c.locals i) (pool ts i)).2 :=
  (Proofs.Interleave.exec_eq_solo h (poolRespects_of ts hR) (poolDisjoint_of ts hD) c).1 i

/-- TABLE FACT (regenerated from the source on every run): the transitive footprints of the entry points —
    ngap.Encoder/Decoder, aper.Marshal*/Unmarshal*, PlainNasEncode/Decode, NASEncode/NASDecode,
    EncodeNasPduWithSecurity, GetNasPdu, NASEncrypt, NASMacCalculate, DeriveRESstarAndSetKey, GetKDFValue, the
    Milenage functions — over the package-level variables of the repo's packages are pairwise interference
    free, a pair of calls of the same entry point included (shared referents counted as written). -/
theorem C20_disjoint : footprintsDisjoint coreFPs = true := by decide +kernel

/-- the table is not vacuous: it lists the entry points, and they do read package-level variables
    (tables, logger entries, reflect type descriptors) -/
theorem C20_table_nontrivial :
    Gen.Footprint.footprint.length ≥ 20 ∧ (coreFPs.any (fun e => !e.reads.isEmpty)) = true := by decide +kernel

/-- INSTANTIATION for the entry points.  Any number of goroutines, each performing any sequence of calls of
    the entry points; each call decomposed in ANY way into atomic steps that stay within the entry point's
    regenerated footprint (`Call.Within`) and respect their own declared footprints.  Then under every
    interleaving of the atomic steps all results and the shared store equal those of the one-call-at-a-time
    run, and no conflicting access pair occurs. -/
theorem entry_points_noninterference (threads : List (List (Call Val Local)))
    (hW : ∀ t, t ∈ threads → ∀ c, c ∈ t → c.Within coreFPs)
    (hR : ∀ t, t ∈ threads → ∀ c, c ∈ t → ∀ s, s ∈ c.steps → Respects s)
    (c : Config Val Local) (tr : Trace Val Local) (h : Interleaving (pool (threads.map callSteps)) tr) :
    (exec c tr).locals = (exec c (sequential (threads.map callSteps))).locals ∧
    (exec c tr).store = (exec c (sequential (threads.map callSteps))).store ∧
    RaceFree tr := by
  have hD' := Proofs.Interleave.poolDisjoint_of_calls C20_disjoint threads hW
  have hR' : PoolRespects (pool (threads.map callSteps)) := by
    intro i s hs
    obtain ⟨t, ht, hst⟩ := Proofs.Interleave.mem_pool hs
    obtain ⟨cs, hcs, rfl⟩ := List.mem_map.mp ht
    obtain ⟨c', hc', hsc⟩ := Proofs.Interleave.mem_callSteps hst
    exact hR cs hcs c' hc' s hsc
  have := Proofs.Interleave.schedules_agree hR' hD' c h (sequential_is_schedule _)
  exact ⟨this.1, this.2, Proofs.Interleave.raceFree hD' h⟩

/-! ### the message builders (tglib.Get…, ngapTestpacket.Build…, nasTestpacket.Get…)

  The per-UE builders copy the slice `ngapTestpacket.TestPlmn.Value` into the PDUs they return, so those PDUs
  share its 3-octet backing array (`shares` in the table).  Counting that referent as READ, entry points and
  per-UE builders are pairwise interference free (`builders_partial`); that nothing writes through the copied
  reference is outside what the translator follows and is tied by the `conc` runs under the race detector.
  The NG Setup builders WRITE `TestPlmn` (`ngsetup_writes_plmn`): NG Setup is a gNB-level procedure that the
  emulator performs once, before the first UE is created; it is not an operation "for a UE". -/

theorem builders_partial : footprintsDisjoint allShareAsRead = true := by decide +kernel

/-- the only builders that write a package-level variable are the two NG Setup Request builders … -/
theorem ngsetup_only_writer :
    (Gen.Footprint.builders.filter (fun e => !e.writes.isEmpty)).all isNgSetup = true := by decide +kernel

/-- … and what they write is read by per-UE builders: NG Setup must happen before the UEs start -/
theorem ngsetup_writes_plmn :
    ((Gen.Footprint.builders.filter isNgSetup).all
      (fun e => ueBuilders.any (fun b => (toFPShareAsRead e).interferes (toFPShareAsRead b)))) = true ∧
    (Gen.Footprint.builders.filter isNgSetup).length = 2 := by decide +kernel

/-! ### F13: why the disjointness hypothesis cannot be dropped — SNOW 3G with package-level state -/

/-- two NEA1-shaped calls (`InitSnow3g`; `GenerateKeystream`) that share the generator state, as snow3g.go's
    package-level `lfsr`/`fsm` did: every step respects its footprint, the schedule
    Init(A) Init(B) Generate₀ Generate₁ is a legal interleaving, thread 0 receives a keystream that differs from
    the one it receives in the sequential run, and the schedule contains a conflicting access pair. -/
theorem snow3g_shared_state_counterexample :
    PoolRespects (pool Proofs.SnowRace.threads) ∧
    Interleaving (pool Proofs.SnowRace.threads) Proofs.SnowRace.witness ∧
    (exec Proofs.SnowRace.c0 Proofs.SnowRace.witness).locals 0
      ≠ (exec Proofs.SnowRace.c0 (sequential Proofs.SnowRace.threads)).locals 0 ∧
    ¬ RaceFree Proofs.SnowRace.witness :=
  ⟨Proofs.SnowRace.threads_respect, Proofs.SnowRace.witness_is_schedule,
   Proofs.SnowRace.witness_wrong_keystream, Proofs.SnowRace.witness_race⟩

/-- the conclusion of `noninterference` without the disjointness hypothesis -/
def StatementWithoutDisjointness : Prop :=
  ∀ (ts : List (List (Step Proofs.SnowRace.Val Proofs.SnowRace.Local))),
    (∀ t, t ∈ ts → ∀ s, s ∈ t → Respects s) →
    ∀ (c : Config Proofs.SnowRace.Val Proofs.SnowRace.Local) (tr : Trace Proofs.SnowRace.Val Proofs.SnowRace.Local),
      Interleaving (pool ts) tr → (exec c tr).locals = (exec c (sequential ts)).locals ∧ RaceFree tr

theorem disjointness_needed : ¬ StatementWithoutDisjointness := by
  intro h
  have hR : ∀ t, t ∈ Proofs.SnowRace.threads → ∀ s, s ∈ t → Respects s := by
    intro t ht s hs
    simp only [Proofs.SnowRace.threads, List.mem_cons, List.mem_nil_iff, or_false] at ht
    rcases ht with rfl | rfl <;>
    · simp only [Proofs.SnowRace.call, List.mem_cons, List.mem_nil_iff, or_false] at hs
      rcases hs with rfl | rfl
      · exact Proofs.SnowRace.respects_init _
      · exact Proofs.SnowRace.respects_gen _
  exact Proofs.SnowRace.witness_race
    (h _ hR Proofs.SnowRace.c0 _ Proofs.SnowRace.witness_is_schedule).2

/-! ### the hypotheses are satisfiable by a non-trivial system -/

/-- thread `i` adds the shared read-only constant at location 2 to its own counter at location `i` -/
def bump (i : Nat) : Step Nat Nat :=
  { reads := [i, 2], writes := [i], act := fun σ n => ([(i, σ i + σ 2)], n + σ i + σ 2) }

/-- two threads, two steps each; both read location 2, each writes only its own location: the hypotheses of
    `noninterference` hold, a non-sequential schedule exists, and the steps really do read and write -/
example :
    (∀ t, t ∈ [[bump 0, bump 0], [bump 1, bump 1]] → ∀ s, s ∈ t → Respects s) ∧
    Disjoint [[bump 0, bump 0], [bump 1, bump 1]] ∧
    Interleaving (pool [[bump 0, bump 0], [bump 1, bump 1]]) [(0, bump 0), (1, bump 1), (1, bump 1), (0, bump 0)] ∧
    (exec { store := fun _ => 1, locals := fun _ => 0 } [(0, bump 0), (1, bump 1), (1, bump 1), (0, bump 0)]).locals 0 = 5 := by
  have hb : ∀ i, Respects (bump i) := by
    intro i
    refine ⟨fun σ σ' n h => ?_, fun _ _ w hw => by simp [bump] at hw; simp [hw, bump]⟩
    have h1 : σ i = σ' i := h i (by simp [bump])
    have h2 : σ 2 = σ' 2 := h 2 (by simp [bump])
    simp [bump, h1, h2]
  refine ⟨?_, ?_, ?_, rfl⟩
  · intro t ht s hs
    simp only [List.mem_cons, List.mem_nil_iff, or_false] at ht
    rcases ht with rfl | rfl <;>
    · simp only [List.mem_cons, List.mem_nil_iff, or_false] at hs
      rcases hs with rfl | rfl <;> exact hb _
  · intro i j hi hj hij s hs s' hs' l hl
    have hi' : i = 0 ∨ i = 1 := by simp only [List.length_cons, List.length_nil] at hi; omega
    have hj' : j = 0 ∨ j = 1 := by simp only [List.length_cons, List.length_nil] at hj; omega
    rcases hi' with rfl | rfl <;> rcases hj' with rfl | rfl <;> simp at hij <;>
    · simp at hs hs'
      subst hs hs'
      simp [bump] at hl ⊢
      subst hl
      decide
  · refine Interleaving.pick (i := 0) (rest := [bump 0]) rfl ?_
    refine Interleaving.pick (i := 1) (rest := [bump 1]) rfl ?_
    refine Interleaving.pick (i := 1) (rest := []) rfl ?_
    refine Interleaving.pick (i := 0) (rest := []) rfl ?_
    refine Interleaving.done ?_
    intro i
    match i with
    | 0 => rfl
    | 1 => rfl
    | k + 2 => simp [upd, pool]

end Stgutg.Props.C20
