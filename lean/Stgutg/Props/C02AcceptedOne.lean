/-
  C02 — `C02_accepted_statement` for one UE and every count 1, THROUGH `emulate`, with the downlink side SPECIFIED
  (Spec/AmfDownlink.lean: registration as in C01, then PDU SESSION RESOURCE SETUP REQUEST, INITIAL CONTEXT SETUP REQUEST with the
  Service Accept, DOWNLINK NAS TRANSPORT with the Deregistration Accept, UE CONTEXT RELEASE COMMAND): `C02_accepted_partial` with
  every hypothesis about what the emulator reads, and the three C08 hypotheses, discharged. Seventh module of C02.
-/
import Stgutg.Props.C02Accepted
import Stgutg.Proofs.EmulatorDlLife
import Stgutg.Proofs.EmulatorLifeReenc
import Stgutg.Proofs.EmulatorLifeArgs

namespace Stgutg.Props.C02
open Stgutg Stgutg.Model.Emulator Stgutg.Proofs.Emulator Stgutg.Builders
open Stgutg.Model.NasProtect Stgutg.Proofs.NasProtect Stgutg.Spec.NasSecurity
open Stgutg.Proofs.BuildersRoles Stgutg.Proofs.UeIdentity Stgutg.Proofs.EmulatorRun Stgutg.Proofs.EmulatorSubscriber
open Stgutg.Proofs.EmulatorLife Stgutg.Props.C01 Stgutg.Proofs.KeyDerivation Stgutg.Proofs.EmulatorDownlink
open Stgutg.Proofs.EmulatorDlLife Stgutg.Proofs.EmulatorLifeReenc Stgutg.Proofs.EmulatorLifeArgs
open Stgutg.Model.KeyDerivation
open Stgutg.Spec.Ts35206 (BlockCipher)

/-- what `Spec.AmfDl.dlEstablish … = some d` says -/
theorem dlEstablish_some (P : Prims) (cfg : Spec.Amf.Cfg) (j : Nat) (ch : Spec.Amf.Choice) (ran : Int) (psi pti c : Nat) (d : Bytes)
    (aka : Spec.Ts33501A.Aka) (hvec : Spec.Amf.vector P cfg j ch = some aka)
    (h : Spec.AmfDl.dlEstablish P cfg j ch ran psi pti c = some d) :
    ∃ n, Spec.AmfDl.protectAt P (Spec.AmfDl.ctxOf aka) c (Spec.AmfDl.dlNasTransportAccept psi pti ch.ueIp) = some n ∧
      Spec.AmfDl.ngap (Spec.AmfDl.pduSessionResourceSetupRequest ch.amfUeNgapId ran psi n
        (Spec.AmfDl.setupTransfer ch.upfIp ch.teid).encode) = some d := by
  unfold Spec.AmfDl.dlEstablish at h
  simp only [Option.bind_eq_bind, Option.bind_eq_some_iff, hvec] at h
  obtain ⟨aka', ha, n, hn, hd⟩ := h
  cases ha
  exact ⟨n, hn, hd⟩

theorem dlService_some (P : Prims) (cfg : Spec.Amf.Cfg) (j : Nat) (ch : Spec.Amf.Choice) (ran : Int) (psi ul c : Nat) (d : Bytes)
    (aka : Spec.Ts33501A.Aka) (hvec : Spec.Amf.vector P cfg j ch = some aka) (plmn : Bytes) (hplmn : Spec.Amf.plmnOf cfg = some plmn)
    (h : Spec.AmfDl.dlService P cfg j ch ran psi ul c = some d) :
    ∃ n, Spec.AmfDl.ngap (Spec.AmfDl.initialContextSetupRequest ch.amfUeNgapId ran plmn (Spec.AmfDl.kgnbAt P aka.kamf ul) n) = some d := by
  unfold Spec.AmfDl.dlService at h
  simp only [Option.bind_eq_bind, Option.bind_eq_some_iff, hvec, hplmn] at h
  obtain ⟨p', hp, aka', ha, sa, _, n, _, hd⟩ := h
  cases ha; cases hp
  exact ⟨n, hd⟩

theorem dlDeregister_some (P : Prims) (cfg : Spec.Amf.Cfg) (j : Nat) (ch : Spec.Amf.Choice) (ran : Int) (c : Nat) (d1 d2 : Bytes)
    (h : Spec.AmfDl.dlDeregister P cfg j ch ran c = some (d1, d2)) :
    ∃ n, Spec.AmfDl.ngap (Spec.AmfDl.downlinkNasTransport ch.amfUeNgapId ran n) = some d1 ∧
      Spec.AmfDl.ngap (Spec.AmfDl.ueContextReleaseCommand ch.amfUeNgapId ran) = some d2 := by
  unfold Spec.AmfDl.dlDeregister at h
  simp only [Option.bind_eq_bind, Option.bind_eq_some_iff] at h
  obtain ⟨aka, _, da, _, n, _, x1, h1, x2, h2, he⟩ := h
  simp only [Option.pure_def, Option.some.injEq, Prod.mk.injEq] at he
  obtain ⟨rfl, rfl⟩ := he
  exact ⟨n, h1, h2⟩


/-- **C02_accepted_one.** The statement of C02 for ONE UE with `Test_ue_registation` = `Test_ue_pdu_establishment` =
    `Test_ue_service` = `Test_ue_pdu_release` = `Test_ue_deregistration` = 1, with the downlink side SPECIFIED: for every
    well-formed configuration (as in `C01_accepted`; S-NSSAI SD of three octets; a gNB GTP address the builders accept) and every
    choice of a conformant AMF/SMF (RAND, SQN, AMF field, ngKSI, AMF-UE-NGAP-ID below 2^40, an IPv4 UE address, a TEID below 2^32,
    an IPv4 UPF address), when the AMF sends the five messages of `Spec.AmfDl.dl` and then
      `dlEstablish` — PDU SESSION RESOURCE SETUP REQUEST carrying DL NAS TRANSPORT [PDU SESSION ESTABLISHMENT ACCEPT with the
                      assigned address] (DL NAS COUNT 3) and the transfer with the assigned tunnel, for the PSI / PTI of the request,
      `dlService`   — INITIAL CONTEXT SETUP REQUEST [SERVICE ACCEPT] (DL NAS COUNT 4; K_gNB of UL NAS COUNT 3),
      `dlDeregister`— DOWNLINK NAS TRANSPORT [DEREGISTRATION ACCEPT] (DL NAS COUNT 5) and UE CONTEXT RELEASE COMMAND
    — all built with the SPECIFICATION encoders only — each within the 2048-octet receive buffer, the emulator completes, writes
    fifteen uplink messages, reports one triple, and the reference AMF/SMF ACCEPTS (C02 clauses, numbers of procedures,
    reported = assigned):  judge true (emulate cfg dls).uls (some reports) = accept. -/
theorem C02_accepted_one (P : Prims) (hP : PrimsOk P) (hE : BlockCipher P.aes) (hH : MacLen P.hmac) (cfg : Cfg) (scfg : Spec.Amf.Cfg)
    (chs : List Spec.Amf.Choice) (E : Model.Convert.Ext)
    -- the configuration
    (hreg : cfg.reg = 1) (hpdu : cfg.pdu = 1) (hsvc : cfg.svc = 1) (hrel : cfg.rel = 1) (hdereg : cfg.dereg = 1)
    (hsreg : scfg.reg = 1) (hspdu : scfg.pdu = 1) (hssvc : scfg.svc = 1) (hsrel : scfg.rel = 1) (hsdereg : scfg.dereg = 1)
    (hhist : scfg.hist = false)
    (himsi : scfg.imsi = cfg.imsi) (hd : DecimalImsi cfg.imsi) (h5 : 5 ≤ cfg.imsi.length) (h15 : cfg.imsi.length ≤ 15)
    {w : Nat} (hw : w = 2 ∨ w = 3) (hmncl : cfg.mnc.length = w) (hmcc3 : cfg.mcc.length = 3)
    (hmccB : scfg.mcc = cfg.mcc) (hmncB : scfg.mnc = cfg.mnc)
    (hmcc : scfg.mcc = cfg.imsi.take 3) (hmnc : scfg.mnc = (cfg.imsi.drop 3).take w) (hlen : 3 + w < cfg.imsi.length)
    (hfit : MsinFits cfg.imsi (3 + w) 1)
    (h22 : 22 ≤ cfg.bitlength) (h32 : cfg.bitlength ≤ 32) (hg : cfg.gnbId.length = (cfg.bitlength + 7) / 8)
    (hc : Canonical cfg.gnbId cfg.bitlength) (hname : 1 ≤ cfg.name.length)
    (m : Bytes) (hplmn : Model.Suci.ngSetupPlmn cfg.imsi cfg.mnc.length = .ok m) (hm : m.length = 3)
    (hcfg : Spec.Amf.plmnOf scfg = some m)
    (k opc : Bytes) (hk : hexDecode cfg.k = some k) (hk' : Spec.Amf.hexText scfg.k = some k) (hk16 : k.length = 16)
    (hopcne : cfg.opc ≠ []) (hopc : hexDecode cfg.opc = some opc) (hopc' : Spec.Amf.opcOf P scfg = some opc)
    (hopc16 : opc.length = 16) (habba : 2 ≤ scfg.abba.length ∧ scfg.abba.length < 256)
    (s1 s2 s3 : UInt8) (hsd : E.hexDecode cfg.sd = ([s1, s2, s3], false)) (hgtp : cls E .ip (.str cfg.gnbGtp) = 2)
    -- the AMF's choice
    (ch : Spec.Amf.Choice) (hch : chs[0]? = some ch) (hamf : ch.amfUeNgapId < 2 ^ 40)
    (hrand : ch.rand.length = 16) (hsqn : ch.sqn.length = 6) (hamfF : ch.amf.length = 2)
    (hueIp : ch.ueIp.length = 4) (hupfIp : ch.upfIp.length = 4) (hteid : ch.teid < 2 ^ 32)
    -- the downlink messages are those of the specification
    (cap : Bytes) (dls : List Bytes) (dE dS dD1 dD2 : Bytes)
    (hdl : Spec.AmfDl.dl P scfg 0 ch (createUE cfg 0).ctx.ranUeNgapId cap = some dls)
    (hdE : Spec.AmfDl.dlEstablish P scfg 0 ch (createUE cfg 0).ctx.ranUeNgapId
      (pduIdOf ((Model.UeIdentity.decVal cfg.imsi : Nat) : Int)).toNat 1 3 = some dE)
    (hdS : Spec.AmfDl.dlService P scfg 0 ch (createUE cfg 0).ctx.ranUeNgapId
      (pduIdOf ((Model.UeIdentity.decVal cfg.imsi : Nat) : Int)).toNat 3 4 = some dS)
    (hdD : Spec.AmfDl.dlDeregister P scfg 0 ch (createUE cfg 0).ctx.ranUeNgapId 5 = some (dD1, dD2))
    (hbuf : ∀ d ∈ dls ++ [dE, dS, dD1, dD2], d.length ≤ 2048) :
    let t := emulate P E cfg (dls ++ [dE, dS, dD1, dD2])
    t.outcome = .completed ∧ t.uls.length = 15 ∧
    Spec.Amf.judge P true scfg chs t.uls (some (t.reports.map fun r => { ip := r.ip, teid := r.teid, upf := r.upf }))
      (t.outcome == .completed) = .accept := by
  have hFits := msinFits_fits hd hfit
  unfold Fits at hFits
  have hjfit : Model.UeIdentity.decVal cfg.imsi + 0 < 10 ^ cfg.imsi.length := by omega
  -- registration
  obtain ⟨d1, d2, d3, d4, d5, aka, keys, v1, rfl, hvec, _, hdec1, ⟨D⟩, hk1, hk2, hk3⟩ := C01_dlReads_of_spec P hE hH cfg scfg himsi hd h5 h15
    hmcc3 (by rw [hmncl]; exact hw) hmccB hmncB m hm hcfg k opc hk hk' hk16 hopcne hopc hopc' hopc16 habba 0 hjfit ch hamf hrand hsqn
    hamfF cap dls hdl (fun d hd' => hbuf d (List.mem_append_left _ hd'))
  have hb : ∀ d ∈ [dE, dS, dD1, dD2], d.length ≤ 2048 := fun d hd' => hbuf d (List.mem_append_right _ hd')
  simp only [List.mem_cons, List.not_mem_nil, or_false, forall_eq_or_imp, forall_eq] at hb
  obtain ⟨hbE, hbS, hbD1, hbD2⟩ := hb
  -- identifiers
  obtain ⟨hr0, hr1⟩ := ran_range cfg hd 0 (by decide)
  have ha0 : (0 : Int) ≤ ch.amfUeNgapId := Int.natCast_nonneg _
  have ha1 : (ch.amfUeNgapId : Int) < 2 ^ 40 := by exact_mod_cast hamf
  have hsupi := supiInt_created cfg hd 0 hjfit
  obtain ⟨hn0, hn63⟩ := supi_range cfg hd 0 hjfit
  simp only [Nat.add_zero] at hsupi hn0 hn63
  obtain ⟨psi, hp8, hpcast, hp1, hp15⟩ := psi_facts _ hn0 hn63
  rw [← hpcast] at hdE hdS
  simp only [Int.toNat_natCast] at hdE hdS
  have hpsi255 : (psi : Int) ≤ 255 := by
    have : psi ≤ 255 := Nat.le_trans hp15 (by decide)
    exact_mod_cast this
  -- the downlink messages after registration
  obtain ⟨nE, hnE, hngE⟩ := dlEstablish_some P scfg 0 ch _ psi 1 3 dE aka hvec hdE
  obtain ⟨xE, hxE, hdecE⟩ := setupReq_roundtrip ch.amfUeNgapId (createUE cfg 0).ctx.ranUeNgapId
    (psi : Int) nE (Spec.AmfDl.setupTransfer ch.upfIp ch.teid).encode
    ha0 ha1 hr0 hr1 (Int.natCast_nonneg _) hpsi255
  have : xE = dE := Option.some.inj (hxE.symm.trans hngE); subst this
  have hrep := extractReport_spec P hP (Spec.AmfDl.ctxOf aka) rfl rfl 3 psi 1 ch.ueIp ch.upfIp ch.teid hueIp hupfIp hteid
    ch.amfUeNgapId (createUE cfg 0).ctx.ranUeNgapId (psi : Int) nE hnE
  obtain ⟨nS, hngS⟩ := dlService_some P scfg 0 ch _ psi 3 4 dS aka hvec m hcfg hdS
  obtain ⟨xS, hxS, hdecS⟩ := icsReq_roundtrip m hm ch.amfUeNgapId (createUE cfg 0).ctx.ranUeNgapId (Spec.AmfDl.kgnbAt P aka.kamf 3) nS
    ha0 ha1 hr0 hr1 (by unfold Spec.AmfDl.kgnbAt Spec.Ts33501A.kdf; exact hH _ _)
  have : xS = dS := Option.some.inj (hxS.symm.trans hngS); subst this
  obtain ⟨nD, hngD1, hngD2⟩ := dlDeregister_some P scfg 0 ch _ 5 dD1 dD2 hdD
  obtain ⟨xD1, hxD1, hdecD1⟩ := dnt_roundtrip ch.amfUeNgapId (createUE cfg 0).ctx.ranUeNgapId nD ha0 ha1 hr0 hr1
  have : xD1 = dD1 := Option.some.inj (hxD1.symm.trans hngD1); subst this
  obtain ⟨xD2, hxD2, hdecD2⟩ := ueCtxRel_roundtrip ch.amfUeNgapId (createUE cfg 0).ctx.ranUeNgapId ha0 ha1 hr0 hr1
  have : xD2 = dD2 := Option.some.inj (hxD2.symm.trans hngD2); subst this
  have hsn : ∀ x, some ((cfg.sst % 256).toNat, s1, s2, s3) = some x → x.1 < 256 := fun x hx => by
    cases hx; show (cfg.sst % 256).toNat < 256; omega
  have hint : internet.length ≤ 99 ∧ ∀ c ∈ internet, c ≠ 0x2E := ⟨by decide, by decide⟩
  have hone : Spec.Amf.subscribers scfg = 1 := by simp [Spec.Amf.subscribers, hsreg]
  exact C02_accepted_partial P hP hH cfg scfg chs E d1 d2 d3 d4 d5 xE xS xD1 xD2 hreg hpdu hsvc hrel hdereg
    (by simp [Spec.Amf.expectedEstablished, Spec.Amf.expectedServices, Spec.Amf.expectedReleases, Spec.Amf.expectedDeregs,
          Spec.Amf.natMin, hsreg, hspdu, hssvc, hsrel, hsdereg, hhist])
    hone himsi hd hw hmncl hmcc hmnc hlen hfit h22 h32 hg hc hname m hplmn hm hcfg ch aka hch hvec hamf v1 hdec1 keys (createUE cfg 0) D
    ⟨rfl, rfl, rfl⟩ ⟨hk1, hk2, hk3⟩ _ hsupi hn0 hn63 s1 s2 s3 hsd hgtp _ _ _ _ _
    (by rw [take2048 _ hbE]; exact hdecE) hrep ⟨rfl, rfl, rfl⟩ (by rw [take2048 _ hbS]; exact hdecS)
    (by rw [take2048 _ hbD1]; exact hdecD1) (by rw [take2048 _ hbD2]; exact hdecD2)
    (fun p hp => reenc_ulEstablishment psi 1 internet (some ((cfg.sst % 256).toNat, s1, s2, s3)) (Nat.lt_of_le_of_lt hp15 (by decide)) (by decide) hint hsn p
      (by rw [← hp8]; exact hp))
    (fun p hp => reenc_ulReleaseComplete psi 1 internet (some ((cfg.sst % 256).toNat, s1, s2, s3)) (Nat.lt_of_le_of_lt hp15 (by decide)) (by decide) hint hsn p
      (by rw [← hp8]; exact hp))
    (fun suci p hs hp => by
      obtain ⟨su, hsu, hslen, _⟩ := C01_subscriber_identified scfg (by rw [himsi]; exact hd) hw (by rw [himsi]; exact hmcc)
        (by rw [himsi]; exact hmnc) (by rw [himsi]; exact hlen) (by rw [himsi, hone]; exact hfit) (j := 0) (by rw [hone]; omega)
        cfg.k cfg.opc cfg.op
      have e : Model.Suci.encodeSuci (Model.Suci.trimImsiPrefix (createUE cfg 0).ctx.supi) cfg.mnc.length = .ok su := by
        rw [hmncl]
        have : (createUE cfg 0).ctx = Model.UeIdentity.createUE scfg.imsi ((0 : Nat) : Int) cfg.k cfg.opc cfg.op := by
          rw [himsi]; rfl
        rw [this]; exact hsu
      rw [hs] at e
      cases e
      have h18 := hd.short
      rw [himsi] at hslen
      exact reenc_deregistrationRequest 1 0 4 (suciVal suci) (by decide) (by decide) (by decide) (by decide)
        (by show suci.length % 65536 = suci.length; omega) (by show suci.length < 65536; omega) p hp)

end Stgutg.Props.C02
