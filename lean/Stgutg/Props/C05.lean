/-
  C05 — 5G-AKA: RES* and the NAS key hierarchy equal what the network derives.
  Property theorems only; helper lemmas live in Stgutg/Proofs/KeyDerivation.lean.
  Everything is stated for ALL inputs and for EVERY block cipher `P.aes` / 256-bit MAC `P.hmac`.
-/
import Stgutg.Proofs.KeyDerivation

namespace Stgutg.Props.C05
open Stgutg Stgutg.Model.KeyDerivation Stgutg.Proofs.KeyDerivation Stgutg.Proofs.Milenage
open Stgutg.Spec.Ts35206 (BlockCipher)
open Stgutg.Spec.Ts33501A (kdf kausf kseaf kamf algKey resStar aka abba0 nNasEncAlg nNasIntAlg fcKausf)

/-- "imsi-" -/
def imsiPrefix : Bytes := str ['i', 'm', 's', 'i', '-']

/-- `GetKDFValue(key, FC, P0, KDFLen(P0), …, Pn, KDFLen(Pn))` is the TS 33.220 B.2 KDF
    HMAC(key, FC ‖ P0 ‖ L0 ‖ … ‖ Pn ‖ Ln) for every number of parameters -/
theorem kdf_eq_spec (P : Prims) (key fcS : Bytes) (c : UInt8) (ps : List Bytes)
    (hfc : hexDecode fcS = some [c]) (h : ∀ p ∈ ps, p.length < 65536) :
    GetKDFValue P key fcS (ps.flatMap fun p => [p, KDFLen p]) = kdf P.hmac key c ps :=
  getKDFValue_eq P key fcS c ps hfc h

/-- the MAC input is the plain concatenation of the decoded FC and the parameters -/
theorem kdf_is_hmac_of_concat (P : Prims) (key fcS fc : Bytes) (ps : List Bytes) (hfc : hexDecode fcS = some fc) :
    GetKDFValue P key fcS ps = P.hmac key (fc ++ ps.flatten) := by
  simp [GetKDFValue, hfc]

/-- DerivateKamf computes K_AUSF (A.2), K_SEAF (A.6) and K_AMF (A.7, SUPI digits, ABBA 0x0000) -/
theorem kausf_kseaf_kamf_eq_spec (P : Prims) (ck ik snn sqnXorAk digits : Bytes)
    (hd : digits.all isDigit = true) (h5 : 5 ≤ digits.length) (h15 : digits.length ≤ 15)
    (hsnn : snn.length < 65536) (hsqn : sqnXorAk.length < 65536) :
    derivateKamfChain P (imsiPrefix ++ digits) (ck ++ ik) snn sqnXorAk
      = .ok (kausf P.hmac ck ik snn sqnXorAk,
             kseaf P.hmac (kausf P.hmac ck ik snn sqnXorAk) snn,
             kamf P.hmac (kseaf P.hmac (kausf P.hmac ck ik snn sqnXorAk) snn) digits abba0) := by
  have e1 := getKDFValue_eq P (ck ++ ik) _ _ [snn, sqnXorAk] fc_kausf (by simp; omega)
  have e2 := fun key => getKDFValue_eq P key _ _ [snn] fc_kseaf (by simp; omega)
  have e3 := fun key => getKDFValue_eq P key _ _ [digits, [0x00, 0x00]] fc_kamf (by simp; omega)
  simp only [List.flatMap_cons, List.flatMap_nil, List.append_nil, List.cons_append, List.nil_append] at e1 e2 e3
  simp only [derivateKamfChain, imsiPrefix, supiFind_imsi hd h5 h15, e1, e2, e3]
  rfl

/-- DerivateAlgKey computes K_NASenc / K_NASint (A.8): distinguishers 0x01 / 0x02, the algorithm identity,
    the 128 least significant bits of the KDF output -/
theorem algkey_eq_spec (P : Prims) (hH : MacLen P.hmac) (kamfV : Bytes) (ca ia : UInt8) :
    DerivateAlgKey P kamfV ca ia
      = .ok (algKey P.hmac kamfV nNasEncAlg ca, algKey P.hmac kamfV nNasIntAlg ia) := by
  have e := fun d a => getKDFValue_eq P kamfV _ _ [[d], [a]] fc_alg (by simp)
  simp only [List.flatMap_cons, List.flatMap_nil, List.append_nil, List.cons_append, List.nil_append] at e
  have hl : ∀ d a, ¬ (kdf P.hmac kamfV Spec.Ts33501A.fcAlgKey [[d], [a]]).length < 32 := fun d a => by
    rw [kdf, hH]; omega
  simp only [DerivateAlgKey, e, hl, if_false, algKey]
  have hk : ∀ d a, (kdf P.hmac kamfV Spec.Ts33501A.fcAlgKey [[d], [a]]).length = 32 := fun d a => by rw [kdf, hH]
  rw [low128_32 (hk _ _), low128_32 (hk _ _)]
  rfl

/-- the serving network name built in RegisterUE is the TS 24.501 name for a 2-digit MNC ("0" inserted) … -/
theorem snname_2digit (mnc mcc : Bytes) (hmnc : mnc.length = 2) :
    snName mnc mcc = Spec.Ts33501A.snName mcc mnc := snName_eq_spec (Or.inl hmnc)
/-- … and for a 3-digit MNC; with a 3-digit MCC it has 32 octets -/
theorem snname_3digit (mnc mcc : Bytes) (hmnc : mnc.length = 3) :
    snName mnc mcc = Spec.Ts33501A.snName mcc mnc := snName_eq_spec (Or.inr hmnc)
theorem snname_length (mnc mcc : Bytes) (hmcc : mcc.length = 3) (hmnc : mnc.length = 2 ∨ mnc.length = 3) :
    (snName mnc mcc).length = 32 := by rw [snName_eq_spec hmnc]; exact snName_length hmcc hmnc


/-- the modelled wmnsk `F2345()` (OPc configured) returns TS 35.206 RES = f2, CK = f3, IK = f4, AK = f5 -/
theorem milenage_f2345_eq_spec (P : Prims) (hE : BlockCipher P.aes) (k opc rand : Bytes)
    (hk : k.length = 16) (hopc : opc.length = 16) (hrand : rand.length = 16) :
    Mil.F2345 P { k := k, op := none, opc := some opc, rand := rand }
      = some { res := Spec.Ts35206.f2 P.aes k opc rand, ck := Spec.Ts35206.f3 P.aes k opc rand,
               ik := Spec.Ts35206.f4 P.aes k opc rand, ak := Spec.Ts35206.f5 P.aes k opc rand } :=
  mil_f2345_opc P hE none hk hopc hrand (by simp)

/-- the modelled wmnsk `ComputeRESStar(mcc, mnc)` returns RES* of A.4: the last 128 bits of
    KDF(CK ‖ IK, 0x6B, SN name, RAND, RES) with the serving network name of (MCC, MNC) -/
theorem resstar_eq_spec (P : Prims) (hH : MacLen P.hmac) (rand mcc mnc : Bytes) (o : MilOut)
    (hrand : rand.length = 16) (hres : o.res.length = 8) (hck : o.ck.length = 16) (hik : o.ik.length = 16)
    (hmcc : mcc.length = 3) (hmnc : mnc.length = 2 ∨ mnc.length = 3) :
    computeRESStar P rand o mcc mnc
      = .ok (some (resStar P.hmac o.ck o.ik (Spec.Ts33501A.snName mcc mnc) rand o.res)) :=
  computeRESStar_eq P hH o hrand hres hck hik hmcc hmnc

/-- what the specification makes of the inputs, in the shape DeriveRESstarAndSetKey reports -/
def specKeys (P : Prims) (k opc rand autn mcc mnc digits : Bytes) (ca ia : UInt8) : UeKeys :=
  let s := aka P.aes P.hmac k opc rand (autn.take 6) mcc mnc digits ca ia
  { resStar := s.resStar, kamf := s.kamf, knasEnc := s.knasEnc, knasInt := s.knasInt }

/-- MAIN: with OPc configured, for every K, OPc, RAND, AUTN, AMF string, MCC, MNC of 2 or 3 digits, IMSI SUPI of
    5..15 digits and every algorithm pair, the returned RES* and the installed K_AMF, K_NASenc, K_NASint are
    TS 35.206 f2..f4 followed by TS 33.501 A.4, A.2, A.6, A.7, A.8 over the serving network name of the PLMN -/
theorem derive_eq_spec (P : Prims) (hE : BlockCipher P.aes) (hH : MacLen P.hmac)
    (a : AuthSubs) (amf k opc rand autn mcc mnc digits : Bytes) (ca ia : UInt8)
    (hamf : hexDecode a.amf = some amf) (hamf2 : 2 ≤ amf.length)
    (hk : hexDecode a.k = some k) (hk16 : k.length = 16)
    (hopcne : a.opc ≠ []) (hopc : hexDecode a.opc = some opc) (hopc16 : opc.length = 16)
    (hrand : rand.length = 16)
    (hd : digits.all isDigit = true) (h5 : 5 ≤ digits.length) (h15 : digits.length ≤ 15)
    (hmcc : mcc.length = 3) (hmnc : mnc.length = 2 ∨ mnc.length = 3) :
    DeriveRESstarAndSetKey P (imsiPrefix ++ digits) ca ia a autn rand (snName mnc mcc) mnc mcc
      = .ok (specKeys P k opc rand autn mcc mnc digits ca ia) := by
  have hamf' : ¬ amf.length < 2 := by omega
  have hsn := snName_length hmcc hmnc
  have hsq : (autn.take 6).length < 65536 := by simp; omega
  have hf2 := f2_length hE hk16 hopc16 hrand
  have hf3 := f3_length hE hk16 hopc16 hrand
  have hf4 := f4_length hE hk16 hopc16 hrand
  have hchain := kausf_kseaf_kamf_eq_spec P (Spec.Ts35206.f3 P.aes k opc rand) (Spec.Ts35206.f4 P.aes k opc rand)
    (Spec.Ts33501A.snName mcc mnc) (autn.take 6) digits hd h5 h15 (by omega) hsq
  have hres := computeRESStar_eq P hH (rand := rand) (mcc := mcc) (mnc := mnc)
    { res := Spec.Ts35206.f2 P.aes k opc rand, ck := Spec.Ts35206.f3 P.aes k opc rand,
      ik := Spec.Ts35206.f4 P.aes k opc rand, ak := Spec.Ts35206.f5 P.aes k opc rand } hrand hf2 hf3 hf4 hmcc hmnc
  simp only [DeriveRESstarAndSetKey, hamf, hk, hopcne, if_false, hopc, hamf',
    mil_f2345_opc P hE none hk16 hopc16 hrand (by simp), snName_eq_spec hmnc, DerivateKamf, hchain, Except.map,
    algkey_eq_spec P hH, hres]
  rfl

/-- OP-only configuration: the result is the same as with the corresponding OPc = OP xor E_K(OP) configured
    (every other input, well-formed or not, being equal) -/
theorem op_opc (P : Prims) (hE : BlockCipher P.aes) (a b : AuthSubs) (k op : Bytes)
    (supi autn rand snn mnc mcc : Bytes) (ca ia : UInt8)
    (hk : hexDecode a.k = some k) (hk16 : k.length = 16)
    (ha : a.opc = []) (hop : hexDecode a.op = some op) (hop16 : op.length = 16)
    (hrand : rand.length = 16)
    (hbamf : b.amf = a.amf) (hbk : b.k = a.k)
    (hbne : b.opc ≠ []) (hbopc : hexDecode b.opc = some (Spec.Ts35206.opc P.aes k op)) :
    DeriveRESstarAndSetKey P supi ca ia a autn rand snn mnc mcc
      = DeriveRESstarAndSetKey P supi ca ia b autn rand snn mnc mcc := by
  unfold DeriveRESstarAndSetKey
  rw [hbamf, hbk]
  cases hamf : hexDecode a.amf with
  | none => rfl
  | some amf =>
    simp only [hk, ha, if_true, hop, hbne, if_false, hbopc]
    by_cases h2 : amf.length < 2
    · simp [h2]
    · simp only [h2, if_false, mil_f2345_op P hE hk16 hop16 hrand]

/-- the hypotheses of `derive_eq_spec` are satisfiable (E = xor with the key, MAC = 32 zero octets) -/
example : ∃ (P : Prims) (a : AuthSubs) (amf k opc rand mcc mnc digits : Bytes),
    BlockCipher P.aes ∧ MacLen P.hmac ∧ hexDecode a.amf = some amf ∧ 2 ≤ amf.length ∧
    hexDecode a.k = some k ∧ k.length = 16 ∧ a.opc ≠ [] ∧ hexDecode a.opc = some opc ∧ opc.length = 16 ∧
    rand.length = 16 ∧ digits.all isDigit = true ∧ 5 ≤ digits.length ∧ digits.length ≤ 15 ∧
    mcc.length = 3 ∧ (mnc.length = 2 ∨ mnc.length = 3) :=
  ⟨{ aes := xorBytes, ctr := fun _ _ m => m, cmac := fun _ m => m, hmac := fun _ _ => List.replicate 32 0 },
   { amf := str ['8', '0', '0', '0'], k := List.replicate 32 0x30, opc := List.replicate 32 0x30, op := [] },
   [0x80, 0x00], List.replicate 16 0, List.replicate 16 0, List.replicate 16 0,
   str ['2', '0', '8'], str ['9', '3'], str ['2', '0', '8', '9', '3', '0', '0', '0', '0', '0', '0', '0', '0', '0', '3'],
   fun k x hk hx => by rw [xorBytes_length]; omega, fun _ _ => rfl,
   by decide, by decide, by decide, by decide, by decide, by decide, by decide, by decide, by decide, by decide, by decide,
   by decide, by decide⟩

end Stgutg.Props.C05
