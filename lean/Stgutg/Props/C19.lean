/-
  C19 — fail-stop when the AMF disappears or answers garbage.
  Property theorems only.

  The program is the script GENERATED from src/stgutg/{ngsetup,ue,pdu,service}.go and the test-mode branch of
  stg-utg.go (Gen/Script.lean, `gen script`): per procedure the ordered I/O actions with, for each, whether its error
  reaches ManageError before the next action. Model/FailStop.lean gives the script its meaning (`run`), for any
  configuration counts and any sequence of peer replies (ok | other | garbage | closed), and optionally a peer that
  closes after accepting w uplink messages.

  Not modelled (see DESIGN.md section 6; tied by the process-level runs of the real binary, domain `failstop`):
  the kernel's socket semantics (EOF after the peer's close, EPIPE on a write to it), os.Exit, the scheduler, the
  message builders (assumed not to fail because of the peer). A peer that neither answers nor closes is outside the
  property's fault model (`blocked` in the model). Traffic mode (needs XDP) is not translated.
-/
import Stgutg.Model.FailStop
import Stgutg.Gen.Script
import Stgutg.Proofs.FailStop
import Stgutg.Spec.FailStop

namespace Stgutg.Props.C19
open Stgutg.Model.FailStop Stgutg.Proofs.FailStop Stgutg.Gen.Script

/-! ### the generated script: table facts (kernel evaluation) -/

/-- everything of the test-mode branch before its last three statements -/
def body : List MainItem := script.main.take (script.main.length - 3)

/-- its last three statements -/
def tail : List MainItem := script.main.drop (script.main.length - 3)

/-- **Test mode ends with the completion banner, `conn.Close()`, `os.Exit(0)`** and with nothing else. -/
theorem C19_epilogue :
    tail = [.stmt (.act (.print banner)), .stmt (.act .closeConn), .stmt (.act (.exit 0))] := by decide +kernel

/-- **Every operation before the banner is fail-stop safe** (`safeOp`): every `conn.Read` and `conn.Write` error reaches
    `ManageError`; a decoder error reaches it or the decoded PDU is discarded; there is no `os.Exit(0)`, no completion
    banner, no decode of a stale buffer and no call of an unknown procedure. -/
theorem C19_script_safe : body.all (itemSafe script.procs) = true := by decide +kernel

def actIO : Act → Bool
  | .read c _ => c
  | .write _ _ c _ => c
  | _ => true

/-- every `conn.Read` and every `conn.Write` of every procedure is followed by `ManageError` -/
theorem C19_every_read_and_write_checked : ∀ p ∈ script.procs, p.2.all actIO = true := by decide +kernel

def decodeOk : Act → Bool
  | .decode v c _ => c || v.isNone
  | _ => true

/-- a decoder result whose error is not checked is never bound to a variable -/
theorem C19_unchecked_decode_is_discarded : ∀ p ∈ script.procs, p.2.all decodeOk = true := by decide +kernel

/-- per procedure: for each read, whether undecodable octets stop the program -/
def procKinds (p : String) : List Bool := kinds (procOps script.procs p)

/-- **Reads per procedure**: NG Setup 1, registration 4 (the last one ignores what it reads), establishment 1,
    service request 1, release 0, de-registration 2. -/
theorem C19_reads_per_procedure :
    procKinds "ManageNGSetup" = [true] ∧ procKinds "RegisterUE" = [true, true, true, false] ∧
    procKinds "EstablishPDU" = [true] ∧ procKinds "ServiceRequest" = [true] ∧
    procKinds "ReleasePDU" = [] ∧ procKinds "DeregisterUE" = [true, true] := by decide +kernel

/-- the NAS message written last before each read whose content is ignored -/
def ignoredAfter : Option String → List Op → List (Option String)
  | _, [] => []
  | _, .write _ nas _ _ :: rest => ignoredAfter (some nas) rest
  | last, .recv _ _ decoded _ dc _ :: rest => (if decoded && dc then [] else [last]) ++ ignoredAfter none rest
  | last, _ :: rest => ignoredAfter last rest

/-- **The only read whose content is ignored is the one that follows Registration Complete** -/
theorem C19_ignored_read_follows_registration_complete :
    script.procs.map (fun p => (p.1, ignoredAfter none (fuse p.2))) =
      [("ManageNGSetup", []), ("RegisterUE", [some "GetRegistrationComplete"]), ("EstablishPDU", []),
       ("ServiceRequest", []), ("ReleasePDU", []), ("DeregisterUE", [])] := by decide +kernel

/-- an unchecked builder result is written by the next I/O action, and that write is checked -/
def uncheckedBuilds : List Act → Bool
  | [] => true
  | .build f false _ :: rest =>
    (match rest.find? (fun a => match a with | .derive .. => false | .use .. => false | _ => true) with
     | some (.write n _ c _) => c && ("tglib." ++ n == f)
     | _ => false) && uncheckedBuilds rest
  | _ :: rest => uncheckedBuilds rest

theorem C19_unchecked_builds_feed_checked_write : ∀ p ∈ script.procs, uncheckedBuilds p.2 = true := by decide +kernel

/-- `ReleasePDU` only writes (three messages): a peer that has closed is met by EPIPE -/
theorem C19_release_only_writes :
    procKinds "ReleasePDU" = [] ∧ writes (procOps script.procs "ReleasePDU") = 3 := by decide +kernel

/-! ### the run -/

/-- the operations of a whole test-mode run before the banner, for the given counts -/
def testBody (c : Counts) : List Op := flatItems script.procs c body

/-- number of reads of a fault-free run -/
def totalReads (c : Counts) : Nat := (kinds (testBody c)).length

/-- read `k` (0 = NG Setup Response) hands its octets to the decoder and checks the decoder's error -/
def strictRead (c : Counts) (k : Nat) : Bool := (kinds (testBody c))[k]?.getD false

/-- read `k` exists and ignores the content of what it reads -/
def ignoredRead (c : Counts) (k : Nat) : Prop := k < totalReads c ∧ strictRead c k = false

theorem flat_split (c : Counts) : flat script c = testBody c ++ flatItems script.procs c tail := by
  have h : script.main = body ++ tail := (List.take_append_drop _ _).symm
  simp only [flat, testBody]
  rw [← flatItems_append, ← h]

theorem testBody_safe (c : Counts) : ∀ op ∈ testBody c, safeOp op = true :=
  safe_flatItems script.procs c body C19_script_safe

theorem no_banner_in_body (c : Counts) : Op.print banner ∉ testBody c := by
  intro h
  have := testBody_safe c _ h
  simp [safeOp] at this

/-- **C19, full strength.** For ALL configuration counts (any number of UEs, any repetition counts, negative and
    larger than the number of registered UEs included) and ANY sequence of peer replies: if the reply to read `k` of
    the conversation is "the peer has closed", or is undecodable octets and `k` is not the read after Registration
    Complete, then the process terminates with a non-zero exit status, the completion banner is not printed, every
    session that is reported was reported before reply `k` was read, reply `k` is the last thing ever read (no read is
    retried), and the time slept is bounded by the script's own sleeps. -/
theorem C19_failstop (c : Counts) (rs : List Reply) (k : Nat) (hk : k < totalReads c)
    (hf : rs[k]? = some .closed ∨ (rs[k]? = some .garbage ∧ ¬ ignoredRead c k)) :
    (∃ e, (run script c rs).exit = some e ∧ e ≠ 0) ∧
    Out.line banner ∉ (run script c rs).printed ∧
    (∀ x ∈ (run script c rs).sessions, x ≤ k) ∧
    (run script c rs).consumed ≤ k + 1 ∧
    (run script c rs).blocked = false ∧
    (run script c rs).sleptMs ≤ sleepTotal (testBody c) := by
  have hfault : ∃ r, (initSt rs).rs[k]? = some r ∧ isFault ((kinds (testBody c))[k]?.getD false) r = true := by
    rcases hf with h | ⟨h, hn⟩
    · exact ⟨.closed, h, rfl⟩
    · refine ⟨.garbage, h, ?_⟩
      simp only [ignoredRead, not_and, Bool.not_eq_false] at hn
      simpa [isFault, strictRead] using hn hk
  have hrun0 : (initSt rs).done = false := by simp [initSt, St.done]
  have st := failstop_core (testBody c) (testBody_safe c) (initSt rs) k hrun0 hk hfault
  have hrun : run script c rs = exec (testBody c) (initSt rs) := by
    simp only [run]
    rw [flat_split, exec_append, exec_done _ _ (dead_done st.dead)]
  rw [hrun]
  refine ⟨st.dead, ?_, ?_, ?_, ?_, ?_⟩
  · intro hb
    rcases st.printed banner hb with h | h
    · simp [initSt] at h
    · exact no_banner_in_body c h
  · intro x hx
    rcases st.sessions x hx with h | h
    · simp [initSt] at h
    · simpa [initSt] using h
  · simpa [initSt] using st.consumed
  · obtain ⟨e, he, _⟩ := st.dead
    have hd := dead_done st.dead
    cases hbl : (exec (testBody c) (initSt rs)).blocked with
    | false => rfl
    | true =>
      -- a blocked state never has an exit status: `step` sets `blocked` only from a running state
      exfalso
      have := blocked_no_exit (testBody c) (initSt rs) (by simp [initSt]) hbl
      simp [he] at this
  · simpa [initSt] using st.slept

/-- **C19, the peer closes between two uplink messages** (after accepting `w` of them, e.g. inside `ReleasePDU`, which
    never reads): if the program still has a message to send and the peer answered every read until then, the process
    terminates with a non-zero exit status, the banner is not printed and nothing more is delivered. (After the very
    last uplink message the program does no I/O at all; a close there cannot be noticed.) -/
theorem C19_failstop_peer_closes_between_messages (c : Counts) (rs : List Reply) (w : Nat)
    (hw : w < writes (testBody c)) (hlen : totalReads c ≤ rs.length) :
    (∃ e, (run script c rs (some w)).exit = some e ∧ e ≠ 0) ∧
    Out.line banner ∉ (run script c rs (some w)).printed ∧
    (run script c rs (some w)).ul.length ≤ w := by
  have hrun0 : (initSt rs (some w)).done = false := by simp [initSt, St.done]
  have st := failstop_close_after (testBody c) (testBody_safe c) (initSt rs (some w)) w hrun0 rfl hw
    (by simpa [initSt, totalReads] using hlen)
  have hrun : run script c rs (some w) = exec (testBody c) (initSt rs (some w)) := by
    simp only [run]
    rw [flat_split, exec_append, exec_done _ _ (dead_done st.dead)]
  rw [hrun]
  refine ⟨st.dead, ?_, ?_⟩
  · intro hb
    rcases st.printed banner hb with h | h
    · simp [initSt] at h
    · exact no_banner_in_body c h
  · simpa [initSt] using st.ul

/-! ### which reads there are (closed forms, all counts) -/

def nReg (c : Counts) : Nat := c.reg.toNat
def nPdu (c : Counts) : Nat := (goMin c.reg c.pdu).toNat
def nSvc (c : Counts) : Nat := (goMin (goMin c.reg c.pdu) c.svc).toNat
def nRel (c : Counts) : Nat := (goMin (goMin c.reg c.pdu) c.rel).toNat
def nDereg (c : Counts) : Nat := (goMin c.reg c.dereg).toNat

/-- **The reads of a run**, in order: NG Setup, then per registration four (the fourth ignored), then one per
    establishment, one per service request, none per release, two per de-registration. -/
theorem C19_reads (c : Counts) :
    kinds (testBody c) =
      [true] ++ rep (nReg c) [true, true, true, false] ++ rep (nPdu c) [true] ++ rep (nSvc c) [true] ++
        rep (nRel c) [] ++ rep (nDereg c) [true, true] := by
  have h : body.flatMap (itemKinds script.procs c) =
      true :: (rep (nReg c) [true, true, true, false] ++ (rep (nPdu c) [true] ++ (rep (nSvc c) [true] ++
        (rep (nRel c) [] ++ (rep (nDereg c) [true, true] ++ []))))) := rfl
  rw [testBody, kinds_flatItems, h]
  simp [List.append_assoc]

theorem C19_read_count (c : Counts) : totalReads c = 1 + 4 * nReg c + nPdu c + nSvc c + 2 * nDereg c := by
  simp only [totalReads, C19_reads, List.length_append, rep_length, List.length_cons, List.length_nil]
  omega

/-- **The excluded reads are exactly the fourth read of each registration** — read `4·i + 4` for UE `i`: the one after
    Registration Complete (`C19_ignored_read_follows_registration_complete`). -/
theorem C19_ignored_reads (c : Counts) (k : Nat) : ignoredRead c k ↔ ∃ i, i < nReg c ∧ k = 4 * i + 4 := by
  have hT : ∀ x ∈ rep (nPdu c) [true] ++ (rep (nSvc c) [true] ++ (rep (nRel c) [] ++ rep (nDereg c) [true, true])), x = true := by
    intro x hx
    simp only [List.mem_append] at hx
    rcases hx with h | h | h | h <;> have := mem_rep h <;> simp_all
  have hk : ignoredRead c k ↔ (kinds (testBody c))[k]? = some false := by
    simp only [ignoredRead, totalReads, strictRead]
    constructor
    · rintro ⟨h1, h2⟩
      rw [List.getElem?_eq_getElem h1] at h2 ⊢
      simpa using h2
    · intro h
      have h1 : k < (kinds (testBody c)).length := by
        rcases Nat.lt_or_ge k (kinds (testBody c)).length with h' | h'
        · exact h'
        · rw [List.getElem?_eq_none h'] at h; simp at h
      exact ⟨h1, by simp [h]⟩
  rw [hk, C19_reads]
  simp only [List.append_assoc, List.cons_append, List.nil_append]
  match k with
  | 0 => simp
  | k + 1 =>
    rw [List.getElem?_cons_succ, false_positions (nReg c) _ hT k]
    constructor
    · rintro ⟨i, hi, h⟩; exact ⟨i, hi, by omega⟩
    · rintro ⟨i, hi, h⟩; exact ⟨i, hi, by omega⟩

/-- **The uplink messages of a run**: 1 for NG Setup, 5 per registration, 2 per establishment, 2 per service request,
    3 per release, 2 per de-registration. -/
theorem C19_write_count (c : Counts) :
    writes (testBody c) = 1 + 5 * nReg c + 2 * nPdu c + 2 * nSvc c + 3 * nRel c + 2 * nDereg c := by
  have h : (body.map (itemWrites script.procs c)).foldl (· + ·) 0 =
      1 + nReg c * 5 + nPdu c * 2 + nSvc c * 2 + nRel c * 3 + nDereg c * 2 := rfl
  rw [testBody, writes_flatItems, h]
  omega

/-! ### the property in its own terms (`Spec/FailStop.lean`: written from the statement, not from the code) -/

def specCounts (c : Counts) : Spec.FailStop.Counts := ⟨c.reg, c.pdu, c.svc, c.rel, c.dereg⟩

theorem goMin_eq_min (x y : Int) : goMin x y = min x y := by
  unfold goMin
  rw [Int.min_def]
  split <;> split <;> omega

/-- **The generated script has the shape the property talks about**: the same number of reads and of uplink messages
    for all counts, and the reads whose content the code ignores are exactly the messages after Registration Complete. -/
theorem C19_model_matches_skeleton (c : Counts) :
    totalReads c = Spec.FailStop.totalReads (specCounts c) ∧
    writes (testBody c) = Spec.FailStop.totalWrites (specCounts c) ∧
    ∀ k, ignoredRead c k ↔ Spec.FailStop.excludedRead (specCounts c) k = true := by
  refine ⟨?_, ?_, ?_⟩
  · rw [C19_read_count]
    simp [Spec.FailStop.totalReads, Spec.FailStop.nReg, Spec.FailStop.nPdu, Spec.FailStop.nSvc, Spec.FailStop.nDereg,
      specCounts, nReg, nPdu, nSvc, nDereg, goMin_eq_min]
  · rw [C19_write_count]
    simp [Spec.FailStop.totalWrites, Spec.FailStop.nReg, Spec.FailStop.nPdu, Spec.FailStop.nSvc, Spec.FailStop.nRel,
      Spec.FailStop.nDereg, specCounts, nReg, nPdu, nSvc, nRel, nDereg, goMin_eq_min]
  · intro k
    have e : Spec.FailStop.nReg (specCounts c) = nReg c := rfl
    rw [C19_ignored_reads]
    simp only [Spec.FailStop.excludedRead, e, Bool.and_eq_true, decide_eq_true_eq, beq_iff_eq]
    constructor
    · rintro ⟨i, hi, rfl⟩
      refine ⟨⟨by omega, by omega⟩, by omega⟩
    · rintro ⟨⟨h1, h2⟩, h3⟩
      exact ⟨k / 4 - 1, by omega, by omega⟩

/-- **C19 as the property states it**: for all counts and all reply sequences, "the peer closes instead of answer `k`"
    for any message index `k` of the conversation, and "answer `k` is undecodable" for any `k` except the message after
    Registration Complete, end the process with a non-zero status, without the banner, without a session reported
    afterwards, without any further read, within the script's own sleeps. -/
theorem C19_failstop_spec (c : Counts) (rs : List Reply) (k : Nat)
    (hf : (rs[k]? = some .closed ∧ Spec.FailStop.closeInScope (specCounts c) k = true) ∨
          (rs[k]? = some .garbage ∧ Spec.FailStop.garbageInScope (specCounts c) k = true)) :
    (∃ e, (run script c rs).exit = some e ∧ e ≠ 0) ∧
    Out.line banner ∉ (run script c rs).printed ∧
    (∀ x ∈ (run script c rs).sessions, x ≤ k) ∧
    (run script c rs).consumed ≤ k + 1 ∧
    (run script c rs).blocked = false ∧
    (run script c rs).sleptMs ≤ sleepTotal (testBody c) := by
  obtain ⟨hr, _, hi⟩ := C19_model_matches_skeleton c
  rcases hf with ⟨h1, h2⟩ | ⟨h1, h2⟩
  · simp only [Spec.FailStop.closeInScope, decide_eq_true_eq] at h2
    exact C19_failstop c rs k (hr ▸ h2) (Or.inl h1)
  · simp only [Spec.FailStop.garbageInScope, Bool.and_eq_true, decide_eq_true_eq, Bool.not_eq_true'] at h2
    refine C19_failstop c rs k (hr ▸ h2.1) (Or.inr ⟨h1, ?_⟩)
    intro hign
    have := (hi k).mp hign
    simp [h2.2] at this

/-- **C19, close between two uplink messages, as the property states it**: the peer closes right after uplink message
    `j` while the program still has something to send. -/
theorem C19_failstop_close_after_uplink_spec (c : Counts) (rs : List Reply) (j : Nat)
    (hj : Spec.FailStop.closeAfterUplinkInScope (specCounts c) j = true)
    (hlen : Spec.FailStop.totalReads (specCounts c) ≤ rs.length) :
    (∃ e, (run script c rs (some (j + 1))).exit = some e ∧ e ≠ 0) ∧
    Out.line banner ∉ (run script c rs (some (j + 1))).printed ∧
    (run script c rs (some (j + 1))).ul.length ≤ j + 1 := by
  obtain ⟨hr, hw, _⟩ := C19_model_matches_skeleton c
  simp only [Spec.FailStop.closeAfterUplinkInScope, decide_eq_true_eq] at hj
  exact C19_failstop_peer_closes_between_messages c rs (j + 1) (hw ▸ hj) (hr ▸ hlen)

/-! ### the hypotheses are satisfiable, and the model does what the dry run showed -/

def one : Counts := ⟨1, 1, 1, 1, 1⟩

/-- a fault-free run of one UE: 9 reads, 15 uplink messages, one session, banner, exit 0 -/
example :
    (run script one (List.replicate 9 .ok)).exit = some 0 ∧ Out.line banner ∈ (run script one (List.replicate 9 .ok)).printed ∧
    (run script one (List.replicate 9 .ok)).consumed = 9 ∧ (run script one (List.replicate 9 .ok)).ul.length = 15 ∧
    (run script one (List.replicate 9 .ok)).sessions = [6] := by decide +kernel

/-- three UEs, counts above the number of registered UEs: the clamps keep every index in range -/
example :
    (run script ⟨3, 7, 5, 9, 4⟩ (List.replicate 25 .ok)).exit = some 0 ∧
    (run script ⟨3, 7, 5, 9, 4⟩ (List.replicate 25 .ok)).consumed = 25 := by decide +kernel

/-- garbage at the excluded read (index 4 = after Registration Complete of the first UE) is ignored: the run completes -/
example : ignoredRead one 4 ∧
    (run script one [.ok, .ok, .ok, .ok, .garbage, .ok, .ok, .ok, .ok]).exit = some 0 := by
  refine ⟨⟨by decide +kernel, by decide +kernel⟩, by decide +kernel⟩

/-- `C19_failstop`'s hypotheses hold for a close at that same read -/
example : 4 < totalReads one ∧ ([Reply.ok, .ok, .ok, .ok, .closed] : List Reply)[4]? = some .closed := by
  refine ⟨by decide +kernel, rfl⟩

/-- a decodable message of the wrong type where the Authentication Request is expected: nil dereference, exit status 2 -/
example : (run script one [.ok, .other]).exit = some 2 := by decide +kernel

end Stgutg.Props.C19
