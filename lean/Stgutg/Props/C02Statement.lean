/-
  C02 — `C02_accepted_statement` (Props/C02.lean) itself, instantiated: `dl` = the whole downlink side of a test-mode conversation
  as a FUNCTION of what the network knows and chooses (`specDl`: Spec/AmfDownlink.lean message by message, for the identifiers the
  UEs of the configured IMSI range use), `toSpec` = the reference AMF's view of the configuration, `WF` = well-formed configuration
  and choices + "the specification encoders encode, within the receive buffer". Ninth module of C02; a corollary of
  `C02_accepted_n`.
-/
import Stgutg.Props.C02AcceptedN

namespace Stgutg.Props.C02
open Stgutg Stgutg.Model.Emulator Stgutg.Proofs.Emulator Stgutg.Builders
open Stgutg.Model.NasProtect Stgutg.Proofs.NasProtect Stgutg.Spec.NasSecurity
open Stgutg.Proofs.BuildersRoles Stgutg.Proofs.UeIdentity Stgutg.Proofs.EmulatorRun Stgutg.Proofs.EmulatorSubscriber
open Stgutg.Proofs.EmulatorLife Stgutg.Props.C01 Stgutg.Proofs.KeyDerivation Stgutg.Proofs.EmulatorDownlink
open Stgutg.Proofs.EmulatorLifeArgs Stgutg.Proofs.EmulatorLifeN Stgutg.Proofs.EmulatorWitness
open Stgutg.Model.KeyDerivation
open Stgutg.Spec.Ts35206 (BlockCipher)

/-! ### what the AMF learns from the uplink messages of UE `j` of the configured IMSI range -/

/-- RAN-UE-NGAP-ID: (IMSI + j) mod 10^4 (C16) -/
def ulRan (scfg : Spec.Amf.Cfg) (j : Nat) : Int := (((Model.UeIdentity.decVal scfg.imsi + j) % 10000 : Nat) : Int)
/-- PDU session identity: (IMSI + j + 14) mod 15 + 1 (`C02_one_psi`) -/
def ulPsi (scfg : Spec.Amf.Cfg) (j : Nat) : Nat := (Model.UeIdentity.decVal scfg.imsi + j + 14) % 15 + 1
/-- the UE security capability it announces: 5G-EA0, 128-5G-IA2 (replayed in the Security Mode Command) -/
def ulCap : Bytes := [0x80, 0x20]

example (cfg : Cfg) (j : Int) : (secCapVal (createUE cfg j)).data = ulCap := rfl

/-! ### the downlink side as a function -/

/-- the messages for UEs `i … i + n − 1`, in order; `none` if an encoder does not encode -/
def collect (f : Nat → Option (List Bytes)) : Nat → Nat → Option (List Bytes)
  | _, 0 => some []
  | i, n + 1 =>
    match f i, collect f (i + 1) n with
    | some a, some r => some (a ++ r)
    | _, _ => none

theorem collect_some (f : Nat → Option (List Bytes)) : ∀ (n i : Nat) (l : List Bytes), collect f i n = some l →
    (∀ j, i ≤ j → j < i + n → f j = some ((f j).getD [])) ∧ l = (List.range' i n).flatMap fun j => (f j).getD [] := by
  intro n
  induction n with
  | zero => intro i l h; simp only [collect, Option.some.injEq] at h; subst h; exact ⟨fun j h1 h2 => by omega, rfl⟩
  | succ n ih =>
    intro i l h
    simp only [collect] at h
    cases hf : f i with
    | none => simp [hf] at h
    | some a =>
      cases hc : collect f (i + 1) n with
      | none => simp [hf, hc] at h
      | some r =>
        simp only [hf, hc, Option.some.injEq] at h
        obtain ⟨h1, h2⟩ := ih (i + 1) r hc
        refine ⟨fun j hij hjn => ?_, ?_⟩
        · by_cases hji : j = i
          · subst hji; rw [hf]; rfl
          · exact h1 j (by omega) (by omega)
        · rw [← h, h2, List.range'_succ, List.flatMap_cons, hf]; rfl

/-- the four messages of UE `j`'s registration (`Spec.AmfDl.dl` without the NG SETUP RESPONSE) -/
def regDl (P : Prims) (scfg : Spec.Amf.Cfg) (chs : List Spec.Amf.Choice) (j : Nat) : Option (List Bytes) := do
  let ch ← chs[j]?
  let l ← Spec.AmfDl.dl P scfg j ch (ulRan scfg j) ulCap
  pure (l.drop 1)

def estDl (P : Prims) (scfg : Spec.Amf.Cfg) (chs : List Spec.Amf.Choice) (j : Nat) : Option (List Bytes) := do
  let ch ← chs[j]?
  let d ← Spec.AmfDl.dlEstablish P scfg j ch (ulRan scfg j) (ulPsi scfg j) 1 3
  pure [d]

def svcDl (P : Prims) (scfg : Spec.Amf.Cfg) (chs : List Spec.Amf.Choice) (j : Nat) : Option (List Bytes) := do
  let ch ← chs[j]?
  let d ← Spec.AmfDl.dlService P scfg j ch (ulRan scfg j) (ulPsi scfg j) 3 4
  pure [d]

def derDl (P : Prims) (scfg : Spec.Amf.Cfg) (chs : List Spec.Amf.Choice) (j : Nat) : Option (List Bytes) := do
  let ch ← chs[j]?
  let d ← Spec.AmfDl.dlDeregister P scfg j ch (ulRan scfg j)
    (deregDlCount (Spec.Amf.expectedEstablished scfg) (Spec.Amf.expectedServices scfg) j)
  pure [d.1, d.2]

/-- **the downlink side of a whole test-mode conversation**: NG SETUP RESPONSE; the registrations of the configured subscribers;
    then, for as many UEs as the requested counts allow (`Spec.Amf.expected…`), the establishments, the service requests and the
    de-registrations — each message built by Spec/AmfDownlink.lean. `none` if a specification encoder does not encode. -/
def specDlOpt (P : Prims) (scfg : Spec.Amf.Cfg) (chs : List Spec.Amf.Choice) : Option (List Bytes) := do
  let plmn ← Spec.Amf.plmnOf scfg
  let d1 ← Spec.AmfDl.ngap (Spec.AmfDl.ngSetupResponse plmn)
  let regs ← collect (regDl P scfg chs) 0 (Spec.Amf.subscribers scfg)
  let ests ← collect (estDl P scfg chs) 0 (Spec.Amf.expectedEstablished scfg)
  let svcs ← collect (svcDl P scfg chs) 0 (Spec.Amf.expectedServices scfg)
  let ders ← collect (derDl P scfg chs) 0 (Spec.Amf.expectedDeregs scfg)
  pure (d1 :: (regs ++ (ests ++ (svcs ++ ders))))

def specDl (P : Prims) (scfg : Spec.Amf.Cfg) (chs : List Spec.Amf.Choice) : List Bytes := (specDlOpt P scfg chs).getD []

/-! ### well-formed configurations and choices -/

/-- the configuration part (as in `C01_accepted_n` / `C02_accepted_n`, with the reference AMF's view `specOf cfg abba`) -/
structure CfgOK (P : Prims) (E : Model.Convert.Ext) (abba : Bytes) (cfg : Cfg) (N w : Nat) (m k opc : Bytes) (s1 s2 s3 : UInt8) : Prop where
  hN4 : N ≤ 10000
  hreg : cfg.reg = (N : Int)
  hd : DecimalImsi cfg.imsi
  h5 : 5 ≤ cfg.imsi.length
  h15 : cfg.imsi.length ≤ 15
  hw : w = 2 ∨ w = 3
  hmncl : cfg.mnc.length = w
  hmcc3 : cfg.mcc.length = 3
  hmcc : cfg.mcc = cfg.imsi.take 3
  hmnc : cfg.mnc = (cfg.imsi.drop 3).take w
  hlen : 3 + w < cfg.imsi.length
  hfit : MsinFits cfg.imsi (3 + w) N
  h22 : 22 ≤ cfg.bitlength
  h32 : cfg.bitlength ≤ 32
  hg : cfg.gnbId.length = (cfg.bitlength + 7) / 8
  hc : Canonical cfg.gnbId cfg.bitlength
  hname : 1 ≤ cfg.name.length
  hplmn : Model.Suci.ngSetupPlmn cfg.imsi cfg.mnc.length = .ok m
  hm : m.length = 3
  hcfg : Spec.Amf.plmnOf (specOf cfg abba) = some m
  hk : hexDecode cfg.k = some k
  hk' : Spec.Amf.hexText cfg.k = some k
  hk16 : k.length = 16
  hopcne : cfg.opc ≠ []
  hopc : hexDecode cfg.opc = some opc
  hopc' : Spec.Amf.opcOf P (specOf cfg abba) = some opc
  hopc16 : opc.length = 16
  habba : 2 ≤ abba.length ∧ abba.length < 256
  hsd : E.hexDecode cfg.sd = ([s1, s2, s3], false)
  hgtp : cls E .ip (.str cfg.gnbGtp) = 2

/-- a choice of a conformant AMF/SMF for one UE -/
def ChoiceOK (ch : Spec.Amf.Choice) : Prop :=
  ch.amfUeNgapId < 2 ^ 40 ∧ ch.rand.length = 16 ∧ ch.sqn.length = 6 ∧ ch.amf.length = 2 ∧
  ch.ueIp.length = 4 ∧ ch.upfIp.length = 4 ∧ ch.teid < 2 ^ 32

/-- **well-formed**: a configuration as in `C02_accepted_n` for some population `N ≤ 10 000`, a conformant choice for each of the `N`
    UEs, and the specification encoders encode the whole downlink side, every message within the 2048-octet receive buffer -/
def WellFormed (P : Prims) (E : Model.Convert.Ext) (abba : Bytes) (cfg : Cfg) (chs : List Spec.Amf.Choice) : Prop :=
  ∃ (N w : Nat) (m k opc : Bytes) (s1 s2 s3 : UInt8), CfgOK P E abba cfg N w m k opc s1 s2 s3 ∧
    (∀ j, j < N → ∃ ch, chs[j]? = some ch ∧ ChoiceOK ch) ∧
    ∃ dls, specDlOpt P (specOf cfg abba) chs = some dls ∧ ∀ d ∈ dls, d.length ≤ 2048

/-! ### the statement -/

theorem ulRan_eq (cfg : Cfg) (abba : Bytes) (hd : DecimalImsi cfg.imsi) (j : Nat) (hj : j < 2 ^ 62) :
    ulRan (specOf cfg abba) j = (createUE cfg j).ctx.ranUeNgapId :=
  (createUE_ranId hd j hj cfg.k cfg.opc cfg.op).symm

theorem ulPsi_eq (cfg : Cfg) (abba : Bytes) (hd : DecimalImsi cfg.imsi) (j : Nat)
    (hfit : Model.UeIdentity.decVal cfg.imsi + j < 10 ^ cfg.imsi.length) :
    ulPsi (specOf cfg abba) j = (pduIdOf ((Model.UeIdentity.decVal cfg.imsi + j : Nat) : Int)).toNat := by
  obtain ⟨h0, h63⟩ := supi_range cfg hd j hfit
  obtain ⟨e, _, _⟩ := pduId_range _ h0 h63
  rw [e]
  show (Model.UeIdentity.decVal cfg.imsi + j + 14) % 15 + 1 = _
  omega

theorem flatMap_congr' {α β : Type} (l : List α) (f g : α → List β) (h : ∀ a ∈ l, f a = g a) : l.flatMap f = l.flatMap g := by
  induction l with
  | nil => rfl
  | cons a l ih =>
    rw [List.flatMap_cons, List.flatMap_cons, h a (by simp), ih (fun b hb => h b (by simp [hb]))]

/-- **C02_accepted_statement_spec.** `C02_accepted_statement` holds for `dl` = `specDl` (the conformant AMF/SMF of
    Spec/AmfDownlink.lean as a function of configuration and choices), `toSpec` = the reference AMF's view of the configuration, and
    `WF` = `WellFormed`: for EVERY well-formed configuration — any population N ≤ 10 000, any integer repetition counts — and every
    conformant choice per UE, the reference AMF/SMF judges the emulator model's transcript on that downlink `accept`.
    (Primitives: block cipher on 16 octets, 32-octet MAC, CTR a keystream cipher, CMAC tag of ≥ 4 octets.) -/
theorem C02_accepted_statement_spec (P : Prims) (hP : PrimsOk P) (hE : BlockCipher P.aes) (hH : MacLen P.hmac)
    (E : Model.Convert.Ext) (abba : Bytes) :
    C02_accepted_statement P E (specDl P) (fun cfg => specOf cfg abba) (WellFormed P E abba) := by
  intro cfg chs ⟨N, w, m, k, opc, s1, s2, s3, C, hchs, dls, hdls, hbuf⟩
  have hspecdl : specDl P (specOf cfg abba) chs = dls := by unfold specDl; rw [hdls]; rfl
  show Spec.Amf.judge P true (specOf cfg abba) chs (emulate P E cfg (specDl P (specOf cfg abba) chs)).uls _ _ = .accept
  rw [hspecdl]
  -- the numbers
  have hN : Spec.Amf.subscribers (specOf cfg abba) = N := by show cfg.reg.toNat = N; rw [C.hreg, Int.toNat_natCast]
  have hest : Spec.Amf.expectedEstablished (specOf cfg abba) = min N cfg.pdu.toNat := by
    show (if false = true then _ else Spec.Amf.natMin cfg.reg cfg.pdu) = _
    rw [if_neg (by decide), natMin_eq, C.hreg, Int.toNat_natCast]
  have hsvc : Spec.Amf.expectedServices (specOf cfg abba) = min (Spec.Amf.expectedEstablished (specOf cfg abba)) cfg.svc.toNat := by
    show Spec.Amf.natMin _ cfg.svc = _
    rw [natMin_eq, Int.toNat_natCast]
  have hrel : Spec.Amf.expectedReleases (specOf cfg abba) = min (Spec.Amf.expectedEstablished (specOf cfg abba)) cfg.rel.toNat := by
    show Spec.Amf.natMin _ cfg.rel = _
    rw [natMin_eq, Int.toNat_natCast]
  have hder : Spec.Amf.expectedDeregs (specOf cfg abba) = min N cfg.dereg.toNat := by
    show Spec.Amf.natMin cfg.reg cfg.dereg = _
    rw [natMin_eq, C.hreg, Int.toNat_natCast]
  -- the pieces of the downlink
  unfold specDlOpt at hdls
  simp only [Option.bind_eq_bind, Option.bind_eq_some_iff, Option.pure_def, Option.some.injEq] at hdls
  obtain ⟨plmn, hp, d1, hd1, regs, hregs, ests, hests, svcs, hsvcs, ders, hders, heq⟩ := hdls
  have hpm : plmn = m := Option.some.inj (hp.symm.trans C.hcfg)
  rw [hpm] at hd1
  rw [hN] at hregs
  obtain ⟨r1, r2⟩ := collect_some _ _ _ _ hregs
  obtain ⟨e1, e2⟩ := collect_some _ _ _ _ hests
  obtain ⟨v1, v2⟩ := collect_some _ _ _ _ hsvcs
  obtain ⟨x1, x2⟩ := collect_some _ _ _ _ hders
  simp only [Nat.zero_add] at r1 e1 v1 x1
  have hFits := msinFits_fits C.hd C.hfit
  unfold Fits at hFits
  have hj62 : ∀ j, j < N → j < 2 ^ 62 := fun j hj => by
    have := C.hN4
    have : (10000 : Nat) < 2 ^ 62 := by decide
    omega
  let dflt : Spec.Amf.Choice := ⟨[], [], [], 0, 0, [], 0, []⟩
  let chf : Nat → Spec.Amf.Choice := fun j => (chs[j]?).getD dflt
  have hchf : ∀ j, j < N → chs[j]? = some (chf j) ∧ ChoiceOK (chf j) := by
    intro j hj
    obtain ⟨ch, h1, h2⟩ := hchs j hj
    simp only [chf, h1, Option.getD_some]
    exact ⟨trivial, h2⟩
  let dn : Nat → Bytes × Bytes × Bytes × Bytes := fun j =>
    match (regDl P (specOf cfg abba) chs j).getD [] with
    | [a, b, c, d] => (a, b, c, d)
    | _ => ([], [], [], [])
  let de : Nat → Bytes := fun j => match (estDl P (specOf cfg abba) chs j).getD [] with | [d] => d | _ => []
  let ds : Nat → Bytes := fun j => match (svcDl P (specOf cfg abba) chs j).getD [] with | [d] => d | _ => []
  let dd : Nat → Bytes × Bytes := fun j => match (derDl P (specOf cfg abba) chs j).getD [] with | [a, b] => (a, b) | _ => ([], [])
  -- registrations
  have hreg' : ∀ j, j < N → Spec.AmfDl.dl P (specOf cfg abba) j (chf j) (createUE cfg j).ctx.ranUeNgapId ulCap =
      some [d1, (dn j).1, (dn j).2.1, (dn j).2.2.1, (dn j).2.2.2] ∧
      (regDl P (specOf cfg abba) chs j).getD [] = [(dn j).1, (dn j).2.1, (dn j).2.2.1, (dn j).2.2.2] := by
    intro j hj
    have h := r1 j (Nat.zero_le j) hj
    generalize hx : (regDl P (specOf cfg abba) chs j).getD [] = x at h
    unfold regDl at h
    simp only [Option.bind_eq_bind, Option.bind_eq_some_iff, Option.pure_def, Option.some.injEq] at h
    obtain ⟨ch, hc, l, hl, hxl⟩ := h
    rw [(hchf j hj).1] at hc
    cases hc
    obtain ⟨plmn', _, _, _, _, _, _, d1', d2, d3, d4, d5, q1, _, _, q4, _, _, _, _, _, ql⟩ := dl_some P _ j _ _ _ l hl
    have hpm' : plmn' = m := Option.some.inj (q1.symm.trans C.hcfg)
    rw [hpm'] at q4
    have hd1' : d1' = d1 := Option.some.inj (q4.symm.trans hd1)
    rw [hd1'] at ql
    subst ql
    simp only [List.drop_succ_cons, List.drop_zero] at hxl
    subst hxl
    have hdn : dn j = (d2, d3, d4, d5) := by simp only [dn, hx]
    rw [hdn, ← ulRan_eq cfg abba C.hd j (hj62 j hj)]
    exact ⟨hl, rfl⟩
  have hestN : Spec.Amf.expectedEstablished (specOf cfg abba) ≤ N := by rw [hest]; omega
  have hsvcN : Spec.Amf.expectedServices (specOf cfg abba) ≤ N := by rw [hsvc]; omega
  have hderN : Spec.Amf.expectedDeregs (specOf cfg abba) ≤ N := by rw [hder]; omega
  have hest' : ∀ j, j < Spec.Amf.expectedEstablished (specOf cfg abba) →
      Spec.AmfDl.dlEstablish P (specOf cfg abba) j (chf j) (createUE cfg j).ctx.ranUeNgapId
        (pduIdOf ((Model.UeIdentity.decVal cfg.imsi + j : Nat) : Int)).toNat 1 3 = some (de j) ∧
      (estDl P (specOf cfg abba) chs j).getD [] = [de j] := by
    intro j hj
    have hjN : j < N := by omega
    have h := e1 j (Nat.zero_le j) hj
    generalize hx : (estDl P (specOf cfg abba) chs j).getD [] = x at h
    unfold estDl at h
    simp only [Option.bind_eq_bind, Option.bind_eq_some_iff, Option.pure_def, Option.some.injEq] at h
    obtain ⟨ch, hc, d, hd', hxl⟩ := h
    rw [(hchf j hjN).1] at hc
    cases hc
    subst hxl
    have hde : de j = d := by simp only [de, hx]
    rw [hde, ← ulRan_eq cfg abba C.hd j (hj62 j hjN), ← ulPsi_eq cfg abba C.hd j (by omega)]
    exact ⟨hd', rfl⟩
  have hsvc' : ∀ j, j < Spec.Amf.expectedServices (specOf cfg abba) →
      Spec.AmfDl.dlService P (specOf cfg abba) j (chf j) (createUE cfg j).ctx.ranUeNgapId
        (pduIdOf ((Model.UeIdentity.decVal cfg.imsi + j : Nat) : Int)).toNat 3 4 = some (ds j) ∧
      (svcDl P (specOf cfg abba) chs j).getD [] = [ds j] := by
    intro j hj
    have hjN : j < N := by omega
    have h := v1 j (Nat.zero_le j) hj
    generalize hx : (svcDl P (specOf cfg abba) chs j).getD [] = x at h
    unfold svcDl at h
    simp only [Option.bind_eq_bind, Option.bind_eq_some_iff, Option.pure_def, Option.some.injEq] at h
    obtain ⟨ch, hc, d, hd', hxl⟩ := h
    rw [(hchf j hjN).1] at hc
    cases hc
    subst hxl
    have hds : ds j = d := by simp only [ds, hx]
    rw [hds, ← ulRan_eq cfg abba C.hd j (hj62 j hjN), ← ulPsi_eq cfg abba C.hd j (by omega)]
    exact ⟨hd', rfl⟩
  have hder' : ∀ j, j < Spec.Amf.expectedDeregs (specOf cfg abba) →
      Spec.AmfDl.dlDeregister P (specOf cfg abba) j (chf j) (createUE cfg j).ctx.ranUeNgapId
        (deregDlCount (Spec.Amf.expectedEstablished (specOf cfg abba)) (Spec.Amf.expectedServices (specOf cfg abba)) j) = some (dd j) ∧
      (derDl P (specOf cfg abba) chs j).getD [] = [(dd j).1, (dd j).2] := by
    intro j hj
    have hjN : j < N := by omega
    have h := x1 j (Nat.zero_le j) hj
    generalize hx : (derDl P (specOf cfg abba) chs j).getD [] = x at h
    unfold derDl at h
    simp only [Option.bind_eq_bind, Option.bind_eq_some_iff, Option.pure_def, Option.some.injEq] at h
    obtain ⟨ch, hc, d, hd', hxl⟩ := h
    rw [(hchf j hjN).1] at hc
    cases hc
    subst hxl
    have hdd : dd j = d := by simp only [dd, hx]
    rw [hdd, ← ulRan_eq cfg abba C.hd j (hj62 j hjN)]
    exact ⟨hd', rfl⟩
  -- the list is the one of `C02_accepted_n`
  have hlist : dls = lifeDls d1 dn de ds dd N (Spec.Amf.expectedEstablished (specOf cfg abba))
      (Spec.Amf.expectedServices (specOf cfg abba)) (Spec.Amf.expectedDeregs (specOf cfg abba)) := by
    have hR : ((List.range' 0 N).flatMap fun j => (regDl P (specOf cfg abba) chs j).getD []) = dlsOf dn 0 N :=
      flatMap_congr' _ _ _ fun j hj => (hreg' j (by have := (List.mem_range'_1.mp hj).2; omega)).2
    have hEs : ((List.range' 0 (Spec.Amf.expectedEstablished (specOf cfg abba))).flatMap fun j =>
        (estDl P (specOf cfg abba) chs j).getD []) = (List.range (Spec.Amf.expectedEstablished (specOf cfg abba))).map de := by
      rw [← flatMap_single, List.range_eq_range']
      exact flatMap_congr' _ _ _ fun j hj => (hest' j (by have := (List.mem_range'_1.mp hj).2; omega)).2
    have hSv : ((List.range' 0 (Spec.Amf.expectedServices (specOf cfg abba))).flatMap fun j =>
        (svcDl P (specOf cfg abba) chs j).getD []) = (List.range (Spec.Amf.expectedServices (specOf cfg abba))).map ds := by
      rw [← flatMap_single, List.range_eq_range']
      exact flatMap_congr' _ _ _ fun j hj => (hsvc' j (by have := (List.mem_range'_1.mp hj).2; omega)).2
    have hDr : ((List.range' 0 (Spec.Amf.expectedDeregs (specOf cfg abba))).flatMap fun j =>
        (derDl P (specOf cfg abba) chs j).getD []) =
        (List.range (Spec.Amf.expectedDeregs (specOf cfg abba))).flatMap fun j => [(dd j).1, (dd j).2] := by
      rw [List.range_eq_range']
      exact flatMap_congr' _ _ _ fun j hj => (hder' j (by have := (List.mem_range'_1.mp hj).2; omega)).2
    rw [← heq, r2, e2, v2, x2, hR, hEs, hSv, hDr]
    rfl
  -- the buffer
  have hmem : ∀ (l : List Bytes) (d : Bytes), d ∈ l → l ⊆ dls → d.length ≤ 2048 := fun l d hd' hl => hbuf d (hl hd')
  have hsubR : ∀ j, j < N → [(dn j).1, (dn j).2.1, (dn j).2.2.1, (dn j).2.2.2] ⊆ dls := by
    intro j hj d hd'
    rw [← heq, r2]
    refine List.mem_cons_of_mem _ (List.mem_append_left _ (List.mem_flatMap.mpr ⟨j, List.mem_range'_1.mpr ⟨Nat.zero_le j, by omega⟩, ?_⟩))
    rw [(hreg' j hj).2]; exact hd'
  have hsubE : ∀ j, j < Spec.Amf.expectedEstablished (specOf cfg abba) → de j ∈ dls := by
    intro j hj
    rw [← heq, e2]
    refine List.mem_cons_of_mem _ (List.mem_append_right _ (List.mem_append_left _
      (List.mem_flatMap.mpr ⟨j, List.mem_range'_1.mpr ⟨Nat.zero_le j, by omega⟩, ?_⟩)))
    rw [(hest' j hj).2]; simp
  have hsubS : ∀ j, j < Spec.Amf.expectedServices (specOf cfg abba) → ds j ∈ dls := by
    intro j hj
    rw [← heq, v2]
    refine List.mem_cons_of_mem _ (List.mem_append_right _ (List.mem_append_right _ (List.mem_append_left _
      (List.mem_flatMap.mpr ⟨j, List.mem_range'_1.mpr ⟨Nat.zero_le j, by omega⟩, ?_⟩))))
    rw [(hsvc' j hj).2]; simp
  have hsubD : ∀ j, j < Spec.Amf.expectedDeregs (specOf cfg abba) → (dd j).1 ∈ dls ∧ (dd j).2 ∈ dls := by
    intro j hj
    rw [← heq, x2]
    constructor <;>
    · refine List.mem_cons_of_mem _ (List.mem_append_right _ (List.mem_append_right _ (List.mem_append_right _
        (List.mem_flatMap.mpr ⟨j, List.mem_range'_1.mpr ⟨Nat.zero_le j, by omega⟩, ?_⟩))))
      rw [(hder' j hj).2]; simp
  have hd1mem : d1 ∈ dls := by rw [← heq]; exact List.mem_cons_self ..
  rw [hlist]
  exact (C02_accepted_n P hP hE hH cfg (specOf cfg abba) chs E N C.hN4 C.hreg ⟨rfl, rfl, rfl, rfl, rfl, rfl⟩ rfl C.hd C.h5 C.h15 C.hw
    C.hmncl C.hmcc3 rfl rfl C.hmcc C.hmnc C.hlen C.hfit C.h22 C.h32 C.hg C.hc C.hname m C.hplmn C.hm C.hcfg k opc C.hk C.hk' C.hk16
    C.hopcne C.hopc C.hopc' C.hopc16 C.habba s1 s2 s3 C.hsd C.hgtp chf (fun j hj => (hchf j hj).1) (fun j hj => (hchf j hj).2)
    _ _ _ _ hest hsvc hrel hder (fun _ => ulCap) d1 dn de ds dd hd1 (hbuf d1 hd1mem) (fun j hj => (hreg' j hj).1)
    (fun j hj => ⟨hbuf _ (hsubR j hj (by simp)), hbuf _ (hsubR j hj (by simp)), hbuf _ (hsubR j hj (by simp)),
      hbuf _ (hsubR j hj (by simp))⟩)
    (fun j hj => ⟨(hest' j hj).1, hbuf _ (hsubE j hj)⟩) (fun j hj => ⟨(hsvc' j hj).1, hbuf _ (hsubS j hj)⟩)
    (fun j hj => ⟨(hder' j hj).1, hbuf _ (hsubD j hj).1, hbuf _ (hsubD j hj).2⟩)).2

/-! ### non-vacuity: a well-formed configuration, and the statement applied to it -/

/-- the configuration of the recorded registration (`reg1Cfg`: IMSI 59903000000006, MNC 03, OPc configured, gNB id of 22 bits)
    asking for one establishment, service request, release and de-registration -/
def wfCfg : Cfg := { reg1Cfg with pdu := 1, svc := 1, rel := 1, dereg := 1 }

set_option maxRecDepth 1000000 in
/-- `WellFormed` is satisfiable (with primitives that satisfy the hypotheses on primitives: `cheapPrims_ok`): the configuration
    above, the AMF choice of the recorded registration, N = 1 — every field by evaluation; in particular the specification
    encoders encode the whole downlink side (nine messages), each within the receive buffer -/
theorem wfCfg_wellFormed : WellFormed cheapPrims Model.NetExt.goExt reg1Abba wfCfg reg1Choices := by
  refine ⟨1, 2, [149, 249, 48], [219, 8, 192, 134, 150, 230, 28, 212, 203, 226, 93, 67, 66, 100, 93, 249],
    [27, 105, 238, 98, 44, 188, 51, 107, 153, 141, 104, 251, 25, 186, 86, 231], 254, 240, 44, ?_, ?_, ?_⟩
  · exact
      { hN4 := by decide, hreg := rfl, hd := ⟨by decide, by decide, by decide⟩, h5 := by decide, h15 := by decide,
        hw := .inl rfl, hmncl := rfl, hmcc3 := rfl, hmcc := by decide, hmnc := by decide, hlen := by decide,
        hfit := by unfold MsinFits; decide, h22 := by decide, h32 := by decide, hg := by decide,
        hc := by unfold Canonical; decide, hname := by decide, hplmn := by decide +kernel, hm := rfl,
        hcfg := by decide +kernel, hk := by decide +kernel, hk' := by decide +kernel, hk16 := rfl, hopcne := by decide,
        hopc := by decide +kernel, hopc' := by decide +kernel, hopc16 := rfl, habba := by decide,
        hsd := by decide +kernel, hgtp := by decide +kernel }
  · intro j hj
    have : j = 0 := by omega
    subst this
    exact ⟨_, rfl, by unfold ChoiceOK; decide⟩
  · have h : (match specDlOpt cheapPrims (specOf wfCfg reg1Abba) reg1Choices with
        | some dls => dls.all fun d => decide (d.length ≤ 2048)
        | none => false) = true := by decide +kernel
    cases hs : specDlOpt cheapPrims (specOf wfCfg reg1Abba) reg1Choices with
    | none => rw [hs] at h; cases h
    | some dls =>
      rw [hs] at h
      exact ⟨dls, rfl, fun d hd => by simpa using List.all_eq_true.mp h d hd⟩

/-- **C02_accepted_statement_witness.** … and therefore, WITHOUT running the emulator model or the judge: the reference AMF/SMF
    accepts the model's transcript of that conversation (fifteen uplink messages against the nine specified downlink messages) -/
theorem C02_accepted_statement_witness :
    let t := emulate cheapPrims Model.NetExt.goExt wfCfg (specDl cheapPrims (specOf wfCfg reg1Abba) reg1Choices)
    Spec.Amf.judge cheapPrims true (specOf wfCfg reg1Abba) reg1Choices t.uls
      (some (t.reports.map fun r => { ip := r.ip, teid := r.teid, upf := r.upf })) (t.outcome == .completed) = .accept :=
  C02_accepted_statement_spec cheapPrims cheapPrims_ok.1 cheapPrims_ok.2.1 cheapPrims_ok.2.2 Model.NetExt.goExt reg1Abba
    wfCfg reg1Choices wfCfg_wellFormed

end Stgutg.Props.C02
