/-
  C06 — Uplink NAS protection is correct over any message history.
  Property theorems only; helper lemmas live in Stgutg/Proofs/{Count,NasProtect}.lean.

  Model: Stgutg.Model.NasProtect (`Count`, `nasEncode` = tglib.NASEncode as repaired by F8, `encodeNasPduWithSecurity`,
         `runEncode` = successive calls on one RanUeContext) on top of Stgutg.Model.NasAlg (C07).
  Spec:  Stgutg.Spec.NasSecurity (TS 24.501 4.4 / 9.x, TS 33.501 6.4: `protect`, `receive`, `ueProtect`, `ueRun`)
         on top of Stgutg.Spec.NasAlg (the 128-NEA / 128-NIA algorithms of the standards).
  `P : Prims` carries crypto/aes, cipher.NewCTR and aead/cmac as parameters; `PrimsOk P` (CTR is a keystream
  cipher, the CMAC tag has at least four octets) is needed only where the receiver deciphers / splits off the MAC.
  The plain NAS codec is outside the model: `op.plain` is `msg.PlainNasEncode()`.

  Notation: `cval w` = NAS COUNT value of a stored counter word (`w mod 2^24`), `ctxOf ue` = the UE's keys and
  algorithm identifiers as a specification context, `Supported ue` = {NIA1,NIA2} × {NEA0,NEA1,NEA2},
  `UlInScope op` = header type 1..4 whenever the message is protected.
-/
import Stgutg.Proofs.NasProtect
import Stgutg.Proofs.CryptoPrimsOk
import Stgutg.Crypto.Prims

namespace Stgutg.Props.C06
open Stgutg Stgutg.Model.NasProtect Stgutg.Proofs.NasProtect
open Stgutg.Spec.NasSecurity

/-! ### the counter type, for all 2^32 stored words -/

/-- `Set/Get/AddOne/SQN/SetSQN/Overflow/SetOverflow` in arithmetic on the stored word `w` (bit-vector lemmas, no
    enumeration): the NAS COUNT is `w mod 2^24`, SQN its low octet, the overflow counter the next 16 bits;
    `AddOne` is +1 modulo 2^24; the setters replace exactly their field and keep bits 24..31. -/
theorem counter_ops (w : UInt32) (o : UInt16) (s : UInt8) :
    (Count.get w).2.toNat = w.toNat % 2 ^ 24 ∧ (Count.get w).1.toNat = w.toNat % 2 ^ 24 ∧
    (Count.addOne w).toNat = (w.toNat + 1) % 2 ^ 24 ∧
    (Count.sqn w).toNat = w.toNat % 256 ∧
    (Count.overflow w).toNat = w.toNat / 256 % 65536 ∧
    (Count.setSQN w s).toNat = w.toNat / 256 * 256 + s.toNat ∧
    (Count.setOverflow w o).toNat = w.toNat / 2 ^ 24 * 2 ^ 24 + o.toNat * 256 + w.toNat % 256 ∧
    (Count.set w o s).toNat = w.toNat / 2 ^ 24 * 2 ^ 24 + o.toNat * 256 + s.toNat ∧
    (Count.get (Count.set w o s)).2.toNat = o.toNat * 256 + s.toNat :=
  ⟨Proofs.Count.toNat_get_value w, Proofs.Count.toNat_get_stored w, Proofs.Count.toNat_addOne w,
   Proofs.Count.toNat_sqn w, Proofs.Count.toNat_overflow w, Proofs.Count.toNat_setSQN w s,
   Proofs.Count.toNat_setOverflow w o, Proofs.Count.toNat_set w o s, by
     rw [Proofs.Count.toNat_get_value, Proofs.Count.toNat_set]
     have := o.toNat_lt; have := s.toNat_lt; omega⟩

/-- NAS COUNT = overflow(16) ‖ SQN(8): the sequence-number octet is COUNT mod 256, the overflow is COUNT / 256,
    the 32-bit COUNT input is 0x00 ‖ overflow ‖ SQN; stepping to the next COUNT carries the SQN wrap into the
    overflow counter and wraps at 2^24. The accessors of the code read exactly these fields of the stored word. -/
theorem sqn_overflow (c : Nat) (hc : c < 2 ^ 24) (w : UInt32) (hw : cval w = c) :
    sqnOf c = c % 256 ∧ overflowOf c = c / 256 ∧ (count32 c).toNat = overflowOf c * 256 + sqnOf c ∧
    sqnOf ((c + 1) % 2 ^ 24) = (sqnOf c + 1) % 256 ∧
    overflowOf ((c + 1) % 2 ^ 24) = (if sqnOf c = 255 then (overflowOf c + 1) % 65536 else overflowOf c) ∧
    (Count.sqn w).toNat = sqnOf c ∧ (Count.overflow w).toNat = overflowOf c ∧
    cval (Count.addOne w) = (c + 1) % 2 ^ 24 := by
  unfold cval at hw
  refine ⟨rfl, by unfold overflowOf; omega, ?_, by unfold sqnOf; omega, ?_, ?_, ?_, ?_⟩
  · unfold count32 countMod overflowOf sqnOf; rw [UInt32.toNat_ofNat']; omega
  · unfold overflowOf sqnOf; split <;> omega
  · rw [Proofs.Count.toNat_sqn]; unfold sqnOf; omega
  · rw [Proofs.Count.toNat_overflow]; unfold overflowOf; omega
  · unfold cval; rw [Proofs.Count.toNat_addOne]; omega

/-! ### one message -/

/-- **One protected message, from any state.** With `c` the NAS COUNT in force (0 if this message takes a new
    context into use, otherwise the value of the stored UL counter word — whatever its bits 24..31), `NASEncode`
    returns EPD ‖ header type ‖ MAC ‖ SQN ‖ body with SQN = c mod 256, body = 128-NEA(K_NASenc, c, BEARER 1,
    DIRECTION uplink, plain) exactly under header types 2 and 4 and the plain message otherwise,
    MAC = 128-NIA(K_NASint, c, BEARER 1, DIRECTION uplink, SQN ‖ body); the UL counter becomes c + 1 mod 2^24. -/
theorem step_protects (P : Prims) (ue : UeSec) (op : UlOp) (hs : Supported ue) (hctx : op.ctxAvail = true) :
    ∃ body mac,
      (if op.sht = 2 ∨ op.sht = 4
        then Spec.NasAlg.nea P ue.cipheringAlg.toNat ue.knasEnc (count32 (if op.newCtx then 0 else cval ue.ulCount)) 1 0 op.plain = some body
        else body = op.plain) ∧
      Spec.NasAlg.nia P ue.integrityAlg.toNat ue.knasInt (count32 (if op.newCtx then 0 else cval ue.ulCount)) 1 0
        (UInt8.ofNat ((if op.newCtx then 0 else cval ue.ulCount) % 256) :: body) = some mac ∧
      (nasEncode P ue op).2 =
        .ok ([op.epd, op.sht] ++ mac ++ [UInt8.ofNat ((if op.newCtx then 0 else cval ue.ulCount) % 256)] ++ body) ∧
      cval (nasEncode P ue op).1.ulCount = ((if op.newCtx then 0 else cval ue.ulCount) + 1) % 2 ^ 24 := by
  obtain ⟨body, mac, hb, hm, he⟩ := ul_step P ue op hs hctx
  refine ⟨body, mac, ?_, ?_, by rw [he]; rfl, ?_⟩
  · have h24 : (op.sht = 2 ∨ op.sht = 4) ↔ isCipheredType op.sht = true := by simp [isCipheredType]
    unfold bodyAsSent at hb
    rw [← isCipheredType_eq] at hb
    by_cases hc : isCipheredType op.sht = true
    · rw [if_pos (h24.mpr hc)]; simpa [hc, ctxOf, bearer3gpp, uplink] using hb
    · rw [if_neg (fun h => hc (h24.mp h))]; simp [hc] at hb; exact hb.symm
  · simpa [macOf, ctxOf, bearer3gpp, uplink, sqnOf] using hm
  · rw [he]; exact (cval_addOne_get _).trans (by rw [cval_afterReset_ul])

/-- MAC = 128-NIA over SQN ‖ message as sent, BEARER = 1, DIRECTION = uplink (projection of `step_protects`,
    stated on the octets: whatever `NASEncode` returns splits as header ‖ MAC ‖ SQN ‖ body with that MAC). -/
theorem mac_is_nia_over_sqn_body (P : Prims) (ue : UeSec) (op : UlOp) (hs : Supported ue) (hctx : op.ctxAvail = true) :
    ∃ mac sqn body, (nasEncode P ue op).2 = .ok ([op.epd, op.sht] ++ mac ++ [sqn] ++ body) ∧
      sqn.toNat = (if op.newCtx then 0 else cval ue.ulCount) % 256 ∧
      Spec.NasAlg.nia P ue.integrityAlg.toNat ue.knasInt (count32 (if op.newCtx then 0 else cval ue.ulCount)) 1 0 (sqn :: body)
        = some mac := by
  obtain ⟨body, mac, -, hm, he, -⟩ := step_protects P ue op hs hctx
  refine ⟨mac, _, body, he, ?_, hm⟩
  rw [UInt8.toNat_ofNat']; omega

/-- the statement about the message body, parametric in the encoder so that it can be asked of the code before
    and after the F8 repair: the octets end with the body, which is the NEA ciphertext of the plain message under
    header types 2 and 4 and the plain message itself under every other header type. -/
def BodyStatement (enc : Prims → UeSec → UlOp → UeSec × Res Bytes) : Prop :=
  ∀ (P : Prims) (ue : UeSec) (op : UlOp), Supported ue → op.ctxAvail = true →
    ∃ out body, (enc P ue op).2 = .ok out ∧ body <:+ out ∧
      (if op.sht = 2 ∨ op.sht = 4
        then Spec.NasAlg.nea P ue.cipheringAlg.toNat ue.knasEnc (count32 (if op.newCtx then 0 else cval ue.ulCount)) 1 0 op.plain = some body
        else body = op.plain)

/-- the body is ciphered iff the header type is 2 or 4 — holds for the repaired code -/
theorem body_ciphered_iff_type_2_4 : BodyStatement nasEncode := by
  intro P ue op hs hctx
  obtain ⟨body, mac, hb, -, he, -⟩ := step_protects P ue op hs hctx
  exact ⟨_, body, he, List.suffix_append _ _, hb⟩

/-- **F8 (before commit dba9570).** The code called `NASEncrypt` under every header type. Witness: Registration
    complete `7e 00 43` under header type 1 with NEA2/NIA2 leaves as `… f6 88 cb` (toy CTR keystream 0x88), not in clear. -/
theorem body_statement_fails_before_F8_fix : ¬ BodyStatement nasEncodeLegacy := by
  intro h
  obtain ⟨out, body, ho, hsuf, hb⟩ := h toyPrims
    { ulCount := 0, dlCount := 0, cipheringAlg := 2, integrityAlg := 2, knasEnc := List.replicate 16 0, knasInt := List.replicate 16 0 }
    { plain := [0x7e, 0x00, 0x43], epd := 0x7e, sht := 1, ctxAvail := true, newCtx := false }
    ⟨Or.inr rfl, Or.inr (Or.inr rfl)⟩ rfl
  have hout : out = [0x7e, 0x01, 0xa0, 0xa1, 0xa2, 0xa3, 0x00, 0xf6, 0x88, 0xcb] := by
    have : (nasEncodeLegacy toyPrims
      { ulCount := 0, dlCount := 0, cipheringAlg := 2, integrityAlg := 2, knasEnc := List.replicate 16 0, knasInt := List.replicate 16 0 }
      { plain := [0x7e, 0x00, 0x43], epd := 0x7e, sht := 1, ctxAvail := true, newCtx := false }).2
        = .ok [0x7e, 0x01, 0xa0, 0xa1, 0xa2, 0xa3, 0x00, 0xf6, 0x88, 0xcb] := by rfl
    rw [this] at ho
    exact (Except.ok.inj ho).symm
  simp at hb
  subst hb hout
  revert hsuf
  decide

/-! ### histories -/

/-- **Any history refines the conformant UE.** For every sequence of calls on one UE context (protected or not,
    new-context resets anywhere, any start value of the stored counter word): every call succeeds, the list of
    returned octet strings is the list the specification's UE (`ueRun`, starting from the same NAS COUNT) sends,
    and afterwards the UL counter holds the specification's NAS COUNT. -/
theorem history_refines_spec (P : Prims) (ue : UeSec) (ops : List UlOp) (hs : Supported ue)
    (hsc : ∀ op ∈ ops, UlInScope op) :
    (runEncode P ue ops).2.map Except.toOption
        = (ueRun P (ctxOf ue) ⟨cval ue.ulCount⟩ (ops.map toSend)).2.map (·.2) ∧
    (∀ r ∈ (runEncode P ue ops).2, ∃ b, r = .ok b) ∧
    cval (runEncode P ue ops).1.ulCount = (ueRun P (ctxOf ue) ⟨cval ue.ulCount⟩ (ops.map toSend)).1.count :=
  let ⟨h1, h2, h3, _, _⟩ := ul_history P ue ops hs hsc
  ⟨h1, h2, h3⟩

/-- **The n-th message since the context was taken into use carries COUNT n − 1 (mod 2^24).** After any prefix `pre`,
    `o₀` takes a new context into use (message 1, COUNT 0 by `step_protects`); `mid` follows without a new context;
    then `o` is message n = protectedSends mid + 2 and what `NASEncode` returns for it is the specification's
    protected message under COUNT (n − 1) mod 2^24 — no bound on the lengths of `pre` and `mid`. -/
theorem count_nth_message (P : Prims) (ue : UeSec) (pre mid : List UlOp) (o₀ o : UlOp) (hs : Supported ue)
    (hpre : ∀ op ∈ pre, UlInScope op) (hmid : ∀ op ∈ mid, UlInScope op) (hs₀ : UlInScope o₀) (hso : UlInScope o)
    (h₀ : o₀.ctxAvail = true ∧ o₀.newCtx = true) (hnn : NoNewContext mid)
    (hoc : o.ctxAvail = true) (hon : o.newCtx = false) :
    ∃ out, (runEncode P ue (pre ++ o₀ :: (mid ++ [o]))).2.getLast? = some (.ok out) ∧
      protect P (ctxOf ue) uplink ((protectedSends mid + 1) % 2 ^ 24) o.epd o.sht.toNat o.plain = some out :=
  count_nth P ue pre mid o₀ o hs hpre hmid hs₀ hso h₀ hnn hoc hon

/-- the same without a reset in sight: from a stored counter word of value `c`, the message after `k` protected
    sends carries COUNT (c + k) mod 2^24 — across the SQN wrap, across 65 536 and across 2^24 -/
theorem count_from_start (P : Prims) (ue : UeSec) (ops : List UlOp) (o : UlOp) (hs : Supported ue)
    (hsc : ∀ op ∈ ops, UlInScope op) (hnn : NoNewContext ops)
    (hso : UlInScope o) (hoc : o.ctxAvail = true) (hon : o.newCtx = false) :
    ∃ out, (runEncode P ue (ops ++ [o])).2.getLast? = some (.ok out) ∧
      protect P (ctxOf ue) uplink ((cval ue.ulCount + protectedSends ops) % 2 ^ 24) o.epd o.sht.toNat o.plain = some out :=
  count_from P ue ops o hs hsc hnn hso hoc hon

/-- **A conformant receiver recovers exactly the submitted plain message**, for the k-th message of any history:
    holding the same keys and algorithms and the NAS COUNT the conformant sender used for message k, it finds the
    sequence number and the MAC correct, deciphers under the ciphered header types, and returns `op.plain`. -/
theorem receiver_recovers_plain (P : Prims) (hP : PrimsOk P) (ue : UeSec) (ops : List UlOp) (hs : Supported ue)
    (hsc : ∀ op ∈ ops, UlInScope op) (k : Nat) (op : UlOp) (hk : ops[k]? = some op) (hctx : op.ctxAvail = true) :
    ∃ c out, (runEncode P ue ops).2[k]? = some (.ok out) ∧
      (ueRun P (ctxOf ue) ⟨cval ue.ulCount⟩ (ops.map toSend)).2[k]? = some (some c, some out) ∧
      receive P (ctxOf ue) uplink c out = some op.plain :=
  ul_history_received P hP ue ops hs hsc k op hk hctx

/-- taking a new context into use resets both counters: the message itself uses COUNT 0 (`step_protects`),
    afterwards the UL NAS COUNT is 1 and the DL NAS COUNT is 0, from whatever the stored words were -/
theorem new_context_resets_counters (P : Prims) (ue : UeSec) (op : UlOp) (hs : Supported ue)
    (hctx : op.ctxAvail = true) (hnew : op.newCtx = true) :
    cval (nasEncode P ue op).1.ulCount = 1 ∧ cval (nasEncode P ue op).1.dlCount = 0 ∧
    (Count.get (nasEncode P ue op).1.dlCount).2 = 0 := by
  obtain ⟨body, mac, -, -, he⟩ := ul_step P ue op hs hctx
  have hd : cval (nasEncode P ue op).1.dlCount = 0 := by
    rw [he]; simpa [hnew] using cval_afterReset_dl ue op.newCtx
  refine ⟨?_, hd, ?_⟩
  · rw [he]; exact (cval_addOne_get _).trans (by rw [cval_afterReset_ul]; simp [hnew])
  · rw [get_eq, hd]; rfl

/-- without a security context the message is sent unchanged and nothing in the UE context moves -/
theorem plain_passthrough (P : Prims) (ue : UeSec) (op : UlOp) (h : op.ctxAvail = false) :
    nasEncode P ue op = (ue, .ok op.plain) :=
  Proofs.NasProtect.plain_passthrough P ue op h

/-- the bytes entry point `EncodeNasPduWithSecurity(ue, pdu, sht, ctxAvail, newCtx)`: for a `pdu` the plain codec
    decodes and re-encodes to `plain` it is `NASEncode` with the EPD fixed to 0x7e (5GMM); so all of the above holds
    for it, and for `plain = pdu` (C08: canonical encodings re-encode to themselves) the receiver recovers `pdu`. -/
theorem bytes_entry (P : Prims) (hP : PrimsOk P) (ue : UeSec) (plain : Bytes) (sht : UInt8) (newCtx : Bool)
    (hs : Supported ue) (hsht : protectedType sht.toNat = true) :
    encodeNasPduWithSecurity P ue plain sht true newCtx
      = nasEncode P ue { plain := plain, epd := 0x7e, sht := sht, ctxAvail := true, newCtx := newCtx } ∧
    ∃ out, (encodeNasPduWithSecurity P ue plain sht true newCtx).2 = .ok out ∧ out.head? = some 0x7e ∧
      receive P (ctxOf ue) uplink (if newCtx then 0 else cval ue.ulCount) out = some plain := by
  refine ⟨rfl, ?_⟩
  have := ul_history_received P hP ue [{ plain := plain, epd := 0x7e, sht := sht, ctxAvail := true, newCtx := newCtx }] hs
    (by intro op hop; simp at hop; subst hop; exact fun _ => hsht) 0 _ rfl rfl
  obtain ⟨c, out, h1, h2, h3⟩ := this
  simp [runEncode] at h1
  simp [ueRun, toSend, ueProtect] at h2
  obtain ⟨hc, hp⟩ := h2
  refine ⟨out, h1, ?_, by rw [← hc] at h3; exact h3⟩
  unfold protect at hp
  simp only [hsht, Bool.not_true, Bool.false_eq_true, if_false] at hp
  split at hp
  · simp at hp
  · split at hp
    · simp at hp
    · simp only [Option.some.injEq] at hp; subst hp; rfl

/-! ### the hypotheses are satisfiable -/

example : Supported { ulCount := 0x00ffffff, dlCount := 5, cipheringAlg := 1, integrityAlg := 2,
                      knasEnc := List.replicate 16 1, knasInt := List.replicate 16 2 } :=
  ⟨Or.inr rfl, Or.inr (Or.inl rfl)⟩
example : ∃ P, PrimsOk P := ⟨toyPrims, toyPrims_ok⟩
/-- … and by the real SP 800-38A CTR / RFC 4493 CMAC over AES-128 (the comparator's executable instance) -/
example : PrimsOk Crypto.prims := cryptoPrims_ok
example : UlInScope { plain := [0x7e, 0, 0x43], epd := 0x7e, sht := 4, ctxAvail := true, newCtx := true } := fun _ => rfl
example : NoNewContext [{ plain := [0x7e, 0, 0x43], epd := 0x7e, sht := 2, ctxAvail := true, newCtx := false }] := by
  intro op hop; simp at hop; subst hop; simp

end Stgutg.Props.C06
