import Stgutg.Model.NasProtect
import Stgutg.Spec.NasSecurity
namespace Stgutg.Props.C06
end Stgutg.Props.C06
