/-
  C08 — the NAS message codec is lossless for all 45 message types.
  Property theorems only; helper lemmas live in Stgutg/Proofs/NasCodec.lean.

  `Layout` is what `gen naslayout` extracts from the generated Go codec, `encode`/`decode` is the hand
  model of the statement shapes (Model/NasCodec.lean, tied by `corr nas-rt`), `LayoutWF`/`MsgWF` are the
  decidable predicates of Model/NasWF.lean.  The generic theorems quantify over EVERY well-formed layout and
  message; the table facts instantiate them at the 45 layouts regenerated from the source on every run.
-/
import Stgutg.Proofs.NasCodec
import Stgutg.Gen.NasLayouts

namespace Stgutg.Props.C08
open Stgutg Stgutg.Nas

/-! ## generic theorems -/

/-- decoding the encoding of any well-formed message yields the message (any subset of optional IEs, any
    field values, any IE length within the IE's capacity) -/
theorem nas_decode_encode (L : Layout) (m : Msg) (hL : LayoutWF L) (hm : MsgWF L m) :
    (encode L m).bind (decode L) = .ok m := by
  obtain ⟨mand, _, henc, hdec⟩ := decode_pieces L m hL hm
  rw [henc]
  exact hdec _ (fun _ h => h) (fun p hp => List.mem_map_of_mem hp)

/-- encoding never fails or panics on a well-formed message -/
theorem nas_encode_ok (L : Layout) (m : Msg) (hL : LayoutWF L) (hm : MsgWF L m) :
    ∃ bs, encode L m = .ok bs := by
  obtain ⟨mand, _, henc, _⟩ := decode_pieces L m hL hm
  exact ⟨_, henc⟩

/-- the byte strings of layout `L` "in canonical IE order": the encodings of its well-formed messages
    (mandatory part, then each present optional IE once, in table order, `Len` = number of value octets) -/
def canonicalLang (L : Layout) (bs : Bytes) : Prop := ∃ m, MsgWF L m ∧ encode L m = .ok bs

/-- encoding what was decoded from a canonical byte string reproduces the bytes -/
theorem nas_encode_decode (L : Layout) (hL : LayoutWF L) (bs : Bytes) (h : canonicalLang L bs) :
    (decode L bs).bind (encode L) = .ok bs := by
  obtain ⟨m, hm, henc⟩ := h
  have := nas_decode_encode L m hL hm
  rw [henc] at this
  simp only [Except.bind] at this
  rw [this]
  exact henc

/-- optional IEs are recognised whatever order they arrive in: the mandatory part followed by ANY
    permutation of the message's optional IE encodings decodes like the canonical order (to the message) -/
theorem nas_order_insensitive (L : Layout) (m : Msg) (hL : LayoutWF L) (hm : MsgWF L m)
    (mand : Bytes) (hmand : encGroups L.fields m false L.encMand = .ok mand)
    (ps : List (Nat × Bytes)) (hperm : ps.Perm (optPieces L.fields m L.encOpt)) :
    encode L m = .ok (mand ++ ((optPieces L.fields m L.encOpt).map (·.2)).flatten) ∧
    decode L (mand ++ (ps.map (·.2)).flatten) =
      decode L (mand ++ ((optPieces L.fields m L.encOpt).map (·.2)).flatten) ∧
    decode L (mand ++ (ps.map (·.2)).flatten) = .ok m := by
  obtain ⟨mand', hmand', henc, hdec⟩ := decode_pieces L m hL hm
  rw [hmand] at hmand'
  cases hmand'
  have h1 := hdec ps (fun p hp => hperm.mem_iff.mp hp)
    (fun p hp => List.mem_map_of_mem (hperm.mem_iff.mpr hp))
  have h2 := hdec _ (fun _ h => h) (fun p hp => List.mem_map_of_mem hp)
  exact ⟨henc, by rw [h1, h2], h1⟩

/-- through the message-type dispatch of nas.go: `PlainNasDecode (PlainNasEncode M) = M` for a `nas.Message`
    whose header octets are those of its (well-formed) embedded message -/
theorem nas_plain_roundtrip (C : Codec) (hC : CodecWF C) (pm : PlainMsg) (hp : PlainWF C pm) :
    (plainEncode C pm).bind (plainDecode C) = .ok pm :=
  plain_roundtrip C hC pm hp

/-- unknown message types are reported as errors (decode side): a message whose EPD is 5GMM / 5GSM but
    whose message-type octet is in no `case` of the dispatch is refused -/
theorem nas_unknown_type (C : Codec) (bytes : Bytes) (gsm : Bool) (e t : UInt8)
    (d : Dispatch) (hd : d = if gsm then C.gsm else C.gmm)
    (hne : C.gmm.epd ≠ C.gsm.epd)
    (h0 : bytes[0]? = some e) (he : e.toNat = d.epd) (hlen : d.hdrLen ≤ bytes.length)
    (ht : bytes[d.typeIdx]? = some t) (hti : d.typeIdx < d.hdrLen)
    (hno : d.dec.lookup t.toNat = none) :
    plainDecode C bytes = .error .error := by
  cases bytes with
  | nil => simp at h0
  | cons b rest =>
    simp at h0
    subst h0
    have hread : (readN d.hdrLen (b :: rest)).1 = some ((b :: rest).take d.hdrLen) := by
      unfold readN; rw [if_pos hlen]
    have htake : ((b :: rest).take d.hdrLen)[d.typeIdx]? = some t := by
      rw [List.getElem?_take]; simp [hti, ht]
    cases gsm with
    | false =>
      simp only [Bool.false_eq_true, if_false] at hd
      subst hd
      simp only [plainDecode]
      rw [if_pos he]
      simp only [hread, htake, hno]
    | true =>
      simp only [if_true] at hd
      subst hd
      have : ¬ (b.toNat = C.gmm.epd) := by rw [he]; exact fun h => hne h.symm
      simp only [plainDecode]
      rw [if_neg this, if_pos he]
      simp only [hread, htake, hno]

/-- an EPD that is neither 5GMM nor 5GSM is refused -/
theorem nas_unknown_epd (C : Codec) (b : UInt8) (rest : Bytes)
    (h1 : b.toNat ≠ C.gmm.epd) (h2 : b.toNat ≠ C.gsm.epd) :
    plainDecode C (b :: rest) = .error .error := by
  simp [plainDecode, h1, h2]

/-- unknown message types are reported as errors (encode side) -/
theorem nas_unknown_type_encode (C : Codec) (pm : PlainMsg) (t : UInt8)
    (ht : pm.hdr[(if pm.gsm then C.gsm else C.gmm).typeIdx]? = some t)
    (hno : (if pm.gsm then C.gsm else C.gmm).enc.lookup t.toNat = none) :
    plainEncode C pm = .error .error := by
  simp only [plainEncode, ht, hno]

/-! ## table facts: the 45 layouts in the source today -/

/-- the codec as extracted from the working tree -/
def codec : Codec := { layouts := Gen.Nas.layouts, gmm := Gen.Nas.dispatchGmm, gsm := Gen.Nas.dispatchGsm }

theorem layouts_count : Gen.Nas.layouts.length = 45 := by decide

/-- every one of the 45 extracted layouts is well-formed: encode and decode statements pair up field by
    field with a lossless statement pairing, there is exactly one decode case per optional IE, the IEI
    constants are pairwise distinct under the decoder's own `ieiN >= 0x80 → high nibble` rule, half-octet
    IEIs are 8..15 and full-octet IEIs < 0x80 (so neither shadows the other) -/
theorem layouts_wf : ∀ L ∈ Gen.Nas.layouts, LayoutWF L := by decide +kernel

/-- nas.go: decode and encode switches list the same (type, message) pairs, types and messages pairwise
    distinct, all 28 + 16 dispatched layouts are well-formed and start with the header octets -/
theorem codec_wf : CodecWF codec := by decide +kernel

theorem dispatch_count : Gen.Nas.dispatchGmm.dec.length = 28 ∧ Gen.Nas.dispatchGsm.dec.length = 16 := by decide

/-- C08 for the code in the tree: all 45 message types, every well-formed message -/
theorem C08_roundtrip : ∀ L ∈ Gen.Nas.layouts, ∀ m, MsgWF L m → (encode L m).bind (decode L) = .ok m :=
  fun L hL m hm => nas_decode_encode L m (layouts_wf L hL) hm

theorem C08_reencode : ∀ L ∈ Gen.Nas.layouts, ∀ bs, canonicalLang L bs → (decode L bs).bind (encode L) = .ok bs :=
  fun L hL bs h => nas_encode_decode L (layouts_wf L hL) bs h

theorem C08_plain_roundtrip : ∀ pm, PlainWF codec pm → (plainEncode codec pm).bind (plainDecode codec) = .ok pm :=
  fun pm hp => nas_plain_roundtrip codec codec_wf pm hp

/-- a message type octet outside the 28 5GMM / 16 5GSM values is an error -/
theorem C08_unknown_type_gmm (bytes : Bytes) (t : UInt8) (h0 : bytes[0]? = some 0x7E) (hlen : 3 ≤ bytes.length)
    (ht : bytes[2]? = some t) (hno : Gen.Nas.dispatchGmm.dec.lookup t.toNat = none) :
    plainDecode codec bytes = .error .error :=
  nas_unknown_type codec bytes false 0x7E t Gen.Nas.dispatchGmm rfl (by decide) h0 (by decide) hlen ht (by decide) hno

theorem C08_unknown_type_gsm (bytes : Bytes) (t : UInt8) (h0 : bytes[0]? = some 0x2E) (hlen : 4 ≤ bytes.length)
    (ht : bytes[3]? = some t) (hno : Gen.Nas.dispatchGsm.dec.lookup t.toNat = none) :
    plainDecode codec bytes = .error .error :=
  nas_unknown_type codec bytes true 0x2E t Gen.Nas.dispatchGsm rfl (by decide) h0 (by decide) hlen ht (by decide) hno

/-! ## the hypotheses are satisfiable -/

/-- a message with every optional IE present, one value octet where a length is free -/
def sampleVal (s : Shape) (iei : Nat) (e : List WOp) : Val :=
  match e with
  | [.octet] => if s.hasIei || iei = 0 then { data := List.replicate s.body.size 0 }
                else { data := [UInt8.ofNat (iei * 16 + 5)] }
  | [.iei, .len, .buf] => { iei := iei, len := 1, data := [0xA5] }
  | [.len, .buf] => { len := 1, data := [0xA5] }
  | [.iei, .len, .octetLen] => { iei := iei, len := 1, data := 0xA5 :: List.replicate (s.body.size - 1) 0 }
  | [.iei, .len, .octet] | [.len, .octet] => { iei := iei, len := 1, data := List.replicate s.body.size 0x5A }
  | [.iei, .octet] => { iei := iei, data := List.replicate s.body.size 0x5A }
  | _ => {}

def sampleMsg (L : Layout) : Msg :=
  (L.encMand.map fun g => (L.fields[g.1]?).map fun f => sampleVal f.shape 0 g.2) ++
  (L.encOpt.zip L.cases).map fun p => (L.fields[p.1.1]?).map fun f => sampleVal f.shape p.2.iei p.1.2

example : ∀ L ∈ Gen.Nas.layouts, MsgWF L (sampleMsg L) := by decide +kernel

/-- the round trip evaluated on the samples by the kernel (a test of the statement, not a proof obligation) -/
example : ∀ L ∈ Gen.Nas.layouts,
    (match (encode L (sampleMsg L)).bind (decode L) with
      | .ok m' => m' == sampleMsg L
      | .error _ => false) = true := by
  decide +kernel

/-- a Registration Request and a PDU Session Establishment Request as `PlainNasDecode` produces them -/
def samplePlain (gsm : Bool) (name : String) (hdr : Bytes) : Option PlainMsg :=
  (Gen.Nas.layouts.findIdx? (·.name == name)).bind fun i =>
    (Gen.Nas.layouts[i]?).map fun L =>
      { gsm := gsm, hdr := hdr, idx := i,
        body := (sampleMsg L).zipIdx.map fun (v, j) =>
          if j < hdr.length then v.map fun x => { x with data := [hdr.getD j 0] } else v }

example : (samplePlain false "RegistrationRequest" [0x7E, 0x00, 0x41]).any (plainWF codec) = true := by decide +kernel
example : (samplePlain true "PDUSessionEstablishmentRequest" [0x2E, 0x05, 0x01, 0xC1]).any (plainWF codec) = true := by
  decide +kernel

end Stgutg.Props.C08
