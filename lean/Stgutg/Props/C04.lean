/- C04 property theorems (under construction) -/
import Stgutg.Model.AperDec
import Stgutg.Gen.NgapSchema
namespace Stgutg.Props.C04
end Stgutg.Props.C04
