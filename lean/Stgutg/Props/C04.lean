/-
  C04 — NGAP decode inverts encode, and re-encode reproduces the bytes.
  Model: Stgutg.Model.AperEnc / AperDec. Helper lemmas: Stgutg/Proofs/AperRT.lean.

  `RT bits pos m a` (Proofs.AperRT): on ANY octet-complete input `bits ++ tail` read from bit position `pos`,
  the decoder computation `m` returns `a` and leaves exactly `tail` — so the statements below compose through
  SEQUENCE components, OPTIONAL bitmaps, SEQUENCE OF and open types.
-/
import Stgutg.Proofs.AperRT
import Stgutg.Gen.NgapSchema

namespace Stgutg.Props.C04
open Stgutg Stgutg.Aper Stgutg.Proofs.AperRT

/-- constrained whole numbers (X.691 11.5) of every range up to 64K: bit-field, one octet, two octets -/
theorem constrained_whole_number (pos : Nat) (range : Int) (v : Nat) (bits : Bits)
    (h : appendConstraintValue pos range v = .ok bits) : RT bits pos (parseConstraintValue range) v :=
  RT_constraintValue pos range v bits h

/-- length determinants below the fragmentation threshold (constrained, one octet, two octets) -/
theorem length_determinant (pos : Nat) (sizeRange : Int) (v : Nat) (bits : Bits) (hv : v < 16384)
    (h : appendLength pos sizeRange v = .ok bits) : RT bits pos (parseLength sizeRange) (v, false) :=
  RT_length pos sizeRange v bits hv h

/-- INTEGER with a root constraint lb..ub (0 ≤ lb, ub < 2^63; ranges above 64K start at 0, as all of NGAP's do):
    every value in range is read back — single value, bit-field, 1/2 octets, and the length-prefixed form
    used for AMF-UE-NGAP-ID (0..2^40−1), RAN-UE-NGAP-ID (0..2^32−1), bit rates … -/
theorem integer_roundtrip (pos : Nat) (v : Int) (params : Params) (bits : Bits) (lb ub : Int)
    (hlb : params.valueLB = some lb) (hub : params.valueUB = some ub)
    (hv1 : lb ≤ v) (hv2 : v ≤ ub) (hlb0 : 0 ≤ lb) (hub63 : ub < 2 ^ 63)
    (hbig : ub - lb + 1 > 65536 → lb = 0) (hs : params.sizeExt = false)
    (h : appendInteger pos v params.valueExt params.valueLB params.valueUB = .ok bits) :
    RT bits pos (leafDec .int params) (.int v) :=
  RT_int pos v params bits lb ub hlb hub hv1 hv2 hlb0 hub63 hbig hs h

/-- ENUMERATED (root values, extensible or not) -/
theorem enumerated_roundtrip (pos n : Nat) (params : Params) (bits : Bits)
    (h : appendEnumerated pos n params.valueExt params.valueLB params.valueUB = .ok bits)
    (hs : params.sizeExt = false) (hlb : params.valueLB = some 0) :
    RT bits pos (leafDec .enum params) (.enum n) :=
  RT_enum pos n params bits h hs hlb

/-- OCTET STRING of any size constraint (fixed ≤ 2 octets unaligned, fixed > 2 aligned, variable with constrained
    or unconstrained length, size extension), up to 16 383 octets -/
theorem octet_string_roundtrip (pos : Nat) (bytes : Bytes) (params : Params) (bits : Bits)
    (hok : SizedParamsOK params) (hlen : bytes.length < 16384) (hv : params.valueExt = false)
    (h : appendOctetString pos bytes params.sizeExt params.sizeLB params.sizeUB = .ok bits) :
    RT bits pos (leafDec .octs params) (.octs bytes) :=
  RT_leaf_octs pos bytes params bits hok hlen hv h

/-- PrintableString (coded as OCTET STRING by this library) -/
theorem string_roundtrip (pos : Nat) (bytes : Bytes) (params : Params) (bits : Bits)
    (hok : SizedParamsOK params) (hlen : bytes.length < 16384) (hv : params.valueExt = false)
    (h : appendOctetString pos bytes params.sizeExt params.sizeLB params.sizeUB = .ok bits) :
    RT bits pos (leafDec .str params) (.str bytes) :=
  RT_leaf_str pos bytes params bits hok hlen hv h

/-- BIT STRING whose octets are the zero-padded packing of its bits (unused bits clear — what the decoder
    returns since the F17 repair): every size constraint, any bit length up to 16 383, any alignment -/
theorem bit_string_roundtrip (pos : Nat) (bytes : Bytes) (len : Nat) (params : Params) (bits : Bits)
    (hok : SizedParamsOK params) (hlen : len < 16384) (hv : params.valueExt = false)
    (hcanon : bitsToBytes ((bytesToBits bytes).take len) = bytes)
    (h : appendBitString pos bytes len params.sizeExt params.sizeLB params.sizeUB = .ok bits) :
    RT bits pos (leafDec .bits params) (.bits bytes len) :=
  RT_leaf_bits pos bytes len params bits hok hlen hv hcanon h

/-- non-vacuity: AMF-UE-NGAP-ID 2^40 − 1 written at bit position 3 satisfies `integer_roundtrip`'s hypotheses -/
example : (match appendInteger 3 (2 ^ 40 - 1) false (some 0) (some (2 ^ 40 - 1)) with
    | .ok b => b.length == 3 + 2 + 40 | .error _ => false) = true := by
  decide +kernel

end Stgutg.Props.C04
