/-
  C04 — NGAP decode inverts encode, and re-encode reproduces the bytes.
  Model: Stgutg.Model.AperEnc / AperDec. Helper lemmas: Stgutg/Proofs/AperRT.lean (primitives),
  Stgutg/Proofs/AperRTComp*.lean (composite types: SEQUENCE, CHOICE, SEQUENCE OF, pointers, open types).

  `RT bits pos m a` (Proofs.AperRT): on ANY octet-complete input `bits ++ tail` read from bit position `pos`,
  the decoder computation `m` returns `a` and leaves exactly `tail` — so the statements below compose through
  SEQUENCE components, OPTIONAL bitmaps, SEQUENCE OF and open types.
-/
import Stgutg.Proofs.AperRTComp
import Stgutg.Gen.NgapSchema

namespace Stgutg.Props.C04
open Stgutg Stgutg.Aper Stgutg.Proofs.AperRT Stgutg.Proofs.AperRTComp

/-- constrained whole numbers (X.691 11.5) of every range up to 64K: bit-field, one octet, two octets -/
theorem constrained_whole_number (pos : Nat) (range : Int) (v : Nat) (bits : Bits)
    (h : appendConstraintValue pos range v = .ok bits) : RT bits pos (parseConstraintValue range) v :=
  RT_constraintValue pos range v bits h

/-- length determinants below the fragmentation threshold (constrained, one octet, two octets) -/
theorem length_determinant (pos : Nat) (sizeRange : Int) (v : Nat) (bits : Bits) (hv : v < 16384)
    (h : appendLength pos sizeRange v = .ok bits) : RT bits pos (parseLength sizeRange) (v, false) :=
  RT_length pos sizeRange v bits hv h

/-- INTEGER with a root constraint lb..ub (0 ≤ lb, ub < 2^63; ranges above 64K start at 0, as all of NGAP's do):
    every value in range is read back — single value, bit-field, 1/2 octets, and the length-prefixed form
    used for AMF-UE-NGAP-ID (0..2^40−1), RAN-UE-NGAP-ID (0..2^32−1), bit rates … -/
theorem integer_roundtrip (pos : Nat) (v : Int) (params : Params) (bits : Bits) (lb ub : Int)
    (hlb : params.valueLB = some lb) (hub : params.valueUB = some ub)
    (hv1 : lb ≤ v) (hv2 : v ≤ ub) (hlb0 : 0 ≤ lb) (hub63 : ub < 2 ^ 63)
    (hbig : ub - lb + 1 > 65536 → lb = 0) (hs : params.sizeExt = false)
    (h : appendInteger pos v params.valueExt params.valueLB params.valueUB = .ok bits) :
    RT bits pos (leafDec .int params) (.int v) :=
  RT_int pos v params bits lb ub hlb hub hv1 hv2 hlb0 hub63 hbig hs h

/-- ENUMERATED (root values, extensible or not) -/
theorem enumerated_roundtrip (pos n : Nat) (params : Params) (bits : Bits)
    (h : appendEnumerated pos n params.valueExt params.valueLB params.valueUB = .ok bits)
    (hs : params.sizeExt = false) (hlb : params.valueLB = some 0) :
    RT bits pos (leafDec .enum params) (.enum n) :=
  RT_enum pos n params bits h hs hlb

/-- fragmented lengths (X.691 11.9.3.8), every length: the OCTET STRING loop of the decoder reads back a general
    length and its octets as the (repaired, F36) fragmentation loop of the encoder writes them — one or two length
    octets below 16K; from 16K on fragments `11mmmmmm` of m·16K octets, then the rest, then the final length
    (0 after an exact multiple of 16K) -/
theorem fragmented_octets_roundtrip (pos : Nat) (bytes : Bytes) (bits : Bits) (g : Nat)
    (hg : bytes.length / 16384 + 1 ≤ g)
    (h : fragLoop 8 (-1) 0 (bytes.length / 16384 + 2) pos bytes.length (bytesToBits bytes) = .ok bits) :
    RT bits pos (parseOctetStringLoop (-1) 0 g []) bytes := by
  rw [Proofs.AperSpec.fragLoop_unc 8 (by decide) (bytes.length / 16384 + 1) pos bytes.length (bytesToBits bytes)
    (by rw [Proofs.Bits.bytesToBits_length]; omega) (Nat.le_refl _)] at h
  simp only [Except.ok.injEq] at h
  rw [← h]
  exact RT_octItems (bytes.length / 16384 + 1) pos bytes [] g (Nat.le_refl _) hg

/-- OCTET STRING of any size constraint (fixed ≤ 2 octets unaligned, fixed > 2 aligned, variable with constrained
    or general length, size extension) and of ANY length (16K octets or more: fragmented). `FragParamsOK`: SIZE(lb..MAX)
    only with lb = 0 and a constrained size (ub < 64K) ends below 16K, so that a length of 16K or more is always a
    general length with lower bound 0. -/
theorem octet_string_roundtrip (pos : Nat) (bytes : Bytes) (params : Params) (bits : Bits)
    (hok : SizedParamsOK params) (hfrag : FragParamsOK params) (hv : params.valueExt = false)
    (h : appendOctetString pos bytes params.sizeExt params.sizeLB params.sizeUB = .ok bits) :
    RT bits pos (leafDec .octs params) (.octs bytes) :=
  RT_leaf_octs_any pos bytes params bits hok hfrag hv h

/-- PrintableString (coded as OCTET STRING by this library) -/
theorem string_roundtrip (pos : Nat) (bytes : Bytes) (params : Params) (bits : Bits)
    (hok : SizedParamsOK params) (hfrag : FragParamsOK params) (hv : params.valueExt = false)
    (h : appendOctetString pos bytes params.sizeExt params.sizeLB params.sizeUB = .ok bits) :
    RT bits pos (leafDec .str params) (.str bytes) :=
  RT_leaf_str_any pos bytes params bits hok hfrag hv h

/-- BIT STRING whose octets are the zero-padded packing of its bits (unused bits clear — what the decoder
    returns since the F17 repair): every size constraint, ANY bit length (16K bits or more: fragmented), any alignment -/
theorem bit_string_roundtrip (pos : Nat) (bytes : Bytes) (len : Nat) (params : Params) (bits : Bits)
    (hok : SizedParamsOK params) (hfrag : FragParamsOK params) (hv : params.valueExt = false)
    (hcanon : bitsToBytes ((bytesToBits bytes).take len) = bytes)
    (h : appendBitString pos bytes len params.sizeExt params.sizeLB params.sizeUB = .ok bits) :
    RT bits pos (leafDec .bits params) (.bits bytes len) :=
  RT_leaf_bits_any pos bytes len params bits hok hfrag hv hcanon h

set_option maxRecDepth 10000000 in
/-- non-vacuity for a fragmented length: an unconstrained BIT STRING of exactly 16384 bits is encoded (fragment header,
    2048 octets, final length 0 = 2050 octets), so `bit_string_roundtrip` applies to it -/
example : (match appendBitString 0 (List.replicate 2048 0xff) 16384 false none none with
    | .ok b => b.length == 8 + 16384 + 8 | .error _ => false) = true := by decide +kernel

/-- non-vacuity: AMF-UE-NGAP-ID 2^40 − 1 written at bit position 3 satisfies `integer_roundtrip`'s hypotheses -/
example : (match appendInteger 3 (2 ^ 40 - 1) false (some 0) (some (2 ^ 40 - 1)) with
    | .ok b => b.length == 3 + 2 + 40 | .error _ => false) = true := by
  decide +kernel


/-! ## The composite theorem

  `rtOK env` (decidable, `Proofs/AperRTCompDefs.lean`) is what the proof needs of the SCHEMA:
  * a component tagged `optional` is a pointer (an absent one decodes to the nil pointer); fewer than 64 OPTIONAL
    components per SEQUENCE (the bitmap is read into a uint64);
  * CHOICE alternatives are pointers, none is tagged `optional`, and `findAlt` finds every alternative that carries a
    `referenceFieldValue` (the values of an open-type struct are pairwise distinct — first match wins);
  * every component (SEQUENCE field, SEQUENCE OF element) has parameters that fit its type (`paramsOKx`: INTEGER
    bounds both present, 0 ≤ lb, ub < 2^63, ranges above 64K start at 0; ENUMERATED roots start at 0; string sizes
    non-negative, a fixed size ≥ 1, no `valueExt` on strings, no `sizeExt` on struct-typed fields (F23), neither on BOOLEAN; SEQUENCE OF:
    non-negative lower bound, `sizeExt` only with an upper bound below 64K) and NEVER ENCODES TO ZERO BITS (`neF`):
    `parseField` refuses an exhausted reader ("sequence truncated") even when the component needs no bits, so a
    zero-width component that ends a PDU (or an open-type container) on an octet boundary cannot be decoded.
  Topological order of the struct ids is NOT needed: encoder and decoder recurse on the same fuel, and the encoder's
  success is a hypothesis.

  `conf env fuel ty params v` (decidable) is what the proof needs of the VALUE beyond "the encoder accepts it":
  * INTEGER within lb..ub, or — for an extensible INTEGER — above ub and below 2^63 (an int64; written as extension
    bit 1 + the unconstrained form, `RT_int_ext`);
  * OCTET STRING / PrintableString / BIT STRING of ANY length (16K items or more are fragmented, X.691 11.9.3.8:
    `Proofs/AperRTFrag.lean`, encoder after the repair of F36); a BIT STRING canonical (⌈n/8⌉ octets, unused bits zero —
    what the decoder returns since F17);
  * a CHOICE value is `Present = p`, alternative `p` set, every other alternative a nil pointer (what the decoder leaves), and the
    selected alternative never encodes to zero bits. FINDING: the 27 `choice-Extensions` alternatives of NGAP's CHOICE
    types are generated as EMPTY Go structs (`ProtocolIESingleContainer…ExtIEs struct{}`, ids `exIds Gen.Ngap.schema`);
    selecting one encodes to the index only, and the decoder model answers "sequence truncated" whenever that index
    ends its container exactly on an octet boundary (model-level observation; no Go input was constructed). No real
    NGAP value uses them (the information
    object sets are empty in TS 38.413), so nothing on the emulator's path is excluded;
  * the content of an open type may have any length (fragmented from 16K octets on).
  `rtOK` asks in addition (`fragOK`) that a string's SIZE(lb..MAX) has lb = 0 and that a constrained size (ub < 64K) ends
  below 16K, so that a length of 16K or more is always a general length with lower bound 0 (NGAP: largest constrained
  string size is 9600; with a constrained length of 16K or more the library's loop would fragment where X.691 does not).
  Measured (one-off, 2 725 `aperrt` values of the quick tier, seed 1): every value the encoder accepts (2 683) satisfies `conf`.
  FINDING (schema, confirmed on the Go code and fixed in /repo 9b665fc): `AssociatedQosFlowItem.QosFlowMappingIndication`
  was `*aper.Enumerated` tagged only `optional` (no bounds): the encoder refused every present value. The tag now is
  `valueExt,valueLB:0,valueUB:1,optional`; `enumOK` needs no exception either way.
-/

/-- parameters fit the type -/
abbrev ParamsFor (env : Env) (ty : Ty) (params : Params) : Prop := paramsOK env ty params = true

/-- `v` is a value of type `ty` within its constraints -/
abbrev Conf (env : Env) (fuel : Nat) (ty : Ty) (params : Params) (v : Val) : Prop := conf env fuel ty params v = true

/-- **C04, composite round trip (model level, every schema that passes `rtOK`)**: on any octet-complete input
    `bits ++ tail` with at least one bit left, read from bit position `pos`, `parseField` returns the value
    `makeField` was given and leaves exactly `tail`. Covers SEQUENCE (extension bit, OPTIONAL bitmap, absent
    optionals), CHOICE, SEQUENCE OF (constrained / general count, extension bit), pointers and OPEN TYPES
    (inner value decoded from its own buffer, alternative found through the reference value decoded earlier). -/
theorem composite_roundtrip (env : Env) (hwf : rtOK env = true) :
    ∀ (fuel pos : Nat) (ty : Ty) (params : Params) (v : Val) (bits : Bits),
      ParamsFor env ty params → Conf env fuel ty params v →
      encField env fuel pos ty params v = .ok bits → RT' bits pos (decField env fuel ty params) v :=
  RT_field env hwf

/-- a component that passes the static test `neTy` never encodes to zero bits (so it is read back on ANY
    octet-complete input: `RT`, not only `RT'`) -/
theorem never_empty (env : Env) (ty : Ty) (params : Params) (h : neTy env ty params = true)
    (fuel pos : Nat) (v : Val) (bits : Bits) (henc : encField env fuel pos ty params v = .ok bits) : bits ≠ [] :=
  neTy_sound env ty params h fuel pos v bits henc

/-- `UnmarshalWithParams (MarshalWithParams v) = v` for every schema that passes `rtOK` -/
theorem roundtrip_marshal (env : Env) (hwf : rtOK env = true) (fuel : Nat) (ty : Ty) (params : Params) (v : Val)
    (bs : Bytes) (hp : ParamsFor env ty params) (hc : Conf env fuel ty params v)
    (h : marshal env fuel ty params v = .ok bs) : unmarshal env fuel ty params bs = .ok v :=
  marshal_unmarshal env hwf fuel ty params v bs hp hc h

set_option maxRecDepth 1000000 in
/-- Table fact, re-decided on every run over the regenerated schema (1 431 struct types) -/
theorem ngap_schema_rtOK : rtOK Gen.Ngap.schema = true := by decide +kernel

/-- fuel used by the driver (the value of `Props.C14.fuel`); the theorems below hold for every fuel -/
def fuel : Nat := 8 * (Gen.Ngap.schema.length + 1) + 1

/-- a conforming NGAP PDU -/
abbrev ConfPdu (fuel : Nat) (v : Val) : Prop :=
  Conf Gen.Ngap.schema fuel (.struct Gen.Ngap.pduId) Gen.Ngap.encoderParams v

theorem pdu_params_ok : ParamsFor Gen.Ngap.schema (.struct Gen.Ngap.pduId) Gen.Ngap.encoderParams := by
  show paramsOKx _ _ (.struct Gen.Ngap.pduId) Gen.Ngap.encoderParams = true
  rfl

/-- **C04 for NGAP PDUs**: `ngap.Decoder (ngap.Encoder v) = v` (model) for every conforming PDU value -/
theorem C04_roundtrip_pdu (fuel : Nat) (v : Val) (bs : Bytes) (hc : ConfPdu fuel v)
    (h : marshal Gen.Ngap.schema fuel (.struct Gen.Ngap.pduId) Gen.Ngap.encoderParams v = .ok bs) :
    unmarshal Gen.Ngap.schema fuel (.struct Gen.Ngap.pduId) Gen.Ngap.decoderParams bs = .ok v :=
  marshal_unmarshal Gen.Ngap.schema ngap_schema_rtOK fuel _ _ v bs pdu_params_ok hc h

/-- re-encoding: the bytes the library produced for a conforming PDU decode to a value whose encoding is those bytes -/
theorem C04_reencode_pdu (fuel : Nat) (v : Val) (bs : Bytes) (hc : ConfPdu fuel v)
    (h : marshal Gen.Ngap.schema fuel (.struct Gen.Ngap.pduId) Gen.Ngap.encoderParams v = .ok bs) :
    ∃ v', unmarshal Gen.Ngap.schema fuel (.struct Gen.Ngap.pduId) Gen.Ngap.decoderParams bs = .ok v' ∧
      marshal Gen.Ngap.schema fuel (.struct Gen.Ngap.pduId) Gen.Ngap.encoderParams v' = .ok bs :=
  ⟨v, C04_roundtrip_pdu fuel v bs hc h, h⟩

/-- **C04 for the transfer containers** (and every other struct type of the schema marshalled on its own with
    `aper.MarshalWithParams(v, "valueExt")`) -/
theorem C04_roundtrip_container (fuel id : Nat) (v : Val) (bs : Bytes)
    (hc : Conf Gen.Ngap.schema fuel (.struct id) { valueExt := true } v)
    (h : marshal Gen.Ngap.schema fuel (.struct id) { valueExt := true } v = .ok bs) :
    unmarshal Gen.Ngap.schema fuel (.struct id) { valueExt := true } bs = .ok v :=
  marshal_unmarshal Gen.Ngap.schema ngap_schema_rtOK fuel _ _ v bs rfl hc h

/-! ### non-vacuity: an NGSetupRequest -/

/-- a CHOICE value with `n` alternatives, alternative `k` (1-based) set to `v` -/
def choiceV (n k : Nat) (v : Val) : Val :=
  .struct (.int k :: (List.replicate n Val.nil).set (k - 1) (.ptr v))

/-- a protocol IE: id, criticality, open-type value (alternative `k` of `n`) -/
def ieV (id : Int) (crit n k : Nat) (v : Val) : Val :=
  .struct [.struct [.int id], .struct [.enum crit], choiceV n k v]

def plmnV : Val := .struct [.octs [0x02, 0xf8, 0x39]]

/-- NGSetupRequest { GlobalRANNodeID (gNB, 22-bit id), RANNodeName "free5gc", SupportedTAList (one TA, one PLMN,
    one S-NSSAI with SD), DefaultPagingDRX } -/
def ngSetupRequest : Val :=
  choiceV 3 1 (.struct [.struct [.int 21], .struct [.enum 0],
    choiceV 52 7
      (.struct [.struct [.slice [
        ieV 27 0 4 1 (choiceV 4 1 (.struct [plmnV, choiceV 2 1 (.bits [0x00, 0x01, 0x04] 22), .nil])),
        ieV 82 1 4 2 (.struct [.str [0x66, 0x72, 0x65, 0x65, 0x35, 0x67, 0x63]]),
        ieV 102 0 4 3 (.struct [.slice [.struct [.struct [.octs [0, 0, 1]],
          .struct [.slice [.struct [plmnV,
            .struct [.slice [.struct [.struct [.struct [.octs [1]], .ptr (.struct [.octs [1, 2, 3]]), .nil], .nil]]],
            .nil]]],
          .nil]]]),
        ieV 21 1 4 4 (.struct [.enum 1])]]])])

set_option maxRecDepth 1000000 in
/-- the NGSetupRequest satisfies `Conf` … -/
theorem ngSetupRequest_conf : ConfPdu fuel ngSetupRequest := by decide +kernel

set_option maxRecDepth 1000000 in
/-- … and is accepted by the encoder (57 octets, 4 protocol IEs in open types, two levels of containers) -/
theorem ngSetupRequest_encodes :
    (marshal Gen.Ngap.schema fuel (.struct Gen.Ngap.pduId) Gen.Ngap.encoderParams ngSetupRequest).toOption.map toHex =
      some "00150035000004001b00080002f83900000104005240090300667265653567630066001000000000010002f839000010080102030015400120" := by
  decide +kernel

/-- so the hypotheses of `C04_roundtrip_pdu` are satisfiable by a real message -/
example : ∃ bs, marshal Gen.Ngap.schema fuel (.struct Gen.Ngap.pduId) Gen.Ngap.encoderParams ngSetupRequest = .ok bs ∧
    unmarshal Gen.Ngap.schema fuel (.struct Gen.Ngap.pduId) Gen.Ngap.decoderParams bs = .ok ngSetupRequest := by
  cases h : marshal Gen.Ngap.schema fuel (.struct Gen.Ngap.pduId) Gen.Ngap.encoderParams ngSetupRequest with
  | error e => have := ngSetupRequest_encodes; rw [h] at this; cases this
  | ok bs => exact ⟨bs, rfl, C04_roundtrip_pdu fuel ngSetupRequest bs ngSetupRequest_conf h⟩

end Stgutg.Props.C04
