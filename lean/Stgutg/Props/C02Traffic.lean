/-
  C02 / C01, traffic mode — the `mode == 1` branch of `main` makes the procedure calls of test mode with counts (N, N, 0, N, N).

  Traffic mode attaches XDP programs and cannot be run in the sandbox; C01 and C02 are proved about, and run against, the test-mode
  branch (`Model.Emulator.testMode`, tied to stg-utg.go by `gen script`). This file ties the OTHER branch to it structurally:
  `gen traffic` extracts the signalling skeleton of the traffic-mode branch from the source on every run (failing closed on any
  statement outside its grammar: a UE argument that is not `ueList[i]` with the loop's own index, a credential argument that
  mentions the loop variable, a second procedure in a loop, a data-plane call on something that is not a result of the
  procedure …), and the theorems below show, for every population size N:

    C02_traffic_structure       the extracted skeleton is the expected one (kernel-decided table fact)
    C02_traffic_calls           its sequence of (procedure, UE index) calls, before and after the wait for the signal
    C02_traffic_is_test_mode    = the sequence the test-mode script (`Gen.Script.main`) makes for the counts
                                registration N, establishment N, service 0, release N, de-registration N
    C02_traffic_no_trap         every `ueList[i]` is inside the list (the establishment loop ranges over pduList, which has the
                                length of ueList)
    C02_traffic_dataplane       what is handed to the data plane for each session is (result 0, result 1, result 2) of
                                EstablishPDU in the order of xdpgtp.AddClient(clientIP, teid, upfIP) — the triple C02_reports speaks of

  Not covered: the XDP data plane itself, signals, and the timing (`time.Sleep`) between the calls.
-/
import Stgutg.Gen.Traffic
import Stgutg.Gen.Script
import Stgutg.Model.FailStop

namespace Stgutg.Props.C02Traffic
open Stgutg.Model.Traffic Stgutg.Model.FailStop

/-- the traffic-mode branch as the property needs it: connect, NG Setup, register UE 0 … N−1 (each appended to both lists),
    establish one session per registered UE — for `ueList[i]`, `i` ranging over `pduList` —, hand (ip, teid, upf) to the data
    plane, wait; then release and de-register every UE of the list -/
def expected : List Item := [
  .dataplane,
  .connect,
  .ngsetup,
  .regLoop "UeNumber" ["ueList", "pduList"],
  .procLoop "EstablishPDU" "pduList" (.index "ueList")
    [("UpfIsRegistered", [2]), ("AddUpf", [2]), ("ClientIsRegistered", [0]), ("AddClient", [0, 1, 2])],
  .dataplane,
  .waitSignal,
  .procLoop "ReleasePDU" "ueList" (.rangeVar "ueList") [],
  .procLoop "DeregisterUE" "ueList" (.rangeVar "ueList") [],
  .closeConn,
  .exit 0
]

/-- **C02_traffic_structure.** Table fact over the skeleton `gen traffic` extracts from stg-utg.go on every check. -/
theorem C02_traffic_structure : Gen.Traffic.traffic = expected := by decide

/-! ### semantics of a skeleton: the calls it makes -/

/-- lengths of the UE lists -/
abbrev Lens := List (String × Nat)

def Lens.get (l : Lens) (name : String) : Nat := (l.lookup name).getD 0

/-- one procedure call: the procedure and the index (in creation order) of the UE it acts on; `none` = a trap
    (`L[i]` beyond the list) -/
abbrev Call := String × Option Nat

/-- the calls of a skeleton for a population of `n` UEs (the value of the registration loop's bound), given the lengths of
    the lists so far. A registration loop creates UE `i` with `CreateUE(imsi, i, …)`, registers it and appends to its lists; a
    per-UE loop runs once per element of the list it ranges over and acts on `L[i]` (a trap when `L` is shorter) or on the
    i-th element of the list itself. -/
def calls (n : Nat) : Lens → List Item → List Call
  | _, [] => []
  | l, .ngsetup :: r => ("ManageNGSetup", some 0) :: calls n l r
  | l, .regLoop _ apps :: r =>
    (List.range n).map (fun i => ("RegisterUE", some i)) ++ calls n (apps.map (fun a => (a, l.get a + n)) ++ l) r
  | l, .procLoop p over (.index lst) _ :: r =>
    (List.range (l.get over)).map (fun i => (p, if i < l.get lst then some i else none)) ++ calls n l r
  | l, .procLoop p over (.rangeVar _) _ :: r =>
    (List.range (l.get over)).map (fun i => (p, some i)) ++ calls n l r
  | l, _ :: r => calls n l r

/-- the calls of the test-mode script for given counts: a loop runs `bound` times (not at all when the bound is negative) and a
    call whose arguments index lists with the loop variable acts on UE `i` -/
def testCalls (c : Counts) : List MainItem → List Call
  | [] => []
  | .stmt (.call p _) :: r => (p, some 0) :: testCalls c r
  | .stmt _ :: r => testCalls c r
  | .loop b body :: r =>
    (body.filterMap fun s => match s with | .call p _ => some p | _ => none).flatMap
      (fun p => (List.range (b.eval c).toNat).map (fun i => (p, some i))) ++ testCalls c r

/-- **C02_traffic_calls.** The calls of the traffic-mode branch for N UEs: NG Setup, registration of UE 0 … N−1, one session
    establishment per UE 0 … N−1, and — after the signal — release and de-registration of UE 0 … N−1, in this order. -/
theorem C02_traffic_calls (n : Nat) :
    calls n [] Gen.Traffic.traffic =
      ("ManageNGSetup", some 0) :: ((List.range n).map (fun i => ("RegisterUE", some i)) ++
        ((List.range n).map (fun i => ("EstablishPDU", some i)) ++
          ((List.range n).map (fun i => ("ReleasePDU", some i)) ++
            (List.range n).map (fun i => ("DeregisterUE", some i))))) := by
  rw [C02_traffic_structure]
  have hl : ∀ name, Lens.get [("ueList", 0 + n), ("pduList", 0 + n)] name = if name = "ueList" ∨ name = "pduList" then n else 0 := by
    intro name
    simp only [Lens.get, List.lookup]
    by_cases h1 : name = "ueList"
    · subst h1; simp
    · by_cases h2 : name = "pduList"
      · subst h2; simp
      · have e1 : (name == "ueList") = false := by simpa using h1
        have e2 : (name == "pduList") = false := by simpa using h2
        simp [e1, e2, h1, h2]
  simp only [expected, calls, Lens.get, List.lookup, Option.getD, List.map, List.append_nil, List.nil_append, List.cons_append,
    Nat.zero_add, beq_self_eq_true, List.append_assoc]
  have e : ("pduList" == "ueList") = false := by decide
  simp only [e]
  congr 1
  congr 1
  congr 1
  apply List.map_congr_left
  intro i hi
  have : i < n := List.mem_range.mp hi
  simp [this]

/-- **C02_traffic_no_trap.** No `ueList[i]` of the traffic-mode branch is beyond the list. -/
theorem C02_traffic_no_trap (n : Nat) : ∀ c ∈ calls n [] Gen.Traffic.traffic, c.2 ≠ none := by
  rw [C02_traffic_calls]
  intro c hc
  simp only [List.mem_cons, List.mem_append, List.mem_map] at hc
  rcases hc with rfl | ⟨_, _, rfl⟩ | ⟨_, _, rfl⟩ | ⟨_, _, rfl⟩ | ⟨_, _, rfl⟩ <;> simp

/-- the test-mode counts that traffic mode corresponds to -/
def trafficCounts (n : Nat) : Counts := { reg := n, pdu := n, svc := 0, rel := n, dereg := n }

/-- the procedure calls of the test-mode script, in order, as extracted on this run (table fact): NG Setup, then the five loops -/
theorem test_mode_skeleton :
    (Gen.Script.main.filterMap fun it => match it with
      | .stmt (.call p _) => some (p, none)
      | .loop b body => some ((body.filterMap fun s => match s with | .call p _ => some p | _ => none).headD "", some b)
      | _ => none) =
    [("ManageNGSetup", none),
     ("RegisterUE", some (.cfg "Test_ue_registation")),
     ("EstablishPDU", some (.min (.cfg "Test_ue_registation") (.cfg "Test_ue_pdu_establishment"))),
     ("ServiceRequest", some (.min (.min (.cfg "Test_ue_registation") (.cfg "Test_ue_pdu_establishment")) (.cfg "Test_ue_service"))),
     ("ReleasePDU", some (.min (.min (.cfg "Test_ue_registation") (.cfg "Test_ue_pdu_establishment")) (.cfg "Test_ue_pdu_release"))),
     ("DeregisterUE", some (.min (.cfg "Test_ue_registation") (.cfg "Test_ue_deregistration")))] := by decide

/-- **C02_traffic_is_test_mode.** For every population size N the traffic-mode branch makes exactly the procedure calls, for
    the same UEs in the same order, that the test-mode branch makes for the counts (N, N, 0, N, N) — the branch that
    `Model.Emulator.testMode` mirrors, that `C01_accepted_n` / the C02 theorems are about and that the correspondence runs execute.
    (Between the establishment loop and the release loop traffic mode waits for a signal; test mode does not.) -/
theorem C02_traffic_is_test_mode (n : Nat) :
    calls n [] Gen.Traffic.traffic = testCalls (trafficCounts n) Gen.Script.main := by
  rw [C02_traffic_calls]
  have hmin : ∀ a : Int, goMin a a = a := by intro a; simp [goMin]
  have h0 : goMin (n : Int) 0 = 0 := by simp only [goMin]; split <;> omega
  simp [testCalls, Gen.Script.main, CountExpr.eval, Counts.get, trafficCounts, hmin, h0]

/-- **C02_traffic_dataplane.** Each session is handed to the data plane as (result 0, result 1, result 2) of `EstablishPDU` —
    the UE address, the TEID and the UPF address in the parameter order of `xdpgtp.AddClient(clientIP, teid, upfIP)` —, the UPF is
    registered under result 2 and the client looked up under result 0: the triple that `C02_reports` proves equal to what the
    network assigned. -/
theorem C02_traffic_dataplane :
    ∀ it ∈ Gen.Traffic.traffic, ∀ p over ue dp, it = .procLoop p over ue dp →
      (p = "EstablishPDU" ∧ dp = [("UpfIsRegistered", [2]), ("AddUpf", [2]), ("ClientIsRegistered", [0]), ("AddClient", [0, 1, 2])]) ∨
      (p ≠ "EstablishPDU" ∧ dp = []) := by
  rw [C02_traffic_structure]
  intro it hit p over ue dp h
  simp only [expected, List.mem_cons, List.mem_nil_iff, or_false] at hit
  rcases hit with rfl | rfl | rfl | rfl | rfl | rfl | rfl | rfl | rfl | rfl | rfl <;> first
    | (injection h with h1 h2 h3 h4; subst h1 h4; simp)
    | (exact absurd h (by simp))

end Stgutg.Props.C02Traffic
