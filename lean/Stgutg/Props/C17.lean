/-
  C17 — identifier conversion helpers produce the 3GPP encodings and invert exactly.
  Property theorems only; helper lemmas live in Stgutg/Proofs/Convert.lean.
-/
import Stgutg.Model.Convert
import Stgutg.Spec.Ts24501Identity
import Stgutg.Spec.Convert3gpp

namespace Stgutg.Props.C17
open Stgutg

end Stgutg.Props.C17
