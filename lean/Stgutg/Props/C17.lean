/-
  C17 — identifier conversion helpers produce the 3GPP encodings and invert exactly.
  Property theorems only; helper lemmas live in Stgutg/Proofs/Convert.lean (and Proofs/Suci.lean for the digits).

  Model: Model/Convert.lean. The standard-library calls `hex.DecodeString`, `net.ParseIP`, `net.IP.String` are the
  fields of an arbitrary `Ext` in every theorem (what is assumed about them is stated as a hypothesis).
  Specifications: Spec/Convert3gpp.lean, Spec/Ts24501Identity.lean (PLMN). Where the library ships no inverse
  (PLMN, S-NSSAI, AMF-ID) the inverse is the specification's reader.
  `V4Text E a w x y z` / `V6Text E b ip` (defined in Proofs/Convert.lean): the text is non-empty, `net.ParseIP` reads it as
  that address and `net.IP.String` prints that address as that text.
-/
import Stgutg.Proofs.Convert
import Stgutg.Model.NetExt

namespace Stgutg.Props.C17
open Stgutg Stgutg.Model.Convert Stgutg.Proofs.Convert
open Stgutg.Proofs.Suci (asc)

/-! ### PLMN -/

/-- **C17, PLMN.** For every 3-digit MCC and 2- or 3-digit MNC (`plmn3` is defined exactly for those) `PlmnIDToNas`
    returns the TS 24.501 three octets, and the specification's reader recovers MCC and MNC from them. -/
theorem C17_plmn (mcc mnc : List Nat) (p : Bytes) (h : Spec.Identity.plmn3 mcc mnc = some p) :
    plmnIDToNas (asc mcc) (asc mnc) = .ok p ∧ Spec.Identity.plmn3Decode p = some (mcc, mnc) :=
  ⟨plmnIDToNas_digits mcc mnc p h, Stgutg.Proofs.Suci.plmn3Decode_plmn3 mcc mnc p h⟩

/-- `plmn3` is defined on all the inputs of the property -/
theorem C17_plmn_defined (mcc mnc : List Nat) (h3 : mcc.length = 3) (h23 : mnc.length = 2 ∨ mnc.length = 3)
    (hd : ∀ d ∈ mcc ++ mnc, d < 10) : ∃ p, Spec.Identity.plmn3 mcc mnc = some p := by
  match mcc, h3 with
  | [c1, c2, c3], _ =>
    rcases h23 with h2 | h3'
    · match mnc, h2 with
      | [n1, n2], _ =>
        have : (Spec.Identity.allDigits [c1, c2, c3] && Spec.Identity.allDigits [n1, n2]) = true := by
          simp [Spec.Identity.allDigits, Spec.Identity.isDigit, hd c1, hd c2, hd c3, hd n1, hd n2]
        exact ⟨_, by simp only [Spec.Identity.plmn3, this, if_true]; rfl⟩
    · match mnc, h3' with
      | [n1, n2, n3], _ =>
        have : (Spec.Identity.allDigits [c1, c2, c3] && Spec.Identity.allDigits [n1, n2, n3]) = true := by
          simp [Spec.Identity.allDigits, Spec.Identity.isDigit, hd c1, hd c2, hd c3, hd n1, hd n2, hd n3]
        exact ⟨_, by simp only [Spec.Identity.plmn3, this, if_true]; rfl⟩

/-! ### S-NSSAI -/

/-- **C17, S-NSSAI without SD.** `[1, SST]`, read back by the specification's reader. -/
theorem C17_snssai_sst (E : Ext) (sst : Nat) (h : sst < 256) :
    snssaiToNas E (sst : Int) [] = Spec.Convert.snssaiEncode { sst := sst, sd := none } ∧
    Spec.Convert.snssaiDecode (snssaiToNas E (sst : Int) []) = some { sst := sst, sd := none } := by
  have e : u8OfInt (sst : Int) = UInt8.ofNat sst := by
    unfold u8OfInt
    congr 1
    omega
  have t : (UInt8.ofNat sst).toNat = sst := by rw [UInt8.toNat_ofNat']; omega
  simp [snssaiToNas, Spec.Convert.snssaiEncode, Spec.Convert.snssaiDecode, e, t]

/-- **C17, S-NSSAI with SD.** When the SD text is the hexadecimal form of three octets (that is what `hex.DecodeString`
    returns for it) the result is `[4, SST, SD1, SD2, SD3]`, read back by the specification's reader. -/
theorem C17_snssai_sd (E : Ext) (sst : Nat) (h : sst < 256) (sd : Bytes) (a b c : UInt8) (hne : sd ≠ [])
    (hhex : E.hexDecode sd = ([a, b, c], false)) :
    snssaiToNas E (sst : Int) sd = Spec.Convert.snssaiEncode { sst := sst, sd := some (a, b, c) } ∧
    Spec.Convert.snssaiDecode (snssaiToNas E (sst : Int) sd) = some { sst := sst, sd := some (a, b, c) } := by
  have e : u8OfInt (sst : Int) = UInt8.ofNat sst := by
    unfold u8OfInt
    congr 1
    omega
  have t : (UInt8.ofNat sst).toNat = sst := by rw [UInt8.toNat_ofNat']; omega
  have hemp : sd.isEmpty = false := by cases sd <;> simp_all
  simp [snssaiToNas, Spec.Convert.snssaiEncode, Spec.Convert.snssaiDecode, e, t, hemp, hhex]

/-- the hypothesis on `hex.DecodeString` holds of its stand-in for the SD "010203" of the shipped configuration,
    and for the AMF identifier "cafe00" -/
example : Model.NetExt.goExt.hexDecode [48, 49, 48, 50, 48, 51] = ([1, 2, 3], false) := by decide
example : (Model.NetExt.goExt.hexDecode [99, 97, 102, 101, 48, 48]).1 = Spec.Convert.amfIdOctets 0xcafe00 := by decide

/-! ### AMF identifier -/

/-- **C17, AMF-ID, all 2^24 identifiers.** When the text decodes to the three octets of the 24-bit identifier `n`,
    `AmfIdToNas` returns AMF Region ID = bits 23..16, AMF Set ID = bits 15..6, AMF Pointer = bits 5..0 of `n`
    (TS 23.003 2.10.1), by arithmetic on the octets — no enumeration. -/
theorem C17_amfid (E : Ext) (amfId : Bytes) (n : Nat) (hn : n < 2 ^ 24)
    (hdec : (E.hexDecode amfId).1 = Spec.Convert.amfIdOctets n) :
    ∃ r s p, amfIdToNas E amfId = .ok (r, s, p) ∧
      Spec.Convert.amfIdSplit n = { region := r.toNat, set := s.toNat, pointer := p.toNat } ∧
      Spec.Convert.amfIdJoin { region := r.toNat, set := s.toNat, pointer := p.toNat } = n := by
  obtain ⟨r, s, p, h1, h2⟩ := amfIdToNas_octets E amfId n hdec
  exact ⟨r, s, p, h1, h2, by rw [← h2]; exact amfId_join_split n hn⟩

/-- the split is a bijection between the 24-bit identifiers and (8, 10, 6)-bit triples -/
theorem C17_amfid_fields_invert (a : Spec.Convert.AmfId) (hr : a.region < 2 ^ 8) (hs : a.set < 2 ^ 10)
    (hp : a.pointer < 2 ^ 6) : Spec.Convert.amfIdSplit (Spec.Convert.amfIdJoin a) = a ∧ Spec.Convert.amfIdJoin a < 2 ^ 24 := by
  refine ⟨amfId_split_join a hr hs hp, ?_⟩
  cases a with
  | mk r s p =>
    simp only [Spec.Convert.amfIdJoin] at *
    omega

/-! ### transport layer address -/

/-- **C17, IPv4 only.** 32 bits, the four octets; `IPAddressToString` gives the text back. -/
theorem C17_tla_v4 (E : Ext) (a : Bytes) (w x y z : UInt8) (h : V4Text E a w x y z) :
    ipAddressToNgap E a [] = .ok { bytes := [w, x, y, z], bitLength := 32 } ∧
    Spec.Convert.tlaEncode (some [w, x, y, z]) none = some { bytes := [w, x, y, z], bitLength := 32 } ∧
    ipAddressToString E { bytes := [w, x, y, z], bitLength := 32 } = .ok (a, []) := by
  have he : a.isEmpty = false := by have := h.nonempty; cases a <;> simp_all
  refine ⟨?_, rfl, ?_⟩
  · simp [ipAddressToNgap, he, h.parse, first4]
    rfl
  · simp [ipAddressToString, h.print]

/-- **C17, IPv6 only.** 128 bits, the sixteen octets; `IPAddressToString` gives the text back. -/
theorem C17_tla_v6 (E : Ext) (b ip : Bytes) (h : V6Text E b ip) :
    ipAddressToNgap E [] b = .ok { bytes := ip, bitLength := 128 } ∧
    Spec.Convert.tlaEncode none (some ip) = some { bytes := ip, bitLength := 128 } ∧
    ipAddressToString E { bytes := ip, bitLength := 128 } = .ok ([], b) := by
  have he : b.isEmpty = false := by have := h.nonempty; cases b <;> simp_all
  refine ⟨?_, by simp [Spec.Convert.tlaEncode, h.len], ?_⟩
  · simp [ipAddressToNgap, he, h.parse, to16_of_len h.len, first16_of_len h.len]
    rfl
  · simp [ipAddressToString, h.print]

/-- **C17, dual stack.** 160 bits, the IPv4 octets first (TS 38.414); `IPAddressToString` gives both texts back. -/
theorem C17_tla_dual (E : Ext) (a b ip : Bytes) (w x y z : UInt8) (h4 : V4Text E a w x y z) (h6 : V6Text E b ip) :
    ipAddressToNgap E a b = .ok { bytes := [w, x, y, z] ++ ip, bitLength := 160 } ∧
    Spec.Convert.tlaEncode (some [w, x, y, z]) (some ip) = some { bytes := [w, x, y, z] ++ ip, bitLength := 160 } ∧
    ipAddressToString E { bytes := [w, x, y, z] ++ ip, bitLength := 160 } = .ok (a, b) := by
  have hea : a.isEmpty = false := by have := h4.nonempty; cases a <;> simp_all
  have heb : b.isEmpty = false := by have := h6.nonempty; cases b <;> simp_all
  refine ⟨?_, by simp [Spec.Convert.tlaEncode, h6.len], ?_⟩
  · simp [ipAddressToNgap, hea, heb, h4.parse, h6.parse, to16_of_len h6.len, first16_of_len h6.len, first4]
    rfl
  · simp [ipAddressToString, h4.print, h6.print]

/-- **C17, transport layer address round trip** `IPAddressToString (IPAddressToNgap a b) = (a, b)` in the three cases -/
theorem C17_tla_roundtrip (E : Ext) (a b ip : Bytes) (w x y z : UInt8) :
    (V4Text E a w x y z → (ipAddressToNgap E a [] >>= ipAddressToString E) = .ok (a, [])) ∧
    (V6Text E b ip → (ipAddressToNgap E [] b >>= ipAddressToString E) = .ok ([], b)) ∧
    (V4Text E a w x y z → V6Text E b ip → (ipAddressToNgap E a b >>= ipAddressToString E) = .ok (a, b)) := by
  refine ⟨fun h => ?_, fun h => ?_, fun h4 h6 => ?_⟩
  · obtain ⟨h1, _, h3⟩ := C17_tla_v4 E a w x y z h
    rw [h1]; exact h3
  · obtain ⟨h1, _, h3⟩ := C17_tla_v6 E b ip h
    rw [h1]; exact h3
  · obtain ⟨h1, _, h3⟩ := C17_tla_dual E a b ip w x y z h4 h6
    rw [h1]; exact h3

/-- the specification's reader separates the two addresses again -/
theorem C17_tla_spec_inverts (v4 v6 : Option Bytes) (t : Spec.Convert.BitString)
    (h : Spec.Convert.tlaEncode v4 v6 = some t) : Spec.Convert.tlaDecode t = some (v4, v6) := by
  unfold Spec.Convert.tlaEncode at h
  split at h
  · next a => split at h
              · next ha => injection h with h; subst h; simp [Spec.Convert.tlaDecode, ha]
              · cases h
  · next b => split at h
              · next hb => injection h with h; subst h; simp [Spec.Convert.tlaDecode, hb]
              · cases h
  · next a b => split at h
                · next hab =>
                  injection h with h; subst h
                  obtain ⟨ha, hb⟩ := hab
                  have h1 : (a ++ b).take 4 = a := by rw [← ha]; exact List.take_left
                  have h2 : (a ++ b).drop 4 = b := by rw [← ha]; exact List.drop_left
                  simp [Spec.Convert.tlaDecode, ha, hb, h1, h2]
                · cases h
  · cases h

/-- the hypotheses about the standard library are satisfiable: they hold of the Go 1.23 parser / printer stand-in
    (Model/NetExt.lean, itself compared with the real `net` on every run) for "10.0.0.1" and "2001:db8::1" -/
example : V4Text Model.NetExt.goExt [49, 48, 46, 48, 46, 48, 46, 49] 10 0 0 1 := ⟨by decide, by decide, by decide⟩
example : V6Text Model.NetExt.goExt [50, 48, 48, 49, 58, 100, 98, 56, 58, 58, 49]
    [0x20, 0x01, 0x0d, 0xb8, 0, 0, 0, 0, 0, 0, 0, 0, 0, 0, 0, 1] := ⟨by decide, by decide, by decide, by decide⟩

/-! ### protocol configuration options -/

/-- **C17, PCO round trip.** For every list of containers whose length fields state their contents (so contents of
    0..255 octets), `UnMarshal(Marshal(l))` succeeds and returns `l` — by induction on the list over the three-state
    reader (in particular the reader's loop never runs out of fuel: it does not hang). -/
theorem C17_pco_roundtrip (l : List PcoUnit) (hl : ∀ u ∈ l, u.len.toNat = u.contents.length) :
    pcoUnmarshal (pcoMarshal l) = .ok l := pco_roundtrip l hl

/-- **C17, PCO reader is total.** On every octet string `UnMarshal` returns a list or its error: it never hangs
    (each turn of the three-state loop makes progress) and never panics. -/
theorem C17_pco_unmarshal_total (data : Bytes) (e : Err) (h : pcoUnmarshal data = .error e) : e = Err.error :=
  pcoUnmarshal_total data e h

/-- **C17, PCO encoding.** `Marshal` produces the TS 24.008 10.5.6.3 octets (0x80, then identifier, length, contents per
    unit), and the specification's reader recovers the containers from them. -/
theorem C17_pco_is_ts24008 (l : List PcoUnit) (hl : ∀ u ∈ l, u.len.toNat = u.contents.length) :
    pcoMarshal l = Spec.Convert.pcoEncode (l.map toContainer) ∧
    Spec.Convert.pcoDecode (pcoMarshal l) = some (l.map toContainer) := by
  have h1 : pcoMarshal l = Spec.Convert.pcoEncode (l.map toContainer) := by
    unfold pcoMarshal Spec.Convert.pcoEncode
    rw [marshalUnits_spec l hl]
    rfl
  refine ⟨h1, ?_⟩
  rw [h1]
  unfold Spec.Convert.pcoEncode Spec.Convert.pcoDecode
  simp only
  apply spec_decode_units _ _ ?_ (Nat.le_refl _)
  intro c hc
  obtain ⟨u, hu, rfl⟩ := List.mem_map.mp hc
  have := hl u hu
  have := u.len.toNat_lt
  have := u.id.toNat_lt
  simp only [toContainer]
  omega

example : ∀ u ∈ [({ id := 0x000d, len := 0, contents := [] } : PcoUnit), { id := 0x0003, len := 4, contents := [8, 8, 8, 8] }],
    u.len.toNat = u.contents.length := by decide

/-! ### DNN -/

/-- **C17, DNN.** Length octet then value (for values of at most 255 octets the length octet is the length), and
    `UnmarshalBinary(MarshalBinary(d)) = d` for every value. -/
theorem C17_dnn (d : Bytes) :
    dnnUnmarshal (dnnMarshal d) = .ok d ∧ dnnMarshal d = Spec.Convert.dnnEncode d ∧
    (d.length < 256 → Spec.Convert.dnnDecode (dnnMarshal d) = some d) := by
  refine ⟨rfl, rfl, fun h => ?_⟩
  have : (UInt8.ofNat d.length).toNat = d.length := by rw [UInt8.toNat_ofNat']; omega
  simp [dnnMarshal, Spec.Convert.dnnDecode, this]

end Stgutg.Props.C17
