/-
  C07 — NAS ciphering and integrity algorithms are the 3GPP 128-NEA/NIA algorithms.
  Property theorems only; helper lemmas live in Stgutg/Proofs/{Snow3g,NasAlg}.lean.

  Model: Stgutg.Model.NasAlg (security.go) + Stgutg.Model.Snow3g (snow3g.go, tables regenerated
  from the source). Spec: Stgutg.Spec.NasAlg (TS 35.215, TS 33.401 Annex B) + Stgutg.Spec.Snow3g (TS 35.216).
  `P : Prims` carries crypto/aes, cipher.NewCTR and aead/cmac as parameters.
-/
import Stgutg.Proofs.NasAlg

namespace Stgutg.Props.C07
open Stgutg Stgutg.Model.NasAlg

/-- the S-box tables in the source are the Rijndael S-box and the SNOW 3G SQ box: all 256 entries each -/
theorem sr_table : Gen.Snow3g.sr = Spec.Snow3g.SRtable := Proofs.Snow3g.sr_table
theorem sq_table : Gen.Snow3g.sq = Spec.Snow3g.SQtable := Proofs.Snow3g.sq_table
theorem tables_complete : Gen.Snow3g.sr.length = 256 ∧ Gen.Snow3g.sq.length = 256 := by decide +kernel

/-- SNOW 3G: initialisation and keystream of the code model are TS 35.216's, for every key, IV and length
    (MULα/DIVα/S1/S2 included). -/
theorem snow3g_model_eq_spec (k0 k1 k2 k3 iv0 iv1 iv2 iv3 : UInt32) (n : Nat) :
    (Model.Snow3g.generateKeystream n (Model.Snow3g.initSnow3g k0 k1 k2 k3 iv0 iv1 iv2 iv3)).1
      = Spec.Snow3g.keystream n (Spec.Snow3g.init k0 k1 k2 k3 iv0 iv1 iv2 iv3) := by
  rw [Proofs.Snow3g.keystream_eq, Proofs.Snow3g.init_eq]

/-- NEA1 = 128-EEA1 for every key, COUNT, BEARER 0..31, DIRECTION 0|1 and message of ANY length
    (every residue mod 4: the final-word mask never clears an octet that is used). -/
theorem nea1 (P : Prims) (key : Bytes) (count : UInt32) (bearer dir : UInt8) (msg : Bytes)
    (hb : bearer.toNat < 32) (hd : dir.toNat < 2) :
    nasEncrypt P 1 key count bearer dir msg = .ok (Spec.NasAlg.eea1 key count bearer.toNat dir.toNat msg) := by
  have hb' : ¬ bearer > 0x1f := by
    intro h; have : (0x1f : UInt8).toNat < bearer.toNat := UInt8.lt_iff_toNat_lt.mp h
    simp at this; omega
  have hd' : ¬ dir > 1 := by
    intro h; have : (1 : UInt8).toNat < dir.toNat := UInt8.lt_iff_toNat_lt.mp h
    simp at this; omega
  simp only [nasEncrypt, hb', hd', if_false]
  exact Proofs.NasAlg.nea1_eq key count bearer dir msg hb hd

/-- NIA1 = 128-EIA1 for every key, COUNT, BEARER, DIRECTION and NON-EMPTY message of any length
    (zero-padded last block, length block, GF(2^64) products). -/
theorem nia1 (P : Prims) (key : Bytes) (count : UInt32) (bearer dir : UInt8) (msg : Bytes)
    (hb : bearer.toNat < 32) (hd : dir.toNat < 2) (hm : msg ≠ []) :
    nasMac P 1 key count bearer dir msg = .ok (Spec.NasAlg.eia1 key count bearer.toNat dir.toNat msg) := by
  have hb' : ¬ bearer > 0x1f := by
    intro h; have : (0x1f : UInt8).toNat < bearer.toNat := UInt8.lt_iff_toNat_lt.mp h
    simp at this; omega
  have hd' : ¬ dir > 1 := by
    intro h; have : (1 : UInt8).toNat < dir.toNat := UInt8.lt_iff_toNat_lt.mp h
    simp at this; omega
  simp only [nasMac, hb', hd', if_false]
  exact Proofs.NasAlg.nia1_eq key count bearer dir msg hb hd hm

/-- NEA2 = 128-EEA2: AES-CTR with T1 = COUNT ‖ BEARER ‖ DIRECTION ‖ 0^26 ‖ 0^64 (parametric in the CTR primitive). -/
theorem nea2 (P : Prims) (key : Bytes) (count : UInt32) (bearer dir : UInt8) (msg : Bytes)
    (hb : bearer.toNat < 32) (hd : dir.toNat < 2) :
    nasEncrypt P 2 key count bearer dir msg = .ok (Spec.NasAlg.eea2 P key count bearer.toNat dir.toNat msg) := by
  have hb' : ¬ bearer > 0x1f := by
    intro h; have : (0x1f : UInt8).toNat < bearer.toNat := UInt8.lt_iff_toNat_lt.mp h
    simp at this; omega
  have hd' : ¬ dir > 1 := by
    intro h; have : (1 : UInt8).toNat < dir.toNat := UInt8.lt_iff_toNat_lt.mp h
    simp at this; omega
  simp only [nasEncrypt, hb', hd', if_false]
  exact Proofs.NasAlg.nea2_eq P key count bearer dir msg hb hd

/-- NIA2 = 128-EIA2: AES-CMAC over COUNT ‖ BEARER ‖ DIRECTION ‖ 0^26 ‖ MESSAGE truncated to 32 bits. -/
theorem nia2 (P : Prims) (key : Bytes) (count : UInt32) (bearer dir : UInt8) (msg : Bytes)
    (hb : bearer.toNat < 32) (hd : dir.toNat < 2) :
    nasMac P 2 key count bearer dir msg = .ok (Spec.NasAlg.eia2 P key count bearer.toNat dir.toNat msg) := by
  have hb' : ¬ bearer > 0x1f := by
    intro h; have : (0x1f : UInt8).toNat < bearer.toNat := UInt8.lt_iff_toNat_lt.mp h
    simp at this; omega
  have hd' : ¬ dir > 1 := by
    intro h; have : (1 : UInt8).toNat < dir.toNat := UInt8.lt_iff_toNat_lt.mp h
    simp at this; omega
  simp only [nasMac, hb', hd', if_false]
  exact Proofs.NasAlg.nia2_eq P key count bearer dir msg hb hd

/-- NEA0 leaves the message unchanged. -/
theorem nea0_id (P : Prims) (key : Bytes) (count : UInt32) (bearer dir : UInt8) (msg : Bytes)
    (hb : bearer.toNat < 32) (hd : dir.toNat < 2) :
    nasEncrypt P 0 key count bearer dir msg = .ok msg := by
  have hb' : ¬ bearer > 0x1f := by
    intro h; have : (0x1f : UInt8).toNat < bearer.toNat := UInt8.lt_iff_toNat_lt.mp h
    simp at this; omega
  have hd' : ¬ dir > 1 := by
    intro h; have : (1 : UInt8).toNat < dir.toNat := UInt8.lt_iff_toNat_lt.mp h
    simp at this; omega
  simp only [nasEncrypt, hb', hd', if_false]

/-- 128-EEA1 covers every octet: the output has the length of the input and octet i is
    input octet i xor keystream octet i, the keystream having exactly that many octets. -/
theorem eea1_covers_every_octet (key : Bytes) (count : UInt32) (bearer dir : Nat) (msg : Bytes) :
    (Spec.NasAlg.eea1Keystream key count bearer dir msg.length).length = msg.length ∧
    Spec.NasAlg.eea1 key count bearer dir msg
      = List.zipWith (· ^^^ ·) msg (Spec.NasAlg.eea1Keystream key count bearer dir msg.length) := by
  refine ⟨?_, rfl⟩
  simp only [Spec.NasAlg.eea1Keystream, List.length_take, Proofs.NasAlg.flatMap_u32Bytes_length,
    Proofs.Snow3g.keystream_length]
  omega

/-- a keystream cipher is an involution: applying it twice with the same parameters restores the input -/
theorem xor_involutive (msg ks : Bytes) (h : ks.length = msg.length) :
    xorBytes (xorBytes msg ks) ks = msg := by
  induction msg generalizing ks with
  | nil => simp [xorBytes]
  | cons m ms ih =>
    cases ks with
    | nil => simp at h
    | cons k ks =>
      simp only [xorBytes, List.zipWith_cons_cons, List.cons.injEq] at *
      refine ⟨?_, ih ks (by simpa using h)⟩
      rw [UInt8.xor_assoc, UInt8.xor_self, UInt8.xor_zero]

/-- NEA1 applied twice restores the input (any length). -/
theorem nea1_involutive (P : Prims) (key : Bytes) (count : UInt32) (bearer dir : UInt8) (msg : Bytes)
    (hb : bearer.toNat < 32) (hd : dir.toNat < 2) :
    ∃ c, nasEncrypt P 1 key count bearer dir msg = .ok c ∧ nasEncrypt P 1 key count bearer dir c = .ok msg := by
  refine ⟨_, nea1 P key count bearer dir msg hb hd, ?_⟩
  rw [nea1 P key count bearer dir _ hb hd]
  have hc := eea1_covers_every_octet key count bearer.toNat dir.toNat msg
  have hlen : (Spec.NasAlg.eea1 key count bearer.toNat dir.toNat msg).length = msg.length := by
    rw [hc.2, List.length_zipWith, hc.1]; omega
  congr 1
  show xorBytes _ _ = msg
  rw [hlen]
  exact xor_involutive msg _ hc.1

/-- NEA2 applied twice restores the input, for any CTR primitive that is a keystream cipher
    (`ctr k iv m = m xor stream k iv |m|`, which is what SP 800-38A defines). -/
theorem nea2_involutive (P : Prims) (stream : Bytes → Bytes → Nat → Bytes)
    (hctr : ∀ k iv m, P.ctr k iv m = xorBytes m (stream k iv m.length))
    (hlen : ∀ k iv n, (stream k iv n).length = n)
    (key : Bytes) (count : UInt32) (bearer dir : UInt8) (msg : Bytes)
    (hb : bearer.toNat < 32) (hd : dir.toNat < 2) :
    ∃ c, nasEncrypt P 2 key count bearer dir msg = .ok c ∧ nasEncrypt P 2 key count bearer dir c = .ok msg := by
  refine ⟨_, nea2 P key count bearer dir msg hb hd, ?_⟩
  rw [nea2 P key count bearer dir _ hb hd]
  congr 1
  simp only [Spec.NasAlg.eea2, hctr]
  have h1 : (xorBytes msg (stream key (Spec.NasAlg.countBearerDir count bearer.toNat dir.toNat ++ List.replicate 8 0) msg.length)).length = msg.length := by
    simp [xorBytes, List.length_zipWith, hlen]
  rw [h1]
  exact xor_involutive msg _ (hlen _ _ _)

/-- The result is a function of the arguments only: `InitSnow3g` overwrites all 19 words of generator state,
    so whatever state an earlier call left behind is irrelevant (sequential independence of earlier calls). -/
theorem snow3g_init_overwrites_state (k0 k1 k2 k3 iv0 iv1 iv2 iv3 : UInt32) (_before : Model.Snow3g.State) :
    Model.Snow3g.initSnow3g k0 k1 k2 k3 iv0 iv1 iv2 iv3 = Spec.Snow3g.init k0 k1 k2 k3 iv0 iv1 iv2 iv3 :=
  Proofs.Snow3g.init_eq ..

/-- the hypotheses are satisfiable: BEARER = 1 (3GPP access), DIRECTION = 0, a 5-octet message -/
example : (1 : UInt8).toNat < 32 ∧ (0 : UInt8).toNat < 2 ∧ ([1, 2, 3, 4, 5] : Bytes) ≠ [] := by decide

end Stgutg.Props.C07
