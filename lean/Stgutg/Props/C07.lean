/-
  C07 — NAS ciphering and integrity algorithms are the 3GPP 128-NEA/NIA algorithms.
  Property theorems only; helper lemmas live in Stgutg/Proofs.
-/
import Stgutg.Model.NasAlg
import Stgutg.Spec.NasAlg

namespace Stgutg.Props.C07
open Stgutg

/-- the S-box tables in the source are the Rijndael S-box and the SNOW 3G SQ box, all 256 entries -/
theorem sr_table : Gen.Snow3g.sr = Spec.Snow3g.SRtable := by decide +kernel
theorem sq_table : Gen.Snow3g.sq = Spec.Snow3g.SQtable := by decide +kernel

end Stgutg.Props.C07
