/-
  C10 — Downlink NAS messages from a conformant AMF are recovered exactly.
  Property theorems only; helper lemmas live in Stgutg/Proofs/{Count,NasProtect}.lean.

  Model: Stgutg.Model.NasProtect (`nasDecode` = tglib.NASDecode as repaired by F7, returning the octets it hands
         to `PlainNasDecode`; `getNasPdu` = tglib.GetNasPdu; `Count`; `runDecode`) on top of Stgutg.Model.NasAlg.
  Spec:  Stgutg.Spec.NasSecurity: the conformant AMF `amfProtect` / `amfRun` (its own DL NAS COUNT, increased after
         every protected message, restarted at 0 by a new-context header type; `lost` = messages that consumed a
         COUNT but never reached the UE) built on `protect` and the 128-NEA / 128-NIA algorithms of Spec.NasAlg.
  `PrimsOk P`: cipher.NewCTR is a keystream cipher and the CMAC tag has at least four octets.

  `InStep ue s`: the AMF's stored COUNT is the UE's estimate or one more (fresh context / after a delivery).
  `DlInScope m`: header type 0..4, fewer than 255 undelivered messages before `m` (COUNT advances by < 256 between
  deliveries — more cannot be bridged by an 8-bit sequence number), non-empty plain message.
  A MAC mismatch is only printed by `NASDecode`, never refused; that is outside this property.
-/
import Stgutg.Proofs.NasProtect
import Stgutg.Proofs.CryptoPrimsOk

namespace Stgutg.Props.C10
open Stgutg Stgutg.Model.NasProtect Stgutg.Proofs.NasProtect
open Stgutg.Spec.NasSecurity

/-- **One delivered message, from any state in step.** The octets the conformant AMF sends for `m` exist; given to
    `NASDecode` they come back as exactly `m.plain`; for a protected message (COUNT `c` used by the AMF,
    c = (its stored COUNT, or 0 under a new-context header type) + lost, mod 2^24) the UE's DL counter word is
    then exactly `c` and nothing else in the UE context changed; a plain message changes nothing; and the two
    sides are in step again. Header types 0..4, {NIA1,NIA2} × {NEA0,NEA1,NEA2}, any keys, any stored words. -/
theorem step_recovers (P : Prims) (hP : PrimsOk P) (ue : UeSec) (s : Sender) (m : DlSend)
    (hs : Supported ue) (hin : InStep ue s) (hsc : DlInScope m) :
    ∃ out, (amfProtect P (ctxOf ue) s m.lost m.epd m.sht m.plain).2.2 = some out ∧
      (nasDecode P ue (UInt8.ofNat m.sht) out).2 = .ok m.plain ∧
      (m.sht = 0 → (amfProtect P (ctxOf ue) s m.lost m.epd m.sht m.plain).2.1 = none ∧
                    (nasDecode P ue (UInt8.ofNat m.sht) out).1 = ue) ∧
      (m.sht ≠ 0 →
        (amfProtect P (ctxOf ue) s m.lost m.epd m.sht m.plain).2.1
            = some (((if newContext m.sht then 0 else s.count) + m.lost) % 2 ^ 24) ∧
        (nasDecode P ue (UInt8.ofNat m.sht) out).1
            = { ue with dlCount := UInt32.ofNat (((if newContext m.sht then 0 else s.count) + m.lost) % 2 ^ 24) }) ∧
      InStep (nasDecode P ue (UInt8.ofNat m.sht) out).1 (amfProtect P (ctxOf ue) s m.lost m.epd m.sht m.plain).1 := by
  obtain ⟨out, h1, h2, -, h4⟩ := dl_step_full P hP ue s m hs hin hsc
  refine ⟨out, h1, by rw [h2], ?_, ?_, h4⟩
  · intro h0
    have : (amfProtect P (ctxOf ue) s m.lost m.epd m.sht m.plain).2.1 = none := by simp [amfProtect, h0]
    exact ⟨this, by rw [h2, this]⟩
  · intro h0
    have hb : (m.sht == 0) = false := by simpa using h0
    have : (amfProtect P (ctxOf ue) s m.lost m.epd m.sht m.plain).2.1
        = some (((if newContext m.sht then 0 else s.count) + m.lost) % 2 ^ 24) := by
      simp [amfProtect, hb, countMod]
    exact ⟨this, by rw [h2, this]⟩

/-- **The DL NAS COUNT estimate equals the COUNT the AMF used**, read through the code's own accessor: after the
    delivery of a protected message `Get()` returns that COUNT, `SQN()` its low octet and `Overflow()` the upper
    16 bits — in particular the overflow counter has been incremented exactly when the sequence number wrapped. -/
theorem count_estimate (P : Prims) (hP : PrimsOk P) (ue : UeSec) (s : Sender) (m : DlSend)
    (hs : Supported ue) (hin : InStep ue s) (hsc : DlInScope m) (h0 : m.sht ≠ 0) :
    ∃ out c, (amfProtect P (ctxOf ue) s m.lost m.epd m.sht m.plain).2 = (some c, some out) ∧ c < 2 ^ 24 ∧
      (Count.get (nasDecode P ue (UInt8.ofNat m.sht) out).1.dlCount).2.toNat = c ∧
      (Count.sqn (nasDecode P ue (UInt8.ofNat m.sht) out).1.dlCount).toNat = c % 256 ∧
      (Count.overflow (nasDecode P ue (UInt8.ofNat m.sht) out).1.dlCount).toNat = c / 256 := by
  obtain ⟨out, h1, -, -, h4, -⟩ := step_recovers P hP ue s m hs hin hsc
  obtain ⟨hc, hue⟩ := h4 h0
  have hlt : ((if newContext m.sht then 0 else s.count) + m.lost) % 2 ^ 24 < 2 ^ 24 := Nat.mod_lt _ (by decide)
  refine ⟨out, _, Prod.ext hc h1, hlt, ?_, ?_, ?_⟩ <;> rw [hue] <;> simp only
  · rw [Proofs.Count.toNat_get_value, UInt32.toNat_ofNat']; omega
  · rw [Proofs.Count.toNat_sqn, UInt32.toNat_ofNat']; omega
  · rw [Proofs.Count.toNat_overflow, UInt32.toNat_ofNat']; omega

/-- the full statement over histories, parametric in the decoder so that it can be asked of the code before and
    after the F7 repair (`Recovered`: message by message the plain octets come back, the UE's DL counter is the
    AMF's COUNT for that message, a plain message leaves the UE context alone) -/
def Statement (dec : Prims → UeSec → UInt8 → Bytes → UeSec × Res Bytes) : Prop :=
  ∀ (P : Prims), PrimsOk P → ∀ (ue : UeSec) (s : Sender) (msgs : List DlSend),
    Supported ue → InStep ue s → (∀ m ∈ msgs, DlInScope m) → Recovered dec P ue s msgs

/-- **Any history of a conformant AMF is recovered** — any length, any number of sequence-number wraps and of
    2^24 wraps, new-context restarts anywhere, plain messages in between, up to 254 undelivered messages before
    each delivery. Holds for the repaired code. -/
theorem history_recovers : Statement nasDecode :=
  fun P hP ue s msgs hs hin hsc => dl_history P hP ue s msgs hs hin hsc

/-- the same in list form: the AMF's history yields octet strings `outs`; feeding them one after the other to
    `NASDecode` on one UE context yields exactly the plain messages, and afterwards UE and AMF are in step
    (the UE's estimate is the COUNT of the last protected message delivered). -/
theorem history_recovers_lists (P : Prims) (hP : PrimsOk P) (ue : UeSec) (s : Sender) (msgs : List DlSend)
    (hs : Supported ue) (hin : InStep ue s) (hsc : ∀ m ∈ msgs, DlInScope m) :
    ∃ outs : List Bytes,
      (amfRun P (ctxOf ue) s msgs).2.map (·.2) = outs.map some ∧ outs.length = msgs.length ∧
      (runDecode P ue ((msgs.map fun m => UInt8.ofNat m.sht).zip outs)).2 = msgs.map (fun m => Except.ok m.plain) ∧
      InStep (runDecode P ue ((msgs.map fun m => UInt8.ofNat m.sht).zip outs)).1 (amfRun P (ctxOf ue) s msgs).1 := by
  induction msgs generalizing ue s with
  | nil => exact ⟨[], by simp [amfRun, runDecode, hin]⟩
  | cons m ms ih =>
    obtain ⟨out, h1, h2, -, h4⟩ := dl_step_full P hP ue s m hs hin (hsc m (by simp))
    have hctx : ctxOf (nasDecode P ue (UInt8.ofNat m.sht) out).1 = ctxOf ue := by
      rw [h2]; cases (amfProtect P (ctxOf ue) s m.lost m.epd m.sht m.plain).2.1 <;> rfl
    have hsup : Supported (nasDecode P ue (UInt8.ofNat m.sht) out).1 := by
      rw [h2]; cases (amfProtect P (ctxOf ue) s m.lost m.epd m.sht m.plain).2.1 <;> simpa [Supported] using hs
    obtain ⟨outs, i1, i2, i3, i4⟩ := ih _ _ hsup h4 (fun x hx => hsc x (by simp [hx]))
    rw [hctx] at i1 i4
    refine ⟨out :: outs, ?_, by simp [i2], ?_, ?_⟩
    · simp [amfRun, h1, i1]
    · simp only [List.map_cons, List.zip_cons_cons, runDecode]
      rw [i3, h2]
    · simpa [amfRun, runDecode] using i4

/-- a new-context header type (3 or 4) resets the estimate: whatever the UE's stored DL word was — no `InStep`
    needed — the message protected under COUNT `lost` (0 when nothing was lost) is recovered and the UE's DL
    counter is exactly that COUNT. -/
theorem new_context_resets (P : Prims) (hP : PrimsOk P) (ue : UeSec) (hs : Supported ue) (sht lost : Nat) (epd : UInt8)
    (plain out : Bytes) (hsht : sht = 3 ∨ sht = 4) (hlost : lost < 256) (hne : plain ≠ [])
    (h : protect P (ctxOf ue) downlink lost epd sht plain = some out) :
    nasDecode P ue (UInt8.ofNat sht) out = ({ ue with dlCount := UInt32.ofNat lost }, .ok plain) := by
  apply dl_step P hP ue hs sht lost epd plain out hne (by omega) _ h
  rcases hsht with rfl | rfl <;> simp [newContext] <;> omega

/-- **GetNasPdu**: the NAS-PDU IE is found behind any number of other IEs, the header type is read from octet 2 of
    the PDU, and the message of the conformant AMF (a plain message being a 5GMM message, octet 2 = 0) is
    returned — same recovered octets, same counter state as `NASDecode`. -/
theorem get_nas_pdu (P : Prims) (hP : PrimsOk P) (ue : UeSec) (s : Sender) (m : DlSend) (n : Nat)
    (tail : List (Option Bytes))
    (hs : Supported ue) (hin : InStep ue s) (hsc : DlInScope m)
    (hplain : m.sht = 0 → ∃ e rest, m.plain = e :: 0 :: rest) :
    ∃ out, (amfProtect P (ctxOf ue) s m.lost m.epd m.sht m.plain).2.2 = some out ∧
      getNasPdu P ue (List.replicate n none ++ some out :: tail)
        = ((nasDecode P ue (UInt8.ofNat m.sht) out).1, .ok (some m.plain)) := by
  obtain ⟨out, h1, h2, -, -⟩ := dl_step_full P hP ue s m hs hin hsc
  refine ⟨out, h1, ?_⟩
  have hshape : ∃ e rest, out = e :: UInt8.ofNat m.sht :: rest := by
    by_cases h0 : m.sht = 0
    · obtain ⟨e, rest, hp⟩ := hplain h0
      have : out = m.plain := by simpa [amfProtect, h0] using h1.symm
      exact ⟨e, rest, by rw [this, hp, h0]; rfl⟩
    · have hb : (m.sht == 0) = false := by simpa using h0
      have hp : protect P (ctxOf ue) downlink (((if newContext m.sht then 0 else s.count) + m.lost) % countMod)
          m.epd m.sht m.plain = some out := by simpa [amfProtect, hb] using h1
      unfold protect at hp
      split at hp
      · simp at hp
      · split at hp
        · simp at hp
        · split at hp
          · simp at hp
          · simp only [Option.some.injEq] at hp
            exact ⟨m.epd, _, hp.symm⟩
  obtain ⟨e, rest, rfl⟩ := hshape
  rw [getNasPdu_skip, h2]
  rfl

/-- **F7 (before commit 8a2a16d).** The code deciphered with DIRECTION = uplink (and deciphered integrity-only
    messages too). Witness: De-registration accept `7e 00 46`, header type 2, NEA2/NIA2, COUNT 0 — the first
    message of a fresh context — is not recovered (`7a 04 42` is handed to the plain decoder). -/
theorem statement_fails_before_F7_fix : ¬ Statement nasDecodeLegacy := by
  intro h
  have hr := h toyPrims toyPrims_ok
    { ulCount := 0, dlCount := 0, cipheringAlg := 2, integrityAlg := 2, knasEnc := List.replicate 16 0, knasInt := List.replicate 16 0 }
    ⟨0⟩ [{ lost := 0, epd := 0x7e, sht := 2, plain := [0x7e, 0x00, 0x46] }]
    ⟨Or.inr rfl, Or.inr (Or.inr rfl)⟩ ⟨by decide, Or.inl rfl⟩
    (by intro m hm; simp at hm; subst hm; exact ⟨by decide, by decide, by simp⟩)
  obtain ⟨out, h1, h2, -⟩ := hr
  have hout : out = [0x7e, 0x02, 0xa0, 0xa1, 0xa2, 0xa3, 0x00, 0xf2, 0x8c, 0xca] := by
    have : (amfProtect toyPrims (ctxOf
        { ulCount := 0, dlCount := 0, cipheringAlg := 2, integrityAlg := 2, knasEnc := List.replicate 16 0, knasInt := List.replicate 16 0 })
        ⟨0⟩ 0 0x7e 2 [0x7e, 0x00, 0x46]).2.2 = some [0x7e, 0x02, 0xa0, 0xa1, 0xa2, 0xa3, 0x00, 0xf2, 0x8c, 0xca] := by rfl
    rw [this] at h1
    exact (Option.some.inj h1).symm
  subst hout
  have : (nasDecodeLegacy toyPrims
      { ulCount := 0, dlCount := 0, cipheringAlg := 2, integrityAlg := 2, knasEnc := List.replicate 16 0, knasInt := List.replicate 16 0 }
      (UInt8.ofNat 2) [0x7e, 0x02, 0xa0, 0xa1, 0xa2, 0xa3, 0x00, 0xf2, 0x8c, 0xca]).2 = .ok [0x7a, 0x04, 0x42] := by rfl
  rw [this] at h2
  have := Except.ok.inj h2
  revert this
  decide

/-! ### the hypotheses are satisfiable -/

example : ∃ P, PrimsOk P := ⟨toyPrims, toyPrims_ok⟩
/-- … and by the real SP 800-38A CTR / RFC 4493 CMAC over AES-128 (the comparator's executable instance) -/
example : PrimsOk Crypto.prims := cryptoPrims_ok
/-- fresh context: both sides at 0 -/
example : InStep { ulCount := 0, dlCount := 0, cipheringAlg := 2, integrityAlg := 1, knasEnc := [], knasInt := [] } ⟨0⟩ :=
  ⟨by decide, Or.inl rfl⟩
/-- mid-life, just before the 24-bit wrap: the UE holds 2^24 − 1, the AMF's next COUNT is 0 -/
example : InStep { ulCount := 0, dlCount := 0x00ffffff, cipheringAlg := 1, integrityAlg := 2, knasEnc := [], knasInt := [] } ⟨0⟩ :=
  ⟨by decide, Or.inr (by decide)⟩
example : DlInScope { lost := 254, epd := 0x7e, sht := 4, plain := [0x7e, 0, 0x5d] } := ⟨by decide, by decide, by simp⟩

end Stgutg.Props.C10
