import Stgutg.Model.NasProtect
import Stgutg.Spec.NasSecurity
namespace Stgutg.Props.C10
end Stgutg.Props.C10
