/-
  C03 — NGAP messages are encoded exactly as X.691 aligned PER / TS 38.413 prescribe.
  Model: Stgutg.Model.AperEnc (marshal.go) over the regenerated schema; specification: Stgutg.Spec.X691
  (written from the Recommendation) under the constraints of Stgutg.Spec.Ts38413Leaf (written from TS 38.413).
  Helper lemmas: Stgutg/Proofs/AperSpec.lean (primitives), Stgutg/Proofs/AperSpecComp.lean (composite types).

  What is proved here (and what is not):
  * `encode_eq_spec` / `C03_encode_canonical`: whatever bits the encoder model produces are the bits the X.691
    specification prescribes (in particular the specification encodes the value); `encode_refuses` / `C03_refuses`:
    a value the specification does not encode (integer out of range, illegal size, unset CHOICE, open type not matching
    its identifier …) is not put on the wire. Both for EVERY schema passing the decidable `specOK` (decided for the
    regenerated NGAP schema by the kernel), every type / parameter string passing `tyParamsOK`, every `regular` value.
  * `encode_complete` / `C03_encodes_conforming`: conversely the model encodes (with the same bits) every regular value the
    specification encodes, for schemas that pass `specOKc` in addition; together: `encode_iff`, `C03_encode_iff`
    (`marshal … = .ok bs ↔ Spec.X691.encodePdu … = some bs`).
  * Hypotheses the proofs forced (each one is a place where marshal.go and X.691 disagree outside it):
    schema side (`specOK`, all hold of the NGAP schema — `ngap_schema_specOK`):
      - INTEGER: both bounds or none (the library's semi-constrained form is not X.691's); a range above 64K starts at 0
        (the octet count is taken from the value, not from value − lb) and ends below 2^63;
      - ENUMERATED: lower bound 0 (the library encodes the value, X.691 the index);
      - strings: 0 ≤ lb ≤ ub; SIZE(lb..MAX) only with lb = 0 (the library writes length − lb there); a constrained
        size (ub < 64K) spans fewer than 16K values (the library's loop would fragment a constrained length of 16K or
        more, X.691 11.9.3.3 does not; NGAP's largest such span is 9600);
      - SEQUENCE OF: a lower bound whenever there is an upper bound, lb < 64K, ub ≥ 64K only without extension marker;
      - CHOICE: `valueUB` = #alternatives − 1 with at least two alternatives (one alternative: the library writes a bit,
        X.691 nothing) — or no `valueUB`, then the library refuses everything (PrivateIEID, finding F21);
      - open type: every alternative has a non-empty encoding (empty: X.691 wants one zero octet, the library writes none).
    schema side, for completeness only (`specOKc`, holds of the NGAP schema — `ngap_schema_specOKc`):
      - INTEGER bounds ordered (lb ≤ ub); at most 65536 root enumerations / CHOICE alternatives (the library's constrained
        form ends at 64K); the component governing an open type precedes it (`getReferenceFieldValue` looks at earlier
        fields only).
    value side (`regular`; excludes no value a Go program can build from well-formed ngapType structs except as stated):
      - INTEGER values are int64 (always true in Go);
      - a BitString's `Bytes` has exactly ⌈BitLength/8⌉ octets (longer slices are legal Go values: the library ignores the
        excess, the specification here is stated on the regular representation);
      - a CHOICE struct has only the selected alternative non-nil (a second non-nil pointer is ignored by the library).
      (No bound on lengths: strings and open-type contents of 16K items or more are covered — `Spec.X691.lengthAndItems`
      is the fragmented form of X.691 11.9.3.8 and the encoder model is marshal.go after the repair of F36,
      `length_fragmented_eq`. A SEQUENCE OF whose count is a general length of 16384 or more is refused by the library and
      not encoded by the specification (no NGAP list can be that long except UEAssociatedLogicalNGConnectionList 1..65536).)
-/
import Stgutg.Model.AperEnc
import Stgutg.Spec.X691
import Stgutg.Spec.Ts38413Leaf
import Stgutg.Gen.NgapSchema
import Stgutg.Proofs.AperSpecTotal

namespace Stgutg.Props.C03
open Stgutg Stgutg.Aper Stgutg.Proofs.AperSpec

set_option maxRecDepth 1000000 in
/-- Table fact, re-decided on every run: each of the simple types and list types tabled by hand from TS 38.413
    clause 9.4.5 occurs in the schema as a one-field wrapper (all 150 + 32 are found: struct names are unique,
    table names are distinct), and its struct tag carries exactly the standard's PER-visible constraint
    (optional/extension flags, size and value bounds, open-type attributes). -/
theorem tags_are_ts38413 :
    Spec.Ts38413.checkTable Gen.Ngap.schema =
      (Spec.Ts38413.leafTable.length + Spec.Ts38413.listTable.length, true) := by decide +kernel

/-- the table names are pairwise distinct -/
theorem table_names_distinct :
    (Spec.Ts38413.leafTable.map (·.1)).Nodup ∧ (Spec.Ts38413.listTable.map (·.1)).Nodup := by decide +kernel

/-! ### (a) the primitives, for all inputs in the stated domain (no schema involved) -/

/-- 11.5 constrained whole number, range 2..65536, offset inside the range: the model and the specification
    both encode, and produce the same bits. (Range 1: callers write nothing; the model function itself would write a bit.) -/
theorem constrained_eq (pos : Nat) (range : Int) (v : Nat) (b : Bits) (h2 : 2 ≤ range) (h64 : range ≤ 65536)
    (hv : (v : Int) < range) :
    appendConstraintValue pos range v = .ok b ↔ Spec.X691.constrainedWholeNumber pos v range.toNat = some b := by
  obtain ⟨b', h1, h2'⟩ := Proofs.AperSpec.constrained_eq pos range v h2 h64 hv
  rw [h1, h2']
  simp

example : appendConstraintValue 3 300 299 = .ok (List.replicate 5 false ++ natToBits 16 299) ∧
    Spec.X691.constrainedWholeNumber 3 299 300 = some (List.replicate 5 false ++ natToBits 16 299) := by decide +kernel

/-- 11.9 general length determinant below the fragmentation threshold (the form used without a usable upper bound) -/
theorem length_eq (pos : Nat) (sr : Int) (n lb : Nat) (ub : Option Nat) (b : Bits) (hn : n < 16384)
    (hsr : sr ≤ 0 ∨ 65536 < sr) (hub : ∀ u, ub = some u → 65536 ≤ u) :
    appendLength pos sr n = .ok b ↔ Spec.X691.lengthDeterminant pos n lb ub = some b := by
  rw [length_unc pos sr n hn hsr, lengthDeterminant_unc pos n lb ub hn hub]
  simp

/-- 11.9.3.3 constrained length: `n − lb` in `ub − lb + 1` values -/
theorem length_constrained_eq (pos n lb u : Nat) (b : Bits) (hl : lb ≤ n) (hu : n ≤ u) (hlu : lb < u) (hu64 : u < 65536)
    (h : appendLength pos ((u : Int) - lb + 1) (n - lb) = .ok b) :
    Spec.X691.lengthDeterminant pos n lb (some u) = some b :=
  length_fwd_con pos n lb u b hl hu hlu hu64 h

/-- from "what the model writes is the specification's" and "the model does not fail where the specification encodes" -/
theorem iff_of_fwd_total {m : Res Bits} {s : Option Bits} (fwd : ∀ b, m = .ok b → s = some b)
    (tot : ∀ b, s = some b → ∃ b', m = .ok b') (b : Bits) : m = .ok b ↔ s = some b := by
  constructor
  · exact fwd b
  · intro hs
    obtain ⟨b', hb'⟩ := tot b hs
    have := fwd b' hb'
    rw [hs] at this
    simp only [Option.some.injEq] at this
    rw [hb', this]

/-- 13 INTEGER (int64 values; both bounds or none, ordered; a range above 64K starts at 0 and ends below 2^63):
    same domain, same bits -/
theorem integer_eq (pos : Nat) (v : Int) (ext : Bool) (lbP ubP : Option Int) (b : Bits)
    (hok : intOK' lbP ubP = true) (hlu : ∀ l u, lbP = some l → ubP = some u → l ≤ u)
    (h1 : -(2 ^ 63) ≤ v) (h2 : v < 2 ^ 63) :
    appendInteger pos v ext lbP ubP = .ok b ↔ Spec.X691.integer pos v ext lbP ubP = some b :=
  iff_of_fwd_total (fun b h => integer_fwd pos v ext lbP ubP b hok h1 h2 h)
    (fun b h => integer_total pos v ext lbP ubP b hok hlu h1 h2 h) b

/-- an out-of-range value of a non-extensible INTEGER is not encoded by the specification (hence refused by the model) -/
theorem integer_out_of_range (pos : Nat) (v l u : Int) (h : v < l ∨ u < v) :
    Spec.X691.integer pos v false (some l) (some u) = none := by
  unfold Spec.X691.integer
  have : ¬ (l ≤ v ∧ v ≤ u) := by omega
  simp [this]

example : intOK' (some 0) (some 4294967295) = true ∧
    appendInteger 1 70000 false (some 0) (some 4294967295) = .ok (natToBits 2 2 ++ List.replicate 5 false ++ natToBits 24 70000) := by
  decide +kernel

/-- 14 ENUMERATED (root enumerations numbered from 0) -/
theorem enumerated_eq (pos n : Nat) (ext : Bool) (lbP ubP : Option Int) (b : Bits) (hok : enumOK' lbP = true)
    (hub : ∀ u, ubP = some u → u < 65536) :
    appendEnumerated pos n ext lbP ubP = .ok b ↔ Spec.X691.enumerated pos n ext lbP ubP = some b :=
  iff_of_fwd_total (fun b h => enumerated_fwd pos n ext lbP ubP b hok h)
    (fun b h => enumerated_total pos n ext lbP ubP b hub h) b

/-- 11.9.3.5 – 11.9.3.8, every length: with a general (unconstrained) length the fragmentation loop of
    appendBitString / appendOctetString / appendOpenType (after the repair of F36) writes exactly the 16K-fragments,
    the lengths and the final length (0 after an exact multiple of 16K) the Recommendation prescribes -/
theorem length_fragmented_eq (unit : Nat) (hunit : (16384 * unit) % 8 = 0) (pos n : Nat) (payload : Bits)
    (hpl : payload.length = n * unit) :
    fragLoop unit (-1) 0 (n / 16384 + 2) pos n payload =
      .ok (Spec.X691.lengthAndItems unit (n / 16384 + 1) pos n payload) :=
  fragLoop_unc unit hunit (n / 16384 + 1) pos n payload hpl (Nat.le_refl _)

set_option maxRecDepth 10000000 in
/-- fragmentation is exercised: a BIT STRING of exactly 16384 bits is one fragment `11000001`, the bits, and the final
    length 0 — in the model (after the repair of F36) and in the specification -/
example : appendBitString 0 (List.replicate 2048 0xff) 16384 false none none =
      .ok ([true, true] ++ natToBits 6 1 ++ List.replicate 16384 true ++ natToBits 8 0) ∧
    Spec.X691.bitString 0 (List.replicate 16384 true) false none none =
      some ([true, true] ++ natToBits 6 1 ++ List.replicate 16384 true ++ natToBits 8 0) := by decide +kernel

/-- 16 BIT STRING, every length -/
theorem bit_string_eq (pos : Nat) (bytes : Bytes) (len : Nat) (ext : Bool) (lbP ubP : Option Int) (b : Bits)
    (hok : strOK' lbP ubP = true) (hbytes : bytes.length = (len + 7) / 8) :
    appendBitString pos bytes len ext lbP ubP = .ok b ↔
      Spec.X691.bitString pos ((bytesToBits bytes).take len) ext lbP ubP = some b :=
  iff_of_fwd_total (fun b h => bit_string_fwd pos bytes len ext lbP ubP b hok h)
    (fun b h => bit_string_total pos bytes len ext lbP ubP b hok hbytes h) b

/-- 17 OCTET STRING, every length -/
theorem octet_string_eq (pos : Nat) (bytes : Bytes) (ext : Bool) (lbP ubP : Option Int) (b : Bits)
    (hok : strOK' lbP ubP = true) :
    appendOctetString pos bytes ext lbP ubP = .ok b ↔ Spec.X691.octetString pos bytes ext lbP ubP = some b :=
  iff_of_fwd_total (fun b h => octet_string_fwd pos bytes ext lbP ubP b hok h)
    (fun b h => octet_string_total pos bytes ext lbP ubP b hok h) b

example : strOK' (some 1) (some 150) = true ∧
    appendOctetString 0 [0x41, 0x4d, 0x46] true (some 1) (some 150) =
      .ok ([false] ++ natToBits 8 2 ++ List.replicate 7 false ++ bytesToBits [0x41, 0x4d, 0x46]) := by decide +kernel

/-- 23.6 index of the chosen alternative among `nAlt ≥ 2` root alternatives -/
theorem choice_index_eq (pos p nAlt : Nat) (ext : Bool) (ub : Int) (b : Bits)
    (hub : ub + 1 = (nAlt : Int)) (h2 : 2 ≤ nAlt) (h64 : nAlt ≤ 65536) (hp1 : 1 ≤ p) (hp : p ≤ nAlt) :
    appendChoiceIndex pos p ext (some ub) = .ok b ↔ Spec.X691.constrainedWholeNumber pos (p - 1) nAlt = some b :=
  iff_of_fwd_total (fun b h => choice_index_fwd pos p nAlt ext ub b hub h2 hp1 hp h)
    (fun _ _ => choice_index_total pos p nAlt ext ub hub h2 h64 hp1 hp) b

/-! ### (b) composite types, for every schema that passes `specOK` -/

/-- **the encoder model writes what X.691 prescribes** -/
theorem encode_eq_spec (env : Env) (hwf : specOK env = true) (fuel pos : Nat) (ty : Ty) (params : Params) (v : Val)
    (bits : Bits) (hp : tyParamsOK env ty params = true) (hr : regular env fuel ty params.openType v = true)
    (h : encField env fuel pos ty params v = .ok bits) : Spec.X691.encode env fuel pos ty params v = some bits :=
  Proofs.AperSpec.encode_eq_spec env hwf fuel pos ty params v bits hp hr h

/-- **what X.691 does not encode is not put on the wire** -/
theorem encode_refuses (env : Env) (hwf : specOK env = true) (fuel pos : Nat) (ty : Ty) (params : Params) (v : Val)
    (hp : tyParamsOK env ty params = true) (hr : regular env fuel ty params.openType v = true)
    (hs : Spec.X691.encode env fuel pos ty params v = none) : ∀ bits, encField env fuel pos ty params v ≠ .ok bits :=
  Proofs.AperSpec.encode_refuses env hwf fuel pos ty params v hp hr hs

/-- **the encoder model encodes, with the same bits, whatever X.691 encodes** (completeness) -/
theorem encode_complete (env : Env) (hwf : specOK env = true) (hwfc : specOKc env = true) (fuel pos : Nat) (ty : Ty)
    (params : Params) (v : Val) (bits : Bits) (hp : tyParamsOK env ty params = true) (hpc : tyParamsOKc ty params = true)
    (hr : regular env fuel ty params.openType v = true)
    (h : Spec.X691.encode env fuel pos ty params v = some bits) : encField env fuel pos ty params v = .ok bits :=
  Proofs.AperSpec.encode_complete env hwf hwfc fuel pos ty params v bits hp hpc hr h

/-- **full strength**: on regular values the encoder model and the X.691 specification have the same domain and the same bits -/
theorem encode_iff (env : Env) (hwf : specOK env = true) (hwfc : specOKc env = true) (fuel pos : Nat) (ty : Ty)
    (params : Params) (v : Val) (bits : Bits) (hp : tyParamsOK env ty params = true) (hpc : tyParamsOKc ty params = true)
    (hr : regular env fuel ty params.openType v = true) :
    encField env fuel pos ty params v = .ok bits ↔ Spec.X691.encode env fuel pos ty params v = some bits :=
  Proofs.AperSpec.encode_iff env hwf hwfc fuel pos ty params v bits hp hpc hr

/-! ### (c) the NGAP schema -/

set_option maxRecDepth 1000000 in
/-- Table fact, re-decided on every run over the regenerated schema (1 431 struct types): every field of every type
    is declared with parameters inside the domain of `encode_eq_spec` -/
theorem ngap_schema_specOK : specOK Gen.Ngap.schema = true := by decide +kernel

set_option maxRecDepth 1000000 in
/-- the parameter string `ngap.Encoder` passes for `NGAPPDU` -/
theorem pdu_params_ok : tyParamsOK Gen.Ngap.schema (.struct Gen.Ngap.pduId) Gen.Ngap.encoderParams = true := by
  decide +kernel

set_option maxRecDepth 1000000 in
/-- Table fact, re-decided on every run: what completeness asks of the schema in addition -/
theorem ngap_schema_specOKc : specOKc Gen.Ngap.schema = true := by decide +kernel

theorem pdu_params_okc : tyParamsOKc (.struct Gen.Ngap.pduId) Gen.Ngap.encoderParams = true := by decide +kernel

/-- **C03 (full strength)**: for a regular PDU value `ngap.Encoder` (model) returns octets exactly when X.691 defines a
    complete encoding of the value under the schema's constraints, and then returns that encoding -/
theorem C03_encode_iff (fuel : Nat) (v : Val) (bs : Bytes)
    (hr : regular Gen.Ngap.schema fuel (.struct Gen.Ngap.pduId) false v = true) :
    marshal Gen.Ngap.schema fuel (.struct Gen.Ngap.pduId) Gen.Ngap.encoderParams v = .ok bs ↔
      Spec.X691.encodePdu Gen.Ngap.schema fuel (.struct Gen.Ngap.pduId) Gen.Ngap.encoderParams v = some bs :=
  marshal_iff Gen.Ngap.schema ngap_schema_specOK ngap_schema_specOKc fuel _ _ v bs pdu_params_ok pdu_params_okc hr

/-- **C03 (conforming values are encoded)** -/
theorem C03_encodes_conforming (fuel : Nat) (v : Val) (bs : Bytes)
    (hr : regular Gen.Ngap.schema fuel (.struct Gen.Ngap.pduId) false v = true)
    (h : Spec.X691.encodePdu Gen.Ngap.schema fuel (.struct Gen.Ngap.pduId) Gen.Ngap.encoderParams v = some bs) :
    marshal Gen.Ngap.schema fuel (.struct Gen.Ngap.pduId) Gen.Ngap.encoderParams v = .ok bs :=
  (C03_encode_iff fuel v bs hr).mpr h

/-- **C03 (canonical)**: the octets `ngap.Encoder` (model) returns for a PDU are the complete X.691 ALIGNED PER
    encoding of that PDU under the schema's constraints -/
theorem C03_encode_canonical (fuel : Nat) (v : Val) (bs : Bytes)
    (hr : regular Gen.Ngap.schema fuel (.struct Gen.Ngap.pduId) false v = true)
    (h : marshal Gen.Ngap.schema fuel (.struct Gen.Ngap.pduId) Gen.Ngap.encoderParams v = .ok bs) :
    Spec.X691.encodePdu Gen.Ngap.schema fuel (.struct Gen.Ngap.pduId) Gen.Ngap.encoderParams v = some bs :=
  marshal_eq_spec Gen.Ngap.schema ngap_schema_specOK fuel _ _ v bs pdu_params_ok hr h

/-- **C03 (refusal)**: a PDU the specification does not encode — an integer outside its range, a string or list of
    illegal size, an unset CHOICE, an open type that does not match its identifier — is not put on the wire -/
theorem C03_refuses (fuel : Nat) (v : Val)
    (hr : regular Gen.Ngap.schema fuel (.struct Gen.Ngap.pduId) false v = true)
    (hs : Spec.X691.encodePdu Gen.Ngap.schema fuel (.struct Gen.Ngap.pduId) Gen.Ngap.encoderParams v = none) :
    ∀ bs, marshal Gen.Ngap.schema fuel (.struct Gen.Ngap.pduId) Gen.Ngap.encoderParams v ≠ .ok bs :=
  marshal_refuses Gen.Ngap.schema ngap_schema_specOK fuel _ _ v pdu_params_ok hr hs

/-- the same pair for every struct type of the schema marshalled on its own (the PDU-session / handover transfer
    containers are marshalled with the parameter string "valueExt") -/
theorem C03_container_canonical (fuel id : Nat) (params : Params) (v : Val) (bs : Bytes)
    (hp : tyParamsOK Gen.Ngap.schema (.struct id) params = true)
    (hr : regular Gen.Ngap.schema fuel (.struct id) params.openType v = true)
    (h : marshal Gen.Ngap.schema fuel (.struct id) params v = .ok bs) :
    Spec.X691.encodePdu Gen.Ngap.schema fuel (.struct id) params v = some bs :=
  marshal_eq_spec Gen.Ngap.schema ngap_schema_specOK fuel _ _ v bs hp hr h

theorem C03_container_refuses (fuel id : Nat) (params : Params) (v : Val)
    (hp : tyParamsOK Gen.Ngap.schema (.struct id) params = true)
    (hr : regular Gen.Ngap.schema fuel (.struct id) params.openType v = true)
    (hs : Spec.X691.encodePdu Gen.Ngap.schema fuel (.struct id) params v = none) :
    ∀ bs, marshal Gen.Ngap.schema fuel (.struct id) params v ≠ .ok bs :=
  marshal_refuses Gen.Ngap.schema ngap_schema_specOK fuel _ _ v hp hr hs

theorem C03_container_iff (fuel id : Nat) (params : Params) (v : Val) (bs : Bytes)
    (hp : tyParamsOK Gen.Ngap.schema (.struct id) params = true) (hpc : tyParamsOKc (.struct id) params = true)
    (hr : regular Gen.Ngap.schema fuel (.struct id) params.openType v = true) :
    marshal Gen.Ngap.schema fuel (.struct id) params v = .ok bs ↔
      Spec.X691.encodePdu Gen.Ngap.schema fuel (.struct id) params v = some bs :=
  marshal_iff Gen.Ngap.schema ngap_schema_specOK ngap_schema_specOKc fuel _ _ v bs hp hpc hr

/-- the parameter string "valueExt" is inside the domain for every SEQUENCE type (checked here for all struct types
    that are not CHOICEs: `structOK` has nothing to ask of them) -/
theorem valueExt_params_ok (id : Nat) : tyParamsOK Gen.Ngap.schema (.struct id) { valueExt := true } = true := by
  simp [tyParamsOK, structOK]

theorem valueExt_params_okc (id : Nat) : tyParamsOKc (.struct id) { valueExt := true } = true := by
  simp [tyParamsOKc]

/-! ### non-vacuity -/

/-- the alternatives of a CHOICE value: `n` pointers, all nil but number `k` (1-based) -/
def alts (n k : Nat) (v : Val) : List Val := (List.range n).map fun i => if i + 1 = k then .ptr v else .nil

/-- an NG SETUP RESPONSE with AMFName "AMF" and a RelativeAMFCapacity -/
def ngSetupResponse (capacity : Int) : Val :=
  let ie1 := Val.struct [.struct [.int 1], .struct [.enum 0],
    .struct (.int 1 :: alts 5 1 (.struct [.str [0x41, 0x4d, 0x46]]))]
  let ie2 := Val.struct [.struct [.int 86], .struct [.enum 1],
    .struct (.int 3 :: alts 5 3 (.struct [.int capacity]))]
  let msg := Val.struct [.struct [.slice [ie1, ie2]]]
  let so := Val.struct [.struct [.int 21], .struct [.enum 0], .struct (.int 7 :: alts 18 7 msg)]
  .struct (.int 2 :: alts 3 2 so)

set_option maxRecDepth 1000000 in
/-- the hypotheses of `C03_encode_canonical` are satisfiable: a regular value the model encodes (21 octets) -/
example : regular Gen.Ngap.schema 40 (.struct Gen.Ngap.pduId) false (ngSetupResponse 255) = true ∧
    marshal Gen.Ngap.schema 40 (.struct Gen.Ngap.pduId) Gen.Ngap.encoderParams (ngSetupResponse 255) =
      .ok [0x20, 0x15, 0x00, 0x11, 0x00, 0x00, 0x02, 0x00, 0x01, 0x00, 0x05, 0x01, 0x00, 0x41, 0x4d, 0x46,
           0x00, 0x56, 0x40, 0x01, 0xff] := by decide +kernel

set_option maxRecDepth 1000000 in
/-- the hypotheses of `C03_refuses` are satisfiable: RelativeAMFCapacity 256 is outside 0..255, the value is regular
    and the specification does not encode it -/
example : regular Gen.Ngap.schema 40 (.struct Gen.Ngap.pduId) false (ngSetupResponse 256) = true ∧
    Spec.X691.encodePdu Gen.Ngap.schema 40 (.struct Gen.Ngap.pduId) Gen.Ngap.encoderParams (ngSetupResponse 256) = none := by
  decide +kernel

/-- a GUAMI (struct 11: PLMNIdentity SIZE(3), AMFRegionID SIZE(8), AMFSetID SIZE(10), AMFPointer SIZE(6), no extensions) -/
def guami (plmn : Bytes) : Val :=
  .struct [.struct [.octs plmn], .struct [.bits [0x01] 8], .struct [.bits [0x00, 0x40] 10], .struct [.bits [0x04] 6], .nil]

set_option maxRecDepth 1000000 in
/-- `C03_container_iff` is not vacuous: a regular GUAMI marshalled on its own with "valueExt" (7 octets) -/
example : regular Gen.Ngap.schema 10 (.struct 11) false (guami [0x02, 0xf8, 0x39]) = true ∧
    marshal Gen.Ngap.schema 10 (.struct 11) { valueExt := true } (guami [0x02, 0xf8, 0x39]) =
      .ok [0x00, 0x02, 0xf8, 0x39, 0x01, 0x00, 0x41] := by decide +kernel

set_option maxRecDepth 1000000 in
/-- refusal, string of illegal size: a 2-octet PLMNIdentity (SIZE(3)) is regular, not encoded by the specification -/
example : regular Gen.Ngap.schema 10 (.struct 11) false (guami [0x02, 0xf8]) = true ∧
    Spec.X691.encodePdu Gen.Ngap.schema 10 (.struct 11) { valueExt := true } (guami [0x02, 0xf8]) = none := by
  decide +kernel

set_option maxRecDepth 1000000 in
/-- refusal, unset CHOICE: an NGAPPDU with `Present = 0` -/
example : regular Gen.Ngap.schema 40 (.struct Gen.Ngap.pduId) false (.struct (.int 0 :: alts 3 0 .nil)) = true ∧
    Spec.X691.encodePdu Gen.Ngap.schema 40 (.struct Gen.Ngap.pduId) Gen.Ngap.encoderParams
      (.struct (.int 0 :: alts 3 0 .nil)) = none := by decide +kernel

/-- an NG SETUP RESPONSE whose only IE carries id 86 (RelativeAMFCapacity) but the AMFName alternative -/
def mismatched : Val :=
  let ie := Val.struct [.struct [.int 86], .struct [.enum 0],
    .struct (.int 1 :: alts 5 1 (.struct [.str [0x41, 0x4d, 0x46]]))]
  let msg := Val.struct [.struct [.slice [ie]]]
  let so := Val.struct [.struct [.int 21], .struct [.enum 0], .struct (.int 7 :: alts 18 7 msg)]
  .struct (.int 2 :: alts 3 2 so)

set_option maxRecDepth 1000000 in
/-- refusal, open type not matching its identifier -/
example : regular Gen.Ngap.schema 40 (.struct Gen.Ngap.pduId) false mismatched = true ∧
    Spec.X691.encodePdu Gen.Ngap.schema 40 (.struct Gen.Ngap.pduId) Gen.Ngap.encoderParams mismatched = none := by
  decide +kernel

end Stgutg.Props.C03
