/-
  C03 — NGAP messages are encoded exactly as X.691 aligned PER / TS 38.413 prescribe.
  Model: Stgutg.Model.AperEnc (marshal.go) over the regenerated schema; specification: Stgutg.Spec.X691
  (written from the Recommendation) under the constraints of Stgutg.Spec.Ts38413Leaf (written from TS 38.413).
  Helper lemmas: Stgutg/Proofs/AperSpec.lean (primitives), Stgutg/Proofs/AperSpecComp.lean (composite types).

  What is proved here (and what is not):
  * `encode_eq_spec` / `C03_encode_canonical`: whatever bits the encoder model produces are the bits the X.691
    specification prescribes (in particular the specification encodes the value); `encode_refuses` / `C03_refuses`:
    a value the specification does not encode (integer out of range, illegal size, unset CHOICE, open type not matching
    its identifier …) is not put on the wire. Both for EVERY schema passing the decidable `specOK` (decided for the
    regenerated NGAP schema by the kernel), every type / parameter string passing `tyParamsOK`, every `regular` value.
  * NOT proved: completeness (the model never refuses a value the specification encodes); it is exercised by the
    differential run only. Stated as `EncodeCompleteStatement`.
  * Hypotheses the proofs forced (each one is a place where marshal.go and X.691 disagree outside it):
    schema side (`specOK`, all hold of the NGAP schema — `ngap_schema_specOK`):
      - INTEGER: both bounds or none (the library's semi-constrained form is not X.691's); a range above 64K starts at 0
        (the octet count is taken from the value, not from value − lb) and ends below 2^63;
      - ENUMERATED: lower bound 0 (the library encodes the value, X.691 the index);
      - strings: 0 ≤ lb ≤ ub; SIZE(lb..MAX) only with lb = 0 (the library writes length − lb there);
      - SEQUENCE OF: a lower bound whenever there is an upper bound, lb < 64K, ub ≥ 64K only without extension marker;
      - CHOICE: `valueUB` = #alternatives − 1 with at least two alternatives (one alternative: the library writes a bit,
        X.691 nothing) — or no `valueUB`, then the library refuses everything (PrivateIEID, finding F21);
      - open type: every alternative has a non-empty encoding (empty: X.691 wants one zero octet, the library writes none).
    value side (`regular`; excludes no value a Go program can build from well-formed ngapType structs except as stated):
      - INTEGER values are int64 (always true in Go);
      - a BitString's `Bytes` has exactly ⌈BitLength/8⌉ octets (longer slices are legal Go values: the library ignores the
        excess, the specification here is stated on the regular representation);
      - a CHOICE struct has only the selected alternative non-nil (a second non-nil pointer is ignored by the library);
      - unfragmented: every string shorter than 16384 units and every open-type content shorter than 16384 octets
        (the property separates fragmentation; it cannot be stated on the size of the output: a 65536-octet string
        is encoded as a length-0 string by the loop).
-/
import Stgutg.Model.AperEnc
import Stgutg.Spec.X691
import Stgutg.Spec.Ts38413Leaf
import Stgutg.Gen.NgapSchema
import Stgutg.Proofs.AperSpecComp

namespace Stgutg.Props.C03
open Stgutg Stgutg.Aper Stgutg.Proofs.AperSpec

set_option maxRecDepth 1000000 in
/-- Table fact, re-decided on every run: each of the simple types and list types tabled by hand from TS 38.413
    clause 9.4.5 occurs in the schema as a one-field wrapper (all 150 + 32 are found: struct names are unique,
    table names are distinct), and its struct tag carries exactly the standard's PER-visible constraint
    (optional/extension flags, size and value bounds, open-type attributes). -/
theorem tags_are_ts38413 :
    Spec.Ts38413.checkTable Gen.Ngap.schema =
      (Spec.Ts38413.leafTable.length + Spec.Ts38413.listTable.length, true) := by decide +kernel

/-- the table names are pairwise distinct -/
theorem table_names_distinct :
    (Spec.Ts38413.leafTable.map (·.1)).Nodup ∧ (Spec.Ts38413.listTable.map (·.1)).Nodup := by decide +kernel

/-! ### (a) the primitives, for all inputs in the stated domain (no schema involved) -/

/-- 11.5 constrained whole number, range 2..65536, offset inside the range: the model and the specification
    both encode, and produce the same bits. (Range 1: callers write nothing; the model function itself would write a bit.) -/
theorem constrained_eq (pos : Nat) (range : Int) (v : Nat) (b : Bits) (h2 : 2 ≤ range) (h64 : range ≤ 65536)
    (hv : (v : Int) < range) :
    appendConstraintValue pos range v = .ok b ↔ Spec.X691.constrainedWholeNumber pos v range.toNat = some b := by
  obtain ⟨b', h1, h2'⟩ := Proofs.AperSpec.constrained_eq pos range v h2 h64 hv
  rw [h1, h2']
  simp

example : appendConstraintValue 3 300 299 = .ok (List.replicate 5 false ++ natToBits 16 299) ∧
    Spec.X691.constrainedWholeNumber 3 299 300 = some (List.replicate 5 false ++ natToBits 16 299) := by decide +kernel

/-- 11.9 general length determinant below the fragmentation threshold (the form used without a usable upper bound) -/
theorem length_eq (pos : Nat) (sr : Int) (n lb : Nat) (ub : Option Nat) (b : Bits) (hn : n < 16384)
    (hsr : sr ≤ 0 ∨ 65536 < sr) (hub : ∀ u, ub = some u → 65536 ≤ u) :
    appendLength pos sr n = .ok b ↔ Spec.X691.lengthDeterminant pos n lb ub = some b := by
  rw [length_unc pos sr n hn hsr, lengthDeterminant_unc pos n lb ub hn hub]
  simp

/-- 11.9.3.3 constrained length: `n − lb` in `ub − lb + 1` values -/
theorem length_constrained_eq (pos n lb u : Nat) (b : Bits) (hl : lb ≤ n) (hu : n ≤ u) (hlu : lb < u) (hu64 : u < 65536)
    (h : appendLength pos ((u : Int) - lb + 1) (n - lb) = .ok b) :
    Spec.X691.lengthDeterminant pos n lb (some u) = some b :=
  length_fwd_con pos n lb u b hl hu hlu hu64 h

/-- 13 INTEGER (int64 values; both bounds or none; a range above 64K starts at 0 and ends below 2^63) -/
theorem integer_eq (pos : Nat) (v : Int) (ext : Bool) (lbP ubP : Option Int) (b : Bits)
    (hok : intOK' lbP ubP = true) (h1 : -(2 ^ 63) ≤ v) (h2 : v < 2 ^ 63)
    (h : appendInteger pos v ext lbP ubP = .ok b) : Spec.X691.integer pos v ext lbP ubP = some b :=
  integer_fwd pos v ext lbP ubP b hok h1 h2 h

example : intOK' (some 0) (some 4294967295) = true ∧
    appendInteger 1 70000 false (some 0) (some 4294967295) = .ok (natToBits 2 2 ++ List.replicate 5 false ++ natToBits 24 70000) := by
  decide +kernel

/-- 14 ENUMERATED (root enumerations numbered from 0) -/
theorem enumerated_eq (pos n : Nat) (ext : Bool) (lbP ubP : Option Int) (b : Bits) (hok : enumOK' lbP = true)
    (h : appendEnumerated pos n ext lbP ubP = .ok b) : Spec.X691.enumerated pos n ext lbP ubP = some b :=
  enumerated_fwd pos n ext lbP ubP b hok h

/-- 16 BIT STRING, fewer than 16384 bits -/
theorem bit_string_eq (pos : Nat) (bytes : Bytes) (len : Nat) (ext : Bool) (lbP ubP : Option Int) (b : Bits)
    (hok : strOK' lbP ubP = true) (hlen : len < 16384)
    (h : appendBitString pos bytes len ext lbP ubP = .ok b) :
    Spec.X691.bitString pos ((bytesToBits bytes).take len) ext lbP ubP = some b :=
  bit_string_fwd pos bytes len ext lbP ubP b hok hlen h

/-- 17 OCTET STRING, fewer than 16384 octets -/
theorem octet_string_eq (pos : Nat) (bytes : Bytes) (ext : Bool) (lbP ubP : Option Int) (b : Bits)
    (hok : strOK' lbP ubP = true) (hlen : bytes.length < 16384)
    (h : appendOctetString pos bytes ext lbP ubP = .ok b) : Spec.X691.octetString pos bytes ext lbP ubP = some b :=
  octet_string_fwd pos bytes ext lbP ubP b hok hlen h

example : strOK' (some 1) (some 150) = true ∧
    appendOctetString 0 [0x41, 0x4d, 0x46] true (some 1) (some 150) =
      .ok ([false] ++ natToBits 8 2 ++ List.replicate 7 false ++ bytesToBits [0x41, 0x4d, 0x46]) := by decide +kernel

/-- 23.6 index of the chosen alternative among `nAlt ≥ 2` root alternatives -/
theorem choice_index_eq (pos p nAlt : Nat) (ext : Bool) (ub : Int) (b : Bits)
    (hub : ub + 1 = (nAlt : Int)) (h2 : 2 ≤ nAlt) (hp1 : 1 ≤ p) (hp : p ≤ nAlt)
    (h : appendChoiceIndex pos p ext (some ub) = .ok b) : Spec.X691.constrainedWholeNumber pos (p - 1) nAlt = some b :=
  choice_index_fwd pos p nAlt ext ub b hub h2 hp1 hp h

/-! ### (b) composite types, for every schema that passes `specOK` -/

/-- **the encoder model writes what X.691 prescribes** -/
theorem encode_eq_spec (env : Env) (hwf : specOK env = true) (fuel pos : Nat) (ty : Ty) (params : Params) (v : Val)
    (bits : Bits) (hp : tyParamsOK env ty params = true) (hr : regular env fuel ty params.openType v = true)
    (h : encField env fuel pos ty params v = .ok bits) : Spec.X691.encode env fuel pos ty params v = some bits :=
  Proofs.AperSpec.encode_eq_spec env hwf fuel pos ty params v bits hp hr h

/-- **what X.691 does not encode is not put on the wire** -/
theorem encode_refuses (env : Env) (hwf : specOK env = true) (fuel pos : Nat) (ty : Ty) (params : Params) (v : Val)
    (hp : tyParamsOK env ty params = true) (hr : regular env fuel ty params.openType v = true)
    (hs : Spec.X691.encode env fuel pos ty params v = none) : ∀ bits, encField env fuel pos ty params v ≠ .ok bits :=
  Proofs.AperSpec.encode_refuses env hwf fuel pos ty params v hp hr hs

/-- full strength would add completeness: the model encodes every value the specification encodes (NOT proved;
    needs in addition that an open type's reference field precedes it, which the model's lookup requires) -/
def EncodeCompleteStatement : Prop :=
  ∀ (env : Env), specOK env = true → ∀ (fuel pos : Nat) (ty : Ty) (params : Params) (v : Val) (bits : Bits),
    tyParamsOK env ty params = true → regular env fuel ty params.openType v = true →
    Spec.X691.encode env fuel pos ty params v = some bits → encField env fuel pos ty params v = .ok bits

/-! ### (c) the NGAP schema -/

set_option maxRecDepth 1000000 in
/-- Table fact, re-decided on every run over the regenerated schema (1 431 struct types): every field of every type
    is declared with parameters inside the domain of `encode_eq_spec` -/
theorem ngap_schema_specOK : specOK Gen.Ngap.schema = true := by decide +kernel

set_option maxRecDepth 1000000 in
/-- the parameter string `ngap.Encoder` passes for `NGAPPDU` -/
theorem pdu_params_ok : tyParamsOK Gen.Ngap.schema (.struct Gen.Ngap.pduId) Gen.Ngap.encoderParams = true := by
  decide +kernel

/-- **C03 (canonical)**: the octets `ngap.Encoder` (model) returns for a PDU are the complete X.691 ALIGNED PER
    encoding of that PDU under the schema's constraints -/
theorem C03_encode_canonical (fuel : Nat) (v : Val) (bs : Bytes)
    (hr : regular Gen.Ngap.schema fuel (.struct Gen.Ngap.pduId) false v = true)
    (h : marshal Gen.Ngap.schema fuel (.struct Gen.Ngap.pduId) Gen.Ngap.encoderParams v = .ok bs) :
    Spec.X691.encodePdu Gen.Ngap.schema fuel (.struct Gen.Ngap.pduId) Gen.Ngap.encoderParams v = some bs :=
  marshal_eq_spec Gen.Ngap.schema ngap_schema_specOK fuel _ _ v bs pdu_params_ok hr h

/-- **C03 (refusal)**: a PDU the specification does not encode — an integer outside its range, a string or list of
    illegal size, an unset CHOICE, an open type that does not match its identifier — is not put on the wire -/
theorem C03_refuses (fuel : Nat) (v : Val)
    (hr : regular Gen.Ngap.schema fuel (.struct Gen.Ngap.pduId) false v = true)
    (hs : Spec.X691.encodePdu Gen.Ngap.schema fuel (.struct Gen.Ngap.pduId) Gen.Ngap.encoderParams v = none) :
    ∀ bs, marshal Gen.Ngap.schema fuel (.struct Gen.Ngap.pduId) Gen.Ngap.encoderParams v ≠ .ok bs :=
  marshal_refuses Gen.Ngap.schema ngap_schema_specOK fuel _ _ v pdu_params_ok hr hs

/-- the same pair for every struct type of the schema marshalled on its own (the PDU-session / handover transfer
    containers are marshalled with the parameter string "valueExt") -/
theorem C03_container_canonical (fuel id : Nat) (params : Params) (v : Val) (bs : Bytes)
    (hp : tyParamsOK Gen.Ngap.schema (.struct id) params = true)
    (hr : regular Gen.Ngap.schema fuel (.struct id) params.openType v = true)
    (h : marshal Gen.Ngap.schema fuel (.struct id) params v = .ok bs) :
    Spec.X691.encodePdu Gen.Ngap.schema fuel (.struct id) params v = some bs :=
  marshal_eq_spec Gen.Ngap.schema ngap_schema_specOK fuel _ _ v bs hp hr h

theorem C03_container_refuses (fuel id : Nat) (params : Params) (v : Val)
    (hp : tyParamsOK Gen.Ngap.schema (.struct id) params = true)
    (hr : regular Gen.Ngap.schema fuel (.struct id) params.openType v = true)
    (hs : Spec.X691.encodePdu Gen.Ngap.schema fuel (.struct id) params v = none) :
    ∀ bs, marshal Gen.Ngap.schema fuel (.struct id) params v ≠ .ok bs :=
  marshal_refuses Gen.Ngap.schema ngap_schema_specOK fuel _ _ v hp hr hs

/-- the parameter string "valueExt" is inside the domain for every SEQUENCE type (checked here for all struct types
    that are not CHOICEs: `structOK` has nothing to ask of them) -/
theorem valueExt_params_ok (id : Nat) : tyParamsOK Gen.Ngap.schema (.struct id) { valueExt := true } = true := by
  simp [tyParamsOK, structOK]

/-! ### non-vacuity -/

/-- the alternatives of a CHOICE value: `n` pointers, all nil but number `k` (1-based) -/
def alts (n k : Nat) (v : Val) : List Val := (List.range n).map fun i => if i + 1 = k then .ptr v else .nil

/-- an NG SETUP RESPONSE with AMFName "AMF" and a RelativeAMFCapacity -/
def ngSetupResponse (capacity : Int) : Val :=
  let ie1 := Val.struct [.struct [.int 1], .struct [.enum 0],
    .struct (.int 1 :: alts 5 1 (.struct [.str [0x41, 0x4d, 0x46]]))]
  let ie2 := Val.struct [.struct [.int 86], .struct [.enum 1],
    .struct (.int 3 :: alts 5 3 (.struct [.int capacity]))]
  let msg := Val.struct [.struct [.slice [ie1, ie2]]]
  let so := Val.struct [.struct [.int 21], .struct [.enum 0], .struct (.int 7 :: alts 18 7 msg)]
  .struct (.int 2 :: alts 3 2 so)

set_option maxRecDepth 1000000 in
/-- the hypotheses of `C03_encode_canonical` are satisfiable: a regular value the model encodes (21 octets) -/
example : regular Gen.Ngap.schema 40 (.struct Gen.Ngap.pduId) false (ngSetupResponse 255) = true ∧
    marshal Gen.Ngap.schema 40 (.struct Gen.Ngap.pduId) Gen.Ngap.encoderParams (ngSetupResponse 255) =
      .ok [0x20, 0x15, 0x00, 0x11, 0x00, 0x00, 0x02, 0x00, 0x01, 0x00, 0x05, 0x01, 0x00, 0x41, 0x4d, 0x46,
           0x00, 0x56, 0x40, 0x01, 0xff] := by decide +kernel

set_option maxRecDepth 1000000 in
/-- the hypotheses of `C03_refuses` are satisfiable: RelativeAMFCapacity 256 is outside 0..255, the value is regular
    and the specification does not encode it -/
example : regular Gen.Ngap.schema 40 (.struct Gen.Ngap.pduId) false (ngSetupResponse 256) = true ∧
    Spec.X691.encodePdu Gen.Ngap.schema 40 (.struct Gen.Ngap.pduId) Gen.Ngap.encoderParams (ngSetupResponse 256) = none := by
  decide +kernel

end Stgutg.Props.C03
