/- C03 property theorems (under construction) -/
import Stgutg.Model.AperDec
import Stgutg.Gen.NgapSchema
namespace Stgutg.Props.C03
end Stgutg.Props.C03
