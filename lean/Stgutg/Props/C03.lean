/-
  C03 — NGAP messages are encoded exactly as X.691 aligned PER / TS 38.413 prescribe.
  Model: Stgutg.Model.AperEnc (marshal.go) over the regenerated schema; specification: Stgutg.Spec.X691
  (written from the Recommendation) under the constraints of Stgutg.Spec.Ts38413Leaf (written from TS 38.413).
-/
import Stgutg.Model.AperEnc
import Stgutg.Spec.X691
import Stgutg.Spec.Ts38413Leaf
import Stgutg.Gen.NgapSchema

namespace Stgutg.Props.C03
open Stgutg Stgutg.Aper

set_option maxRecDepth 1000000 in
/-- Table fact, re-decided on every run: each of the simple types and list types tabled by hand from TS 38.413
    clause 9.4.5 occurs in the schema as a one-field wrapper (all 150 + 32 are found: struct names are unique,
    table names are distinct), and its struct tag carries exactly the standard's PER-visible constraint
    (optional/extension flags, size and value bounds, open-type attributes). -/
theorem tags_are_ts38413 :
    Spec.Ts38413.checkTable Gen.Ngap.schema =
      (Spec.Ts38413.leafTable.length + Spec.Ts38413.listTable.length, true) := by decide +kernel

/-- the table names are pairwise distinct -/
theorem table_names_distinct :
    (Spec.Ts38413.leafTable.map (·.1)).Nodup ∧ (Spec.Ts38413.listTable.map (·.1)).Nodup := by decide +kernel

end Stgutg.Props.C03
