/-
  C09 — the NAS wire layout follows the TS 24.501 (v15.3) message tables of clauses 8.2 / 8.3.
  Property theorems only; helper lemmas live in Stgutg/Proofs.

  `Gen.Nas.layouts` is what `gen naslayout` extracts from the Go codec on every run, `Spec.Ts24501.tables`
  is the transcription of the standard, `Nas.deviations` (Model/NasSpec.lean) compares the wire structure a
  layout implements with the wire structure of its table, row by row: message type, order and widths of the
  mandatory fields, and (IEI, format, length-field width, fixed length / capacity) of every optional IE.
-/
import Stgutg.Model.NasSpec
import Stgutg.Model.NasCtor
import Stgutg.Spec.NasCtorIntended
import Stgutg.Proofs.NasCodec
import Stgutg.Proofs.NasSpec
import Stgutg.Proofs.NasCtor
import Stgutg.Gen.NasLayouts
import Stgutg.Props.C08

namespace Stgutg.Props.C09
open Stgutg Stgutg.Nas Stgutg.Spec.Ts24501

/-- rows of layout `L` that deviate from its table (`none`: no table of that name / malformed table) -/
def layoutDeviations (L : Layout) : Option (List (Nat ⊕ Nat)) :=
  ((tableByName L.name).bind (·.wire)).map (deviations L)

/-- message type and header kind of a layout according to the dispatch of nas.go -/
def dispatchedType (i : Nat) : Option (Bool × Nat) :=
  match Gen.Nas.dispatchGmm.dec.find? (·.2 == i), Gen.Nas.dispatchGsm.dec.find? (·.2 == i) with
  | some p, none => some (false, p.1)
  | none, some p => some (true, p.1)
  | _, _ => none

/-! ## the layout statement at full strength -/

/-- every one of the 45 layouts implements exactly the wire structure of its table -/
def C09_layouts_statement : Prop := ∀ L ∈ Gen.Nas.layouts, layoutDeviations L = some []

/-- the deviations of the tree as it is (KNOWN_FINDINGS.txt):
    F15  Registration Request, IEI 0x52 Last visited registered TAI: `Iei` + `Octet[7]` = 8 octets, table 8.2.6.1.1: TV 7;
    F23  Security protected 5GS NAS message: the `Plain 5GS NAS message` (V, 3-n) has no wire element at all. -/
def knownDeviations : List (String × (Nat ⊕ Nat)) :=
  [("RegistrationRequest", .inr 0x52), ("SecurityProtected5GSNASMessage", .inl 4)]

theorem C09_layouts_counterexample : ¬ C09_layouts_statement := by
  intro h
  have := h Gen.Nas.layout_RegistrationRequest (by simp [Gen.Nas.layouts])
  revert this
  decide +kernel

/-- apart from exactly the two keyed rows, all 45 layouts implement the wire structure of their tables:
    45 message types, 159 optional-IE rows (157 equal), mandatory part of every message (all equal but one element) -/
theorem C09_layouts_partial :
    Gen.Nas.layouts.flatMap (fun L => match layoutDeviations L with
      | some ds => ds.map fun d => (L.name, d)
      | none => [(L.name, .inl 0)]) = knownDeviations ∧
    ∀ L ∈ Gen.Nas.layouts, (layoutDeviations L).isSome = true := by
  decide +kernel

/-- the message type octet and the header kind (5GMM: EPD, security header type, type; 5GSM: EPD, PDU session
    ID, PTI, type) under which nas.go dispatches each layout are those of its table; the only table without a
    message type (8.2.28) is the only layout that is not dispatched -/
theorem C09_message_types :
    ∀ i < Gen.Nas.layouts.length,
      (match Gen.Nas.layouts[i]? with
        | some L => (match tableByName L.name with
            | some T => (match T.msgType with
                | some t => dispatchedType i == some (T.gsm, t)
                | none => dispatchedType i == none)
            | none => false)
        | none => false) = true := by
  decide +kernel

theorem C09_epd : Gen.Nas.dispatchGmm.epd = epd5GMM ∧ Gen.Nas.dispatchGsm.epd = epd5GSM := by decide

/-- 45 tables, one per layout, 159 optional rows -/
theorem C09_table_count :
    tables.length = 45 ∧ (tables.map (·.opt.length)).sum = 159 ∧
    (Gen.Nas.layouts.map (·.name)).all (fun n => (tables.filter (·.name == n)).length == 1) = true := by
  decide +kernel

/-! ## consequences: the standard's parser reads what the codec writes, and vice versa -/

/-- generic: for every well-formed layout that implements the wire structure `w` (outside the fields in `skip`,
    which the message leaves nil) and every message that denotes an abstract message (`specWF`: well-formed, and
    `Len` = number of octets sent for the fixed-size `Len`+`Octet` shapes), the independent TS 24.501 parser reads the
    codec's bytes back to exactly that abstract message -/
theorem C09_spec_parses_impl (L : Layout) (w : Wire) (m : Msg) (skip : List Nat)
    (hL : LayoutWF L) (hm : specWF L m = true) (ha : agree L w skip = true) (hs : skips m skip = true) :
    ∃ bs, encode L m = .ok bs ∧ parse w bs = some (toSpec L w m) := by
  obtain ⟨bs, henc, hspec⟩ := spec_encode_eq L w m skip hL hm ha hs
  refine ⟨bs, henc, parse_encode w _ bs ?_ hspec⟩
  simp only [agree, Bool.and_eq_true] at ha
  exact ha.2

/-- generic, the other direction: the bytes the independent TS 24.501 encoder builds for the abstract message are
    decoded by the codec to the intended values -/
theorem C09_impl_parses_spec (L : Layout) (w : Wire) (m : Msg) (skip : List Nat)
    (hL : LayoutWF L) (hm : specWF L m = true) (ha : agree L w skip = true) (hs : skips m skip = true) :
    ∃ bs, Spec.Ts24501.encode w (toSpec L w m) = some bs ∧ decode L bs = .ok m := by
  obtain ⟨bs, henc, hspec⟩ := spec_encode_eq L w m skip hL hm ha hs
  refine ⟨bs, hspec, ?_⟩
  have hm' : MsgWF L m := by
    simp only [specWF, Bool.and_eq_true] at hm
    exact hm.1.1
  obtain ⟨mand, _, henc', hdec⟩ := decode_pieces L m hL hm'
  rw [henc] at henc'
  cases henc'
  exact hdec _ (fun _ h => h) (fun p hp => List.mem_map_of_mem hp)

/-- the standard's encoder and parser are mutually consistent (a fact about Spec/Ts24501.lean alone) -/
theorem C09_spec_selfconsistent (w : Wire) (sm : SMsg) (bs : Bytes) (hnr : noRest w = true)
    (h : Spec.Ts24501.encode w sm = some bs) : parse w bs = some sm :=
  parse_encode w sm bs hnr h

/-- fields a message must leave nil for the consequence theorems to apply: the deviating row of F15 -/
def skipOf (L : Layout) : List Nat :=
  if L.name == "RegistrationRequest" then [Gen.Nas.idx_RegistrationRequest_LastVisitedRegisteredTAI] else []

def wireOf (L : Layout) : Option Wire := (tableByName L.name).bind (·.wire)

/-- table fact: every layout except 8.2.28 (F23) implements the wire structure of its table row by row (the
    Registration Request outside IEI 0x52), the tables' IEIs are pairwise distinct per message -/
theorem C09_agree :
    (Gen.Nas.layouts.all fun L =>
      L.name == "SecurityProtected5GSNASMessage" ||
      (match wireOf L with
        | some w => agree L w (skipOf L)
        | none => false)) = true := by
  decide +kernel

/-- C09 consequences for the code in the tree: 44 message types, every message that denotes an abstract message -/
theorem C09_consequences (L : Layout) (hmem : L ∈ Gen.Nas.layouts) (hne : (L.name == "SecurityProtected5GSNASMessage") = false)
    (m : Msg) (hm : specWF L m = true) (hs : skips m (skipOf L) = true) :
    ∃ w bs, wireOf L = some w ∧ encode L m = .ok bs ∧ parse w bs = some (toSpec L w m) ∧
      Spec.Ts24501.encode w (toSpec L w m) = some bs ∧ decode L bs = .ok m := by
  have hall := C09_agree
  rw [List.all_eq_true] at hall
  have h := hall L hmem
  simp only [hne, Bool.false_or] at h
  cases hw : wireOf L with
  | none => simp [hw] at h
  | some w =>
    simp only [hw] at h
    have hL := C08.layouts_wf L hmem
    obtain ⟨bs, henc, hparse⟩ := C09_spec_parses_impl L w m _ hL hm h hs
    obtain ⟨bs', hspec, hdec⟩ := C09_impl_parses_spec L w m _ hL hm h hs
    obtain ⟨bs'', henc'', hspec''⟩ := spec_encode_eq L w m _ hL hm h hs
    rw [henc] at henc''; cases henc''
    rw [hspec] at hspec''; cases hspec''
    exact ⟨w, bs, rfl, henc, hparse, hspec, hdec⟩

/-! ## the constructors on the emulator's path (NasPdu.go)

    `Ctor.*` is the hand model of each constructor (Model/NasCtor.lean, tied by `corr nas-ctor`), `Intended.*` the
    abstract message it is meant to send (Spec/NasCtorIntended.lean).  Each theorem: the bytes the constructor
    produces are parsed by the independent TS 24.501 parser, under the message's table, to the intended values. -/

open Stgutg.Gen.Nas in
/-- the standard's parser reads the constructor's bytes back to `expected` -/
def ctorParses (L : Layout) (model : Res Msg) (expected : SMsg) : Bool :=
  match wireOf L, Ctor.encodeWith L model with
  | some w, .ok bs => parse w bs == some expected
  | _, _ => false

/-- via the generic consequence theorem: a constructor whose message is `msg` sends `toSpec msg` -/
theorem ctor_via_generic (L : Layout) (hmem : L ∈ Gen.Nas.layouts)
    (hne : (L.name == "SecurityProtected5GSNASMessage") = false)
    (model : Res Msg) (msg : Msg) (hmodel : model = .ok msg) (hwf : specWF L msg = true)
    (hsk : skips msg (skipOf L) = true) (w : Wire) (hw : wireOf L = some w)
    (expected : SMsg) (hto : toSpec L w msg = expected) :
    ∃ bs, Ctor.encodeWith L model = .ok bs ∧ parse w bs = some expected := by
  obtain ⟨w', bs, hw', henc, hparse, _, _⟩ := C09_consequences L hmem hne msg hwf hsk
  rw [hw] at hw'; cases hw'
  exact ⟨bs, by simp [Ctor.encodeWith, hmodel, henc], by rw [hparse, hto]⟩

section
open Stgutg.Gen.Nas

/-- `GetPduSessionEstablishmentRequest`: every PDU session identity; PTI 1, IPv4, full integrity data rates, the PCO -/
theorem C09_ctor_establishmentRequest : ∀ psi < 256, ctorParses layout_PDUSessionEstablishmentRequest
    (Ctor.pduSessionEstablishmentRequest (UInt8.ofNat psi)) (Intended.pduSessionEstablishmentRequest psi 1) = true := by
  decide +kernel

/-- `GetServiceRequest`: every service type value; ngKSI native/1, 5G-S-TMSI with type of identity 5G-S-TMSI (after the
    F18 repair), uplink data status for "data", allowed PDU session status for "mobile terminated services" -/
theorem C09_ctor_serviceRequest : ∀ st < 16, ctorParses layout_ServiceRequest
    (Ctor.serviceRequest (UInt8.ofNat st)) (Intended.serviceRequest st) = true := by
  decide +kernel

/-- full statement for the three 5GSM constructors without a PTI argument: they use an assigned PTI (7.3.1) -/
def C09_ctor_pti_statement : Prop :=
  ∀ psi < 256, ∃ pti, 1 ≤ pti ∧ pti ≤ 254 ∧
    ctorParses layout_PDUSessionReleaseRequest (Ctor.pduSessionReleaseRequest (UInt8.ofNat psi))
      (Intended.pduSessionReleaseRequest psi pti) = true ∧
    ctorParses layout_PDUSessionReleaseComplete (Ctor.pduSessionReleaseComplete (UInt8.ofNat psi))
      (Intended.pduSessionReleaseComplete psi pti) = true ∧
    ctorParses layout_PDUSessionModificationRequest (Ctor.pduSessionModificationRequest (UInt8.ofNat psi))
      (Intended.pduSessionModificationRequest psi pti) = true

/-- what they send (F19, known finding): everything as intended except that the PTI octet is 0 = "unassigned" -/
theorem C09_ctor_pti_partial : ∀ psi < 256,
    ctorParses layout_PDUSessionReleaseRequest (Ctor.pduSessionReleaseRequest (UInt8.ofNat psi))
      ⟨[[0x2E], [UInt8.ofNat psi], [0], [0xD1]], []⟩ = true ∧
    ctorParses layout_PDUSessionReleaseComplete (Ctor.pduSessionReleaseComplete (UInt8.ofNat psi))
      ⟨[[0x2E], [UInt8.ofNat psi], [0], [0xD4]], []⟩ = true ∧
    ctorParses layout_PDUSessionModificationRequest (Ctor.pduSessionModificationRequest (UInt8.ofNat psi))
      ⟨[[0x2E], [UInt8.ofNat psi], [0], [0xC9]], []⟩ = true := by
  decide +kernel

theorem C09_ctor_pti_counterexample : ¬ C09_ctor_pti_statement := by
  intro h
  obtain ⟨pti, h1, h2, h3, _⟩ := h 5 (by decide)
  have hall : ∀ pti < 255, 1 ≤ pti →
      ctorParses layout_PDUSessionReleaseRequest (Ctor.pduSessionReleaseRequest (UInt8.ofNat 5))
        (Intended.pduSessionReleaseRequest 5 pti) = false := by decide +kernel
  rw [hall pti (by omega) h1] at h3
  cases h3

/-- `GetUlNasTransport_PduSessionReleaseRequest`: UL NAS TRANSPORT, payload container type N1 SM information, PDU session
    ID IE = the argument, payload = the release request (with its PTI 0, F19) -/
theorem C09_ctor_ulReleaseRequest_partial : ∀ psi < 256, ctorParses layout_ULNASTransport
    (Ctor.ulReleaseRequest (UInt8.ofNat psi))
    (Intended.ulNasTransport [0x2E, UInt8.ofNat psi, 0, 0xD1] psi none [] none) = true := by
  decide +kernel

/-- `GetRegistrationComplete`: with or without a SOR transparent container of any content below 64 KiB -/
theorem C09_ctor_registrationComplete (sor : Option Bytes) (h : ∀ c, sor = some c → c.length < 65536) :
    ∃ w bs, wireOf layout_RegistrationComplete = some w ∧
      Ctor.encodeWith layout_RegistrationComplete (Ctor.registrationComplete sor) = .ok bs ∧
      parse w bs = some (Intended.registrationComplete sor) := by
  have hbase : Ctor.registrationCompleteBase
      = .ok [some ⟨0, 0, [0x7E]⟩, some ⟨0, 0, [0x00]⟩, some ⟨0, 0, [0x43]⟩, none] := by decide +kernel
  obtain ⟨w, hw⟩ : ∃ w, wireOf layout_RegistrationComplete = some w :=
    Option.isSome_iff_exists.mp (by decide +kernel)
  refine ⟨w, ?_⟩
  have hsk : skipOf layout_RegistrationComplete = [] := by decide +kernel
  cases sor with
  | none =>
    obtain ⟨bs, h1, h2⟩ := ctor_via_generic layout_RegistrationComplete (by simp [Gen.Nas.layouts]) (by decide +kernel)
      (Ctor.registrationComplete none)
      [some ⟨0, 0, [0x7E]⟩, some ⟨0, 0, [0x00]⟩, some ⟨0, 0, [0x43]⟩, none]
      (by simp [Ctor.registrationComplete, hbase])
      (by decide +kernel) (by rw [hsk]; rfl) w hw (Intended.registrationComplete none)
      (by simp [toSpec, layout_RegistrationComplete, mandToSpec, Intended.registrationComplete, Intended.present])
    exact ⟨bs, hw, h1, h2⟩
  | some c =>
    have hc := h c rfl
    obtain ⟨bs, h1, h2⟩ := ctor_via_generic layout_RegistrationComplete (by simp [Gen.Nas.layouts]) (by decide +kernel)
      (Ctor.registrationComplete (some c))
      [some ⟨0, 0, [0x7E]⟩, some ⟨0, 0, [0x00]⟩, some ⟨0, 0, [0x43]⟩, some ⟨0x73, c.length, c⟩]
      (by simp [Ctor.registrationComplete, hbase, Ctor.setP,
            Ctor.bufIE_eq sh_SORTransparentContainer 0x73 65536 c _ rfl rfl (by omega) hc,
            idx_RegistrationComplete_SORTransparentContainer])
      (by simp [specWF, msgWF, mandValsOK, optValsOK, specValsOK, layout_RegistrationComplete, mandValOK, optValOK,
            specValOK, lenFits, sh_ExtendedProtocolDiscriminator, sh_SpareHalfOctetAndSecurityHeaderType,
            sh_RegistrationCompleteMessageIdentity, sh_SORTransparentContainer, Body.size, hc])
      (by rw [hsk]; rfl) w hw (Intended.registrationComplete (some c))
      (by simp [toSpec, layout_RegistrationComplete, mandToSpec, optToSpec, Intended.registrationComplete, Intended.present])
    exact ⟨bs, hw, h1, h2⟩

/-- `GetSecurityModeComplete`: the IMEISV (type of identity IMEISV, even, digits 1,1,1,0…) and, when given, the NAS
    message container with any content below 64 KiB -/
theorem C09_ctor_securityModeComplete (nmc : Option Bytes) (h : ∀ c, nmc = some c → c.length < 65536) :
    ∃ w bs, wireOf layout_SecurityModeComplete = some w ∧
      Ctor.encodeWith layout_SecurityModeComplete (Ctor.securityModeComplete nmc) = .ok bs ∧
      parse w bs = some (Intended.securityModeComplete nmc) := by
  have hbase : Ctor.securityModeCompleteBase
      = .ok [some ⟨0, 0, [0x7E]⟩, some ⟨0, 0, [0x00]⟩, some ⟨0, 0, [0x5E]⟩,
             some ⟨0x77, 9, [0x15, 0x11, 0, 0, 0, 0, 0, 0, 0]⟩, none] := by decide +kernel
  obtain ⟨w, hw⟩ : ∃ w, wireOf layout_SecurityModeComplete = some w :=
    Option.isSome_iff_exists.mp (by decide +kernel)
  have hwo : ∀ c, w.opt.find? (fun x => x.iei == c) = (([⟨0x77, .tlve, 9, some 9⟩, ⟨0x71, .tlve, 1, none⟩] : List OWire).find? (fun x => x.iei == c)) := by
    have : (wireOf layout_SecurityModeComplete).map (·.opt) = some [⟨0x77, .tlve, 9, some 9⟩, ⟨0x71, .tlve, 1, none⟩] := by
      decide +kernel
    rw [hw] at this
    simp at this
    intro c; rw [this]
  refine ⟨w, ?_⟩
  have hsk : skipOf layout_SecurityModeComplete = [] := by decide +kernel
  cases nmc with
  | none =>
    obtain ⟨bs, h1, h2⟩ := ctor_via_generic layout_SecurityModeComplete (by simp [Gen.Nas.layouts]) (by decide +kernel)
      (Ctor.securityModeComplete none) _
      (by simp [Ctor.securityModeComplete, hbase]; rfl)
      (by decide +kernel) (by rw [hsk]; rfl) w hw (Intended.securityModeComplete none)
      (by simp [toSpec, layout_SecurityModeComplete, mandToSpec, optToSpec, Intended.securityModeComplete, Intended.present])
    exact ⟨bs, hw, h1, h2⟩
  | some c =>
    have hc := h c rfl
    obtain ⟨bs, h1, h2⟩ := ctor_via_generic layout_SecurityModeComplete (by simp [Gen.Nas.layouts]) (by decide +kernel)
      (Ctor.securityModeComplete (some c))
      [some ⟨0, 0, [0x7E]⟩, some ⟨0, 0, [0x00]⟩, some ⟨0, 0, [0x5E]⟩,
       some ⟨0x77, 9, [0x15, 0x11, 0, 0, 0, 0, 0, 0, 0]⟩, some ⟨0x71, c.length, c⟩]
      (by simp [Ctor.securityModeComplete, hbase, Ctor.setP,
            Ctor.bufIE_eq sh_NASMessageContainer 0x71 65536 c _ rfl rfl (by omega) hc,
            idx_SecurityModeComplete_NASMessageContainer])
      (by simp [specWF, msgWF, mandValsOK, optValsOK, specValsOK, layout_SecurityModeComplete, mandValOK, optValOK,
            specValOK, lenFits, sh_ExtendedProtocolDiscriminator, sh_SpareHalfOctetAndSecurityHeaderType,
            sh_SecurityModeCompleteMessageIdentity, sh_NASMessageContainer, sh_IMEISV, Body.size, hc, allZero])
      (by rw [hsk]; rfl) w hw (Intended.securityModeComplete (some c))
      (by simp [toSpec, layout_SecurityModeComplete, mandToSpec, optToSpec, Intended.securityModeComplete, Intended.present])
    exact ⟨bs, hw, h1, h2⟩

end

end Stgutg.Props.C09
