/-
  C09 — the NAS wire layout follows the TS 24.501 (v15.3) message tables of clauses 8.2 / 8.3.
  Property theorems only; helper lemmas live in Stgutg/Proofs.

  `Gen.Nas.layouts` is what `gen naslayout` extracts from the Go codec on every run, `Spec.Ts24501.tables`
  is the transcription of the standard, `Nas.deviations` (Model/NasSpec.lean) compares the wire structure a
  layout implements with the wire structure of its table, row by row: message type, order and widths of the
  mandatory fields, and (IEI, format, length-field width, fixed length / capacity) of every optional IE.
-/
import Stgutg.Model.NasSpec
import Stgutg.Proofs.NasCodec
import Stgutg.Gen.NasLayouts

namespace Stgutg.Props.C09
open Stgutg Stgutg.Nas Stgutg.Spec.Ts24501

/-- rows of layout `L` that deviate from its table (`none`: no table of that name / malformed table) -/
def layoutDeviations (L : Layout) : Option (List (Nat ⊕ Nat)) :=
  ((tableByName L.name).bind (·.wire)).map (deviations L)

/-- message type and header kind of a layout according to the dispatch of nas.go -/
def dispatchedType (i : Nat) : Option (Bool × Nat) :=
  match Gen.Nas.dispatchGmm.dec.find? (·.2 == i), Gen.Nas.dispatchGsm.dec.find? (·.2 == i) with
  | some p, none => some (false, p.1)
  | none, some p => some (true, p.1)
  | _, _ => none

/-! ## the layout statement at full strength -/

/-- every one of the 45 layouts implements exactly the wire structure of its table -/
def C09_layouts_statement : Prop := ∀ L ∈ Gen.Nas.layouts, layoutDeviations L = some []

/-- the deviations of the tree as it is (KNOWN_FINDINGS.txt):
    F15  Registration Request, IEI 0x52 Last visited registered TAI: `Iei` + `Octet[7]` = 8 octets, table 8.2.6.1.1: TV 7;
    F23  Security protected 5GS NAS message: the `Plain 5GS NAS message` (V, 3-n) has no wire element at all. -/
def knownDeviations : List (String × (Nat ⊕ Nat)) :=
  [("RegistrationRequest", .inr 0x52), ("SecurityProtected5GSNASMessage", .inl 4)]

theorem C09_layouts_counterexample : ¬ C09_layouts_statement := by
  intro h
  have := h Gen.Nas.layout_RegistrationRequest (by simp [Gen.Nas.layouts])
  revert this
  decide +kernel

/-- apart from exactly the two keyed rows, all 45 layouts implement the wire structure of their tables:
    45 message types, 159 optional-IE rows (157 equal), mandatory part of every message (all equal but one element) -/
theorem C09_layouts_partial :
    Gen.Nas.layouts.flatMap (fun L => match layoutDeviations L with
      | some ds => ds.map fun d => (L.name, d)
      | none => [(L.name, .inl 0)]) = knownDeviations ∧
    ∀ L ∈ Gen.Nas.layouts, (layoutDeviations L).isSome = true := by
  decide +kernel

/-- the message type octet and the header kind (5GMM: EPD, security header type, type; 5GSM: EPD, PDU session
    ID, PTI, type) under which nas.go dispatches each layout are those of its table; the only table without a
    message type (8.2.28) is the only layout that is not dispatched -/
theorem C09_message_types :
    ∀ i < Gen.Nas.layouts.length,
      (match Gen.Nas.layouts[i]? with
        | some L => (match tableByName L.name with
            | some T => (match T.msgType with
                | some t => dispatchedType i == some (T.gsm, t)
                | none => dispatchedType i == none)
            | none => false)
        | none => false) = true := by
  decide +kernel

theorem C09_epd : Gen.Nas.dispatchGmm.epd = epd5GMM ∧ Gen.Nas.dispatchGsm.epd = epd5GSM := by decide

/-- 45 tables, one per layout, 159 optional rows -/
theorem C09_table_count :
    tables.length = 45 ∧ (tables.map (·.opt.length)).sum = 159 ∧
    (Gen.Nas.layouts.map (·.name)).all (fun n => (tables.filter (·.name == n)).length == 1) = true := by
  decide +kernel

end Stgutg.Props.C09
