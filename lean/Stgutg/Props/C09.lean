/-
  C09 — the NAS wire layout follows the TS 24.501 (v15.3) message tables of clauses 8.2 / 8.3.
  Property theorems only; helper lemmas live in Stgutg/Proofs.

  `Gen.Nas.layouts` is what `gen naslayout` extracts from the Go codec on every run, `Spec.Ts24501.tables`
  is the transcription of the standard, `Nas.deviations` (Model/NasSpec.lean) compares the wire structure a
  layout implements with the wire structure of its table, row by row: message type, order and widths of the
  mandatory fields, and (IEI, format, length-field width, fixed length / capacity) of every optional IE.
-/
import Stgutg.Model.NasSpec
import Stgutg.Model.NasCtor
import Stgutg.Spec.NasCtorIntended
import Stgutg.Proofs.NasCodec
import Stgutg.Proofs.NasSpec
import Stgutg.Proofs.NasCtor
import Stgutg.Gen.NasLayouts
import Stgutg.Props.C08

namespace Stgutg.Props.C09
open Stgutg Stgutg.Nas Stgutg.Spec.Ts24501

/-- rows of layout `L` that deviate from its table (`none`: no table of that name / malformed table) -/
def layoutDeviations (L : Layout) : Option (List (Nat ⊕ Nat)) :=
  ((tableByName L.name).bind (·.wire)).map (deviations L)

/-- message type and header kind of a layout according to the dispatch of nas.go -/
def dispatchedType (i : Nat) : Option (Bool × Nat) :=
  match Gen.Nas.dispatchGmm.dec.find? (·.2 == i), Gen.Nas.dispatchGsm.dec.find? (·.2 == i) with
  | some p, none => some (false, p.1)
  | none, some p => some (true, p.1)
  | _, _ => none

/-! ## the layout statement at full strength -/

/-- every one of the 45 layouts implements exactly the wire structure of its table -/
def C09_layouts_statement : Prop := ∀ L ∈ Gen.Nas.layouts, layoutDeviations L = some []

/-- the deviations of the tree as it is (KNOWN_FINDINGS.txt):
    F15  Registration Request, IEI 0x52 Last visited registered TAI: `Iei` + `Octet[7]` = 8 octets, table 8.2.6.1.1: TV 7;
    F23  Security protected 5GS NAS message: the `Plain 5GS NAS message` (V, 3-n) has no wire element at all. -/
def knownDeviations : List (String × (Nat ⊕ Nat)) :=
  [("RegistrationRequest", .inr 0x52), ("SecurityProtected5GSNASMessage", .inl 4)]

theorem C09_layouts_counterexample : ¬ C09_layouts_statement := by
  intro h
  have := h Gen.Nas.layout_RegistrationRequest (by simp [Gen.Nas.layouts])
  revert this
  decide +kernel

/-- apart from exactly the two keyed rows, all 45 layouts implement the wire structure of their tables:
    45 message types, 159 optional-IE rows (157 equal), mandatory part of every message (all equal but one element) -/
theorem C09_layouts_partial :
    Gen.Nas.layouts.flatMap (fun L => match layoutDeviations L with
      | some ds => ds.map fun d => (L.name, d)
      | none => [(L.name, .inl 0)]) = knownDeviations ∧
    ∀ L ∈ Gen.Nas.layouts, (layoutDeviations L).isSome = true := by
  decide +kernel

/-- the message type octet and the header kind (5GMM: EPD, security header type, type; 5GSM: EPD, PDU session
    ID, PTI, type) under which nas.go dispatches each layout are those of its table; the only table without a
    message type (8.2.28) is the only layout that is not dispatched -/
theorem C09_message_types :
    ∀ i < Gen.Nas.layouts.length,
      (match Gen.Nas.layouts[i]? with
        | some L => (match tableByName L.name with
            | some T => (match T.msgType with
                | some t => dispatchedType i == some (T.gsm, t)
                | none => dispatchedType i == none)
            | none => false)
        | none => false) = true := by
  decide +kernel

theorem C09_epd : Gen.Nas.dispatchGmm.epd = epd5GMM ∧ Gen.Nas.dispatchGsm.epd = epd5GSM := by decide

/-- 45 tables, one per layout, 159 optional rows -/
theorem C09_table_count :
    tables.length = 45 ∧ (tables.map (·.opt.length)).sum = 159 ∧
    (Gen.Nas.layouts.map (·.name)).all (fun n => (tables.filter (·.name == n)).length == 1) = true := by
  decide +kernel

/-! ## consequences: the standard's parser reads what the codec writes, and vice versa -/

/-- generic: for every well-formed layout that implements the wire structure `w` (outside the fields in `skip`,
    which the message leaves nil) and every message that denotes an abstract message (`specWF`: well-formed, and
    `Len` = number of octets sent for the fixed-size `Len`+`Octet` shapes), the independent TS 24.501 parser reads the
    codec's bytes back to exactly that abstract message -/
theorem C09_spec_parses_impl (L : Layout) (w : Wire) (m : Msg) (skip : List Nat)
    (hL : LayoutWF L) (hm : specWF L m = true) (ha : agree L w skip = true) (hs : skips m skip = true) :
    ∃ bs, encode L m = .ok bs ∧ parse w bs = some (toSpec L w m) := by
  obtain ⟨bs, henc, hspec⟩ := spec_encode_eq L w m skip hL hm ha hs
  refine ⟨bs, henc, parse_encode w _ bs ?_ hspec⟩
  simp only [agree, Bool.and_eq_true] at ha
  exact ha.2

/-- generic, the other direction: the bytes the independent TS 24.501 encoder builds for the abstract message are
    decoded by the codec to the intended values -/
theorem C09_impl_parses_spec (L : Layout) (w : Wire) (m : Msg) (skip : List Nat)
    (hL : LayoutWF L) (hm : specWF L m = true) (ha : agree L w skip = true) (hs : skips m skip = true) :
    ∃ bs, Spec.Ts24501.encode w (toSpec L w m) = some bs ∧ decode L bs = .ok m := by
  obtain ⟨bs, henc, hspec⟩ := spec_encode_eq L w m skip hL hm ha hs
  refine ⟨bs, hspec, ?_⟩
  have hm' : MsgWF L m := by
    simp only [specWF, Bool.and_eq_true] at hm
    exact hm.1.1
  obtain ⟨mand, _, henc', hdec⟩ := decode_pieces L m hL hm'
  rw [henc] at henc'
  cases henc'
  exact hdec _ (fun _ h => h) (fun p hp => List.mem_map_of_mem hp)

/-- the standard's encoder and parser are mutually consistent (a fact about Spec/Ts24501.lean alone) -/
theorem C09_spec_selfconsistent (w : Wire) (sm : SMsg) (bs : Bytes) (hnr : noRest w = true)
    (h : Spec.Ts24501.encode w sm = some bs) : parse w bs = some sm :=
  parse_encode w sm bs hnr h

/-- fields a message must leave nil for the consequence theorems to apply: the deviating row of F15 -/
def skipOf (L : Layout) : List Nat :=
  if L.name == "RegistrationRequest" then [Gen.Nas.idx_RegistrationRequest_LastVisitedRegisteredTAI] else []

def wireOf (L : Layout) : Option Wire := (tableByName L.name).bind (·.wire)

/-- table fact: every layout except 8.2.28 (F23) implements the wire structure of its table row by row (the
    Registration Request outside IEI 0x52), the tables' IEIs are pairwise distinct per message -/
theorem C09_agree :
    (Gen.Nas.layouts.all fun L =>
      L.name == "SecurityProtected5GSNASMessage" ||
      (match wireOf L with
        | some w => agree L w (skipOf L)
        | none => false)) = true := by
  decide +kernel

/-- C09 consequences for the code in the tree: 44 message types, every message that denotes an abstract message -/
theorem C09_consequences (L : Layout) (hmem : L ∈ Gen.Nas.layouts) (hne : (L.name == "SecurityProtected5GSNASMessage") = false)
    (m : Msg) (hm : specWF L m = true) (hs : skips m (skipOf L) = true) :
    ∃ w bs, wireOf L = some w ∧ encode L m = .ok bs ∧ parse w bs = some (toSpec L w m) ∧
      Spec.Ts24501.encode w (toSpec L w m) = some bs ∧ decode L bs = .ok m := by
  have hall := C09_agree
  rw [List.all_eq_true] at hall
  have h := hall L hmem
  simp only [hne, Bool.false_or] at h
  cases hw : wireOf L with
  | none => simp [hw] at h
  | some w =>
    simp only [hw] at h
    have hL := C08.layouts_wf L hmem
    obtain ⟨bs, henc, hparse⟩ := C09_spec_parses_impl L w m _ hL hm h hs
    obtain ⟨bs', hspec, hdec⟩ := C09_impl_parses_spec L w m _ hL hm h hs
    obtain ⟨bs'', henc'', hspec''⟩ := spec_encode_eq L w m _ hL hm h hs
    rw [henc] at henc''; cases henc''
    rw [hspec] at hspec''; cases hspec''
    exact ⟨w, bs, rfl, henc, hparse, hspec, hdec⟩

/-! ## the constructors on the emulator's path (NasPdu.go)

    `Ctor.*` is the hand model of each constructor (Model/NasCtor.lean, tied by `corr nas-ctor`), `Intended.*` the
    abstract message it is meant to send (Spec/NasCtorIntended.lean).  Each theorem: the bytes the constructor
    produces are parsed by the independent TS 24.501 parser, under the message's table, to the intended values. -/

open Stgutg.Gen.Nas in
/-- the standard's parser reads the constructor's bytes back to `expected` -/
def ctorParses (L : Layout) (model : Res Msg) (expected : SMsg) : Bool :=
  match wireOf L, Ctor.encodeWith L model with
  | some w, .ok bs => parse w bs == some expected
  | _, _ => false

/-- via the generic consequence theorem: a constructor whose message is `msg` sends `toSpec msg` -/
theorem ctor_via_generic (L : Layout) (hmem : L ∈ Gen.Nas.layouts)
    (hne : (L.name == "SecurityProtected5GSNASMessage") = false)
    (model : Res Msg) (msg : Msg) (hmodel : model = .ok msg) (hwf : specWF L msg = true)
    (hsk : skips msg (skipOf L) = true) (w : Wire) (hw : wireOf L = some w)
    (expected : SMsg) (hto : toSpec L w msg = expected) :
    ∃ bs, Ctor.encodeWith L model = .ok bs ∧ parse w bs = some expected := by
  obtain ⟨w', bs, hw', henc, hparse, _, _⟩ := C09_consequences L hmem hne msg hwf hsk
  rw [hw] at hw'; cases hw'
  exact ⟨bs, by simp [Ctor.encodeWith, hmodel, henc], by rw [hparse, hto]⟩

section
open Stgutg.Gen.Nas Stgutg.Gen

/-- `GetPduSessionEstablishmentRequest`: every PDU session identity; PTI 1, IPv4, full integrity data rates, the PCO -/
theorem C09_ctor_establishmentRequest : ∀ psi < 256, ctorParses layout_PDUSessionEstablishmentRequest
    (Ctor.pduSessionEstablishmentRequest (UInt8.ofNat psi)) (Intended.pduSessionEstablishmentRequest psi 1) = true := by
  decide +kernel

/-- `GetServiceRequest`: every service type value; ngKSI native/1, 5G-S-TMSI with type of identity 5G-S-TMSI (after the
    F18 repair), uplink data status for "data", allowed PDU session status for "mobile terminated services" -/
theorem C09_ctor_serviceRequest : ∀ st < 16, ctorParses layout_ServiceRequest
    (Ctor.serviceRequest (UInt8.ofNat st)) (Intended.serviceRequest st) = true := by
  decide +kernel

/-- full statement for the three 5GSM constructors without a PTI argument: they use an assigned PTI (7.3.1) -/
def C09_ctor_pti_statement : Prop :=
  ∀ psi < 256, ∃ pti, 1 ≤ pti ∧ pti ≤ 254 ∧
    ctorParses layout_PDUSessionReleaseRequest (Ctor.pduSessionReleaseRequest (UInt8.ofNat psi))
      (Intended.pduSessionReleaseRequest psi pti) = true ∧
    ctorParses layout_PDUSessionReleaseComplete (Ctor.pduSessionReleaseComplete (UInt8.ofNat psi))
      (Intended.pduSessionReleaseComplete psi pti) = true ∧
    ctorParses layout_PDUSessionModificationRequest (Ctor.pduSessionModificationRequest (UInt8.ofNat psi))
      (Intended.pduSessionModificationRequest psi pti) = true

/-- **C09_ctor_pti** (full statement; holds since the F19 repair): the three constructors send PTI 1, an assigned value,
    and everything else as intended -/
theorem C09_ctor_pti : C09_ctor_pti_statement := by
  have h : ∀ psi < 256,
      ctorParses layout_PDUSessionReleaseRequest (Ctor.pduSessionReleaseRequest (UInt8.ofNat psi))
        (Intended.pduSessionReleaseRequest psi 1) = true ∧
      ctorParses layout_PDUSessionReleaseComplete (Ctor.pduSessionReleaseComplete (UInt8.ofNat psi))
        (Intended.pduSessionReleaseComplete psi 1) = true ∧
      ctorParses layout_PDUSessionModificationRequest (Ctor.pduSessionModificationRequest (UInt8.ofNat psi))
        (Intended.pduSessionModificationRequest psi 1) = true := by decide +kernel
  intro psi hpsi
  exact ⟨1, by decide, by decide, h psi hpsi⟩

/-- what was sent before the F19 repair (PTI octet 0 = "unassigned") is NOT what the standard intends, for any assigned PTI:
    the judge used by the correspondence run tells the two apart -/
theorem C09_ctor_pti_zero_rejected : ∀ pti < 255, 1 ≤ pti →
    (match wireOf layout_PDUSessionReleaseRequest with
     | some w => parse w [0x2E, 5, 0, 0xD1] == some (Intended.pduSessionReleaseRequest 5 pti)
     | none => true) = false := by
  decide +kernel

/-- `GetUlNasTransport_PduSessionReleaseRequest`: UL NAS TRANSPORT, payload container type N1 SM information, PDU session
    ID IE = the argument, payload = the release request with PTI 1 -/
theorem C09_ctor_ulReleaseRequest : ∀ psi < 256, ctorParses layout_ULNASTransport
    (Ctor.ulReleaseRequest (UInt8.ofNat psi))
    (Intended.ulNasTransport [0x2E, UInt8.ofNat psi, 1, 0xD1] psi none [] none) = true := by
  decide +kernel

/-- `GetRegistrationComplete`: with or without a SOR transparent container of any content below 64 KiB -/
theorem C09_ctor_registrationComplete (sor : Option Bytes) (h : ∀ c, sor = some c → c.length < 65536) :
    ∃ w bs, wireOf layout_RegistrationComplete = some w ∧
      Ctor.encodeWith layout_RegistrationComplete (Ctor.registrationComplete sor) = .ok bs ∧
      parse w bs = some (Intended.registrationComplete sor) := by
  have hbase : Ctor.registrationCompleteBase
      = .ok [some ⟨0, 0, [0x7E]⟩, some ⟨0, 0, [0x00]⟩, some ⟨0, 0, [0x43]⟩, none] := by decide +kernel
  obtain ⟨w, hw⟩ : ∃ w, wireOf layout_RegistrationComplete = some w :=
    Option.isSome_iff_exists.mp (by decide +kernel)
  refine ⟨w, ?_⟩
  have hsk : skipOf layout_RegistrationComplete = [] := by decide +kernel
  cases sor with
  | none =>
    obtain ⟨bs, h1, h2⟩ := ctor_via_generic layout_RegistrationComplete (by simp [Gen.Nas.layouts]) (by decide +kernel)
      (Ctor.registrationComplete none)
      [some ⟨0, 0, [0x7E]⟩, some ⟨0, 0, [0x00]⟩, some ⟨0, 0, [0x43]⟩, none]
      (by simp [Ctor.registrationComplete, hbase])
      (by decide +kernel) (by rw [hsk]; rfl) w hw (Intended.registrationComplete none)
      (by simp [toSpec, layout_RegistrationComplete, mandToSpec, Intended.registrationComplete, Intended.present])
    exact ⟨bs, hw, h1, h2⟩
  | some c =>
    have hc := h c rfl
    obtain ⟨bs, h1, h2⟩ := ctor_via_generic layout_RegistrationComplete (by simp [Gen.Nas.layouts]) (by decide +kernel)
      (Ctor.registrationComplete (some c))
      [some ⟨0, 0, [0x7E]⟩, some ⟨0, 0, [0x00]⟩, some ⟨0, 0, [0x43]⟩, some ⟨0x73, c.length, c⟩]
      (by simp [Ctor.registrationComplete, hbase, Ctor.setP,
            Ctor.bufIE_eq sh_SORTransparentContainer 0x73 65536 c _ rfl rfl (by omega) hc,
            idx_RegistrationComplete_SORTransparentContainer])
      (by simp [specWF, msgWF, mandValsOK, optValsOK, specValsOK, layout_RegistrationComplete, mandValOK, optValOK,
            specValOK, lenFits, sh_ExtendedProtocolDiscriminator, sh_SpareHalfOctetAndSecurityHeaderType,
            sh_RegistrationCompleteMessageIdentity, sh_SORTransparentContainer, Body.size, hc])
      (by rw [hsk]; rfl) w hw (Intended.registrationComplete (some c))
      (by simp [toSpec, layout_RegistrationComplete, mandToSpec, optToSpec, Intended.registrationComplete, Intended.present])
    exact ⟨bs, hw, h1, h2⟩

/-- `GetSecurityModeComplete`: the IMEISV (type of identity IMEISV, even, digits 1,1,1,0…) and, when given, the NAS
    message container with any content below 64 KiB -/
theorem C09_ctor_securityModeComplete (nmc : Option Bytes) (h : ∀ c, nmc = some c → c.length < 65536) :
    ∃ w bs, wireOf layout_SecurityModeComplete = some w ∧
      Ctor.encodeWith layout_SecurityModeComplete (Ctor.securityModeComplete nmc) = .ok bs ∧
      parse w bs = some (Intended.securityModeComplete nmc) := by
  have hbase : Ctor.securityModeCompleteBase
      = .ok [some ⟨0, 0, [0x7E]⟩, some ⟨0, 0, [0x00]⟩, some ⟨0, 0, [0x5E]⟩,
             some ⟨0x77, 9, [0x15, 0x11, 0, 0, 0, 0, 0, 0, 0]⟩, none] := by decide +kernel
  obtain ⟨w, hw⟩ : ∃ w, wireOf layout_SecurityModeComplete = some w :=
    Option.isSome_iff_exists.mp (by decide +kernel)
  have hwo : ∀ c, w.opt.find? (fun x => x.iei == c) = (([⟨0x77, .tlve, 9, some 9⟩, ⟨0x71, .tlve, 1, none⟩] : List OWire).find? (fun x => x.iei == c)) := by
    have : (wireOf layout_SecurityModeComplete).map (·.opt) = some [⟨0x77, .tlve, 9, some 9⟩, ⟨0x71, .tlve, 1, none⟩] := by
      decide +kernel
    rw [hw] at this
    simp at this
    intro c; rw [this]
  refine ⟨w, ?_⟩
  have hsk : skipOf layout_SecurityModeComplete = [] := by decide +kernel
  cases nmc with
  | none =>
    obtain ⟨bs, h1, h2⟩ := ctor_via_generic layout_SecurityModeComplete (by simp [Gen.Nas.layouts]) (by decide +kernel)
      (Ctor.securityModeComplete none) _
      (by simp [Ctor.securityModeComplete, hbase]; rfl)
      (by decide +kernel) (by rw [hsk]; rfl) w hw (Intended.securityModeComplete none)
      (by simp [toSpec, layout_SecurityModeComplete, mandToSpec, optToSpec, Intended.securityModeComplete, Intended.present])
    exact ⟨bs, hw, h1, h2⟩
  | some c =>
    have hc := h c rfl
    obtain ⟨bs, h1, h2⟩ := ctor_via_generic layout_SecurityModeComplete (by simp [Gen.Nas.layouts]) (by decide +kernel)
      (Ctor.securityModeComplete (some c))
      [some ⟨0, 0, [0x7E]⟩, some ⟨0, 0, [0x00]⟩, some ⟨0, 0, [0x5E]⟩,
       some ⟨0x77, 9, [0x15, 0x11, 0, 0, 0, 0, 0, 0, 0]⟩, some ⟨0x71, c.length, c⟩]
      (by simp [Ctor.securityModeComplete, hbase, Ctor.setP,
            Ctor.bufIE_eq sh_NASMessageContainer 0x71 65536 c _ rfl rfl (by omega) hc,
            idx_SecurityModeComplete_NASMessageContainer])
      (by simp [specWF, msgWF, mandValsOK, optValsOK, specValsOK, layout_SecurityModeComplete, mandValOK, optValOK,
            specValOK, lenFits, sh_ExtendedProtocolDiscriminator, sh_SpareHalfOctetAndSecurityHeaderType,
            sh_SecurityModeCompleteMessageIdentity, sh_NASMessageContainer, sh_IMEISV, Body.size, hc, allZero])
      (by rw [hsk]; rfl) w hw (Intended.securityModeComplete (some c))
      (by simp [toSpec, layout_SecurityModeComplete, mandToSpec, optToSpec, Intended.securityModeComplete, Intended.present])
    exact ⟨bs, hw, h1, h2⟩

/-- `GetAuthenticationResponse`: a 16-octet RES* → authentication response parameter; otherwise a non-empty EAP message
    → EAP message IE; otherwise the bare message -/
theorem C09_ctor_authenticationResponse (param eap : Bytes)
    (h : param.length = 16 ∨ (param = [] ∧ eap.length < 65536)) :
    ∃ w bs, wireOf layout_AuthenticationResponse = some w ∧
      Ctor.encodeWith layout_AuthenticationResponse (Ctor.authenticationResponse param eap) = .ok bs ∧
      parse w bs = some (Intended.authenticationResponse (if param = [] then none else some param)
        (if param = [] ∧ eap ≠ [] then some eap else none)) := by
  have hbase : Ctor.authenticationResponseBase
      = .ok [some ⟨0, 0, [0x7E]⟩, some ⟨0, 0, [0x00]⟩, some ⟨0, 0, [0x57]⟩, none, none] := by decide +kernel
  obtain ⟨w, hw⟩ : ∃ w, wireOf layout_AuthenticationResponse = some w :=
    Option.isSome_iff_exists.mp (by decide +kernel)
  refine ⟨w, ?_⟩
  have hsk : skipOf layout_AuthenticationResponse = [] := by decide +kernel
  rcases h with h16 | ⟨hp, he⟩
  · have hne : param ≠ [] := by intro h; simp [h] at h16
    obtain ⟨bs, h1, h2⟩ := ctor_via_generic layout_AuthenticationResponse (by simp [Gen.Nas.layouts]) (by decide +kernel)
      (Ctor.authenticationResponse param eap)
      [some ⟨0, 0, [0x7E]⟩, some ⟨0, 0, [0x00]⟩, some ⟨0, 0, [0x57]⟩, some ⟨0x2D, 16, param⟩, none]
      (by simp [Ctor.authenticationResponse, hbase, h16, Ctor.setP, Ctor.setLen, newVal, sh_AuthenticationResponseParameter,
            Shape.zero, Body.size, idx_AuthenticationResponse_AuthenticationResponseParameter]
          rw [show param.take 16 = param by rw [← h16]; simp]
          exact copyInto_same 16 param h16)
      (by simp [specWF, msgWF, mandValsOK, optValsOK, specValsOK, layout_AuthenticationResponse, mandValOK, optValOK,
            specValOK, lenFits, sh_ExtendedProtocolDiscriminator, sh_SpareHalfOctetAndSecurityHeaderType,
            sh_AuthenticationResponseMessageIdentity, sh_AuthenticationResponseParameter, Body.size, h16, allZero,
            show param.drop 16 = [] from List.drop_eq_nil_of_le (by omega)])
      (by rw [hsk]; rfl) w hw
      (Intended.authenticationResponse (if param = [] then none else some param) (if param = [] ∧ eap ≠ [] then some eap else none))
      (by simp [toSpec, layout_AuthenticationResponse, mandToSpec, optToSpec, Intended.authenticationResponse,
            Intended.present, hne]
          rw [← h16]; simp)
    exact ⟨bs, hw, h1, h2⟩
  · subst hp
    by_cases hemp : eap = []
    · subst hemp
      obtain ⟨bs, h1, h2⟩ := ctor_via_generic layout_AuthenticationResponse (by simp [Gen.Nas.layouts]) (by decide +kernel)
        (Ctor.authenticationResponse [] [])
        [some ⟨0, 0, [0x7E]⟩, some ⟨0, 0, [0x00]⟩, some ⟨0, 0, [0x57]⟩, none, none]
        (by simp [Ctor.authenticationResponse, hbase])
        (by decide +kernel) (by rw [hsk]; rfl) w hw
        (Intended.authenticationResponse (if ([] : Bytes) = [] then none else some []) (if ([] : Bytes) = [] ∧ ([] : Bytes) ≠ [] then some [] else none))
        (by simp [toSpec, layout_AuthenticationResponse, mandToSpec, Intended.authenticationResponse, Intended.present])
      exact ⟨bs, hw, h1, h2⟩
    · have hpos : eap.length > 0 := by
        cases eap with
        | nil => exact absurd rfl hemp
        | cons _ _ => simp
      obtain ⟨bs, h1, h2⟩ := ctor_via_generic layout_AuthenticationResponse (by simp [Gen.Nas.layouts]) (by decide +kernel)
        (Ctor.authenticationResponse [] eap)
        [some ⟨0, 0, [0x7E]⟩, some ⟨0, 0, [0x00]⟩, some ⟨0, 0, [0x57]⟩, none, some ⟨0x78, eap.length, eap⟩]
        (by simp [Ctor.authenticationResponse, hbase, hpos, Ctor.setP,
              Ctor.bufIE_eq sh_EAPMessage 0x78 65536 eap _ rfl rfl (by omega) he, idx_AuthenticationResponse_EAPMessage])
        (by simp [specWF, msgWF, mandValsOK, optValsOK, specValsOK, layout_AuthenticationResponse, mandValOK, optValOK,
              specValOK, lenFits, sh_ExtendedProtocolDiscriminator, sh_SpareHalfOctetAndSecurityHeaderType,
              sh_AuthenticationResponseMessageIdentity, sh_EAPMessage, Body.size, he])
        (by rw [hsk]; rfl) w hw
        (Intended.authenticationResponse (if ([] : Bytes) = [] then none else some []) (if ([] : Bytes) = [] ∧ eap ≠ [] then some eap else none))
        (by simp [toSpec, layout_AuthenticationResponse, mandToSpec, optToSpec, Intended.authenticationResponse,
              Intended.present, hemp])
      exact ⟨bs, hw, h1, h2⟩

/-- `GetDeregistrationRequest`: access type, switch-off flag, re-registration not required, native key set identifier
    (even identifiers: the emulator passes 4; odd ones are F25), the mobile identity contents -/
theorem C09_ctor_deregistrationRequest (acc sw ksi : Nat) (mi : Val) (ha : acc < 4) (hs : sw < 2) (hk : ksi < 8)
    (hev : ksi % 2 = 0) (hl : mi.len = mi.data.length) (hlt : mi.data.length < 65536) :
    ∃ w bs, wireOf layout_DeregistrationRequestUEOriginatingDeregistration = some w ∧
      Ctor.encodeWith layout_DeregistrationRequestUEOriginatingDeregistration
        (Ctor.deregistrationRequest (UInt8.ofNat acc) (UInt8.ofNat sw) (UInt8.ofNat ksi) mi) = .ok bs ∧
      parse w bs = some (Intended.deregistrationRequest acc sw ksi mi.data) := by
  have hbase := deregBase_eval acc ha sw hs (ksi / 2) (by omega)
  rw [show 2 * (ksi / 2) = ksi by omega] at hbase
  obtain ⟨w, hw⟩ : ∃ w, wireOf layout_DeregistrationRequestUEOriginatingDeregistration = some w :=
    Option.isSome_iff_exists.mp (by decide +kernel)
  refine ⟨w, ?_⟩
  have hsk : skipOf layout_DeregistrationRequestUEOriginatingDeregistration = [] := by decide +kernel
  obtain ⟨bs, h1, h2⟩ := ctor_via_generic layout_DeregistrationRequestUEOriginatingDeregistration
    (by simp [Gen.Nas.layouts]) (by decide +kernel)
    (Ctor.deregistrationRequest (UInt8.ofNat acc) (UInt8.ofNat sw) (UInt8.ofNat ksi) mi)
    [some ⟨0, 0, [0x7E]⟩, some ⟨0, 0, [0x00]⟩, some ⟨0, 0, [0x45]⟩,
     some ⟨0, 0, Intended.halves (Intended.deregType sw 0 acc) (Intended.ngKSI 0 ksi)⟩, some ⟨0, mi.data.length, mi.data⟩]
    (by simp [Ctor.deregistrationRequest, hbase, Ctor.updF, Ctor.ok1, Ctor.setContents, Ctor.setLenBuf,
          idx_DeregistrationRequestUEOriginatingDeregistration_MobileIdentity5GS, hl, Ctor.copyInto_replicate])
    (by simp [specWF, msgWF, mandValsOK, optValsOK, specValsOK, layout_DeregistrationRequestUEOriginatingDeregistration,
          mandValOK, specValOK, lenFits, sh_ExtendedProtocolDiscriminator, sh_SpareHalfOctetAndSecurityHeaderType,
          sh_DeregistrationRequestMessageIdentity, sh_NgksiAndDeregistrationType, sh_MobileIdentity5GS, Body.size, hlt,
          Intended.halves])
    (by rw [hsk]; rfl) w hw (Intended.deregistrationRequest acc sw ksi mi.data)
    (by simp [toSpec, layout_DeregistrationRequestUEOriginatingDeregistration, mandToSpec, Intended.deregistrationRequest])
  exact ⟨bs, hw, h1, h2⟩
/-- a buffer IE struct argument that denotes (iei, value) -/
def bufArgOK (iei w : Nat) (v : Option Val) : Prop :=
  ∀ x, v = some x → x.iei = iei ∧ x.len = x.data.length ∧ x.data.length < w

set_option maxHeartbeats 1600000 in
theorem C09_ctor_registrationRequest (rt : Nat) (mi : Val) (nssai sec cap : Option Val) (nmc : Option Bytes) (uds : Option Val)
    (hrt : rt < 8) (hmi : mi.iei = 0 ∧ mi.len = mi.data.length ∧ mi.data.length < 65536)
    (hn : bufArgOK 0x2F 256 nssai) (hs : bufArgOK 0x2E 256 sec) (hu : bufArgOK 0x40 256 uds)
    (hc : ∀ x, cap = some x → x.iei = 0x10 ∧ x.len ≤ 13 ∧ x.data.length = 13 ∧ allZero (x.data.drop x.len) = true)
    (hm : ∀ c, nmc = some c → c.length < 65536) :
    ∃ w bs, wireOf layout_RegistrationRequest = some w ∧
      Ctor.encodeWith layout_RegistrationRequest
        (Ctor.registrationRequest (UInt8.ofNat rt) mi nssai sec cap nmc uds) = .ok bs ∧
      parse w bs = some (Intended.registrationRequest rt mi.data (nssai.map (·.data)) (sec.map (·.data))
        (cap.map fun x => x.data.take x.len) nmc (uds.map (·.data))) := by
  have hbase := regReqBase_eval rt hrt
  obtain ⟨w, hw⟩ : ∃ w, wireOf layout_RegistrationRequest = some w :=
    Option.isSome_iff_exists.mp (by decide +kernel)
  have hwo : w.opt = (((tableByName "RegistrationRequest").bind (·.wire)).map (·.opt)).getD [] := by
    have : wireOf layout_RegistrationRequest = (tableByName "RegistrationRequest").bind (·.wire) := by decide +kernel
    rw [← this, hw]; rfl
  refine ⟨w, ?_⟩
  have hsk : skipOf layout_RegistrationRequest = [9] := by decide +kernel
  obtain ⟨hmi1, hmi2, hmi3⟩ := hmi
  let msg : Msg :=
    [some ⟨0, 0, [0x7E]⟩, some ⟨0, 0, [0x00]⟩, some ⟨0, 0, [0x41]⟩,
     some ⟨0, 0, Intended.halves (Intended.regType 1 rt) (Intended.ngKSI 0 7)⟩, some mi,
     none, cap, sec, nssai, none, none, uds, none, none, none, none, none, none, none, none, none, none, none, none,
     nmc.map fun c => ⟨0x71, c.length, c⟩]
  have hmodel : Ctor.registrationRequest (UInt8.ofNat rt) mi nssai sec cap nmc uds = .ok msg := by
    cases nmc with
    | none => simp [msg, Ctor.registrationRequest, hbase, regBaseMsg, Ctor.setP, idx_RegistrationRequest_MobileIdentity5GS,
        idx_RegistrationRequest_UESecurityCapability, idx_RegistrationRequest_Capability5GMM, idx_RegistrationRequest_RequestedNSSAI,
        idx_RegistrationRequest_UplinkDataStatus, List.replicate]
    | some c => simp [msg, Ctor.registrationRequest, hbase, regBaseMsg, Ctor.setP, idx_RegistrationRequest_MobileIdentity5GS,
        idx_RegistrationRequest_UESecurityCapability, idx_RegistrationRequest_Capability5GMM, idx_RegistrationRequest_RequestedNSSAI,
        idx_RegistrationRequest_UplinkDataStatus, idx_RegistrationRequest_NASMessageContainer, List.replicate,
        Ctor.bufIE_eq sh_NASMessageContainer 0x71 65536 c _ rfl rfl (by omega) (hm c rfl)]
  have hskips : skips msg (skipOf layout_RegistrationRequest) = true := by rw [hsk]; simp [skips, msg]
  have hwf : specWF layout_RegistrationRequest msg = true := by
    simp only [specWF, msgWF, Bool.and_eq_true, beq_iff_eq]
    refine ⟨⟨⟨⟨?_, ?_⟩, ?_⟩, ?_⟩, ?_⟩
    · rfl
    · simp [msg, layout_RegistrationRequest, mandValsOK, mandValOK, lenFits, sh_ExtendedProtocolDiscriminator,
        sh_SpareHalfOctetAndSecurityHeaderType, sh_RegistrationRequestMessageIdentity, sh_NgksiAndRegistrationType5GS,
        sh_MobileIdentity5GS, Body.size, Intended.halves, hmi1, hmi2, hmi3]
    · simp [msg, layout_RegistrationRequest, optValsOK]
      refine ⟨?_, ?_, ?_, ?_, ?_⟩
      · cases cap with
        | none => rfl
        | some x =>
          obtain ⟨a, b, c, d⟩ := hc x rfl
          simp [optValOK, lenFits, sh_Capability5GMM, Body.size, a, b, c, d]; omega
      · cases sec with
        | none => rfl
        | some x => obtain ⟨a, b, c⟩ := hs x rfl; simp [optValOK, lenFits, sh_UESecurityCapability, a, b, c]
      · cases nssai with
        | none => rfl
        | some x => obtain ⟨a, b, c⟩ := hn x rfl; simp [optValOK, lenFits, sh_RequestedNSSAI, a, b, c]
      · cases uds with
        | none => rfl
        | some x => obtain ⟨a, b, c⟩ := hu x rfl; simp [optValOK, lenFits, sh_UplinkDataStatus, a, b, c]
      · cases nmc with
        | none => rfl
        | some c => simp [optValOK, lenFits, sh_NASMessageContainer, hm c rfl]
    · simp [msg, layout_RegistrationRequest, specValsOK, specValOK]
    · simp [msg, layout_RegistrationRequest, specValsOK, specValOK]
      refine ⟨?_, ?_, ?_, ?_, ?_⟩ <;> (split <;> rfl)
  have hto : toSpec layout_RegistrationRequest w msg = Intended.registrationRequest rt mi.data (nssai.map (·.data)) (sec.map (·.data))
        (cap.map fun x => x.data.take x.len) nmc (uds.map (·.data)) := by
    simp [msg, toSpec, layout_RegistrationRequest, mandToSpec, Intended.registrationRequest, List.filterMap_cons]
    cases cap <;> cases sec <;> cases nssai <;> cases uds <;> cases nmc <;>
      simp [optToSpec, Intended.present]
  obtain ⟨bs, h1, h2⟩ := ctor_via_generic layout_RegistrationRequest (by simp [Gen.Nas.layouts]) (by decide +kernel)
    _ msg hmodel hwf hskips w hw _ hto
  exact ⟨bs, hw, h1, h2⟩
/-- the shared UL NAS TRANSPORT wrapper with request type, DNN and S-NSSAI: for every payload below 64 KiB, PDU session
    identity, request type value, single-label DNN of at most 99 octets (or none) and S-NSSAI with SST and 3-octet SD
    (or none), the bytes parse to: EPD 5GMM, plain, UL NAS TRANSPORT, payload container type N1 SM information, the
    payload, PDU session ID, request type, S-NSSAI (SST ‖ SD), DNN (length-prefixed label) -/
theorem C09_ctor_ulNasTransport (payload : Bytes) (psi rt : Nat) (dnn : Bytes) (sn : Option (Nat × UInt8 × UInt8 × UInt8))
    (hpsi : psi < 256) (hrt : rt < 8) (hp : payload.length < 65536)
    (hd : dnn.length ≤ 99 ∧ ∀ c ∈ dnn, c ≠ 0x2E) (hs : ∀ x, sn = some x → x.1 < 256) :
    ∃ w bs, wireOf layout_ULNASTransport = some w ∧
      Ctor.encodeWith layout_ULNASTransport (Ctor.ulNasTransport payload (UInt8.ofNat psi) true (UInt8.ofNat rt) dnn
        (sn.map fun x => ⟨UInt8.ofNat x.1, [x.2.1, x.2.2.1, x.2.2.2]⟩)) = .ok bs ∧
      parse w bs = some (Intended.ulNasTransport payload psi (some rt) dnn
        (sn.map fun x => (x.1, [x.2.1, x.2.2.1, x.2.2.2]))) := by
  obtain ⟨w, hw⟩ : ∃ w, wireOf layout_ULNASTransport = some w := Option.isSome_iff_exists.mp (by decide +kernel)
  refine ⟨w, ?_⟩
  have hsk : skipOf layout_ULNASTransport = [] := by decide +kernel
  have hwo : w.opt.find? (fun x => x.iei == 0x12) = some ⟨0x12, .tv 1, 1, some 1⟩ := by
    have : (wireOf layout_ULNASTransport).map (fun w => w.opt.find? (fun x => x.iei == 0x12)) = some (some ⟨0x12, .tv 1, 1, some 1⟩) := by
      decide +kernel
    rw [hw] at this; simpa using this
  let snIE : Option Val := sn.map fun x => ⟨0x22, 4, [UInt8.ofNat x.1, x.2.1, x.2.2.1, x.2.2.2, 0, 0, 0, 0]⟩
  let dnnIE : Option Val := if dnn.isEmpty then none else some (Ctor.ulDnnIE dnn)
  let msg : Msg :=
    [some ⟨0, 0, [0x7E]⟩, some ⟨0, 0, [0x00]⟩, some ⟨0, 0, [0x67]⟩, some ⟨0, 0, [0x01]⟩, some ⟨0, payload.length, payload⟩,
     some ⟨0x12, 0, [UInt8.ofNat psi]⟩, none, some ⟨0, 0, [UInt8.ofNat (0x80 + rt)]⟩, snIE, dnnIE, none]
  have hmodel : Ctor.ulNasTransport payload (UInt8.ofNat psi) true (UInt8.ofNat rt) dnn
        (sn.map fun x => ⟨UInt8.ofNat x.1, [x.2.1, x.2.2.1, x.2.2.2]⟩) = .ok msg := by
    simp only [Ctor.ulNasTransport, ulHead_eval psi hpsi, ulRequestType_eval rt hrt, if_true]
    cases sn with
    | none =>
      by_cases hde : dnn.isEmpty = true
      · simp [hde, Ctor.setP, idx_ULNASTransport_RequestType]
        rw [ulTail_eval _ payload (by rfl) (by rfl) hp]
        simp [msg, snIE, dnnIE, hde]
      · simp [hde, Ctor.setP, idx_ULNASTransport_RequestType, idx_ULNASTransport_DNN]
        rw [ulTail_eval _ payload (by rfl) (by rfl) hp]
        simp [msg, snIE, dnnIE, hde]
    | some x =>
      by_cases hde : dnn.isEmpty = true
      · simp [hde, Ctor.setP, idx_ULNASTransport_RequestType, ulSnssai_eval, idx_ULNASTransport_SNSSAI]
        rw [ulTail_eval _ payload (by rfl) (by rfl) hp]
        simp [msg, snIE, dnnIE, hde]
      · simp [hde, Ctor.setP, idx_ULNASTransport_RequestType, idx_ULNASTransport_DNN, ulSnssai_eval, idx_ULNASTransport_SNSSAI]
        rw [ulTail_eval _ payload (by rfl) (by rfl) hp]
        simp [msg, snIE, dnnIE, hde]
  have hskips : skips msg (skipOf layout_ULNASTransport) = true := by rw [hsk]; rfl
  have hrt8 : (UInt8.ofNat (0x80 + rt)).toNat / 16 = 8 := by
    rw [toNat_ofNat_lt (by omega)]; omega
  have hwf : specWF layout_ULNASTransport msg = true := by
    simp only [specWF, msgWF, Bool.and_eq_true, beq_iff_eq]
    refine ⟨⟨⟨⟨?_, ?_⟩, ?_⟩, ?_⟩, ?_⟩
    · rfl
    · simp [msg, layout_ULNASTransport, mandValsOK, mandValOK, lenFits, sh_ExtendedProtocolDiscriminator,
        sh_SpareHalfOctetAndSecurityHeaderType, sh_ULNASTRANSPORTMessageIdentity, sh_SpareHalfOctetAndPayloadContainerType,
        sh_PayloadContainer, Body.size, hp]
    · simp [msg, layout_ULNASTransport, optValsOK]
      refine ⟨?_, ?_, ?_, ?_⟩
      · simp [optValOK, sh_PduSessionID2Value, Body.size]
      · simp [optValOK]; omega
      · cases sn with
        | none => rfl
        | some x => simp [snIE, optValOK, lenFits, sh_SNSSAI, Body.size, allZero]
      · by_cases hde : dnn.isEmpty = true
        · simp [dnnIE, hde]
        · simp [dnnIE, hde, optValOK, lenFits, sh_DNN, Ctor.ulDnnIE]
          omega
    · simp [msg, layout_ULNASTransport, specValsOK, specValOK]
    · simp [msg, layout_ULNASTransport, specValsOK, specValOK]
      refine ⟨?_, ?_⟩ <;> (split <;> rfl)
  have hto : toSpec layout_ULNASTransport w msg = Intended.ulNasTransport payload psi (some rt) dnn
        (sn.map fun x => (x.1, [x.2.1, x.2.2.1, x.2.2.2])) := by
    have hrtv : UInt8.ofNat ((UInt8.ofNat (0x80 + rt)).toNat % 16) = Intended.u8 (rt % 8) := by
      rw [toNat_ofNat_lt (by omega)]
      simp only [Intended.u8]
      congr 1; omega
    simp [msg, toSpec, layout_ULNASTransport, mandToSpec, Intended.ulNasTransport, Intended.halves, Intended.u8,
      List.filterMap_cons, optToSpec, hwo]
    refine ⟨?_, ?_⟩
    · simpa [Intended.u8] using hrtv
    · cases sn with
      | none =>
        by_cases hde : dnn = []
        · simp [snIE, dnnIE, hde]
        · simp [snIE, dnnIE, hde, optToSpec, Ctor.ulDnnIE, dnnLabels_nodot dnn hd.2, Intended.u8]
      | some x =>
        by_cases hde : dnn = []
        · simp [snIE, dnnIE, hde, optToSpec, Intended.u8]
        · simp [snIE, dnnIE, hde, optToSpec, Ctor.ulDnnIE, dnnLabels_nodot dnn hd.2, Intended.u8]
  obtain ⟨bs, h1, h2⟩ := ctor_via_generic layout_ULNASTransport (by simp [Gen.Nas.layouts]) (by decide +kernel)
    _ msg hmodel hwf hskips w hw _ hto
  exact ⟨bs, hw, h1, h2⟩

/-- what the three wrapped 5GSM constructors put into the payload container -/
theorem ul_inner_eval : ∀ psi < 256,
    Ctor.encodeWith layout_PDUSessionEstablishmentRequest (Ctor.pduSessionEstablishmentRequest (UInt8.ofNat psi)) =
      .ok ([0x2E, UInt8.ofNat psi, 0x01, 0xC1, 0xFF, 0xFF, 0x91, 0x7B, 0x00, 0x0A] ++ Intended.pco) ∧
    Ctor.encodeWith layout_PDUSessionModificationRequest (Ctor.pduSessionModificationRequest (UInt8.ofNat psi)) =
      .ok [0x2E, UInt8.ofNat psi, 0x01, 0xC9] ∧
    Ctor.encodeWith layout_PDUSessionReleaseComplete (Ctor.pduSessionReleaseComplete (UInt8.ofNat psi)) =
      .ok [0x2E, UInt8.ofNat psi, 0x01, 0xD4] := by
  decide +kernel

/-- the establishment request inside the container is the standard's encoding of the intended inner message -/
theorem ul_inner_establishment_spec : ∀ psi < 256,
    ((tableByName "PDUSessionEstablishmentRequest").bind (·.wire)).bind
        (Spec.Ts24501.encode · (Intended.pduSessionEstablishmentRequest psi 1)) =
      some ([0x2E, UInt8.ofNat psi, 0x01, 0xC1, 0xFF, 0xFF, 0x91, 0x7B, 0x00, 0x0A] ++ Intended.pco) := by
  decide +kernel

/-- `GetUlNasTransport_PduSessionEstablishmentRequest` -/
theorem C09_ctor_ulEstablishment (psi rt : Nat) (dnn : Bytes) (sn : Option (Nat × UInt8 × UInt8 × UInt8))
    (hpsi : psi < 256) (hrt : rt < 8) (hd : dnn.length ≤ 99 ∧ ∀ c ∈ dnn, c ≠ 0x2E) (hs : ∀ x, sn = some x → x.1 < 256) :
    ∃ w bs, wireOf layout_ULNASTransport = some w ∧
      Ctor.encodeWith layout_ULNASTransport (Ctor.ulEstablishment (UInt8.ofNat psi) (UInt8.ofNat rt) dnn
        (sn.map fun x => ⟨UInt8.ofNat x.1, [x.2.1, x.2.2.1, x.2.2.2]⟩)) = .ok bs ∧
      parse w bs = some (Intended.ulNasTransport
        ([0x2E, UInt8.ofNat psi, 0x01, 0xC1, 0xFF, 0xFF, 0x91, 0x7B, 0x00, 0x0A] ++ Intended.pco) psi (some rt) dnn
        (sn.map fun x => (x.1, [x.2.1, x.2.2.1, x.2.2.2]))) := by
  have h := (ul_inner_eval psi hpsi).1
  simp only [Ctor.ulEstablishment, h]
  exact C09_ctor_ulNasTransport _ psi rt dnn sn hpsi hrt (by simp [Intended.pco]) hd hs

/-- `GetUlNasTransport_PduSessionModificationRequest`: as intended, the inner message with PTI 1 (since the F19 repair) -/
theorem C09_ctor_ulModification (psi rt : Nat) (dnn : Bytes) (sn : Option (Nat × UInt8 × UInt8 × UInt8))
    (hpsi : psi < 256) (hrt : rt < 8) (hd : dnn.length ≤ 99 ∧ ∀ c ∈ dnn, c ≠ 0x2E) (hs : ∀ x, sn = some x → x.1 < 256) :
    ∃ w bs, wireOf layout_ULNASTransport = some w ∧
      Ctor.encodeWith layout_ULNASTransport (Ctor.ulModification (UInt8.ofNat psi) (UInt8.ofNat rt) dnn
        (sn.map fun x => ⟨UInt8.ofNat x.1, [x.2.1, x.2.2.1, x.2.2.2]⟩)) = .ok bs ∧
      parse w bs = some (Intended.ulNasTransport [0x2E, UInt8.ofNat psi, 0x01, 0xC9] psi (some rt) dnn
        (sn.map fun x => (x.1, [x.2.1, x.2.2.1, x.2.2.2]))) := by
  have h := (ul_inner_eval psi hpsi).2.1
  simp only [Ctor.ulModification, h]
  exact C09_ctor_ulNasTransport _ psi rt dnn sn hpsi hrt (by simp) hd hs

/-- `GetUlNasTransport_PduSessionReleaseComplete`: as intended, the inner message with PTI 1 (since the F19 repair) -/
theorem C09_ctor_ulReleaseComplete (psi rt : Nat) (dnn : Bytes) (sn : Option (Nat × UInt8 × UInt8 × UInt8))
    (hpsi : psi < 256) (hrt : rt < 8) (hd : dnn.length ≤ 99 ∧ ∀ c ∈ dnn, c ≠ 0x2E) (hs : ∀ x, sn = some x → x.1 < 256) :
    ∃ w bs, wireOf layout_ULNASTransport = some w ∧
      Ctor.encodeWith layout_ULNASTransport (Ctor.ulReleaseComplete (UInt8.ofNat psi) (UInt8.ofNat rt) dnn
        (sn.map fun x => ⟨UInt8.ofNat x.1, [x.2.1, x.2.2.1, x.2.2.2]⟩)) = .ok bs ∧
      parse w bs = some (Intended.ulNasTransport [0x2E, UInt8.ofNat psi, 0x01, 0xD4] psi (some rt) dnn
        (sn.map fun x => (x.1, [x.2.1, x.2.2.1, x.2.2.2]))) := by
  have h := (ul_inner_eval psi hpsi).2.2
  simp only [Ctor.ulReleaseComplete, h]
  exact C09_ctor_ulNasTransport _ psi rt dnn sn hpsi hrt (by simp) hd hs

end

end Stgutg.Props.C09
