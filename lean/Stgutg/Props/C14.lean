/- C14 property theorems (under construction) -/
import Stgutg.Model.AperDec
import Stgutg.Gen.NgapSchema
namespace Stgutg.Props.C14
end Stgutg.Props.C14
