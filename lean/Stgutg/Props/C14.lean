/-
  C14 — NGAP decoding is total: error or value, never a crash or hang.
  Model: Stgutg.Model.AperDec (aper.go parseField & helpers) over the schema regenerated from
  src/free5gclib/ngap/ngapType/*.go (Stgutg.Gen.NgapSchema). Helper lemmas: Stgutg/Proofs/AperTotal.lean.
-/
import Stgutg.Proofs.AperTotal
import Stgutg.Gen.NgapSchema

namespace Stgutg.Props.C14
open Stgutg Stgutg.Aper Stgutg.Proofs.AperTotal

/-- fuel used by the driver and the theorems: above the nesting measure of every type of the schema;
    it depends on the schema only, never on the input -/
def fuel : Nat := 8 * (Gen.Ngap.schema.length + 1) + 1

set_option maxRecDepth 1000000 in
/-- Table fact, re-decided on every run over the regenerated schema (1 431 struct types): struct ids are
    topologically ordered with nesting measure decreasing along fields, no size constraint fixes an empty
    string (that would make `GetBitString(…, 0)` trap), and no open-type reference field reaches an empty struct. -/
theorem schema_ok : envOK Gen.Ngap.schema = true := by decide +kernel

set_option maxRecDepth 1000000 in
theorem pdu_in_schema : Gen.Ngap.pduId < Gen.Ngap.schema.length := by decide +kernel

theorem fuel_gt (id : Nat) (h : id < Gen.Ngap.schema.length) : tyDepth (.struct id) < fuel := by
  show 8 * (id + 1) < 8 * (Gen.Ngap.schema.length + 1) + 1
  omega

theorem decoder_params_ok : sizeOK Gen.Ngap.decoderParams = true := by decide

/-- **C14 (no crash, no hang)**: for EVERY byte string, `ngap.Decoder` (model) returns a PDU or an error:
    it never panics and never runs out of the schema-determined fuel (so the recursion depth and the number
    of loop iterations are bounded independently of the counts and lengths the input claims). -/
theorem decoder_total (bs : Bytes) :
    unmarshal Gen.Ngap.schema fuel (.struct Gen.Ngap.pduId) Gen.Ngap.decoderParams bs ≠ .error .panic ∧
    unmarshal Gen.Ngap.schema fuel (.struct Gen.Ngap.pduId) Gen.Ngap.decoderParams bs ≠ .error .hang :=
  unmarshal_good Gen.Ngap.schema schema_ok fuel _ _ (fuel_gt _ pdu_in_schema) decoder_params_ok bs

/-- the same for every struct type of the schema used as a top-level type with any parameter string whose
    size constraint is not the empty fixed size (the transfer containers are decoded with "valueExt") -/
theorem unmarshal_total (id : Nat) (hid : id < Gen.Ngap.schema.length) (params : Params) (hp : sizeOK params = true)
    (bs : Bytes) :
    unmarshal Gen.Ngap.schema fuel (.struct id) params bs ≠ .error .panic ∧
    unmarshal Gen.Ngap.schema fuel (.struct id) params bs ≠ .error .hang :=
  unmarshal_good Gen.Ngap.schema schema_ok fuel _ _ (fuel_gt _ hid) hp bs

/-- decoding never "un-reads": the reader only moves forward (basis of the loop bounds) -/
theorem decoder_consumes (bs : Bytes) (v : Val) (r' : Rd)
    (h : decField Gen.Ngap.schema fuel (.struct Gen.Ngap.pduId) Gen.Ngap.decoderParams (Rd.ofBytes bs) = .ok (v, r')) :
    r'.len ≤ 8 * bs.length := by
  have hd : tyDepth (.struct Gen.Ngap.pduId) < fuel := fuel_gt _ pdu_in_schema
  exact (DOK_decField Gen.Ngap.schema schema_ok fuel _ _ hd decoder_params_ok (Rd.ofBytes bs)).2 v r' h

/-- non-vacuity: a concrete 7-octet input (NGSetupResponse with an empty IE list) is decoded to a value -/
example : (match unmarshal Gen.Ngap.schema 400 (.struct Gen.Ngap.pduId) Gen.Ngap.decoderParams
    [0x20, 0x15, 0x00, 0x03, 0x00, 0x00, 0x00] with | .ok _ => true | .error _ => false) = true := by
  decide +kernel

end Stgutg.Props.C14
