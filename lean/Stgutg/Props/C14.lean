/-
  C14 — NGAP decoding is total: error or value, never a crash or hang.
  Model: Stgutg.Model.AperDec (aper.go parseField & helpers) over the schema regenerated from
  src/free5gclib/ngap/ngapType/*.go (Stgutg.Gen.NgapSchema). Helper lemmas: Stgutg/Proofs/AperTotal.lean.
  Cost (allocation / steps): instrumented model Stgutg.Model.AperDecCost, lemmas Stgutg/Proofs/AperCost*.lean.
-/
import Stgutg.Proofs.AperTotal
import Stgutg.Proofs.AperCostTab
import Stgutg.Proofs.AperCostTabAlloc
import Stgutg.Proofs.AperCostTabSteps
import Stgutg.Gen.NgapSchema

namespace Stgutg.Props.C14
open Stgutg Stgutg.Aper Stgutg.Proofs.AperTotal Stgutg.Proofs.AperCost

/-- fuel used by the driver and the theorems: above the nesting measure of every type of the schema;
    it depends on the schema only, never on the input -/
def fuel : Nat := 8 * (Gen.Ngap.schema.length + 1) + 1

set_option maxRecDepth 1000000 in
/-- Table fact, re-decided on every run over the regenerated schema (1 431 struct types): struct ids are
    topologically ordered with nesting measure decreasing along fields, no size constraint fixes an empty
    string (that would make `GetBitString(…, 0)` trap), and no open-type reference field reaches an empty struct. -/
theorem schema_ok : envOK Gen.Ngap.schema = true := by decide +kernel

set_option maxRecDepth 1000000 in
theorem pdu_in_schema : Gen.Ngap.pduId < Gen.Ngap.schema.length := by decide +kernel

theorem fuel_gt (id : Nat) (h : id < Gen.Ngap.schema.length) : tyDepth (.struct id) < fuel := by
  show 8 * (id + 1) < 8 * (Gen.Ngap.schema.length + 1) + 1
  omega

theorem decoder_params_ok : sizeOK Gen.Ngap.decoderParams = true := by decide

/-- **C14 (no crash, no hang)**: for EVERY byte string, `ngap.Decoder` (model) returns a PDU or an error:
    it never panics and never runs out of the schema-determined fuel (so the recursion depth and the number
    of loop iterations are bounded independently of the counts and lengths the input claims). -/
theorem decoder_total (bs : Bytes) :
    unmarshal Gen.Ngap.schema fuel (.struct Gen.Ngap.pduId) Gen.Ngap.decoderParams bs ≠ .error .panic ∧
    unmarshal Gen.Ngap.schema fuel (.struct Gen.Ngap.pduId) Gen.Ngap.decoderParams bs ≠ .error .hang :=
  unmarshal_good Gen.Ngap.schema schema_ok fuel _ _ (fuel_gt _ pdu_in_schema) decoder_params_ok bs

/-- the same for every struct type of the schema used as a top-level type with any parameter string whose
    size constraint is not the empty fixed size (the transfer containers are decoded with "valueExt") -/
theorem unmarshal_total (id : Nat) (hid : id < Gen.Ngap.schema.length) (params : Params) (hp : sizeOK params = true)
    (bs : Bytes) :
    unmarshal Gen.Ngap.schema fuel (.struct id) params bs ≠ .error .panic ∧
    unmarshal Gen.Ngap.schema fuel (.struct id) params bs ≠ .error .hang :=
  unmarshal_good Gen.Ngap.schema schema_ok fuel _ _ (fuel_gt _ hid) hp bs

/-- decoding never "un-reads": the reader only moves forward (basis of the loop bounds) -/
theorem decoder_consumes (bs : Bytes) (v : Val) (r' : Rd)
    (h : decField Gen.Ngap.schema fuel (.struct Gen.Ngap.pduId) Gen.Ngap.decoderParams (Rd.ofBytes bs) = .ok (v, r')) :
    r'.len ≤ 8 * bs.length := by
  have hd : tyDepth (.struct Gen.Ngap.pduId) < fuel := fuel_gt _ pdu_in_schema
  exact (DOK_decField Gen.Ngap.schema schema_ok fuel _ _ hd decoder_params_ok (Rd.ofBytes bs)).2 v r' h

/-- non-vacuity: a concrete 7-octet input (NGSetupResponse with an empty IE list) is decoded to a value -/
example : (match unmarshal Gen.Ngap.schema 400 (.struct Gen.Ngap.pduId) Gen.Ngap.decoderParams
    [0x20, 0x15, 0x00, 0x03, 0x00, 0x00, 0x00] with | .ok _ => true | .error _ => false) = true := by
  decide +kernel


/-! ## Allocation and time are bounded by the input size and the schema's own list-size limits

  `unmarshalCost` (Model/AperDecCost.lean) is the decoder model in a monad that counts — also when the result is an
  error — `alloc`: the elements passed to `reflect.MakeSlice` (`parseSequenceOf` allocates the announced count BEFORE
  reading any element) plus the octets copied into OCTET STRING / BIT STRING / open-type buffers, and `steps`: the
  number of `parseField` entries.

  Why the bounds hold (Proofs/AperCost*.lean): every `MakeSlice` count is at most a constant of the schema
  (`sliceCount_le`: a constrained count is a ≤ 16-bit field plus lb — the value read is not checked against the
  range, hence 65 536 rather than 65 535 for `SIZE(1..65535)`; a general length is < 16 384, fragments are refused);
  every list element consumes at least one bit when it decodes (the table refuses a schema where this is not
  evident: extension bit, OPTIONAL bitmap, CHOICE index, non-degenerate INTEGER/ENUMERATED, fixed-size string), so a
  list that COMPLETES has at most as many elements as bits it consumed and only the lists on the current path can be
  over-claimed; string and open-type copies are bounded by the bits read because `takeOctets n` fails when fewer
  than n octets remain; the inner value of an open type is decoded from a buffer that was itself read from the input.
  The table (`costTab`, one pass, decided by the kernel) gives per type `(q, p, s)` with
      cost ≤ q + p·(bits of input) + s.
  Bytes and nanoseconds of the Go runtime (element size × `alloc`, time per step) are runtime behaviour: measured per
  call by the harness (evidence.measurements), not proved. For scale: DESIGN.md measured 3.7–11.6 MB for a 7-octet
  input announcing 65 535 IEs (one over-claimed list); the budget below allows four such lists on one path.
-/

/-- **projection**: the instrumented decoder without its counters is the decoder model of `decoder_total`
    (which the differential runs tie to aper.go) -/
theorem cost_model_projection (env : Env) (fuel : Nat) (ty : Ty) (params : Params) (bs : Bytes) :
    (unmarshalCost env fuel ty params bs).1 = unmarshal env fuel ty params bs :=
  unmarshalCost_fst env fuel ty params bs

/-- Table facts, re-decided on every run over the regenerated schema -/
theorem alloc_table :
    costSummary 0 1 Gen.Ngap.schema (.struct Gen.Ngap.pduId) Gen.Ngap.decoderParams =
      some (⟨0, 9, 262143, true⟩, 0, 9, 262143) := ngap_alloc_summary

theorem steps_table :
    costSummary 1 0 Gen.Ngap.schema (.struct Gen.Ngap.pduId) Gen.Ngap.decoderParams =
      some (⟨206, 296, 0, true⟩, 205, 296, 0) := ngap_steps_summary

/-- the generic theorem behind the bounds: for every schema whose cost table is accepted, every covered type, every
    fuel and EVERY byte string, `ws·steps + wa·alloc ≤ q + p·(8·|bs|) + s` -/
theorem cost_bound (env : Env) (ws wa : Nat) (ty : Ty) (p : Params) (e : CEntry)
    (h : topCost ws wa env ty p = some e) (fuel : Nat) (bs : Bytes) :
    ws * (unmarshalCost env fuel ty p bs).2.steps + wa * (unmarshalCost env fuel ty p bs).2.alloc ≤
      e.q + e.p * (8 * bs.length) + e.s :=
  unmarshalCost_bound env ws wa ty p e h fuel bs

/-- **C14 (allocation)**: for EVERY byte string, whatever counts and lengths it claims, `ngap.Decoder` (model)
    passes at most `9·(8·|bs|) + 262 143` elements/octets to `MakeSlice` and to its string / open-type buffers —
    linear in the input, plus the schema's own list-size limits along one path (4 nested lists) -/
theorem C14_alloc_bound (fuel : Nat) (bs : Bytes) :
    (unmarshalCost Gen.Ngap.schema fuel (.struct Gen.Ngap.pduId) Gen.Ngap.decoderParams bs).2.alloc ≤
      9 * (8 * bs.length) + 262143 := by
  have h := (costSummary_spec _ _ _ _ _ _ _ _ _ alloc_table).1
  have := unmarshalCost_bound Gen.Ngap.schema 0 1 _ _ _ h fuel bs
  simp only [cst] at this
  omega

/-- **C14 (time proxy)**: for EVERY byte string the decoder enters `parseField` at most `206 + 296·(8·|bs|)` times -/
theorem C14_step_bound (fuel : Nat) (bs : Bytes) :
    (unmarshalCost Gen.Ngap.schema fuel (.struct Gen.Ngap.pduId) Gen.Ngap.decoderParams bs).2.steps ≤
      206 + 296 * (8 * bs.length) := by
  have h := (costSummary_spec _ _ _ _ _ _ _ _ _ steps_table).1
  have := unmarshalCost_bound Gen.Ngap.schema 1 0 _ _ _ h fuel bs
  simp only [cst] at this
  omega

/-- the same for every struct type of the schema decoded on its own (the transfer containers, "valueExt") -/
theorem C14_alloc_bound_any (fuel id : Nat) (params : Params) (hot : params.openType = false) (bs : Bytes) :
    (unmarshalCost Gen.Ngap.schema fuel (.struct id) params bs).2.alloc ≤ 9 * (8 * bs.length) + 262143 := by
  obtain ⟨tab, ht, hm⟩ := (costSummary_spec _ _ _ _ _ _ _ _ _ alloc_table).2
  have := unmarshalCost_bound_any Gen.Ngap.schema 0 1 tab ht id params hot fuel bs
  rw [hm] at this
  simp only [cst] at this
  omega

theorem C14_step_bound_any (fuel id : Nat) (params : Params) (hot : params.openType = false) (bs : Bytes) :
    (unmarshalCost Gen.Ngap.schema fuel (.struct id) params bs).2.steps ≤ 206 + 296 * (8 * bs.length) := by
  obtain ⟨tab, ht, hm⟩ := (costSummary_spec _ _ _ _ _ _ _ _ _ steps_table).2
  have := unmarshalCost_bound_any Gen.Ngap.schema 1 0 tab ht id params hot fuel bs
  rw [hm] at this
  simp only [cst] at this
  omega

set_option maxRecDepth 1000000 in
/-- non-vacuity: 7 octets that announce 65 535 protocol IEs (NGSetupResponse, IE count `ffff`): the decoder fails,
    having passed 65 535 elements to `MakeSlice` (+ 3 octets of open-type buffer) in 13 steps — above the announced
    count, below the bound `9·56 + 262 143` -/
theorem overclaim_example :
    (match unmarshalCost Gen.Ngap.schema fuel (.struct Gen.Ngap.pduId) Gen.Ngap.decoderParams
        [0x20, 0x15, 0x00, 0x03, 0x00, 0xff, 0xff] with
      | (.error .error, c) => decide (c = ⟨65538, 13⟩)
      | _ => false) = true := by
  decide +kernel

set_option maxRecDepth 1000000 in
/-- non-vacuity: a valid 57-octet NGSetupRequest (the value of `Props.C04.ngSetupRequest`) decodes with 117
    elements/octets allocated in 71 steps -/
theorem valid_example :
    (unmarshalCost Gen.Ngap.schema fuel (.struct Gen.Ngap.pduId) Gen.Ngap.decoderParams
      [0x00, 0x15, 0x00, 0x35, 0x00, 0x00, 0x04, 0x00, 0x1b, 0x00, 0x08, 0x00, 0x02, 0xf8, 0x39, 0x00, 0x00, 0x01, 0x04,
       0x00, 0x52, 0x40, 0x09, 0x03, 0x00, 0x66, 0x72, 0x65, 0x65, 0x35, 0x67, 0x63, 0x00, 0x66, 0x00, 0x10, 0x00, 0x00,
       0x00, 0x00, 0x01, 0x00, 0x02, 0xf8, 0x39, 0x00, 0x00, 0x10, 0x08, 0x01, 0x02, 0x03, 0x00, 0x15, 0x40, 0x01, 0x20]).2 =
      ⟨117, 71⟩ := by
  decide +kernel

end Stgutg.Props.C14
