/-
  C02 — the reference AMF's `step` (Spec/Amf.lean) on the uplink messages of the life cycle after registration: PDU session
  establishment, service request, PDU session release, de-registration. Second module of C02 (Props/C02.lean is imported by the
  emulator-run lemmas that Props/C01.lean uses, so the theorems that build on C01's live here).

  Each theorem: for ALL arguments in range, the octets the emulator's wrapper returns make the judge raise no clause and move
  its state as the procedure expects. NGAP layer from C13 (Proofs/BuildersLife.lean), NAS security from
  `C02_protected_step_accepted` (C06), NAS contents from C09's constructor theorems.
-/
import Stgutg.Props.C01
import Stgutg.Props.C02
import Stgutg.Proofs.BuildersLife

namespace Stgutg.Props.C02
open Stgutg Stgutg.Model.Emulator Stgutg.Proofs.Emulator Stgutg.Builders
open Stgutg.Model.NasProtect Stgutg.Proofs.NasProtect Stgutg.Spec.NasSecurity
open Stgutg.Spec.NgapView Stgutg.Spec.Ts38413 Stgutg.Proofs.BuildersJudge Stgutg.Proofs.BuildersLife

/-! ### NGAP layer -/

theorem ueByRan_of (s : Spec.Amf.St) (pdu : Aper.Val) (ran : Int) (u : Spec.Amf.UeSt)
    (hran : Spec.Amf.ieInt pdu ieRANUENGAPID = some ran) (hu : s.ues.find? (·.ran == ran) = some u) :
    Spec.Amf.ueByRan s pdu = some u ∧ u.ran = ran := by
  refine ⟨by unfold Spec.Amf.ueByRan; rw [hran]; exact hu, ?_⟩
  have := List.find?_some hu
  simpa using this

theorem checkIds_ok (s : Spec.Amf.St) (k : Nat) (pdu : Aper.Val) (u : Spec.Amf.UeSt) (amf ran : Int)
    (hamf : Spec.Amf.ieInt pdu ieAMFUENGAPID = some amf) (hran : Spec.Amf.ieInt pdu ieRANUENGAPID = some ran)
    (hua : (u.ch.amfUeNgapId : Int) = amf) (hur : u.ran = ran) : Spec.Amf.checkIds s k pdu u = s := by
  unfold Spec.Amf.checkIds
  rw [hamf, hran, hua, hur]
  simp

/-- PDU SESSION RESOURCE SETUP RESPONSE for the session the UE requested: no clause, the session is established -/
theorem step_setupResponse (P : Prims) (cfg : Spec.Amf.Cfg) (chs : List Spec.Amf.Choice) (s : Spec.Amf.St) (k : Nat)
    (b : Bytes) (pdu : Aper.Val) (amf ran psi : Int) (hd : Spec.Amf.decodeNgap b = some pdu)
    (h1 : pduPresent pdu = some ((msgClass .PDUSessionResourceSetupResponse).index + 1))
    (h2 : pduProc pdu = some (procCode .PDUSessionResourceSetupResponse : Int))
    (hmiss : Spec.Amf.missingMandatory .PDUSessionResourceSetupResponse pdu = none)
    (hamf : Spec.Amf.ieInt pdu ieAMFUENGAPID = some amf) (hran : Spec.Amf.ieInt pdu ieRANUENGAPID = some ran)
    (hpsi : Spec.Amf.iePsis pdu iePDUSessionResourceSetupListSURes = some [psi])
    (u : Spec.Amf.UeSt) (hu : s.ues.find? (·.ran == ran) = some u) (hua : (u.ch.amfUeNgapId : Int) = amf)
    (hup : (u.psi : Int) = psi) (hsess : u.sess = .requested) :
    Spec.Amf.step P cfg chs s k b =
      { s.setUe { u with sess := .established } with established := s.established ++ [u.j] } := by
  have hmsg := msgOf_of pdu .PDUSessionResourceSetupResponse h1 h2 (by decide)
  obtain ⟨hby, hur⟩ := ueByRan_of s pdu ran u hran hu
  unfold Spec.Amf.step
  rw [hd]
  simp only [hmsg, hmiss, hby, checkIds_ok s k pdu u amf ran hamf hran hua hur, hpsi, hup, hsess]
  simp

/-- PDU SESSION RESOURCE RELEASE RESPONSE for the session being released -/
theorem step_releaseResponse (P : Prims) (cfg : Spec.Amf.Cfg) (chs : List Spec.Amf.Choice) (s : Spec.Amf.St) (k : Nat)
    (b : Bytes) (pdu : Aper.Val) (amf ran psi : Int) (hd : Spec.Amf.decodeNgap b = some pdu)
    (h1 : pduPresent pdu = some ((msgClass .PDUSessionResourceReleaseResponse).index + 1))
    (h2 : pduProc pdu = some (procCode .PDUSessionResourceReleaseResponse : Int))
    (hmiss : Spec.Amf.missingMandatory .PDUSessionResourceReleaseResponse pdu = none)
    (hamf : Spec.Amf.ieInt pdu ieAMFUENGAPID = some amf) (hran : Spec.Amf.ieInt pdu ieRANUENGAPID = some ran)
    (hpsi : Spec.Amf.iePsis pdu iePDUSessionResourceReleasedListRelRes = some [psi])
    (u : Spec.Amf.UeSt) (hu : s.ues.find? (·.ran == ran) = some u) (hua : (u.ch.amfUeNgapId : Int) = amf)
    (hup : (u.psi : Int) = psi) (r c : Bool) (hsess : u.sess = .releasing r c) :
    Spec.Amf.step P cfg chs s k b =
      ({ s with releases := if c then s.releases + 1 else s.releases } : Spec.Amf.St).setUe
        { u with sess := if c then .released else .releasing true c } := by
  have hmsg := msgOf_of pdu .PDUSessionResourceReleaseResponse h1 h2 (by decide)
  obtain ⟨hby, hur⟩ := ueByRan_of s pdu ran u hran hu
  unfold Spec.Amf.step
  rw [hd]
  simp only [hmsg, hmiss, hby, checkIds_ok s k pdu u amf ran hamf hran hua hur, hpsi, hup, hsess]
  simp

/-- UE CONTEXT RELEASE COMPLETE after the de-registration was accepted -/
theorem step_ueContextReleaseComplete (P : Prims) (cfg : Spec.Amf.Cfg) (chs : List Spec.Amf.Choice) (s : Spec.Amf.St) (k : Nat)
    (b : Bytes) (pdu : Aper.Val) (amf ran : Int) (hd : Spec.Amf.decodeNgap b = some pdu)
    (h1 : pduPresent pdu = some ((msgClass .UEContextReleaseComplete).index + 1))
    (h2 : pduProc pdu = some (procCode .UEContextReleaseComplete : Int))
    (hmiss : Spec.Amf.missingMandatory .UEContextReleaseComplete pdu = none)
    (hamf : Spec.Amf.ieInt pdu ieAMFUENGAPID = some amf) (hran : Spec.Amf.ieInt pdu ieRANUENGAPID = some ran)
    (u : Spec.Amf.UeSt) (hu : s.ues.find? (·.ran == ran) = some u) (hua : (u.ch.amfUeNgapId : Int) = amf)
    (hreg : u.reg = .deregistering) :
    Spec.Amf.step P cfg chs s k b = { s.setUe { u with reg := .deregistered } with deregs := s.deregs + 1 } := by
  have hmsg := msgOf_of pdu .UEContextReleaseComplete h1 h2 (by decide)
  obtain ⟨hby, hur⟩ := ueByRan_of s pdu ran u hran hu
  unfold Spec.Amf.step
  rw [hd]
  simp only [hmsg, hmiss, hby, checkIds_ok s k pdu u amf ran hamf hran hua hur, hreg]
  simp

/-- INITIAL CONTEXT SETUP RESPONSE answering the INITIAL CONTEXT SETUP REQUEST that follows a Service Request -/
theorem step_icsResponseSvc (P : Prims) (cfg : Spec.Amf.Cfg) (chs : List Spec.Amf.Choice) (s : Spec.Amf.St) (k : Nat)
    (b : Bytes) (pdu : Aper.Val) (amf ran psi : Int) (hd : Spec.Amf.decodeNgap b = some pdu)
    (h1 : pduPresent pdu = some ((msgClass .InitialContextSetupResponse).index + 1))
    (h2 : pduProc pdu = some (procCode .InitialContextSetupResponse : Int))
    (hmiss : Spec.Amf.missingMandatory .InitialContextSetupResponse pdu = none)
    (hamf : Spec.Amf.ieInt pdu ieAMFUENGAPID = some amf) (hran : Spec.Amf.ieInt pdu ieRANUENGAPID = some ran)
    (hpsi : Spec.Amf.iePsis pdu iePDUSessionResourceSetupListCxtRes = some [psi])
    (u : Spec.Amf.UeSt) (hu : s.ues.find? (·.ran == ran) = some u) (hua : (u.ch.amfUeNgapId : Int) = amf)
    (hup : (u.psi : Int) = psi) (hsvc : u.svcPending = true) :
    Spec.Amf.step P cfg chs s k b = { s.setUe { u with svcPending := false } with services := s.services + 1 } := by
  have hmsg := msgOf_of pdu .InitialContextSetupResponse h1 h2 (by decide)
  obtain ⟨hby, hur⟩ := ueByRan_of s pdu ran u hran hu
  unfold Spec.Amf.step
  rw [hd]
  simp only [hmsg, hmiss, hby, checkIds_ok s k pdu u amf ran hamf hran hua hur, hpsi, hup, hsvc]
  simp

/-- INITIAL UE MESSAGE from a known UE carrying a protected NAS message (Service Request): no NGAP clause; the NAS-PDU goes to
    the protected-NAS handler as an initial message -/
theorem step_initialUEMessage_protected (P : Prims) (cfg : Spec.Amf.Cfg) (chs : List Spec.Amf.Choice) (s : Spec.Amf.St) (k : Nat)
    (b : Bytes) (pdu : Aper.Val) (ran : Int) (nas : Bytes) (hd : Spec.Amf.decodeNgap b = some pdu)
    (h1 : pduPresent pdu = some ((msgClass .InitialUEMessage).index + 1))
    (h2 : pduProc pdu = some (procCode .InitialUEMessage : Int))
    (hmiss : Spec.Amf.missingMandatory .InitialUEMessage pdu = none)
    (hran : Spec.Amf.ieInt pdu ieRANUENGAPID = some ran) (hnas : Spec.Amf.ieOcts pdu ieNASPDU = some nas)
    (hsetup : s.ngSetup = true) (hprot : (Spec.Amf.byteAt nas 1 % 16 == 0) = false)
    (u : Spec.Amf.UeSt) (hu : s.ues.find? (·.ran == ran) = some u) :
    Spec.Amf.step P cfg chs s k b = Spec.Amf.onProtectedUplink P cfg s k u true nas := by
  have hmsg := msgOf_of pdu .InitialUEMessage h1 h2 (by decide)
  obtain ⟨hby, _⟩ := ueByRan_of s pdu ran u hran hu
  unfold Spec.Amf.step
  rw [hd]
  simp only [hmsg, hmiss, hsetup, hnas, hprot, if_true, Bool.false_eq_true, if_false]
  rw [hby]

/-! ### the judge's record of a UE and the emulator's security context, between two protected messages -/

/-- the emulator's context holds the network's keys, its UL NAS COUNT is one above the last COUNT the AMF accepted, and every
    COUNT used under the keys is at most that one (`C02_protected_step_accepted`'s invariant) -/
structure Live (sec : UeSec) (u : Spec.Amf.UeSt) (c : Nat) : Prop where
  hin : InStep sec u
  hlast : u.last = some c
  hcnt : cval sec.ulCount = c + 1
  hused : ∀ x ∈ u.used, x ≤ c

theorem Live.congr {sec : UeSec} {u u' : Spec.Amf.UeSt} {c : Nat} (h : Live sec u c) (h1 : u'.aka = u.aka)
    (h2 : u'.last = u.last) (h3 : u'.used = u.used) : Live sec u' c := by
  obtain ⟨⟨a, b⟩, hl, hc, hu⟩ := h
  refine ⟨⟨?_, b⟩, by rw [h2]; exact hl, hc, by rw [h3]; exact hu⟩
  rw [a]; simp [Spec.Amf.ctxOf, h1]

/-- the next protected message (security header type 2) of a live UE: accepted by the judge's NAS-security clause with COUNT
    `c + 1` whether or not an initial message is expected, and the invariant holds again -/
theorem Live.send (P : Prims) (hP : PrimsOk P) {sec : UeSec} {u : Spec.Amf.UeSt} {c : Nat} (h : Live sec u c)
    (hc : c + 2 < 2 ^ 24) (plain : Bytes) :
    ∃ o, (Model.NasProtect.encodeNasPduWithSecurity P sec plain 2 true false).2 = .ok o ∧ Spec.Amf.byteAt o 1 = 2 ∧
      Spec.Amf.receiveUl P u false [2] o = .ok (plain, c + 1) ∧
      Spec.Amf.receiveUl P u false [1, 2] o = .ok (plain, c + 1) ∧
      Live (Model.NasProtect.encodeNasPduWithSecurity P sec plain 2 true false).1 (Spec.Amf.accepted u 2 (c + 1)) (c + 1) := by
  obtain ⟨o, ho, hr, hin', hl', hc', hu'⟩ :=
    C02_protected_step_accepted P hP sec u h.hin c h.hlast h.hcnt hc h.hused plain 2 [2] (.inr rfl) rfl
  obtain ⟨o2, ho2, hr2, _⟩ :=
    C02_protected_step_accepted P hP sec u h.hin c h.hlast h.hcnt hc h.hused plain 2 [1, 2] (.inr rfl) rfl
  obtain ⟨o3, ho3, hb1, _⟩ := protected_step P hP sec u h.hin plain 2 false rfl
  rw [ho] at ho2 ho3
  cases ho2; cases ho3
  exact ⟨o, ho, hb1, hr, hr2, hin', hl', hc', hu'⟩

theorem setUe_setUe (s : Spec.Amf.St) (a b : Spec.Amf.UeSt) (h : a.j = b.j) : (s.setUe a).setUe b = s.setUe b := by
  simp only [Spec.Amf.St.setUe, List.map_map]
  congr 1
  apply List.map_congr_left
  intro x _
  simp only [Function.comp]
  by_cases hx : (x.j == a.j) = true
  · have hx' : (x.j == b.j) = true := by rw [← h]; exact hx
    simp only [hx', if_true, h, beq_self_eq_true]
  · have hx' : (x.j == b.j) = false := by rw [← h]; simpa using hx
    simp only [Bool.not_eq_true] at hx
    simp only [hx, hx', Bool.false_eq_true, if_false]

theorem setUe_find (s : Spec.Amf.St) (ran : Int) (u u' : Spec.Amf.UeSt) (hu : s.ues.find? (·.ran == ran) = some u)
    (hj : u'.j = u.j) (hr : u'.ran = ran) : (s.setUe u').ues.find? (·.ran == ran) = some u' := by
  simp only [Spec.Amf.St.setUe]
  generalize s.ues = l at hu
  induction l with
  | nil => simp at hu
  | cons x xs ih =>
    simp only [List.find?_cons] at hu
    simp only [List.map_cons, List.find?_cons]
    by_cases hx : (x.ran == ran) = true
    · rw [hx] at hu
      cases hu
      simp [hj, hr]
    · simp only [hx] at hu
      by_cases hxj : (x.j == u'.j) = true
      · simp [hxj, hr]
      · simp only [hxj, Bool.false_eq_true, if_false, hx]
        exact ih hu

/-! ### NAS layer: the protected-NAS handler on the messages of a registered UE -/

theorem registered_ne_smcSent : (Spec.Amf.Reg.registered == Spec.Amf.Reg.smcSent) = false := rfl

theorem accepted_reg (u : Spec.Amf.UeSt) (c : Nat) : (Spec.Amf.accepted u 2 c).reg = u.reg ∧
    (Spec.Amf.accepted u 2 c).sess = u.sess ∧ (Spec.Amf.accepted u 2 c).psi = u.psi ∧ (Spec.Amf.accepted u 2 c).j = u.j ∧
    (Spec.Amf.accepted u 2 c).ran = u.ran ∧ (Spec.Amf.accepted u 2 c).ch = u.ch ∧
    (Spec.Amf.accepted u 2 c).svcPending = u.svcPending ∧ (Spec.Amf.accepted u 2 c).aka = u.aka := by
  simp [Spec.Amf.accepted, Spec.NasSecurity.newContext]

/-- an accepted UL NAS TRANSPORT from a registered UE whose payload container type is "N1 SM information": to the 5GSM
    handler, with the COUNT recorded -/
theorem onProtected_ulNasTransport (P : Prims) (cfg : Spec.Amf.Cfg) (s : Spec.Amf.St) (k : Nat) (u : Spec.Amf.UeSt)
    (nas plain : Bytes) (c : Nat) (m : Spec.Ts24501.SMsg) (hsht : Spec.Amf.byteAt nas 1 = 2) (hreg : u.reg = .registered)
    (hrul : Spec.Amf.receiveUl P u false [2] nas = .ok (plain, c))
    (hb0 : Spec.Amf.byteAt plain 0 = 0x7E) (hb1 : Spec.Amf.byteAt plain 1 = 0) (hb2 : Spec.Amf.byteAt plain 2 = 0x67)
    (hparse : Spec.Amf.parseNas Spec.Ts24501.ulNasTransport plain = some m)
    (hpct : Spec.Amf.byteAt ((m.mand[3]?).getD []) 0 % 16 = 1) :
    Spec.Amf.onProtectedUplink P cfg s k u false nas =
      Spec.Amf.onSessionMessage (s.setUe (Spec.Amf.accepted u 2 c)) k (Spec.Amf.accepted u 2 c) m := by
  unfold Spec.Amf.onProtectedUplink
  simp only [hsht, hreg, registered_ne_smcSent, Bool.false_eq_true, if_false, hrul, hb0, hb1, hb2, hparse, hpct]
  simp

/-- an accepted SERVICE REQUEST in an initial message from a registered UE with an established session -/
theorem onProtected_serviceRequest (P : Prims) (cfg : Spec.Amf.Cfg) (s : Spec.Amf.St) (k : Nat) (u : Spec.Amf.UeSt)
    (nas plain : Bytes) (c : Nat) (m : Spec.Ts24501.SMsg) (hsht : Spec.Amf.byteAt nas 1 = 2) (hreg : u.reg = .registered)
    (hsess : u.sess = .established)
    (hrul : Spec.Amf.receiveUl P u false [1, 2] nas = .ok (plain, c))
    (hb0 : Spec.Amf.byteAt plain 0 = 0x7E) (hb1 : Spec.Amf.byteAt plain 1 = 0) (hb2 : Spec.Amf.byteAt plain 2 = 0x4C)
    (hparse : Spec.Amf.parseNas Spec.Ts24501.serviceRequest plain = some m)
    (htmsi : Spec.Amf.byteAt ((m.mand[4]?).getD []) 0 % 8 = 4) :
    Spec.Amf.onProtectedUplink P cfg s k u true nas = s.setUe { Spec.Amf.accepted u 2 c with svcPending := true } := by
  obtain ⟨ar, as, _⟩ := accepted_reg u c
  unfold Spec.Amf.onProtectedUplink
  simp only [hsht, hreg, registered_ne_smcSent, Bool.false_eq_true, if_false, hrul, hb0, hb1, hb2, hparse, htmsi, if_true]
  simp [ar, as, hreg, hsess, setUe_setUe]

/-- an accepted DEREGISTRATION REQUEST (UE originating) naming the UE's own SUCI -/
theorem onProtected_deregistrationRequest (P : Prims) (cfg : Spec.Amf.Cfg) (s : Spec.Amf.St) (k : Nat) (u : Spec.Amf.UeSt)
    (nas plain : Bytes) (c : Nat) (m : Spec.Ts24501.SMsg) (hsht : Spec.Amf.byteAt nas 1 = 2) (hreg : u.reg = .registered)
    (hrul : Spec.Amf.receiveUl P u false [2] nas = .ok (plain, c))
    (hb0 : Spec.Amf.byteAt plain 0 = 0x7E) (hb1 : Spec.Amf.byteAt plain 1 = 0) (hb2 : Spec.Amf.byteAt plain 2 = 0x45)
    (hparse : Spec.Amf.parseNas Spec.Ts24501.deregistrationRequestUEOriginating plain = some m)
    (hsuci : Spec.Amf.suciIs cfg u.j ((m.mand[4]?).getD []) = true) :
    Spec.Amf.onProtectedUplink P cfg s k u false nas = s.setUe { Spec.Amf.accepted u 2 c with reg := .deregistering } := by
  obtain ⟨ar, _, _, aj, _⟩ := accepted_reg u c
  unfold Spec.Amf.onProtectedUplink
  simp only [hsht, hreg, registered_ne_smcSent, Bool.false_eq_true, if_false, hrul, hb0, hb1, hb2, hparse]
  simp [ar, aj, hreg, hsuci, setUe_setUe]

/-! ### 5GSM layer -/

open Stgutg.Spec.Ts24501 in
/-- table fact: the three 5GSM messages the emulator sends inside UL NAS TRANSPORT parse under the standard's tables, for
    every assignable PDU session identity -/
theorem gsm_parse : ∀ psi < 16,
    (Spec.Amf.parseNas pduSessionEstablishmentRequest
      ([0x2E, UInt8.ofNat psi, 0x01, 0xC1, 0xFF, 0xFF, 0x91, 0x7B, 0x00, 0x0A] ++ Intended.pco)).isSome = true ∧
    (Spec.Amf.parseNas pduSessionReleaseRequest [0x2E, UInt8.ofNat psi, 0x01, 0xD1]).isSome = true ∧
    (Spec.Amf.parseNas pduSessionReleaseComplete [0x2E, UInt8.ofNat psi, 0x01, 0xD4]).isSome = true := by
  decide +kernel

theorem byteAt_u8 (psi : Nat) (h : psi < 256) (a : UInt8) (l : Bytes) : Spec.Amf.byteAt (a :: UInt8.ofNat psi :: l) 1 = psi := by
  simp [Spec.Amf.byteAt, Nat.mod_eq_of_lt h]

open Stgutg.Spec.Ts24501 in
/-- the common part of the 5GSM handler on a UL NAS TRANSPORT as the emulator's constructors make it: 5GSM protocol
    discriminator, the PDU session ID IE equal to the inner message's, an assignable PSI and PTI 1 -/
theorem session_facts (payload tl : Bytes) (psi : Nat) (rt : Option Nat) (dnn : Bytes) (sn : Option (Nat × Bytes)) (ty : UInt8)
    (hpl : payload = 0x2E :: UInt8.ofNat psi :: 0x01 :: ty :: tl) (h1 : 1 ≤ psi) (h15 : psi ≤ 15) :
    ((Intended.ulNasTransport payload psi rt dnn sn).mand[4]?).getD [] = payload ∧
    Spec.Amf.optIE (Intended.ulNasTransport payload psi rt dnn sn) 0x12 = some [UInt8.ofNat psi] ∧ (UInt8.ofNat psi).toNat = psi ∧
    Spec.Amf.byteAt payload 0 = 0x2E ∧ payload.length ≥ 4 ∧ Spec.Amf.byteAt payload 1 = psi ∧ Spec.Amf.byteAt payload 2 = 1 ∧
    Spec.Amf.byteAt payload 3 = ty.toNat ∧ Spec.Amf.psiAssignable psi = true ∧ Spec.Amf.ptiAssignable 1 = true := by
  subst hpl
  refine ⟨rfl, ?_, ?_, rfl, by simp, byteAt_u8 psi (by omega) _ _, rfl, rfl, by simp [Spec.Amf.psiAssignable, h1, h15], rfl⟩
  · simp [Spec.Amf.optIE, Intended.ulNasTransport, Intended.u8]
  · simp [Nat.mod_eq_of_lt (show psi < 256 by omega)]

open Stgutg.Spec.Ts24501 in
/-- PDU SESSION ESTABLISHMENT REQUEST from a registered UE without a session in progress: no clause, session REQUESTED -/
theorem onSession_establishment (s : Spec.Amf.St) (k : Nat) (u : Spec.Amf.UeSt) (psi : Nat) (rt : Option Nat) (dnn : Bytes)
    (sn : Option (Nat × Bytes)) (h1 : 1 ≤ psi) (h15 : psi ≤ 15) (hreg : u.reg = .registered)
    (hsess : u.sess = .none ∨ u.sess = .established ∨ u.sess = .released) :
    Spec.Amf.onSessionMessage s k u (Intended.ulNasTransport
        ([0x2E, UInt8.ofNat psi, 0x01, 0xC1, 0xFF, 0xFF, 0x91, 0x7B, 0x00, 0x0A] ++ Intended.pco) psi rt dnn sn) =
      s.setUe { u with sess := .requested, psi := psi } := by
  have hp := (gsm_parse psi (by omega)).1
  generalize hpl : ([0x2E, UInt8.ofNat psi, 0x01, 0xC1, 0xFF, 0xFF, 0x91, 0x7B, 0x00, 0x0A] ++ Intended.pco : Bytes) = payload at hp ⊢
  obtain ⟨f1, f2, f2', f3, f4, f5, f6, f7, f8, f9⟩ :=
    session_facts payload ([0xFF, 0xFF, 0x91, 0x7B, 0x00, 0x0A] ++ Intended.pco) psi rt dnn sn 0xC1 (hpl.symm.trans rfl) h1 h15
  have hs : (u.sess == .none || u.sess == .established || u.sess == .released) = true := by
    rcases hsess with h | h | h <;> rw [h] <;> rfl
  unfold Spec.Amf.onSessionMessage
  simp only [f1, f2, f2', f3, f5, f6, f7, f8, f9, hp, hreg, hs]
  simp [f4]

open Stgutg.Spec.Ts24501 in
/-- PDU SESSION RELEASE REQUEST for the established session: no clause, session RELEASING -/
theorem onSession_releaseRequest (s : Spec.Amf.St) (k : Nat) (u : Spec.Amf.UeSt) (psi : Nat) (rt : Option Nat) (dnn : Bytes)
    (sn : Option (Nat × Bytes)) (h1 : 1 ≤ psi) (h15 : psi ≤ 15) (hsess : u.sess = .established) (hpsi : u.psi = psi) :
    Spec.Amf.onSessionMessage s k u (Intended.ulNasTransport [0x2E, UInt8.ofNat psi, 0x01, 0xD1] psi rt dnn sn) =
      s.setUe { u with sess := .releasing false false } := by
  obtain ⟨f1, f2, f2', f3, f4, f5, f6, f7, f8, f9⟩ := session_facts _ [] psi rt dnn sn 0xD1 rfl h1 h15
  have hp := (gsm_parse psi (by omega)).2.1
  unfold Spec.Amf.onSessionMessage
  simp only [f1, f2, f2', f3, f5, f6, f7, f8, f9, hp, hsess, hpsi]
  simp

open Stgutg.Spec.Ts24501 in
/-- PDU SESSION RELEASE COMPLETE for the session being released: no clause; the release is counted when the NGAP response
    was seen before (the emulator's order) -/
theorem onSession_releaseComplete (s : Spec.Amf.St) (k : Nat) (u : Spec.Amf.UeSt) (psi : Nat) (rt : Option Nat) (dnn : Bytes)
    (sn : Option (Nat × Bytes)) (h1 : 1 ≤ psi) (h15 : psi ≤ 15) (r c : Bool) (hsess : u.sess = .releasing r c)
    (hpsi : u.psi = psi) :
    Spec.Amf.onSessionMessage s k u (Intended.ulNasTransport [0x2E, UInt8.ofNat psi, 0x01, 0xD4] psi rt dnn sn) =
      ({ s with releases := if r then s.releases + 1 else s.releases } : Spec.Amf.St).setUe
        { u with sess := if r then .released else .releasing r true } := by
  obtain ⟨f1, f2, f2', f3, f4, f5, f6, f7, f8, f9⟩ := session_facts _ [] psi rt dnn sn 0xD4 rfl h1 h15
  have hp := (gsm_parse psi (by omega)).2.2
  unfold Spec.Amf.onSessionMessage
  simp only [f1, f2, f2', f3, f5, f6, f7, f8, f9, hp, hsess, hpsi]
  simp

/-! ### the nine uplink messages of the life cycle after registration: what the emulator's wrappers return, judged -/

open Stgutg.Spec.Ts24501 Stgutg.Props.C09

theorem ctorParses_elim (L : Nas.Layout) (model : Res Nas.Msg) (expected : SMsg)
    (h : ctorParses L model expected = true) :
    ∃ w bs, wireOf L = some w ∧ Nas.Ctor.encodeWith L model = .ok bs ∧ parse w bs = some expected := by
  unfold ctorParses at h
  split at h
  · rename_i w bs hw hb
    exact ⟨w, bs, hw, hb, by simpa using h⟩
  · simp at h

theorem parseNas_of (L : Nas.Layout) (t : Table) (w : Wire) (bs : Bytes) (m : SMsg) (ht : tableByName L.name = some t)
    (hw : wireOf L = some w) (hp : parse w bs = some m) : Spec.Amf.parseNas t bs = some m := by
  unfold wireOf at hw
  rw [ht] at hw
  unfold Spec.Amf.parseNas
  simp only [Option.bind_some] at hw
  rw [hw]
  exact hp

set_option maxRecDepth 100000 in
theorem life_heads :
    (wireOf Gen.Nas.layout_ULNASTransport).map (·.mand.take 3) = some [.v 1, .v 1, .v 1] ∧
    (wireOf Gen.Nas.layout_ServiceRequest).map (·.mand.take 3) = some [.v 1, .v 1, .v 1] ∧
    (wireOf Gen.Nas.layout_DeregistrationRequestUEOriginatingDeregistration).map (·.mand.take 3) = some [.v 1, .v 1, .v 1] := by
  decide +kernel

theorem life_tables :
    tableByName Gen.Nas.layout_ULNASTransport.name = some ulNasTransport ∧
    tableByName Gen.Nas.layout_ServiceRequest.name = some Spec.Ts24501.serviceRequest ∧
    tableByName Gen.Nas.layout_DeregistrationRequestUEOriginatingDeregistration.name = some deregistrationRequestUEOriginating :=
  ⟨rfl, rfl, rfl⟩

/-- NGAP + NAS security for a protected message of a live UE in UPLINK NAS TRANSPORT: no NGAP clause, no NAS-security clause;
    the plain message reaches the protected-NAS handler with COUNT `c + 1`, and the invariant holds again -/
theorem step_protected_uplink (P : Prims) (hP : PrimsOk P) (cfg : Spec.Amf.Cfg) (chs : List Spec.Amf.Choice)
    (s : Spec.Amf.St) (k : Nat) (E : Model.Convert.Ext) (plmn : Bytes) (hplmn : plmn.length = 3) (ran : Int)
    (hr0 : 0 ≤ ran) (hr1 : ran < 2 ^ 32)
    (u : Spec.Amf.UeSt) (hu : s.ues.find? (·.ran == ran) = some u) (ha1 : u.ch.amfUeNgapId < 2 ^ 40)
    (sec : UeSec) (c : Nat) (hl : Live sec u c) (hc : c + 2 < 2 ^ 24) (plain : Bytes) :
    ∃ o b, (Model.NasProtect.encodeNasPduWithSecurity P sec plain 2 true false).2 = .ok o ∧
      Wrapper.run E .GetUplinkNASTransport plmn [.int u.ch.amfUeNgapId, .int ran, .octs o] = .ok (.ok b) ∧
      Spec.Amf.byteAt o 1 = 2 ∧ Spec.Amf.receiveUl P u false [2] o = .ok (plain, c + 1) ∧
      Live (Model.NasProtect.encodeNasPduWithSecurity P sec plain 2 true false).1 (Spec.Amf.accepted u 2 (c + 1)) (c + 1) ∧
      Spec.Amf.step P cfg chs s k b = Spec.Amf.onProtectedUplink P cfg s k u false o := by
  obtain ⟨o, ho, hb1, hr, _, hl'⟩ := hl.send P hP hc plain
  obtain ⟨b, hrun, hstep⟩ := C01.C01_step_uplink_nas_transport P cfg chs s k E plmn hplmn ran o hr0 hr1 u hu ha1
  refine ⟨o, b, ho, hrun, hb1, hr, hl', ?_⟩
  rw [hstep, hb1]
  rfl

/-- the same for a 5GSM message in UL NAS TRANSPORT built by one of the emulator's constructors (`hparse`: what C09 proves
    of them): it reaches the 5GSM handler -/
theorem step_session_message (P : Prims) (hP : PrimsOk P) (cfg : Spec.Amf.Cfg) (chs : List Spec.Amf.Choice)
    (s : Spec.Amf.St) (k : Nat) (E : Model.Convert.Ext) (plmn : Bytes) (hplmn : plmn.length = 3) (ran : Int)
    (hr0 : 0 ≤ ran) (hr1 : ran < 2 ^ 32)
    (u : Spec.Amf.UeSt) (hu : s.ues.find? (·.ran == ran) = some u) (ha1 : u.ch.amfUeNgapId < 2 ^ 40)
    (sec : UeSec) (c : Nat) (hl : Live sec u c) (hc : c + 2 < 2 ^ 24) (hreg : u.reg = .registered)
    (w : Wire) (plain payload : Bytes) (psi : Nat) (rt : Option Nat) (dnn : Bytes) (sn : Option (Nat × Bytes))
    (hw : wireOf Gen.Nas.layout_ULNASTransport = some w)
    (hparse : parse w plain = some (Intended.ulNasTransport payload psi rt dnn sn)) :
    ∃ o b, (Model.NasProtect.encodeNasPduWithSecurity P sec plain 2 true false).2 = .ok o ∧
      Wrapper.run E .GetUplinkNASTransport plmn [.int u.ch.amfUeNgapId, .int ran, .octs o] = .ok (.ok b) ∧
      Live (Model.NasProtect.encodeNasPduWithSecurity P sec plain 2 true false).1 (Spec.Amf.accepted u 2 (c + 1)) (c + 1) ∧
      Spec.Amf.step P cfg chs s k b =
        Spec.Amf.onSessionMessage (s.setUe (Spec.Amf.accepted u 2 (c + 1))) k (Spec.Amf.accepted u 2 (c + 1))
          (Intended.ulNasTransport payload psi rt dnn sn) := by
  obtain ⟨o, b, ho, hrun, hb1, hr, hl', hstep⟩ :=
    step_protected_uplink P hP cfg chs s k E plmn hplmn ran hr0 hr1 u hu ha1 sec c hl hc plain
  have hmand : w.mand.take 3 = [.v 1, .v 1, .v 1] := by
    have := life_heads.1
    rw [hw] at this
    simpa using this
  obtain ⟨b0, b1, b2⟩ := parse_header' w plain _ hmand hparse 0x7E 0x00 0x67 _ rfl
  refine ⟨o, b, ho, hrun, hl', ?_⟩
  rw [hstep]
  exact onProtected_ulNasTransport P cfg s k u o plain (c + 1) _ hb1 hreg hr b0 b1 b2
    (parseNas_of Gen.Nas.layout_ULNASTransport _ w plain _ life_tables.1 hw hparse) rfl

theorem setUe_setUe_rel (s : Spec.Amf.St) (a b : Spec.Amf.UeSt) (X : Nat) (h : a.j = b.j) :
    ({ s.setUe a with releases := X } : Spec.Amf.St).setUe b = { s.setUe b with releases := X } := by
  have := congrArg Spec.Amf.St.ues (setUe_setUe s a b h)
  simp only [Spec.Amf.St.setUe] at this ⊢
  rw [this]

section
variable (P : Prims) (hP : PrimsOk P) (cfg : Spec.Amf.Cfg) (chs : List Spec.Amf.Choice)
    (s : Spec.Amf.St) (k : Nat) (E : Model.Convert.Ext) (plmn : Bytes) (hplmn : plmn.length = 3) (ran : Int)
    (hr0 : 0 ≤ ran) (hr1 : ran < 2 ^ 32)
    (u : Spec.Amf.UeSt) (hu : s.ues.find? (·.ran == ran) = some u) (ha1 : u.ch.amfUeNgapId < 2 ^ 40)
include hplmn hr0 hr1 hu ha1

/-- **C02_step_establishment_request.** EstablishPDU, first uplink message: UL NAS TRANSPORT with the PDU SESSION
    ESTABLISHMENT REQUEST the emulator's constructor builds (any assignable PDU session identity, any request type, DNN and
    S-NSSAI in the constructor's range), protected with header type 2 under the keys and the next COUNT of a live, REGISTERED
    UE, in UPLINK NAS TRANSPORT with the assigned identifiers: the judge raises no clause (NGAP, NAS security, 5GMM and 5GSM
    contents, prerequisite), records the COUNT and the requested session. -/
theorem C02_step_establishment_request (hP : PrimsOk P) (sec : UeSec) (c : Nat) (hl : Live sec u c) (hc : c + 2 < 2 ^ 24)
    (hreg : u.reg = .registered) (psi rt : Nat) (dnn : Bytes) (sn : Option (Nat × UInt8 × UInt8 × UInt8))
    (h1 : 1 ≤ psi) (h15 : psi ≤ 15) (hrt : rt < 8) (hd : dnn.length ≤ 99 ∧ ∀ c ∈ dnn, c ≠ 0x2E)
    (hs : ∀ x, sn = some x → x.1 < 256) (hsess : u.sess = .none ∨ u.sess = .established ∨ u.sess = .released) :
    ∃ plain o b, Nas.Ctor.encodeWith Gen.Nas.layout_ULNASTransport (Nas.Ctor.ulEstablishment (UInt8.ofNat psi) (UInt8.ofNat rt)
          dnn (sn.map fun x => ⟨UInt8.ofNat x.1, [x.2.1, x.2.2.1, x.2.2.2]⟩)) = .ok plain ∧
      (Model.NasProtect.encodeNasPduWithSecurity P sec plain 2 true false).2 = .ok o ∧
      Wrapper.run E .GetUplinkNASTransport plmn [.int u.ch.amfUeNgapId, .int ran, .octs o] = .ok (.ok b) ∧
      Live (Model.NasProtect.encodeNasPduWithSecurity P sec plain 2 true false).1
        { Spec.Amf.accepted u 2 (c + 1) with sess := .requested, psi := psi } (c + 1) ∧
      Spec.Amf.step P cfg chs s k b = s.setUe { Spec.Amf.accepted u 2 (c + 1) with sess := .requested, psi := psi } := by
  obtain ⟨w, plain, hw, henc, hparse⟩ := C09_ctor_ulEstablishment psi rt dnn sn (by omega) hrt hd hs
  obtain ⟨o, b, ho, hrun, hl', hstep⟩ := step_session_message P hP cfg chs s k E plmn hplmn ran hr0 hr1 u hu ha1 sec c hl hc hreg
    w plain _ psi _ _ _ hw hparse
  obtain ⟨ar, as, _⟩ := accepted_reg u (c + 1)
  refine ⟨plain, o, b, henc, ho, hrun, hl'.congr rfl rfl rfl, ?_⟩
  rw [hstep, onSession_establishment _ k _ psi _ _ _ h1 h15 (by rw [ar]; exact hreg) (by rw [as]; exact hsess)]
  exact setUe_setUe _ _ _ rfl

/-- **C02_step_release_request.** ReleasePDU, first uplink message: the PDU SESSION RELEASE REQUEST for the established
    session. -/
theorem C02_step_release_request (hP : PrimsOk P) (sec : UeSec) (c : Nat) (hl : Live sec u c) (hc : c + 2 < 2 ^ 24)
    (hreg : u.reg = .registered) (psi : Nat) (h1 : 1 ≤ psi) (h15 : psi ≤ 15) (hsess : u.sess = .established)
    (hpsi : u.psi = psi) :
    ∃ plain o b, Nas.Ctor.encodeWith Gen.Nas.layout_ULNASTransport (Nas.Ctor.ulReleaseRequest (UInt8.ofNat psi)) = .ok plain ∧
      (Model.NasProtect.encodeNasPduWithSecurity P sec plain 2 true false).2 = .ok o ∧
      Wrapper.run E .GetUplinkNASTransport plmn [.int u.ch.amfUeNgapId, .int ran, .octs o] = .ok (.ok b) ∧
      Live (Model.NasProtect.encodeNasPduWithSecurity P sec plain 2 true false).1
        { Spec.Amf.accepted u 2 (c + 1) with sess := .releasing false false } (c + 1) ∧
      Spec.Amf.step P cfg chs s k b = s.setUe { Spec.Amf.accepted u 2 (c + 1) with sess := .releasing false false } := by
  obtain ⟨w, plain, hw, henc, hparse⟩ := ctorParses_elim _ _ _ (C09_ctor_ulReleaseRequest psi (by omega))
  obtain ⟨o, b, ho, hrun, hl', hstep⟩ := step_session_message P hP cfg chs s k E plmn hplmn ran hr0 hr1 u hu ha1 sec c hl hc hreg
    w plain _ psi _ _ _ hw hparse
  obtain ⟨_, as, ap, _⟩ := accepted_reg u (c + 1)
  refine ⟨plain, o, b, henc, ho, hrun, hl'.congr rfl rfl rfl, ?_⟩
  rw [hstep, onSession_releaseRequest _ k _ psi _ _ _ h1 h15 (by rw [as]; exact hsess) (by rw [ap]; exact hpsi)]
  exact setUe_setUe _ _ _ rfl

/-- **C02_step_release_complete.** ReleasePDU, third uplink message: the PDU SESSION RELEASE COMPLETE; with the NGAP
    response seen before (`r`), the release is counted and the session is RELEASED. -/
theorem C02_step_release_complete (hP : PrimsOk P) (sec : UeSec) (c : Nat) (hl : Live sec u c) (hc : c + 2 < 2 ^ 24)
    (hreg : u.reg = .registered) (psi rt : Nat) (dnn : Bytes) (sn : Option (Nat × UInt8 × UInt8 × UInt8))
    (h1 : 1 ≤ psi) (h15 : psi ≤ 15) (hrt : rt < 8) (hd : dnn.length ≤ 99 ∧ ∀ c ∈ dnn, c ≠ 0x2E)
    (hs : ∀ x, sn = some x → x.1 < 256) (r cf : Bool) (hsess : u.sess = .releasing r cf) (hpsi : u.psi = psi) :
    ∃ plain o b, Nas.Ctor.encodeWith Gen.Nas.layout_ULNASTransport (Nas.Ctor.ulReleaseComplete (UInt8.ofNat psi) (UInt8.ofNat rt)
          dnn (sn.map fun x => ⟨UInt8.ofNat x.1, [x.2.1, x.2.2.1, x.2.2.2]⟩)) = .ok plain ∧
      (Model.NasProtect.encodeNasPduWithSecurity P sec plain 2 true false).2 = .ok o ∧
      Wrapper.run E .GetUplinkNASTransport plmn [.int u.ch.amfUeNgapId, .int ran, .octs o] = .ok (.ok b) ∧
      Live (Model.NasProtect.encodeNasPduWithSecurity P sec plain 2 true false).1
        { Spec.Amf.accepted u 2 (c + 1) with sess := if r then .released else .releasing r true } (c + 1) ∧
      Spec.Amf.step P cfg chs s k b =
        { s.setUe { Spec.Amf.accepted u 2 (c + 1) with sess := if r then .released else .releasing r true } with
          releases := if r then s.releases + 1 else s.releases } := by
  obtain ⟨w, plain, hw, henc, hparse⟩ := C09_ctor_ulReleaseComplete psi rt dnn sn (by omega) hrt hd hs
  obtain ⟨o, b, ho, hrun, hl', hstep⟩ := step_session_message P hP cfg chs s k E plmn hplmn ran hr0 hr1 u hu ha1 sec c hl hc hreg
    w plain _ psi _ _ _ hw hparse
  obtain ⟨_, as, ap, _⟩ := accepted_reg u (c + 1)
  refine ⟨plain, o, b, henc, ho, hrun, hl'.congr rfl rfl rfl, ?_⟩
  rw [hstep, onSession_releaseComplete _ k _ psi _ _ _ h1 h15 r cf (by rw [as]; exact hsess) (by rw [ap]; exact hpsi)]
  exact setUe_setUe_rel _ _ _ _ rfl

/-- **C02_step_deregistration_request.** DeregisterUE, first uplink message: the DEREGISTRATION REQUEST (UE originating) with
    the emulator's arguments (3GPP access, normal de-registration, ngKSI 4 — an even identifier, cf. F25) and a mobile identity
    that names the UE's own subscriber. -/
theorem C02_step_deregistration_request (hP : PrimsOk P) (sec : UeSec) (c : Nat) (hl : Live sec u c) (hc : c + 2 < 2 ^ 24)
    (hreg : u.reg = .registered) (mi : Nas.Val) (hlen : mi.len = mi.data.length) (hlt : mi.data.length < 65536)
    (hsuci : Spec.Amf.suciIs cfg u.j mi.data = true) :
    ∃ plain o b, Nas.Ctor.encodeWith Gen.Nas.layout_DeregistrationRequestUEOriginatingDeregistration
          (Nas.Ctor.deregistrationRequest 1 0 4 mi) = .ok plain ∧
      (Model.NasProtect.encodeNasPduWithSecurity P sec plain 2 true false).2 = .ok o ∧
      Wrapper.run E .GetUplinkNASTransport plmn [.int u.ch.amfUeNgapId, .int ran, .octs o] = .ok (.ok b) ∧
      Live (Model.NasProtect.encodeNasPduWithSecurity P sec plain 2 true false).1
        { Spec.Amf.accepted u 2 (c + 1) with reg := .deregistering } (c + 1) ∧
      Spec.Amf.step P cfg chs s k b = s.setUe { Spec.Amf.accepted u 2 (c + 1) with reg := .deregistering } := by
  obtain ⟨w, plain, hw, henc, hparse⟩ := C09_ctor_deregistrationRequest 1 0 4 mi (by omega) (by omega) (by omega) rfl hlen hlt
  obtain ⟨o, b, ho, hrun, hb1, hr, hl', hstep⟩ :=
    step_protected_uplink P hP cfg chs s k E plmn hplmn ran hr0 hr1 u hu ha1 sec c hl hc plain
  have hmand : w.mand.take 3 = [.v 1, .v 1, .v 1] := by
    have := life_heads.2.2
    rw [hw] at this
    simpa using this
  obtain ⟨b0, b1, b2⟩ := parse_header' w plain _ hmand hparse 0x7E 0x00 0x45 _ rfl
  refine ⟨plain, o, b, henc, ho, hrun, hl'.congr rfl rfl rfl, ?_⟩
  rw [hstep]
  exact onProtected_deregistrationRequest P cfg s k u o plain (c + 1) _ hb1 hreg hr b0 b1 b2
    (parseNas_of Gen.Nas.layout_DeregistrationRequestUEOriginatingDeregistration _ w plain _ life_tables.2.2 hw hparse) hsuci

omit ha1 in
/-- **C02_step_service_request.** ServiceRequest, first uplink message: the SERVICE REQUEST (service type "data") the
    emulator's constructor builds, protected with header type 2, in INITIAL UE MESSAGE with the UE's RAN-UE-NGAP-ID, from a
    REGISTERED UE with an established session: no clause; the INITIAL CONTEXT SETUP RESPONSE is awaited. -/
theorem C02_step_service_request (hP : PrimsOk P) (sec : UeSec) (c : Nat) (hl : Live sec u c) (hc : c + 2 < 2 ^ 24)
    (hreg : u.reg = .registered) (hsess : u.sess = .established) (hsetup : s.ngSetup = true) :
    ∃ plain o b, Nas.Ctor.encodeWith Gen.Nas.layout_ServiceRequest (Nas.Ctor.serviceRequest 1) = .ok plain ∧
      (Model.NasProtect.encodeNasPduWithSecurity P sec plain 2 true false).2 = .ok o ∧
      Wrapper.run E .GetInitialUEMessage plmn [.int ran, .octs o, .str []] = .ok (.ok b) ∧
      Live (Model.NasProtect.encodeNasPduWithSecurity P sec plain 2 true false).1
        { Spec.Amf.accepted u 2 (c + 1) with svcPending := true } (c + 1) ∧
      Spec.Amf.step P cfg chs s k b = s.setUe { Spec.Amf.accepted u 2 (c + 1) with svcPending := true } := by
  obtain ⟨w, plain, hw, henc, hparse⟩ := ctorParses_elim _ _ _ (C09_ctor_serviceRequest 1 (by omega))
  obtain ⟨o, ho, hb1, _, hr, hl'⟩ := hl.send P hP hc plain
  obtain ⟨pdu, b, hrun, hd, f1, f2, f3, f4, f5⟩ := initialUEMessage_wire E plmn hplmn ran o hr0 hr1
  have hmand : w.mand.take 3 = [.v 1, .v 1, .v 1] := by
    have := life_heads.2.1
    rw [hw] at this
    simpa using this
  obtain ⟨b0, b1, b2⟩ := parse_header' w plain _ hmand hparse 0x7E 0x00 0x4C _ rfl
  refine ⟨plain, o, b, henc, ho, hrun, hl'.congr rfl rfl rfl, ?_⟩
  rw [step_initialUEMessage_protected P cfg chs s k b pdu ran o hd f1 f2 f3 f4 f5 hsetup (by rw [hb1]; rfl) u hu]
  exact onProtected_serviceRequest P cfg s k u o plain (c + 1) _ hb1 hreg hsess hr b0 b1 b2
    (parseNas_of Gen.Nas.layout_ServiceRequest _ w plain _ life_tables.2.1 hw hparse) rfl

/-- **C02_step_setup_response.** EstablishPDU, second uplink message: PDU SESSION RESOURCE SETUP RESPONSE with the assigned
    identifiers, naming the requested session (any gNB address `GetPDUSessionResourceSetupResponse` accepts): no clause; the
    session is established and the subscriber recorded. -/
theorem C02_step_setup_response (ip : Bytes) (hip : cls E .ip (.str ip) = 2) (hp : u.psi ≤ 255) (hsess : u.sess = .requested) :
    ∃ b, Wrapper.run E .GetPDUSessionResourceSetupResponse plmn [.int u.ch.amfUeNgapId, .int ran, .int u.psi, .str ip]
        = .ok (.ok b) ∧
      Spec.Amf.step P cfg chs s k b =
        { s.setUe { u with sess := .established } with established := s.established ++ [u.j] } := by
  obtain ⟨pdu, b, hrun, hd, f1, f2, f3, f4, f5, f6⟩ := setupResponse_wire E plmn hplmn (u.ch.amfUeNgapId : Int) ran (u.psi : Int) ip
    ⟨by omega, by exact_mod_cast ha1, hr0, hr1, by omega, by exact_mod_cast hp, hip⟩
  exact ⟨b, hrun, step_setupResponse P cfg chs s k b pdu _ ran _ hd f1 f2 f3 f4 f5 f6 u hu rfl rfl hsess⟩

/-- **C02_step_ics_response_service.** ServiceRequest, second uplink message: INITIAL CONTEXT SETUP RESPONSE naming the UE's
    session while the response is awaited: no clause; the service request is counted. -/
theorem C02_step_ics_response_service (ip : Bytes) (hip : cls E .ip (.str ip) = 2) (hp : u.psi ≤ 255)
    (hsvc : u.svcPending = true) :
    ∃ b, Wrapper.run E .GetInitialContextSetupResponseForServiceRequest plmn
          [.int u.ch.amfUeNgapId, .int ran, .int u.psi, .str ip] = .ok (.ok b) ∧
      Spec.Amf.step P cfg chs s k b = { s.setUe { u with svcPending := false } with services := s.services + 1 } := by
  obtain ⟨pdu, b, hrun, hd, f1, f2, f3, f4, f5, f6⟩ := icsResponseSvc_wire E plmn hplmn (u.ch.amfUeNgapId : Int) ran (u.psi : Int) ip
    ⟨by omega, by exact_mod_cast ha1, hr0, hr1, by omega, by exact_mod_cast hp, hip⟩
  exact ⟨b, hrun, step_icsResponseSvc P cfg chs s k b pdu _ ran _ hd f1 f2 f3 f4 f5 f6 u hu rfl rfl hsvc⟩

/-- **C02_step_release_response.** ReleasePDU, second uplink message: PDU SESSION RESOURCE RELEASE RESPONSE naming the
    session being released. -/
theorem C02_step_release_response (hp : u.psi ≤ 255) (r cf : Bool) (hsess : u.sess = .releasing r cf) :
    ∃ b, Wrapper.run E .GetPDUSessionResourceReleaseResponse plmn [.int u.ch.amfUeNgapId, .int ran, .int u.psi] = .ok (.ok b) ∧
      Spec.Amf.step P cfg chs s k b =
        ({ s with releases := if cf then s.releases + 1 else s.releases } : Spec.Amf.St).setUe
          { u with sess := if cf then .released else .releasing true cf } := by
  obtain ⟨pdu, b, hrun, hd, f1, f2, f3, f4, f5, f6⟩ := releaseResponse_wire E plmn hplmn (u.ch.amfUeNgapId : Int) ran (u.psi : Int)
    (by omega) (by exact_mod_cast ha1) hr0 hr1 (by omega) (by exact_mod_cast hp)
  exact ⟨b, hrun, step_releaseResponse P cfg chs s k b pdu _ ran _ hd f1 f2 f3 f4 f5 f6 u hu rfl rfl r cf hsess⟩

/-- **C02_step_ue_context_release_complete.** DeregisterUE, second uplink message: UE CONTEXT RELEASE COMPLETE after the
    de-registration request: no clause; the de-registration is counted. -/
theorem C02_step_ue_context_release_complete (hreg : u.reg = .deregistering) :
    ∃ b, Wrapper.run E .GetUEContextReleaseComplete plmn [.int u.ch.amfUeNgapId, .int ran, .nil] = .ok (.ok b) ∧
      Spec.Amf.step P cfg chs s k b = { s.setUe { u with reg := .deregistered } with deregs := s.deregs + 1 } := by
  obtain ⟨pdu, b, hrun, hd, f1, f2, f3, f4, f5⟩ := ueContextReleaseComplete_wire E plmn hplmn (u.ch.amfUeNgapId : Int) ran
    (by omega) (by exact_mod_cast ha1) hr0 hr1
  exact ⟨b, hrun, step_ueContextReleaseComplete P cfg chs s k b pdu _ ran hd f1 f2 f3 f4 f5 u hu rfl hreg⟩

end

end Stgutg.Props.C02
